(* C20 -- TeamCity output is a balanced, correctly escaped service-message stream.
   Only statements; proofs are in C20_Escape.v, C20_Parse.v, C20_Console.v, C20_Proofs.v. *)
From Coq Require Import NArith Bool List.
From CppUVerif Require Import lib.Str C16_Events C20_Model C20_Escape C20_Parse C20_Console C20_Proofs.
Import ListNotations.
Local Open Scope N_scope.

(* decoding the output of printEscaped by the TeamCity rules returns the original text, and the escaped text has no ' [ ] LF CR
   that is not introduced by | (so it cannot end the value or the message) -- all byte strings *)
Theorem C20_escape_roundtrip : forall s, tc_unescape (tc_escape s) = Some s /\ no_raw_special (tc_escape s) = true.
Proof. exact escape_roundtrip. Qed.
Print Assumptions C20_escape_roundtrip.

(* a value that decodes at all has no raw special character, and decoding is compositional (values are printed in pieces) *)
Theorem C20_wellformed_value_has_no_raw_special : forall v u, tc_unescape v = Some u -> no_raw_special v = true.
Proof. exact unescape_some_no_raw. Qed.
Print Assumptions C20_wellformed_value_has_no_raw_special.

Theorem C20_unescape_compositional : forall a a' b b',
  tc_unescape a = Some a' -> tc_unescape b = Some b' -> tc_unescape (a ++ b) = Some (a' ++ b').
Proof. exact tc_unescape_app. Qed.
Print Assumptions C20_unescape_compositional.

(* the parser's value state decodes exactly as the textbook tc_unescape does *)
Theorem C20_parser_value_is_unescape : forall v u, tc_unescape v = Some u ->
  forall nm attrs k acc rest, run_sm (MVal nm attrs k acc) (v ++ rest) = run_sm (MVal nm attrs k (rev u ++ acc)) rest.
Proof. exact val_run. Qed.
Print Assumptions C20_parser_value_is_unescape.

(* the converse: whatever the parser accepts between two quotes is a well-formed escaped value, decoded as tc_unescape decodes it
   (so an accepted value holds no raw ' [ ] CR LF and does not end in a lone |) *)
Theorem C20_parser_accepts_only_wellformed_values : forall nm attrs k l nm' attrs',
  run_sm (MVal nm attrs k []) l = Some (MDone nm' attrs') ->
  exists v rest u, l = v ++ 39 :: rest /\ tc_unescape v = Some u /\ no_raw_special v = true
                   /\ run_sm (MAfter nm ((k, u) :: attrs)) rest = Some (MDone nm' attrs').
Proof. exact accepted_value_wellformed. Qed.
Print Assumptions C20_parser_accepts_only_wellformed_values.

(* the registry's loop with its groupStart flag brackets exactly the maximal runs of equally named groups, whatever the name
   filters select (a group none of whose tests is selected still gets its two callbacks), and whatever it reports about a shell it
   reports about the shell with the run options applied (arm = setRunIgnored under -ri, applied at the top of the iteration);
   without run options these are the registered tests themselves; without filters too it is the loop shared with C16 *)
Theorem C20_registry_order : forall ri fs ts, events_sel ri fs ts = flat_map (seg_events fs) (segments (map (arm ri) ts)).
Proof. exact reg_loop_segments. Qed.
Print Assumptions C20_registry_order.

Theorem C20_registry_order_no_run_options : forall fs ts, events_sel false fs ts = flat_map (seg_events fs) (segments ts).
Proof. exact reg_loop_segments_no_ri. Qed.
Print Assumptions C20_registry_order_no_run_options.

Theorem C20_registry_order_nofilter : forall ts, events_sel false [] ts = events_of ts.
Proof. exact events_nofilter. Qed.
Print Assumptions C20_registry_order_nofilter.

(* repeated passes (-r<n>) over the same registry and output: the shells stay armed, every pass reports what the first one reports,
   and every pass executes the same bodies *)
Theorem C20_passes : forall ri fs n ts,
  passes_events ri fs n ts = times n (events_sel false fs (map (arm ri) ts))
  /\ passes_exec ri fs n ts = times n (map (exec_count fs) (map (arm ri) ts)).
Proof. exact passes_times. Qed.
Print Assumptions C20_passes.

(* the parser run on any sequence of well-formed printed messages (identifier names, distinct keys, unescaped pieces free of
   special characters) followed by any text without # returns exactly the messages that were printed *)
Theorem C20_parse_print : forall items trailer, forallb item_ok items = true -> no_hash trailer = true ->
  tc_parse (flat_map item_print items ++ trailer) = Some (msgs_of_items items).
Proof. exact parse_items. Qed.
Print Assumptions C20_parse_print.

(* what the (repaired) writer prints for a run, callback by callback through currtest_ / currGroup_ / groupOpen_ *)
Theorem C20_writer_items : forall dur fs ri n ts,
  tc_items Esc true dur tc_init (passes_events ri fs n ts) = times n (flat_map (seg_items dur fs) (segments (map (arm ri) ts))).
Proof. exact run_items. Qed.
Print Assumptions C20_writer_items.

(* round trip of a whole run: the stream (followed by any summary text without #) parses to messages_of -- all byte strings
   as names, paths and messages, all pass/fail/ignore patterns, with and without run-ignored, any number of passes, all strict name
   filters, test bodies that do not print *)
Theorem C20_stream : forall dur fs ri n ts trailer, forallb noprint ts = true -> no_hash trailer = true ->
  tc_parse (render_tc dur ri n fs ts ++ trailer) = Some (messages_of dur ri n fs ts).
Proof. exact stream. Qed.
Print Assumptions C20_stream.

(* messages_of is balanced: every suite start has one finish of the same name, every test start inside a suite one finish of
   the same name, ignored / failed messages name the open test *)
Theorem C20_balanced : forall dur ri fs n ts, balanced (messages_of dur ri n fs ts) = true.
Proof. exact balanced_messages. Qed.
Print Assumptions C20_balanced.

(* messages_of with exec_of is faithful: per pass and group one suite bracket with the group's name, per selected test one bracket with
   the test's name, testIgnored iff the test is ignored and not run, a flagged test's body not executed, any other selected test's body
   executed once, one testFailed per failure in order with the failure's text and location *)
Theorem C20_messages_faithful : forall dur ri fs n ts,
  faithful ri fs (pass_groups n ts) (exec_of ri n fs ts) (messages_of dur ri n fs ts) = true.
Proof. exact faithful_messages. Qed.
Print Assumptions C20_messages_faithful.

(* the body executions the model counts (on the shells as armed by the loop) are the ones the property demands *)
Theorem C20_exec_model : forall ri fs n ts, passes_exec ri fs n ts = exec_of ri n fs ts.
Proof. exact exec_model. Qed.
Print Assumptions C20_exec_model.

(* what the oracle accepts for one test: started; the ignored flag iff the test is ignored and NOT run; with the flag the body was not
   executed and the very next message is the finish (no testFailed); without it the body was executed exactly once *)
Theorem C20_flag_iff_ignored_and_not_run : forall ri t c ms r, take_test ri t c ms = Some r ->
  exists m rest, ms = m :: rest /\ is_msg L_testStarted m = true /\
    ((runs ri t = false /\ c = 0 /\ exists i e, rest = i :: e :: r /\ is_flag t i = true /\ is_msg L_testFinished e = true)
     \/ (runs ri t = true /\ c = 1 /\ (match rest with i :: _ => is_flag t i | [] => false end) = false)).
Proof. exact take_test_reads. Qed.
Print Assumptions C20_flag_iff_ignored_and_not_run.

(* under run-ignored the observation (stream and body executions) of a registry equals that of the same registry with the ignored
   markers removed, for any number of passes; no message of such a run is a testIgnored *)
Theorem C20_run_ignored_as_unignored : forall dur n fs ts verb sink,
  run {| s_dur := dur; s_ri := true; s_passes := n; s_filters := fs; s_tests := ts; s_verb := verb; s_sink := sink |}
  = run {| s_dur := dur; s_ri := false; s_passes := n; s_filters := fs; s_tests := map unignore ts; s_verb := verb; s_sink := sink |}.
Proof. exact run_ignored_as_unignored. Qed.
Print Assumptions C20_run_ignored_as_unignored.

Theorem C20_run_ignored_no_flag : forall dur n fs ts,
  forallb (fun m => negb (is_msg L_testIgnored m)) (messages_of dur true n fs ts) = true.
Proof. exact run_ignored_no_flag. Qed.
Print Assumptions C20_run_ignored_no_flag.

(* the executable oracle accepts every stream the model writes -- for the scenarios without stages, plugins, exceptions and
   constructor kinds (the sublanguage of C20_Model.v; C20_run_meets_spec below is the statement for the whole scenario language) *)
Theorem C20_run_meets_spec_core : forall s, valid s = true -> spec s (run s) = true.
Proof. exact run_meets_spec. Qed.
Print Assumptions C20_run_meets_spec_core.

Theorem C20_run_meets_spec_core_with_text : forall s trailer, valid s = true -> no_hash trailer = true -> spec s (add_text (run s) trailer) = true.
Proof. exact run_meets_spec_text. Qed.
Print Assumptions C20_run_meets_spec_core_with_text.

(* spec = the stream parses (read strictly; a very verbose stream message-anywhere), the messages are balanced and, with the observed
   body executions, faithful to the scenario *)
Theorem C20_spec_reads : forall s o, spec s o = true <->
  exists ms, parse_for (s_verb s) (o_stream o) = Some ms /\ balanced ms = true
             /\ faithful (s_ri s) (s_filters s) (pass_groups (s_passes s) (s_tests s)) (o_exec o) ms = true.
Proof. exact spec_reads. Qed.
Print Assumptions C20_spec_reads.

(* the code before the two `fix:` commits for D15 violated the property *)
Theorem C20_run_old_path_refuted : ~ (forall s, valid s = true -> spec s (run_old_path s) = true).
Proof. exact run_old_path_refuted. Qed.
Print Assumptions C20_run_old_path_refuted.

Theorem C20_run_old_group_refuted : ~ (forall s, valid s = true -> spec s (run_old_group s) = true).
Proof. exact run_old_group_refuted. Qed.
Print Assumptions C20_run_old_group_refuted.

(* the parser is strict where the property needs it: a raw [ ] CR LF inside a value, a quote not followed by space or ],
   an unknown escape, and anything after the closing ] are rejected *)
Theorem C20_parser_rejects_raw_special : forall nm attrs k acc c rest, raw_forbidden c = true -> c <> 39 ->
  run_sm (MVal nm attrs k acc) (c :: rest) = None.
Proof. exact value_rejects_raw. Qed.
Print Assumptions C20_parser_rejects_raw_special.

Theorem C20_parser_quote_ends_value : forall nm attrs k acc c rest, c <> 32 -> c <> 93 ->
  run_sm (MVal nm attrs k acc) (39 :: c :: rest) = None.
Proof. exact value_quote_ends. Qed.
Print Assumptions C20_parser_quote_ends_value.

Theorem C20_parser_rejects_unknown_escape : forall nm attrs k acc d rest, unesc_char d = None ->
  run_sm (MVal nm attrs k acc) (124 :: d :: rest) = None.
Proof. exact value_rejects_unknown_escape. Qed.
Print Assumptions C20_parser_rejects_unknown_escape.

Theorem C20_hypotheses_satisfiable :
  valid example_run = true /\ length (messages_of 42 false 1 (s_filters example_run) (s_tests example_run)) = 16%nat /\ spec example_run (run example_run) = true
  /\ tc_parse (o_stream (run example_run)) = Some (messages_of 42 false 1 (s_filters example_run) (s_tests example_run)).
Proof. exact example_valid. Qed.
Print Assumptions C20_hypotheses_satisfiable.

(* run-ignored, two passes, an ignored test whose body fails: accepted with -ri as a normal failing test (executed in both passes, two
   testFailed), accepted without -ri as a flagged test that is not executed; each observation is rejected for the other scenario, and the
   observation "flagged although the body was executed" is rejected for both *)
Theorem C20_run_ignored_example :
  valid example_ri = true /\ spec example_ri (run example_ri) = true /\ o_exec (run example_ri) = [1; 1; 1; 1]
  /\ length (filter (is_msg L_testFailed) (messages_of 5 true 2 [] (s_tests example_ri))) = 2%nat
  /\ spec example_no_ri (run example_no_ri) = true /\ o_exec (run example_no_ri) = [0; 1; 0; 1]
  /\ spec example_ri (run example_no_ri) = false /\ spec example_no_ri (run example_ri) = false
  /\ spec example_ri late_options_obs = false /\ spec example_no_ri late_options_obs = false.
Proof. exact example_ri_valid. Qed.
Print Assumptions C20_run_ignored_example.

(* --------------------------------------------------------------------------------------------------------------
   The stream the property speaks of is what reaches standard output through the console path the TeamCity output inherits
   (ConsoleTestOutput::printBuffer -> PlatformSpecificFPuts + PlatformSpecificFlush), piece by piece.
   -------------------------------------------------------------------------------------------------------------- *)
(* the pieces handed to printBuffer (one per literal / number, one per character of an escaped value), one after the other, are the
   printed items *)
Theorem C20_pieces_concat : forall items, concat (flat_map item_pieces items) = flat_map item_print items.
Proof. exact pieces_concat. Qed.
Print Assumptions C20_pieces_concat.

(* ConsoleTestOutput::printBuffer (a write and a flush per piece): what reaches standard output is the pieces one after the other *)
Theorem C20_console_preserves_stream : forall pieces, written (console pieces) = concat pieces.
Proof. exact console_written. Qed.
Print Assumptions C20_console_preserves_stream.

(* so, wherever it is observed (the pieces themselves, the platform seam, the file descriptor), the stream of a run is its items
   printed one after the other; without -vv that is render_tc of the earlier theorems (-v adds nothing: TeamCityTestOutput overrides
   the two callbacks in which TestOutput prints test names, times and progress dots) *)
Theorem C20_run_stream : forall s, o_stream (run s) = flat_map item_print (run_items_of s).
Proof. exact run_stream. Qed.
Print Assumptions C20_run_stream.

Theorem C20_run_stream_quiet_or_verbose : forall s, s_verb s <> 2 ->
  o_stream (run s) = render_tc (s_dur s) (s_ri s) (s_passes s) (s_filters s) (s_tests s).
Proof. exact run_stream_quiet. Qed.
Print Assumptions C20_run_stream_quiet_or_verbose.

Theorem C20_sink_independent : forall s k,
  o_stream (run s) = o_stream (run {| s_dur := s_dur s; s_ri := s_ri s; s_passes := s_passes s; s_filters := s_filters s;
                                      s_tests := s_tests s; s_verb := s_verb s; s_sink := k |}).
Proof. exact sink_independent. Qed.
Print Assumptions C20_sink_independent.

(* the stream of every valid run (followed by any summary text without #) parses back to the messages the property demands of the
   run: strictly when quiet or verbose, message-anywhere when very verbose *)
Theorem C20_run_parses_back : forall s trailer, valid s = true -> no_hash trailer = true ->
  parse_for (s_verb s) (o_stream (run s) ++ trailer) = Some (messages_of (s_dur s) (s_ri s) (s_passes s) (s_filters s) (s_tests s)).
Proof. exact run_parse_text. Qed.
Print Assumptions C20_run_parses_back.

(* ANY chunking or buffering of the writes that preserves the concatenation of the pieces - flushes wherever - gives the model's
   observation, which the oracle accepts; a line buffer of any capacity that keeps every character is one *)
Theorem C20_any_chunking_accepted : forall s ops, valid s = true -> written ops = concat (run_pieces s) ->
  {| o_stream := written ops; o_exec := o_exec (run s) |} = run s /\ spec s {| o_stream := written ops; o_exec := o_exec (run s) |} = true.
Proof. intros s ops Hv E. split; [exact (run_of_chunks s ops E) | exact (spec_any_chunking s ops Hv E)]. Qed.
Print Assumptions C20_any_chunking_accepted.

Theorem C20_line_buffer_preserves_stream : forall cap pieces, written (linebuf false cap pieces) = concat pieces.
Proof. exact linebuf_keeps. Qed.
Print Assumptions C20_line_buffer_preserves_stream.

Theorem C20_line_buffer_run : forall cap s, run_linebuf false cap s = run s.
Proof. exact run_linebuf_keeps. Qed.
Print Assumptions C20_line_buffer_run.

(* the line buffer that forgets the character which finds the buffer full (255 usable bytes) violates the property - with a test
   name of 230 characters - although it is indistinguishable from the code on the runs with short lines *)
Theorem C20_lossy_line_buffer_refuted : ~ (forall s, valid s = true -> spec s (run_linebuf true 255 s) = true).
Proof. exact run_lossy_linebuf_refuted. Qed.
Print Assumptions C20_lossy_line_buffer_refuted.

Theorem C20_lossy_line_buffer_example :
  run_linebuf true 255 example_run = run example_run /\ run_linebuf true 255 example_ri = run example_ri
  /\ length (o_stream (run long_name_witness)) = (length (o_stream (run_linebuf true 255 long_name_witness)) + 2)%nat.
Proof. exact run_lossy_linebuf_short_lines. Qed.
Print Assumptions C20_lossy_line_buffer_example.

(* very verbose: the progress texts are callbacks of the kind "print" added around the body of a test that is run; they change
   neither the messages written nor their order *)
Theorem C20_very_verbose_adds_only_text : forall b es, strip_prints (vv_decorate b es) = strip_prints es.
Proof. exact (fun b es => strip_vv_decorate es b). Qed.
Print Assumptions C20_very_verbose_adds_only_text.

Theorem C20_very_verbose_stream : forall dur fs ri n ts trailer, forallb noprint ts = true -> no_hash trailer = true ->
  tc_parse_any (flat_map item_print (tc_items Esc true dur tc_init (vv_decorate false (passes_events ri fs n ts))) ++ trailer)
  = Some (messages_of dur ri n fs ts).
Proof. exact stream_vv. Qed.
Print Assumptions C20_very_verbose_stream.

(* reading message-anywhere: any sequence of well-formed printed messages and texts without # gives back the messages; and on a
   stream the strict reading accepts, it returns the same messages *)
Theorem C20_parse_any_print : forall items trailer, forallb item_ok_any items = true -> no_hash trailer = true ->
  tc_parse_any (flat_map item_print items ++ trailer) = Some (msgs_of_items items).
Proof. exact parse_items_any. Qed.
Print Assumptions C20_parse_any_print.

Theorem C20_parse_any_extends_strict : forall s ms, tc_parse s = Some ms -> tc_parse_any s = Some ms.
Proof. exact parse_any_extends_strict. Qed.
Print Assumptions C20_parse_any_extends_strict.

Theorem C20_very_verbose_example :
  valid example_vv = true /\ spec example_vv (run example_vv) = true /\ tc_parse (o_stream (run example_vv)) = None
  /\ tc_parse_any (o_stream (run example_vv)) = tc_parse (o_stream (run example_run))
  /\ Nat.ltb (length (o_stream (run example_run))) (length (o_stream (run example_vv))) = true.
Proof. exact example_vv_valid. Qed.
Print Assumptions C20_very_verbose_example.

(* --------------------------------------------------------------------------------------------------------------
   Failures that are not produced by the check macros (C20_ModelX.v, C20_FailProofs.v): the failure object with its constructors, the
   stages of a test, plugins, exceptions, separate processes; `xrun` / `xspec` / `xvalid` are what bin/check runs
   -------------------------------------------------------------------------------------------------------------- *)
From CppUVerif Require Import C20_ModelX C20_FailProofs C20_Embed.

(* what each way of making a failure object leaves in it, whatever the two-argument constructor stores as the bare name (sn), and
   however often the object is copied *)
Theorem C20_failure_object_fields : forall sn k n t file line msg,
  let f := make sn k n t file line msg in
  f_testName f = formatted_name t /\ f_nameOnly f = (if is_short k then sn t else t_name t) /\ f_tfile f = t_file t /\ f_tline f = t_line t
  /\ f_file f = eff_file k t file /\ f_line f = eff_line k t line /\ f_msg f = eff_msg k msg.
Proof. exact make_fields. Qed.
Print Assumptions C20_failure_object_fields.

(* the code's objects name the test by its bare name and carry the test's own location -- every constructor kind (2-, 3-, 4-argument,
   derived classes on the short ones), any number of copies *)
Theorem C20_failure_object_names_test : forall k n t file line msg,
  let f := make t_name k n t file line msg in
  f_nameOnly f = t_name t /\ f_tfile f = t_file t /\ f_tline f = t_line t.
Proof. exact make_names_test. Qed.
Print Assumptions C20_failure_object_names_test.

(* printFailure prints what it reads of the object; the name attribute decodes to the object's bare name *)
Theorem C20_printFailure_reads_object : forall ps uf dur st f,
  tc_step ps uf dur st (ev_of_failure f) = (st, [IMsg (print_failure ps f)]) /\ get_attr L_name (fmsg f) = Some (f_nameOnly f)
  /\ pmsg_ok (print_failure Esc f) = true.
Proof. intros. split; [apply step_failure | split; [apply fmsg_name | apply print_failure_ok]]. Qed.
Print Assumptions C20_printFailure_reads_object.

(* so a failure made for test t by ANY constructor is printed exactly as a check macro's failure of t at the effective place with the
   effective text (the writer theorems of C20_Proofs.v / C20_MsgTie.v about failure_pmsg apply to it) *)
Theorem C20_made_failure_printed_as_macro_failure : forall ps k n t file line msg,
  print_failure ps (make t_name k n t file line msg) = failure_pmsg ps t (eff_file k t file) (eff_line k t line) (eff_msg k msg).
Proof. exact print_made_failure. Qed.
Print Assumptions C20_made_failure_printed_as_macro_failure.

(* one test, as the registry armed it: the failure objects the model of the runner produces (plugin pre-actions, setup, body unless setup
   was left early, teardown, plugin post-actions, MockSupportPlugin unless the test has failed, the leak plugin unless anything was
   reported; or the parent's report about a child process) meet, one by one and in order, what the property demands of the test: the
   bare name, the test's place, the failure's place, the text (the scenario's own exactly; a text the library composes carries the
   what() / the call names); and the body is entered as often as demanded *)
Theorem C20_test_failures_model : forall cfg xt,
  Forall2 (meets xt) (xtest_failures cfg xt) (fst (test_want cfg xt))
  /\ (if x_ignored xt then 0 else snd (test_want cfg xt)) = xtest_exec t_name cfg xt.
Proof. exact failures_meet. Qed.
Print Assumptions C20_test_failures_model.

(* every message between testStarted and testFinished of a test -- the ignored flag, every testFailed whatever made the failure --
   carries the test's bare name *)
Theorem C20_test_bracket_names : forall dur cfg xt, Forall (fun m => attr_is L_name m (x_name xt) = true) (xtest_msgs dur cfg xt).
Proof. exact test_bracket_names. Qed.
Print Assumptions C20_test_bracket_names.

(* the stream of any such run (any sink, any verbosity, any plugins), followed by any summary text, parses back to the messages of the
   run; they are balanced; read against the scenario they are faithful *)
Theorem C20_failures_run_parses_back : forall s trailer, no_hash trailer = true ->
  parse_for (xs_verb s) (o_stream (xrun s) ++ trailer) = Some (xmessages_of s).
Proof. exact xrun_parse_text. Qed.
Print Assumptions C20_failures_run_parses_back.

Theorem C20_failures_balanced : forall dur cfg ri fs n xts, balanced (xpasses_msgs dur cfg ri fs n xts) = true.
Proof. exact xbalanced. Qed.
Print Assumptions C20_failures_balanced.

Theorem C20_failures_faithful : forall dur cfg ri fs n xts,
  xtake_passes cfg ri fs n xts (xpasses_exec t_name cfg ri fs n xts) (xpasses_msgs dur cfg ri fs n xts) = true.
Proof. exact xtake_passes_msgs. Qed.
Print Assumptions C20_failures_faithful.

(* the executable oracle accepts every observation the model produces -- every scenario of the extended language (the validity
   hypothesis only says that the harness can hand the scenario to the real code; it is not needed) *)
Theorem C20_run_meets_spec : forall s, xvalid s = true -> xspec s (xrun s) = true.
Proof. intros s _. apply xrun_meets_spec. Qed.
Print Assumptions C20_run_meets_spec.

Theorem C20_run_meets_spec_with_text : forall s trailer, xvalid s = true -> no_hash trailer = true -> xspec s (add_text (xrun s) trailer) = true.
Proof. intros s trailer _. apply xrun_meets_spec_text. Qed.
Print Assumptions C20_run_meets_spec_with_text.

Theorem C20_failures_any_chunking_accepted : forall s ops, written ops = concat (xrun_pieces s) ->
  {| o_stream := written ops; o_exec := o_exec (xrun s) |} = xrun s /\ xspec s {| o_stream := written ops; o_exec := o_exec (xrun s) |} = true.
Proof. intros s ops E. split; [apply xrun_of_chunks | apply xspec_any_chunking]; exact E. Qed.
Print Assumptions C20_failures_any_chunking_accepted.

(* red-team change C20-1 of round 5: the two-argument constructor stores the formatted name.  Refuted by one test whose body throws
   (its stream parses; the testFailed message names TEST(G, t) while the open test is t); on a run whose failures all come from the
   long constructors the changed code is indistinguishable *)
Theorem C20_formatted_short_name_refuted : ~ (forall s, xvalid s = true -> xspec s (xrun_formatted s) = true).
Proof. exact xrun_formatted_refuted. Qed.
Print Assumptions C20_formatted_short_name_refuted.

Theorem C20_formatted_short_name_example :
  match tc_parse (o_stream (xrun_formatted throwing_run)) with
  | Some ms => balanced ms = false /\ existsb (fun m => is_msg L_testFailed m && attr_is L_name m name_TEST_G_t) ms = true
  | None => False
  end
  /\ xrun_formatted macro_only_run = xrun macro_only_run /\ xspec macro_only_run (xrun macro_only_run) = true.
Proof. split; [exact xrun_formatted_unbalanced | exact xrun_formatted_same_on_macros]. Qed.
Print Assumptions C20_formatted_short_name_example.

(* the hypotheses are satisfiable; a run with every kind of failure; the same run very verbose, with -ri, twice, on file descriptor 1 *)
Theorem C20_failures_example :
  xvalid example_x = true /\ xspec example_x (xrun example_x) = true /\ o_exec (xrun example_x) = [0; 1; 1; 1; 1; 0; 0; 0; 0]
  /\ length (filter (is_msg L_testFailed) (xmessages_of example_x)) = 10%nat /\ xrun_marks example_x = [1; 4; 5; 6; 8; 9]
  /\ xspec example_x (xrun_formatted example_x) = false
  /\ xvalid example_x_vv = true /\ xspec example_x_vv (xrun example_x_vv) = true /\ tc_parse (o_stream (xrun example_x_vv)) = None
  /\ length (filter (is_msg L_testFailed) (xmessages_of example_x_vv)) = 22%nat.
Proof. exact example_x_valid. Qed.
Print Assumptions C20_failures_example.

(* the scenarios of C20_Model.v are the extended ones without stages and plugins: embedded (addFailure(FailFailure) / fail() = the
   derived class on the three-argument constructor, no plugin installed), every valid one gives the SAME observation -- stream, also
   very verbose, and executions -- so the theorems above about `run` (C20_stream, C20_run_parses_back, C20_any_chunking_accepted,
   the source tie of the writers, ...) are theorems about what bin/check runs, and the extended oracle accepts it; the writer cannot
   tell two callbacks apart that agree in what it reads of them (C20_writer_reads) *)
Theorem C20_core_scenarios_embed : forall s, valid s = true -> xrun (embed s) = run s /\ xspec (embed s) (run s) = true.
Proof. intros s Hv. split; [exact (xrun_embed s Hv) | rewrite <- (xrun_embed s Hv); apply xrun_meets_spec]. Qed.
Print Assumptions C20_core_scenarios_embed.

Theorem C20_writer_reads : forall dur es es', Forall2 ev_same es es' -> forall st st', st_same st st' ->
  tc_items Esc true dur st es = tc_items Esc true dur st' es'.
Proof. exact items_same. Qed.
Print Assumptions C20_writer_reads.

(* embedded, the examples above give the same observation and the refuted variants are refused by the extended oracle too *)
Theorem C20_core_examples_embed :
  xrun (embed example_run) = run example_run /\ xrun (embed example_vv) = run example_vv /\ xrun (embed example_ri) = run example_ri
  /\ xrun (embed example_no_ri) = run example_no_ri /\ xrun (embed long_name_witness) = run long_name_witness
  /\ xspec (embed example_ri) late_options_obs = false /\ xspec (embed example_ri) (run example_no_ri) = false
  /\ xspec (embed old_path_witness) (run_old_path old_path_witness) = false /\ xspec (embed old_group_witness) (run_old_group old_group_witness) = false
  /\ xspec (embed long_name_witness) (run_linebuf true 255 long_name_witness) = false /\ xvalid (embed example_run) = true.
Proof. exact embed_examples. Qed.
Print Assumptions C20_core_examples_embed.

(* --------------------------------------------------------------------------------------------------------------
   printEscaped as tools/cxx2gal.py regenerates it from TeamCityTestOutput.cpp on every run (gen/Gen_LoopC20.v; the text handed to printBuffer is the ghost output): it emits exactly the model's tc_escape of the C string at its argument, touches no existing block (the result memory is the old one followed by the scratch arrays), stays inside its buffers and terminates within a fuel just above the string length
   -------------------------------------------------------------------------------------------------------------- *)
From CppUVerif Require Import lib.CSem lib.CMem lib.CMemFacts lib.CEmit gen.Gen_LoopC20 C20_SrcTie.
Local Open Scope Z_scope.
Theorem C20_src_printEscaped_spec :
  forall (fuel : nat) (m : memory) (out : list N) (b : nat) (o : Z) (s r : list N),
  mem_ok m ->
  view m (Ptr b o) = s ++ 0 :: r ->
  Forall (fun c : N => c <> 0) s ->
  (b < length m)%nat ->
  (length (s ++ 0%N :: r) < fuel)%nat ->
  exists m' : memory,
  src_printEscaped fuel m out (Ptr b o) = FOk (tt, m', out ++ tc_escape s) /\
  (exists extra : list (list N), m' = m ++ extra) /\ mem_ok m'.
Proof. exact src_printEscaped_spec. Qed.
Print Assumptions C20_src_printEscaped_spec.

Theorem C20_src_printEscaped_spec_tight :
  forall (fuel : nat) (m : memory) (out : list N) (b : nat) (o : Z) (s r : list N),
  mem_ok m ->
  view m (Ptr b o) = s ++ 0 :: r ->
  Forall (fun c : N => c <> 0) s ->
  (b < length m)%nat ->
  (length s < fuel)%nat ->
  exists m' : memory,
  src_printEscaped fuel m out (Ptr b o) = FOk (tt, m', out ++ tc_escape s) /\
  (exists extra : list (list N), m' = m ++ extra) /\ mem_ok m'.
Proof. exact src_printEscaped_spec_tight. Qed.
Print Assumptions C20_src_printEscaped_spec_tight.

(* --------------------------------------------------------------------------------------------------------------
   THE TRANSLATED SOURCE of the five service-message writers of TeamCityTestOutput and of TestFailure::isOutsideTestFile / isInHelperFunction (gen/Gen_HeapC20.v, regenerated by tools/cxx2heap.py on every run) writes exactly the messages of the model's tc_step
   -------------------------------------------------------------------------------------------------------------- *)
From CppUVerif Require Import lib.CSem lib.CMem lib.CHeap gen.Gen_HeapC20 C20_MsgTie.
Local Open Scope Z_scope.
Theorem C20_teamcity_layout_is_the_source :
  off_UtestShell_group_ = Z0 /\
  off_UtestShell_name_ = Zpos 1 /\
  cells_UtestShell = Zpos 7 /\
  off_TestResult_currentTestTotalExecutionTime_ = Zpos 10 /\
  cells_TestResult = Zpos 13 /\
  off_TestFailure_testName_ = Z0 /\
  off_TestFailure_testNameOnly_ = Zpos 1 /\
  off_TestFailure_fileName_ = Zpos 2 /\
  off_TestFailure_lineNumber_ = Zpos 3 /\
  off_TestFailure_testFileName_ = Zpos 4 /\
  off_TestFailure_testLineNumber_ = Zpos 5 /\
  off_TestFailure_message_ = Zpos 6 /\
  cells_TestFailure = Zpos 7 /\
  off_TeamCityTestOutput_currtest_ = Z0 /\
  off_TeamCityTestOutput_currGroup_ = Zpos 1 /\
  off_TeamCityTestOutput_groupOpen_ = Zpos 2 /\ cells_TeamCityTestOutput = Zpos 3.
Proof. exact teamcity_layout_is_the_source. Qed.
Print Assumptions C20_teamcity_layout_is_the_source.

Theorem C20_failure_isOutsideTestFile_spec :
  forall (txt : Z -> bytes) (fuel : nat) (h : heap) (evs : list tev) (wr : list Z) (fb : nat)
  (t : test) (file : bytes) (line : N) (msg : bytes),
  fail_rep txt h fb t file line msg ->
  src_failure_isOutsideTestFile fuel h evs wr (HPtr fb Z0) =
  FOk (b2z (negb (bytes_eqb (t_file t) file)), h, evs, wr).
Proof. exact failure_isOutsideTestFile_spec. Qed.
Print Assumptions C20_failure_isOutsideTestFile_spec.

Theorem C20_failure_isInHelperFunction_spec :
  forall (txt : Z -> bytes) (fuel : nat) (h : heap) (evs : list tev) (wr : list Z) (fb : nat)
  (t : test) (file : bytes) (line : N) (msg : bytes),
  fail_rep txt h fb t file line msg ->
  src_failure_isInHelperFunction fuel h evs wr (HPtr fb Z0) = FOk (b2z (line <? t_line t), h, evs, wr).
Proof. exact failure_isInHelperFunction_spec. Qed.
Print Assumptions C20_failure_isInHelperFunction_spec.

Theorem C20_teamcity_printCurrentGroupStarted_spec :
  forall (txt : Z -> bytes) (dur : N) (fuel : nat) (h : heap) (evs : list tev) (wr : list Z)
  (ob sb : nat) (st : tcst) (t : test),
  out_rep txt h ob st ->
  shell_rep txt h sb t ->
  exists (h' : heap) (new : list tev),
  src_teamcity_printCurrentGroupStarted fuel h evs wr (HPtr ob Z0) (HPtr sb Z0) = FOk (tt, h', evs ++ new, wr) /\
  render txt new = flat_map item_print (snd (tc_step Esc true dur st (EGroupStart t))) /\
  out_rep txt h' ob (fst (tc_step Esc true dur st (EGroupStart t))) /\ only_block ob h h'.
Proof. exact teamcity_printCurrentGroupStarted_spec. Qed.
Print Assumptions C20_teamcity_printCurrentGroupStarted_spec.

Theorem C20_teamcity_printCurrentGroupEnded_spec :
  forall (txt : Z -> bytes) (dur : N) (fuel : nat) (h : heap) (evs : list tev) (wr : list Z)
  (ob : nat) (st : tcst),
  out_rep txt h ob st ->
  exists (h' : heap) (new : list tev),
  src_teamcity_printCurrentGroupEnded fuel h evs wr (HPtr ob Z0) = FOk (tt, h', evs ++ new, wr) /\
  render txt new = flat_map item_print (snd (tc_step Esc true dur st EGroupEnd)) /\
  out_rep txt h' ob (fst (tc_step Esc true dur st EGroupEnd)) /\ only_block ob h h'.
Proof. exact teamcity_printCurrentGroupEnded_spec. Qed.
Print Assumptions C20_teamcity_printCurrentGroupEnded_spec.

Theorem C20_teamcity_printCurrentTestStarted_spec :
  forall (txt : Z -> bytes) (dur : N) (fuel : nat) (h : heap) (evs : list tev) (rest : list Z)
  (ob sb : nat) (st : tcst) (t : test),
  out_rep txt h ob st ->
  shell_rep txt h sb t ->
  exists (h' : heap) (new : list tev),
  src_teamcity_printCurrentTestStarted fuel h evs (b2z (negb (t_ignored t)) :: rest) (HPtr ob Z0) (HPtr sb Z0) =
  FOk (tt, h', evs ++ new, rest) /\
  render txt new = flat_map item_print (snd (tc_step Esc true dur st (ETestStart t))) /\
  out_rep txt h' ob (fst (tc_step Esc true dur st (ETestStart t))) /\ only_block ob h h'.
Proof. exact teamcity_printCurrentTestStarted_spec. Qed.
Print Assumptions C20_teamcity_printCurrentTestStarted_spec.

Theorem C20_teamcity_printCurrentTestEnded_spec :
  forall (txt : Z -> bytes) (dur : N) (fuel : nat) (h : heap) (evs : list tev) (wr : list Z)
  (ob rb : nat) (st : tcst) (d checks : N),
  out_rep txt h ob st ->
  result_rep h rb d ->
  time_ok dur st d ->
  exists new : list tev,
  src_teamcity_printCurrentTestEnded fuel h evs wr (HPtr ob Z0) (HPtr rb Z0) = FOk (tt, h, evs ++ new, wr) /\
  render txt new = flat_map item_print (snd (tc_step Esc true dur st (ETestEnd checks))) /\
  fst (tc_step Esc true dur st (ETestEnd checks)) = st.
Proof. exact teamcity_printCurrentTestEnded_spec. Qed.
Print Assumptions C20_teamcity_printCurrentTestEnded_spec.

Theorem C20_teamcity_printFailure_spec :
  forall (txt : Z -> bytes) (dur : N) (fuel : nat) (h : heap) (evs : list tev) (wr : list Z)
  (ob fb : nat) (st : tcst) (t : test) (file : bytes) (line : N) (msg : bytes),
  fail_rep txt h fb t file line msg ->
  exists new : list tev,
  src_teamcity_printFailure fuel h evs wr (HPtr ob Z0) (HPtr fb Z0) = FOk (tt, h, evs ++ new, wr) /\
  render txt new = flat_map item_print (snd (tc_step Esc true dur st (EFailure t file line msg))) /\
  fst (tc_step Esc true dur st (EFailure t file line msg)) = st.
Proof. exact teamcity_printFailure_spec. Qed.
Print Assumptions C20_teamcity_printFailure_spec.

Theorem C20_step_sim :
  forall (txt : Z -> bytes) (dur : N) (fuel : nat) (h : heap) (evs : list tev) (rest : list Z)
  (ob : nat) (st : tcst) (e : ev) (c : call),
  out_rep txt h ob st ->
  arg_ok txt dur h st e c ->
  exists (h' : heap) (new : list tev),
  run_call fuel h evs (wr_of [e] ++ rest) ob c = FOk (tt, h', evs ++ new, rest) /\
  render txt new = flat_map item_print (snd (tc_step Esc true dur st e)) /\
  out_rep txt h' ob (fst (tc_step Esc true dur st e)) /\ only_block ob h h'.
Proof. exact step_sim. Qed.
Print Assumptions C20_step_sim.

Theorem C20_teamcity_run_sim :
  forall (txt : Z -> bytes) (dur : N) (es : list ev) (sc : script) (fuel ob : nat) (st : tcst)
  (h : heap) (evs : list tev) (rest : list Z),
  out_rep txt h ob st ->
  script_ok txt dur fuel ob st h evs (wr_of es ++ rest) es sc ->
  exists (h' : heap) (new : list tev),
  run_script fuel ob h evs (wr_of es ++ rest) sc = FOk (h', evs ++ new, rest) /\
  render txt new = flat_map item_print (tc_items Esc true dur st es) /\ out_rep txt h' ob (tc_final dur st es).
Proof. exact teamcity_run_sim. Qed.
Print Assumptions C20_teamcity_run_sim.

Theorem C20_teamcity_run_from_init :
  forall (txt : Z -> bytes) (dur : N) (es : list ev) (sc : script) (fuel ob : nat) (h : heap)
  (g0 : Z) (evs : list tev) (rest : list Z),
  hblock h ob = [VPtr HNull; VInt g0; VInt Z0] ->
  txt g0 = [] ->
  script_ok txt dur fuel ob tc_init h evs (wr_of es ++ rest) es sc ->
  exists (h' : heap) (new : list tev),
  run_script fuel ob h evs (wr_of es ++ rest) sc = FOk (h', evs ++ new, rest) /\
  render txt new = flat_map item_print (tc_items Esc true dur tc_init es) /\
  out_rep txt h' ob (tc_final dur tc_init es).
Proof. exact teamcity_run_from_init. Qed.
Print Assumptions C20_teamcity_run_from_init.

Theorem C20_teamcity_run_render_tc :
  forall (txt : Z -> bytes) (dur : N) (ri : bool) (passes : nat) (fs : list bytes) (ts : list test)
  (sc : script) (fuel ob : nat) (h : heap) (g0 : Z) (evs : list tev) (rest : list Z),
  hblock h ob = [VPtr HNull; VInt g0; VInt Z0] ->
  txt g0 = [] ->
  script_ok txt dur fuel ob tc_init h evs (wr_of (passes_events ri fs passes ts) ++ rest)
  (passes_events ri fs passes ts) sc ->
  exists (h' : heap) (new : list tev),
  run_script fuel ob h evs (wr_of (passes_events ri fs passes ts) ++ rest) sc = FOk (h', evs ++ new, rest) /\
  render txt new = render_tc dur ri passes fs ts.
Proof. exact teamcity_run_render_tc. Qed.
Print Assumptions C20_teamcity_run_render_tc.

Theorem C20_ex_ids_not_canonical_differs :
  ex_txt (Zpos 12) = ex_txt (Zpos 13) /\
  (exists new : list tev,
  src_teamcity_printFailure 0 ex_heap_ids [] [] (HPtr 0 Z0) (HPtr 3 Z0) = FOk (tt, ex_heap_ids, new, []) /\
  render ex_txt new <>
  flat_map item_print
  (snd
  (tc_step Esc true 3 tc_init
  (EFailure ex_t2
  (B
  (String.String (Ascii.Ascii false false true false true true true false)
  (String.String (Ascii.Ascii true false true false false true true false)
  (String.String (Ascii.Ascii true true false false true true true false)
  (String.String (Ascii.Ascii false false true false true true true false)
  (String.String (Ascii.Ascii false true true true false true false false)
  (String.String (Ascii.Ascii true true false false false true true false)
  (String.String (Ascii.Ascii false false false false true true true false)
  (String.String
  (Ascii.Ascii false false false false true true true false)
  String.EmptyString))))))))) 9
  (B
  (String.String (Ascii.Ascii true false true true false true true false)
  (String.String (Ascii.Ascii true true false false true true true false)
  (String.String (Ascii.Ascii true true true false false true true false)
  (String.String (Ascii.Ascii true true false true true false true false)
  (String.String (Ascii.Ascii true false false false true true false false)
  (String.String (Ascii.Ascii true false true true true false true false)
  String.EmptyString))))))))))).
Proof. exact ex_ids_not_canonical_differs. Qed.
Print Assumptions C20_ex_ids_not_canonical_differs.

Theorem C20_ex_run_sim :
  exists (h' : heap) (new : list tev),
  run_script 0 0 ex_heap [] (wr_of ex_es ++ []) ex_sc = FOk (h', [] ++ new, []) /\
  render ex_txt new = flat_map item_print (tc_items Esc true 3 tc_init ex_es) /\
  out_rep ex_txt h' 0 (tc_final 3 tc_init ex_es).
Proof. exact ex_run_sim. Qed.
Print Assumptions C20_ex_run_sim.
