(* C20 -- TeamCity output is a balanced, correctly escaped service-message stream.
   Only statements; proofs are in C20_Escape.v, C20_Parse.v, C20_Proofs.v. *)
From Coq Require Import NArith Bool List.
From CppUVerif Require Import lib.Str C16_Events C20_Model C20_Escape C20_Parse C20_Proofs.
Import ListNotations.
Local Open Scope N_scope.

(* decoding the output of printEscaped by the TeamCity rules returns the original text, and the escaped text has no ' [ ] LF CR
   that is not introduced by | (so it cannot end the value or the message) -- all byte strings *)
Theorem C20_escape_roundtrip : forall s, tc_unescape (tc_escape s) = Some s /\ no_raw_special (tc_escape s) = true.
Proof. exact escape_roundtrip. Qed.
Print Assumptions C20_escape_roundtrip.

(* a value that decodes at all has no raw special character, and decoding is compositional (values are printed in pieces) *)
Theorem C20_wellformed_value_has_no_raw_special : forall v u, tc_unescape v = Some u -> no_raw_special v = true.
Proof. exact unescape_some_no_raw. Qed.
Print Assumptions C20_wellformed_value_has_no_raw_special.

Theorem C20_unescape_compositional : forall a a' b b',
  tc_unescape a = Some a' -> tc_unescape b = Some b' -> tc_unescape (a ++ b) = Some (a' ++ b').
Proof. exact tc_unescape_app. Qed.
Print Assumptions C20_unescape_compositional.

(* the parser's value state decodes exactly as the textbook tc_unescape does *)
Theorem C20_parser_value_is_unescape : forall v u, tc_unescape v = Some u ->
  forall nm attrs k acc rest, run_sm (MVal nm attrs k acc) (v ++ rest) = run_sm (MVal nm attrs k (rev u ++ acc)) rest.
Proof. exact val_run. Qed.
Print Assumptions C20_parser_value_is_unescape.

(* the converse: whatever the parser accepts between two quotes is a well-formed escaped value, decoded as tc_unescape decodes it
   (so an accepted value holds no raw ' [ ] CR LF and does not end in a lone |) *)
Theorem C20_parser_accepts_only_wellformed_values : forall nm attrs k l nm' attrs',
  run_sm (MVal nm attrs k []) l = Some (MDone nm' attrs') ->
  exists v rest u, l = v ++ 39 :: rest /\ tc_unescape v = Some u /\ no_raw_special v = true
                   /\ run_sm (MAfter nm ((k, u) :: attrs)) rest = Some (MDone nm' attrs').
Proof. exact accepted_value_wellformed. Qed.
Print Assumptions C20_parser_accepts_only_wellformed_values.

(* the registry's loop with its groupStart flag brackets exactly the maximal runs of equally named groups, whatever the name
   filters select (a group none of whose tests is selected still gets its two callbacks), and whatever it reports about a shell it
   reports about the shell with the run options applied (arm = setRunIgnored under -ri, applied at the top of the iteration);
   without run options these are the registered tests themselves; without filters too it is the loop shared with C16 *)
Theorem C20_registry_order : forall ri fs ts, events_sel ri fs ts = flat_map (seg_events fs) (segments (map (arm ri) ts)).
Proof. exact reg_loop_segments. Qed.
Print Assumptions C20_registry_order.

Theorem C20_registry_order_no_run_options : forall fs ts, events_sel false fs ts = flat_map (seg_events fs) (segments ts).
Proof. exact reg_loop_segments_no_ri. Qed.
Print Assumptions C20_registry_order_no_run_options.

Theorem C20_registry_order_nofilter : forall ts, events_sel false [] ts = events_of ts.
Proof. exact events_nofilter. Qed.
Print Assumptions C20_registry_order_nofilter.

(* repeated passes (-r<n>) over the same registry and output: the shells stay armed, every pass reports what the first one reports,
   and every pass executes the same bodies *)
Theorem C20_passes : forall ri fs n ts,
  passes_events ri fs n ts = times n (events_sel false fs (map (arm ri) ts))
  /\ passes_exec ri fs n ts = times n (map (exec_count fs) (map (arm ri) ts)).
Proof. exact passes_times. Qed.
Print Assumptions C20_passes.

(* the parser run on any sequence of well-formed printed messages (identifier names, distinct keys, unescaped pieces free of
   special characters) followed by any text without # returns exactly the messages that were printed *)
Theorem C20_parse_print : forall items trailer, forallb item_ok items = true -> no_hash trailer = true ->
  tc_parse (flat_map item_print items ++ trailer) = Some (msgs_of_items items).
Proof. exact parse_items. Qed.
Print Assumptions C20_parse_print.

(* what the (repaired) writer prints for a run, callback by callback through currtest_ / currGroup_ / groupOpen_ *)
Theorem C20_writer_items : forall dur fs ri n ts,
  tc_items Esc true dur tc_init (passes_events ri fs n ts) = times n (flat_map (seg_items dur fs) (segments (map (arm ri) ts))).
Proof. exact run_items. Qed.
Print Assumptions C20_writer_items.

(* round trip of a whole run: the stream (followed by any summary text without #) parses to messages_of -- all byte strings
   as names, paths and messages, all pass/fail/ignore patterns, with and without run-ignored, any number of passes, all strict name
   filters, test bodies that do not print *)
Theorem C20_stream : forall dur fs ri n ts trailer, forallb noprint ts = true -> no_hash trailer = true ->
  tc_parse (render_tc dur ri n fs ts ++ trailer) = Some (messages_of dur ri n fs ts).
Proof. exact stream. Qed.
Print Assumptions C20_stream.

(* messages_of is balanced: every suite start has one finish of the same name, every test start inside a suite one finish of
   the same name, ignored / failed messages name the open test *)
Theorem C20_balanced : forall dur ri fs n ts, balanced (messages_of dur ri n fs ts) = true.
Proof. exact balanced_messages. Qed.
Print Assumptions C20_balanced.

(* messages_of with exec_of is faithful: per pass and group one suite bracket with the group's name, per selected test one bracket with
   the test's name, testIgnored iff the test is ignored and not run, a flagged test's body not executed, any other selected test's body
   executed once, one testFailed per failure in order with the failure's text and location *)
Theorem C20_messages_faithful : forall dur ri fs n ts,
  faithful ri fs (pass_groups n ts) (exec_of ri n fs ts) (messages_of dur ri n fs ts) = true.
Proof. exact faithful_messages. Qed.
Print Assumptions C20_messages_faithful.

(* the body executions the model counts (on the shells as armed by the loop) are the ones the property demands *)
Theorem C20_exec_model : forall ri fs n ts, passes_exec ri fs n ts = exec_of ri n fs ts.
Proof. exact exec_model. Qed.
Print Assumptions C20_exec_model.

(* what the oracle accepts for one test: started; the ignored flag iff the test is ignored and NOT run; with the flag the body was not
   executed and the very next message is the finish (no testFailed); without it the body was executed exactly once *)
Theorem C20_flag_iff_ignored_and_not_run : forall ri t c ms r, take_test ri t c ms = Some r ->
  exists m rest, ms = m :: rest /\ is_msg L_testStarted m = true /\
    ((runs ri t = false /\ c = 0 /\ exists i e, rest = i :: e :: r /\ is_flag t i = true /\ is_msg L_testFinished e = true)
     \/ (runs ri t = true /\ c = 1 /\ (match rest with i :: _ => is_flag t i | [] => false end) = false)).
Proof. exact take_test_reads. Qed.
Print Assumptions C20_flag_iff_ignored_and_not_run.

(* under run-ignored the observation (stream and body executions) of a registry equals that of the same registry with the ignored
   markers removed, for any number of passes; no message of such a run is a testIgnored *)
Theorem C20_run_ignored_as_unignored : forall dur n fs ts,
  run {| s_dur := dur; s_ri := true; s_passes := n; s_filters := fs; s_tests := ts |}
  = run {| s_dur := dur; s_ri := false; s_passes := n; s_filters := fs; s_tests := map unignore ts |}.
Proof. exact run_ignored_as_unignored. Qed.
Print Assumptions C20_run_ignored_as_unignored.

Theorem C20_run_ignored_no_flag : forall dur n fs ts,
  forallb (fun m => negb (is_msg L_testIgnored m)) (messages_of dur true n fs ts) = true.
Proof. exact run_ignored_no_flag. Qed.
Print Assumptions C20_run_ignored_no_flag.

(* the executable oracle used on the implementation's stream accepts every stream the model writes *)
Theorem C20_run_meets_spec : forall s, valid s = true -> spec s (run s) = true.
Proof. exact run_meets_spec. Qed.
Print Assumptions C20_run_meets_spec.

Theorem C20_run_meets_spec_with_text : forall s trailer, valid s = true -> no_hash trailer = true -> spec s (add_text (run s) trailer) = true.
Proof. exact run_meets_spec_text. Qed.
Print Assumptions C20_run_meets_spec_with_text.

(* spec = the stream parses, the messages are balanced and, with the observed body executions, faithful to the scenario *)
Theorem C20_spec_reads : forall s o, spec s o = true <->
  exists ms, tc_parse (o_stream o) = Some ms /\ balanced ms = true
             /\ faithful (s_ri s) (s_filters s) (pass_groups (s_passes s) (s_tests s)) (o_exec o) ms = true.
Proof. exact spec_reads. Qed.
Print Assumptions C20_spec_reads.

(* the code before the two `fix:` commits for D15 violated the property *)
Theorem C20_run_old_path_refuted : ~ (forall s, valid s = true -> spec s (run_old_path s) = true).
Proof. exact run_old_path_refuted. Qed.
Print Assumptions C20_run_old_path_refuted.

Theorem C20_run_old_group_refuted : ~ (forall s, valid s = true -> spec s (run_old_group s) = true).
Proof. exact run_old_group_refuted. Qed.
Print Assumptions C20_run_old_group_refuted.

(* the parser is strict where the property needs it: a raw [ ] CR LF inside a value, a quote not followed by space or ],
   an unknown escape, and anything after the closing ] are rejected *)
Theorem C20_parser_rejects_raw_special : forall nm attrs k acc c rest, raw_forbidden c = true -> c <> 39 ->
  run_sm (MVal nm attrs k acc) (c :: rest) = None.
Proof. exact value_rejects_raw. Qed.
Print Assumptions C20_parser_rejects_raw_special.

Theorem C20_parser_quote_ends_value : forall nm attrs k acc c rest, c <> 32 -> c <> 93 ->
  run_sm (MVal nm attrs k acc) (39 :: c :: rest) = None.
Proof. exact value_quote_ends. Qed.
Print Assumptions C20_parser_quote_ends_value.

Theorem C20_parser_rejects_unknown_escape : forall nm attrs k acc d rest, unesc_char d = None ->
  run_sm (MVal nm attrs k acc) (124 :: d :: rest) = None.
Proof. exact value_rejects_unknown_escape. Qed.
Print Assumptions C20_parser_rejects_unknown_escape.

Theorem C20_hypotheses_satisfiable :
  valid example_run = true /\ length (messages_of 42 false 1 (s_filters example_run) (s_tests example_run)) = 16%nat /\ spec example_run (run example_run) = true
  /\ tc_parse (o_stream (run example_run)) = Some (messages_of 42 false 1 (s_filters example_run) (s_tests example_run)).
Proof. exact example_valid. Qed.
Print Assumptions C20_hypotheses_satisfiable.

(* run-ignored, two passes, an ignored test whose body fails: accepted with -ri as a normal failing test (executed in both passes, two
   testFailed), accepted without -ri as a flagged test that is not executed; each observation is rejected for the other scenario, and the
   observation "flagged although the body was executed" is rejected for both *)
Theorem C20_run_ignored_example :
  valid example_ri = true /\ spec example_ri (run example_ri) = true /\ o_exec (run example_ri) = [1; 1; 1; 1]
  /\ length (filter (is_msg L_testFailed) (messages_of 5 true 2 [] (s_tests example_ri))) = 2%nat
  /\ spec example_no_ri (run example_no_ri) = true /\ o_exec (run example_no_ri) = [0; 1; 0; 1]
  /\ spec example_ri (run example_no_ri) = false /\ spec example_no_ri (run example_ri) = false
  /\ spec example_ri late_options_obs = false /\ spec example_no_ri late_options_obs = false.
Proof. exact example_ri_valid. Qed.
Print Assumptions C20_run_ignored_example.

(* --------------------------------------------------------------------------------------------------------------
   printEscaped as tools/cxx2gal.py regenerates it from TeamCityTestOutput.cpp on every run (gen/Gen_LoopC20.v; the text handed to printBuffer is the ghost output): it emits exactly the model's tc_escape of the C string at its argument, touches no existing block (the result memory is the old one followed by the scratch arrays), stays inside its buffers and terminates within a fuel just above the string length
   -------------------------------------------------------------------------------------------------------------- *)
From CppUVerif Require Import lib.CSem lib.CMem lib.CMemFacts lib.CEmit gen.Gen_LoopC20 C20_SrcTie.
Local Open Scope Z_scope.
Theorem C20_src_printEscaped_spec :
  forall (fuel : nat) (m : memory) (out : list N) (b : nat) (o : Z) (s r : list N),
  mem_ok m ->
  view m (Ptr b o) = s ++ 0 :: r ->
  Forall (fun c : N => c <> 0) s ->
  (b < length m)%nat ->
  (length (s ++ 0%N :: r) < fuel)%nat ->
  exists m' : memory,
  src_printEscaped fuel m out (Ptr b o) = FOk (tt, m', out ++ tc_escape s) /\
  (exists extra : list (list N), m' = m ++ extra) /\ mem_ok m'.
Proof. exact src_printEscaped_spec. Qed.
Print Assumptions C20_src_printEscaped_spec.

Theorem C20_src_printEscaped_spec_tight :
  forall (fuel : nat) (m : memory) (out : list N) (b : nat) (o : Z) (s r : list N),
  mem_ok m ->
  view m (Ptr b o) = s ++ 0 :: r ->
  Forall (fun c : N => c <> 0) s ->
  (b < length m)%nat ->
  (length s < fuel)%nat ->
  exists m' : memory,
  src_printEscaped fuel m out (Ptr b o) = FOk (tt, m', out ++ tc_escape s) /\
  (exists extra : list (list N), m' = m ++ extra) /\ mem_ok m'.
Proof. exact src_printEscaped_spec_tight. Qed.
Print Assumptions C20_src_printEscaped_spec_tight.
