(* C20 -- TeamCity output is a balanced, correctly escaped service-message stream.  Only statements; proofs are in C20_Proofs.v. *)
From Coq Require Import NArith Bool List.
From CppUVerif Require Import lib.Str C16_Events C20_Model C20_Proofs.
Import ListNotations.
Local Open Scope N_scope.

Theorem C20_hypotheses_satisfiable :
  valid example_run = true /\ length (messages_of 42 (s_tests example_run)) = 14%nat /\ spec example_run (run example_run) = true
  /\ tc_parse (run example_run) = Some (messages_of 42 (s_tests example_run)).
Proof. exact example_valid. Qed.
Print Assumptions C20_hypotheses_satisfiable.
