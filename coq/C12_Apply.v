(* C12 -- what the runner DOES with an accepted configuration: executable mirror of CommandLineTestRunner::parseArguments
   (accepted branch: which outputs are created), initializeTestRun and runAllTests (src/CppUTest/CommandLineTestRunner.cpp:87-154,
   183-201) over the probe registry of the harness, with TestRegistry::runAllTests / listTestGroupNames /
   listTestGroupAndCaseNames / listTestLocations / reverseTests reduced to what a recording output and recording probe tests see:
   per repetition the verbosity level and colour of the output, the seeds handed to srand, the probe tests started (in order),
   the ones whose body ran, the ones switched to separate-process mode.  The order AFTER a shuffle is not modelled here (C02
   does that): shuffleTests is the identity on the list and logs its seed; `apply_ok` only asks for a permutation.
   Then the extended observation / run / spec of the property.  No proofs in this file. *)
From Coq Require Import String Ascii.
From Coq Require Import NArith ZArith Bool List.
From CppUVerif Require Import gen.Gen_C12 lib.Str C12_Model.
Import ListNotations.
Local Open Scope N_scope.

(* ---------------------------------------------------------------- the probe registry handed to the runner (natural order) *)
Record rprobe := { p_group : bytes; p_name : bytes; p_ign : bool }.     (* p_ign: an IGNORE_TEST *)
Definition rprobes : list rprobe :=
  Eval vm_compute in map (fun p => {| p_group := bs (fst (fst p)); p_name := bs (snd (fst p)); p_ign := snd p |})
    [("grp", "name", false); ("grp", "name2", false); ("grp", "ign", true); ("grp2", "name", false); ("Group", "Test", false);
     ("Group", "TestIgn", true); ("a", "b", false); ("ab", "ba", false); ("x", "y", false); ("x", "z", true);
     ("grp", "other", false); ("other", "name", false); ("g1", "t1", false); ("G", "T", false); ("ig", "name", true);
     ("mygrp", "myname", false); ("aaab", "xababac", false); ("Looop", "TestTestTests", false)]%string.
Fixpoint number_from {A} (i : N) (l : list A) : list (N * A) :=
  match l with [] => [] | x :: r => (i, x) :: number_from (i + 1) r end.
Definition reg0 : list (N * rprobe) := Eval vm_compute in number_from 0 rprobes.      (* (id, test), id = position *)

(* ---------------------------------------------------------------- outputs: parseArguments (accepted) and initializeTestRun *)
Record out_rec := { o_kind : out_kind; o_pkg : bytes; o_level : N; o_color : bool }.   (* OEclipse = the console output *)
Definition mk_out (k : out_kind) (p : bytes) : out_rec := {| o_kind := k; o_pkg := p; o_level := 0; o_color := false |}.
(* if (isJUnitOutput()) { junit(package); if (verbose || veryVerbose) composite(junit, console) } else if (isTeamCityOutput()) teamcity
   else console   -- the leaves, in creation order; a composite forwards verbose() and color() to both *)
Definition create_outputs (c : config) : list out_rec :=
  match c_out c with
  | OJUnit => mk_out OJUnit (c_pkg c) :: (if c_verbose c || c_veryverbose c then [mk_out OEclipse []] else [])
  | OTeamCity => [mk_out OTeamCity []]
  | OEclipse => [mk_out OEclipse []]
  end.
Definition set_level (l : N) (outs : list out_rec) : list out_rec :=
  map (fun o => {| o_kind := o_kind o; o_pkg := o_pkg o; o_level := l; o_color := o_color o |}) outs.
Definition set_colour (outs : list out_rec) : list out_rec :=
  map (fun o => {| o_kind := o_kind o; o_pkg := o_pkg o; o_level := o_level o; o_color := true |}) outs.
(* if (isVerbose()) output_->verbose(level_verbose); if (isVeryVerbose()) output_->verbose(level_veryVerbose); if (isColor()) output_->color(); *)
Definition initialize_outputs (c : config) (outs : list out_rec) : list out_rec :=
  let outs := if c_verbose c then set_level 1 outs else outs in
  let outs := if c_veryverbose c then set_level 2 outs else outs in
  if c_color c then set_colour outs else outs.

(* ---------------------------------------------------------------- the registry as the runner drives it *)
Record registry := { g_tests : list (N * rprobe); g_gf : list filter; g_nf : list filter; g_sep : bool; g_ri : bool }.
Definition registry0 : registry := {| g_tests := reg0; g_gf := []; g_nf := []; g_sep := false; g_ri := false |}.
Definition with_tests (r : registry) (ts : list (N * rprobe)) : registry :=
  {| g_tests := ts; g_gf := g_gf r; g_nf := g_nf r; g_sep := g_sep r; g_ri := g_ri r |}.
(* setGroupFilters, setNameFilters; if (runTestsInSeperateProcess()) setRunTestsInSeperateProcess(); if (isRunIgnored()) setRunIgnored(); *)
Definition initialize_registry (c : config) (r : registry) : registry :=
  {| g_tests := g_tests r; g_gf := c_gf c; g_nf := c_nf c;
     g_sep := if c_sep c then true else g_sep r; g_ri := if c_runign c then true else g_ri r |}.
Definition should_run (r : registry) (p : rprobe) : bool := list_match (g_gf r) (p_group p) && list_match (g_nf r) (p_name p).
Definition will_run (r : registry) (p : rprobe) : bool := negb (p_ign p) || g_ri r.      (* IgnoredUtestShell::runOneTest *)

Record rep_obs := {
  r_level : N; r_color : bool;       (* of the first output created, when the repetition starts *)
  r_seeds : list N;                  (* arguments of srand since the previous repetition *)
  r_started : list N;                (* ids handed to currentTestStarted, in order *)
  r_ran : list N;                    (* ids whose body ran, in order *)
  r_sep : list N }.                  (* started ids on which setRunInSeperateProcess had been called *)
(* TestRegistry::runAllTests *)
Definition run_registry (r : registry) (lvl : N) (col : bool) (seeds : list N) : rep_obs :=
  let started := List.filter (fun t => should_run r (snd t)) (g_tests r) in
  {| r_level := lvl; r_color := col; r_seeds := seeds;
     r_started := map fst started;
     r_ran := map fst (List.filter (fun t => will_run r (snd t)) started);
     r_sep := if g_sep r then map fst started else [] |}.
Definition reverse_tests (r : registry) : registry := with_tests r (rev (g_tests r)).
Definition shuffle_tests (seed : N) (r : registry) : registry := r.        (* the permutation itself: C02 *)
Definition srand_arg (seed : N) : N := seed mod 4294967296.                 (* (unsigned int) seed *)
Definition primary (outs : list out_rec) : N * bool := match outs with o :: _ => (o_level o, o_color o) | [] => (0, false) end.
(* while (loopCount++ < repeatCount) { if (isShuffling()) shuffleTests(seed); ... runAllTests(tr); } *)
Fixpoint repeat_loop (c : config) (n : nat) (r : registry) (outs : list out_rec) : list rep_obs :=
  match n with
  | O => []
  | S n' =>
      let r1 := if c_shuf c then shuffle_tests (c_seed c) r else r in
      let seeds := if c_shuf c then [srand_arg (c_seed c)] else [] in
      run_registry r1 (fst (primary outs)) (snd (primary outs)) seeds :: repeat_loop c n' r1 outs
  end.

(* the three listings; the code de-duplicates by searching "#entry#" in the text so far: list level here *)
Fixpoint dedup_from (seen : list bytes) (l : list bytes) : list bytes :=
  match l with
  | [] => []
  | x :: r => if existsb (bytes_eqb x) seen then dedup_from seen r else x :: dedup_from (x :: seen) r
  end.
Definition dedup (l : list bytes) : list bytes := dedup_from [] l.
Fixpoint join (sep : bytes) (l : list bytes) : bytes :=
  match l with [] => [] | [x] => x | x :: r => x ++ sep ++ join sep r end.
Definition group_entry (p : rprobe) : bytes := p_group p.
Definition name_entry (p : rprobe) : bytes := p_group p ++ 46 :: p_name p.
Definition loc_entry (p : rprobe) : bytes := p_group p ++ 46 :: p_name p ++ 46 :: B "probe.cpp.1".     (* group.name.file.line *)
Definition list_group_names (r : registry) : bytes := join [32] (dedup (map (fun t => group_entry (snd t)) (g_tests r))).
Definition list_group_and_case_names (r : registry) : bytes :=
  join [32] (dedup (map (fun t => name_entry (snd t)) (List.filter (fun t => should_run r (snd t)) (g_tests r)))).
Definition list_locations (r : registry) : bytes := concat (map (fun t => loc_entry (snd t) ++ [10]) (g_tests r)).

(* what is seen of one runner: the leaf outputs created (final level / colour), the text printed when no repetition ran,
   the repetitions.  ASkipped: the repeat count is above the bound the harness runs through the runner *)
Inductive applied := ASkipped | AApplied (outs : list out_rec) (text : bytes) (reps : list rep_obs).
Definition REP_CAP : N := 6.
(* runAllTests *)
Definition runner_run_all_tests (c : config) : applied :=
  let outs := initialize_outputs c (create_outputs c) in
  let r := initialize_registry c registry0 in
  if c_listg c then AApplied outs (list_group_names r) []
  else if c_listn c then AApplied outs (list_group_and_case_names r) []
  else if c_listl c then AApplied outs (list_locations r) []
  else
    let r := if c_rev c then reverse_tests r else r in
    AApplied outs [] (repeat_loop c (N.to_nat (c_repeat c)) r outs).
Definition apply (c : config) : applied := if c_repeat c <=? REP_CAP then runner_run_all_tests c else ASkipped.

(* ---------------------------------------------------------------- the documented meaning of applying a configuration *)
(* -v verbose, -vv very verbose: the highest level asked for *)
Definition doc_level (c : config) : N := if c_veryverbose c then 2 else if c_verbose c then 1 else 0.
(* the tests the filters select, in the normal order *)
Definition doc_tests (c : config) : list (N * rprobe) :=
  List.filter (fun t => doc_selected c (p_group (snd t), p_name (snd t))) reg0.
(* -b: backwards, reversing the normal way -- in every repetition *)
Definition natural (c : config) : list N := map fst (doc_tests c).
Definition doc_order (c : config) : list N := if c_rev c then rev (natural c) else natural c.
Definition ignored_id (i : N) : bool := existsb (fun t => (fst t =? i) && p_ign (snd t)) reg0.
Fixpoint nlist_eqb (a b : list N) : bool :=
  match a, b with [], [] => true | x :: a', y :: b' => (x =? y) && nlist_eqb a' b' | _, _ => false end.
Fixpoint count_n (x : N) (l : list N) : nat := match l with [] => O | y :: r => (if y =? x then 1 else 0) + count_n x r end.
Definition is_perm (a b : list N) : bool := forallb (fun x => Nat.eqb (count_n x a) (count_n x b)) (a ++ b).
Definition is_nil {A} (l : list A) : bool := match l with [] => true | _ => false end.
Definition rep_ok (c : config) (r : rep_obs) : bool :=
  (r_level r =? doc_level c) && Bool.eqb (r_color r) (c_color c) &&
  (if c_shuf c then forallb (fun s => s =? c_seed c mod 4294967296) (r_seeds r) &&       (* srand takes an unsigned int *)
                      is_perm (r_started r) (natural c)
   else is_nil (r_seeds r) && nlist_eqb (r_started r) (doc_order c)) &&
  (* an ignored test runs exactly under -ri *)
  nlist_eqb (r_ran r) (List.filter (fun i => negb (ignored_id i) || c_runign c) (r_started r)) &&
  (* -p: every test is run in a separate process *)
  nlist_eqb (r_sep r) (if c_sep c then r_started r else []).
(* shuffling: the generator is seeded (with the configured seed, rep_ok) before the first repetition runs *)
Definition first_seeded (c : config) (reps : list rep_obs) : bool :=
  match reps with r :: _ => negb (c_shuf c) || negb (is_nil (r_seeds r)) | [] => true end.

(* a listing: the entries, in any order and without repetition, cover what the filters select and name only tests there are *)
Fixpoint split_on (d : N) (s : bytes) : list bytes :=
  match s with
  | [] => [[]]
  | ch :: r => if ch =? d then [] :: split_on d r
               else match split_on d r with t :: ts => (ch :: t) :: ts | [] => [[ch]] end
  end.
Definition entries (d : N) (s : bytes) : list bytes := List.filter nonempty (split_on d s).
Fixpoint nodup_b (l : list bytes) : bool :=
  match l with [] => true | x :: r => negb (existsb (bytes_eqb x) r) && nodup_b r end.
Definition incl_b (a b : list bytes) : bool := forallb (fun x => existsb (bytes_eqb x) b) a.
Definition list_text_ok (d : N) (all sel : list bytes) (text : bytes) : bool :=
  let es := entries d text in nodup_b es && incl_b es all && incl_b sel es.
Definition doc_list_ok (c : config) (text : bytes) : bool :=
  let all := map snd reg0 in
  let sel := map snd (doc_tests c) in
  (c_listg c && list_text_ok 32 (map group_entry all) (map group_entry sel) text) ||      (* group names, separated by spaces *)
  (c_listn c && list_text_ok 32 (map name_entry all) (map name_entry sel) text) ||        (* group.name, separated by spaces *)
  (c_listl c && list_text_ok 10 (map loc_entry all) (map loc_entry sel) text).            (* group.name.test_file_path.line *)
Definition list_mode (c : config) : bool := c_listg c || c_listn c || c_listl c.
(* the output: of the configured kind (JUnit: with the package name), every output created got the level and the colour *)
Definition outs_ok (c : config) (outs : list out_rec) : bool :=
  match outs with
  | [] => false
  | o :: _ => out_eqb (o_kind o) (c_out c) && (match c_out c with OJUnit => bytes_eqb (o_pkg o) (c_pkg c) | _ => true end)
  end &&
  forallb (fun o => (o_level o =? doc_level c) && Bool.eqb (o_color o) (c_color c)) outs.
Definition apply_ok (c : config) (a : applied) : bool :=
  match a with
  | ASkipped => REP_CAP <? c_repeat c
  | AApplied outs text reps =>
      (c_repeat c <=? REP_CAP) && outs_ok c outs &&
      (if list_mode c then is_nil reps && doc_list_ok c text             (* "options that do not run tests but query" *)
       else (N.of_nat (length reps) =? c_repeat c) && forallb (rep_ok c) reps && first_seeded c reps)
  end.

(* ---------------------------------------------------------------- the extended observation, run and spec of the property *)
Record xobs := { x_parse : obs; x_applied : option applied }.
Definition xrun (tm : N) (argv : list bytes) : xobs :=
  let o := run tm argv in
  {| x_parse := o; x_applied := match o with OAccepted c _ => Some (apply c) | _ => None end |}.
(* the parse part as before; an accepted vector was also handed to the runner, which did with the REPORTED configuration what
   the help text says (for an annotated vector the reported configuration is the documented one: spec) *)
Definition xspec (tm : N) (argv : list bytes) (opts : list doc_opt) (x : xobs) : bool :=
  spec tm argv opts (x_parse x) &&
  match x_parse x, x_applied x with
  | OAccepted c _, Some a => apply_ok c a
  | OAccepted _ _, None => false
  | _, None => true
  | _, Some _ => false
  end.

(* ---------------------------------------------------------------- option vectors: what was asked for *)
Definition is_opt (a b : doc_opt) : bool :=
  match a, b with
  | DVerbose, DVerbose | DVeryVerbose, DVeryVerbose | DColor, DColor | DSepProcess, DSepProcess | DReverse, DReverse
  | DListGroups, DListGroups | DListNames, DListNames | DListLocations, DListLocations | DRunIgnored, DRunIgnored => true
  | _, _ => false
  end.
Definition asks (o : doc_opt) (opts : list doc_opt) : bool := existsb (is_opt o) opts.
Definition asks_shuffle (opts : list doc_opt) : bool := existsb (fun o => match o with DShuffle _ => true | _ => false end) opts.
Definition asked_level (opts : list doc_opt) : N := if asks DVeryVerbose opts then 2 else if asks DVerbose opts then 1 else 0.
