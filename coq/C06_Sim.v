(* C06 -- the model meets the oracle: forall valid scenarios, spec s (run s) = true.
   Simulation between the detector state (hash table + byte memory) and the property's own bookkeeping (list of blocks with
   family and guard bytes). *)
From Coq Require Import NArith List Bool Arith Lia.
From CppUVerif Require Import gen.Gen_Common gen.Gen_C06 lib.Str C04_Model C04_Lists C04_Table C06_Model C06_Proofs.
Import ListNotations.
Local Open Scope N_scope.
Arguments pat : simpl never.
Arguments G : simpl never.
Arguments pattern : simpl never.
Arguments poison : simpl never.

(* ------------------------------------------------------------------ lists of blocks *)
Lemma find_map f a : (forall b, b_addr (f b) = b_addr b) -> forall l, find_blk a (map f l) = option_map f (find_blk a l).
Proof. intros Hf. induction l as [|b r IH]; cbn; [reflexivity|]. rewrite Hf. destruct (b_addr b =? a); [reflexivity|assumption]. Qed.
Lemma drop_cons a b r : drop_blk a (b :: r) = if b_addr b =? a then drop_blk a r else b :: drop_blk a r.
Proof. unfold drop_blk. cbn [filter]. destruct (b_addr b =? a); reflexivity. Qed.
Lemma find_drop a a' : forall l, find_blk a' (drop_blk a l) = if a =? a' then None else find_blk a' l.
Proof.
  induction l as [|b r IH]; [cbn; destruct (a =? a'); reflexivity|]. rewrite drop_cons. cbn [find_blk].
  destruct (N.eqb_spec (b_addr b) a) as [E|E].
  - rewrite IH. destruct (N.eqb_spec a a') as [E2|E2]; [reflexivity|]. destruct (N.eqb_spec (b_addr b) a'); [congruence|reflexivity].
  - cbn [find_blk]. rewrite IH. destruct (N.eqb_spec a a') as [E2|E2]; [|reflexivity]. destruct (N.eqb_spec (b_addr b) a'); [congruence|reflexivity].
Qed.
Lemma find_none_notin a : forall l, find_blk a l = None -> ~ In a (map b_addr l).
Proof.
  induction l as [|b r IH]; cbn; intros H; [tauto|]. destruct (N.eqb_spec (b_addr b) a); [discriminate|].
  intros [?|?]; [contradiction|]. apply IH; assumption.
Qed.
Lemma drop_none a : forall l, find_blk a l = None -> drop_blk a l = l.
Proof.
  induction l as [|b r IH]; intros H; [reflexivity|]. rewrite drop_cons. cbn [find_blk] in H.
  destruct (b_addr b =? a); [discriminate|]. rewrite IH by assumption. reflexivity.
Qed.
Lemma drop_incl a : forall l x, In x (map b_addr (drop_blk a l)) -> In x (map b_addr l).
Proof.
  induction l as [|b r IH]; intros x H; [assumption|]. rewrite drop_cons in H. cbn [map].
  destruct (b_addr b =? a); [right; apply IH; assumption|]. cbn [map] in H.
  destruct H as [?|?]; [left; assumption|right; apply IH; assumption].
Qed.
Lemma nodup_drop a : forall l, NoDup (map b_addr l) -> NoDup (map b_addr (drop_blk a l)).
Proof.
  induction l as [|b r IH]; intros H; [constructor|]. cbn [map] in H. inversion H; subst. rewrite drop_cons.
  destruct (b_addr b =? a); [apply IH; assumption|]. cbn [map].
  constructor; [|apply IH; assumption]. intro Hx. apply drop_incl in Hx. contradiction.
Qed.
Lemma drop_length a : forall l b, NoDup (map b_addr l) -> find_blk a l = Some b -> S (length (drop_blk a l)) = length l.
Proof.
  induction l as [|c r IH]; intros b ND H; [discriminate|]. cbn [map] in ND. inversion ND as [|x y Hx Hy]; subst.
  rewrite drop_cons. cbn [find_blk] in H. cbn [length].
  destruct (N.eqb_spec (b_addr c) a) as [E|E].
  - rewrite drop_none; [reflexivity|]. destruct (find_blk a r) as [z|] eqn:F; [|reflexivity].
    exfalso. apply Hx. rewrite E. clear -F. induction r as [|q r IH]; cbn in *; [discriminate|].
    destruct (N.eqb_spec (b_addr q) a); [left; assumption|right; apply IH; assumption].
  - cbn [length]. f_equal. eapply IH; eassumption.
Qed.
Lemma retrieve_rm a a' : forall l, NoDup (addrs l) -> l_retrieve a' (rm a l) = if a =? a' then None else l_retrieve a' l.
Proof.
  intros l ND. destruct (N.eqb_spec a a') as [<-|E]; [|apply retrieve_rm_other; congruence].
  apply retrieve_notin. rewrite rm_drop by assumption. unfold drop, addrs. rewrite in_map_iff.
  intros (x & Hx & Hin). apply filter_In in Hin. destruct Hin as [_ Hf]. unfold has_addr in Hf. rewrite Hx, N.eqb_refl in Hf. discriminate.
Qed.

(* ------------------------------------------------------------------ the relation *)
Definition blk_of (ds : list adesc) (st : dstate) (n : node) : sblk :=
  mkB (n_addr n) (n_size n) (fam_of ds (node_alloc n)) (mrange (s_mem st) (n_addr n + n_size n) G).
Lemma blk_of_ext ds st1 st2 k :
  (forall i, (i < G)%nat -> mread (s_mem st1) (n_addr k + n_size k + N.of_nat i) = mread (s_mem st2) (n_addr k + n_size k + N.of_nat i)) ->
  blk_of ds st1 k = blk_of ds st2 k.
Proof. intros H. unfold blk_of. f_equal. apply mrange_ext. assumption. Qed.

Record Rel (ds : list adesc) (st : dstate) (ss : sstate) : Prop := mkRel {
  r_inv : Inv (s_tbl st);
  r_slots : slots_ok (flat (s_tbl st));
  r_tc : s_tc st = ss_tc ss;
  r_find : forall a, find_blk a (ss_blks ss) = option_map (blk_of ds st) (l_retrieve a (flat (s_tbl st)));
  r_len : length (ss_blks ss) = length (flat (s_tbl st));
  r_nodup : NoDup (map b_addr (ss_blks ss)) }.

Lemma rel_init ds : Rel ds d_init ss_init.
Proof.
  assert (F : flat empty_table = []).
  { unfold flat, empty_table. induction nbuckets; cbn; auto. }
  constructor; cbn; rewrite ?F; try reflexivity.
  - apply inv_empty.
  - constructor.
  - constructor.
Qed.

(* a memory that shows the same guards leaves the relation alone *)
Lemma rel_mem ds st ss m' : Rel ds st ss -> guards_agree (flat (s_tbl st)) m' (s_mem st) -> Rel ds (with_mem st m') ss.
Proof.
  intros [I SO Tc Fd Ln ND] Ag. constructor; cbn [with_mem s_tbl s_tc s_mem]; auto.
  intros a. rewrite Fd. destruct (l_retrieve a (flat (s_tbl st))) as [n|] eqn:E; [|reflexivity]. cbn. f_equal.
  destruct (retrieve_some _ _ _ E) as (A & B & EA & _).
  apply blk_of_ext. intros i Hi. cbn. symmetry. apply Ag; [|assumption]. rewrite EA. apply in_or_app. right. left. reflexivity.
Qed.

(* ------------------------------------------------------------------ allocation *)
Lemma alloc_agree l m a size : slots_ok l -> (forall k, In k l -> n_addr k <> a) -> a mod slot_size = 0 -> size <= max_size ->
  guards_agree l (mwrite m (a + size) pattern) m.
Proof.
  intros SO Hne Ha Hs k i Hk Hi. apply mread_outside. rewrite pattern_length.
  unfold slots_ok in SO. rewrite Forall_forall in SO. destruct (SO k Hk) as [Mk Sk]. pose proof G_fits as GF.
  destruct (slot_sep _ _ Mk Ha (Hne k Hk)) as [S|S]; [left|right]; lia.
Qed.
Lemma addr_ok_spec a size : addr_ok a size = true -> a mod slot_size = 0 /\ size <= max_size.
Proof. unfold addr_ok. rewrite !andb_true_iff, N.eqb_eq, N.leb_le. tauto. Qed.

Lemma rel_alloc ds st ss a size al : Rel ds st ss -> addr_ok a size = true -> live a (ss_blks ss) = false ->
  Rel ds (d_store st a size al) (mkSS (mkB a size (fam_of ds al) pattern :: ss_blks ss) (ss_tc ss)).
Proof.
  intros [I SO Tc Fd Ln ND] Hok Hl. apply addr_ok_spec in Hok. destruct Hok as [Ha Hs].
  assert (Fn : find_blk a (ss_blks ss) = None) by (unfold live in Hl; destruct (find_blk a (ss_blks ss)); [discriminate|reflexivity]).
  assert (Ho : ~ outstanding st a).
  { unfold outstanding. apply retrieve_none. specialize (Fd a). rewrite Fn in Fd. destruct (l_retrieve a (flat (s_tbl st))); [discriminate|reflexivity]. }
  destruct (store_facts st a size al I Ho) as (I1 & R1 & In1 & L1 & Tc1 & M1).
  assert (Hne : forall k, In k (flat (s_tbl st)) -> n_addr k <> a).
  { intros k Hk E. apply Ho. unfold outstanding. rewrite <- E. apply in_map. assumption. }
  assert (Ag : guards_agree (flat (s_tbl st)) (s_mem (d_store st a size al)) (s_mem st)).
  { rewrite M1. apply alloc_agree; assumption. }
  constructor; cbn [ss_blks ss_tc].
  - assumption.
  - unfold slots_ok. rewrite Forall_forall. intros x Hx. apply In1 in Hx. destruct Hx as [->|Hx]; [split; assumption|].
    unfold slots_ok in SO. rewrite Forall_forall in SO. auto.
  - rewrite Tc1. assumption.
  - intros a'. cbn [find_blk b_addr]. rewrite R1. destruct (N.eqb_spec a a') as [<-|E].
    + cbn. f_equal. unfold blk_of. cbn [n_addr n_size mk_node]. f_equal.
      * unfold node_alloc. cbn. rewrite Nat2N.id. reflexivity.
      * rewrite M1. rewrite <- pattern_length. symmetry. apply mrange_written.
    + rewrite Fd. destruct (l_retrieve a' (flat (s_tbl st))) as [k|] eqn:Ek; [|reflexivity]. cbn. f_equal.
      destruct (retrieve_some _ _ _ Ek) as (A & B & EA & _).
      apply blk_of_ext. intros i Hi. symmetry. apply Ag; [|assumption]. rewrite EA. apply in_or_app. right. left. reflexivity.
  - cbn [length]. rewrite L1, Ln. reflexivity.
  - cbn [map b_addr]. constructor; [apply find_none_notin; assumption|assumption].
Qed.

(* ------------------------------------------------------------------ program writes *)
Lemma combine_self_map {A B} (f : A -> B) : forall l, combine l (map f l) = map (fun i => (i, f i)) l.
Proof. induction l as [|x l IH]; cbn; [reflexivity|]. rewrite IH. reflexivity. Qed.
Lemma upd_guard_blk ds st w bs n : upd_guard w bs (blk_of ds st n) = blk_of ds (with_mem st (mwrite (s_mem st) w bs)) n.
Proof.
  unfold upd_guard, blk_of. cbn [b_addr b_size b_fam b_guard with_mem s_mem]. apply (f_equal (mkB _ _ _)).
  rewrite mrange_length. unfold mrange. rewrite combine_self_map. rewrite map_map. apply map_ext. intros i. cbn. reflexivity.
Qed.
Lemma rel_write ds st ss w bs : Rel ds st ss ->
  Rel ds (with_mem st (mwrite (s_mem st) w bs)) (mkSS (map (upd_guard w bs) (ss_blks ss)) (ss_tc ss)).
Proof.
  intros [I SO Tc Fd Ln ND]. constructor; cbn [with_mem s_tbl s_tc s_mem ss_blks ss_tc].
  - assumption.
  - assumption.
  - assumption.
  - intros a. rewrite find_map by reflexivity. rewrite Fd. destruct (l_retrieve a (flat (s_tbl st))); [|reflexivity].
    cbn [option_map]. rewrite upd_guard_blk. reflexivity.
  - rewrite map_length. assumption.
  - rewrite map_map. cbn [upd_guard b_addr]. assumption.
Qed.

(* ------------------------------------------------------------------ removal of a record *)
Lemma rel_remove ds st ss a n t' m' : Rel ds st ss ->
  l_retrieve a (flat (s_tbl st)) = Some n -> flat t' = rm a (flat (s_tbl st)) -> Inv t' ->
  guards_agree (flat (s_tbl st)) m' (s_mem st) ->
  Rel ds (with_mem (with_tbl st t') m') (release ss (Some a)).
Proof.
  intros [I SO Tc Fd Ln ND] E R I' Ag. pose proof I as (_ & _ & NDn).
  constructor; cbn [s_tbl s_tc s_mem with_mem with_tbl release ss_blks ss_tc].
  - assumption.
  - unfold slots_ok in *. rewrite Forall_forall in *. intros x Hx. apply SO. rewrite R in Hx. eapply rm_incl. eassumption.
  - assumption.
  - intros a'. rewrite find_drop, R, retrieve_rm by assumption. destruct (a =? a'); [reflexivity|]. rewrite Fd.
    destruct (l_retrieve a' (flat (s_tbl st))) as [k|] eqn:Ek; [|reflexivity]. cbn. f_equal.
    destruct (retrieve_some _ _ _ Ek) as (A & B & EA & _).
    apply blk_of_ext. intros i Hi. cbn. symmetry. apply Ag; [|assumption]. rewrite EA. apply in_or_app. right. left. reflexivity.
  - rewrite R. pose proof (rm_length a _ n E) as L1.
    assert (Fb : find_blk a (ss_blks ss) = Some (blk_of ds st n)) by (rewrite Fd, E; reflexivity).
    pose proof (drop_length a _ _ ND Fb) as L2. lia.
  - apply nodup_drop. assumption.
Qed.
Lemma rel_release_none ds st ss a : Rel ds st ss -> l_retrieve a (flat (s_tbl st)) = None -> release ss (Some a) = ss.
Proof.
  intros [I SO Tc Fd Ln ND] E. unfold release. rewrite drop_none; [destruct ss; reflexivity|]. rewrite Fd, E. reflexivity.
Qed.

(* ------------------------------------------------------------------ the category the detector reports is the one the property names *)
Lemma check_expect ds st n al :
  check ds st n al =
  if s_tc st && negb (bytes_eqb (fam_of ds (node_alloc n)) (fam_of ds al)) then CMismatch
  else if negb (bytes_eqb (mrange (s_mem st) (n_addr n + n_size n) G) pattern) then CCorrupt else CNone.
Proof.
  unfold check. rewrite matching_spec, valid_guard_range. unfold fam_of.
  destruct (s_tc st), (bytes_eqb (name_of ds (actual_of ds (node_alloc n))) (name_of ds (actual_of ds al))); reflexivity.
Qed.
Lemma lookup_expect ds st ss al p : Rel ds st ss -> lookup_cat ds st al p = expect ss (fam_of ds al) p.
Proof.
  intros [I SO Tc Fd Ln ND]. unfold lookup_cat, expect. destruct p as [a|]; [|reflexivity].
  rewrite Fd. destruct (l_retrieve a (flat (s_tbl st))) as [n|]; [|reflexivity]. cbn [option_map].
  rewrite check_expect. unfold blk_of. cbn [b_fam b_guard]. rewrite Tc. reflexivity.
Qed.
Lemma family_fam ds e al : family ds e al = fam_of ds (det_alloc ds e al).
Proof. reflexivity. Qed.

(* ------------------------------------------------------------------ one release through any of the entry points *)
Lemma dealloc_shape ds jump st al a n t' : Inv (s_tbl st) -> l_retrieve a (flat (s_tbl st)) = Some n ->
  t_remove a (s_tbl st) = (Some n, t') ->
  let c := check ds st n al in
  d_dealloc ds jump st al (Some a) =
    (with_tbl st t', c, match c with CNone => [(a, n_size n)] | _ => if jump then [] else [(a, n_size n)] end).
Proof.
  intros I E TR c. unfold d_dealloc. rewrite TR. rewrite check_with_tbl. fold c. destruct c, jump; reflexivity.
Qed.

Lemma poison_ok_nil a sz : poison_ok a sz [] = true. Proof. reflexivity. Qed.
Lemma poison_ok_one a sz : poison_ok a sz [(a, Some (repeat poison (N.to_nat sz)))] = true.
Proof. unfold poison_ok. cbn. rewrite bytes_eqb_refl, orb_true_r. reflexivity. Qed.

Lemma total_rel ds st ss : Rel ds st ss -> (total_of st =? N.of_nat (length (ss_blks ss))) = true.
Proof. intros RL. apply N.eqb_eq. unfold total_of. rewrite total_all. f_equal. symmetry. apply (r_len _ _ _ RL). Qed.
Lemma with_mem_id st : with_mem st (s_mem st) = st.
Proof. destruct st; reflexivity. Qed.
Lemma invalidate_with_mem st p : d_invalidate st p = with_mem st (s_mem (d_invalidate st p)).
Proof.
  unfold d_invalidate. destruct p as [a|]; [|symmetry; apply with_mem_id].
  destruct (t_retrieve a (s_tbl st)); [reflexivity|symmetry; apply with_mem_id].
Qed.

Lemma free_step ds jump st ss e al p st2 x : Rel ds st ss ->
  step ds jump st (OpFree e al p) = (st2, Some x) ->
  Rel ds st2 (release ss p) /\
  check_release ss (family ds e al) p (poisons e) x (release ss p) = true.
Proof.
  intros RL Hs. pose proof RL as [I SO Tc Fd Ln ND].
  set (al' := det_alloc ds e al) in *.
  set (st1 := if poisons e then d_invalidate st p else st).
  assert (Et1 : s_tbl st1 = s_tbl st /\ s_tc st1 = s_tc st).
  { unfold st1. destruct (poisons e); [apply invalidate_tbl|auto]. }
  destruct Et1 as [Et1 Ec1].
  assert (Ag1 : guards_agree (flat (s_tbl st)) (s_mem st1) (s_mem st)).
  { unfold st1. destruct (poisons e); [apply invalidate_agree; assumption|apply guards_agree_refl]. }
  assert (RL1 : Rel ds st1 ss).
  { assert (st1 = with_mem st (s_mem st1)) as -> by (unfold st1; destruct (poisons e); [apply invalidate_with_mem|symmetry; apply with_mem_id]).
    apply rel_mem; assumption. }
  assert (HS : step ds jump st (OpFree e al p) =
               let '(s2, c, fr) := d_dealloc ds jump st1 al' p in
               (s2, Some (mkO (calls_of c) (cat_code c) (seen s2 (negb (poisons e)) fr) (total_of s2) false))) by reflexivity.
  rewrite HS in Hs. clear HS.
  unfold check_release. rewrite family_fam. fold al'. rewrite <- (lookup_expect ds st ss al' p RL).
  destruct p as [a|].
  - (* a real address *)
    destruct (l_retrieve a (flat (s_tbl st))) as [n|] eqn:E.
    + (* outstanding *)
      destruct (remove_cases a (s_tbl st) I) as [(E0 & _)|(n' & E' & Ha & Hin & F & R & I' & Hout)]; [congruence|].
      rewrite E in E'. inversion E'; subst n'. clear E'.
      destruct (t_remove a (s_tbl st)) as [r t'] eqn:TR. cbn [fst snd] in F, R, I', Hout. subst r.
      assert (I1 : Inv (s_tbl st1)) by (rewrite Et1; assumption).
      rewrite (dealloc_shape ds jump st1 al' a n t') in Hs by (rewrite ?Et1; assumption).
      cbv zeta in Hs.
      assert (Ck : check ds st1 n al' = lookup_cat ds st al' (Some a)).
      { unfold lookup_cat. rewrite E. unfold check. rewrite Ec1. rewrite (valid_guard_ext (s_mem st1) (s_mem st)); [reflexivity|].
        intros i Hi. apply Ag1; assumption. }
      rewrite Ck in Hs. set (c := lookup_cat ds st al' (Some a)) in *.
      assert (Es2 : with_tbl st1 t' = with_mem (with_tbl st t') (s_mem st1)).
      { assert (Es1 : st1 = with_mem st (s_mem st1))
          by (unfold st1; destruct (poisons e); [apply invalidate_with_mem|symmetry; apply with_mem_id]).
        rewrite Es1 at 1. reflexivity. }
      assert (RL2 : Rel ds (with_tbl st1 t') (release ss (Some a))) by (rewrite Es2; eapply rel_remove; eassumption).
      inversion Hs; subst st2 x. clear Hs. split; [assumption|].
      cbn [o_cat o_calls o_total o_freed]. rewrite !N.eqb_refl. cbn [andb].
      rewrite (total_rel _ _ _ RL2). cbn [andb].
      assert (Sz : size_at ss (Some a) = Some (n_size n)).
      { unfold size_at. rewrite Fd, E. reflexivity. }
      rewrite Sz. destruct (poisons e) eqn:Ee; cbn [negb]; [|reflexivity].
      (* poisoning entry points *)
      assert (M1 : s_mem st1 = mwrite (s_mem st) a (repeat poison (N.to_nat (n_size n)))).
      { unfold st1. unfold d_invalidate; rewrite (retrieve_flat _ _ I), E; reflexivity. }
      assert (MR : mrange (s_mem st1) a (N.to_nat (n_size n)) = repeat poison (N.to_nat (n_size n))).
      { rewrite M1. pose proof (mrange_written (s_mem st) a (repeat poison (N.to_nat (n_size n)))) as H. rewrite repeat_length in H. exact H. }
      destruct c; [|destruct jump|destruct jump|destruct jump];
        unfold seen; cbn [map fst snd s_mem with_tbl]; rewrite ?MR; first [apply poison_ok_nil | apply poison_ok_one].
    + (* not outstanding *)
      destruct (remove_cases a (s_tbl st) I) as [(E0 & Hn & F)|(n' & E' & _)]; [|congruence].
      assert (Ei : st1 = st).
      { unfold st1. destruct (poisons e); try reflexivity; unfold d_invalidate; rewrite (retrieve_flat _ _ I), E; reflexivity. }
      rewrite Ei in Hs. unfold d_dealloc in Hs.
      destruct (t_remove a (s_tbl st)) as [r t'] eqn:TR. cbn [fst] in F. subst r.
      inversion Hs; subst st2 x. clear Hs.
      rewrite (rel_release_none ds st ss a RL E). split; [assumption|].
      unfold lookup_cat. rewrite E. cbn [o_cat o_calls o_total o_freed cat_code calls_of]. rewrite !N.eqb_refl. cbn [andb].
      assert (Tot : total_of st =? N.of_nat (length (ss_blks ss)) = true).
      { apply N.eqb_eq. unfold total_of. rewrite total_all, Ln. reflexivity. }
      rewrite Tot. cbn [andb]. unfold size_at. rewrite Fd, E. reflexivity.
  - (* NULL *)
    assert (Ei : st1 = st) by (unfold st1; destruct (poisons e); reflexivity).
    rewrite Ei in Hs. cbn in Hs. inversion Hs; subst st2 x. clear Hs. split; [assumption|].
    cbn [release o_cat o_calls o_total o_freed lookup_cat cat_code calls_of]. rewrite !N.eqb_refl. cbn [andb].
    assert (Tot : total_of st =? N.of_nat (length (ss_blks ss)) = true).
    { apply N.eqb_eq. unfold total_of. rewrite total_all, Ln. reflexivity. }
    rewrite Tot. reflexivity.
Qed.

(* ------------------------------------------------------------------ realloc *)

Lemma realloc_step ds jump st ss al p na size st2 x : Rel ds st ss ->
  addr_ok na size = true -> live na (ss_blks (release ss p)) = false ->
  step ds jump st (OpRealloc al p na size) = (st2, Some x) ->
  let ss1 := release ss p in
  let ss' := if o_res x then mkSS (mkB na size (family ds EMalloc al) pattern :: ss_blks ss1) (ss_tc ss1) else ss1 in
  Rel ds st2 ss' /\ check_release ss (family ds EMalloc al) p false x ss' = true /\
  ss' = a_step ds jump ss (OpRealloc al p na size).
Proof.
  intros RL Hok Hl Hs ss1 ss'. pose proof RL as [I SO Tc Fd Ln ND].
  assert (Ff : family ds EMalloc al = fam_of ds al) by reflexivity.
  assert (HS : step ds jump st (OpRealloc al p na size) =
               let '(s2, c, res) := d_realloc ds jump st al p na size in
               (s2, Some (mkO (calls_of c) (cat_code c) [] (total_of s2) res))) by reflexivity.
  rewrite HS in Hs. clear HS.
  unfold a_step. fold ss1. rewrite Ff in *. rewrite <- (lookup_expect ds st ss al p RL).
  unfold check_release. rewrite <- (lookup_expect ds st ss al p RL).
  assert (PT : match p, size_at ss p with Some _, Some _ => true | _, _ => true end = true) by (destruct p as [q|]; [destruct (size_at ss (Some q))|]; reflexivity).
  destruct p as [a|].
  - destruct (l_retrieve a (flat (s_tbl st))) as [n|] eqn:E.
    + destruct (remove_cases a (s_tbl st) I) as [(E0 & _)|(n' & E' & Ha & Hin & F & R & I' & Hout)]; [congruence|].
      rewrite E in E'. inversion E'; subst n'. clear E'.
      unfold d_realloc in Hs. destruct (t_remove a (s_tbl st)) as [r t'] eqn:TR. cbn [fst snd] in F, R, I', Hout. subst r.
      set (st' := with_tbl st t') in *.
      assert (Ck : check ds st' n al = lookup_cat ds st al (Some a)).
      { unfold lookup_cat. rewrite E. apply check_with_tbl. }
      rewrite Ck in Hs.
      assert (Nn : lookup_cat ds st al (Some a) <> CNonAlloc).
      { rewrite <- Ck. apply (check_exact ds st' n al). }
      assert (RL1 : Rel ds st' ss1).
      { replace st' with (with_mem (with_tbl st t') (s_mem st)) by (unfold st'; apply (with_mem_id (with_tbl st t'))).
        eapply rel_remove; try eassumption. apply guards_agree_refl. }
      assert (RLs : Rel ds (d_store st' na size al) (mkSS (mkB na size (fam_of ds al) pattern :: ss_blks ss1) (ss_tc ss1)))
        by (apply rel_alloc; assumption).
      set (c := lookup_cat ds st al (Some a)) in *.
      destruct c eqn:Ec; [|contradiction|destruct jump|destruct jump]; inversion Hs; subst st2 x; clear Hs;
        unfold ss'; cbn [o_res o_cat o_calls o_total negb]; rewrite !N.eqb_refl; cbn [andb];
        (split; [assumption|]); (split; [|reflexivity]);
        change (family ds EMalloc al) with (fam_of ds al);
        first [rewrite (total_rel _ _ _ RLs) | rewrite (total_rel _ _ _ RL1)]; exact PT.
    + destruct (remove_cases a (s_tbl st) I) as [(E0 & Hn & F)|(n' & E' & _)]; [|congruence].
      unfold d_realloc in Hs. destruct (t_remove a (s_tbl st)) as [r t'] eqn:TR. cbn [fst] in F. subst r.
      inversion Hs; subst st2 x. clear Hs. unfold ss', ss1. cbn [o_res o_cat o_calls o_total].
      rewrite (rel_release_none ds st ss a RL E). unfold lookup_cat. rewrite E.
      split; [assumption|]. split; [|reflexivity]. cbn [cat_code calls_of]. rewrite !N.eqb_refl, (total_rel _ _ _ RL). exact PT.
  - unfold d_realloc in Hs. inversion Hs; subst st2 x. clear Hs. unfold ss', ss1. cbn [o_res o_cat o_calls o_total release lookup_cat].
    assert (RLs : Rel ds (d_store st na size al) (mkSS (mkB na size (fam_of ds al) pattern :: ss_blks ss) (ss_tc ss)))
      by (apply rel_alloc; assumption).
    split; [assumption|]. split; [|reflexivity]. cbn [cat_code calls_of]. rewrite !N.eqb_refl.
    change (family ds EMalloc al) with (fam_of ds al). rewrite (total_rel _ _ _ RLs). reflexivity.
Qed.

(* ------------------------------------------------------------------ the theorem *)
Lemma rel_tc ds st ss b : Rel ds st ss -> Rel ds (with_tc st b) (mkSS (ss_blks ss) b).
Proof. intros [I SO Tc Fd Ln ND]. constructor; cbn [s_tbl s_tc s_mem with_tc ss_blks ss_tc]; auto. Qed.
(* the period and the stage of the detector are not part of the relation: the property's bookkeeping has neither *)
Lemma rel_period ds st ss p : Rel ds st ss -> Rel ds (with_period st p) ss.
Proof. intros [I SO Tc Fd Ln ND]. constructor; cbn [s_tbl s_tc s_mem with_period]; auto. Qed.
Lemma rel_stage ds st ss g : Rel ds st ss -> Rel ds (with_stage st g) ss.
Proof. intros [I SO Tc Fd Ln ND]. constructor; cbn [s_tbl s_tc s_mem with_stage]; auto. Qed.

Lemma free_some ds jump st e al p : exists st2 x, step ds jump st (OpFree e al p) = (st2, Some x).
Proof.
  unfold step. destruct (d_dealloc ds jump (if poisons e then d_invalidate st p else st) (det_alloc ds e al) p) as [[s2 c] fr].
  eexists. eexists. reflexivity.
Qed.
Lemma realloc_some ds jump st al p na size : exists st2 x, step ds jump st (OpRealloc al p na size) = (st2, Some x).
Proof. unfold step. destruct (d_realloc ds jump st al p na size) as [[s2 c] res]. eexists. eexists. reflexivity. Qed.

Lemma run_spec ds jump : forall ops st ss, Rel ds st ss -> valid_from ds jump ss ops = true ->
  spec_from ds ss ops (run_from ds jump st ops) = true.
Proof.
  induction ops as [|o r IH]; intros st ss RL V; [reflexivity|].
  cbn [valid_from] in V. apply andb_true_iff in V. destruct V as [Vo Vr].
  destruct o as [e al a size|e al p|al p na size|w bs|b|k|up|ts].
  - (* alloc *)
    cbn [op_ok] in Vo. rewrite !andb_true_iff, negb_true_iff in Vo. destruct Vo as [[_ Hok] Hl].
    cbn [run_from step spec_from]. apply IH; [|exact Vr]. rewrite family_fam. apply rel_alloc; assumption.
  - (* free *)
    destruct (free_some ds jump st e al p) as (st2 & x & Hs).
    destruct (free_step ds jump st ss e al p st2 x RL Hs) as [RL2 CR].
    cbn [run_from]. rewrite Hs. cbn [spec_from]. rewrite CR. cbn [andb]. apply IH; assumption.
  - (* realloc *)
    cbn [op_ok] in Vo. rewrite !andb_true_iff, negb_true_iff in Vo. destruct Vo as [[[_ _] Hok] Hl].
    destruct (realloc_some ds jump st al p na size) as (st2 & x & Hs).
    destruct (realloc_step ds jump st ss al p na size st2 x RL Hok Hl Hs) as (RL2 & CR & EA).
    cbn [run_from]. rewrite Hs. cbn [spec_from]. cbv zeta in CR, RL2, EA. rewrite CR. cbn [andb].
    apply IH; [assumption|]. rewrite EA. exact Vr.
  - (* write *)
    cbn [run_from step spec_from]. apply IH; [|exact Vr]. apply (rel_write ds st ss w bs RL).
  - (* type checking switch *)
    cbn [run_from step spec_from]. apply IH; [|exact Vr]. apply rel_tc. assumption.
  - (* enable / disable / startChecking / stopChecking *)
    cbn [run_from step spec_from]. apply IH; [|exact Vr]. apply rel_period. assumption.
  - (* allocation stage *)
    cbn [run_from step spec_from]. apply IH; [|exact Vr]. apply rel_stage. assumption.
  - (* which overloads are installed *)
    cbn [run_from step spec_from]. apply IH; [|exact Vr]. assumption.
Qed.

Definition C06_run_meets_spec_stmt : Prop := forall s, valid s = true -> spec s (run s) = true.
Theorem run_meets_spec : C06_run_meets_spec_stmt.
Proof.
  intros s V. unfold valid in V. apply andb_true_iff in V. destruct V as [_ V].
  unfold spec, run. apply run_spec; [apply rel_init|assumption].
Qed.
