(* C17 -- lemmas about the pointer-set table, the plugin chain and sessions *)
From Coq Require Import NArith Arith Bool List Lia.
From CppUVerif Require Import gen.Gen_Common C17_Model.
Import ListNotations.

(* ================================================================= memory *)
Lemma upd_length m : forall l v, length (upd m l v) = length m.
Proof. induction m as [|x m IH]; intros [|l] v; cbn; try reflexivity. rewrite IH. reflexivity. Qed.

Lemma rd_upd_same m : forall l v, l < length m -> rd (upd m l v) l = v.
Proof.
  unfold rd. induction m as [|x m IH]; intros [|l] v H; cbn in *; try lia; try reflexivity.
  apply IH. lia.
Qed.
Lemma rd_upd_other m : forall l v x, x <> l -> rd (upd m l v) x = rd m x.
Proof.
  unfold rd. induction m as [|x0 m IH]; intros [|l] v [|x] H; cbn; try reflexivity; try congruence.
  apply IH. congruence.
Qed.

(* ================================================================= restore = oldest entry per location *)
(* the entry recorded first for l (the deepest one in the most-recent-first list) *)
Fixpoint oldest (tb : table) (l : loc) : option val :=
  match tb with
  | [] => None
  | (l', v) :: r => match oldest r l with Some w => Some w | None => if Nat.eqb l l' then Some v else None end
  end.

Lemma restore_length tb : forall m, length (restore tb m) = length m.
Proof. induction tb as [|[l v] r IH]; intro m; cbn; [reflexivity|]. rewrite IH. apply upd_length. Qed.

Lemma restore_rd tb : forall m l, l < length m ->
  rd (restore tb m) l = match oldest tb l with Some v => v | None => rd m l end.
Proof.
  induction tb as [|[l0 v0] r IH]; intros m l H; cbn [restore oldest]; [reflexivity|].
  rewrite IH by (rewrite upd_length; exact H).
  destruct (oldest r l); [reflexivity|].
  destruct (Nat.eqb_spec l l0) as [->|Hne].
  - apply rd_upd_same. exact H.
  - apply rd_upd_other. exact Hne.
Qed.

(* ================================================================= the code's stack of saves refines "first value remembered" *)
Definition sim (tb : table) (sv : snaps) (n : nat) : Prop := length tb = n /\ forall l, oldest tb l = lookup sv l.

Lemma sim_nil : sim [] [] 0.
Proof. split; [reflexivity|]. intro l. reflexivity. Qed.

Lemma sim_stmt m tb sv n s : sim tb sv n ->
  match exec_stmt m tb s, ref_stmt m sv n s with
  | (m1, tb1, ok), (m1', sv1, n1, ok') => m1 = m1' /\ ok = ok' /\ sim tb1 sv1 n1
  end.
Proof.
  intros [Hn Ho]. destruct s as [l v|l v|]; cbn [exec_stmt ref_stmt].
  - rewrite Hn. destruct (max_set <=? n); [repeat split; assumption|].
    repeat split; [cbn; lia|]. intro x. cbn [oldest]. rewrite Ho.
    destruct (lookup sv l) eqn:El.
    + destruct (lookup sv x) eqn:Ex; [reflexivity|].
      destruct (Nat.eqb_spec x l) as [->|]; [congruence|reflexivity].
    + cbn [lookup]. destruct (Nat.eqb_spec x l) as [->|].
      * rewrite El. reflexivity.
      * destruct (lookup sv x); reflexivity.
  - repeat split; assumption.
  - repeat split; assumption.
Qed.

Lemma sim_stmts ss : forall m tb sv n, sim tb sv n ->
  match exec_stmts m tb ss, ref_stmts m sv n ss with
  | (m1, tb1, ok), (m1', sv1, n1, ok') => m1 = m1' /\ ok = ok' /\ sim tb1 sv1 n1
  end.
Proof.
  induction ss as [|s r IH]; intros m tb sv n H; cbn [exec_stmts ref_stmts].
  - repeat split; apply H.
  - pose proof (sim_stmt m tb sv n s H) as Hs.
    destruct (exec_stmt m tb s) as [[m1 tb1] ok], (ref_stmt m sv n s) as [[[m1' sv1] n1] ok'].
    destruct Hs as [-> [-> Hs]]. destruct ok'; [apply IH; exact Hs|]. repeat split; apply Hs.
Qed.

Lemma ref_final_length m sv : length (ref_final m sv) = length m.
Proof. unfold ref_final. rewrite map_length, seq_length. reflexivity. Qed.

Lemma ref_final_rd m sv l : l < length m ->
  rd (ref_final m sv) l = match lookup sv l with Some v => v | None => rd m l end.
Proof.
  intro H. unfold rd at 1, ref_final.
  set (f := fun l0 : nat => match lookup sv l0 with Some v => v | None => rd m l0 end).
  rewrite (nth_indep _ 0%N (f 0)) by (rewrite map_length, seq_length; exact H).
  rewrite (map_nth f), seq_nth by exact H. reflexivity.
Qed.

Lemma restore_ref_final tb sv m : (forall l, oldest tb l = lookup sv l) -> restore tb m = ref_final m sv.
Proof.
  intro H. apply (nth_ext _ _ 0%N 0%N).
  - rewrite restore_length, ref_final_length. reflexivity.
  - intros i Hi. rewrite restore_length in Hi.
    change (rd (restore tb m) i = rd (ref_final m sv) i).
    rewrite restore_rd, ref_final_rd, H by exact Hi. reflexivity.
Qed.

(* a whole test (three phases, any outcome), started with an empty table *)
Lemma test_refines m t :
  match exec_test m [] t with
  | (m3, tb3, failed) => restore tb3 m3 = fst (ref_test m t) /\ failed = snd (ref_test m t)
  end.
Proof.
  unfold exec_test, ref_test.
  pose proof (sim_stmts (t_setup t) m [] [] 0 sim_nil) as H1.
  destruct (exec_stmts m [] (t_setup t)) as [[m1 tb1] ok1], (ref_stmts m [] 0 (t_setup t)) as [[[m1' sv1] n1] ok1'].
  destruct H1 as [-> [-> H1]].
  assert (H2 : match (if ok1' then exec_stmts m1' tb1 (t_body t) else (m1', tb1, true)),
                     (if ok1' then ref_stmts m1' sv1 n1 (t_body t) else (m1', sv1, n1, true)) with
               | (m2, tb2, ok), (m2', sv2, n2, ok') => m2 = m2' /\ ok = ok' /\ sim tb2 sv2 n2 end).
  { destruct ok1'; [apply sim_stmts; exact H1 | repeat split; apply H1]. }
  destruct (if ok1' then exec_stmts m1' tb1 (t_body t) else (m1', tb1, true)) as [[m2 tb2] ok2],
           (if ok1' then ref_stmts m1' sv1 n1 (t_body t) else (m1', sv1, n1, true)) as [[[m2' sv2] n2] ok2'].
  destruct H2 as [-> [-> H2]].
  pose proof (sim_stmts (t_teardown t) m2' tb2 sv2 n2 H2) as H3.
  destruct (exec_stmts m2' tb2 (t_teardown t)) as [[m3 tb3] ok3], (ref_stmts m2' sv2 n2 (t_teardown t)) as [[[m3' sv3] n3] ok3'].
  destruct H3 as [-> [-> H3]]. cbn [fst snd]. split; [|reflexivity].
  apply restore_ref_final. apply H3.
Qed.

(* ================================================================= post actions *)
Lemma pre_all_enabled c : pre_all c = enabled_ids c.
Proof.
  unfold enabled_ids. induction c as [|p r IH]; cbn; [reflexivity|]. rewrite IH. destruct (p_on p); reflexivity.
Qed.

Lemma post_all_log c : forall m tb, snd (post_all c m tb) = rev (pre_all c).
Proof.
  induction c as [|p r IH]; intros m tb; cbn [post_all pre_all]; [reflexivity|].
  specialize (IH m tb). destruct (post_all r m tb) as [[m1 tb1] lg]. cbn [snd] in IH. subst lg.
  rewrite rev_app_distr. destruct (p_on p); cbn [snd rev app]; [reflexivity|]. rewrite app_nil_r. reflexivity.
Qed.

Lemma post_all_state c : forall m tb,
  fst (post_all c m tb) = if sp_active c then (restore tb m, []) else (m, tb).
Proof.
  induction c as [|p r IH]; intros m tb; cbn [post_all sp_active existsb]; [reflexivity|].
  specialize (IH m tb). destruct (post_all r m tb) as [[m1 tb1] lg]. cbn [fst] in IH.
  unfold post_action. destruct (p_on p), (p_kind p); cbn [fst snd andb orb]; try exact IH.
  destruct (sp_active r); inversion IH; subst; reflexivity.
Qed.

(* ================================================================= removal by name *)
Lemma unlink_after_without n r : unlink_after n r = without n r.
Proof. unfold without. induction r as [|q r IH]; cbn; [reflexivity|]. rewrite IH. destruct (named n q); reflexivity. Qed.

Lemma remove_by_name_without n c : remove_by_name n c = without n c.
Proof.
  unfold remove_by_name. induction c as [|p r IH]; cbn [drop_heads]; [reflexivity|].
  unfold without in *. cbn [filter]. destruct (named n p); cbn [negb].
  - exact IH.
  - rewrite unlink_after_without. reflexivity.
Qed.

Lemma without_in n c p : In p (without n c) <-> In p c /\ p_name p <> n.
Proof.
  unfold without. rewrite filter_In. unfold named. split; intros [H1 H2]; split; try exact H1.
  - intro E. rewrite E, N.eqb_refl in H2. discriminate H2.
  - destruct (N.eqb_spec (p_name p) n); [contradiction|reflexivity].
Qed.

Lemma filter_all {A} (f : A -> bool) l : (forall x, In x l -> f x = true) -> filter f l = l.
Proof.
  induction l as [|a l IH]; intro H; cbn; [reflexivity|]. rewrite (H a) by (left; reflexivity).
  f_equal. apply IH. intros x Hx. apply H. right. exact Hx.
Qed.

(* unique names: exactly the named plugin goes, the others stay in order *)
Lemma without_unique n : forall c1 p c2, p_name p = n ->
  (forall q, In q (c1 ++ c2) -> p_name q <> n) -> without n (c1 ++ p :: c2) = c1 ++ c2.
Proof.
  intros c1 p c2 Hp Hq. unfold without. rewrite filter_app. cbn [filter]. unfold named at 2. rewrite Hp, N.eqb_refl. cbn [negb].
  rewrite <- filter_app. apply filter_all. intros q Hin. unfold named.
  destruct (N.eqb_spec (p_name q) n) as [E|]; [exfalso; exact (Hq q Hin E)|reflexivity].
Qed.

Lemma remove_unique n c1 p c2 : p_name p = n ->
  (forall q, In q (c1 ++ c2) -> p_name q <> n) -> remove_by_name n (c1 ++ p :: c2) = c1 ++ c2.
Proof. intros H1 H2. rewrite remove_by_name_without. exact (without_unique n c1 p c2 H1 H2). Qed.

Definition mk (i : nat) (n : N) : plugin := {| p_id := i; p_name := n; p_kind := KPlain; p_on := true |}.
Lemma remove_old_refuted : ~ (forall n c, remove_by_name_old n c = without n c).
Proof. intro H. specialize (H 1%N [mk 2 3%N; mk 1 2%N; mk 0 1%N]). vm_compute in H. discriminate H. Qed.

(* ================================================================= statement sequences in split form *)
Definition is_abort (s : stmt) : bool := match s with SAbort => true | _ => false end.
Definition sets_loc (l : loc) (s : stmt) : bool := match s with SSet l' _ => Nat.eqb l' l | _ => false end.
(* plain assignments: what the statements do to memory when nothing is recorded or restored *)
Fixpoint plain (m : mem) (ss : list stmt) : mem :=
  match ss with
  | [] => m
  | SSet l v :: r | SWrite l v :: r => plain (upd m l v) r
  | SAbort :: r => plain m r
  end.
Definition count_sets (ss : list stmt) : nat := length (filter is_set ss).

Lemma exec_stmts_app a : forall m tb b,
  exec_stmts m tb (a ++ b) =
  match exec_stmts m tb a with (m1, tb1, true) => exec_stmts m1 tb1 b | x => x end.
Proof.
  induction a as [|s a IH]; intros m tb b; cbn [app exec_stmts]; [reflexivity|].
  destruct (exec_stmt m tb s) as [[m1 tb1] [|]]; [apply IH|reflexivity].
Qed.

Lemma exec_stmt_length m tb s : length (fst (fst (exec_stmt m tb s))) = length m.
Proof.
  destruct s; cbn [exec_stmt]; [destruct (max_set <=? length tb)|..]; cbn [fst]; try reflexivity; apply upd_length.
Qed.
Lemma exec_stmts_length ss : forall m tb, length (fst (fst (exec_stmts m tb ss))) = length m.
Proof.
  induction ss as [|s r IH]; intros m tb; cbn [exec_stmts]; [reflexivity|].
  pose proof (exec_stmt_length m tb s) as H. destruct (exec_stmt m tb s) as [[m1 tb1] [|]]; cbn [fst] in *; [rewrite IH|]; exact H.
Qed.

(* a prefix without failing statements and within the capacity just runs *)
Lemma exec_prefix pre : forall m tb l,
  existsb is_abort pre = false -> existsb (sets_loc l) pre = false -> length tb + count_sets pre <= max_set ->
  exists tb1, exec_stmts m tb pre = (plain m pre, tb1, true) /\ length tb1 = length tb + count_sets pre /\ oldest tb1 l = oldest tb l.
Proof.
  unfold count_sets. induction pre as [|s r IH]; intros m tb l Ha Hl Hc; cbn [exec_stmts plain].
  - exists tb. cbn. repeat split. lia.
  - cbn [existsb] in Ha, Hl. apply orb_false_iff in Ha. apply orb_false_iff in Hl. destruct Ha as [Ha1 Ha], Hl as [Hl1 Hl].
    destruct s as [l0 v0|l0 v0|]; cbn [is_abort sets_loc filter is_set length exec_stmt] in *; try discriminate Ha1.
    + destruct (Nat.leb_spec max_set (length tb)); [lia|].
      destruct (IH (upd m l0 v0) ((l0, rd m l0) :: tb) l Ha Hl) as [tb1 [E [Hlen Hold]]]; [cbn [length]; lia|].
      exists tb1. repeat split; [exact E|cbn [length] in Hlen; lia|].
      rewrite Hold. cbn [oldest]. destruct (oldest tb l); [reflexivity|].
      rewrite Nat.eqb_sym, Hl1. reflexivity.
    + destruct (IH (upd m l0 v0) tb l Ha Hl) as [tb1 [E [Hlen Hold]]]; [lia|].
      exists tb1. repeat split; assumption.
Qed.

(* once a location has an entry, its oldest entry never changes *)
Lemma oldest_stmts ss : forall m tb l w, oldest tb l = Some w -> oldest (snd (fst (exec_stmts m tb ss))) l = Some w.
Proof.
  induction ss as [|s r IH]; intros m tb l w H; cbn [exec_stmts]; [exact H|].
  assert (Hs : oldest (snd (fst (exec_stmt m tb s))) l = Some w).
  { destruct s; cbn [exec_stmt]; try exact H. destruct (max_set <=? length tb); cbn [fst snd oldest]; [exact H|]. rewrite H. reflexivity. }
  destruct (exec_stmt m tb s) as [[m1 tb1] [|]]; cbn [fst snd] in *; [apply IH|]; exact Hs.
Qed.
(* a location that is never redirected never gets an entry *)
Lemma oldest_none ss : forall m tb l, existsb (sets_loc l) ss = false -> oldest tb l = None ->
  oldest (snd (fst (exec_stmts m tb ss))) l = None.
Proof.
  induction ss as [|s r IH]; intros m tb l Hl H; cbn [exec_stmts]; [exact H|].
  cbn [existsb] in Hl. apply orb_false_iff in Hl. destruct Hl as [Hl1 Hl].
  assert (Hs : oldest (snd (fst (exec_stmt m tb s))) l = None).
  { destruct s; cbn [exec_stmt sets_loc] in *; try exact H. destruct (max_set <=? length tb); cbn [fst snd oldest]; [exact H|].
    rewrite H, Nat.eqb_sym, Hl1. reflexivity. }
  destruct (exec_stmt m tb s) as [[m1 tb1] [|]]; cbn [fst snd] in *; [apply IH|]; assumption.
Qed.

(* every sequence pre ++ UT_PTR_SET(l, v) :: post with the first redirection of l at that point: after the post action
   l holds what it held just before that redirection -- whatever follows (more redirections of l, writes, a failing
   statement, running into the limit) *)
Lemma restored_first_value pre l v post m :
  existsb is_abort pre = false -> existsb (sets_loc l) pre = false -> count_sets pre < max_set -> l < length m ->
  match exec_stmts m [] (pre ++ SSet l v :: post) with
  | (m', tb', _) => rd (restore tb' m') l = rd (plain m pre) l
  end.
Proof.
  intros Ha Hl Hc Hm. rewrite exec_stmts_app.
  destruct (exec_prefix pre m [] l Ha Hl) as [tb1 [E [Hlen Hold]]]; [cbn [length]; lia|]. rewrite E.
  cbn [exec_stmts exec_stmt]. cbn [length] in Hlen. destruct (Nat.leb_spec max_set (length tb1)); [lia|].
  pose proof (oldest_stmts post (upd (plain m pre) l v) ((l, rd (plain m pre) l) :: tb1) l (rd (plain m pre) l)) as Ho.
  pose proof (exec_stmts_length post (upd (plain m pre) l v) ((l, rd (plain m pre) l) :: tb1)) as Hlen'.
  destruct (exec_stmts (upd (plain m pre) l v) ((l, rd (plain m pre) l) :: tb1) post) as [[m' tb'] ok]. cbn [fst snd] in *.
  assert (Hpl : length (plain m pre) = length m).
  { pose proof (exec_stmts_length pre m []) as Hx. rewrite E in Hx. exact Hx. }
  rewrite restore_rd by (rewrite Hlen', upd_length, Hpl; exact Hm).
  rewrite Ho; [reflexivity|]. cbn [oldest]. rewrite Hold. cbn [oldest]. rewrite Nat.eqb_refl. reflexivity.
Qed.

(* locations the test never redirects are not touched by the post action *)
Lemma untouched ss m l : existsb (sets_loc l) ss = false -> l < length m ->
  match exec_stmts m [] ss with (m', tb', _) => rd (restore tb' m') l = rd m' l end.
Proof.
  intros Hl Hm. pose proof (oldest_none ss m [] l Hl eq_refl) as Ho. pose proof (exec_stmts_length ss m []) as Hlen.
  destruct (exec_stmts m [] ss) as [[m' tb'] ok]. cbn [fst snd] in *.
  rewrite restore_rd by (rewrite Hlen; exact Hm). rewrite Ho. reflexivity.
Qed.

(* ================================================================= the limit *)
Lemma store_at_limit m tb l v r : max_set <= length tb -> exec_stmts m tb (SSet l v :: r) = (m, tb, false).
Proof. intro H. cbn [exec_stmts exec_stmt]. destruct (Nat.leb_spec max_set (length tb)); [reflexivity|lia]. Qed.

Lemma exec_stmt_bounded m tb s : length tb <= max_set -> length (snd (fst (exec_stmt m tb s))) <= max_set.
Proof.
  intro H. destruct s; cbn [exec_stmt]; try exact H.
  destruct (Nat.leb_spec max_set (length tb)); cbn [fst snd length]; lia.
Qed.
Lemma exec_stmts_bounded ss : forall m tb, length tb <= max_set -> length (snd (fst (exec_stmts m tb ss))) <= max_set.
Proof.
  induction ss as [|s r IH]; intros m tb H; cbn [exec_stmts]; [exact H|].
  pose proof (exec_stmt_bounded m tb s H) as Hs. destruct (exec_stmt m tb s) as [[m1 tb1] [|]]; cbn [fst snd] in *; [apply IH|]; exact Hs.
Qed.
Lemma exec_test_bounded m tb t : length tb <= max_set -> length (snd (fst (exec_test m tb t))) <= max_set.
Proof.
  intro H. unfold exec_test.
  pose proof (exec_stmts_bounded (t_setup t) m tb H) as H1. destruct (exec_stmts m tb (t_setup t)) as [[m1 tb1] ok1]. cbn [fst snd] in H1.
  assert (H2 : length (snd (fst (if ok1 then exec_stmts m1 tb1 (t_body t) else (m1, tb1, true)))) <= max_set).
  { destruct ok1; [apply exec_stmts_bounded|]; exact H1. }
  destruct (if ok1 then exec_stmts m1 tb1 (t_body t) else (m1, tb1, true)) as [[m2 tb2] ok2]. cbn [fst snd] in H2.
  pose proof (exec_stmts_bounded (t_teardown t) m2 tb2 H2) as H3. destruct (exec_stmts m2 tb2 (t_teardown t)) as [[m3 tb3] ok3]. exact H3.
Qed.

Lemma step_bounded st o : length (s_tbl st) <= max_set -> length (s_tbl (fst (step st o))) <= max_set.
Proof.
  intro H. destruct o as [n k|id|id|n| |t]; cbn [step fst s_tbl]; try exact H.
  - destruct k; cbn; [exact H|lia].
  - unfold run_test. pose proof (exec_test_bounded (s_mem st) (s_tbl st) t H) as H1.
    destruct (exec_test (s_mem st) (s_tbl st) t) as [[m1 tb1] f]. cbn [fst snd] in H1.
    pose proof (post_all_state (s_chain st) m1 tb1) as Hp. destruct (post_all (s_chain st) m1 tb1) as [[m2 tb2] lg].
    cbn [fst s_tbl] in *. destruct (sp_active (s_chain st)); inversion Hp; subst; [cbn; lia|exact H1].
Qed.
(* in every session whatsoever the table index never passes the capacity *)
Lemma session_bounded ops : forall st, length (s_tbl st) <= max_set -> length (s_tbl (exec_ops st ops)) <= max_set.
Proof. induction ops as [|o r IH]; intros st H; cbn [exec_ops]; [exact H|]. apply IH. apply step_bounded. exact H. Qed.

(* ================================================================= sessions *)
Lemma nat_list_eqb_refl l : nat_list_eqb l l = true.
Proof. induction l; cbn; [reflexivity|]. rewrite Nat.eqb_refl. exact IHl. Qed.
Lemma mem_eqb_refl l : mem_eqb l l = true.
Proof. induction l; cbn; [reflexivity|]. rewrite N.eqb_refl. exact IHl. Qed.

Lemma no_set_keeps_table ss : forall m tb, existsb is_set ss = false -> snd (fst (exec_stmts m tb ss)) = tb.
Proof.
  induction ss as [|s r IH]; intros m tb H; cbn [exec_stmts]; [reflexivity|].
  cbn [existsb] in H. apply orb_false_iff in H. destruct H as [H1 H].
  destruct s; cbn [is_set exec_stmt] in *; try discriminate H1; [apply IH; exact H|reflexivity].
Qed.
Lemma no_set_test_keeps_table t m tb : existsb is_set (all_stmts t) = false -> snd (fst (exec_test m tb t)) = tb.
Proof.
  unfold all_stmts. rewrite !existsb_app. intro H. apply orb_false_iff in H. destruct H as [H1 H]. apply orb_false_iff in H. destruct H as [H2 H3].
  unfold exec_test.
  pose proof (no_set_keeps_table (t_setup t) m tb H1) as E1. destruct (exec_stmts m tb (t_setup t)) as [[m1 tb1] ok1]. cbn [fst snd] in E1. subst tb1.
  assert (E2 : snd (fst (if ok1 then exec_stmts m1 tb (t_body t) else (m1, tb, true))) = tb).
  { destruct ok1; [apply no_set_keeps_table; exact H2|reflexivity]. }
  destruct (if ok1 then exec_stmts m1 tb (t_body t) else (m1, tb, true)) as [[m2 tb2] ok2]. cbn [fst snd] in E2. subst tb2.
  pose proof (no_set_keeps_table (t_teardown t) m2 tb H3) as E3. destruct (exec_stmts m2 tb (t_teardown t)) as [[m3 tb3] ok3]. exact E3.
Qed.

(* one test of a valid session, started with an empty table: the observation is the demanded one and the table is empty again *)
Lemma run_test_ok m c t : test_ok c t = true ->
  match run_test m [] c t with
  | (m2, tb2, it) => tb2 = [] /\ it = ITest (snd (ref_test m t)) (enabled_ids c) (rev (enabled_ids c)) (fst (ref_test m t))
                     /\ m2 = fst (ref_test m t)
  end.
Proof.
  unfold test_ok. intro H. apply andb_true_iff in H. destruct H as [_ H].
  unfold run_test. pose proof (test_refines m t) as Hr. pose proof (no_set_test_keeps_table t m []) as Hk.
  destruct (exec_test m [] t) as [[m1 tb1] failed]. cbn [fst snd] in Hk. destruct Hr as [Hr1 Hr2].
  pose proof (post_all_state c m1 tb1) as Hp. pose proof (post_all_log c m1 tb1) as Hl.
  destruct (post_all c m1 tb1) as [[m2 tb2] lg]. cbn [fst snd] in Hp, Hl. subst lg failed.
  rewrite !pre_all_enabled.
  destruct (sp_active c); cbn [orb] in H.
  - inversion Hp; subst. rewrite Hr1. repeat split.
  - apply negb_true_iff in H. specialize (Hk H). subst tb1. inversion Hp; subst. cbn [restore] in Hr1. rewrite Hr1. repeat split.
Qed.

Lemma run_meets_spec_from ops : forall st, s_tbl st = [] -> valid_from (s_chain st) (s_next st) ops = true ->
  spec_from (s_chain st) (s_next st) (s_mem st) ops (run_from st ops) = true.
Proof.
  induction ops as [|o r IH]; intros st Ht Hv; cbn [run_from spec_from]; [reflexivity|].
  destruct o as [n k|id|id|n| |t]; cbn [valid_from] in Hv; cbn [step fst snd app].
  - apply (IH {| s_mem := s_mem st; s_tbl := match k with KSetPtr => [] | KPlain => s_tbl st end;
                 s_chain := {| p_id := s_next st; p_name := n; p_kind := k; p_on := true |} :: s_chain st; s_next := S (s_next st) |});
      [destruct k; [exact Ht|reflexivity]|exact Hv].
  - apply (IH {| s_mem := s_mem st; s_tbl := s_tbl st; s_chain := set_on id true (s_chain st); s_next := s_next st |}); assumption.
  - apply (IH {| s_mem := s_mem st; s_tbl := s_tbl st; s_chain := set_on id false (s_chain st); s_next := s_next st |}); assumption.
  - rewrite remove_by_name_without, nat_list_eqb_refl. cbn [andb].
    apply (IH {| s_mem := s_mem st; s_tbl := s_tbl st; s_chain := without n (s_chain st); s_next := s_next st |}); assumption.
  - apply (IH {| s_mem := s_mem st; s_tbl := s_tbl st; s_chain := []; s_next := s_next st |}); assumption.
  - apply andb_true_iff in Hv. destruct Hv as [Hv1 Hv]. rewrite Ht.
    pose proof (run_test_ok (s_mem st) (s_chain st) t Hv1) as Hr.
    destruct (run_test (s_mem st) [] (s_chain st) t) as [[m2 tb2] it]. destruct Hr as [-> [-> ->]].
    cbn [fst snd app]. rewrite eqb_reflx, !nat_list_eqb_refl, mem_eqb_refl. cbn [andb].
    apply (IH {| s_mem := fst (ref_test (s_mem st) t); s_tbl := []; s_chain := s_chain st; s_next := s_next st |}); [reflexivity|exact Hv].
Qed.

Lemma run_meets_spec s : valid s = true -> spec s (run s) = true.
Proof. intro H. apply (run_meets_spec_from s init_state); [reflexivity|exact H]. Qed.

(* the table is empty whenever a test of a valid session starts *)
Lemma table_empty_from ops : forall st, s_tbl st = [] -> valid_from (s_chain st) (s_next st) ops = true ->
  s_tbl (exec_ops st ops) = [].
Proof.
  induction ops as [|o r IH]; intros st Ht Hv; cbn [exec_ops]; [exact Ht|].
  destruct o as [n k|id|id|n| |t]; cbn [valid_from] in Hv; cbn [step fst]; apply IH; cbn [s_tbl s_chain s_next]; try assumption.
  - destruct k; [exact Ht|reflexivity].
  - rewrite remove_by_name_without. exact Hv.
  - apply andb_true_iff in Hv. destruct Hv as [Hv1 Hv]. rewrite Ht.
    pose proof (run_test_ok (s_mem st) (s_chain st) t Hv1) as Hr.
    destruct (run_test (s_mem st) [] (s_chain st) t) as [[m2 tb2] it]. destruct Hr as [-> _]. reflexivity.
  - apply andb_true_iff in Hv. destruct Hv as [Hv1 Hv]. rewrite Ht.
    destruct (run_test (s_mem st) [] (s_chain st) t) as [[m2 tb2] it]. exact Hv.
Qed.

Lemma chain_tracks ops : forall st c nx, s_chain st = c -> s_next st = nx ->
  forall r, valid_from c nx (ops ++ r) = true ->
  valid_from c nx ops = true /\ valid_from (s_chain (exec_ops st ops)) (s_next (exec_ops st ops)) r = true.
Proof.
  induction ops as [|o ops IH]; intros st c nx Hc Hn r Hv; cbn [app exec_ops] in *.
  - subst. split; [reflexivity|exact Hv].
  - destruct o as [n k|id|id|n| |t]; cbn [valid_from] in *; cbn [step fst].
    + eapply IH; [| |exact Hv]; cbn; congruence.
    + eapply IH; [| |exact Hv]; cbn; congruence.
    + eapply IH; [| |exact Hv]; cbn; congruence.
    + eapply IH; [| |exact Hv]; cbn; [rewrite remove_by_name_without|]; congruence.
    + eapply IH; [| |exact Hv]; cbn; congruence.
    + apply andb_true_iff in Hv. destruct Hv as [Hv1 Hv].
      destruct (run_test (s_mem st) (s_tbl st) (s_chain st) t) as [[m2 tb2] it]. cbn [fst].
      destruct (IH {| s_mem := m2; s_tbl := tb2; s_chain := s_chain st; s_next := s_next st |} c nx Hc Hn r Hv) as [Ha Hb].
      split; [rewrite Hv1; exact Ha|exact Hb].
Qed.

Lemma table_empty_before_every_test s1 t s2 : valid (s1 ++ OTest t :: s2) = true -> s_tbl (exec_ops init_state s1) = [].
Proof.
  intro H. apply table_empty_from; [reflexivity|].
  apply (chain_tracks s1 init_state [] 0 eq_refl eq_refl (OTest t :: s2)). exact H.
Qed.

(* ================================================================= order of the plugin actions *)
Lemma install_order l : forall st,
  map p_id (s_chain (exec_ops st (map (fun nk => OInstall (fst nk) (snd nk)) l))) =
  rev (seq (s_next st) (length l)) ++ map p_id (s_chain st).
Proof.
  induction l as [|[n k] l IH]; intro st; cbn [map exec_ops length seq rev app]; [reflexivity|].
  rewrite IH. cbn [step fst s_chain s_next map p_id]. rewrite <- app_assoc. reflexivity.
Qed.

Lemma test_order m tb c t :
  match run_test m tb c t with
  | (_, _, ITest _ pre post _) => pre = map p_id (filter p_on c) /\ post = rev pre
  | _ => False
  end.
Proof.
  unfold run_test. destruct (exec_test m tb t) as [[m1 tb1] f].
  pose proof (post_all_log c m1 tb1) as Hl. destruct (post_all c m1 tb1) as [[m2 tb2] lg]. cbn [snd] in Hl.
  split; [apply pre_all_enabled|exact Hl].
Qed.

(* ================================================================= the hypotheses of the theorems are satisfiable *)
Definition ex_test : test :=
  {| t_setup := [SSet 3 7%N; SWrite 3 8%N]; t_body := [SSet 3 9%N; SSet 4 1%N; SAbort; SWrite 5 5%N]; t_teardown := [SWrite 6 2%N; SSet 3 0%N] |}.
Definition ex_session : list op :=
  [OInstall 1%N KPlain; OInstall 2%N KSetPtr; OInstall 3%N KPlain; ODisable 0; OTest ex_test; ORemove 1%N; OTest ex_test].
Example ex_valid : valid ex_session = true.
Proof. vm_compute. reflexivity. Qed.
Example ex_run : run ex_session =
  [ITest true [2; 1] [1; 2] (upd init_mem 6 2%N); IChain [2; 1]; ITest true [2; 1] [1; 2] (upd init_mem 6 2%N)].
Proof. vm_compute. reflexivity. Qed.
Example ex_first_value :
  existsb is_abort [SWrite 3 8%N; SSet 4 1%N] = false /\ existsb (sets_loc 3) [SWrite 3 8%N; SSet 4 1%N] = false /\
  count_sets [SWrite 3 8%N; SSet 4 1%N] < max_set /\ 3 < length init_mem.
Proof. vm_compute. repeat split; repeat constructor. Qed.
(* one redirection more than the table holds: the test fails, nothing lies beyond the table, every pointer is back *)
Definition ex_overflow : list op :=
  [OInstall 1%N KSetPtr; OTest {| t_setup := []; t_body := map (fun i => SSet i 7%N) (seq 0 (S max_set)); t_teardown := [] |}].
Example ex_limit : valid ex_overflow = true /\ run ex_overflow = [ITest true [0] [0] init_mem].
Proof. vm_compute. split; reflexivity. Qed.
Example ex_unique : remove_by_name 2%N [mk 2 3%N; mk 1 2%N; mk 0 1%N] = [mk 2 3%N; mk 0 1%N].
Proof. vm_compute. reflexivity. Qed.
