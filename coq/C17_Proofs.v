(* C17 -- lemmas about the pointer-set table, the plugin chain and sessions *)
From Coq Require Import NArith Arith Bool List Lia.
From CppUVerif Require Import gen.Gen_Common C17_Model.
Import ListNotations.

(* ================================================================= memory *)
Lemma upd_length m : forall l v, length (upd m l v) = length m.
Proof. induction m as [|x m IH]; intros [|l] v; cbn; try reflexivity. rewrite IH. reflexivity. Qed.

Lemma rd_upd_same m : forall l v, l < length m -> rd (upd m l v) l = v.
Proof.
  unfold rd. induction m as [|x m IH]; intros [|l] v H; cbn in *; try lia; try reflexivity.
  apply IH. lia.
Qed.
Lemma rd_upd_other m : forall l v x, x <> l -> rd (upd m l v) x = rd m x.
Proof.
  unfold rd. induction m as [|x0 m IH]; intros [|l] v [|x] H; cbn; try reflexivity; try congruence.
  apply IH. congruence.
Qed.

(* ================================================================= restore = oldest entry per location *)
(* the entry recorded first for l (the deepest one in the most-recent-first list) *)
Fixpoint oldest (tb : table) (l : loc) : option val :=
  match tb with
  | [] => None
  | (l', v) :: r => match oldest r l with Some w => Some w | None => if Nat.eqb l l' then Some v else None end
  end.

Lemma restore_length tb : forall m, length (restore tb m) = length m.
Proof. induction tb as [|[l v] r IH]; intro m; cbn; [reflexivity|]. rewrite IH. apply upd_length. Qed.

Lemma restore_rd tb : forall m l, l < length m ->
  rd (restore tb m) l = match oldest tb l with Some v => v | None => rd m l end.
Proof.
  induction tb as [|[l0 v0] r IH]; intros m l H; cbn [restore oldest]; [reflexivity|].
  rewrite IH by (rewrite upd_length; exact H).
  destruct (oldest r l); [reflexivity|].
  destruct (Nat.eqb_spec l l0) as [->|Hne].
  - apply rd_upd_same. exact H.
  - apply rd_upd_other. exact Hne.
Qed.

(* ================================================================= the code's stack of saves refines "first value remembered" *)
Definition sim (tb : table) (sv : snaps) (n : nat) : Prop := length tb = n /\ forall l, oldest tb l = lookup sv l.

Lemma sim_nil : sim [] [] 0.
Proof. split; [reflexivity|]. intro l. reflexivity. Qed.

Lemma sim_stmt m tb sv n s : sim tb sv n ->
  match exec_stmt m tb s, ref_stmt m sv n s with
  | (m1, tb1, ok), (m1', sv1, n1, ok') => m1 = m1' /\ ok = ok' /\ sim tb1 sv1 n1
  end.
Proof.
  intros [Hn Ho]. destruct s as [l v|l v|]; cbn [exec_stmt ref_stmt].
  - rewrite Hn. destruct (max_set <=? n); [repeat split; assumption|].
    repeat split; [cbn; lia|]. intro x. cbn [oldest]. rewrite Ho.
    destruct (lookup sv l) eqn:El.
    + destruct (lookup sv x) eqn:Ex; [reflexivity|].
      destruct (Nat.eqb_spec x l) as [->|]; [congruence|reflexivity].
    + cbn [lookup]. destruct (Nat.eqb_spec x l) as [->|].
      * rewrite El. reflexivity.
      * destruct (lookup sv x); reflexivity.
  - repeat split; assumption.
  - repeat split; assumption.
Qed.

Lemma sim_stmts ss : forall m tb sv n, sim tb sv n ->
  match exec_stmts m tb ss, ref_stmts m sv n ss with
  | (m1, tb1, ok), (m1', sv1, n1, ok') => m1 = m1' /\ ok = ok' /\ sim tb1 sv1 n1
  end.
Proof.
  induction ss as [|s r IH]; intros m tb sv n H; cbn [exec_stmts ref_stmts].
  - repeat split; apply H.
  - pose proof (sim_stmt m tb sv n s H) as Hs.
    destruct (exec_stmt m tb s) as [[m1 tb1] ok], (ref_stmt m sv n s) as [[[m1' sv1] n1] ok'].
    destruct Hs as [-> [-> Hs]]. destruct ok'; [apply IH; exact Hs|]. repeat split; apply Hs.
Qed.

Lemma ref_final_length m sv : length (ref_final m sv) = length m.
Proof. unfold ref_final. rewrite map_length, seq_length. reflexivity. Qed.

Lemma ref_final_rd m sv l : l < length m ->
  rd (ref_final m sv) l = match lookup sv l with Some v => v | None => rd m l end.
Proof.
  intro H. unfold rd at 1, ref_final.
  set (f := fun l0 : nat => match lookup sv l0 with Some v => v | None => rd m l0 end).
  rewrite (nth_indep _ 0%N (f 0)) by (rewrite map_length, seq_length; exact H).
  rewrite (map_nth f), seq_nth by exact H. reflexivity.
Qed.

Lemma restore_ref_final tb sv m : (forall l, oldest tb l = lookup sv l) -> restore tb m = ref_final m sv.
Proof.
  intro H. apply (nth_ext _ _ 0%N 0%N).
  - rewrite restore_length, ref_final_length. reflexivity.
  - intros i Hi. rewrite restore_length in Hi.
    change (rd (restore tb m) i = rd (ref_final m sv) i).
    rewrite restore_rd, ref_final_rd, H by exact Hi. reflexivity.
Qed.

(* a whole test (three phases, any outcome), started with an empty table *)
Lemma test_refines m t :
  match exec_test m [] t with
  | (m3, tb3, failed) => restore tb3 m3 = fst (ref_test m t) /\ failed = snd (ref_test m t)
  end.
Proof.
  unfold exec_test, ref_test.
  pose proof (sim_stmts (t_setup t) m [] [] 0 sim_nil) as H1.
  destruct (exec_stmts m [] (t_setup t)) as [[m1 tb1] ok1], (ref_stmts m [] 0 (t_setup t)) as [[[m1' sv1] n1] ok1'].
  destruct H1 as [-> [-> H1]].
  assert (H2 : match (if ok1' then exec_stmts m1' tb1 (t_body t) else (m1', tb1, true)),
                     (if ok1' then ref_stmts m1' sv1 n1 (t_body t) else (m1', sv1, n1, true)) with
               | (m2, tb2, ok), (m2', sv2, n2, ok') => m2 = m2' /\ ok = ok' /\ sim tb2 sv2 n2 end).
  { destruct ok1'; [apply sim_stmts; exact H1 | repeat split; apply H1]. }
  destruct (if ok1' then exec_stmts m1' tb1 (t_body t) else (m1', tb1, true)) as [[m2 tb2] ok2],
           (if ok1' then ref_stmts m1' sv1 n1 (t_body t) else (m1', sv1, n1, true)) as [[[m2' sv2] n2] ok2'].
  destruct H2 as [-> [-> H2]].
  pose proof (sim_stmts (t_teardown t) m2' tb2 sv2 n2 H2) as H3.
  destruct (exec_stmts m2' tb2 (t_teardown t)) as [[m3 tb3] ok3], (ref_stmts m2' sv2 n2 (t_teardown t)) as [[[m3' sv3] n3] ok3'].
  destruct H3 as [-> [-> H3]]. cbn [fst snd]. split; [|reflexivity].
  apply restore_ref_final. apply H3.
Qed.

(* ================================================================= post actions *)
Lemma pre_all_enabled c : pre_all c = enabled_ids c.
Proof.
  unfold enabled_ids. induction c as [|p r IH]; cbn; [reflexivity|]. rewrite IH. destruct (p_on p); reflexivity.
Qed.

Lemma post_all_log c : forall m tb, snd (post_all c m tb) = rev (pre_all c).
Proof.
  induction c as [|p r IH]; intros m tb; cbn [post_all pre_all]; [reflexivity|].
  specialize (IH m tb). destruct (post_all r m tb) as [[m1 tb1] lg]. cbn [snd] in IH. subst lg.
  rewrite rev_app_distr. destruct (p_on p); cbn [snd rev app]; [reflexivity|]. rewrite app_nil_r. reflexivity.
Qed.

Lemma post_all_state c : forall m tb,
  fst (post_all c m tb) = if sp_active c then (restore tb m, []) else (m, tb).
Proof.
  induction c as [|p r IH]; intros m tb; cbn [post_all sp_active existsb]; [reflexivity|].
  specialize (IH m tb). destruct (post_all r m tb) as [[m1 tb1] lg]. cbn [fst] in IH.
  unfold post_action. destruct (p_on p), (p_kind p); cbn [fst snd andb orb]; try exact IH.
  destruct (sp_active r); inversion IH; subst; reflexivity.
Qed.

(* ================================================================= removal by name *)
Lemma unlink_after_without n r : unlink_after n r = without n r.
Proof. unfold without. induction r as [|q r IH]; cbn; [reflexivity|]. rewrite IH. destruct (named n q); reflexivity. Qed.

Lemma remove_by_name_without n c : remove_by_name n c = without n c.
Proof.
  unfold remove_by_name. induction c as [|p r IH]; cbn [drop_heads]; [reflexivity|].
  unfold without in *. cbn [filter]. destruct (named n p); cbn [negb].
  - exact IH.
  - rewrite unlink_after_without. reflexivity.
Qed.

Lemma without_in n c p : In p (without n c) <-> In p c /\ p_name p <> n.
Proof.
  unfold without. rewrite filter_In. unfold named. split; intros [H1 H2]; split; try exact H1.
  - intro E. rewrite E, N.eqb_refl in H2. discriminate H2.
  - destruct (N.eqb_spec (p_name p) n); [contradiction|reflexivity].
Qed.

Lemma filter_all {A} (f : A -> bool) l : (forall x, In x l -> f x = true) -> filter f l = l.
Proof.
  induction l as [|a l IH]; intro H; cbn; [reflexivity|]. rewrite (H a) by (left; reflexivity).
  f_equal. apply IH. intros x Hx. apply H. right. exact Hx.
Qed.

(* unique names: exactly the named plugin goes, the others stay in order *)
Lemma without_unique n : forall c1 p c2, p_name p = n ->
  (forall q, In q (c1 ++ c2) -> p_name q <> n) -> without n (c1 ++ p :: c2) = c1 ++ c2.
Proof.
  intros c1 p c2 Hp Hq. unfold without. rewrite filter_app. cbn [filter]. unfold named at 2. rewrite Hp, N.eqb_refl. cbn [negb].
  rewrite <- filter_app. apply filter_all. intros q Hin. unfold named.
  destruct (N.eqb_spec (p_name q) n) as [E|]; [exfalso; exact (Hq q Hin E)|reflexivity].
Qed.

Lemma remove_unique n c1 p c2 : p_name p = n ->
  (forall q, In q (c1 ++ c2) -> p_name q <> n) -> remove_by_name n (c1 ++ p :: c2) = c1 ++ c2.
Proof. intros H1 H2. rewrite remove_by_name_without. exact (without_unique n c1 p c2 H1 H2). Qed.

Definition mk (i : nat) (n : N) : plugin := mkp i n KPlain RRec.
Lemma remove_old_refuted : ~ (forall n c, remove_by_name_old n c = without n c).
Proof. intro H. specialize (H 1%N [mk 2 3%N; mk 1 2%N; mk 0 1%N]). vm_compute in H. discriminate H. Qed.

(* ================================================================= statement sequences in split form *)
Definition is_abort (s : stmt) : bool := match s with SAbort => true | _ => false end.
Definition sets_loc (l : loc) (s : stmt) : bool := match s with SSet l' _ => Nat.eqb l' l | _ => false end.
(* plain assignments: what the statements do to memory when nothing is recorded or restored *)
Fixpoint plain (m : mem) (ss : list stmt) : mem :=
  match ss with
  | [] => m
  | SSet l v :: r | SWrite l v :: r => plain (upd m l v) r
  | SAbort :: r => plain m r
  end.
Definition count_sets (ss : list stmt) : nat := length (filter is_set ss).

Lemma exec_stmts_app a : forall m tb b,
  exec_stmts m tb (a ++ b) =
  match exec_stmts m tb a with (m1, tb1, true) => exec_stmts m1 tb1 b | x => x end.
Proof.
  induction a as [|s a IH]; intros m tb b; cbn [app exec_stmts]; [reflexivity|].
  destruct (exec_stmt m tb s) as [[m1 tb1] [|]]; [apply IH|reflexivity].
Qed.

Lemma exec_stmt_length m tb s : length (fst (fst (exec_stmt m tb s))) = length m.
Proof.
  destruct s; cbn [exec_stmt]; [destruct (max_set <=? length tb)|..]; cbn [fst]; try reflexivity; apply upd_length.
Qed.
Lemma exec_stmts_length ss : forall m tb, length (fst (fst (exec_stmts m tb ss))) = length m.
Proof.
  induction ss as [|s r IH]; intros m tb; cbn [exec_stmts]; [reflexivity|].
  pose proof (exec_stmt_length m tb s) as H. destruct (exec_stmt m tb s) as [[m1 tb1] [|]]; cbn [fst] in *; [rewrite IH|]; exact H.
Qed.

(* a prefix without failing statements and within the capacity just runs *)
Lemma exec_prefix pre : forall m tb l,
  existsb is_abort pre = false -> existsb (sets_loc l) pre = false -> length tb + count_sets pre <= max_set ->
  exists tb1, exec_stmts m tb pre = (plain m pre, tb1, true) /\ length tb1 = length tb + count_sets pre /\ oldest tb1 l = oldest tb l.
Proof.
  unfold count_sets. induction pre as [|s r IH]; intros m tb l Ha Hl Hc; cbn [exec_stmts plain].
  - exists tb. cbn. repeat split. lia.
  - cbn [existsb] in Ha, Hl. apply orb_false_iff in Ha. apply orb_false_iff in Hl. destruct Ha as [Ha1 Ha], Hl as [Hl1 Hl].
    destruct s as [l0 v0|l0 v0|]; cbn [is_abort sets_loc filter is_set length exec_stmt] in *; try discriminate Ha1.
    + destruct (Nat.leb_spec max_set (length tb)); [lia|].
      destruct (IH (upd m l0 v0) ((l0, rd m l0) :: tb) l Ha Hl) as [tb1 [E [Hlen Hold]]]; [cbn [length]; lia|].
      exists tb1. repeat split; [exact E|cbn [length] in Hlen; lia|].
      rewrite Hold. cbn [oldest]. destruct (oldest tb l); [reflexivity|].
      rewrite Nat.eqb_sym, Hl1. reflexivity.
    + destruct (IH (upd m l0 v0) tb l Ha Hl) as [tb1 [E [Hlen Hold]]]; [lia|].
      exists tb1. repeat split; assumption.
Qed.

(* once a location has an entry, its oldest entry never changes *)
Lemma oldest_stmts ss : forall m tb l w, oldest tb l = Some w -> oldest (snd (fst (exec_stmts m tb ss))) l = Some w.
Proof.
  induction ss as [|s r IH]; intros m tb l w H; cbn [exec_stmts]; [exact H|].
  assert (Hs : oldest (snd (fst (exec_stmt m tb s))) l = Some w).
  { destruct s; cbn [exec_stmt]; try exact H. destruct (max_set <=? length tb); cbn [fst snd oldest]; [exact H|]. rewrite H. reflexivity. }
  destruct (exec_stmt m tb s) as [[m1 tb1] [|]]; cbn [fst snd] in *; [apply IH|]; exact Hs.
Qed.
(* a location that is never redirected never gets an entry *)
Lemma oldest_none ss : forall m tb l, existsb (sets_loc l) ss = false -> oldest tb l = None ->
  oldest (snd (fst (exec_stmts m tb ss))) l = None.
Proof.
  induction ss as [|s r IH]; intros m tb l Hl H; cbn [exec_stmts]; [exact H|].
  cbn [existsb] in Hl. apply orb_false_iff in Hl. destruct Hl as [Hl1 Hl].
  assert (Hs : oldest (snd (fst (exec_stmt m tb s))) l = None).
  { destruct s; cbn [exec_stmt sets_loc] in *; try exact H. destruct (max_set <=? length tb); cbn [fst snd oldest]; [exact H|].
    rewrite H, Nat.eqb_sym, Hl1. reflexivity. }
  destruct (exec_stmt m tb s) as [[m1 tb1] [|]]; cbn [fst snd] in *; [apply IH|]; assumption.
Qed.

(* every sequence pre ++ UT_PTR_SET(l, v) :: post with the first redirection of l at that point: after the post action
   l holds what it held just before that redirection -- whatever follows (more redirections of l, writes, a failing
   statement, running into the limit) *)
Lemma restored_first_value pre l v post m :
  existsb is_abort pre = false -> existsb (sets_loc l) pre = false -> count_sets pre < max_set -> l < length m ->
  match exec_stmts m [] (pre ++ SSet l v :: post) with
  | (m', tb', _) => rd (restore tb' m') l = rd (plain m pre) l
  end.
Proof.
  intros Ha Hl Hc Hm. rewrite exec_stmts_app.
  destruct (exec_prefix pre m [] l Ha Hl) as [tb1 [E [Hlen Hold]]]; [cbn [length]; lia|]. rewrite E.
  cbn [exec_stmts exec_stmt]. cbn [length] in Hlen. destruct (Nat.leb_spec max_set (length tb1)); [lia|].
  pose proof (oldest_stmts post (upd (plain m pre) l v) ((l, rd (plain m pre) l) :: tb1) l (rd (plain m pre) l)) as Ho.
  pose proof (exec_stmts_length post (upd (plain m pre) l v) ((l, rd (plain m pre) l) :: tb1)) as Hlen'.
  destruct (exec_stmts (upd (plain m pre) l v) ((l, rd (plain m pre) l) :: tb1) post) as [[m' tb'] ok]. cbn [fst snd] in *.
  assert (Hpl : length (plain m pre) = length m).
  { pose proof (exec_stmts_length pre m []) as Hx. rewrite E in Hx. exact Hx. }
  rewrite restore_rd by (rewrite Hlen', upd_length, Hpl; exact Hm).
  rewrite Ho; [reflexivity|]. cbn [oldest]. rewrite Hold. cbn [oldest]. rewrite Nat.eqb_refl. reflexivity.
Qed.

(* locations the test never redirects are not touched by the post action *)
Lemma untouched ss m l : existsb (sets_loc l) ss = false -> l < length m ->
  match exec_stmts m [] ss with (m', tb', _) => rd (restore tb' m') l = rd m' l end.
Proof.
  intros Hl Hm. pose proof (oldest_none ss m [] l Hl eq_refl) as Ho. pose proof (exec_stmts_length ss m []) as Hlen.
  destruct (exec_stmts m [] ss) as [[m' tb'] ok]. cbn [fst snd] in *.
  rewrite restore_rd by (rewrite Hlen; exact Hm). rewrite Ho. reflexivity.
Qed.

(* ================================================================= the limit *)
Lemma store_at_limit m tb l v r : max_set <= length tb -> exec_stmts m tb (SSet l v :: r) = (m, tb, false).
Proof. intro H. cbn [exec_stmts exec_stmt]. destruct (Nat.leb_spec max_set (length tb)); [reflexivity|lia]. Qed.

Lemma exec_stmt_bounded m tb s : length tb <= max_set -> length (snd (fst (exec_stmt m tb s))) <= max_set.
Proof.
  intro H. destruct s; cbn [exec_stmt]; try exact H.
  destruct (Nat.leb_spec max_set (length tb)); cbn [fst snd length]; lia.
Qed.
Lemma exec_stmts_bounded ss : forall m tb, length tb <= max_set -> length (snd (fst (exec_stmts m tb ss))) <= max_set.
Proof.
  induction ss as [|s r IH]; intros m tb H; cbn [exec_stmts]; [exact H|].
  pose proof (exec_stmt_bounded m tb s H) as Hs. destruct (exec_stmt m tb s) as [[m1 tb1] [|]]; cbn [fst snd] in *; [apply IH|]; exact Hs.
Qed.
Lemma exec_test_bounded m tb t : length tb <= max_set -> length (snd (fst (exec_test m tb t))) <= max_set.
Proof.
  intro H. unfold exec_test.
  pose proof (exec_stmts_bounded (t_setup t) m tb H) as H1. destruct (exec_stmts m tb (t_setup t)) as [[m1 tb1] ok1]. cbn [fst snd] in H1.
  assert (H2 : length (snd (fst (if ok1 then exec_stmts m1 tb1 (t_body t) else (m1, tb1, true)))) <= max_set).
  { destruct ok1; [apply exec_stmts_bounded|]; exact H1. }
  destruct (if ok1 then exec_stmts m1 tb1 (t_body t) else (m1, tb1, true)) as [[m2 tb2] ok2]. cbn [fst snd] in H2.
  pose proof (exec_stmts_bounded (t_teardown t) m2 tb2 H2) as H3. destruct (exec_stmts m2 tb2 (t_teardown t)) as [[m3 tb3] ok3]. exact H3.
Qed.

(* ================================================================= sessions *)
Lemma nat_list_eqb_refl l : nat_list_eqb l l = true.
Proof. induction l; cbn; [reflexivity|]. rewrite Nat.eqb_refl. exact IHl. Qed.
Lemma mem_eqb_refl l : mem_eqb l l = true.
Proof. induction l; cbn; [reflexivity|]. rewrite N.eqb_refl. exact IHl. Qed.

Lemma no_set_keeps_table ss : forall m tb, existsb is_set ss = false -> snd (fst (exec_stmts m tb ss)) = tb.
Proof.
  induction ss as [|s r IH]; intros m tb H; cbn [exec_stmts]; [reflexivity|].
  cbn [existsb] in H. apply orb_false_iff in H. destruct H as [H1 H].
  destruct s; cbn [is_set exec_stmt] in *; try discriminate H1; [apply IH; exact H|reflexivity].
Qed.
Lemma no_set_test_keeps_table t m tb : existsb is_set (all_stmts t) = false -> snd (fst (exec_test m tb t)) = tb.
Proof.
  unfold all_stmts. rewrite !existsb_app. intro H. apply orb_false_iff in H. destruct H as [H1 H]. apply orb_false_iff in H. destruct H as [H2 H3].
  unfold exec_test.
  pose proof (no_set_keeps_table (t_setup t) m tb H1) as E1. destruct (exec_stmts m tb (t_setup t)) as [[m1 tb1] ok1]. cbn [fst snd] in E1. subst tb1.
  assert (E2 : snd (fst (if ok1 then exec_stmts m1 tb (t_body t) else (m1, tb, true))) = tb).
  { destruct ok1; [apply no_set_keeps_table; exact H2|reflexivity]. }
  destruct (if ok1 then exec_stmts m1 tb (t_body t) else (m1, tb, true)) as [[m2 tb2] ok2]. cbn [fst snd] in E2. subst tb2.
  pose proof (no_set_keeps_table (t_teardown t) m2 tb H3) as E3. destruct (exec_stmts m2 tb (t_teardown t)) as [[m3 tb3] ok3]. exact E3.
Qed.

(* ================================================================= the hypotheses of the theorems are satisfiable *)
Example ex_first_value :
  existsb is_abort [SWrite 3 8%N; SSet 4 1%N] = false /\ existsb (sets_loc 3) [SWrite 3 8%N; SSet 4 1%N] = false /\
  count_sets [SWrite 3 8%N; SSet 4 1%N] < max_set /\ 3 < length init_mem.
Proof. vm_compute. repeat split; repeat constructor. Qed.
Example ex_unique : remove_by_name 2%N [mk 2 3%N; mk 1 2%N; mk 0 1%N] = [mk 2 3%N; mk 0 1%N].
Proof. vm_compute. reflexivity. Qed.
