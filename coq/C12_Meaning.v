(* C12 -- refinement of the parser model to the documented grammar: one step lemma per documented option and spelling,
   composed by induction over the option list. *)
From Coq Require Import String Ascii.
From Coq Require Import NArith ZArith Bool List Lia ZifyBool Arith.
From CppUVerif Require Import gen.Gen_C12 lib.Str C12_Model C12_Proofs.
Import ListNotations.
Local Open Scope N_scope.

Lemma parse_step_one tm c a rest c' :
  handle tm c a (hd_error rest) = HOk c' false -> parse_args tm c (a :: rest) = parse_args tm c' rest.
Proof. intro H. cbn [parse_args]. rewrite H. reflexivity. Qed.
Lemma parse_step_two tm c a b rest c' :
  handle tm c a (Some b) = HOk c' true -> parse_args tm c (a :: b :: rest) = parse_args tm c' rest.
Proof. intro H. cbn [parse_args hd_error]. rewrite H. reflexivity. Qed.

(* an argument that neither AtoI nor AtoU reads a number from: what follows a bare -r / -s in a documented vector *)
Definition nonnum (a : bytes) : bool := (size_of_int (atoi a) =? 0) && (atou a =? 0).
Definition head_ok (args : list bytes) : bool := match args with [] => true | a :: _ => nonnum a end.

Ltac dispatch :=
  unfold handle;
  cbn [first_match c12_dispatch rule_matches fst snd bytes_eqb is_prefix N.eqb Pos.eqb andb app];
  cbv [action key match_eqb bytes_eqb N.eqb Pos.eqb andb length].

(* ---------------------------------------------------------------- flags *)
Lemma handle_help tm c nx : handle tm c (B "-h") nx = HReject true.
Proof. reflexivity. Qed.

(* ---------------------------------------------------------------- plain value options: -g -sg -xg -xsg -n -sn -xn -xsn -k *)
Lemma handle_group_attached tm c k v nx : nonempty v = true ->
  handle tm c (pre_g k ++ v) nx = HOk (add_gf c (mkf v (fk_strict k) (fk_invert k))) false.
Proof. destruct v as [|x v]; [discriminate|]. intros _. destruct k; reflexivity. Qed.
Lemma handle_group_separated tm c k v :
  handle tm c (pre_g k) (Some v) = HOk (add_gf c (mkf v (fk_strict k) (fk_invert k))) true.
Proof. destruct k; reflexivity. Qed.
Lemma handle_name_attached tm c k v nx : nonempty v = true ->
  handle tm c (pre_n k ++ v) nx = HOk (add_nf c (mkf v (fk_strict k) (fk_invert k))) false.
Proof. destruct v as [|x v]; [discriminate|]. intros _. destruct k; reflexivity. Qed.
Lemma handle_name_separated tm c k v :
  handle tm c (pre_n k) (Some v) = HOk (add_nf c (mkf v (fk_strict k) (fk_invert k))) true.
Proof. destruct k; reflexivity. Qed.
Lemma handle_package_attached tm c v nx : nonempty v = true -> handle tm c (B "-k" ++ v) nx = HOk (set_pkg c v) false.
Proof. destruct v as [|x v]; [discriminate|]. intros _. reflexivity. Qed.
Lemma handle_package_separated tm c v : nonempty v = true -> handle tm c (B "-k") (Some v) = HOk (set_pkg c v) true.
Proof. destruct v as [|x v]; [discriminate|]. intros _. reflexivity. Qed.

(* ---------------------------------------------------------------- -o *)
Lemma handle_output_attached tm c o nx :
  handle tm c (B "-o" ++ out_text o) nx = HOk (sem_opt tm c (DOutput o)) false.
Proof. destruct o; reflexivity. Qed.
Lemma handle_output_separated tm c o :
  handle tm c (B "-o") (Some (out_text o)) = HOk (sem_opt tm c (DOutput o)) true.
Proof. destruct o; reflexivity. Qed.

(* ---------------------------------------------------------------- -t -st -xt -xst *)
Lemma gdn_core strict invert c v used g n : without 46 g = true -> without 46 n = true -> nonempty n = true -> v = g ++ 46 :: n ->
  match split_incl 46 v with
  | [t0; t1] => HOk (add_nf (add_gf c (mkf (firstn (length t0 - 1) t0) strict invert)) (mkf t1 strict invert)) used
  | _ => HReject false
  end = HOk (add_nf (add_gf c (mkf g strict invert)) (mkf n strict invert)) used.
Proof. intros Wg Wn NE ->. rewrite (split_group_dot_name g n Wg Wn NE). rewrite firstn_drop_last. reflexivity. Qed.
Lemma handle_gdn_attached tm c k g n nx : without 46 g = true -> without 46 n = true -> nonempty n = true ->
  handle tm c (pre_t k ++ g ++ 46 :: n) nx = HOk (sem_opt tm c (DGroupDotName k g n)) false.
Proof.
  intros Wg Wn NE. cbn [sem_opt].
  destruct k; cbn [pre_t fk_strict fk_invert]; (destruct g as [|x g];
   [ dispatch; unfold add_group_dot_name, param_field; cbn [length Nat.ltb Nat.leb skipn app];
     apply (gdn_core _ _ c _ false [] n Wg Wn NE); reflexivity
   | dispatch; unfold add_group_dot_name, param_field; cbn [length Nat.ltb Nat.leb skipn app];
     apply (gdn_core _ _ c _ false (x :: g) n Wg Wn NE); reflexivity ]).
Qed.
Lemma handle_gdn_separated tm c k g n : without 46 g = true -> without 46 n = true -> nonempty n = true ->
  handle tm c (pre_t k) (Some (g ++ 46 :: n)) = HOk (sem_opt tm c (DGroupDotName k g n)) true.
Proof.
  intros Wg Wn NE. cbn [sem_opt].
  destruct k; cbn [pre_t fk_strict fk_invert]; dispatch; unfold add_group_dot_name, param_field; cbn [length Nat.ltb Nat.leb skipn];
  apply (gdn_core _ _ c _ true g n Wg Wn NE); reflexivity.
Qed.

(* ---------------------------------------------------------------- "TEST(g, n)" / "IGNORE_TEST(g, n)" *)
Lemma handle_test tm c ign g n nx : without 44 g = true -> without 41 n = true ->
  handle tm c ((if ign then B "IGNORE_TEST(" else B "TEST(") ++ g ++ 44 :: 32 :: n ++ [41]) nx
  = HOk (add_nf (add_gf c (mkf g true false)) (mkf n true false)) false.
Proof.
  intros Wg Wn. pose proof (verbose_group g (32 :: n ++ [41]) Wg) as G. pose proof (verbose_name g n Wg Wn) as Nm.
  destruct ign; (destruct g as [|x g];
    dispatch; unfold add_verbose_test, param_field; cbn [length Nat.ltb Nat.leb skipn app] in *; rewrite G, Nm; reflexivity).
Qed.
