(* C12 -- refinement of the parser model to the documented grammar: one step lemma per documented option and spelling,
   composed by induction over the option list. *)
From Coq Require Import String Ascii.
From Coq Require Import NArith ZArith Bool List Lia ZifyBool Arith.
From CppUVerif Require Import gen.Gen_C12 lib.Str C12_Model C12_Proofs.
Import ListNotations.
Local Open Scope N_scope.

Lemma parse_step_one tm c a rest c' :
  handle tm c a (hd_error rest) = HOk c' false -> parse_args tm c (a :: rest) = parse_args tm c' rest.
Proof. intro H. cbn [parse_args]. rewrite H. reflexivity. Qed.
Lemma parse_step_two tm c a b rest c' :
  handle tm c a (Some b) = HOk c' true -> parse_args tm c (a :: b :: rest) = parse_args tm c' rest.
Proof. intro H. cbn [parse_args hd_error]. rewrite H. reflexivity. Qed.

(* an argument that neither AtoI nor AtoU reads a number from: what follows a bare -r / -s in a documented vector *)
Definition nonnum (a : bytes) : bool := (size_of_int (atoi a) =? 0) && (atou a =? 0).
Definition head_ok (args : list bytes) : bool := match args with [] => true | a :: _ => nonnum a end.

Ltac dispatch :=
  unfold handle;
  cbn [first_match c12_dispatch rule_matches fst snd bytes_eqb is_prefix N.eqb Pos.eqb andb app];
  cbv [action key match_eqb bytes_eqb N.eqb Pos.eqb andb length].

(* ---------------------------------------------------------------- flags *)
Lemma handle_help tm c nx : handle tm c (B "-h") nx = HReject true.
Proof. reflexivity. Qed.

(* ---------------------------------------------------------------- plain value options: -g -sg -xg -xsg -n -sn -xn -xsn -k *)
Lemma handle_group_attached tm c k v nx : nonempty v = true ->
  handle tm c (pre_g k ++ v) nx = HOk (add_gf c (mkf v (fk_strict k) (fk_invert k))) false.
Proof. destruct v as [|x v]; [discriminate|]. intros _. destruct k; reflexivity. Qed.
Lemma handle_group_separated tm c k v :
  handle tm c (pre_g k) (Some v) = HOk (add_gf c (mkf v (fk_strict k) (fk_invert k))) true.
Proof. destruct k; reflexivity. Qed.
Lemma handle_name_attached tm c k v nx : nonempty v = true ->
  handle tm c (pre_n k ++ v) nx = HOk (add_nf c (mkf v (fk_strict k) (fk_invert k))) false.
Proof. destruct v as [|x v]; [discriminate|]. intros _. destruct k; reflexivity. Qed.
Lemma handle_name_separated tm c k v :
  handle tm c (pre_n k) (Some v) = HOk (add_nf c (mkf v (fk_strict k) (fk_invert k))) true.
Proof. destruct k; reflexivity. Qed.
Lemma handle_package_attached tm c v nx : nonempty v = true -> handle tm c (B "-k" ++ v) nx = HOk (set_pkg c v) false.
Proof. destruct v as [|x v]; [discriminate|]. intros _. reflexivity. Qed.
Lemma handle_package_separated tm c v : nonempty v = true -> handle tm c (B "-k") (Some v) = HOk (set_pkg c v) true.
Proof. destruct v as [|x v]; [discriminate|]. intros _. reflexivity. Qed.

(* ---------------------------------------------------------------- -o *)
Lemma handle_output_attached tm c o nx :
  handle tm c (B "-o" ++ out_text o) nx = HOk (sem_opt tm c (DOutput o)) false.
Proof. destruct o; reflexivity. Qed.
Lemma handle_output_separated tm c o :
  handle tm c (B "-o") (Some (out_text o)) = HOk (sem_opt tm c (DOutput o)) true.
Proof. destruct o; reflexivity. Qed.

(* ---------------------------------------------------------------- -t -st -xt -xst *)
Lemma gdn_core strict invert c v used g n : without 46 g = true -> without 46 n = true -> nonempty n = true -> v = g ++ 46 :: n ->
  match split_incl 46 v with
  | [t0; t1] => HOk (add_nf (add_gf c (mkf (firstn (length t0 - 1) t0) strict invert)) (mkf t1 strict invert)) used
  | _ => HReject false
  end = HOk (add_nf (add_gf c (mkf g strict invert)) (mkf n strict invert)) used.
Proof. intros Wg Wn NE ->. rewrite (split_group_dot_name g n Wg Wn NE). rewrite firstn_drop_last. reflexivity. Qed.
Lemma handle_gdn_attached tm c k g n nx : without 46 g = true -> without 46 n = true -> nonempty n = true ->
  handle tm c (pre_t k ++ g ++ 46 :: n) nx = HOk (sem_opt tm c (DGroupDotName k g n)) false.
Proof.
  intros Wg Wn NE. cbn [sem_opt].
  destruct k; cbn [pre_t fk_strict fk_invert]; destruct g as [|x g]; dispatch.
  all: unfold add_group_dot_name, param_field; cbn [length Nat.ltb Nat.leb skipn app].
  all: eapply gdn_core; [exact Wg | exact Wn | exact NE | reflexivity].
Qed.
Lemma handle_gdn_separated tm c k g n : without 46 g = true -> without 46 n = true -> nonempty n = true ->
  handle tm c (pre_t k) (Some (g ++ 46 :: n)) = HOk (sem_opt tm c (DGroupDotName k g n)) true.
Proof.
  intros Wg Wn NE. cbn [sem_opt].
  destruct k; cbn [pre_t fk_strict fk_invert]; dispatch.
  all: unfold add_group_dot_name, param_field; cbn [length Nat.ltb Nat.leb skipn].
  all: eapply gdn_core; [exact Wg | exact Wn | exact NE | reflexivity].
Qed.

(* ---------------------------------------------------------------- "TEST(g, n)" / "IGNORE_TEST(g, n)" *)
Definition lit_test : bytes := B "TEST(".
Definition lit_ignore_test : bytes := B "IGNORE_TEST(".
Lemma handle_test tm c (ign : bool) g n nx : without 44 g = true -> without 41 n = true ->
  handle tm c ((if ign then lit_ignore_test else lit_test) ++ g ++ 44 :: 32 :: n ++ [41]) nx
  = HOk (add_nf (add_gf c (mkf g true false)) (mkf n true false)) false.
Proof.
  intros Wg Wn. pose proof (verbose_group g (32 :: n ++ [41]) Wg) as G. pose proof (verbose_name g n Wg Wn) as Nm.
  destruct ign; unfold lit_test, lit_ignore_test; (destruct g as [|x g];
    dispatch; unfold add_verbose_test, param_field; cbn [length Nat.ltb Nat.leb skipn app] in *; rewrite G, Nm; reflexivity).
Qed.

(* ---------------------------------------------------------------- -r *)
Lemma repeat_fin c r used : r <> 0 -> HOk (set_repeat c (if r =? 0 then 2 else r)) used = HOk (set_repeat c r) used.
Proof. intro H. apply N.eqb_neq in H. rewrite H. reflexivity. Qed.
Lemma handle_repeat_attached tm c ds nx : number ds = true ->
  handle tm c (B "-r" ++ ds) nx = HOk (set_repeat c (dec_value ds)) false.
Proof.
  intro Nb. destruct (number_facts ds Nb) as [A [_ [NZ [d [r [E D]]]]]]. subst ds.
  pose proof (digit_cases d D) as Cs. cbn [In] in Cs.
  assert (H : handle tm c (B "-r" ++ d :: r) nx = set_repeat_count c (B "-r" ++ d :: r) nx).
  { repeat (destruct Cs as [Cs|Cs]; [subst d; reflexivity|]). destruct Cs. }
  rewrite H. unfold set_repeat_count. cbn [app length Nat.ltb Nat.leb skipn]. rewrite A. apply N.eqb_neq in NZ. rewrite NZ. reflexivity.
Qed.
Lemma handle_repeat_separated tm c ds : number ds = true ->
  handle tm c (B "-r") (Some ds) = HOk (set_repeat c (dec_value ds)) true.
Proof.
  intro Nb. destruct (number_facts ds Nb) as [A [_ [NZ _]]].
  change (handle tm c (B "-r") (Some ds)) with (set_repeat_count c (B "-r") (Some ds)).
  unfold set_repeat_count. cbn [length Nat.ltb Nat.leb]. rewrite A. apply N.eqb_neq in NZ. rewrite NZ. reflexivity.
Qed.
Lemma handle_repeat_bare tm c rest : head_ok rest = true ->
  handle tm c (B "-r") (hd_error rest) = HOk (set_repeat c 2) false.
Proof.
  intro H. change (handle tm c (B "-r") (hd_error rest)) with (set_repeat_count c (B "-r") (hd_error rest)).
  unfold set_repeat_count. cbn [length Nat.ltb Nat.leb]. destruct rest as [|b rest]; cbn [hd_error]; [reflexivity|].
  cbn [head_ok] in H. unfold nonnum in H. apply andb_true_iff in H. destruct H as [H _]. apply N.eqb_eq in H. rewrite H. reflexivity.
Qed.

(* ---------------------------------------------------------------- -s *)
Lemma time_seed_nonzero tm : ((if tm mod 4294967296 =? 0 then 1 else tm mod 4294967296) =? 0) = false.
Proof. destruct (tm mod 4294967296 =? 0) eqn:E; [reflexivity | exact E]. Qed.
Lemma handle_shuffle_attached tm c ds nx : number ds = true ->
  handle tm c (B "-s" ++ ds) nx = HOk (set_seed (set_shuf c true) (dec_value ds)) false.
Proof.
  intro Nb. destruct (number_facts ds Nb) as [_ [A [NZ [d [r [E D]]]]]]. subst ds.
  pose proof (digit_cases d D) as Cs. cbn [In] in Cs.
  assert (H : handle tm c (B "-s" ++ d :: r) nx = set_shuffle tm c (B "-s" ++ d :: r) nx).
  { repeat (destruct Cs as [Cs|Cs]; [subst d; reflexivity|]). destruct Cs. }
  rewrite H. unfold set_shuffle. cbn [app length Nat.ltb Nat.leb skipn]. rewrite A. apply N.eqb_neq in NZ. rewrite NZ. reflexivity.
Qed.
Lemma handle_shuffle_separated tm c ds : number ds = true ->
  handle tm c (B "-s") (Some ds) = HOk (set_seed (set_shuf c true) (dec_value ds)) true.
Proof.
  intro Nb. destruct (number_facts ds Nb) as [_ [A [NZ _]]].
  change (handle tm c (B "-s") (Some ds)) with (set_shuffle tm c (B "-s") (Some ds)).
  unfold set_shuffle. cbn [length Nat.ltb Nat.leb]. rewrite A. apply N.eqb_neq in NZ. rewrite NZ. reflexivity.
Qed.
Lemma handle_shuffle_bare tm c rest : head_ok rest = true ->
  handle tm c (B "-s") (hd_error rest) = HOk (sem_opt tm c (DShuffle None)) false.
Proof.
  intro H. change (handle tm c (B "-s") (hd_error rest)) with (set_shuffle tm c (B "-s") (hd_error rest)).
  unfold set_shuffle. cbn [length Nat.ltb Nat.leb sem_opt]. destruct rest as [|b rest]; cbn [hd_error].
  - rewrite time_seed_nonzero. reflexivity.
  - cbn [head_ok] in H. unfold nonnum in H. apply andb_true_iff in H. destruct H as [_ H]. rewrite H. rewrite time_seed_nonzero. reflexivity.
Qed.

(* ---------------------------------------------------------------- what a documented vector starts with *)
Lemma head_render_opt o sp : In sp (render_opt o) -> exists a t, sp = a :: t /\ nonnum a = true.
Proof.
  destruct o; cbn [render_opt both In];
  try (intros [<-|[]]; eexists; eexists; split; [reflexivity | reflexivity]).
  - destruct n as [ds|]; cbn [both In]; intros [<-|[<-|[]]] || intros [<-|[]]; eexists; eexists; (split; [reflexivity | reflexivity]).
  - destruct seed as [ds|]; cbn [both In]; intros [<-|[<-|[]]] || intros [<-|[]]; eexists; eexists; (split; [reflexivity | reflexivity]).
  - destruct k; intros [<-|[<-|[]]]; eexists; eexists; (split; [reflexivity | reflexivity]).
  - destruct k; intros [<-|[<-|[]]]; eexists; eexists; (split; [reflexivity | reflexivity]).
  - destruct k; intros [<-|[<-|[]]]; eexists; eexists; (split; [reflexivity | reflexivity]).
  - destruct ignored; intros [<-|[]]; eexists; eexists; (split; [reflexivity | reflexivity]).
  - destruct o; intros [<-|[<-|[]]]; eexists; eexists; (split; [reflexivity | reflexivity]).
  - intros [<-|[<-|[]]]; eexists; eexists; (split; [reflexivity | reflexivity]).
Qed.
Lemma in_render_cons o r argv : In argv (render (o :: r)) -> exists sp rest, In sp (render_opt o) /\ In rest (render r) /\ argv = sp ++ rest.
Proof.
  cbn [render]. intro H. apply in_flat_map in H. destruct H as [sp [H1 H2]]. apply in_map_iff in H2. destruct H2 as [rest [E H2]].
  exists sp, rest. auto.
Qed.
Lemma head_render opts argv : In argv (render opts) -> head_ok argv = true.
Proof.
  destruct opts as [|o r].
  - cbn. intros [<-|[]]. reflexivity.
  - intro H. apply in_render_cons in H. destruct H as [sp [rest [H1 [_ ->]]]].
    destruct (head_render_opt o sp H1) as [a [t [-> Nn]]]. exact Nn.
Qed.

(* ---------------------------------------------------------------- one documented option, any spelling: exactly its documented effect *)
Lemma step_opt tm c o sp rest :
  opt_ok o = true -> is_help o = false -> In sp (render_opt o) -> head_ok rest = true ->
  parse_args tm c (sp ++ rest) = parse_args tm (sem_opt tm c o) rest.
Proof.
  intros OK NH I HR.
  destruct o; try discriminate NH; cbn [render_opt both In] in I; cbn [opt_ok] in OK.
  1-12: destruct I as [<-|[]]; reflexivity.
  - (* -r *) destruct n as [ds|]; cbn [both In] in I.
    + destruct I as [<-|[<-|[]]]; cbn [app sem_opt].
      * apply parse_step_one. apply handle_repeat_attached. exact OK.
      * apply parse_step_two. apply handle_repeat_separated. exact OK.
    + destruct I as [<-|[]]. cbn [app sem_opt]. apply parse_step_one. apply handle_repeat_bare. exact HR.
  - (* -s *) destruct seed as [ds|]; cbn [both In] in I.
    + destruct I as [<-|[<-|[]]]; cbn [app sem_opt].
      * apply parse_step_one. apply handle_shuffle_attached. exact OK.
      * apply parse_step_two. apply handle_shuffle_separated. exact OK.
    + destruct I as [<-|[]]. cbn [app]. apply parse_step_one. apply handle_shuffle_bare. exact HR.
  - (* group *) destruct I as [<-|[<-|[]]]; cbn [app sem_opt].
    + apply parse_step_one. apply handle_group_attached. exact OK.
    + apply parse_step_two. apply handle_group_separated.
  - (* name *) destruct I as [<-|[<-|[]]]; cbn [app sem_opt].
    + apply parse_step_one. apply handle_name_attached. exact OK.
    + apply parse_step_two. apply handle_name_separated.
  - (* group.name *) apply andb_true_iff in OK. destruct OK as [OK NE]. apply andb_true_iff in OK. destruct OK as [Wg Wn].
    destruct I as [<-|[<-|[]]]; cbn [app].
    + apply parse_step_one. apply handle_gdn_attached; assumption.
    + apply parse_step_two. apply handle_gdn_separated; assumption.
  - (* TEST *) apply andb_true_iff in OK. destruct OK as [Wg Wn]. destruct I as [<-|[]]. cbn [app sem_opt].
    apply parse_step_one. apply (handle_test tm c ignored g n _ Wg Wn).
  - (* -o *) destruct I as [<-|[<-|[]]]; cbn [app].
    + apply parse_step_one. apply handle_output_attached.
    + apply parse_step_two. apply handle_output_separated.
  - (* -k *) destruct I as [<-|[<-|[]]]; cbn [app sem_opt].
    + apply parse_step_one. apply handle_package_attached. exact OK.
    + apply parse_step_two. apply handle_package_separated. exact OK.
Qed.

(* ---------------------------------------------------------------- the refinement *)
Lemma parse_render tm : forall opts c argv, forallb opt_ok opts = true -> In argv (render opts) ->
  parse_args tm c argv = sem_from tm c opts.
Proof.
  induction opts as [|o r IH]; intros c argv OK I.
  - cbn in I. destruct I as [<-|[]]. reflexivity.
  - cbn [forallb] in OK. apply andb_true_iff in OK. destruct OK as [Oo Or].
    apply in_render_cons in I. destruct I as [sp [rest [I1 [I2 ->]]]]. cbn [sem_from].
    destruct (is_help o) eqn:Hh.
    + destruct o; try discriminate Hh. cbn in I1. destruct I1 as [<-|[]]. reflexivity.
    + rewrite (step_opt tm c o sp rest Oo Hh I1 (head_render r rest I2)). apply IH; assumption.
Qed.
Lemma meaning tm prog opts argv : forallb opt_ok opts = true -> In argv (render opts) -> parse tm (prog :: argv) = sem tm opts.
Proof. intros OK I. unfold parse, sem. cbn [tl]. apply parse_render; assumption. Qed.

(* "-s [<seed>] ... must be greater than 0": seed 0 is refused in both spellings (usage is printed) *)
Lemma seed_zero_rejected tm c rest :
  parse_args tm c (B "-s0" :: rest) = Reject false /\ parse_args tm c (B "-s" :: B "0" :: rest) = Reject false.
Proof.
  split; [reflexivity|]. cbn [parse_args hd_error].
  change (handle tm c (B "-s") (Some (B "0"))) with (set_shuffle tm c (B "-s") (Some (B "0"))).
  unfold set_shuffle. cbn [length Nat.ltb Nat.leb]. change (atou (B "0") =? 0) with true. cbv iota. rewrite time_seed_nonzero.
  reflexivity.
Qed.
