(* C20 -- the pieces handed to printBuffer, the console path below printBuffer (and line buffers in its place), the very verbose
   progress texts, and the reading of a stream in which a message may follow text on the same line. *)
From Coq Require Import NArith Bool List Lia Arith.
From CppUVerif Require Import lib.Str C16_Events C20_Model C20_Escape C20_Parse.
Import ListNotations.
Local Open Scope N_scope.

(* ================= the pieces of a message, concatenated, are the message ================= *)
Lemma concat_map_esc s : concat (map tc_esc s) = tc_escape s.
Proof. unfold tc_escape. symmetry. apply flat_map_concat_map. Qed.
Lemma seg_pieces_concat x : concat (seg_pieces x) = seg_print x.
Proof. destruct x as [s|s]; cbn [seg_pieces seg_print concat]; [apply app_nil_r | apply concat_map_esc]. Qed.
Lemma segs_pieces_concat l : concat (flat_map seg_pieces l) = segs_print l.
Proof.
  unfold segs_print. induction l as [|x l IH]; [reflexivity|].
  cbn [flat_map]. rewrite concat_app, seg_pieces_concat, IH. reflexivity.
Qed.
Lemma attrs_pieces_concat r : forall a,
  concat (attrs_pieces a r) = segs_print (snd a) ++ [39] ++ flat_map attr_print r ++ [93; 10].
Proof.
  induction r as [|b r IH]; intro a; cbn [attrs_pieces]; rewrite concat_app, segs_pieces_concat.
  - reflexivity.
  - cbn [concat flat_map]. rewrite IH.
    change (attr_print b) with ([32] ++ fst b ++ [61; 39] ++ segs_print (snd b) ++ [39]).
    repeat (rewrite <- app_assoc || rewrite <- app_comm_cons). reflexivity.
Qed.
Lemma msg_pieces_concat m : concat (msg_pieces m) = msg_print m.
Proof.
  unfold msg_pieces, msg_print. destruct (pm_attrs m) as [|a r].
  - cbn [concat flat_map app]. rewrite app_nil_r. reflexivity.
  - cbn [concat flat_map]. rewrite attrs_pieces_concat.
    change (attr_print a) with ([32] ++ fst a ++ [61; 39] ++ segs_print (snd a) ++ [39]).
    repeat (rewrite <- app_assoc || rewrite <- app_comm_cons). reflexivity.
Qed.
Lemma item_pieces_concat i : concat (item_pieces i) = item_print i.
Proof. destruct i as [m|s]; cbn [item_pieces item_print]; [apply msg_pieces_concat | cbn; apply app_nil_r]. Qed.
Lemma pieces_concat items : concat (flat_map item_pieces items) = flat_map item_print items.
Proof.
  induction items as [|i items IH]; [reflexivity|].
  cbn [flat_map]. rewrite concat_app, item_pieces_concat, IH. reflexivity.
Qed.

(* ================= below printBuffer ================= *)
Lemma written_app a b : written (a ++ b) = written a ++ written b.
Proof. unfold written. apply flat_map_app. Qed.
(* ConsoleTestOutput::printBuffer: one write and one flush per piece; what reaches standard output is the pieces one after the other *)
Lemma console_written pieces : written (console pieces) = concat pieces.
Proof.
  induction pieces as [|p r IH]; [reflexivity|].
  unfold console. cbn [flat_map]. rewrite written_app. fold (console r). rewrite IH.
  cbn [console_printBuffer written flat_map wop_bytes concat]. rewrite !app_nil_r. reflexivity.
Qed.
Lemma sink_stream_concat sink pieces : sink_stream sink pieces = concat pieces.
Proof. unfold sink_stream. destruct (sink =? 0); [reflexivity | apply console_written]. Qed.

(* a line buffer that keeps the character that found the buffer full: whatever the capacity, whatever the pieces, the bytes
   written are the pieces one after the other -- only the places of the writes and flushes move *)
Lemma written_write_line buf : written (write_line buf) = buf.
Proof. destruct buf; [reflexivity|]. cbn [write_line written flat_map wop_bytes]. apply app_nil_r. Qed.
Lemma linebuf_chars_keeps cap s : forall buf ops buf',
  linebuf_chars false cap buf s = (ops, buf') -> written ops ++ buf' = buf ++ s.
Proof.
  induction s as [|c r IH]; intros buf ops buf' H.
  - cbn [linebuf_chars] in H. injection H as <- <-. cbn. rewrite app_nil_r. reflexivity.
  - cbn [linebuf_chars] in H.
    destruct (if Nat.ltb (length buf) cap then ([], buf ++ [c]) else (write_line buf, [c])) as [o1 b1] eqn:E1.
    assert (H1 : written o1 ++ b1 = buf ++ [c]).
    { destruct (Nat.ltb (length buf) cap); injection E1 as <- <-; [reflexivity | rewrite written_write_line; reflexivity]. }
    destruct (if c =? 10 then (write_line b1 ++ [WFlush], []) else ([], b1)) as [o2 b2] eqn:E2.
    assert (H2 : written o2 ++ b2 = b1).
    { destruct (c =? 10); injection E2 as <- <-; [|reflexivity].
      rewrite written_app, written_write_line. cbn. rewrite !app_nil_r. reflexivity. }
    destruct (linebuf_chars false cap b2 r) as [o3 b3] eqn:E3.
    injection H as <- <-. specialize (IH b2 o3 b3 E3).
    rewrite !written_app, <- !app_assoc, IH.
    rewrite (app_assoc (written o2)), H2, app_assoc, H1, <- app_assoc. reflexivity.
Qed.
Lemma linebuf_pieces_keeps cap pieces : forall buf, written (linebuf_pieces false cap buf pieces) = buf ++ concat pieces.
Proof.
  induction pieces as [|p r IH]; intro buf; cbn [linebuf_pieces concat].
  - rewrite written_write_line, app_nil_r. reflexivity.
  - destruct (linebuf_chars false cap buf p) as [o b] eqn:E.
    rewrite written_app, IH, app_assoc, (linebuf_chars_keeps cap p buf o b E), <- app_assoc. reflexivity.
Qed.
Lemma linebuf_keeps cap pieces : written (linebuf false cap pieces) = concat pieces.
Proof. unfold linebuf. apply linebuf_pieces_keeps. Qed.

(* ================= the very verbose texts add callbacks of the kind EPrint and nothing else ================= *)
Fixpoint strip_prints (es : list ev) : list ev :=
  match es with
  | [] => []
  | EPrint _ :: r => strip_prints r
  | e :: r => e :: strip_prints r
  end.
Lemma strip_prints_app a b : strip_prints (a ++ b) = strip_prints a ++ strip_prints b.
Proof. induction a as [|e a IH]; [reflexivity|]. destruct e; cbn [app strip_prints]; rewrite IH; reflexivity. Qed.
Lemma strip_prints_texts l : strip_prints (map EPrint l) = [].
Proof. induction l as [|x l IH]; [reflexivity|]. exact IH. Qed.
Lemma strip_vv_decorate es : forall b, strip_prints (vv_decorate b es) = strip_prints es.
Proof.
  induction es as [|e r IH]; intro b; [reflexivity|].
  destruct e; cbn [vv_decorate strip_prints]; rewrite ?strip_prints_app, ?IH; try reflexivity.
  - destruct (t_ignored t); [reflexivity|]. rewrite strip_prints_texts. reflexivity.
  - destruct b; [rewrite strip_prints_texts|]; cbn [app strip_prints]; rewrite IH; reflexivity.
Qed.

Lemma msgs_of_items_app a b : msgs_of_items (a ++ b) = msgs_of_items a ++ msgs_of_items b.
Proof. induction a as [|[m|s] a IH]; cbn [app msgs_of_items]; rewrite ?IH; reflexivity. Qed.

(* what may stand in a stream that is read message-anywhere: well-formed messages and texts without # *)
Definition item_ok_any (i : item) : bool := match i with IMsg m => pmsg_ok m | IText s => no_hash s end.
Lemma item_ok_weaken l : forallb item_ok l = true -> forallb item_ok_any l = true.
Proof.
  induction l as [|i l IH]; [reflexivity|]. cbn [forallb]. intro H. apply andb_true_iff in H. destruct H as [Hi Hl].
  rewrite (IH Hl), andb_true_r. destruct i; [exact Hi | discriminate Hi].
Qed.
Lemma texts_ok_any l : forallb no_hash l = true -> forallb item_ok_any (map IText l) = true.
Proof. induction l as [|x l IH]; [reflexivity|]. cbn [forallb map item_ok_any]. intro H. apply andb_true_iff in H. destruct H as [Hx Hl]. rewrite Hx, (IH Hl). reflexivity. Qed.
Lemma vv_pre_no_hash : forallb no_hash vv_pre = true. Proof. reflexivity. Qed.
Lemma vv_post_no_hash b : forallb no_hash (vv_post b) = true. Proof. destruct b; reflexivity. Qed.

Section Items.
Variable pathseg : bytes -> seg.
Variable use_flag : bool.
Variable dur : N.
Notation stepW := (tc_step pathseg use_flag dur).
Notation itemsW := (tc_items pathseg use_flag dur).

Lemma items_cons_w st e r : itemsW st (e :: r) = snd (stepW st e) ++ itemsW (fst (stepW st e)) r.
Proof. cbn [tc_items]. destruct (stepW st e). reflexivity. Qed.
Lemma items_app_texts l : forall st r, itemsW st (map EPrint l ++ r) = map IText l ++ itemsW st r.
Proof.
  induction l as [|x l IH]; intros st r; [reflexivity|].
  cbn [map app]. rewrite items_cons_w. cbn [tc_step fst snd app]. rewrite IH. reflexivity.
Qed.

(* the messages written are those of the callbacks without the texts *)
Lemma msgs_strip es : forall st, msgs_of_items (itemsW st es) = msgs_of_items (itemsW st (strip_prints es)).
Proof.
  induction es as [|e r IH]; intro st; [reflexivity|].
  destruct e; cbn [strip_prints]; rewrite !items_cons_w;
    rewrite !msgs_of_items_app, IH; reflexivity.
Qed.

Lemma msgs_decorate es st b : msgs_of_items (itemsW st (vv_decorate b es)) = msgs_of_items (itemsW st es).
Proof. rewrite msgs_strip, strip_vv_decorate, <- msgs_strip. reflexivity. Qed.

Lemma items_ok_decorate es : forall st b,
  forallb item_ok (itemsW st es) = true -> forallb item_ok_any (itemsW st (vv_decorate b es)) = true.
Proof.
  induction es as [|e r IH]; intros st b H; [reflexivity|].
  rewrite items_cons_w, forallb_app in H. apply andb_true_iff in H. destruct H as [Ho Hr].
  destruct e; cbn [vv_decorate];
    try (rewrite items_cons_w, forallb_app, (item_ok_weaken _ Ho); cbn [andb]; apply IH; exact Hr).
  - rewrite items_cons_w, forallb_app, (item_ok_weaken _ Ho). cbn [andb].
    destruct (t_ignored t); [apply IH; exact Hr|].
    rewrite items_app_texts, forallb_app, (texts_ok_any _ vv_pre_no_hash). cbn [andb]. apply IH. exact Hr.
  - destruct b.
    + rewrite items_app_texts, forallb_app, (texts_ok_any _ (vv_post_no_hash _)). cbn [andb].
      rewrite items_cons_w, forallb_app, (item_ok_weaken _ Ho). cbn [andb]. apply IH. exact Hr.
    + cbn [app]. rewrite items_cons_w, forallb_app, (item_ok_weaken _ Ho). cbn [andb]. apply IH. exact Hr.
Qed.
End Items.

(* ================= reading a stream message-anywhere ================= *)
Lemma after_marker_no_hash l : no_hash l = true -> after_marker l = None.
Proof.
  induction l as [|c l IH]; intro H; [reflexivity|].
  cbn [no_hash forallb] in H. apply andb_true_iff in H. destruct H as [Hc Hl]. apply negb_true_iff in Hc.
  cbn [after_marker]. unfold L_marker at 1. cbn [is_prefix]. rewrite N.eqb_sym, Hc. cbn [andb]. apply IH. exact Hl.
Qed.
Lemma after_marker_here b : after_marker (L_marker ++ b) = Some b.
Proof.
  reflexivity.
Qed.
Lemma after_marker_skip p b : no_hash p = true -> after_marker (p ++ L_marker ++ b) = Some b.
Proof.
  induction p as [|c p IH]; intro H; [apply after_marker_here|].
  cbn [no_hash forallb] in H. apply andb_true_iff in H. destruct H as [Hc Hp]. apply negb_true_iff in Hc.
  cbn [app after_marker]. unfold L_marker at 1. cbn [is_prefix]. rewrite N.eqb_sym, Hc. cbn [andb]. apply IH. exact Hp.
Qed.
Lemma classify_any_plain l : no_hash l = true -> classify_line_any l = LPlain.
Proof. intro H. unfold classify_line_any. rewrite (after_marker_no_hash l H). reflexivity. Qed.
Lemma classify_any_msg p m : no_hash p = true -> pmsg_ok m = true -> classify_line_any (p ++ L_marker ++ msg_body m) = LMsg (erase m).
Proof. intros Hp Hm. unfold classify_line_any. rewrite (after_marker_skip p _ Hp), (parse_msg_print m Hm). reflexivity. Qed.
Lemma parse_any_plain_lines ls : Forall (fun l => no_hash l = true) ls -> parse_lines_any ls = Some [].
Proof. induction 1 as [|l ls Hl _ IH]; [reflexivity|]. cbn [parse_lines_any]. rewrite (classify_any_plain l Hl). exact IH. Qed.
Lemma no_hash_app a b : no_hash (a ++ b) = no_hash a && no_hash b.
Proof. unfold no_hash. apply forallb_app. Qed.

(* p = the text of the current line so far *)
Lemma parse_any_text s : forall p rest, no_hash p = true -> ~ In 10 p -> no_hash s = true ->
  exists p', no_hash p' = true /\ ~ In 10 p' /\
    parse_lines_any (lines (p ++ s ++ rest)) = parse_lines_any (lines (p' ++ rest)).
Proof.
  induction s as [|c s IH]; intros p rest Hp Hn Hs.
  - exists p. repeat split; assumption.
  - cbn [no_hash forallb] in Hs. apply andb_true_iff in Hs. destruct Hs as [Hc Hs].
    destruct (N.eqb_spec c 10) as [->|Hc10].
    + destruct (IH [] rest eq_refl (fun x => x) Hs) as [p' [Hp' [Hn' E]]].
      exists p'. split; [exact Hp'|]. split; [exact Hn'|].
      cbn [app]. rewrite (lines_app p _ Hn). cbn [parse_lines_any]. rewrite (classify_any_plain p Hp). exact E.
    + assert (Hp1 : no_hash (p ++ [c]) = true) by (rewrite no_hash_app, Hp; cbn; rewrite Hc; reflexivity).
      assert (Hn1 : ~ In 10 (p ++ [c])).
      { intro Hin. apply in_app_or in Hin. destruct Hin as [Hin|[Hin|[]]]; [exact (Hn Hin) | exact (Hc10 Hin)]. }
      destruct (IH (p ++ [c]) rest Hp1 Hn1 Hs) as [p' [Hp' [Hn' E]]].
      exists p'. split; [exact Hp'|]. split; [exact Hn'|].
      rewrite <- E, <- app_assoc. reflexivity.
Qed.

Lemma body_no_lf m : pmsg_ok m = true -> ~ In 10 (L_marker ++ msg_body m).
Proof.
  intros H Hin. apply in_app_or in Hin. destruct Hin as [Hin|Hin].
  - cbn in Hin. repeat (destruct Hin as [Hin|Hin]; [discriminate Hin|]). exact Hin.
  - exact (run_sm_no_lf _ _ _ (body_run m H) Hin).
Qed.

Lemma parse_any_go items : forall p trailer, no_hash p = true -> ~ In 10 p -> forallb item_ok_any items = true -> no_hash trailer = true ->
  parse_lines_any (lines (p ++ flat_map item_print items ++ trailer)) = Some (msgs_of_items items).
Proof.
  induction items as [|i items IH]; intros p trailer Hp Hn Hok Ht.
  - cbn [flat_map app msgs_of_items]. apply parse_any_plain_lines, lines_no_hash. rewrite no_hash_app, Hp, Ht. reflexivity.
  - cbn [forallb] in Hok. apply andb_true_iff in Hok. destruct Hok as [Hi Hok].
    destruct i as [m|s]; cbn [item_ok_any] in Hi; cbn [flat_map item_print msgs_of_items].
    + rewrite msg_print_split, <- !app_assoc. cbn [app].
      rewrite (app_assoc p L_marker), (app_assoc (p ++ L_marker)).
      rewrite lines_app.
      * cbn [parse_lines_any]. rewrite <- app_assoc, (classify_any_msg p m Hp Hi).
        pose proof (IH [] trailer eq_refl (fun x => x) Hok Ht) as IH0. cbn [app] in IH0. rewrite IH0. reflexivity.
      * rewrite <- app_assoc. intro Hin. apply in_app_or in Hin. destruct Hin as [Hin|Hin]; [exact (Hn Hin) | exact (body_no_lf m Hi Hin)].
    + rewrite <- app_assoc.
      destruct (parse_any_text s p (flat_map item_print items ++ trailer) Hp Hn Hi) as [p' [Hp' [Hn' E]]].
      rewrite E. apply IH; assumption.
Qed.
Lemma parse_items_any items trailer : forallb item_ok_any items = true -> no_hash trailer = true ->
  tc_parse_any (flat_map item_print items ++ trailer) = Some (msgs_of_items items).
Proof. intros Hok Ht. unfold tc_parse_any. exact (parse_any_go items [] trailer eq_refl (fun x => x) Hok Ht). Qed.

(* on a stream the strict reading accepts, the message-anywhere reading returns the same messages *)
Lemma after_marker_contains l : contains l L_marker = false -> after_marker l = None.
Proof.
  induction l as [|c l IH]; cbn [contains after_marker]; intro H; apply orb_false_iff in H; destruct H as [Hp Hr]; rewrite Hp; [reflexivity|].
  apply IH. exact Hr.
Qed.
Lemma classify_any_extends l : classify_line l <> LBad -> classify_line_any l = classify_line l.
Proof.
  unfold classify_line, classify_line_any. destruct (is_prefix L_marker l) eqn:Ep.
  - intros _. destruct l as [|c l]; [discriminate Ep|]. cbn [after_marker]. rewrite Ep. reflexivity.
  - destruct (contains l L_marker) eqn:Ec; [intro H; exfalso; apply H; reflexivity|].
    intros _. rewrite (after_marker_contains l Ec). reflexivity.
Qed.
Lemma parse_lines_any_extends ls : forall ms, parse_lines ls = Some ms -> parse_lines_any ls = Some ms.
Proof.
  induction ls as [|l ls IH]; intros ms H; [exact H|].
  cbn [parse_lines parse_lines_any] in *.
  assert (Hb : classify_line l <> LBad) by (intro E; rewrite E in H; discriminate H).
  rewrite (classify_any_extends l Hb). destruct (classify_line l) as [| |m]; [apply IH; exact H | discriminate H |].
  destruct (parse_lines ls) as [ms'|]; [|discriminate H]. rewrite (IH ms' eq_refl). exact H.
Qed.
Lemma parse_any_extends_strict s ms : tc_parse s = Some ms -> tc_parse_any s = Some ms.
Proof. apply parse_lines_any_extends. Qed.
