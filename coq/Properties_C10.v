(* C10 -- Thread-safe allocation mode: schedule-independent accounting, no race, no hang.
   Only statements; every proof is `exact <lemma>`.
   reached s sched = the state after the micro-steps named by the (arbitrary) list of thread ids `sched`, from the start of
   scenario s, with the wiring table regenerated from the source (gen/Gen_C10.v) and the repaired reporter;
   complete = run the lowest runnable thread until nothing can move;
   a scenario may go on in further EPOCHS (sc_more): all threads finish, the test thread flips switches of the overloads
   (turnOff / turnOnDefault / turnOnThreadSafe / saveAndDisable / restore), all threads run their next scripts.  The theorems
   that speak of `reached s sched` are about the first epoch (it follows turnOnThreadSafeNewDeleteOverloads directly);
   C10_every_epoch_thread_safe says the same of every state of every further epoch;
   resched s sched scheds = the scenario s with other schedules (the first epoch's, then one per further epoch);
   run s = the observation (C10_Model.observe) of all epochs, each following its schedule and then completed, including the
   largest number of threads that were inside the locked region at one moment on the way and, per epoch, the calls of entry
   points made and the calls that took the lock. *)
From Coq Require Import NArith Arith Bool List.
From CppUVerif Require Import C10_Wiring gen.Gen_C10 C10_Model C10_Steps C10_Lock C10_Data C10_Sched C10_Proofs C10_Main C10_Compose C10_Theorems C10_Refused C10_Epochs.
Import ListNotations.

(* over the table regenerated from MemoryLeakWarningPlugin.cpp: each of the eleven function pointers set by
   turnOnThreadSafeNewDeleteOverloads is a function whose first statement takes the scoped lock for its whole body and
   which performs the detector action belonging to that entry point, with the matching allocator *)
Theorem C10_all_entry_points_locked : wiring_ok ts_table = true.
Proof. exact ts_wiring_ok. Qed.
Print Assumptions C10_all_entry_points_locked.

(* the default overloads perform the same eleven actions without a lock, "off" goes straight to the platform, and every
   global operator new/delete overload and C entry point calls the function pointer its signature stands for *)
Theorem C10_entry_points_dispatch :
  forallb (entry_unlocked_same default_table) all_entries = true
  /\ forallb (entry_plain off_table) all_entries = true
  /\ forallb (fun p => entry_eqb (fst p) (snd p)) dispatch_table = true
  /\ forallb (fun e => existsb (fun p => entry_eqb (fst p) e) dispatch_table) all_entries = true.
Proof. exact (conj default_wiring_same_actions (conj off_wiring_plain dispatch_ok)). Qed.
Print Assumptions C10_entry_points_dispatch.

(* the model's run of every valid scenario satisfies the property's oracle *)
Theorem C10_run_meets_spec : forall s, valid s = true -> spec s (run s) = true.
Proof. exact run_meets_spec. Qed.
Print Assumptions C10_run_meets_spec.
Example C10_run_meets_spec_sat : valid ex_scenario = true /\ o_verdicts (run ex_scenario) = [true; false] /\ length (o_entries (run ex_scenario)) = 3.
Proof. exact (conj ex_valid (conj (proj1 (proj2 ex_run)) (proj2 (proj2 (proj2 ex_run))))). Qed.

(* in every state of every execution at most one thread is between acquire and release, and what a thread has read of
   the shared state is still the shared state when it writes (critical sections are atomic with respect to each other) *)
Theorem C10_mutex : forall s sched,
  (forall t1 t2 th1 th2,
     nth_error (st_threads (reached s sched)) t1 = Some th1 -> nth_error (st_threads (reached s sched)) t2 = Some th2 ->
     in_cs (th_phase th1) = true -> in_cs (th_phase th2) = true -> t1 = t2)
  /\ (forall t th snap, nth_error (st_threads (reached s sched)) t = Some th -> th_phase th = PRead snap ->
                        snap = st_sh (reached s sched)).
Proof. exact (fun s sched => conj (mutex s sched) (read_is_current s sched)). Qed.
Print Assumptions C10_mutex.
Example C10_mutex_sat : exists sched t th, nth_error (st_threads (reached ex_scenario sched)) t = Some th /\ in_cs (th_phase th) = true.
Proof. exact ex_in_cs. Qed.

(* however long a thread stays inside the locked region while the others ask for the lock (a schedule that lets the holder
   rest and gives every other thread any number of turns): in every state of every execution at most one thread is between
   Lock() and Unlock(), and so is the largest occupancy over the whole execution (the schedule followed by the run to the end) *)
Theorem C10_locked_region_occupancy : forall s sched,
  occupancy (reached s sched) <= 1 /\ run_peak (the_cfg s) sched (init_state s) <= 1.
Proof. exact region_occupancy. Qed.
Print Assumptions C10_locked_region_occupancy.
Example C10_locked_region_occupancy_sat : occupancy (reached ex_scenario [0; 0; 1; 1; 1; 1; 1; 1]) = 1.
Proof. exact ex_occupancy. Qed.

(* the shared state after any execution is the result of applying its critical sections (and the output's allocations)
   one after another, in the order in which they wrote -- and that order is the order in which the lock was acquired:
   the acquisitions are exactly the threads of the trace's critical sections, followed by the one thread (if any) that
   holds the lock and has not written yet *)
Theorem C10_serialisable : forall s sched,
  st_sh (reached s sched) = fold_left (apply_event (the_cfg s)) (trace (the_cfg s) sched (init_state s)) sh0
  /\ acq_trace (the_cfg s) sched (init_state s) = ev_tids (trace (the_cfg s) sched (init_state s)) ++ pending (reached s sched).
Proof. exact serialisable_in_acquisition_order. Qed.
Print Assumptions C10_serialisable.

(* for ALL schedules of all epochs: completed, the observation satisfies the oracle (outstanding set = union of the per-thread
   sequential results, a misuse fails exactly its test, allocation numbers handed out once each, nothing foreign
   outstanding, never two threads in the locked region, every call locked while the switches say "thread-safe") *)
Theorem C10_schedule_independent : forall s sched scheds, valid s = true ->
  spec s (run (resched s sched scheds)) = true.
Proof. exact schedule_independent. Qed.
Print Assumptions C10_schedule_independent.

(* so any two choices of schedules for one scenario agree on verdicts, number of allocations and outstanding set *)
Theorem C10_two_schedules_agree : forall s sched1 scheds1 sched2 scheds2, valid s = true ->
  let o1 := run (resched s sched1 scheds1) in
  let o2 := run (resched s sched2 scheds2) in
  o_verdicts o1 = o_verdicts o2 /\ o_adv o1 = o_adv o2 /\ incl (o_entries o1) (o_entries o2) /\ incl (o_entries o2) (o_entries o1).
Proof. exact two_schedules. Qed.
Print Assumptions C10_two_schedules_agree.

(* in every reachable state the outstanding records carry distinct sequence numbers in 1..counter-1 and the counter is
   1 + (allocations made by the scripts) + (allocations made by the output) *)
Theorem C10_sequence_numbers : forall s sched, valid s = true ->
  let st := reached s sched in
  NoDup (map t_seq (sh_table (st_sh st)))
  /\ (forall x, In x (sh_table (st_sh st)) -> (1 <= t_seq x < sh_seq (st_sh st))%N)
  /\ (sh_seq (st_sh st) = 1 + st_outallocs st + sum_allocs (st_threads st))%N.
Proof. exact sequence_numbers. Qed.
Print Assumptions C10_sequence_numbers.

(* no reachable deadlock: while a thread has operations left some thread can move, and every execution prefix can be
   completed (lowest runnable thread first) so that every script ends *)
Theorem C10_no_deadlock : forall s sched,
  (all_done (reached s sched) = false ->
   exists t, enabled (the_cfg s) (reached s sched) t = true /\ step (the_cfg s) t (reached s sched) <> reached s sched)
  /\ all_done (complete (the_cfg s) (reached s sched)) = true.
Proof. exact (fun s sched => conj (no_deadlock s sched) (completes s sched)). Qed.
Print Assumptions C10_no_deadlock.
Example C10_no_deadlock_sat : all_done (reached ex_scenario [0; 1; 0]) = false.
Proof. exact ex_not_done. Qed.

(* the lock is held only by a thread inside a wrapper: a thread that is between operations, is printing a failure, has
   left its test after a misuse report or has finished never holds it -- in every state of every execution *)
Theorem C10_lock_released_after_misuse : forall s sched,
  (forall t th, nth_error (st_threads (reached s sched)) t = Some th -> in_cs (th_phase th) = false ->
                st_lock (reached s sched) <> LHeld t)
  /\ ((forall t th, nth_error (st_threads (reached s sched)) t = Some th -> in_cs (th_phase th) = false) ->
      st_lock (reached s sched) = LFree).
Proof. exact (fun s sched => conj (lock_released s sched) (lock_free_when_all_outside s sched)). Qed.
Print Assumptions C10_lock_released_after_misuse.

(* the reporter before the repair (D17, fixed in /repo): the claim "every valid scenario runs to its end" is false of it --
   overrun a new[] block, delete[] it, the next allocation blocks for ever *)
Theorem C10_lock_released_after_misuse_old_refuted : ~ (forall s, valid s = true -> o_done (run_old s) = true).
Proof. exact lock_released_old_refuted. Qed.
Print Assumptions C10_lock_released_after_misuse_old_refuted.

(* what the lock is for: the same wiring with the lock taken out of a single wrapper no longer satisfies the oracle
   (two threads calling malloc: one record and one sequence number are lost) *)
Theorem C10_lock_needed : ~ (forall e s, valid s = true -> spec s (run_with (unlock_one e ts_table) true s) = true).
Proof. exact lock_needed. Qed.
Print Assumptions C10_lock_needed.

(* a realloc that is turned down -- the size refused by the overflow guard, or the underlying realloc returning NULL -- changes
   neither the outstanding set nor the lock: (1) its write step, in any state of any execution, leaves the same records in
   the table (a record taken out is put back with its number), the counter, the lock (still with the caller) and what the
   thread holds; (2) the whole operation, started with the lock free and run without interruption, ends with the same
   records, the same counter, the lock free again, the thread still holding its block and at its next operation, and no
   other thread touched *)
Theorem C10_refused_realloc_changes_nothing :
  (forall s sched t th k rf rest snap, valid s = true ->
     nth_error (st_threads (reached s sched)) t = Some th -> th_pc th = ORefused k rf :: rest -> th_phase th = PRead snap ->
     let st := reached s sched in
     let st' := reached s (sched ++ [t]) in
     (forall x, In x (sh_table (st_sh st')) <-> In x (sh_table (st_sh st)))
     /\ sh_seq (st_sh st') = sh_seq (st_sh st)
     /\ st_lock st' = st_lock st
     /\ st_outallocs st' = st_outallocs st
     /\ st_threads st' = set_nth (st_threads st) t (mk_thread (ORefused k rf :: rest) PExit (th_loc th) false))
  /\ (forall s sched t th k rf rest, valid s = true ->
     nth_error (st_threads (reached s sched)) t = Some th -> th_pc th = ORefused k rf :: rest ->
     th_phase th = PIdle -> th_skip th = false -> st_lock (reached s sched) = LFree ->
     let st := reached s sched in
     let st' := reached s (sched ++ [t; t; t; t]) in
     (forall x, In x (sh_table (st_sh st')) <-> In x (sh_table (st_sh st)))
     /\ sh_seq (st_sh st') = sh_seq (st_sh st)
     /\ st_lock st' = LFree
     /\ st_outallocs st' = st_outallocs st
     /\ st_threads st' = set_nth (st_threads st) t (mk_thread rest PIdle (th_loc th) false)).
Proof. exact (conj refused_commit refused_operation). Qed.
Print Assumptions C10_refused_realloc_changes_nothing.
Example C10_refused_realloc_changes_nothing_sat :
  valid refused_scenario = true
  /\ (exists sched t th k rf rest snap,
       nth_error (st_threads (reached refused_scenario sched)) t = Some th /\ th_pc th = ORefused k rf :: rest /\ th_phase th = PRead snap)
  /\ (exists sched t th k rf rest,
       nth_error (st_threads (reached refused_scenario sched)) t = Some th /\ th_pc th = ORefused k rf :: rest
       /\ th_phase th = PIdle /\ th_skip th = false /\ st_lock (reached refused_scenario sched) = LFree)
  /\ o_entries (run refused_scenario) = [(1, 0, 8%N)].
Proof. exact (conj refused_valid (conj refused_ex_commit (conj refused_ex_operation (proj2 (proj2 (proj2 refused_ex_run)))))). Qed.

(* ---------------------------------------------------------------- round 4: the history of the overload switches *)
(* the switch machine of the source (eleven pointers, eleven saved_ pointers, save_counter; sw_run h = its state after the
   history h, started where turnOnThreadSafeNewDeleteOverloads has been called) against what the five switches mean
   (doc_mode: inside a saveAndDisable .. restore bracket nothing, outside the overloads named by the last direct switch):
   after every history in which every restore closes a saveAndDisable and the direct switches are used outside the
   brackets, the wiring in force is the one the meaning names; whenever the meaning says "thread-safe" it is the table in
   which all eleven entry points take the lock -- however many save/restore cycles, nested or not, lie in between *)
Theorem C10_switches_keep_thread_safe : forall h, hist_ok h 0 = true ->
  sw_cur (sw_run h) = table_of (doc_mode h)
  /\ (doc_safe h = true -> sw_cur (sw_run h) = ts_table /\ wiring_ok (sw_cur (sw_run h)) = true).
Proof. exact switches_theorem. Qed.
Print Assumptions C10_switches_keep_thread_safe.
Example C10_switches_keep_thread_safe_sat :
  hist_ok [SwSave; SwSave; SwRestore; SwRestore; SwOff; SwSafe; SwSave; SwRestore] 0 = true
  /\ doc_safe [SwSave; SwSave; SwRestore; SwRestore; SwOff; SwSafe; SwSave; SwRestore] = true.
Proof. exact sw_hist_example. Qed.

(* every call takes the lock: (1) under a wiring in which all entry points lock, the calls an epoch makes (the probe, the
   scripts' operations that are not skipped, the output's new[] / delete[]) and the calls that take the lock are the same
   number, whatever the schedule and the state the epoch starts from; (2) in the run of a valid scenario, under any
   schedules, every epoch in which the switches so far say "thread-safe" has as many locked calls as calls *)
Theorem C10_every_call_takes_the_lock :
  (forall c sched st, wiring_ok (cfg_wiring c) = true ->
     exists calls, epoch_counts c sched st = (calls, calls) /\ (N.of_nat probe_calls <= calls)%N)
  /\ (forall s sched scheds i, valid s = true -> nth i (doc_flags s) false = true ->
        exists calls, nth_error (o_epochs (run (resched s sched scheds))) i = Some (calls, calls)
                      /\ (N.of_nat probe_calls <= calls)%N).
Proof. exact every_call_locked. Qed.
Print Assumptions C10_every_call_takes_the_lock.
Example C10_every_call_takes_the_lock_sat :
  valid sw_scenario = true
  /\ o_epochs (run sw_scenario) = [(17, 17); (19, 19); (17, 17); (15, 0); (20, 20)]%N
  /\ doc_flags sw_scenario = [true; true; true; false; true].
Proof. exact (conj sw_valid (conj (proj1 (proj2 (proj2 sw_run_obs))) (proj1 (proj2 (proj2 (proj2 sw_run_obs)))))). Qed.

(* every state of every epoch of a valid scenario (epoch_start s scheds = the threads armed for the epoch that follows the
   epochs run with the schedules scheds; then any schedule inside it): mutual exclusion, what a thread has read is current
   when it writes, the lock is only with a thread inside a wrapper, at most one thread in the locked region -- in the state
   and over the whole epoch --, and the epoch can be run to its end *)
Theorem C10_every_epoch_thread_safe : forall s scheds pa sched, valid s = true -> epoch_start s scheds = Some pa ->
  let c := sw_cfg (sc_outalloc s) true (pr_sw pa) in
  let st := exec c sched (pr_st pa) in
  (forall t1 t2 th1 th2, nth_error (st_threads st) t1 = Some th1 -> nth_error (st_threads st) t2 = Some th2 ->
                          in_cs (th_phase th1) = true -> in_cs (th_phase th2) = true -> t1 = t2)
  /\ (forall t th snap, nth_error (st_threads st) t = Some th -> th_phase th = PRead snap -> snap = st_sh st)
  /\ (forall t th, nth_error (st_threads st) t = Some th -> in_cs (th_phase th) = false -> st_lock st <> LHeld t)
  /\ occupancy st <= 1 /\ run_peak c sched (pr_st pa) <= 1
  /\ all_done (complete c st) = true.
Proof. exact every_epoch. Qed.
Print Assumptions C10_every_epoch_thread_safe.
Example C10_every_epoch_thread_safe_sat :
  exists pa, epoch_start sw_scenario [[1; 0; 0; 1]; []] = Some pa
             /\ occupancy (exec (sw_cfg true true (pr_sw pa)) [1; 1] (pr_st pa)) = 1.
Proof. exact sw_epoch_example. Qed.

(* save / restore that remember only "the overloads were on" and switch the default overloads back on (not the code: the
   seeded change C10-2 of round 4): after saveAndDisable; restore the meaning says "thread-safe" and the wiring is the
   unlocked one; the run of the scenario whose second epoch follows that pair does not satisfy the oracle (the probe's
   fifteen calls take no lock) *)
Theorem C10_switches_old_refuted :
  ~ (forall h, hist_ok h 0 = true -> doc_safe h = true -> sw_cur (fold_left sw_step_old h (sw_start ts_table)) = ts_table)
  /\ ~ (forall s, valid s = true -> spec s (run_swold s) = true).
Proof. exact (conj switches_old_refuted run_swold_refuted). Qed.
Print Assumptions C10_switches_old_refuted.

(* --------------------------------------------------------------------------------------------------------------
   SOURCE TIE (second extraction): the wiring tables of gen/Gen_C10.v (read from the text of MemoryLeakWarningPlugin.cpp) equal the tables DERIVED from clang's AST of the same file (gen/Gen_PlugC06.v: the assignments of each switch function, for every handler whether it declares the MemLeakScopedMutex first and which detector call with which allocator getter it makes)
   -------------------------------------------------------------------------------------------------------------- *)
From CppUVerif Require gen.Gen_PlugC06 C10_PlugTie.
Local Open Scope Z_scope.
Theorem C10_thread_safe_table_is_the_ast :
  C10_PlugTie.derive Gen_PlugC06.src_turnOnThreadSafeNewDeleteOverloads = Some ts_table.
Proof. exact C10_PlugTie.thread_safe_table_is_the_ast. Qed.
Print Assumptions C10_thread_safe_table_is_the_ast.

Theorem C10_default_table_is_the_ast :
  C10_PlugTie.derive Gen_PlugC06.src_turnOnDefaultNotThreadSafeNewDeleteOverloads = Some default_table.
Proof. exact C10_PlugTie.default_table_is_the_ast. Qed.
Print Assumptions C10_default_table_is_the_ast.

Theorem C10_off_table_is_the_ast :
  C10_PlugTie.derive Gen_PlugC06.src_turnOffNewDeleteOverloads = Some off_table.
Proof. exact C10_PlugTie.off_table_is_the_ast. Qed.
Print Assumptions C10_off_table_is_the_ast.

Theorem C10_lock_declared_iff_thread_safe_handler :
  forallb
  (fun h : String.string * (bool * list (String.string * String.string * String.string)) =>
  eqb (fst (snd h)) (C10_PlugTie.is_threadsafe_name (fst h))) Gen_PlugC06.src_handlers = true.
Proof. exact C10_PlugTie.lock_declared_iff_thread_safe_handler. Qed.
Print Assumptions C10_lock_declared_iff_thread_safe_handler.

Theorem C10_thread_safe_switch_assigns_only_thread_safe_handlers :
  forallb (fun a : String.string * String.string => C10_PlugTie.is_threadsafe_name (snd a))
  Gen_PlugC06.src_turnOnThreadSafeNewDeleteOverloads = true /\
  forallb (fun a : String.string * String.string => negb (C10_PlugTie.is_threadsafe_name (snd a)))
  (Gen_PlugC06.src_turnOnDefaultNotThreadSafeNewDeleteOverloads ++ Gen_PlugC06.src_turnOffNewDeleteOverloads) =
  true /\
  forallb (fun a : String.string * String.string => negb (C10_PlugTie.is_threadsafe_name (snd a)))
  Gen_PlugC06.src_fptr_init = true.
Proof. exact C10_PlugTie.thread_safe_switch_assigns_only_thread_safe_handlers. Qed.
Print Assumptions C10_thread_safe_switch_assigns_only_thread_safe_handlers.

Theorem C10_switches_assign_each_pointer_once :
  C10_PlugTie.assigns_each_once Gen_PlugC06.src_turnOnThreadSafeNewDeleteOverloads = true /\
  C10_PlugTie.assigns_each_once Gen_PlugC06.src_turnOnDefaultNotThreadSafeNewDeleteOverloads = true /\
  C10_PlugTie.assigns_each_once Gen_PlugC06.src_turnOffNewDeleteOverloads = true.
Proof. exact C10_PlugTie.switches_assign_each_pointer_once. Qed.
Print Assumptions C10_switches_assign_each_pointer_once.

Theorem C10_entry_points_agree :
  C10_PlugTie.dispatch_diagonal = true /\
  C10_PlugTie.ast_entry_points_cover = true /\ length dispatch_table = length Gen_PlugC06.src_entry_points.
Proof. exact C10_PlugTie.entry_points_agree. Qed.
Print Assumptions C10_entry_points_agree.

Theorem C10_ast_thread_safe_wiring_ok :
  exists t : wtable,
  C10_PlugTie.derive Gen_PlugC06.src_turnOnThreadSafeNewDeleteOverloads = Some t /\ wiring_ok t = true.
Proof. exact C10_PlugTie.ast_thread_safe_wiring_ok. Qed.
Print Assumptions C10_ast_thread_safe_wiring_ok.

Theorem C10_a_slip_is_seen :
  match C10_PlugTie.derive C10_PlugTie.slipped_switch with
  | Some t => wiring_ok t
  | None => true
  end = false.
Proof. exact C10_PlugTie.a_slip_is_seen. Qed.
Print Assumptions C10_a_slip_is_seen.
