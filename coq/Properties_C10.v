(* C10 -- Thread-safe allocation mode: schedule-independent accounting, no race, no hang.
   Only statements; every proof is `exact <lemma>`.
   reached s sched = the state after the micro-steps named by the (arbitrary) list of thread ids `sched`, from the start of
   scenario s, with the wiring table regenerated from the source (gen/Gen_C10.v) and the repaired reporter;
   complete = run the lowest runnable thread until nothing can move;
   completed_obs c s sched = the observation (C10_Model.observe) of the execution that follows sched and is then completed,
   including the largest number of threads that were inside the locked region at one moment on the way. *)
From Coq Require Import NArith Arith Bool List.
From CppUVerif Require Import C10_Wiring gen.Gen_C10 C10_Model C10_Steps C10_Lock C10_Data C10_Sched C10_Proofs C10_Main C10_Theorems C10_Refused.
Import ListNotations.

(* over the table regenerated from MemoryLeakWarningPlugin.cpp: each of the eleven function pointers set by
   turnOnThreadSafeNewDeleteOverloads is a function whose first statement takes the scoped lock for its whole body and
   which performs the detector action belonging to that entry point, with the matching allocator *)
Theorem C10_all_entry_points_locked : wiring_ok ts_table = true.
Proof. exact ts_wiring_ok. Qed.
Print Assumptions C10_all_entry_points_locked.

(* the default overloads perform the same eleven actions without a lock, "off" goes straight to the platform, and every
   global operator new/delete overload and C entry point calls the function pointer its signature stands for *)
Theorem C10_entry_points_dispatch :
  forallb (entry_unlocked_same default_table) all_entries = true
  /\ forallb (entry_plain off_table) all_entries = true
  /\ forallb (fun p => entry_eqb (fst p) (snd p)) dispatch_table = true
  /\ forallb (fun e => existsb (fun p => entry_eqb (fst p) e) dispatch_table) all_entries = true.
Proof. exact (conj default_wiring_same_actions (conj off_wiring_plain dispatch_ok)). Qed.
Print Assumptions C10_entry_points_dispatch.

(* the model's run of every valid scenario satisfies the property's oracle *)
Theorem C10_run_meets_spec : forall s, valid s = true -> spec s (run s) = true.
Proof. exact run_meets_spec. Qed.
Print Assumptions C10_run_meets_spec.
Example C10_run_meets_spec_sat : valid ex_scenario = true /\ o_verdicts (run ex_scenario) = [true; false] /\ length (o_entries (run ex_scenario)) = 3.
Proof. exact (conj ex_valid (conj (proj1 (proj2 ex_run)) (proj2 (proj2 (proj2 ex_run))))). Qed.

(* in every state of every execution at most one thread is between acquire and release, and what a thread has read of
   the shared state is still the shared state when it writes (critical sections are atomic with respect to each other) *)
Theorem C10_mutex : forall s sched,
  (forall t1 t2 th1 th2,
     nth_error (st_threads (reached s sched)) t1 = Some th1 -> nth_error (st_threads (reached s sched)) t2 = Some th2 ->
     in_cs (th_phase th1) = true -> in_cs (th_phase th2) = true -> t1 = t2)
  /\ (forall t th snap, nth_error (st_threads (reached s sched)) t = Some th -> th_phase th = PRead snap ->
                        snap = st_sh (reached s sched)).
Proof. exact (fun s sched => conj (mutex s sched) (read_is_current s sched)). Qed.
Print Assumptions C10_mutex.
Example C10_mutex_sat : exists sched t th, nth_error (st_threads (reached ex_scenario sched)) t = Some th /\ in_cs (th_phase th) = true.
Proof. exact ex_in_cs. Qed.

(* however long a thread stays inside the locked region while the others ask for the lock (a schedule that lets the holder
   rest and gives every other thread any number of turns): in every state of every execution at most one thread is between
   Lock() and Unlock(), and so is the largest occupancy over the whole execution (the schedule followed by the run to the end) *)
Theorem C10_locked_region_occupancy : forall s sched,
  occupancy (reached s sched) <= 1 /\ run_peak (the_cfg s) sched (init_state s) <= 1.
Proof. exact region_occupancy. Qed.
Print Assumptions C10_locked_region_occupancy.
Example C10_locked_region_occupancy_sat : occupancy (reached ex_scenario [0; 0; 1; 1; 1; 1; 1; 1]) = 1.
Proof. exact ex_occupancy. Qed.

(* the shared state after any execution is the result of applying its critical sections (and the output's allocations)
   one after another, in the order in which they wrote -- and that order is the order in which the lock was acquired:
   the acquisitions are exactly the threads of the trace's critical sections, followed by the one thread (if any) that
   holds the lock and has not written yet *)
Theorem C10_serialisable : forall s sched,
  st_sh (reached s sched) = fold_left (apply_event (the_cfg s)) (trace (the_cfg s) sched (init_state s)) sh0
  /\ acq_trace (the_cfg s) sched (init_state s) = ev_tids (trace (the_cfg s) sched (init_state s)) ++ pending (reached s sched).
Proof. exact serialisable_in_acquisition_order. Qed.
Print Assumptions C10_serialisable.

(* for ALL schedules: completed, the observation satisfies the oracle (outstanding set = union of the per-thread sequential
   results, a misuse fails exactly its test, allocation numbers handed out once each, nothing foreign outstanding) *)
Theorem C10_schedule_independent : forall s sched, valid s = true ->
  spec s (completed_obs (the_cfg s) s sched) = true.
Proof. exact schedule_independent. Qed.
Print Assumptions C10_schedule_independent.

(* so any two schedules of one scenario agree on verdicts, number of allocations and outstanding set *)
Theorem C10_two_schedules_agree : forall s sched1 sched2, valid s = true ->
  let o1 := completed_obs (the_cfg s) s sched1 in
  let o2 := completed_obs (the_cfg s) s sched2 in
  o_verdicts o1 = o_verdicts o2 /\ o_adv o1 = o_adv o2 /\ incl (o_entries o1) (o_entries o2) /\ incl (o_entries o2) (o_entries o1).
Proof. exact two_schedules. Qed.
Print Assumptions C10_two_schedules_agree.

(* in every reachable state the outstanding records carry distinct sequence numbers in 1..counter-1 and the counter is
   1 + (allocations made by the scripts) + (allocations made by the output) *)
Theorem C10_sequence_numbers : forall s sched, valid s = true ->
  let st := reached s sched in
  NoDup (map t_seq (sh_table (st_sh st)))
  /\ (forall x, In x (sh_table (st_sh st)) -> (1 <= t_seq x < sh_seq (st_sh st))%N)
  /\ (sh_seq (st_sh st) = 1 + st_outallocs st + sum_allocs (st_threads st))%N.
Proof. exact sequence_numbers. Qed.
Print Assumptions C10_sequence_numbers.

(* no reachable deadlock: while a thread has operations left some thread can move, and every execution prefix can be
   completed (lowest runnable thread first) so that every script ends *)
Theorem C10_no_deadlock : forall s sched,
  (all_done (reached s sched) = false ->
   exists t, enabled (the_cfg s) (reached s sched) t = true /\ step (the_cfg s) t (reached s sched) <> reached s sched)
  /\ all_done (complete (the_cfg s) (reached s sched)) = true.
Proof. exact (fun s sched => conj (no_deadlock s sched) (completes s sched)). Qed.
Print Assumptions C10_no_deadlock.
Example C10_no_deadlock_sat : all_done (reached ex_scenario [0; 1; 0]) = false.
Proof. exact ex_not_done. Qed.

(* the lock is held only by a thread inside a wrapper: a thread that is between operations, is printing a failure, has
   left its test after a misuse report or has finished never holds it -- in every state of every execution *)
Theorem C10_lock_released_after_misuse : forall s sched,
  (forall t th, nth_error (st_threads (reached s sched)) t = Some th -> in_cs (th_phase th) = false ->
                st_lock (reached s sched) <> LHeld t)
  /\ ((forall t th, nth_error (st_threads (reached s sched)) t = Some th -> in_cs (th_phase th) = false) ->
      st_lock (reached s sched) = LFree).
Proof. exact (fun s sched => conj (lock_released s sched) (lock_free_when_all_outside s sched)). Qed.
Print Assumptions C10_lock_released_after_misuse.

(* the reporter before the repair (D17, fixed in /repo): the claim "every valid scenario runs to its end" is false of it --
   overrun a new[] block, delete[] it, the next allocation blocks for ever *)
Theorem C10_lock_released_after_misuse_old_refuted : ~ (forall s, valid s = true -> o_done (run_old s) = true).
Proof. exact lock_released_old_refuted. Qed.
Print Assumptions C10_lock_released_after_misuse_old_refuted.

(* what the lock is for: the same wiring with the lock taken out of a single wrapper no longer satisfies the oracle
   (two threads calling malloc: one record and one sequence number are lost) *)
Theorem C10_lock_needed : ~ (forall e s, valid s = true -> spec s (run_with (unlock_one e ts_table) true s) = true).
Proof. exact lock_needed. Qed.
Print Assumptions C10_lock_needed.

(* a realloc that is turned down -- the size refused by the overflow guard, or the underlying realloc returning NULL -- changes
   neither the outstanding set nor the lock: (1) its write step, in any state of any execution, leaves the same records in
   the table (a record taken out is put back with its number), the counter, the lock (still with the caller) and what the
   thread holds; (2) the whole operation, started with the lock free and run without interruption, ends with the same
   records, the same counter, the lock free again, the thread still holding its block and at its next operation, and no
   other thread touched *)
Theorem C10_refused_realloc_changes_nothing :
  (forall s sched t th k rf rest snap, valid s = true ->
     nth_error (st_threads (reached s sched)) t = Some th -> th_pc th = ORefused k rf :: rest -> th_phase th = PRead snap ->
     let st := reached s sched in
     let st' := reached s (sched ++ [t]) in
     (forall x, In x (sh_table (st_sh st')) <-> In x (sh_table (st_sh st)))
     /\ sh_seq (st_sh st') = sh_seq (st_sh st)
     /\ st_lock st' = st_lock st
     /\ st_outallocs st' = st_outallocs st
     /\ st_threads st' = set_nth (st_threads st) t (mk_thread (ORefused k rf :: rest) PExit (th_loc th) false))
  /\ (forall s sched t th k rf rest, valid s = true ->
     nth_error (st_threads (reached s sched)) t = Some th -> th_pc th = ORefused k rf :: rest ->
     th_phase th = PIdle -> th_skip th = false -> st_lock (reached s sched) = LFree ->
     let st := reached s sched in
     let st' := reached s (sched ++ [t; t; t; t]) in
     (forall x, In x (sh_table (st_sh st')) <-> In x (sh_table (st_sh st)))
     /\ sh_seq (st_sh st') = sh_seq (st_sh st)
     /\ st_lock st' = LFree
     /\ st_outallocs st' = st_outallocs st
     /\ st_threads st' = set_nth (st_threads st) t (mk_thread rest PIdle (th_loc th) false)).
Proof. exact (conj refused_commit refused_operation). Qed.
Print Assumptions C10_refused_realloc_changes_nothing.
Example C10_refused_realloc_changes_nothing_sat :
  valid refused_scenario = true
  /\ (exists sched t th k rf rest snap,
       nth_error (st_threads (reached refused_scenario sched)) t = Some th /\ th_pc th = ORefused k rf :: rest /\ th_phase th = PRead snap)
  /\ (exists sched t th k rf rest,
       nth_error (st_threads (reached refused_scenario sched)) t = Some th /\ th_pc th = ORefused k rf :: rest
       /\ th_phase th = PIdle /\ th_skip th = false /\ st_lock (reached refused_scenario sched) = LFree)
  /\ o_entries (run refused_scenario) = [(1, 0, 8%N)].
Proof. exact (conj refused_valid (conj refused_ex_commit (conj refused_ex_operation (proj2 (proj2 (proj2 refused_ex_run)))))). Qed.
