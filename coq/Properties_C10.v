(* C10 -- Thread-safe allocation mode: schedule-independent accounting, no race, no hang.
   Only statements; every proof is `exact <lemma>`. *)
From Coq Require Import NArith Arith Bool List.
From CppUVerif Require Import C10_Wiring gen.Gen_C10 C10_Model C10_Proofs.
Import ListNotations.

(* over the table regenerated from MemoryLeakWarningPlugin.cpp: each of the eleven function pointers set by
   turnOnThreadSafeNewDeleteOverloads is a function whose first statement takes the scoped lock for its whole body and
   which performs the detector action belonging to that entry point, with the matching allocator *)
Theorem C10_all_entry_points_locked : wiring_ok ts_table = true.
Proof. exact ts_wiring_ok. Qed.
Print Assumptions C10_all_entry_points_locked.
