(* C06 -- wrapper allocators are transparent: the family of a wrapper is the family of what it wraps, and it is always the
   name of a plain allocator (actualAllocator() chains end, whatever their depth) *)
From Coq Require Import NArith List Bool Arith Lia.
From CppUVerif Require Import C06_Model C06_Proofs.
Import ListNotations.

Lemma descs_ok_nth : forall l k j m inner, descs_ok l k = true -> nth_error l j = Some (AWrap m inner) -> (inner < k + j)%nat.
Proof.
  induction l as [|d l IH]; intros k j m inner H E; [destruct j; discriminate|].
  destruct j as [|j]; cbn in E.
  - inversion E; subst d. cbn in H. apply andb_true_iff in H. destruct H as [H _]. apply Nat.ltb_lt in H. lia.
  - assert (H' : descs_ok l (S k) = true) by (destruct d; cbn in H; apply andb_true_iff in H; tauto).
    specialize (IH (S k) j m inner H' E). lia.
Qed.

Lemma actual_fuel ds : descs_ok ds 0 = true -> forall i f f', (i < f)%nat -> (i < f')%nat -> actual ds f i = actual ds f' i.
Proof.
  intros OK i. induction i as [i IH] using lt_wf_ind. intros f f' Hf Hf'.
  destruct f as [|f]; [lia|]. destruct f' as [|f']; [lia|]. cbn.
  destruct (nth_error ds i) as [[n|m j]|] eqn:E; try reflexivity.
  pose proof (descs_ok_nth ds 0 i m j OK E) as Hj. apply IH; lia.
Qed.

Lemma actual_plain ds : descs_ok ds 0 = true -> forall i f, (i < f)%nat -> (i < length ds)%nat ->
  exists n, nth_error ds (actual ds f i) = Some (APlain n).
Proof.
  intros OK i. induction i as [i IH] using lt_wf_ind. intros f Hf Hl.
  destruct f as [|f]; [lia|]. cbn.
  destruct (nth_error ds i) as [[n|m j]|] eqn:E.
  - exists n. assumption.
  - pose proof (descs_ok_nth ds 0 i m j OK E) as Hj. apply IH; lia.
  - apply nth_error_None in E. lia.
Qed.

Definition C06_wrappers_transparent_stmt : Prop :=
  forall ds, descs_ok ds 0 = true ->
    (forall i m j, nth_error ds i = Some (AWrap m j) -> fam_of ds i = fam_of ds j) /\
    (forall i, (i < length ds)%nat -> exists n, nth_error ds (actual_of ds i) = Some (APlain n) /\ fam_of ds i = n).
Lemma wrappers_transparent : C06_wrappers_transparent_stmt.
Proof.
  intros ds OK. split.
  - intros i m j E. unfold fam_of, actual_of.
    assert (Hi : (i < length ds)%nat) by (apply nth_error_Some; congruence).
    pose proof (descs_ok_nth ds 0 i m j OK E) as Hj.
    destruct (length ds) as [|L] eqn:EL; [lia|]. cbn [actual]. rewrite E.
    rewrite (actual_fuel ds OK j L (S L)) by lia. reflexivity.
  - intros i Hi. destruct (actual_plain ds OK i (length ds) ltac:(lia) Hi) as (n & En). exists n. split; [exact En|].
    unfold fam_of, name_of, actual_of. fold (actual_of ds i). unfold actual_of. rewrite En. reflexivity.
Qed.

(* two accounting wrappers around "a", and a MemoryLeakAllocator around them *)
Example wrappers_transparent_ex :
  let ds := [APlain [97%N]; AWrap false 0; AWrap false 1; AWrap true 2] in
  descs_ok ds 0 = true /\ fam_of ds 3 = [97%N] /\ actual_of ds 3 = 0%nat.
Proof. vm_compute. auto. Qed.
