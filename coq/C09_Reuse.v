(* C09 -- RE-USED value objects (model part, no proofs).
   One MockNamedValue is stored into more than once: setValue over setValue, andReturnValue twice on one expectation
   (MockCheckedExpectedCall::returnValue_ is one object), mock().setData twice under one name (retrieveDataFromStore hands
   back the object made by the first call).  A setter writes the type name and ONE member of the union; whatever lay in the
   union before stays where the new member does not reach (the upper half of an 8-byte value under a 4-byte one, seven
   bytes under a bool, the tolerance of a double).  The model keeps those bytes: a `cell` is the type tag, the first and the
   second 8 bytes of the union as numbers (little endian, LP64) and size_; `cell_store` writes as the setters do, `decode`
   reads the member the tag names, as the getters and equals do.  What a test may rely on is the ABSTRACT state -- the last
   stored type and value (`abs`) -- and C09_ReuseProofs.v proves that every read and both comparisons are functions of it. *)
From Coq Require Import ZArith Bool List.
From CppUVerif Require Import lib.CInt lib.Dbl lib.Str C09_Model C09_Access.
Import ListNotations.
Local Open Scope Z_scope.

(* what a test hands to a setter; doubles by their bit patterns, strings and buffers by content *)
Inductive sval :=
| SBool (b : bool) | SInt (t : ity) (z : Z) | SDbl (bits tol : Z) | SStr (s : option (list N))
| SPtr (a : Z) | SCPtr (a : Z) | SFun (a : Z) | SMem (m : list N).

Definition is_u64 (z : Z) : bool := (0 <=? z) && (z <? 18446744073709551616).
Definition s_valid (s : sval) : bool :=
  match s with
  | SInt t z => in_range t z
  | SDbl b t => is_u64 b && is_u64 t
  | SPtr a | SCPtr a | SFun a => is_u64 a
  | _ => true end.

(* the abstract state after storing s: the last stored type and value, nothing else *)
Definition abs (s : sval) : value :=
  match s with
  | SBool b => VBool b | SInt t z => VInt t z | SDbl b t => VDouble (dbl_of_bits b) (dbl_of_bits t)
  | SStr s => VStr s | SPtr a => VPtr a | SCPtr a => VConstPtr a | SFun a => VFun a | SMem m => VMem m end.

(* -------- the object as the code has it -------- *)
Inductive tag := KBool | KInt (t : ity) | KDouble | KStr | KPtr | KConstPtr | KFun | KMem.
Record cell := { k_tag : tag; k_w0 : Z; k_w1 : Z; k_size : Z }.

(* a store as the setter sees it: scalars by value, a C string / a memory buffer by ADDRESS (0 = NULL) *)
Inductive cstore :=
| CBool (b : bool) | CInt (t : ity) (z : Z) | CDbl (bits tol : Z) | CStrAt (a : Z)
| CPtr (a : Z) | CConstPtr (a : Z) | CFun (a : Z) | CMemAt (a : Z) (n : Z).
Definition c_valid (s : cstore) : bool :=
  match s with
  | CBool _ => true
  | CInt t z => in_range t z
  | CDbl b t => is_u64 b && is_u64 t
  | CStrAt a | CPtr a | CConstPtr a | CFun a => is_u64 a
  | CMemAt a n => is_u64 a && (0 <=? n) end.

(* the low `bits` bits of the word w replaced by x (two's complement), the rest left as it was / the low bits read *)
Definition putb (bits w x : Z) : Z := (w / 2 ^ bits) * 2 ^ bits + x mod 2 ^ bits.
Definition lowb (bits w : Z) : Z := w mod 2 ^ bits.

Definition with_w0 (c : cell) (k : tag) (w0 : Z) : cell := {| k_tag := k; k_w0 := w0; k_w1 := k_w1 c; k_size := k_size c |}.
(* setValue(T) / setMemoryBuffer: type_ = <name of T>; value_.<member of T> = value; *)
Definition cell_store (c : cell) (s : cstore) : cell :=
  match s with
  | CBool b => with_w0 c KBool (putb 8 (k_w0 c) (if b then 1 else 0))
  | CInt t z => with_w0 c (KInt t) (putb (width t) (k_w0 c) z)
  | CDbl b t => {| k_tag := KDouble; k_w0 := putb 64 (k_w0 c) b; k_w1 := putb 64 (k_w1 c) t; k_size := k_size c |}
  | CStrAt a => with_w0 c KStr (putb 64 (k_w0 c) a)
  | CPtr a => with_w0 c KPtr (putb 64 (k_w0 c) a)
  | CConstPtr a => with_w0 c KConstPtr (putb 64 (k_w0 c) a)
  | CFun a => with_w0 c KFun (putb 64 (k_w0 c) a)
  | CMemAt a n => {| k_tag := KMem; k_w0 := putb 64 (k_w0 c) a; k_w1 := k_w1 c; k_size := n |}
  end.

(* the union member of integer type t: its own width, its own signedness *)
Definition member (t : ity) (w : Z) : Z := cast t (lowb (width t) w).
(* what the getters and equals read: the member the type name stands for.  `h` = the memory behind the addresses:
   the C string that starts at an address / the bytes of the buffer that starts there *)
Definition decode (h : Z -> list N) (c : cell) : value :=
  match k_tag c with
  | KBool => VBool (negb (lowb 8 (k_w0 c) =? 0))
  | KInt t => VInt t (member t (k_w0 c))
  | KDouble => VDouble (dbl_of_bits (lowb 64 (k_w0 c))) (dbl_of_bits (lowb 64 (k_w1 c)))
  | KStr => VStr (if lowb 64 (k_w0 c) =? 0 then None else Some (h (lowb 64 (k_w0 c))))
  | KPtr => VPtr (lowb 64 (k_w0 c))
  | KConstPtr => VConstPtr (lowb 64 (k_w0 c))
  | KFun => VFun (lowb 64 (k_w0 c))
  | KMem => VMem (firstn (Z.to_nat (k_size c)) (h (lowb 64 (k_w0 c))))
  end.
(* what a store means, given the memory behind the addresses *)
Definition cabs (h : Z -> list N) (s : cstore) : value :=
  match s with
  | CBool b => VBool b | CInt t z => VInt t z | CDbl b t => VDouble (dbl_of_bits b) (dbl_of_bits t)
  | CStrAt a => VStr (if a =? 0 then None else Some (h a))
  | CPtr a => VPtr a | CConstPtr a => VConstPtr a | CFun a => VFun a
  | CMemAt a n => VMem (firstn (Z.to_nat n) (h a)) end.

(* MockNamedValue(name): type "int", intValue_ = 0; the other twelve bytes are whatever the memory held *)
Definition cell_new (junk0 junk1 : Z) : cell := {| k_tag := KInt TInt; k_w0 := putb 32 junk0 0; k_w1 := junk1; k_size := 0 |}.
Definition cell_zero : cell := cell_new 0 0.
Definition cell_after (c : cell) (l : list cstore) : cell := fold_left cell_store l c.

(* red-team change C09-3 of round 4: the constructor clears the whole union, and getUnsignedLongLongIntValue reads an
   "unsigned int" value through the 8-byte member value_.unsignedLongIntValue_ *)
Definition get_ullong_wide (h : Z -> list N) (c : cell) : option Z :=
  match k_tag c with
  | KInt TUInt => Some (member TULong (k_w0 c))
  | _ => get_ullong (decode h c) end.

(* -------- where the model puts strings and buffers: the i-th stored payload of a scenario in an allocation of its own -------- *)
Definition heap_base : Z := 105553116266496.          (* 0x600000000000: the upper half of every address is non-zero *)
Definition addr_of (i : nat) : Z := heap_base + 256 * Z.of_nat i.
Definition payload_bytes (s : sval) : list N := match s with SStr (Some l) => l | SMem m => m | _ => [] end.
Definition heap_of (l : list sval) (a : Z) : list N := payload_bytes (nth (Z.to_nat ((a - heap_base) / 256)) l (SBool false)).
Definition place (i : nat) (s : sval) : cstore :=
  match s with
  | SBool b => CBool b | SInt t z => CInt t z | SDbl b t => CDbl b t
  | SStr None => CStrAt 0 | SStr (Some _) => CStrAt (addr_of i)
  | SPtr a => CPtr a | SCPtr a => CConstPtr a | SFun a => CFun a
  | SMem m => CMemAt (addr_of i) (Z.of_nat (length m)) end.
Fixpoint place_from (i : nat) (l : list sval) : list cstore :=
  match l with [] => [] | s :: r => place i s :: place_from (S i) r end.

(* -------- scenarios -------- *)
(* which object is stored into again: a MockNamedValue of the test's own; the return value of one expectation (C++ interface / C table);
   one slot of mock().setData (C++ interface / the C table's setXData) *)
Inductive box := BNamed | BReturn | BReturnC | BData | BDataC.
(* object A receives ru_before (in order) and then ru_last; it is read through every accessor of ru_fam and compared, both ways, with
   object B -- a MockNamedValue that received ru_obefore and then ru_other *)
Record reuse := { ru_box : box; ru_fam : family; ru_before : list sval; ru_last : sval; ru_obefore : list sval; ru_other : sval }.
Record robs := { q_ab : bool; q_ba : bool; q_get : list (option rval) }.

Definition all_accs : list acc :=
  [ABool; AInt GInt; AInt GUInt; AInt GLong; AInt GULong; AInt GLLong; AInt GULLong; ADouble; AStr; APtr; AConstPtr; AFun; AMem].

(* andReturnValue(double) / setData(name, double) store with MockNamedValue::defaultDoubleTolerance = 0.005 *)
Definition default_tol_bits : Z := 4572414629676717179.          (* 0x3f747ae147ae147b *)
Definition box_takes (b : box) (s : sval) : bool :=
  match b, s with
  | BNamed, _ => true
  | _, SMem _ => false                                           (* no andReturnValue / setData for buffers *)
  | (BData | BDataC), SInt (TLong | TULong | TLLong | TULLong) _ => false   (* setData has int and unsigned int only *)
  | _, SDbl _ t => t =? default_tol_bits
  | _, _ => true end.
Definition box_reads (b : box) (f : family) : bool :=
  match b with BNamed | BData | BDataC => is_named f | BReturn | BReturnC => true end.
Definition ru_objects (r : reuse) : list sval := ru_before r ++ ru_last r :: ru_obefore r ++ [ru_other r].
Definition ru_valid (r : reuse) : bool :=
  box_reads (ru_box r) (ru_fam r)
  && forallb (fun s => s_valid s && box_takes (ru_box r) s) (ru_before r ++ [ru_last r])
  && forallb s_valid (ru_obefore r ++ [ru_other r])
  && (Z.of_nat (length (ru_objects r)) <? 4294967296).          (* the payloads fit the address space *)

Definition ru_obs (f : family) (v w : value) : robs :=
  {| q_ab := equals v w; q_ba := equals w v;
     q_get := map (fun a => if offers f a then read f a (Some v) (RInt 0) else None) all_accs |}.

(* the run on the cells: every payload of the scenario placed, the stores done in order on a new object each, the reads decoded *)
Definition ru_cell_a (r : reuse) : cell :=
  cell_store (cell_after cell_zero (place_from 0 (ru_before r))) (place (length (ru_before r)) (ru_last r)).
Definition ru_cell_b (r : reuse) : cell :=
  let n := S (length (ru_before r)) in
  cell_store (cell_after cell_zero (place_from n (ru_obefore r))) (place (n + length (ru_obefore r)) (ru_other r)).
Definition ru_run (r : reuse) : robs :=
  let h := heap_of (ru_objects r) in
  ru_obs (ru_fam r) (decode h (ru_cell_a r)) (decode h (ru_cell_b r)).
(* the same on the abstract state *)
Definition ru_run_abs (r : reuse) : robs := ru_obs (ru_fam r) (abs (ru_last r)) (abs (ru_other r)).

(* -------- spec: the property's sentences, about the LAST stored values; the earlier stores do not occur in it -------- *)
Definition eq_ok (m : option bool) (b : bool) : bool := match m with Some e => Bool.eqb b e | None => true end.
Definition ru_spec (r : reuse) (o : robs) : bool :=
  let v := abs (ru_last r) in
  let w := abs (ru_other r) in
  eq_ok (math_equal v w) (q_ab o) && eq_ok (math_equal w v) (q_ba o)
  && Nat.eqb (length (q_get o)) 13
  && forallb (fun p => read_ok (Some v) (fst p) (snd p)) (combine all_accs (q_get o)).

(* -------- the whole scenario language -------- *)
Inductive zscenario := ZOld (s : xscenario) | ZReuse (r : reuse).
Inductive zobs := PObs (o : xobs) | PReuse (o : robs).
Definition z_valid (s : zscenario) : bool := match s with ZOld s => x_valid s | ZReuse r => ru_valid r end.
Definition z_run (s : zscenario) : zobs := match s with ZOld s => PObs (x_run s) | ZReuse r => PReuse (ru_run r) end.
Definition z_spec (s : zscenario) (o : zobs) : bool :=
  match s, o with
  | ZOld s, PObs o => x_spec s o
  | ZReuse r, PReuse o => ru_spec r o
  | _, _ => false end.
