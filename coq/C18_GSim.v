(* C18 -- the installed cache: what a request / a release / a clear does to a stack of caches that satisfies the invariant *)
From Coq Require Import NArith Arith Bool List Lia Permutation.
From CppUVerif Require Import gen.Gen_C18 C18_Model C18_Lists C18_Inv C18_Sim C18_Hist C18_ModelG C18_GInv.
Import ListNotations.
Local Open Scope N_scope.

Definition rsize (stk : list gc) (n : N) : N :=
  match stk with [] => n | _ :: _ => match cls n with Some s => s | None => n end end.
Definition warned_of (stk : list gc) : list bool := map (fun c => s_warned (g_st c)) stk.

Lemma is_nil_len : forall (A B : Type) (a : list A) (b : list B), length a = length b -> is_nil a = is_nil b.
Proof. intros A B [|x a] [|y b] H; simpl in *; try reflexivity; discriminate. Qed.
Lemma rsize_len : forall a b n, length a = length b -> rsize a n = rsize b n.
Proof. intros [|x a] [|y b] n H; simpl in *; try reflexivity; discriminate. Qed.

Lemma need_none : forall st n, map n_size (s_cache st) = class_sizes -> need st n = None ->
  exists l1 nd l2 b fr, s_cache st = l1 ++ nd :: l2 /\ n_free nd = b :: fr /\ cls n = Some (n_size nd) /\
    alloc_hit st n = (with_cache st (l1 ++ {| n_size := n_size nd; n_free := fr; n_used := b :: n_used nd |} :: l2), b_mem b).
Proof.
  intros st n Hs H. unfold need in H. destruct (is_cached n) eqn:C; [|discriminate].
  destruct (class_lookup _ n Hs C) as [l1 [nd [l2 [H1 [H2 [H3 [H4 H5]]]]]]].
  rewrite H2 in H. destruct (n_free nd) as [|b fr] eqn:F; [discriminate|].
  exists l1, nd, l2, b, fr. split; [exact H1|]. split; [exact F|]. split; [exact H5|].
  unfold alloc_hit. cbv zeta. rewrite H2, F, H3. reflexivity.
Qed.
Lemma need_some : forall st n sz, map n_size (s_cache st) = class_sizes -> need st n = Some sz ->
  (exists l1 nd l2, is_cached n = true /\ s_cache st = l1 ++ nd :: l2 /\ n_free nd = [] /\ cls n = Some (n_size nd) /\ sz = n_size nd /\
     forall h m, alloc_with st n h m =
       with_cache st (l1 ++ {| n_size := n_size nd; n_free := []; n_used := {| b_hdr := h; b_mem := m |} :: n_used nd |} :: l2)) \/
  (is_cached n = false /\ sz = n /\
     forall h m, alloc_with st n h m =
       {| s_cache := s_cache st; s_non := {| b_hdr := h; b_mem := m |} :: s_non st; s_warned := s_warned st; s_next := s_next st |}).
Proof.
  intros st n sz Hs H. unfold need in H. destruct (is_cached n) eqn:C.
  - left. destruct (class_lookup _ n Hs C) as [l1 [nd [l2 [H1 [H2 [H3 [H4 H5]]]]]]].
    rewrite H2 in H. destruct (n_free nd) as [|b fr] eqn:F; [|discriminate]. inversion H; subst sz.
    exists l1, nd, l2. split; [reflexivity|]. split; [exact H1|]. split; [exact F|]. split; [exact H5|].
    split; [reflexivity|]. intros h m. unfold alloc_with. cbv zeta. rewrite C, H2, H3, F. reflexivity.
  - right. inversion H; subst. split; [reflexivity|]. split; [reflexivity|]. intros h m. unfold alloc_with. rewrite C. reflexivity.
Qed.

Lemma sizes_ok_same_blocks : forall sizes bt st st',
  s_non st' = s_non st ->
  (forall nd', In nd' (s_cache st') -> exists nd, In nd (s_cache st) /\ n_size nd = n_size nd' /\
     forall b, In b (n_free nd' ++ n_used nd') -> In b (n_free nd ++ n_used nd)) ->
  sizes_ok sizes bt st -> sizes_ok sizes bt st'.
Proof.
  intros sizes bt st st' Hn Hc [H1 [H2 H3]]. split; [|split].
  - intros nd' b Hi Hb. destruct (Hc nd' Hi) as [nd [G1 [G2 G3]]]. rewrite <- G2. apply H1; auto.
  - rewrite Hn. exact H2.
  - intros Hb b Hi. apply H3; [exact Hb|]. unfold all_blocks_of in *. rewrite in_app_iff in *. rewrite Hn in Hi.
    destruct Hi as [Hi|Hi]; [left|right; exact Hi]. apply in_flat_map in Hi. destruct Hi as [nd' [K1 K2]].
    destruct (Hc nd' K1) as [nd [G1 [G2 G3]]]. apply in_flat_map. exists nd. auto.
Qed.

Lemma in_all_blocks_of : forall st b, In b (all_blocks_of st) <->
  (exists nd, In nd (s_cache st) /\ In b (n_free nd ++ n_used nd)) \/ In b (s_non st).
Proof. intros. unfold all_blocks_of. rewrite in_app_iff, in_flat_map. tauto. Qed.

Lemma sizes_ok_add_cached : forall sizes bt st l1 nd l2 h m,
  sizes_ok sizes bt st -> s_cache st = l1 ++ nd :: l2 -> szof sizes m = Some (n_size nd) ->
  (bt = true -> szof sizes h = Some block_hdr_size) ->
  sizes_ok sizes bt (with_cache st (l1 ++ {| n_size := n_size nd; n_free := n_free nd; n_used := {| b_hdr := h; b_mem := m |} :: n_used nd |} :: l2)).
Proof.
  intros sizes bt st l1 nd l2 h m [S1 [S2 S3]] C1 Hm Hh. split; [|split].
  - cbn [with_cache s_cache]. intros nd' b Hn' Hb'. apply in_mid in Hn'. destruct Hn' as [Hn'|[Hn'|Hn']].
    + apply S1; [rewrite C1; apply in_or_app; left; exact Hn' | exact Hb'].
    + subst nd'. cbn [n_size n_free n_used] in *. apply in_app_iff in Hb'. cbn [In] in Hb'. destruct Hb' as [Hb'|[Hb'|Hb']].
      * apply S1; [rewrite C1; apply in_or_app; right; left; reflexivity | apply in_app_iff; left; exact Hb'].
      * subst b. exact Hm.
      * apply S1; [rewrite C1; apply in_or_app; right; left; reflexivity | apply in_app_iff; right; exact Hb'].
    + apply S1; [rewrite C1; apply in_or_app; right; right; exact Hn' | exact Hb'].
  - exact S2.
  - intros Hbt b Hb'. apply in_all_blocks_of in Hb'. cbn [with_cache s_cache s_non] in Hb'.
    destruct Hb' as [[nd' [Hn' Hb']]|Hb']; [|apply S3; [exact Hbt | apply in_all_blocks_of; right; exact Hb']].
    apply in_mid in Hn'. destruct Hn' as [Hn'|[Hn'|Hn']].
    + apply S3; [exact Hbt|]. apply in_all_blocks_of. left. exists nd'. split; [rewrite C1; apply in_or_app; left; exact Hn' | exact Hb'].
    + subst nd'. cbn [n_size n_free n_used] in *. apply in_app_iff in Hb'. cbn [In] in Hb'. destruct Hb' as [Hb'|[Hb'|Hb']].
      * apply S3; [exact Hbt|]. apply in_all_blocks_of. left. exists nd. split; [rewrite C1; apply in_or_app; right; left; reflexivity | apply in_app_iff; left; exact Hb'].
      * subst b. apply Hh. exact Hbt.
      * apply S3; [exact Hbt|]. apply in_all_blocks_of. left. exists nd. split; [rewrite C1; apply in_or_app; right; left; reflexivity | apply in_app_iff; right; exact Hb'].
    + apply S3; [exact Hbt|]. apply in_all_blocks_of. left. exists nd'. split; [rewrite C1; apply in_or_app; right; right; exact Hn' | exact Hb'].
Qed.
Lemma sizes_ok_add_non : forall sizes bt st h m a,
  sizes_ok sizes bt st -> cached_bound < a -> szof sizes m = Some a -> (bt = true -> szof sizes h = Some block_hdr_size) ->
  sizes_ok sizes bt {| s_cache := s_cache st; s_non := {| b_hdr := h; b_mem := m |} :: s_non st; s_warned := s_warned st; s_next := s_next st |}.
Proof.
  intros sizes bt st h m a [S1 [S2 S3]] Ha Hm Hh. split; [exact S1|]. split.
  - cbn [s_non]. intros b [Hb'|Hb']; [subst b; exists a; auto | apply S2; exact Hb'].
  - intros Hbt b Hb'. apply in_all_blocks_of in Hb'. cbn [s_cache s_non In] in Hb'.
    destruct Hb' as [Hb'|[Hb'|Hb']].
    + apply S3; [exact Hbt | apply in_all_blocks_of; left; exact Hb'].
    + subst b. apply Hh. exact Hbt.
    + apply S3; [exact Hbt | apply in_all_blocks_of; right; exact Hb'].
Qed.

Lemma map_fst_kent : forall (p : N) (k : option N) l, map fst ((p, k) :: l) = p :: map fst l.
Proof. reflexivity. Qed.

(* ---------------------------------------------------------------- a request *)
Lemma u_alloc_rec : forall up live bk base n,
  OK [] up live bk base -> base <= N.of_nat (length (fst bk)) ->
  OK [] ((N.of_nat (length (fst bk)), cls n) :: up) live (fst bk ++ [n], snd bk) base.
Proof.
  intros up live [sizes freed] base n H Hb. cbn [fst snd] in *.
  simpl in H. destruct H as [H1 [H2 [H3 [H4 H5]]]]. simpl. split; [|split; [|split; [|split; [|exact H5]]]].
  - intros id k [Ei|Hi].
    + inversion Ei; subst. split; [exact Hb|]. split; [rewrite app_length; simpl; lia|].
      intros Hin. apply H4 in Hin. lia.
    + destruct (H1 id k Hi) as [A [B C]]. split; [exact A|]. split; [rewrite app_length; simpl; lia | exact C].
  - intros id Ha Hlt. rewrite app_length in Hlt. simpl in Hlt.
    destruct (N.eq_dec id (N.of_nat (length sizes))) as [->|Hne]; [right; left; reflexivity|].
    destruct (H2 id Ha) as [G|G]; [lia | left; exact G | right; right; exact G].
  - constructor; [|exact H3]. intros Hin. apply in_map_iff in Hin. destruct Hin as [[id k] [E1 E2]]. simpl in E1. subst id.
    destruct (H1 _ _ E2) as [_ [B _]]. lia.
  - intros id Hin. apply H4 in Hin. rewrite app_length. simpl. lia.
Qed.

Lemma u_alloc_ok : forall f stk up live bk base n stk' nx' p evs,
  length stk = f -> OK stk up live bk base -> base <= N.of_nat (length (fst bk)) ->
  u_alloc f stk (N.of_nat (length (fst bk))) n = (stk', nx', p, evs) ->
  exists x,
    (forall caller prot, apply_evs caller prot bk evs = Some (fst bk ++ x, snd bk)) /\
    nx' = N.of_nat (length (fst bk ++ x)) /\
    OK stk' ((p, cls n) :: up) live (fst bk ++ x, snd bk) base /\
    szof (fst bk ++ x) p = Some (rsize stk n) /\
    map g_ser stk' = map g_ser stk /\ warned_of stk' = warned_of stk /\ length stk' = f.
Proof.
  induction f as [|f' IH]; intros stk up live bk base n stk' nx' p evs Hf H Hb E.
  - destruct stk as [|c rest]; [|discriminate Hf]. simpl in E. inversion E; subst. clear E. exists [n].
    split; [|split; [|split; [|split; [|split; [|split]]]]]; try reflexivity.
    + intros caller prot. destruct bk as [sizes freed]. simpl. rewrite N.eqb_refl. reflexivity.
    + rewrite app_length. simpl. lia.
    + apply u_alloc_rec; assumption.
    + apply szof_new.
  - destruct stk as [|c rest]; [discriminate Hf|]. simpl in Hf. injection Hf as Hf.
    cbn [u_alloc] in E. simpl in H. destruct H as [H1 [H2 [H3 H4]]].
    destruct (need (g_st c) n) as [sz|] eqn:Nd.
    + (* a new block: header, then buffer, from the level below *)
      destruct (u_alloc f' rest (N.of_nat (length (fst bk))) block_hdr_size) as [[[r1 nx1] h] e1] eqn:E1.
      destruct (IH _ _ live bk base block_hdr_size r1 nx1 h e1 Hf H4 Hb E1) as [x1 [A1 [A2 [A3 [A4 [A5 [A6 A7]]]]]]].
      subst nx1.
      destruct (u_alloc f' r1 (N.of_nat (length (fst bk ++ x1))) sz) as [[[r2 nx2] m] e2] eqn:E2.
      assert (Hb1 : base <= N.of_nat (length (fst (fst bk ++ x1, snd bk)))) by (cbn [fst]; rewrite app_length; lia).
      destruct (IH r1 _ live (fst bk ++ x1, snd bk) base sz r2 nx2 m e2 A7 A3 Hb1 E2) as [x2 [B1 [B2 [B3 [B4 [B5 [B6 B7]]]]]]].
      cbn [fst snd] in *. inversion E; subst stk' nx' p evs. clear E.
      exists (x1 ++ x2). rewrite app_assoc.
      split; [|split; [exact B2|split; [|split; [|split; [|split]]]]].
      * intros caller prot. rewrite apply_evs_app, A1. apply B1.
      * (* the invariant *)
        assert (Hnil : is_nil r2 = is_nil rest) by (apply is_nil_len; congruence).
        assert (Hrs : forall q, rsize r1 q = rsize rest q) by (intros q; apply rsize_len; congruence).
        destruct (need_some _ _ _ H1 Nd) as [[l1 [nd [l2 [C0 [C1 [C2 [C3 [C4 C5]]]]]]]]|[C0 [C4 C5]]].
        -- (* cached *)
           subst sz. rewrite (C5 h m). cbn [OK set_st g_st g_ser with_cache s_cache s_non fst snd].
           assert (Hin : In (n_size nd) class_sizes) by (rewrite <- H1, C1; apply in_map; apply in_or_app; right; left; reflexivity).
           split; [|split; [|split]].
           ++ rewrite <- H1, C1. apply map_mid_size. reflexivity.
           ++ rewrite Hnil. apply sizes_ok_ext with (x := x1) in H2. apply sizes_ok_ext with (x := x2) in H2.
              rewrite <- C2. apply sizes_ok_add_cached; [exact H2 | exact C1 | |].
              ** rewrite B4, Hrs. unfold rsize. destruct rest; [reflexivity|]. rewrite (cls_class _ Hin). reflexivity.
              ** intros Hbt. assert (Hr : rest = []) by (destruct rest; [reflexivity | discriminate Hbt]).
                 apply szof_app_old. rewrite A4. subst rest. reflexivity.
           ++ rewrite C3. unfold out_loc in *. cbn [s_cache s_non]. rewrite C1 in H3.
              eapply perm_trans; [apply (flat_map_mid_perm _ _ used_loc l1 nd _ l2 [(m, Some (n_size nd))])|].
              ** unfold used_loc. cbn [n_used n_size]. simpl. apply Permutation_refl.
              ** simpl. constructor. exact H3.
           ++ eapply OK_perm; [|exact B3]. rewrite (cls_class _ Hin). unfold ids_loc. cbn [s_cache s_non]. rewrite C1.
              apply Permutation_sym.
              eapply perm_trans; [apply (flat_map_mid_perm _ _ node_loc l1 nd _ l2 [(h, hkind); (m, Some (n_size nd))])|].
              ** unfold node_loc. cbn [n_used n_free n_size]. rewrite C2. simpl. apply Permutation_refl.
              ** simpl. apply perm_swap.
        -- (* above the bound *)
           subst sz. rewrite (C5 h m). cbn [OK set_st g_st g_ser s_cache s_non fst snd].
           assert (Hcl : cls n = None) by (apply cls_not_cached; exact C0).
           split; [exact H1|]. split; [|split].
           ++ rewrite Hnil. apply sizes_ok_ext with (x := x1) in H2. apply sizes_ok_ext with (x := x2) in H2.
              apply sizes_ok_add_non with (a := n); [exact H2 | apply cls_none_above; exact Hcl | |].
              ** rewrite B4, Hrs. unfold rsize. destruct rest; [reflexivity|]. rewrite Hcl. reflexivity.
              ** intros Hbt. assert (Hr : rest = []) by (destruct rest; [reflexivity | discriminate Hbt]).
                 apply szof_app_old. rewrite A4. subst rest. reflexivity.
           ++ rewrite Hcl. unfold out_loc in *. cbn [s_cache s_non]. simpl.
              eapply perm_trans; [apply Permutation_sym; apply Permutation_middle|]. constructor. exact H3.
           ++ eapply OK_perm; [|exact B3]. rewrite Hcl. unfold ids_loc. cbn [s_cache s_non]. simpl.
              apply Permutation_sym. eapply perm_trans; [apply Permutation_sym; apply Permutation_middle|].
              eapply perm_trans; [apply perm_skip; apply Permutation_sym; apply Permutation_middle|]. apply perm_swap.
      * (* the size *)
        destruct (need_some _ _ _ H1 Nd) as [[l1 [nd [l2 [C0 [C1 [C2 [C3 [C4 C5]]]]]]]]|[C0 [C4 C5]]].
        -- subst sz. rewrite B4. rewrite (rsize_len r1 rest) by congruence. unfold rsize. rewrite C3.
           assert (Hin : In (n_size nd) class_sizes) by (rewrite <- H1, C1; apply in_map; apply in_or_app; right; left; reflexivity).
           destruct rest; [|rewrite (cls_class _ Hin); reflexivity].
           (* the bottom cache asks the recorder for the class size *)
           reflexivity.
        -- subst sz. rewrite B4. rewrite (rsize_len r1 rest) by congruence. unfold rsize.
           rewrite (cls_not_cached _ C0). destruct rest; reflexivity.
      * simpl. rewrite B5, A5. reflexivity.
      * unfold warned_of in *. simpl. rewrite B6, A6.
        destruct (need_some _ _ _ H1 Nd) as [[l1 [nd [l2 [C0 [C1 [C2 [C3 [C4 C5]]]]]]]]|[C0 [C4 C5]]]; rewrite (C5 h m); reflexivity.
      * simpl. rewrite B7. reflexivity.
    + (* served from the free list of the class *)
      destruct (need_none _ _ H1 Nd) as [l1 [nd [l2 [b [fr [C1 [C2 [C3 C4]]]]]]]]. rewrite C4 in E.
      inversion E; subst stk' nx' p evs. clear E. exists []. rewrite app_nil_r.
      assert (Ebk : (fst bk, snd bk) = bk) by (destruct bk; reflexivity). rewrite Ebk.
      split; [intros; reflexivity|]. split; [reflexivity|]. split; [|split; [|split; [|split]]]; try reflexivity.
      * cbn [OK set_st g_st g_ser with_cache s_cache s_non fst snd]. split; [|split; [|split]].
        -- rewrite <- H1, C1. apply map_mid_size. reflexivity.
        -- eapply sizes_ok_same_blocks; [| |exact H2]; [reflexivity|]. cbn [s_cache]. intros nd' Hn'.
           apply in_mid in Hn'. destruct Hn' as [Hn'|[Hn'|Hn']].
           ++ exists nd'. split; [rewrite C1; apply in_or_app; left; exact Hn'|]. split; [reflexivity | auto].
           ++ subst nd'. exists nd. split; [rewrite C1; apply in_or_app; right; left; reflexivity|]. split; [reflexivity|].
              cbn [n_free n_used]. intros b' Hb'. rewrite C2. apply in_app_iff in Hb'. cbn [In] in Hb'. apply in_app_iff. cbn [In]. tauto.
           ++ exists nd'. split; [rewrite C1; apply in_or_app; right; right; exact Hn'|]. split; [reflexivity | auto].
        -- rewrite C3. unfold out_loc in *. cbn [s_cache s_non]. rewrite C1 in H3.
           eapply perm_trans; [apply (flat_map_mid_perm _ _ used_loc l1 nd _ l2 [(b_mem b, Some (n_size nd))])|].
           ++ unfold used_loc. cbn [n_used n_size]. simpl. apply Permutation_refl.
           ++ simpl. constructor. exact H3.
        -- eapply OK_perm; [|exact H4]. unfold ids_loc. cbn [s_cache s_non]. rewrite C1.
           apply Permutation_sym.
           eapply perm_trans; [apply (flat_map_mid_perm _ _ node_loc l1 nd _ l2 [])|]; [|simpl; apply Permutation_refl].
           unfold node_loc. cbn [n_used n_free n_size]. rewrite C2. simpl.
           apply Permutation_sym. eapply perm_trans; [apply perm_skip; apply Permutation_middle | apply Permutation_middle].
      * destruct H2 as [S1 _]. unfold rsize. rewrite C3. apply S1; [rewrite C1; apply in_or_app; right; left; reflexivity|].
        rewrite C2. left. reflexivity.
      * simpl. congruence.
Qed.

(* ---------------------------------------------------------------- the books under calls that need no protection list *)
Lemma apply_evs_freed_grows : forall l c p bk bk', apply_evs c p bk l = Some bk' ->
  (forall x, In x (snd bk) -> In x (snd bk')) /\ (forall x sz, In (EF x sz) l -> In x (snd bk')).
Proof.
  induction l as [|e r IH]; intros c p bk bk' H; simpl in H.
  - inversion H; subst. split; [auto | intros x sz []].
  - destruct (apply_ev c p bk e) as [bk1|] eqn:E; [|discriminate]. destruct (IH _ _ _ _ H) as [B C].
    destruct e as [id sz|id sz]; simpl in E.
    + destruct (id =? N.of_nat (length (fst bk))); [|discriminate]. inversion E; subst bk1. cbn [fst snd] in *.
      split; [exact B|]. intros x s [Ex|Hx]; [discriminate Ex | eapply C; eauto].
    + destruct (szof (fst bk) id) as [a|]; [|discriminate].
      destruct (memN id (snd bk) || negb (size_ok a sz c) || memN id p); [discriminate|]. inversion E; subst bk1. cbn [fst snd] in *.
      split.
      * intros x Hx. apply B. right. exact Hx.
      * intros x s [Ex|Hx]; [inversion Ex; subst; apply B; left; reflexivity | eapply C; eauto].
Qed.

Lemma apply_ev_prot : forall c p bk e bk', apply_ev c [] bk e = Some bk' ->
  (forall x sz, e = EF x sz -> ~ In x p) -> apply_ev c p bk e = Some bk'.
Proof.
  intros c p bk [id sz|id sz] bk' H Hp; simpl in *; [exact H|].
  destruct (szof (fst bk) id) as [a|]; [|discriminate].
  assert (M : memN id p = false) by (apply memN_false; eapply Hp; reflexivity). rewrite M.
  rewrite !orb_false_r in *. exact H.
Qed.
Lemma apply_evs_prot : forall l c p bk bk', apply_evs c [] bk l = Some bk' ->
  (forall x sz, In (EF x sz) l -> ~ In x p) -> apply_evs c p bk l = Some bk'.
Proof.
  induction l as [|e r IH]; intros c p bk bk' H Hp; simpl in *; [exact H|].
  destruct (apply_ev c [] bk e) as [bk1|] eqn:E; [|discriminate].
  rewrite (apply_ev_prot c p bk e bk1 E); [|intros x sz ->; eapply Hp; left; reflexivity].
  apply IH; [exact H|]. intros x sz Hx. eapply Hp. right. exact Hx.
Qed.

Lemma OK_set_warned : forall c rest up live bk base st',
  s_cache st' = s_cache (g_st c) -> s_non st' = s_non (g_st c) ->
  OK (c :: rest) up live bk base -> OK (set_st c st' :: rest) up live bk base.
Proof.
  intros c rest up live bk base st' E1 E2 H. simpl in *. unfold out_loc, ids_loc, sizes_ok, all_blocks_of in *. rewrite E1, E2. exact H.
Qed.

Lemma fst_unique : forall (l : list kent) x a b, NoDup (map fst l) -> In (x, a) l -> In (x, b) l -> a = b.
Proof.
  induction l as [|[y c] r IH]; intros x a b Hn Ha Hb; [destruct Ha|]. simpl in Hn. inversion Hn as [|? ? Hy Hr]; subst.
  destruct Ha as [Ea|Ha], Hb as [Eb|Hb].
  - congruence.
  - inversion Ea; subst. elim Hy. apply in_map_iff. exists (x, b). auto.
  - inversion Eb; subst. elim Hy. apply in_map_iff. exists (x, a). auto.
  - eapply IH; eauto.
Qed.

Lemma used_loc_split : forall sz fr fr' u1 b u2,
  Permutation (used_loc {| n_size := sz; n_free := fr; n_used := u1 ++ b :: u2 |})
              ([(b_mem b, Some sz)] ++ used_loc {| n_size := sz; n_free := fr'; n_used := u1 ++ u2 |}).
Proof.
  intros. unfold used_loc. cbn [n_used n_size]. rewrite !map_app. simpl. apply Permutation_sym. apply Permutation_middle.
Qed.
Lemma node_loc_move : forall sz fr u1 b u2,
  Permutation (node_loc {| n_size := sz; n_free := b :: fr; n_used := u1 ++ u2 |})
              (node_loc {| n_size := sz; n_free := fr; n_used := u1 ++ b :: u2 |}).
Proof.
  intros. unfold node_loc. cbn [n_used n_free n_size]. rewrite !blks_loc_app. simpl.
  rewrite !app_assoc.
  eapply perm_trans; [apply perm_skip; apply Permutation_middle | apply Permutation_middle].
Qed.

Lemma used_loc_split' : forall nd fr' u1 b u2, n_used nd = u1 ++ b :: u2 ->
  Permutation (used_loc nd) ([(b_mem b, Some (n_size nd))] ++ used_loc {| n_size := n_size nd; n_free := fr'; n_used := u1 ++ u2 |}).
Proof. intros [sz fr us] fr' u1 b u2 H. cbn [n_used n_size] in *. subst us. apply used_loc_split. Qed.
Lemma node_loc_move' : forall nd u1 b u2, n_used nd = u1 ++ b :: u2 ->
  Permutation (node_loc {| n_size := n_size nd; n_free := b :: n_free nd; n_used := u1 ++ u2 |}) (node_loc nd).
Proof. intros [sz fr us] u1 b u2 H. cbn [n_used n_size n_free] in *. subst us. apply node_loc_move. Qed.

(* ---------------------------------------------------------------- a release the level knows *)
Lemma mems_split : forall l id, In id (mems l) -> forall p, p = PId id ->
  exists b u1 u2, unlink l p = Some (b, u1 ++ u2) /\ l = u1 ++ b :: u2 /\ b_mem b = id.
Proof.
  intros l id Hin p ->. destruct (unlink l (PId id)) as [[b l']|] eqn:U.
  - destruct (unlink_some _ _ _ _ U) as [Hb [u1 [u2 [H1 [H2 _]]]]]. exists b, u1, u2. subst l'. split; [reflexivity|]. split; [exact H1|].
    simpl in Hb. apply N.eqb_eq in Hb. exact Hb.
  - exfalso. apply in_mems in Hin. destruct Hin as [b [Hb1 Hb2]]. pose proof (unlink_none _ _ U b Hb1) as F. simpl in F.
    subst id. rewrite N.eqb_refl in F. discriminate.
Qed.

Lemma rec_free_ok : forall id k up live bk base n caller a,
  OK [] ((id, k) :: up) live bk base -> szof (fst bk) id = Some a -> size_ok a n caller = true ->
  apply_evs caller [] bk [EF id n] = Some (fst bk, id :: snd bk) /\ OK [] up live (fst bk, id :: snd bk) base.
Proof.
  intros id k up live [sizes freed] base n caller a H Ha Hs. cbn [fst snd] in *. simpl in H. destruct H as [H1 [H2 [H3 [H4 H5]]]].
  destruct (H1 id k (or_introl eq_refl)) as [A [B C]]. split.
  - simpl. rewrite Ha. apply memN_false in C. rewrite C, Hs. reflexivity.
  - simpl. inversion H3 as [|? ? N1 N2]; subst. split; [|split; [|split; [|split]]].
    + intros id' k' Hi. destruct (H1 id' k' (or_intror Hi)) as [A' [B' C']]. split; [exact A'|]. split; [exact B'|].
      intros [E|E]; [|tauto]. subst id'. apply N1. apply in_map_iff. exists (id, k'). auto.
    + intros id' Ha' Hb'. destruct (H2 id' Ha' Hb') as [G|[G|G]]; [left; right; exact G | left; left; exact G | right; exact G].
    + exact N2.
    + intros id' [E|E]; [subst; exact B | apply H4; exact E].
    + intros e He Ho. destruct (H5 e He Ho) as [G1 G2]. split; [exact G1|]. intros [E|E]; [lia | tauto].
Qed.

Lemma u_free_known : forall f stk id k up live bk base n caller stk' evs w,
  length stk = f -> OK stk ((id, k) :: up) live bk base ->
  (stk <> [] -> k = cls n) -> (stk <> [] -> k = None -> n = caller) ->
  (stk = [] -> exists a, szof (fst bk) id = Some a /\ size_ok a n caller = true) ->
  u_free f stk (PId id) n = (stk', evs, w) ->
  w = false /\ exists freed', apply_evs caller [] bk evs = Some (fst bk, freed') /\ OK stk' up live (fst bk, freed') base /\
    map g_ser stk' = map g_ser stk /\ warned_of stk' = warned_of stk /\ length stk' = f.
Proof.
  induction f as [|f' IH]; intros stk id k up live bk base n caller stk' evs w Hf H Hk Hc Hs E.
  - destruct stk as [|c rest]; [|discriminate Hf]. simpl in E. inversion E; subst. clear E. split; [reflexivity|].
    destruct (Hs eq_refl) as [a [Ha Hsz]]. destruct (rec_free_ok _ _ _ _ _ _ _ _ _ H Ha Hsz) as [A B].
    exists (id :: snd bk). auto.
  - destruct stk as [|c rest]; [discriminate Hf|]. simpl in Hf. injection Hf as Hf.
    assert (Hne : c :: rest <> []) by discriminate. specialize (Hk Hne). specialize (Hc Hne). clear Hs.
    pose proof H as Hall. simpl in H. destruct H as [H1 [H2 [H3 H4]]].
    assert (Ho : In (id, k) (out_loc (g_st c))).
    { eapply Permutation_in; [apply Permutation_sym; exact H3|]. left. reflexivity. }
    assert (Hnd : NoDup (map fst (ids_loc (g_st c)))).
    { pose proof (OK_nodup_up _ _ _ _ _ H4) as G. rewrite map_app in G. apply NoDup_app_l in G. exact G. }
    cbn [u_free] in E. apply in_out_loc in Ho. destruct Ho as [[nd0 [G1 [G2 G3]]]|[G1 G2]].
    + (* a cached size: the block moves from the used list to the free list *)
      assert (C : is_cached n = true) by (apply is_cached_cls; exists (n_size nd0); congruence).
      destruct (class_lookup _ n H1 C) as [l1 [nd [l2 [C1 [C2 [C3 [C4 C5]]]]]]].
      assert (nd0 = nd).
      { apply (same_size_same_node (s_cache (g_st c))); [rewrite H1; apply classes_distinct | exact G1 | rewrite C1; apply in_or_app; right; left; reflexivity | congruence]. }
      subst nd0. destruct (mems_split _ _ G3 _ eq_refl) as [b [u1 [u2 [U1 [U2 U3]]]]].
      assert (D : dealloc (g_st c) (PId id) n =
                  (with_cache (g_st c) (l1 ++ {| n_size := n_size nd; n_free := b :: n_free nd; n_used := u1 ++ u2 |} :: l2), mk_out [] None false)).
      { unfold dealloc. rewrite C. cbv zeta. rewrite C2, U1, C3. reflexivity. }
      rewrite D in E. cbn [o_evs mk_out replay_with o_warn] in E. inversion E; subst stk' evs w. clear E.
      split; [reflexivity|]. exists (snd bk). assert (Ebk : (fst bk, snd bk) = bk) by (destruct bk; reflexivity). rewrite Ebk.
      split; [reflexivity|]. split; [|split; [|split]]; try reflexivity.
      cbn [OK set_st g_st g_ser with_cache s_cache s_non]. split; [|split; [|split]].
      * rewrite <- H1, C1. apply map_mid_size. reflexivity.
      * eapply sizes_ok_same_blocks; [| |exact H2]; [reflexivity|]. cbn [s_cache with_cache]. intros nd' Hn'.
        apply in_mid in Hn'. destruct Hn' as [Hn'|[Hn'|Hn']].
        -- exists nd'. split; [rewrite C1; apply in_or_app; left; exact Hn'|]. split; [reflexivity | auto].
        -- subst nd'. exists nd. split; [rewrite C1; apply in_or_app; right; left; reflexivity|]. split; [reflexivity|].
           cbn [n_free n_used]. intros b' Hb'. rewrite U2. rewrite !in_app_iff. rewrite !in_app_iff in Hb'. cbn [In] in *. tauto.
        -- exists nd'. split; [rewrite C1; apply in_or_app; right; right; exact Hn'|]. split; [reflexivity | auto].
      * apply Permutation_cons_inv with (a := (id, k)). eapply perm_trans; [|exact H3].
        unfold out_loc. cbn [s_cache s_non with_cache]. rewrite C1. apply Permutation_sym.
        apply (flat_map_mid_perm node kent used_loc l1 {| n_size := n_size nd; n_free := b :: n_free nd; n_used := u1 ++ u2 |} nd l2 [(id, k)] (non_loc (s_non (g_st c)))).
        subst id k. rewrite C5. apply used_loc_split'. exact U2.
      * eapply OK_perm; [|exact H4]. unfold ids_loc. cbn [s_cache s_non with_cache]. rewrite C1. apply Permutation_sym.
        eapply perm_trans; [apply (flat_map_mid_perm _ _ node_loc l1 nd _ l2 [])|]; [|simpl; apply Permutation_refl].
        simpl. apply node_loc_move'. exact U2.
      * simpl. congruence.
    + (* above the bound: the block goes back to the level below, buffer first, then header *)
      rewrite G1 in *. clear G1. specialize (Hc eq_refl). subst caller.
      assert (C : is_cached n = false).
      { destruct (is_cached n) eqn:C; [|reflexivity]. apply is_cached_cls in C. destruct C as [s C]. congruence. }
      destruct (mems_split _ _ G2 _ eq_refl) as [b [u1 [u2 [U1 [U2 U3]]]]].
      assert (D : dealloc (g_st c) (PId id) n =
                  ({| s_cache := s_cache (g_st c); s_non := u1 ++ u2; s_warned := s_warned (g_st c); s_next := s_next (g_st c) |},
                   mk_out (destroy_block n b) None false)).
      { unfold dealloc. rewrite C, U1. reflexivity. }
      rewrite D in E. cbn [o_evs mk_out o_warn] in E. unfold destroy_block in E. cbn [replay_with] in E. rewrite U3 in E.
      set (st' := {| s_cache := s_cache (g_st c); s_non := u1 ++ u2; s_warned := s_warned (g_st c); s_next := s_next (g_st c) |}) in *.
      assert (P : Permutation (ids_loc (g_st c)) ((id, None) :: (b_hdr b, hkind) :: ids_loc st')).
      { unfold ids_loc. subst st'. cbn [s_cache s_non]. rewrite U2, !blks_loc_app. simpl. rewrite U3.
        apply Permutation_sym. eapply perm_trans; [apply perm_swap|].
        eapply perm_trans; [apply perm_skip; apply Permutation_middle|]. eapply perm_trans; [apply Permutation_middle|].
        apply Permutation_app_head. eapply perm_trans; [apply perm_skip; apply Permutation_middle|]. apply Permutation_middle. }
      apply (OK_perm _ _ _ _ _ _ P) in H4.
      destruct (u_free f' rest (PId id) n) as [[s1 e1] w1] eqn:F1.
      destruct H2 as [S1 [S2 S3]].
      destruct (IH rest id None _ live bk base n n s1 e1 w1 Hf H4) as [W1 [fr1 [A1 [A2 [A3 [A4 A5]]]]]]; [auto| reflexivity | |exact F1|].
      { intros Hr. assert (Hb : In b (s_non (g_st c))) by (rewrite U2; apply in_or_app; right; left; reflexivity).
        destruct (S2 b Hb) as [a [Ha1 Ha2]]. exists a. rewrite <- U3. split; [exact Ha2|].
        unfold size_ok. replace (cached_bound <? a) with true by (symmetry; apply N.ltb_lt; exact Ha1). rewrite N.eqb_refl. apply orb_true_r. }
      destruct (u_free f' s1 (PId (b_hdr b)) block_hdr_size) as [[s2 e2] w2] eqn:F2.
      destruct (IH s1 (b_hdr b) hkind _ live (fst bk, fr1) base block_hdr_size n s2 e2 w2 A5 A2) as [W2 [fr2 [B1 [B2 [B3 [B4 B5]]]]]];
        [reflexivity | | |exact F2|].
      { intros _ Hh. destruct hkind_some as [s Hs']. congruence. }
      { intros Hr. cbn [fst]. exists block_hdr_size. split; [|apply size_ok_same].
        apply S3; [|apply in_all_blocks_of; right; rewrite U2; apply in_or_app; right; left; reflexivity].
        subst s1. simpl in A5. destruct rest; [reflexivity | simpl in Hf; rewrite <- Hf in A5; discriminate A5]. }
      cbn [fst snd] in *. inversion E; subst stk' evs w. clear E. subst w1 w2. split; [reflexivity|].
      exists fr2. split; [|split; [|split; [|split]]].
      * rewrite apply_evs_app, A1. rewrite app_nil_r. exact B1.
      * cbn [OK set_st g_st g_ser]. split; [exact H1|]. split; [|split; [|exact B2]].
        -- rewrite (is_nil_len _ _ s2 rest) by congruence. subst st'. split; [exact S1|]. split.
           ++ cbn [s_non]. intros b' Hb'. apply S2. rewrite U2. rewrite in_app_iff in *. cbn [In]. tauto.
           ++ intros Hbt b' Hb'. apply S3; [exact Hbt|]. apply in_all_blocks_of in Hb'. apply in_all_blocks_of. cbn [s_cache s_non] in Hb'.
              destruct Hb' as [Hb'|Hb']; [left; exact Hb'|right]. rewrite U2. rewrite in_app_iff in *. cbn [In]. tauto.
        -- apply Permutation_cons_inv with (a := (id, @None N)). eapply perm_trans; [|exact H3].
           unfold out_loc. subst st'. cbn [s_cache s_non]. rewrite U2. unfold non_loc. rewrite !map_app. simpl. rewrite U3.
           rewrite !app_assoc. apply Permutation_middle.
      * simpl. congruence.
      * unfold warned_of in *. simpl. rewrite B4, A4. reflexivity.
      * simpl. congruence.
Qed.

(* a release of a cached size at a cache: the block moves from the used list to the free list; nothing below is touched *)
Lemma u_free_cached : forall f' c rest id s up live bk base n,
  OK (c :: rest) ((id, Some s) :: up) live bk base -> cls n = Some s ->
  exists st', u_free (S f') (c :: rest) (PId id) n = (set_st c st' :: rest, [], false) /\
              s_warned st' = s_warned (g_st c) /\ OK (set_st c st' :: rest) up live bk base.
Proof.
  intros f' c rest id s up live bk base n H Hk.
  simpl in H. destruct H as [H1 [H2 [H3 H4]]].
  assert (Ho : In (id, Some s) (out_loc (g_st c))).
  { eapply Permutation_in; [apply Permutation_sym; exact H3|]. left. reflexivity. }
  apply in_out_loc in Ho. destruct Ho as [[nd0 [G1 [G2 G3]]]|[G1 G2]]; [|discriminate G1].
  assert (C : is_cached n = true) by (apply is_cached_cls; exists s; exact Hk).
  destruct (class_lookup _ n H1 C) as [l1 [nd [l2 [C1 [C2 [C3 [C4 C5]]]]]]].
  assert (nd0 = nd).
  { apply (same_size_same_node (s_cache (g_st c))); [rewrite H1; apply classes_distinct | exact G1 | rewrite C1; apply in_or_app; right; left; reflexivity | congruence]. }
  subst nd0. destruct (mems_split _ _ G3 _ eq_refl) as [b [u1 [u2 [U1 [U2 U3]]]]].
  exists (with_cache (g_st c) (l1 ++ {| n_size := n_size nd; n_free := b :: n_free nd; n_used := u1 ++ u2 |} :: l2)).
  split; [|split; [reflexivity|]].
  - cbn [u_free]. unfold dealloc. rewrite C. cbv zeta. rewrite C2, U1, C3. reflexivity.
  - cbn [OK set_st g_st g_ser with_cache s_cache s_non]. split; [|split; [|split]].
    + rewrite <- H1, C1. apply map_mid_size. reflexivity.
    + eapply sizes_ok_same_blocks; [| |exact H2]; [reflexivity|]. cbn [s_cache with_cache]. intros nd' Hn'.
      apply in_mid in Hn'. destruct Hn' as [Hn'|[Hn'|Hn']].
      * exists nd'. split; [rewrite C1; apply in_or_app; left; exact Hn'|]. split; [reflexivity | auto].
      * subst nd'. exists nd. split; [rewrite C1; apply in_or_app; right; left; reflexivity|]. split; [reflexivity|].
        cbn [n_free n_used]. intros b' Hb'. rewrite U2. rewrite !in_app_iff. rewrite !in_app_iff in Hb'. cbn [In] in *. tauto.
      * exists nd'. split; [rewrite C1; apply in_or_app; right; right; exact Hn'|]. split; [reflexivity | auto].
    + apply Permutation_cons_inv with (a := (id, Some s)). eapply perm_trans; [|exact H3].
      unfold out_loc. cbn [s_cache s_non with_cache]. rewrite C1. apply Permutation_sym.
      apply (flat_map_mid_perm node kent used_loc l1 {| n_size := n_size nd; n_free := b :: n_free nd; n_used := u1 ++ u2 |} nd l2 [(id, Some s)] (non_loc (s_non (g_st c)))).
      subst id. inversion G2; subst s. apply used_loc_split'. exact U2.
    + eapply OK_perm; [|exact H4]. unfold ids_loc. cbn [s_cache s_non with_cache]. rewrite C1. apply Permutation_sym.
      eapply perm_trans; [apply (flat_map_mid_perm _ _ node_loc l1 nd _ l2 [])|]; [|simpl; apply Permutation_refl].
      simpl. apply node_loc_move'. exact U2.
Qed.

Lemma replay_app : forall uf l1 l2 stk,
  replay_with uf stk (l1 ++ l2) =
  match replay_with uf stk l1 with
  | (s1, e1, w1) => match replay_with uf s1 l2 with (s2, e2, w2) => (s2, e1 ++ e2, w1 || w2) end
  end.
Proof.
  intros uf. induction l1 as [|e r IH]; intros l2 stk.
  - simpl. destruct (replay_with uf stk l2) as [[s2 e2] w2]. reflexivity.
  - simpl. destruct e as [id sz|id sz].
    + apply IH.
    + destruct (uf stk (PId id) sz) as [[s1 e1] w1]. rewrite IH.
      destruct (replay_with uf s1 r) as [[s2 e2] w2]. destruct (replay_with uf s2 l2) as [[s3 e3] w3].
      rewrite app_assoc, orb_assoc. reflexivity.
Qed.

(* the blocks of a list given back to a cache below, each with the size of its class *)
Lemma replay_cached_list : forall l f' c r s sz up live bk base,
  OK (c :: r) (blks_loc (Some s) l ++ up) live bk base -> cls sz = Some s ->
  exists st', replay_with (u_free (S f')) (c :: r) (destroy_list sz l) = (set_st c st' :: r, [], false) /\
              s_warned st' = s_warned (g_st c) /\ OK (set_st c st' :: r) up live bk base.
Proof.
  induction l as [|b l IH]; intros f' c r s sz up live bk base H Hk.
  - exists (g_st c). simpl. replace (set_st c (g_st c)) with c by (destruct c; reflexivity). auto.
  - change (destroy_list sz (b :: l)) with (EF (b_mem b) sz :: EF (b_hdr b) block_hdr_size :: destroy_list sz l).
    change (blks_loc (Some s) (b :: l) ++ up) with ((b_hdr b, hkind) :: (b_mem b, Some s) :: blks_loc (Some s) l ++ up) in H.
    apply (OK_perm _ _ _ _ _ _ (perm_swap _ _ _)) in H.
    destruct (u_free_cached f' c r (b_mem b) s _ live bk base sz H Hk) as [st1 [F1 [W1 O1]]].
    destruct hkind_some as [sh Hh]. rewrite Hh in O1.
    destruct (u_free_cached f' (set_st c st1) r (b_hdr b) sh _ live bk base block_hdr_size O1 Hh) as [st2 [F2 [W2 O2]]].
    cbn [set_st g_st g_ser] in *.
    destruct (IH f' (set_st (set_st c st1) st2) r s sz up live bk base O2 Hk) as [st3 [F3 [W3 O3]]].
    cbn [set_st g_st g_ser] in *.
    exists st3. split; [|split; [congruence | exact O3]].
    cbn [replay_with]. rewrite F1, F2. unfold set_st in *. cbn [g_st g_ser] in *. rewrite F3. reflexivity.
Qed.

Lemma u_free_nil : forall f id n, u_free f [] (PId id) n = ([], [EF id n], false).
Proof. intros [|f] id n; reflexivity. Qed.
(* the same towards the recorder *)
Lemma replay_rec_list : forall l k sz up live bk base caller,
  OK [] (blks_loc k l ++ up) live bk base ->
  (forall b, In b l -> szof (fst bk) (b_hdr b) = Some block_hdr_size /\
                       exists a, szof (fst bk) (b_mem b) = Some a /\ size_ok a sz caller = true) ->
  replay_with (u_free 0) [] (destroy_list sz l) = ([], destroy_list sz l, false) /\
  exists freed', apply_evs caller [] bk (destroy_list sz l) = Some (fst bk, freed') /\ OK [] up live (fst bk, freed') base.
Proof.
  induction l as [|b l IH]; intros k sz up live bk base caller H Hs.
  - split; [reflexivity|]. exists (snd bk). simpl. destruct bk. auto.
  - change (destroy_list sz (b :: l)) with (EF (b_mem b) sz :: EF (b_hdr b) block_hdr_size :: destroy_list sz l).
    change (blks_loc k (b :: l) ++ up) with ((b_hdr b, hkind) :: (b_mem b, k) :: blks_loc k l ++ up) in H.
    apply (OK_perm _ _ _ _ _ _ (perm_swap _ _ _)) in H.
    destruct (Hs b (or_introl eq_refl)) as [Hh [a [Ha Hok]]].
    destruct (rec_free_ok _ _ _ _ _ _ _ _ _ H Ha Hok) as [A1 O1].
    assert (Hh' : szof (fst (fst bk, b_mem b :: snd bk)) (b_hdr b) = Some block_hdr_size) by exact Hh.
    destruct (rec_free_ok _ _ _ _ _ _ block_hdr_size caller _ O1 Hh' (size_ok_same _ _)) as [A2 O2]. cbn [fst snd] in *.
    destruct (IH k sz up live (fst bk, b_hdr b :: b_mem b :: snd bk) base caller O2) as [R [fr [A3 O3]]].
    { intros b' Hb'. apply Hs. right. exact Hb'. }
    cbn [fst snd] in *. split.
    + cbn [replay_with]. rewrite u_free_nil. cbv beta iota. rewrite u_free_nil. cbv beta iota. rewrite R. reflexivity.
    + exists fr. split; [|exact O3].
      change (EF (b_mem b) sz :: EF (b_hdr b) block_hdr_size :: destroy_list sz l)
        with ([EF (b_mem b) sz] ++ [EF (b_hdr b) block_hdr_size] ++ destroy_list sz l).
      rewrite apply_evs_app, A1, apply_evs_app, A2. exact A3.
Qed.

(* ---------------------------------------------------------------- a release the level does not know *)
Lemma u_free_unknown : forall f' c r p n, (forall b, In b (searched (g_st c) n) -> mem_is b p = false) ->
  u_free (S f') (c :: r) p n =
  (set_st c {| s_cache := s_cache (g_st c); s_non := s_non (g_st c); s_warned := true; s_next := s_next (g_st c) |} :: r, [],
   negb (s_warned (g_st c))).
Proof.
  intros f' c r p n H. cbn [u_free]. rewrite (unknown_release_inert _ _ _ H). cbn [o_evs mk_out replay_with o_warn].
  rewrite orb_false_r. reflexivity.
Qed.

Lemma OK_out_nodup : forall c r up live bk base, OK (c :: r) up live bk base -> NoDup (map fst (out_loc (g_st c))).
Proof.
  intros c r up live bk base H. pose proof (OK_nodup_up _ _ _ _ _ H) as G. simpl in H. destruct H as [_ [_ [H3 _]]].
  eapply NoDup_map_fst_perm; [apply Permutation_sym; exact H3 | exact G].
Qed.

(* buffers above the bound given back to a cache with size 0 (clearAll of the cache above): not recognised, kept *)
Lemma replay_zombies : forall l f' c r up live bk base,
  OK (c :: r) (blks_loc None l ++ up) live bk base ->
  exists st', replay_with (u_free (S f')) (c :: r) (destroy_list 0 l) =
                (set_st c st' :: r, [], negb (is_nil l) && negb (s_warned (g_st c))) /\
              s_warned st' = s_warned (g_st c) || negb (is_nil l) /\
              OK (set_st c st' :: r) (non_loc l ++ up) live bk base.
Proof.
  induction l as [|b l IH]; intros f' c r up live bk base H.
  - exists (g_st c). simpl. replace (set_st c (g_st c)) with c by (destruct c; reflexivity). rewrite orb_false_r. auto.
  - change (destroy_list 0 (b :: l)) with (EF (b_mem b) 0 :: EF (b_hdr b) block_hdr_size :: destroy_list 0 l).
    change (blks_loc None (b :: l) ++ up) with ((b_hdr b, hkind) :: (b_mem b, @None N) :: blks_loc None l ++ up) in H.
    (* the buffer: searched for in the used list of the smallest class *)
    assert (U : forall x, In x (searched (g_st c) 0) -> mem_is x (PId (b_mem b)) = false).
    { intros x Hx. unfold searched in Hx. assert (C : is_cached 0 = true) by reflexivity. rewrite C in Hx.
      pose proof H as H'. simpl in H'. destruct H' as [H1 [_ [H3 _]]].
      destruct (class_lookup _ 0 H1 C) as [l1 [nd [l2 [C1 [C2 _]]]]]. rewrite C2 in Hx.
      simpl. destruct (b_mem x =? b_mem b) eqn:E; [|reflexivity]. exfalso. apply N.eqb_eq in E.
      assert (I1 : In (b_mem b, Some (n_size nd)) (out_loc (g_st c))).
      { apply in_out_loc. left. exists nd. split; [rewrite C1; apply in_or_app; right; left; reflexivity|]. split; [reflexivity|].
        apply in_mems. exists x. auto. }
      assert (I2 : In (b_mem b, @None N) (out_loc (g_st c))).
      { eapply Permutation_in; [apply Permutation_sym; exact H3|]. right. left. reflexivity. }
      pose proof (fst_unique _ _ _ _ (OK_out_nodup _ _ _ _ _ _ H) I1 I2) as F. discriminate F. }
    set (stw := {| s_cache := s_cache (g_st c); s_non := s_non (g_st c); s_warned := true; s_next := s_next (g_st c) |}).
    assert (O1 : OK (set_st c stw :: r) ((b_hdr b, hkind) :: (b_mem b, None) :: blks_loc None l ++ up) live bk base)
      by (apply OK_set_warned; [reflexivity | reflexivity | exact H]).
    destruct hkind_some as [sh Hh]. rewrite Hh in O1.
    destruct (u_free_cached f' (set_st c stw) r (b_hdr b) sh _ live bk base block_hdr_size O1 Hh) as [st2 [F2 [W2 O2]]].
    cbn [set_st g_st g_ser] in *.
    assert (P : Permutation ((b_mem b, @None N) :: blks_loc None l ++ up) (blks_loc None l ++ (b_mem b, None) :: up)) by apply Permutation_middle.
    apply (OK_perm _ _ _ _ _ _ P) in O2.
    destruct (IH f' (set_st (set_st c stw) st2) r _ live bk base O2) as [st3 [F3 [W3 O3]]].
    cbn [set_st g_st g_ser] in *.
    exists st3. split; [|split].
    + cbn [replay_with]. rewrite (u_free_unknown f' c r _ _ U). fold stw. cbv beta iota. rewrite F2. cbv beta iota.
      unfold set_st in *. cbn [g_st g_ser] in *. rewrite F3. rewrite W2. subst stw. cbn [s_warned].
      simpl. rewrite andb_false_r, !orb_false_r. reflexivity.
    + rewrite W3, W2. subst stw. cbn [s_warned]. simpl. rewrite orb_true_r. reflexivity.
    + eapply OK_perm; [|exact O3]. simpl. apply Permutation_sym. apply Permutation_middle.
Qed.

(* ---------------------------------------------------------------- the lists of all nodes given back (clearCache / clearAll) *)
Definition gone_loc (gone : node -> list block) (l : list node) : list kent :=
  flat_map (fun nd => blks_loc (Some (n_size nd)) (gone nd)) l.
Definition gone_evs (gone : node -> list block) (l : list node) : list ev :=
  flat_map (fun nd => destroy_list (n_size nd) (gone nd)) l.

Lemma nodes_cached : forall l gone f' c r up live bk base,
  OK (c :: r) (gone_loc gone l ++ up) live bk base -> (forall nd, In nd l -> In (n_size nd) class_sizes) ->
  exists st', replay_with (u_free (S f')) (c :: r) (gone_evs gone l) = (set_st c st' :: r, [], false) /\
              s_warned st' = s_warned (g_st c) /\ OK (set_st c st' :: r) up live bk base.
Proof.
  induction l as [|nd l IH]; intros gone f' c r up live bk base H Hc.
  - exists (g_st c). simpl. replace (set_st c (g_st c)) with c by (destruct c; reflexivity). auto.
  - unfold gone_loc, gone_evs in *. cbn [flat_map] in *. rewrite <- app_assoc in H.
    destruct (replay_cached_list (gone nd) f' c r (n_size nd) (n_size nd) _ live bk base H) as [st1 [F1 [W1 O1]]].
    { apply cls_class. apply Hc. left. reflexivity. }
    destruct (IH gone f' (set_st c st1) r up live bk base O1) as [st2 [F2 [W2 O2]]].
    { intros nd' Hn. apply Hc. right. exact Hn. }
    cbn [set_st g_st g_ser] in *. exists st2. split; [|split; [congruence | exact O2]].
    rewrite replay_app, F1. unfold set_st in *. cbn [g_st g_ser] in *. rewrite F2. reflexivity.
Qed.

Lemma nodes_rec : forall l gone up live bk base caller,
  OK [] (gone_loc gone l ++ up) live bk base ->
  (forall nd b, In nd l -> In b (gone nd) -> szof (fst bk) (b_hdr b) = Some block_hdr_size /\ szof (fst bk) (b_mem b) = Some (n_size nd)) ->
  replay_with (u_free 0) [] (gone_evs gone l) = ([], gone_evs gone l, false) /\
  exists freed', apply_evs caller [] bk (gone_evs gone l) = Some (fst bk, freed') /\ OK [] up live (fst bk, freed') base.
Proof.
  induction l as [|nd l IH]; intros gone up live bk base caller H Hs.
  - split; [reflexivity|]. exists (snd bk). simpl. destruct bk. auto.
  - unfold gone_loc, gone_evs in *. cbn [flat_map] in *. rewrite <- app_assoc in H.
    destruct (replay_rec_list (gone nd) (Some (n_size nd)) (n_size nd) _ live bk base caller H) as [R1 [fr1 [A1 O1]]].
    { intros b Hb. destruct (Hs nd b (or_introl eq_refl) Hb) as [G1 G2]. split; [exact G1|]. exists (n_size nd). split; [exact G2 | apply size_ok_same]. }
    destruct (IH gone up live (fst bk, fr1) base caller O1) as [R2 [fr2 [A2 O2]]].
    { intros nd' b Hn Hb. apply Hs; [right; exact Hn | exact Hb]. }
    cbn [fst snd] in *. split.
    + rewrite replay_app, R1, R2. reflexivity.
    + exists fr2. split; [rewrite apply_evs_app, A1; exact A2 | exact O2].
Qed.

Lemma gone_split : forall l gone kept, (forall nd, In nd l -> n_free nd ++ n_used nd = gone nd ++ kept nd) ->
  Permutation (flat_map node_loc l) (gone_loc gone l ++ gone_loc kept l).
Proof.
  induction l as [|nd l IH]; intros gone kept H; [constructor|].
  unfold gone_loc in *. cbn [flat_map]. rewrite node_loc_eq, (H nd (or_introl eq_refl)), blks_loc_app. rewrite <- !app_assoc.
  apply Permutation_app_head. eapply perm_trans; [apply Permutation_app_head; apply (IH gone kept)|].
  - intros nd' Hn. apply H. right. exact Hn.
  - apply Permutation_app_swap_app.
Qed.

Lemma keep_used_loc : forall l, flat_map node_loc (map keep_used l) = gone_loc n_used l.
Proof. induction l as [|nd l IH]; [reflexivity|]. unfold gone_loc in *. simpl. rewrite IH. reflexivity. Qed.
Lemma keep_used_out : forall l, flat_map used_loc (map keep_used l) = flat_map used_loc l.
Proof. induction l as [|nd l IH]; [reflexivity|]. simpl. rewrite IH. reflexivity. Qed.
Lemma wipe_loc : forall l, flat_map node_loc (map wipe l) = [].
Proof. induction l as [|nd l IH]; [reflexivity|]. simpl. exact IH. Qed.
Lemma wipe_out : forall l, flat_map used_loc (map wipe l) = [].
Proof. induction l as [|nd l IH]; [reflexivity|]. simpl. exact IH. Qed.
Lemma map_size_keep : forall l, map n_size (map keep_used l) = map n_size l.
Proof. intros. rewrite map_map. reflexivity. Qed.
Lemma map_size_wipe : forall l, map n_size (map wipe l) = map n_size l.
Proof. intros. rewrite map_map. reflexivity. Qed.

Lemma sizes_ok_keep : forall sizes bt st, sizes_ok sizes bt st -> sizes_ok sizes bt (with_cache st (map keep_used (s_cache st))).
Proof.
  intros sizes bt st H. eapply sizes_ok_same_blocks; [| |exact H]; [reflexivity|]. cbn [with_cache s_cache]. intros nd' Hn.
  apply in_map_iff in Hn. destruct Hn as [nd [E Hn]]. subst nd'. exists nd. split; [exact Hn|]. split; [reflexivity|].
  cbn [keep_used n_free n_used]. intros b Hb. apply in_app_iff. right. exact Hb.
Qed.
Lemma sizes_ok_wipe : forall sizes bt st,
  sizes_ok sizes bt {| s_cache := map wipe (s_cache st); s_non := []; s_warned := s_warned st; s_next := s_next st |}.
Proof.
  intros sizes bt st. split; [|split].
  - cbn [s_cache]. intros nd' b Hn Hb. apply in_map_iff in Hn. destruct Hn as [nd [E Hn]]. subst nd'. destruct Hb.
  - intros b [].
  - intros _ b Hb. apply in_all_blocks_of in Hb. cbn [s_cache s_non] in Hb. destruct Hb as [[nd' [Hn Hb]]|[]].
    apply in_map_iff in Hn. destruct Hn as [nd [E Hn]]. subst nd'. destruct Hb.
Qed.

Lemma nodes_in_classes : forall st nd, map n_size (s_cache st) = class_sizes -> In nd (s_cache st) -> In (n_size nd) class_sizes.
Proof. intros st nd H Hn. rewrite <- H. apply in_map. exact Hn. Qed.

(* clearCache of the innermost cache *)
Lemma u_clear_cc_ok : forall c rest up live bk base stk' evs w,
  OK (c :: rest) up live bk base -> u_clear clear_cache (c :: rest) = (stk', evs, w) ->
  w = false /\ exists freed' r',
    stk' = set_st c (with_cache (g_st c) (map keep_used (s_cache (g_st c)))) :: r' /\
    apply_evs 0 [] bk evs = Some (fst bk, freed') /\ OK stk' up live (fst bk, freed') base /\
    map g_ser r' = map g_ser rest /\ warned_of r' = warned_of rest /\ length r' = length rest.
Proof.
  intros c rest up live bk base stk' evs w H E. unfold u_clear in E. rewrite clear_cache_eq in E. cbn [o_evs mk_out o_warn] in E.
  pose proof H as Hall. simpl in H. destruct H as [H1 [H2 [H3 H4]]].
  assert (P : Permutation (ids_loc (g_st c)) (gone_loc n_free (s_cache (g_st c)) ++ gone_loc n_used (s_cache (g_st c)) ++ blks_loc None (s_non (g_st c)))).
  { unfold ids_loc. rewrite app_assoc. apply Permutation_app_tail. apply gone_split. reflexivity. }
  apply (OK_perm _ _ _ _ _ _ P) in H4.
  assert (Hnew : forall r' bk', OK r' (gone_loc n_used (s_cache (g_st c)) ++ blks_loc None (s_non (g_st c))) live bk' base ->
                 fst bk' = fst bk -> is_nil r' = is_nil rest ->
                 OK (set_st c (with_cache (g_st c) (map keep_used (s_cache (g_st c)))) :: r') up live bk' base).
  { intros r' bk' O Eb En. cbn [OK set_st g_st g_ser with_cache s_cache s_non]. split; [|split; [|split]].
    - rewrite map_size_keep. exact H1.
    - rewrite Eb, En. apply sizes_ok_keep. exact H2.
    - unfold out_loc in *. cbn [with_cache s_cache s_non]. rewrite keep_used_out. exact H3.
    - unfold ids_loc. cbn [with_cache s_cache s_non]. rewrite keep_used_loc. exact O. }
  destruct rest as [|c' r].
  - destruct (nodes_rec (s_cache (g_st c)) n_free _ live bk base 0 H4) as [R1 [fr [A1 O1]]].
    { destruct H2 as [S1 [_ S3]]. intros nd b Hn Hb. split.
      - apply S3; [reflexivity|]. apply in_all_blocks_of. left. exists nd. split; [exact Hn | apply in_app_iff; left; exact Hb].
      - apply S1; [exact Hn | apply in_app_iff; left; exact Hb]. }
    unfold gone_evs in R1. cbn [length] in E. rewrite R1 in E. inversion E; subst stk' evs w. clear E.
    split; [reflexivity|]. exists fr, [].
    split; [reflexivity|]. split; [exact A1|]. split; [|auto]. apply Hnew; [exact O1 | reflexivity | reflexivity].
  - destruct (nodes_cached (s_cache (g_st c)) n_free (length r) c' r _ live bk base H4) as [st1 [F1 [W1 O1]]].
    { intros nd Hn. eapply nodes_in_classes; eauto. }
    unfold gone_evs in F1. cbn [length] in E. rewrite F1 in E. inversion E; subst stk' evs w. clear E.
    split; [reflexivity|]. exists (snd bk), (set_st c' st1 :: r).
    assert (Ebk : (fst bk, snd bk) = bk) by (destruct bk; reflexivity). rewrite Ebk.
    split; [reflexivity|]. split; [reflexivity|]. split; [apply Hnew; [exact O1 | reflexivity | reflexivity]|].
    split; [reflexivity|]. split; [|reflexivity]. unfold warned_of. simpl. rewrite W1. reflexivity.
Qed.

(* clearAll of the innermost cache (also the destructor's) *)
Definition wiped (st : state) : state :=
  {| s_cache := map wipe (s_cache st); s_non := []; s_warned := s_warned st; s_next := s_next st |}.
Definition all_of (nd : node) : list block := n_free nd ++ n_used nd.
Lemma ids_loc_all : forall st, ids_loc st = gone_loc all_of (s_cache st) ++ blks_loc None (s_non st).
Proof.
  intros. unfold ids_loc, gone_loc. f_equal. apply flat_map_ext. intros nd. apply node_loc_eq.
Qed.

Lemma u_wipe_bottom : forall c up live bk base stk' evs w,
  OK [c] up live bk base -> u_clear clear_all [c] = (stk', evs, w) ->
  w = false /\ stk' = [set_st c (wiped (g_st c))] /\
  exists freed', apply_evs 0 [] bk evs = Some (fst bk, freed') /\ OK [] [] live (fst bk, freed') base.
Proof.
  intros c up live bk base stk' evs w H E. unfold u_clear in E. rewrite clear_all_eq in E. cbn [o_evs mk_out o_warn length] in E.
  simpl in H. destruct H as [H1 [H2 [H3 H4]]]. rewrite ids_loc_all in H4. destruct H2 as [S1 [S2 S3]].
  destruct (nodes_rec (s_cache (g_st c)) all_of _ live bk base 0 H4) as [R1 [fr1 [A1 O1]]].
  { intros nd b Hn Hb. split; [apply S3; [reflexivity | apply in_all_blocks_of; left; exists nd; auto] | apply S1; auto]. }
  rewrite <- (app_nil_r (blks_loc None (s_non (g_st c)))) in O1.
  destruct (replay_rec_list (s_non (g_st c)) None 0 [] live (fst bk, fr1) base 0 O1) as [R2 [fr2 [A2 O2]]].
  { cbn [fst]. intros b Hb. split; [apply S3; [reflexivity | apply in_all_blocks_of; right; exact Hb]|].
    destruct (S2 b Hb) as [a [Ha1 Ha2]]. exists a. split; [exact Ha2|]. unfold size_ok.
    replace (cached_bound <? a) with true by (symmetry; apply N.ltb_lt; exact Ha1). rewrite N.eqb_refl. apply orb_true_r. }
  cbn [fst snd] in *. unfold gone_evs, all_of in R1. rewrite replay_app, R1, R2 in E. inversion E; subst stk' evs w. clear E.
  split; [reflexivity|]. split; [reflexivity|]. exists fr2. split; [|exact O2].
  rewrite apply_evs_app. unfold gone_evs, all_of in A1. rewrite A1. exact A2.
Qed.

Lemma u_wipe_nested : forall c c' r up live bk base stk' evs w,
  OK (c :: c' :: r) up live bk base -> u_clear clear_all (c :: c' :: r) = (stk', evs, w) ->
  evs = [] /\ w = negb (is_nil (s_non (g_st c))) && negb (s_warned (g_st c')) /\
  exists st', stk' = set_st c (wiped (g_st c)) :: set_st c' st' :: r /\
              s_warned st' = s_warned (g_st c') || negb (is_nil (s_non (g_st c))) /\
              OK (set_st c' st' :: r) (non_loc (s_non (g_st c))) live bk base.
Proof.
  intros c c' r up live bk base stk' evs w H E. unfold u_clear in E. rewrite clear_all_eq in E. cbn [o_evs mk_out o_warn length] in E.
  simpl in H. destruct H as [H1 [H2 [H3 H4]]]. rewrite ids_loc_all in H4.
  destruct (nodes_cached (s_cache (g_st c)) all_of (length r) c' r _ live bk base H4) as [st1 [F1 [W1 O1]]].
  { intros nd Hn. eapply nodes_in_classes; eauto. }
  rewrite <- (app_nil_r (blks_loc None (s_non (g_st c)))) in O1.
  destruct (replay_zombies (s_non (g_st c)) (length r) (set_st c' st1) r [] live bk base O1) as [st2 [F2 [W2 O2]]].
  cbn [set_st g_st g_ser] in *. rewrite app_nil_r in O2.
  unfold gone_evs, all_of in F1. rewrite replay_app, F1 in E. unfold set_st in *. cbn [g_st g_ser] in *. rewrite F2 in E.
  inversion E; subst stk' evs w. clear E.
  split; [reflexivity|]. split; [rewrite W1; reflexivity|]. exists st2. split; [reflexivity|]. split; [rewrite W2, W1; reflexivity | exact O2].
Qed.
