(* C13 -- AtoI / AtoU: for every byte string in a terminated buffer the memory-checked model of the code returns Ok (no read
   past the terminator, no missing termination, no signed overflow when the digit string fits an int) and the value is the
   textbook one of C13_Text.v (t_atoi / t_atou: plain list functions, nothing of the model's loops). *)
From Coq Require Import NArith ZArith Bool List Lia ZifyBool.
From CppUVerif Require Import lib.Str C13_Text C13_Model C13_Proofs C13_Printable.
Import ListNotations.
Local Open Scope N_scope.

(* ---------------- the character predicates on bytes (char is signed: bytes >= 0x80 are negative, never blank or digit) *)
Lemma isSpace_byte c : c < 256 -> isSpace c = t_is_space c.
Proof. intro H. unfold isSpace, t_is_space, sc. destruct (c <? 128) eqn:E; lia. Qed.
Lemma isDigit_byte c : c < 256 -> isDigit c = t_is_digit c.
Proof. intro H. unfold isDigit, t_is_digit, sc. destruct (c <? 128) eqn:E; lia. Qed.
Lemma isDigit_ge0 c : c < 256 -> isDigit c = true -> (48 <=? sc c)%Z = true.
Proof. intros H D. unfold isDigit in D. lia. Qed.

Lemma BY_drop_space s : BY s -> BY (t_drop_space s).
Proof. induction s as [|c s IH]; intro B; cbn; [constructor|]. inversion B; subst. destruct (t_is_space c); auto. Qed.
Lemma BY_tl c s : BY (c :: s) -> BY s.
Proof. intro B. inversion B; assumption. Qed.

(* ---------------- while (isSpace( *str)) str++ : stops at the terminator at the latest *)
Lemma skip_space_ok s r : BY s -> skip_space (s ++ 0 :: r) = Ok (t_drop_space s ++ 0 :: r).
Proof.
  induction s as [|c s IH]; intro B.
  - reflexivity.
  - inversion B; subst. cbn [app skip_space t_drop_space]. rewrite isSpace_byte by assumption.
    destruct (t_is_space c); [apply IH; assumption | reflexivity].
Qed.

(* ---------------- decimal value of a digit run *)
Definition dstep (acc : Z) (c : N) : Z := (acc * 10 + (Z.of_N c - 48))%Z.
Lemma dec_value_fold ds : t_dec_value ds = fold_left dstep ds 0%Z.
Proof. reflexivity. Qed.
Lemma digits_all u : Forall (fun c => t_is_digit c = true) (t_digits u).
Proof. induction u as [|c u IH]; cbn; [constructor|]. destruct (t_is_digit c) eqn:D; constructor; assumption. Qed.
Lemma fold_dstep_ge ds : Forall (fun c => t_is_digit c = true) ds -> forall acc, (0 <= acc)%Z -> (acc <= fold_left dstep ds acc)%Z.
Proof.
  induction 1 as [|c ds D _ IH]; intros acc A; cbn [fold_left]; [lia|].
  assert (acc <= dstep acc c)%Z by (unfold dstep, t_is_digit in *; lia).
  specialize (IH (dstep acc c)). lia.
Qed.
Lemma fold_dstep_bound ds : Forall (fun c => t_is_digit c = true) ds -> forall acc, (0 <= acc)%Z ->
  (fold_left dstep ds acc < (acc + 1) * 10 ^ Z.of_nat (length ds))%Z.
Proof.
  induction 1 as [|c ds D _ IH]; intros acc A; cbn [fold_left length].
  - cbn. lia.
  - rewrite Nat2Z.inj_succ, Z.pow_succ_r by lia.
    assert (S1 : (0 <= dstep acc c)%Z) by (unfold dstep, t_is_digit in *; lia).
    specialize (IH (dstep acc c) S1).
    assert (S2 : (dstep acc c + 1 <= (acc + 1) * 10)%Z) by (unfold dstep, t_is_digit in *; lia).
    assert (P : (0 < 10 ^ Z.of_nat (length ds))%Z) by (apply Z.pow_pos_nonneg; lia).
    nia.
Qed.
(* every run of at most 9 digits fits an int (and an unsigned) *)
Lemma nine_digits_fit ds : Forall (fun c => t_is_digit c = true) ds -> (length ds <= 9)%nat -> (t_dec_value ds <= 999999999)%Z.
Proof.
  intros F L. rewrite dec_value_fold. pose proof (fold_dstep_bound ds F 0%Z ltac:(lia)) as Bd.
  assert ((10 ^ Z.of_nat (length ds) <= 10 ^ 9)%Z) by (apply Z.pow_le_mono_r; lia).
  change (10 ^ 9)%Z with 1000000000%Z in *. lia.
Qed.

(* ---------------- for (; isDigit( *str); str++) { result *= 10; result += *str - '0'; } on int: no overflow when the value fits *)
Lemma atoi_loop_ok u r : BY u -> forall acc, (0 <= acc)%Z -> (fold_left dstep (t_digits u) acc <= INT_MAX)%Z ->
  atoi_loop (u ++ 0 :: r) acc = Ok (fold_left dstep (t_digits u) acc).
Proof.
  intro B. induction u as [|c u IH]; intros acc A L.
  - reflexivity.
  - inversion B; subst. cbn [app atoi_loop t_digits] in *. rewrite isDigit_byte by assumption.
    destruct (t_is_digit c) eqn:D; [|reflexivity]. cbn [fold_left] in *. fold (dstep acc c).
    assert (S1 : (0 <= dstep acc c)%Z) by (unfold dstep, t_is_digit in *; lia).
    pose proof (fold_dstep_ge (t_digits u) (digits_all u) (dstep acc c) S1) as G.
    replace (INT_MAX <? dstep acc c)%Z with false by lia. apply IH; assumption.
Qed.

(* ---------------- the same loop on unsigned: arithmetic modulo 2^32 *)
Definition dstepm (acc : Z) (c : N) : Z := (dstep acc c mod UINT_MOD)%Z.
Lemma atou_loop_ok u r : BY u -> forall acc, atou_loop (u ++ 0 :: r) acc = Ok (fold_left dstepm (t_digits u) acc).
Proof.
  intro B. induction u as [|c u IH]; intro acc.
  - reflexivity.
  - inversion B; subst. cbn [app atou_loop t_digits]. destruct (isDigit c) eqn:D.
    + rewrite (isDigit_ge0 c) by assumption. cbn [andb]. rewrite isDigit_byte in D by assumption. rewrite D.
      cbn [fold_left]. apply IH. assumption.
    + cbn [andb]. rewrite isDigit_byte in D by assumption. rewrite D. reflexivity.
Qed.
Lemma fold_dstepm ds : forall acc, fold_left dstepm ds (acc mod UINT_MOD)%Z = (fold_left dstep ds acc mod UINT_MOD)%Z.
Proof.
  induction ds as [|c ds IH]; intro acc; cbn [fold_left]; [reflexivity|].
  rewrite <- IH. f_equal. unfold dstepm, dstep, UINT_MOD.
  rewrite (Z.add_mod (acc mod 4294967296 * 10)), (Z.add_mod (acc * 10)) by lia.
  rewrite (Z.mul_mod (acc mod 4294967296)), (Z.mul_mod acc) by lia. rewrite Z.mod_mod by lia. reflexivity.
Qed.

(* ---------------- the sign dispatch of the textbook function, as tests on the first character *)
Ltac sign_split c := destruct c as [|c]; [reflexivity|]; do 7 (try (destruct c as [c|c|]; try reflexivity)).
Lemma t_atoi_cases s :
  t_atoi s = match t_drop_space s with
             | [] => 0%Z
             | c :: r => if c =? 45 then (- t_dec_value (t_digits r))%Z else if c =? 43 then t_dec_value (t_digits r)
                         else t_dec_value (t_digits (c :: r)) end.
Proof. unfold t_atoi. destruct (t_drop_space s) as [|c r]; [reflexivity|]. sign_split c. Qed.
Lemma t_atoi_digits_cases s :
  t_atoi_digits s = match t_drop_space s with
                    | [] => []
                    | c :: r => if (c =? 45) || (c =? 43) then t_digits r else t_digits (c :: r) end.
Proof. unfold t_atoi_digits. destruct (t_drop_space s) as [|c r]; [reflexivity|]. sign_split c. Qed.

(* ---------------- AtoI *)
Lemma AtoI_ok s r : BY s -> (t_dec_value (t_atoi_digits s) <= 2147483647)%Z -> AtoI (s ++ 0 :: r) = Ok (t_atoi s).
Proof.
  intros B L. unfold AtoI. rewrite skip_space_ok by exact B. cbn [bind].
  rewrite t_atoi_cases. rewrite t_atoi_digits_cases in L. pose proof (BY_drop_space s B) as Bt.
  destruct (t_drop_space s) as [|c t].
  - reflexivity.
  - cbn [app rd bind]. rewrite dec_value_fold in L. destruct ((c =? 45) || (c =? 43)) eqn:Sg.
    + change (c :: t ++ 0 :: r) with ((c :: t) ++ 0 :: r). rewrite adv_cs by (cbn; lia). cbn [skipn bind].
      rewrite atoi_loop_ok; [| exact (BY_tl c t Bt) | lia | exact L]. cbn [bind]. rewrite <- dec_value_fold.
      destruct (c =? 45) eqn:M; [reflexivity|]. cbn [orb] in Sg. rewrite Sg. reflexivity.
    + cbn [bind]. change (c :: t ++ 0 :: r) with ((c :: t) ++ 0 :: r).
      rewrite atoi_loop_ok; [| exact Bt | lia | exact L]. cbn [bind]. rewrite <- dec_value_fold.
      apply orb_false_iff in Sg. destruct Sg as [M P]. rewrite M, P. reflexivity.
Qed.
Lemma t_atoi_digits_all s : Forall (fun c => t_is_digit c = true) (t_atoi_digits s).
Proof.
  rewrite t_atoi_digits_cases. destruct (t_drop_space s) as [|c r]; [constructor|].
  destruct ((c =? 45) || (c =? 43)); apply digits_all.
Qed.
Lemma AtoI_ok_9 s r : BY s -> (length (t_atoi_digits s) <= 9)%nat -> AtoI (s ++ 0 :: r) = Ok (t_atoi s).
Proof.
  intros B L. apply AtoI_ok; [exact B|]. pose proof (nine_digits_fit _ (t_atoi_digits_all s) L). lia.
Qed.
(* the precondition is the contract: one more and the int arithmetic of the code overflows *)
Lemma AtoI_overflow_ub : AtoI (cs [50;49;52;55;52;56;51;54;52;56]) = Ub.     (* "2147483648" *)
Proof. vm_compute. reflexivity. Qed.

(* ---------------- AtoU: every string (unsigned arithmetic wraps); no sign is read *)
Lemma AtoU_ok s r : BY s -> AtoU (s ++ 0 :: r) = Ok (t_atou s).
Proof.
  intro B. unfold AtoU, t_atou. rewrite skip_space_ok by exact B. cbn [bind].
  rewrite atou_loop_ok by (apply BY_drop_space; exact B). f_equal.
  change 0%Z with (0 mod UINT_MOD)%Z at 1. rewrite fold_dstepm. reflexivity.
Qed.
Lemma t_atou_fits s : t_fits_unsigned s = true -> t_atou s = t_dec_value (t_atou_digits s).
Proof.
  unfold t_fits_unsigned, t_atou, t_atou_digits. intro F. apply Z.mod_small. split; [|lia].
  rewrite dec_value_fold. pose proof (fold_dstep_ge _ (digits_all (t_drop_space s)) 0%Z ltac:(lia)). lia.
Qed.

(* ---------------- hypotheses are satisfiable; boundary instances *)
Example AtoI_ex1 : AtoI (cs [32; 9; 45; 52; 50; 97]) = Ok (-42)%Z.                 (* " \t-42a" *)
Proof. apply (AtoI_ok [32; 9; 45; 52; 50; 97] []); [repeat constructor | vm_compute; discriminate]. Qed.
Example AtoI_ex2 : AtoI (cs [50;49;52;55;52;56;51;54;52;55]) = Ok 2147483647%Z.
Proof. apply (AtoI_ok [50;49;52;55;52;56;51;54;52;55] []); [repeat constructor | vm_compute; discriminate]. Qed.
Example AtoI_ex3 : AtoI (cs [43; 45; 53]) = Ok 0%Z.                                 (* "+-5": one sign only *)
Proof. apply (AtoI_ok_9 [43; 45; 53] []); [repeat constructor | vm_compute; lia]. Qed.
Example AtoU_ex1 : AtoU (cs [13; 52; 50; 57; 52; 57; 54; 55; 50; 57; 54]) = Ok 0%Z.  (* "\r4294967296" wraps *)
Proof. apply (AtoU_ok [13; 52; 50; 57; 52; 57; 54; 55; 50; 57; 54] []). repeat constructor. Qed.
Example AtoU_ex2 : AtoU (cs [45; 53]) = Ok 0%Z.                                     (* "-5": no sign handling *)
Proof. apply (AtoU_ok [45; 53] []). repeat constructor. Qed.
