(* C08: the candidate list of an actual call, MockCheckedActualCall::potentiallyMatchingExpectations_, is a MockExpectedCallsList
   EMBEDDED in the call object: its head_ cell is cell 6 of the 9-cell call block, not a block of its own.  C08_ListRep.v states
   the list functions for a list object that is a whole 1-cell block (`mlist0_at`: hblock h lb = [VPtr hd], this = HPtr lb 0).
   Route taken here (the cheapest sound one found): the LOOP lemmas of C08_ListRep.v (Gkeep_spec, unmatching_loop_spec, Ghas_spec,
   getFirst_loop_spec, Gremove_spec, Gtell_spec, zero_marks_spec, ...) speak about the chain of nodes only and are reused as they
   are; what mentions the head cell -- the loop of pruneEmptyNodeFromList and the few lines around each loop -- is proved again
   for a head cell at ANY cell k of ANY block lb (`glist0_at`), with the additional conclusion that the other cells of that block
   are not written (hblock h' lb = upd (hblock h lb) k (VPtr hd')).  Only the 15 list functions an actual call uses are redone.
   Second half: the same functions against the model's list operations (C08_Model.v) with the oracle answers the model's
   expectations give; unlike C08_ListTie.v the answer stream here holds EXACTLY the answers of the questions asked (a search that
   stops at the first yes does not leave the unasked candidates' answers in the stream), so that the steps of an actual call can be
   composed (C08_CallTie.v). *)
From Coq Require Import String.
From Coq Require Import ZArith NArith Bool List Lia.
From CppUVerif Require Import lib.CSem lib.CMem lib.CMemFacts lib.CHeap gen.Gen_HeapC08L C08_Model C08_ListRep C08_ListTie.
Import ListNotations.
Local Open Scope Z_scope.

(* ================================================================== A. a list whose head cell is cell k of block lb *)
Definition ghead (h : heap) (lb k : nat) (hd : hptr) : Prop := nth_error (hblock h lb) k = Some (VPtr hd).
Definition gthis (lb k : nat) : hptr := HPtr lb (Z.of_nat k).
Definition glist0_at (h : heap) (lb k : nat) (ids : list Z) (nodes : list nat) : Prop :=
  exists hd, ghead h lb k hd /\ mchain h hd nodes ids /\ NoDup nodes /\ ~ In lb nodes.
Definition glist_at (h : heap) (lb k : nat) (ids : list Z) (nodes : list nat) : Prop :=
  glist0_at h lb k ids nodes /\ Forall (fun z => z <> 0) ids.
(* what a list function may change outside the nodes: the head cell *)
Definition head_only (h h' : heap) (lb k : nat) : Prop := exists hd', hblock h' lb = upd (hblock h lb) k (VPtr hd').

(* the lists of C08_ListRep.v are the case k = 0 of a 1-cell block *)
Lemma mlist0_is_glist0 h lb ids nodes : mlist0_at h lb ids nodes -> glist0_at h lb 0 ids nodes.
Proof. intros [hd [Hl H]]. exists hd. split; [unfold ghead; rewrite Hl; reflexivity | exact H]. Qed.

Lemma ghead_load h lb k hd : ghead h lb k hd -> hload_ptr h (gthis lb k) = Some hd.
Proof. intro H. unfold hload_ptr, gthis. rewrite hload_cell. unfold cell. rewrite H. reflexivity. Qed.
Lemma ghead_lt h lb k hd : ghead h lb k hd -> (k < length (hblock h lb))%nat.
Proof. intro H. apply nth_error_Some. rewrite H. discriminate. Qed.
Lemma ghead_store h lb k hd q : ghead h lb k hd -> hstore h (gthis lb k) (VPtr q) = Some (upd h lb (upd (hblock h lb) k (VPtr q))).
Proof. intro H. exact (hstore_at h lb k (VPtr q) (hblock h lb) eq_refl (ghead_lt h lb k hd H)). Qed.
Lemma head_only_refl h lb k hd : ghead h lb k hd -> head_only h h lb k.
Proof. intro H. exists hd. symmetry. apply upd_same_id. exact H. Qed.
Lemma head_only_trans h1 h2 h3 lb k : head_only h1 h2 lb k -> head_only h2 h3 lb k -> head_only h1 h3 lb k.
Proof. intros [a Ha] [b Hb]. exists b. rewrite Hb, Ha. apply upd_upd. Qed.
Lemma glist0_lb_lt h lb k ids nodes : glist0_at h lb k ids nodes -> (lb < length h)%nat.
Proof. intros [hd [Hl _]]. apply hblock_lt. intro E. unfold ghead in Hl. rewrite E in Hl. destruct k; discriminate Hl. Qed.

(* ------------------------------------------------------------------ pruneEmptyNodeFromList, head cell anywhere *)
Definition glink_ok (h : heap) (lb k : nat) (prev : hptr) (lkb lki : nat) : Prop :=
  (prev = HNull /\ lkb = lb /\ lki = k) \/
  (prev = HPtr lkb 0 /\ lki = 1%nat /\ length (hblock h lkb) = 2%nat).

Lemma gprune_loop_spec fuel0 lb k answers : forall ids bs h p prev lkb lki evs tbd fuel,
  mchain h p bs ids -> NoDup bs -> ~ In lkb bs -> glink_ok h lb k prev lkb lki ->
  nth_error (hblock h lkb) lki = Some (VPtr p) -> (length ids < fuel)%nat ->
  exists h' p' prev' tbd',
    src_mlist_pruneEmptyNodeFromList_loop1 fuel0 fuel (gthis lb k) h evs answers p prev tbd =
      Go (h', evs ++ map (fun b => LDelete (HPtr b 0)) (dead_nodes ids bs), answers, HNull, prev', tbd') /\
    mchain h' p' (live_nodes ids bs) (live_ids ids) /\
    hblock h' lkb = upd (hblock h lkb) lki (VPtr p') /\
    (forall b, b <> lkb -> ~ In b (live_nodes ids bs) -> hblock h' b = hblock h b) /\
    (forall b, In b bs -> nth_error (hblock h' b) 0 = nth_error (hblock h b) 0) /\
    length h' = length h.
Proof.
  induction ids as [|id ids IH]; intros bs h p prev lkb lki evs tbd fuel Hc Hnd Hlk Hok Hcell Hf.
  - apply mchain_nil_inv in Hc. destruct Hc as [-> ->]. destruct fuel as [|fuel]; [cbn [length] in Hf; lia|].
    cbn [src_mlist_pruneEmptyNodeFromList_loop1]. rewrite z2b_false_null.
    exists h, HNull, prev, tbd. cbn [dead_nodes live_nodes live_ids filter map]. rewrite app_nil_r.
    split; [reflexivity|]. split; [reflexivity|]. split; [symmetry; apply upd_same_id; exact Hcell|].
    split; [intros; reflexivity|]. split; [intros b []|reflexivity].
  - apply mchain_cons_inv in Hc. destruct Hc as [b [bs' [nxt [-> [-> [Hb Hc]]]]]].
    destruct fuel as [|fuel]; [cbn [length] in Hf; lia|]. cbn [length] in Hf.
    inversion Hnd as [|? ? Hnb Hnd']; subst.
    assert (Hlb : lkb <> b) by (intro E; apply Hlk; left; symmetry; exact E).
    assert (Hlk' : ~ In lkb bs') by (intro E; apply Hlk; right; exact E).
    cbn [src_mlist_pruneEmptyNodeFromList_loop1]. rewrite z2b_true_ptr, (mnode_id h b id nxt Hb), z2b_ceq0.
    cbn [dead_nodes live_nodes live_ids filter].
    destruct (id =? 0) eqn:Ez; cbn [negb].
    + cbv zeta. rewrite (mnode_padd h b id nxt Hb), (mnode_next h b id nxt Hb).
      assert (Hlen : (lki < length (hblock h lkb))%nat) by (apply nth_error_Some; rewrite Hcell; discriminate).
      assert (Hlt : (lkb < length h)%nat) by (apply hblock_lt; intro E; rewrite E in Hlen; cbn in Hlen; lia).
      set (h1 := upd h lkb (upd (hblock h lkb) lki (VPtr nxt))).
      assert (Hst : (if z2b (hp_eq prev HNull)
                     then match hstore h (gthis lb k) (VPtr nxt) with None => Oob | Some mem => Go (mem, nxt) end
                     else match hpadd h prev 1 with None => Oob | Some q7 =>
                          match hstore h q7 (VPtr nxt) with None => Oob | Some mem => Go (mem, nxt) end end)
                    = (Go (h1, nxt) : cres (unit * heap * list lev * list Z) (heap * hptr))).
      { destruct Hok as [[-> [-> ->]] | [-> [-> Hl2]]].
        - change (z2b (hp_eq HNull HNull)) with true. cbv iota. unfold gthis.
          rewrite (hstore_at h lb k (VPtr nxt) (hblock h lb) eq_refl Hlen). reflexivity.
        - change (z2b (hp_eq (HPtr lkb 0) HNull)) with false. cbv iota.
          assert (Hpa : hpadd h (HPtr lkb 0) 1 = Some (HPtr lkb 1)).
          { unfold hpadd. rewrite Hl2. reflexivity. }
          rewrite Hpa. rewrite (hstore_at1 h lkb (VPtr nxt) (hblock h lkb) eq_refl Hlen). reflexivity. }
      assert (Hb1 : forall b', b' <> lkb -> hblock h1 b' = hblock h b').
      { intros b' Hne. unfold h1. apply hblock_upd_other. intro E. apply Hne. symmetry. exact E. }
      assert (Hl1 : hblock h1 lkb = upd (hblock h lkb) lki (VPtr nxt)) by (unfold h1; apply hblock_upd_same; exact Hlt).
      assert (Hc1 : mchain h1 nxt bs' ids).
      { apply (mchain_frame h h1); [|exact Hc]. intros b' Hin. apply Hb1. intro E. subst b'. contradiction. }
      assert (Hok1 : glink_ok h1 lb k prev lkb lki).
      { destruct Hok as [[Hp [Hq Hr]] | [Hp [Hr Hl]]]; [left | right]; repeat split; try assumption.
        rewrite Hl1, upd_length; exact Hl. }
      assert (Hcell1 : nth_error (hblock h1 lkb) lki = Some (VPtr nxt)).
      { rewrite Hl1. apply nth_error_upd_same. exact Hlen. }
      destruct (IH bs' h1 nxt prev lkb lki (evs ++ [LDelete (HPtr b 0)]) (HPtr b 0) fuel Hc1 Hnd' Hlk' Hok1 Hcell1 ltac:(lia))
        as [h' [p' [prev' [tbd' [Hrun [Hc' [Hl' [Hfr [Hc0 Hlen']]]]]]]]].
      exists h', p', prev', tbd'.
      split.
      { destruct Hok as [[-> [-> ->]] | [-> [-> Hl2]]].
        - change (z2b (hp_eq HNull HNull)) with true in Hst |- *. cbv iota in Hst |- *.
          destruct (hstore h (gthis lb k) (VPtr nxt)) as [m|]; [|discriminate Hst]. inversion Hst; subst m.
          rewrite Hrun. cbn [map]. rewrite <- app_assoc. reflexivity.
        - change (z2b (hp_eq (HPtr lkb 0) HNull)) with false in Hst |- *. cbv iota in Hst |- *.
          destruct (hpadd h (HPtr lkb 0) 1) as [q7|]; [|discriminate Hst].
          destruct (hstore h q7 (VPtr nxt)) as [m|]; [|discriminate Hst]. inversion Hst; subst m.
          rewrite Hrun. cbn [map]. rewrite <- app_assoc. reflexivity. }
      split; [exact Hc'|].
      split; [rewrite Hl', Hl1; apply upd_upd|].
      split; [intros b' Hne Hnin; rewrite (Hfr b' Hne Hnin); apply Hb1; exact Hne|].
      split.
      { intros b' [<-|Hin].
        - rewrite (Hfr b); [rewrite Hb1; [reflexivity|] |  |].
          + intro E; apply Hlb; symmetry; exact E.
          + intro E; apply Hlb; symmetry; exact E.
          + intro Hin. apply Hnb. exact (live_nodes_in _ _ _ Hin).
        - rewrite (Hc0 b' Hin). rewrite Hb1; [reflexivity|]. intro E. subst b'. contradiction. }
      rewrite Hlen'. unfold h1. apply heap_upd_length.
    + cbv zeta. rewrite (mnode_padd h b id nxt Hb), (mnode_next h b id nxt Hb).
      assert (Hokb : glink_ok h lb k (HPtr b 0) b 1%nat) by (right; repeat split; rewrite Hb; reflexivity).
      assert (Hcellb : nth_error (hblock h b) 1 = Some (VPtr nxt)) by (rewrite Hb; reflexivity).
      destruct (IH bs' h nxt (HPtr b 0) b 1%nat evs tbd fuel Hc Hnd' Hnb Hokb Hcellb ltac:(lia))
        as [h' [p' [prev' [tbd' [Hrun [Hc' [Hl' [Hfr [Hc0 Hlen']]]]]]]]].
      exists h', (HPtr b 0), prev', tbd'.
      split; [exact Hrun|].
      split.
      { cbn [mchain]. split; [reflexivity|]. exists p'. split; [rewrite Hl', Hb; reflexivity | exact Hc']. }
      split.
      { rewrite (Hfr lkb Hlb); [symmetry; apply upd_same_id; exact Hcell|].
        intro Hin. apply Hlk'. exact (live_nodes_in _ _ _ Hin). }
      split.
      { intros b' Hne Hnin. apply Hfr.
        - intro E. apply Hnin. left. symmetry. exact E.
        - intro Hin. apply Hnin. right. exact Hin. }
      split; [|exact Hlen'].
      intros b' [<-|Hin]; [rewrite Hl', Hb; reflexivity | exact (Hc0 b' Hin)].
Qed.

Theorem gprune_spec : forall fuel h lb k ids nodes evs answers,
  glist0_at h lb k ids nodes -> (length ids < fuel)%nat ->
  exists h',
    src_mlist_pruneEmptyNodeFromList fuel h evs answers (gthis lb k) =
      FOk (tt, h', evs ++ map (fun b => LDelete (HPtr b 0)) (dead_nodes ids nodes), answers) /\
    glist_at h' lb k (live_ids ids) (live_nodes ids nodes) /\
    length h' = length h /\ head_only h h' lb k /\
    (forall b, b <> lb -> ~ In b (live_nodes ids nodes) -> hblock h' b = hblock h b).
Proof.
  intros fuel h lb k ids nodes evs answers [hd [Hl [Hc [Hnd Hnin]]]] Hf.
  assert (Hok : glink_ok h lb k HNull lb k) by (left; repeat split).
  destruct (gprune_loop_spec fuel lb k answers ids nodes h hd HNull lb k evs HNull fuel Hc Hnd Hnin Hok Hl Hf)
    as [h' [p' [prev' [tbd' [Hrun [Hc' [Hl' [Hfr [Hc0 Hlen']]]]]]]]].
  exists h'. split.
  { unfold src_mlist_pruneEmptyNodeFromList. rewrite (ghead_load h lb k hd Hl). cbv zeta. rewrite Hrun. reflexivity. }
  split.
  { split; [|apply live_ids_nonzero]. exists p'. split.
    - unfold ghead. rewrite Hl'. apply nth_error_upd_same. exact (ghead_lt h lb k hd Hl).
    - split; [exact Hc'|]. split; [apply live_nodes_NoDup; exact Hnd|]. intro Hin. apply Hnin. exact (live_nodes_in _ _ _ Hin). }
  split; [exact Hlen'|]. split; [exists p'; exact Hl' | exact Hfr].
Qed.

(* emptying the flagged nodes and pruning *)
Lemma gmark_prune : forall fuel h lb k ids nodes drops evs answers, glist_at h lb k ids nodes -> (length ids < fuel)%nat ->
  exists h',
    src_mlist_pruneEmptyNodeFromList fuel (zero_marks h nodes drops) evs answers (gthis lb k) =
      FOk (tt, h', evs ++ map (fun b => LDelete (HPtr b 0)) (drop_by nodes drops), answers) /\
    glist_at h' lb k (keep_by ids drops) (keep_by nodes drops) /\ length h' = length h /\ head_only h h' lb k /\
    (forall b, b <> lb -> ~ In b nodes -> hblock h' b = hblock h b).
Proof.
  intros fuel h lb k ids nodes drops evs answers [[hd [Hl [Hc [Hnd Hnin]]]] Hnz] Hf.
  destruct (zero_marks_spec drops ids nodes h hd Hc Hnd) as [Hc1 [Hfr1 Hlen1]].
  assert (H0 : glist0_at (zero_marks h nodes drops) lb k (zeroed ids drops) nodes).
  { exists hd. split; [unfold ghead; rewrite (Hfr1 lb Hnin); exact Hl|]. split; [exact Hc1|]. split; assumption. }
  destruct (gprune_spec fuel _ lb k _ nodes evs answers H0) as [h' [Hrun [Hrep [Hlen [Hho Hfr]]]]].
  { rewrite zeroed_length. exact Hf. }
  destruct (live_nodes_zeroed drops ids nodes Hnz (mchain_length _ _ _ _ Hc)) as [E1 E2].
  rewrite (live_ids_zeroed drops ids Hnz), E1 in Hrep. rewrite E2 in Hrun. rewrite E1 in Hfr.
  exists h'. split; [exact Hrun|]. split; [exact Hrep|]. split; [rewrite Hlen; exact Hlen1|].
  split; [destruct Hho as [q Hq]; exists q; rewrite Hq, (Hfr1 lb Hnin); reflexivity|].
  intros b Hne Hnb. rewrite Hfr; [apply Hfr1; exact Hnb | exact Hne|]. intro Hin. apply Hnb. exact (keep_by_in _ _ _ Hin).
Qed.

(* ------------------------------------------------------------------ the functions around the loops *)
(* what a list function guarantees about the rest of the heap *)
Definition gframe (h h' : heap) (lb k : nat) (nodes : list nat) : Prop :=
  length h' = length h /\ head_only h h' lb k /\ (forall b, b <> lb -> ~ In b nodes -> hblock h' b = hblock h b).
Lemma gframe_refl h lb k hd nodes : ghead h lb k hd -> gframe h h lb k nodes.
Proof. intro H. split; [reflexivity|]. split; [exact (head_only_refl h lb k hd H) | intros; reflexivity]. Qed.

(* the four onlyKeep... passes of an actual call that ask one question *)
Lemma gkeepF : forall mk fuel h lb k ids nodes evs answers, glist_at h lb k ids nodes -> (length ids < fuel)%nat ->
  (length ids <= length answers)%nat ->
  let drops := map drops_zero answers in
  exists h',
    GkeepF mk fuel h evs answers (gthis lb k) =
      FOk (tt, h', evs ++ zipw mk ids answers ++ map (fun b => LDelete (HPtr b 0)) (drop_by nodes drops), skipn (length ids) answers) /\
    glist_at h' lb k (keep_by ids drops) (keep_by nodes drops) /\ gframe h h' lb k nodes.
Proof.
  intros mk fuel h lb k ids nodes evs answers Hrep Hf L drops. pose proof Hrep as [[hd [Hl [Hc [Hnd Hnin]]]] Hnz].
  unfold GkeepF. rewrite (ghead_load h lb k hd Hl), (Gkeep_spec mk ids nodes h hd evs answers fuel Hc Hnd Hf).
  rewrite (proj2 (Nat.leb_le _ _) L).
  destruct (gmark_prune fuel h lb k ids nodes drops (evs ++ zipw mk ids answers) (skipn (length ids) answers) Hrep Hf)
    as [h' [Hrun [Hrep' [Hlen [Hho Hfr]]]]].
  exists h'. unfold drops, drops_zero in *. rewrite Hrun. split; [rewrite <- app_assoc; reflexivity|]. split; [exact Hrep'|].
  split; [exact Hlen|]. split; [exact Hho | exact Hfr].
Qed.
Definition gkeeps (run : nat -> heap -> list lev -> list Z -> hptr -> fres (unit * heap * list lev * list Z)) (mk : Z -> Z -> lev) : Prop :=
  forall fuel h lb k ids nodes evs answers, glist_at h lb k ids nodes -> (length ids < fuel)%nat ->
  (length ids <= length answers)%nat ->
  let drops := map drops_zero answers in
  exists h',
    run fuel h evs answers (gthis lb k) =
      FOk (tt, h', evs ++ zipw mk ids answers ++ map (fun b => LDelete (HPtr b 0)) (drop_by nodes drops), skipn (length ids) answers) /\
    glist_at h' lb k (keep_by ids drops) (keep_by nodes drops) /\ gframe h h' lb k nodes.
Theorem gonlyKeepExpectationsRelatedTo name :
  gkeeps (fun fuel h evs answers this_ => src_mlist_onlyKeepExpectationsRelatedTo fuel h evs answers this_ name)
         (fun id a => LAskArg "relatesTo" id name a).
Proof.
  intros fuel h lb k ids nodes evs answers. unfold src_mlist_onlyKeepExpectationsRelatedTo. rewrite keep_loop_eq_RelatedTo.
  exact (gkeepF _ fuel h lb k ids nodes evs answers).
Qed.
Theorem gonlyKeepExpectationsWithInputParameter parameter :
  gkeeps (fun fuel h evs answers this_ => src_mlist_onlyKeepExpectationsWithInputParameter fuel h evs answers this_ parameter)
         (fun id a => LAskArg "hasInputParameter" id parameter a).
Proof.
  intros fuel h lb k ids nodes evs answers. unfold src_mlist_onlyKeepExpectationsWithInputParameter. rewrite keep_loop_eq_InputParameter.
  exact (gkeepF _ fuel h lb k ids nodes evs answers).
Qed.
Theorem gonlyKeepExpectationsWithOutputParameter parameter :
  gkeeps (fun fuel h evs answers this_ => src_mlist_onlyKeepExpectationsWithOutputParameter fuel h evs answers this_ parameter)
         (fun id a => LAskArg "hasOutputParameter" id parameter a).
Proof.
  intros fuel h lb k ids nodes evs answers. unfold src_mlist_onlyKeepExpectationsWithOutputParameter. rewrite keep_loop_eq_OutputParameter.
  exact (gkeepF _ fuel h lb k ids nodes evs answers).
Qed.
Theorem gonlyKeepExpectationsOnObject objectPtr :
  gkeeps (fun fuel h evs answers this_ => src_mlist_onlyKeepExpectationsOnObject fuel h evs answers this_ objectPtr)
         (fun id a => LAskArg "relatesToObject" id objectPtr a).
Proof.
  intros fuel h lb k ids nodes evs answers. unfold src_mlist_onlyKeepExpectationsOnObject. rewrite keep_loop_eq_OnObject.
  exact (gkeepF _ fuel h lb k ids nodes evs answers).
Qed.

(* onlyKeepUnmatchingExpectations *)
Theorem gonlyKeepUnmatchingExpectations : forall fuel h lb k ids nodes evs answers, glist_at h lb k ids nodes -> (length ids < fuel)%nat ->
  (length ids <= length answers)%nat ->
  let drops := map z2b answers in
  exists h',
    src_mlist_onlyKeepUnmatchingExpectations fuel h evs answers (gthis lb k) =
      FOk (tt, h', evs ++ unm_events ids answers ++ map (fun b => LDelete (HPtr b 0)) (drop_by nodes drops), skipn (length ids) answers) /\
    glist_at h' lb k (keep_by ids drops) (keep_by nodes drops) /\ gframe h h' lb k nodes.
Proof.
  intros fuel h lb k ids nodes evs answers Hrep Hf L drops. pose proof Hrep as [[hd [Hl [Hc [Hnd Hnin]]]] Hnz].
  unfold src_mlist_onlyKeepUnmatchingExpectations.
  rewrite (ghead_load h lb k hd Hl). cbv zeta. rewrite (unmatching_loop_spec fuel ids nodes h hd evs answers fuel Hc Hnd Hf).
  rewrite (proj2 (Nat.leb_le _ _) L).
  destruct (gmark_prune fuel h lb k ids nodes drops (evs ++ unm_events ids answers) (skipn (length ids) answers) Hrep Hf)
    as [h' [Hrun [Hrep' [Hlen [Hho Hfr]]]]].
  exists h'. unfold drops in *. rewrite Hrun. split; [rewrite <- app_assoc; reflexivity|]. split; [exact Hrep'|].
  split; [exact Hlen|]. split; [exact Hho | exact Hfr].
Qed.

(* the has... questions *)
Definition ghas (run : nat -> heap -> list lev -> list Z -> hptr -> fres (Z * heap * list lev * list Z)) (mk : Z -> Z -> lev) (t : Z -> bool) : Prop :=
  forall fuel h lb k ids nodes evs answers, glist0_at h lb k ids nodes -> (length ids < fuel)%nat ->
  let asks := asked t ids answers in
  existsb t asks = true \/ (length ids <= length answers)%nat ->
  run fuel h evs answers (gthis lb k) = FOk (b2z (existsb t asks), h, evs ++ zipw mk ids asks, skipn (length asks) answers).
Lemma ghasF mk test : ghas (GhasF mk test) mk (fun a => z2b (test a)).
Proof.
  intros fuel h lb k ids nodes evs answers [hd [Hl [Hc _]]] Hf asks. unfold GhasF.
  rewrite (ghead_load h lb k hd Hl), (Ghas_spec mk test ids nodes h hd evs answers fuel Hc Hf). fold asks.
  intros [E|L].
  - rewrite E. reflexivity.
  - destruct (existsb _ asks); [reflexivity|]. rewrite (proj2 (Nat.leb_le _ _) L). reflexivity.
Qed.
Theorem ghasFinalizedMatchingExpectations : ghas src_mlist_hasFinalizedMatchingExpectations (LAsk "isMatchingActualCallAndFinalized") yes.
Proof.
  intros fuel h lb k ids nodes evs answers. unfold src_mlist_hasFinalizedMatchingExpectations. rewrite has_loop_eq_Finalized.
  exact (ghasF _ _ fuel h lb k ids nodes evs answers).
Qed.
Theorem ghasUnmatchingExpectationsBecauseOfMissingParameters :
  ghas src_mlist_hasUnmatchingExpectationsBecauseOfMissingParameters (LAsk "areParametersMatchingActualCall") no.
Proof.
  intros fuel h lb k ids nodes evs answers. unfold src_mlist_hasUnmatchingExpectationsBecauseOfMissingParameters.
  rewrite has_loop_eq_MissingParameters. exact (ghasF _ _ fuel h lb k ids nodes evs answers).
Qed.

(* getFirstMatchingExpectation *)
Lemma first_id_none t : forall ids answers, existsb t (asked t ids answers) = false -> first_id t ids answers = 0.
Proof.
  induction ids as [|id ids IH]; intros [|a r] E; cbn in *; try reflexivity.
  destruct (t a) eqn:Ea; cbn in E; rewrite Ea in E; [discriminate E|]. apply IH. exact E.
Qed.
Theorem ggetFirstMatchingExpectation : forall fuel h lb k ids nodes evs answers,
  glist0_at h lb k ids nodes -> (length ids < fuel)%nat ->
  let asks := asked yes ids answers in
  existsb yes asks = true \/ (length ids <= length answers)%nat ->
  src_mlist_getFirstMatchingExpectation fuel h evs answers (gthis lb k) =
    FOk (first_id yes ids answers, h, evs ++ zipw (LAsk "isMatchingActualCall") ids asks, skipn (length asks) answers).
Proof.
  intros fuel h lb k ids nodes evs answers [hd [Hl [Hc _]]] Hf asks. unfold src_mlist_getFirstMatchingExpectation.
  rewrite (ghead_load h lb k hd Hl). cbv zeta. rewrite (getFirst_loop_spec fuel ids nodes h hd evs answers fuel Hc Hf).
  change (asked z2b ids answers) with asks. change (existsb z2b asks) with (existsb yes asks). change (first_id z2b) with (first_id yes).
  intros [E|L].
  - rewrite E. reflexivity.
  - destruct (existsb yes asks) eqn:E; [reflexivity|]. rewrite (proj2 (Nat.leb_le _ _) L).
    rewrite (first_id_none yes ids answers E). reflexivity.
Qed.

(* removeFirst...MatchingExpectation *)
Definition gremoves (run : nat -> heap -> list lev -> list Z -> hptr -> fres (Z * heap * list lev * list Z)) (q : string) : Prop :=
  forall fuel h lb k ids nodes evs answers, glist_at h lb k ids nodes -> (length ids < fuel)%nat ->
  let asks := asked yes ids answers in
  (existsb yes asks = true ->
   exists h',
     run fuel h evs answers (gthis lb k) =
       FOk (first_id yes ids answers, h',
            evs ++ zipw (LAsk q) ids asks ++ map (fun b => LDelete (HPtr b 0)) (drop_by nodes (first_flag yes answers)),
            skipn (length asks) answers) /\
     glist_at h' lb k (keep_by ids (first_flag yes answers)) (keep_by nodes (first_flag yes answers)) /\ gframe h h' lb k nodes) /\
  (existsb yes asks = false -> (length ids <= length answers)%nat ->
   run fuel h evs answers (gthis lb k) = FOk (0, h, evs ++ zipw (LAsk q) ids asks, skipn (length asks) answers)).
Lemma gremoveF q : gremoves (GremoveF q) q.
Proof.
  intros fuel h lb k ids nodes evs answers Hrep Hf asks. pose proof Hrep as [[hd [Hl [Hc [Hnd Hnin]]]] Hnz].
  unfold GremoveF. rewrite (ghead_load h lb k hd Hl), (Gremove_spec q fuel (gthis lb k) ids nodes h hd evs answers fuel Hc Hf).
  change (asked z2b ids answers) with asks. change z2b with yes. split.
  - intro E. rewrite E.
    destruct (gmark_prune fuel h lb k ids nodes (first_flag yes answers) (evs ++ zipw (LAsk q) ids asks)
                (skipn (length asks) answers) Hrep Hf) as [h' [Hrun [Hrep' [Hlen [Hho Hfr]]]]].
    exists h'. rewrite Hrun. split; [rewrite <- app_assoc; reflexivity|]. split; [exact Hrep'|]. split; [exact Hlen|]. split; [exact Hho | exact Hfr].
  - intros E L. rewrite E, (proj2 (Nat.leb_le _ _) L). reflexivity.
Qed.
Theorem gremoveFirstFinalizedMatchingExpectation :
  gremoves src_mlist_removeFirstFinalizedMatchingExpectation "isMatchingActualCallAndFinalized".
Proof.
  intros fuel h lb k ids nodes evs answers. unfold src_mlist_removeFirstFinalizedMatchingExpectation. rewrite remove_loop_eq_Finalized.
  exact (gremoveF _ fuel h lb k ids nodes evs answers).
Qed.
Theorem gremoveFirstMatchingExpectation : gremoves src_mlist_removeFirstMatchingExpectation "isMatchingActualCall".
Proof.
  intros fuel h lb k ids nodes evs answers. unfold src_mlist_removeFirstMatchingExpectation. rewrite remove_loop_eq_Matching.
  exact (gremoveF _ fuel h lb k ids nodes evs answers).
Qed.

(* the tell-loops *)
Definition gtells (run : nat -> heap -> list lev -> list Z -> hptr -> fres (unit * heap * list lev * list Z)) (mk : Z -> lev) : Prop :=
  forall fuel h lb k ids nodes evs answers, glist0_at h lb k ids nodes -> (length ids < fuel)%nat ->
  run fuel h evs answers (gthis lb k) = FOk (tt, h, evs ++ map mk ids, answers).
Lemma gtellF mk : gtells (GtellF mk) mk.
Proof.
  intros fuel h lb k ids nodes evs answers [hd [Hl [Hc _]]] Hf. unfold GtellF.
  rewrite (ghead_load h lb k hd Hl), (Gtell_spec mk ids nodes h hd evs answers fuel Hc Hf). reflexivity.
Qed.
Theorem gresetActualCallMatchingState : gtells src_mlist_resetActualCallMatchingState (LTell "resetActualCallMatchingState").
Proof.
  intros fuel h lb k ids nodes evs answers. unfold src_mlist_resetActualCallMatchingState. rewrite tell_loop_eq_reset.
  exact (gtellF _ fuel h lb k ids nodes evs answers).
Qed.
Theorem gwasPassedToObject : gtells src_mlist_wasPassedToObject (LTell "wasPassedToObject").
Proof.
  intros fuel h lb k ids nodes evs answers. unfold src_mlist_wasPassedToObject. rewrite tell_loop_eq_object.
  exact (gtellF _ fuel h lb k ids nodes evs answers).
Qed.
Theorem gparameterWasPassed name :
  gtells (fun fuel h evs answers this_ => src_mlist_parameterWasPassed fuel h evs answers this_ name)
         (fun id => LTellArg "inputParameterWasPassed" id name).
Proof.
  intros fuel h lb k ids nodes evs answers. unfold src_mlist_parameterWasPassed. rewrite tell_loop_eq_param.
  exact (gtellF _ fuel h lb k ids nodes evs answers).
Qed.
Theorem goutputParameterWasPassed name :
  gtells (fun fuel h evs answers this_ => src_mlist_outputParameterWasPassed fuel h evs answers this_ name)
         (fun id => LTellArg "outputParameterWasPassed" id name).
Proof.
  intros fuel h lb k ids nodes evs answers. unfold src_mlist_outputParameterWasPassed. rewrite tell_loop_eq_outparam.
  exact (gtellF _ fuel h lb k ids nodes evs answers).
Qed.

(* isEmpty *)
Theorem gisEmpty : forall fuel h lb k ids nodes evs answers, glist0_at h lb k ids nodes ->
  src_mlist_isEmpty fuel h evs answers (gthis lb k) = FOk (b2z (match ids with [] => true | _ => false end), h, evs, answers).
Proof.
  intros fuel h lb k ids nodes evs answers [hd [Hl [Hc _]]]. unfold src_mlist_isEmpty. rewrite (ghead_load h lb k hd Hl).
  destruct ids as [|id ids].
  - apply mchain_nil_inv in Hc. destruct Hc as [-> _]. reflexivity.
  - apply mchain_cons_inv in Hc. destruct Hc as [b [bs' [nxt [_ [-> _]]]]]. reflexivity.
Qed.

(* ================================================================== B. against the model's list operations *)
(* the identities of the candidates of es, in master order *)
Definition cids (idof : nat -> Z) (es : list expn) : list Z := map idof (pos_from e_pot 0 es).
(* the list whose head cell is (lb, k) holds the candidates of es *)
Definition gcand_rep (h : heap) (lb k : nat) (es : list expn) (idof : nat -> Z) (nodes : list nat) : Prop :=
  glist_at h lb k (cids idof es) nodes /\ idof_ok idof (length es).
(* the lists of C08_ListTie.v are the case k = 0 of a 1-cell block *)
Lemma cand_rep_is_gcand_rep h lb es idof nodes : cand_rep h lb es idof nodes -> gcand_rep h lb 0 es idof nodes.
Proof. intros [[H0 Hnz] Hid]. split; [split; [exact (mlist0_is_glist0 _ _ _ _ H0) | exact Hnz] | exact Hid]. Qed.

Lemma cids_length idof pred es : length (cids idof es) = length (model_answers pred es).
Proof. unfold cids. rewrite map_length, pos_from_length. symmetry. apply (model_answers_length e_pot pred es). Qed.
Lemma cids_length' idof es : length (cids idof es) = length (filter e_pot es).
Proof. unfold cids. rewrite map_length, pos_from_length. reflexivity. Qed.
Lemma gcand_nodes_length h lb k es idof nodes : gcand_rep h lb k es idof nodes -> length nodes = length (cids idof es).
Proof. intros [[[hd [_ [Hc _]]] _] _]. exact (mchain_length _ _ _ _ Hc). Qed.

(* answer streams that hold exactly what a search asks *)
Lemma asked_pref t : forall ids l r, length ids = length l -> asked t ids (upto_first t l ++ r) = upto_first t l.
Proof.
  induction ids as [|i ids IH]; intros [|a l] r E; try discriminate E; [destruct r; reflexivity|]. cbn [upto_first].
  destruct (t a) eqn:Ea; cbn [app asked]; rewrite Ea; [reflexivity|]. rewrite IH by (cbn in E; lia). reflexivity.
Qed.
Lemma asked_all t : forall ids l, length ids = length l -> asked t ids l = upto_first t l.
Proof. intros ids l E. rewrite asked_upto_first, E, firstn_all. reflexivity. Qed.
Lemma first_id_pref t : forall ids l r, length ids = length l -> first_id t ids (upto_first t l ++ r) = first_id t ids l.
Proof.
  induction ids as [|i ids IH]; intros [|a l] r E; try discriminate E; [destruct r; reflexivity|]. cbn [upto_first first_id].
  destruct (t a) eqn:Ea; cbn [app first_id]; rewrite Ea; [reflexivity|]. apply IH. cbn in E. lia.
Qed.
Lemma existsb_upto_first t : forall l, existsb t (upto_first t l) = existsb t l.
Proof. induction l as [|a l IH]; [reflexivity|]. cbn. destruct (t a) eqn:Ea; cbn; rewrite Ea; [reflexivity | exact IH]. Qed.
Lemma first_flag_pref t : forall l r, existsb t l = true -> first_flag t (upto_first t l ++ r) = first_flag t l.
Proof.
  induction l as [|a l IH]; intros r E; [discriminate E|]. cbn in *. destruct (t a) eqn:Ea; cbn; rewrite Ea; [reflexivity|].
  cbn in E. rewrite IH by exact E. reflexivity.
Qed.
Lemma upto_first_length t l : (length (upto_first t l) <= length l)%nat.
Proof. induction l as [|a l IH]; cbn; [lia|]. destruct (t a); cbn; lia. Qed.
Lemma upto_first_none t : forall l, existsb t l = false -> upto_first t l = l.
Proof. induction l as [|a l IH]; intro E; [reflexivity|]. cbn in *. destruct (t a); [discriminate E|]. rewrite IH by exact E. reflexivity. Qed.

(* ------------------------------------------------------------------ onlyKeep... ~ keep_if / only_keep_unmatching *)
Definition gkeeps_like (run : nat -> heap -> list lev -> list Z -> hptr -> fres (unit * heap * list lev * list Z))
                       (mk : Z -> Z -> lev) (pred : expn -> bool) : Prop :=
  forall fuel h lb k es idof nodes evs rest, gcand_rep h lb k es idof nodes -> (length (filter e_pot es) < fuel)%nat ->
  let drops := map drops_zero (model_answers pred es) in
  exists h',
    run fuel h evs (model_answers pred es ++ rest) (gthis lb k) =
      FOk (tt, h', evs ++ zipw mk (cids idof es) (model_answers pred es) ++ map (fun b => LDelete (HPtr b 0)) (drop_by nodes drops), rest) /\
    gcand_rep h' lb k (keep_if pred es) idof (keep_by nodes drops) /\ gframe h h' lb k nodes.
Lemma gkeeps_like_intro run mk pred : gkeeps run mk -> gkeeps_like run mk pred.
Proof.
  intros Hok fuel h lb k es idof nodes evs rest Hrep Hf drops. pose proof Hrep as [Hg Hid].
  pose proof (cids_length idof pred es) as Hli. pose proof (gcand_nodes_length _ _ _ _ _ _ Hrep) as Hln.
  assert (Hf' : (length (cids idof es) < fuel)%nat) by (rewrite cids_length'; exact Hf).
  destruct (Hok fuel h lb k _ nodes evs (model_answers pred es ++ rest) Hg Hf') as [h' [Hrun [Hrep' Hfr]]]; [rewrite app_length; lia|].
  rewrite map_app in Hrun, Hrep'.
  rewrite (drop_by_app_flags nodes) in Hrun by (rewrite (map_length drops_zero); lia).
  rewrite (keep_by_app_flags nodes), (keep_by_app_flags (cids idof es)) in Hrep' by (rewrite (map_length drops_zero); lia).
  rewrite (skipn_app_exact _ rest _ Hli) in Hrun. rewrite zipw_app_r in Hrun by lia.
  exists h'. split; [exact Hrun|]. split; [|exact Hfr].
  split; [|rewrite keep_if_length; exact Hid]. unfold cids. rewrite pos_keep_if, <- keep_by_map. exact Hrep'.
Qed.
Theorem gonlyKeepExpectationsRelatedTo_model nm f :
  gkeeps_like (fun fuel h evs answers this_ => src_mlist_onlyKeepExpectationsRelatedTo fuel h evs answers this_ nm)
              (fun id a => LAskArg "relatesTo" id nm a) (relates f).
Proof. apply gkeeps_like_intro. apply gonlyKeepExpectationsRelatedTo. Qed.
Theorem gonlyKeepExpectationsWithInputParameter_model pm n v :
  gkeeps_like (fun fuel h evs answers this_ => src_mlist_onlyKeepExpectationsWithInputParameter fuel h evs answers this_ pm)
              (fun id a => LAskArg "hasInputParameter" id pm a) (has_input n v).
Proof. apply gkeeps_like_intro. apply gonlyKeepExpectationsWithInputParameter. Qed.
Theorem gonlyKeepExpectationsWithOutputParameter_model pm n :
  gkeeps_like (fun fuel h evs answers this_ => src_mlist_onlyKeepExpectationsWithOutputParameter fuel h evs answers this_ pm)
              (fun id a => LAskArg "hasOutputParameter" id pm a) (has_output n).
Proof. apply gkeeps_like_intro. apply gonlyKeepExpectationsWithOutputParameter. Qed.
Theorem gonlyKeepExpectationsOnObject_model ob a :
  gkeeps_like (fun fuel h evs answers this_ => src_mlist_onlyKeepExpectationsOnObject fuel h evs answers this_ ob)
              (fun id x => LAskArg "relatesToObject" id ob x) (relates_obj a).
Proof. apply gkeeps_like_intro. apply gonlyKeepExpectationsOnObject. Qed.

Theorem gonlyKeepUnmatchingExpectations_model : forall fuel h lb k es idof nodes evs rest,
  gcand_rep h lb k es idof nodes -> (length (filter e_pot es) < fuel)%nat ->
  let drops := map z2b (model_answers is_matching_fin es) in
  exists h',
    src_mlist_onlyKeepUnmatchingExpectations fuel h evs (model_answers is_matching_fin es ++ rest) (gthis lb k) =
      FOk (tt, h', evs ++ unm_events (cids idof es) (model_answers is_matching_fin es) ++
                     map (fun b => LDelete (HPtr b 0)) (drop_by nodes drops), rest) /\
    gcand_rep h' lb k (only_keep_unmatching es) idof (keep_by nodes drops) /\ gframe h h' lb k nodes.
Proof.
  intros fuel h lb k es idof nodes evs rest Hrep Hf drops. pose proof Hrep as [Hg Hid].
  pose proof (cids_length idof is_matching_fin es) as Hli. pose proof (gcand_nodes_length _ _ _ _ _ _ Hrep) as Hln.
  assert (Hf' : (length (cids idof es) < fuel)%nat) by (rewrite cids_length'; exact Hf).
  destruct (gonlyKeepUnmatchingExpectations fuel h lb k _ nodes evs (model_answers is_matching_fin es ++ rest) Hg Hf')
    as [h' [Hrun [Hrep' Hfr]]]; [rewrite app_length; lia|].
  rewrite map_app in Hrun, Hrep'.
  rewrite (drop_by_app_flags nodes) in Hrun by (rewrite (map_length z2b); lia).
  rewrite (keep_by_app_flags nodes), (keep_by_app_flags (cids idof es)) in Hrep' by (rewrite (map_length z2b); lia).
  rewrite (skipn_app_exact _ rest _ Hli) in Hrun.
  assert (Hu : forall ids m r, (length ids <= length m)%nat -> unm_events ids (m ++ r) = unm_events ids m).
  { clear. induction ids as [|x ids IH]; intros [|a m] r L; cbn in *; try reflexivity; try lia. rewrite IH by lia. reflexivity. }
  rewrite Hu in Hrun by lia.
  exists h'. split; [exact Hrun|]. split; [|exact Hfr].
  split; [|unfold only_keep_unmatching; rewrite map_length; exact Hid]. unfold cids. rewrite pos_only_keep_unmatching, <- keep_by_map. exact Hrep'.
Qed.
(* the expectations that pass tells resetActualCallMatchingState: the candidates the model applies reset_e to *)
Lemma unm_events_tells_model idof es :
  filter is_tell (unm_events (cids idof es) (model_answers is_matching_fin es)) =
  map (fun k => LTell "resetActualCallMatchingState" (idof k)) (pos_from (fun e => e_pot e && is_matching_fin e) 0 es).
Proof.
  rewrite unm_events_tells. unfold cids. rewrite drop_by_map.
  rewrite (pos_dropped (fun e => is_matching_fin e) z2b is_matching_fin) by (intro e; apply b2z_z2b). rewrite map_map. reflexivity.
Qed.

(* ------------------------------------------------------------------ isEmpty ~ pot_empty *)
Theorem gisEmpty_model : forall fuel h lb k es idof nodes evs answers, gcand_rep h lb k es idof nodes ->
  src_mlist_isEmpty fuel h evs answers (gthis lb k) = FOk (b2z (pot_empty es), h, evs, answers).
Proof.
  intros fuel h lb k es idof nodes evs answers [[Hrep _] _]. rewrite (gisEmpty fuel h lb k _ nodes evs answers Hrep).
  unfold pot_empty, cids. rewrite <- (pos_from_nil_iff e_pot es 0). destruct (pos_from e_pot 0 es); reflexivity.
Qed.

(* ------------------------------------------------------------------ the tell-loops ~ for_pot *)
Definition gtells_like (run : nat -> heap -> list lev -> list Z -> hptr -> fres (unit * heap * list lev * list Z)) (mk : Z -> lev) : Prop :=
  forall (f : expn -> expn) fuel h lb k es idof nodes evs answers, (forall e, e_pot (f e) = e_pot e) ->
  gcand_rep h lb k es idof nodes -> (length (filter e_pot es) < fuel)%nat ->
  run fuel h evs answers (gthis lb k) = FOk (tt, h, evs ++ map mk (cids idof es), answers) /\
  gcand_rep h lb k (for_pot f es) idof nodes.
Lemma gtells_like_intro run mk : gtells run mk -> gtells_like run mk.
Proof.
  intros Hok f fuel h lb k es idof nodes evs answers Hf [Hrep Hid] Hl. split.
  - destruct Hrep as [Hrep0 _]. rewrite (Hok fuel h lb k _ nodes evs answers Hrep0) by (rewrite cids_length'; exact Hl). reflexivity.
  - split; [unfold cids; rewrite (for_pot_pos f Hf); exact Hrep|]. unfold for_pot. rewrite map_length. exact Hid.
Qed.
Theorem gresetActualCallMatchingState_model : gtells_like src_mlist_resetActualCallMatchingState (LTell "resetActualCallMatchingState").
Proof. apply gtells_like_intro. apply gresetActualCallMatchingState. Qed.
Theorem gwasPassedToObject_model : gtells_like src_mlist_wasPassedToObject (LTell "wasPassedToObject").
Proof. apply gtells_like_intro. apply gwasPassedToObject. Qed.
Theorem gparameterWasPassed_model nm :
  gtells_like (fun fuel h evs answers this_ => src_mlist_parameterWasPassed fuel h evs answers this_ nm)
              (fun id => LTellArg "inputParameterWasPassed" id nm).
Proof. apply gtells_like_intro. apply gparameterWasPassed. Qed.
Theorem goutputParameterWasPassed_model nm :
  gtells_like (fun fuel h evs answers this_ => src_mlist_outputParameterWasPassed fuel h evs answers this_ nm)
              (fun id => LTellArg "outputParameterWasPassed" id nm).
Proof. apply gtells_like_intro. apply goutputParameterWasPassed. Qed.

(* ------------------------------------------------------------------ the searches: the stream holds what is asked *)
(* the answers a search for the first candidate satisfying pred asks for: the model's, up to and including the first yes *)
Definition search_answers (pred : expn -> bool) (es : list expn) : list Z := upto_first yes (model_answers pred es).
Definition found_pos (pred : expn -> bool) (es : list expn) : option nat := find_pos (fun e => e_pot e && pred e) 0 es.
Definition found_id (idof : nat -> Z) (pred : expn -> bool) (es : list expn) : Z :=
  match found_pos pred es with Some j => idof j | None => 0 end.
Lemma first_pot_found pred es : first_pot pred es = match found_pos pred es with Some j => nth_error es j | None => None end.
Proof. apply first_pot_pos. Qed.

Lemma search_facts pred idof es rest :
  let ids := cids idof es in
  let sa := search_answers pred es in
  asked yes ids (sa ++ rest) = sa /\
  existsb yes sa = (match found_pos pred es with Some _ => true | None => false end) /\
  first_id yes ids (sa ++ rest) = found_id idof pred es /\
  skipn (length sa) (sa ++ rest) = rest.
Proof.
  intros ids sa. pose proof (cids_length idof pred es) as Hl. fold ids in Hl.
  destruct (search_model pred idof [] es 0) as [H1 [H2 H3]]. rewrite app_nil_r in H1, H2. fold (cids idof es) in H1, H2. fold ids in H1, H2.
  rewrite (asked_all yes ids _ Hl) in H1. unfold sa, search_answers.
  split; [apply asked_pref; exact Hl|]. split; [exact H1|]. split; [rewrite first_id_pref by exact Hl; exact H2|].
  apply skipn_app_exact. reflexivity.
Qed.

(* getFirstMatchingExpectation ~ first_pot is_matching *)
Theorem ggetFirstMatchingExpectation_model : forall fuel h lb k es idof nodes evs rest,
  gcand_rep h lb k es idof nodes -> (length (filter e_pot es) < fuel)%nat ->
  src_mlist_getFirstMatchingExpectation fuel h evs (search_answers is_matching es ++ rest) (gthis lb k) =
    FOk (found_id idof is_matching es, h,
         evs ++ zipw (LAsk "isMatchingActualCall") (cids idof es) (search_answers is_matching es), rest).
Proof.
  intros fuel h lb k es idof nodes evs rest [[Hrep _] _] Hf.
  destruct (search_facts is_matching idof es rest) as [H1 [H2 [H3 H4]]].
  pose proof (cids_length idof is_matching es) as Hl.
  pose proof (ggetFirstMatchingExpectation fuel h lb k _ nodes evs (search_answers is_matching es ++ rest) Hrep) as H.
  cbv zeta in H. rewrite H1, H3, H4 in H. apply H; [rewrite cids_length'; exact Hf|].
  unfold found_pos in H2. destruct (existsb yes (search_answers is_matching es)) eqn:E; [left; reflexivity|]. right.
  unfold search_answers in *. rewrite existsb_upto_first in E. rewrite (upto_first_none yes _ E), app_length. lia.
Qed.

(* the has... questions *)
Definition ghas_like (run : nat -> heap -> list lev -> list Z -> hptr -> fres (Z * heap * list lev * list Z)) (mk : Z -> Z -> lev)
                     (t : Z -> bool) (q : expn -> bool) (ans : expn -> Z) : Prop :=
  forall fuel h lb k es idof nodes evs rest, gcand_rep h lb k es idof nodes -> (length (filter e_pot es) < fuel)%nat ->
  let sa := upto_first t (map ans (filter e_pot es)) in
  run fuel h evs (sa ++ rest) (gthis lb k) = FOk (b2z (existsb (fun e => e_pot e && q e) es), h, evs ++ zipw mk (cids idof es) sa, rest).
Lemma ghas_like_intro run mk t q ans : ghas run mk t -> (forall e, t (ans e) = q e) -> ghas_like run mk t q ans.
Proof.
  intros Hok Ht fuel h lb k es idof nodes evs rest [[Hrep _] _] Hf sa.
  assert (Hl : length (cids idof es) = length (map ans (filter e_pot es))) by (rewrite cids_length', map_length; reflexivity).
  pose proof (Hok fuel h lb k _ nodes evs (sa ++ rest) Hrep) as H. cbv zeta in H.
  unfold sa in H. rewrite (asked_pref t _ _ rest Hl) in H. fold sa in H.
  rewrite skipn_app_exact in H by reflexivity.
  pose proof (has_search t e_pot q ans idof [] Ht es 0) as Hs. rewrite app_nil_r in Hs. fold (cids idof es) in Hs.
  rewrite (asked_all t _ _ Hl) in Hs. fold sa in Hs. rewrite Hs in H. apply H; [rewrite cids_length'; exact Hf|].
  destruct (existsb (fun e => e_pot e && q e) es) eqn:E; [left; reflexivity|]. right.
  unfold sa in *. rewrite existsb_upto_first in Hs. rewrite (upto_first_none t _ Hs), app_length. lia.
Qed.
Theorem ghasFinalizedMatchingExpectations_model :
  ghas_like src_mlist_hasFinalizedMatchingExpectations (LAsk "isMatchingActualCallAndFinalized") yes is_matching_fin
            (fun e => b2z (is_matching_fin e)).
Proof. apply ghas_like_intro; [apply ghasFinalizedMatchingExpectations | intro e; apply b2z_z2b]. Qed.
Theorem ghasUnmatchingExpectationsBecauseOfMissingParameters_model :
  ghas_like src_mlist_hasUnmatchingExpectationsBecauseOfMissingParameters (LAsk "areParametersMatchingActualCall") no
            (fun e => negb (params_matching e)) (fun e => b2z (params_matching e)).
Proof.
  apply ghas_like_intro; [apply ghasUnmatchingExpectationsBecauseOfMissingParameters|]. intro e. rewrite no_negb, b2z_z2b. reflexivity.
Qed.

(* removeFirst... ~ take_first *)
Definition gremoves_like (run : nat -> heap -> list lev -> list Z -> hptr -> fres (Z * heap * list lev * list Z)) (q : string)
                         (pred : expn -> bool) : Prop :=
  forall (g : expn -> expn) fuel h lb k es idof nodes evs rest, (forall e, e_pot (g e) = e_pot e) ->
  gcand_rep h lb k es idof nodes -> (length (filter e_pot es) < fuel)%nat ->
  let sa := search_answers pred es in
  let flags := first_flag yes (model_answers pred es) in
  match take_first pred g es with
  | Some es' =>
      exists h' j e,
        found_pos pred es = Some j /\ nth_error es j = Some e /\ nth_error es' j = Some (g (set_cur (drop e) true)) /\
        run fuel h evs (sa ++ rest) (gthis lb k) =
          FOk (idof j, h', evs ++ zipw (LAsk q) (cids idof es) sa ++ map (fun b => LDelete (HPtr b 0)) (drop_by nodes flags), rest) /\
        gcand_rep h' lb k es' idof (keep_by nodes flags) /\ length (drop_by nodes flags) = 1%nat /\ gframe h h' lb k nodes
  | None =>
      found_pos pred es = None /\
      run fuel h evs (sa ++ rest) (gthis lb k) = FOk (0, h, evs ++ zipw (LAsk q) (cids idof es) sa, rest)
  end.
Lemma gremoves_like_intro run q pred : gremoves run q -> gremoves_like run q pred.
Proof.
  intros Hok g fuel h lb k es idof nodes evs rest Hg Hrep0 Hf sa flags. pose proof Hrep0 as [Hrep Hid].
  pose proof (cids_length idof pred es) as Hli.
  assert (Hf' : (length (cids idof es) < fuel)%nat) by (rewrite cids_length'; exact Hf).
  destruct (search_facts pred idof es rest) as [H1 [H2 [H3 H4]]]. fold sa in H1, H2, H3, H4.
  destruct (Hok fuel h lb k (cids idof es) nodes evs (sa ++ rest) Hrep Hf') as [Kyes Kno]. cbv zeta in Kyes, Kno.
  rewrite H1, H2, H3, H4 in Kyes. rewrite H1, H2, H4 in Kno.
  pose proof (take_first_pos pred g [] Hg es 0) as Ht. rewrite app_nil_r in Ht. fold flags in Ht.
  destruct (take_first pred g es) as [es'|].
  - destruct Ht as [Hl [Hp [j [e [Hfj [Hn Hn']]]]]]. rewrite Nat.sub_0_r in Hn, Hn'.
    unfold found_pos in *. rewrite Hfj in Kyes.
    assert (Hff : first_flag yes (sa ++ rest) = flags).
    { unfold sa, search_answers, flags. apply first_flag_pref. rewrite <- existsb_upto_first. fold (search_answers pred es). fold sa.
      rewrite H2, Hfj. reflexivity. }
    rewrite Hff in Kyes.
    destruct (Kyes eq_refl) as [h' [Hrun [Hrep' Hfr]]].
    exists h', j, e. split; [exact Hfj|]. split; [exact Hn|]. split; [exact Hn'|]. split; [unfold found_id, found_pos in Hrun; rewrite Hfj in Hrun; exact Hrun|].
    split; [split; [|rewrite Hl; exact Hid]; unfold cids; rewrite Hp, <- keep_by_map; exact Hrep'|].
    split; [|exact Hfr].
    destruct (first_flag_one nat nodes (cids idof es) (sa ++ rest) (gcand_nodes_length _ _ _ _ _ _ Hrep0)) as [pre [x [post [_ [_ [_ Hd]]]]]].
    { rewrite H1, H2, Hfj. reflexivity. }
    rewrite Hff in Hd. rewrite Hd. reflexivity.
  - unfold found_pos in *. rewrite Ht in Kno. split; [exact Ht|]. apply Kno; [reflexivity|].
    unfold sa, search_answers. rewrite Ht in H2. unfold sa, search_answers in H2. rewrite existsb_upto_first in H2.
    rewrite (upto_first_none yes _ H2), app_length. lia.
Qed.
Theorem gremoveFirstFinalizedMatchingExpectation_model :
  gremoves_like src_mlist_removeFirstFinalizedMatchingExpectation "isMatchingActualCallAndFinalized" is_matching_fin.
Proof. apply gremoves_like_intro. apply gremoveFirstFinalizedMatchingExpectation. Qed.
Theorem gremoveFirstMatchingExpectation_model :
  gremoves_like src_mlist_removeFirstMatchingExpectation "isMatchingActualCall" is_matching.
Proof. apply gremoves_like_intro. apply gremoveFirstMatchingExpectation. Qed.
