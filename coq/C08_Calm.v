(* C08 -- after a mock().checkExpectations() that passed, nothing is left to report: every later checkExpectations() / clear() on
   mock() or on a scope passes, and the plugin's end-of-test check delivers nothing.
   Two invariants of the worlds reachable by operations that went through (reporter that leaves the test):
     ok    -- no last actual call is CALL_FAILED, and a call whose expectations were checked is CALL_SUCCEED
              (a failed call means a failure was raised, and the test was left there);
     calm  -- every last call is checked and succeeded, no expectation is unfulfilled, none is marked out of order. *)
From Coq Require Import ZArith NArith Bool List Lia.
From CppUVerif Require Import lib.CInt lib.Str C08_Model C08_ModelTd.
Import ListNotations.
Local Open Scope N_scope.

Definition ok_call (c : acall) : bool :=
  match c_state c with Failed => false | InProgress => negb (c_checked c) | Succeeded => true end.
Definition ok_mock (m : mock) : bool := match m_last m with Some c => ok_call c | None => true end.
Definition ok_world (w : world) : bool := ok_mock (w_g w) && forallb (fun k => ok_mock (snd k)) (w_kids w).

(* a call under construction: not checked, not failed *)
Definition young (c : acall) : bool := negb (c_checked c) && match c_state c with Failed => false | _ => true end.

Lemma young_ok c : young c = true -> ok_call c = true.
Proof. unfold young, ok_call. destruct (c_checked c); destruct (c_state c); cbn; intro H; congruence. Qed.

Lemma complete_young es c : young c = true -> young (snd (complete es c)) = true.
Proof.
  intro F. unfold complete. destruct (first_pot is_matching_fin es).
  - destruct (take_first is_matching_fin (fun e => e) es); [|exact F]. cbn [snd]. unfold young in *. cbn.
    apply andb_prop in F. destruct F as [F _]. rewrite F. reflexivity.
  - destruct (first_pot is_matching es); exact F.
Qed.
Lemma complete_inl_young es c es' c' : young c = true -> complete es c = (es', c') -> young c' = true.
Proof. intros F E. pose proof (complete_young es c F) as H. rewrite E in H. exact H. Qed.

Lemma young_in_progress c : young c = true -> young (set_state c InProgress) = true.
Proof. unfold young. cbn. intro H. apply andb_prop in H. destruct H as [H _]. rewrite H. reflexivity. Qed.
Lemma young_couts c l : young c = true -> young (set_couts c l) = true.
Proof. unfold young. cbn. auto. Qed.

Lemma with_name_young es c es' c' : young c = true -> with_name es c = inl (es', c') -> young c' = true.
Proof.
  intros F. unfold with_name. destruct (pot_empty (keep_if (relates (c_name (set_state c InProgress))) es)); [discriminate|].
  intro H. inversion H as [E]. eapply complete_inl_young; [|exact E]. apply young_in_progress. exact F.
Qed.
Lemma with_item_young it es c es' c' : young c = true -> with_item it es c = inl (es', c') -> young c' = true.
Proof.
  intro F. destruct it as [n v|n buf|a]; cbn [with_item].
  - unfold check_input. destruct (pot_empty _); [discriminate|]. intro H. inversion H as [E].
    eapply complete_inl_young; [|exact E]. apply young_in_progress. exact F.
  - unfold check_output. destruct (pot_empty _); [discriminate|]. intro H. inversion H as [E].
    eapply complete_inl_young; [|exact E]. apply young_in_progress. apply young_couts. exact F.
  - unfold on_object. destruct (negb (existsb e_cur (keep_if (relates_obj a) es))); cbn [andb].
    + destruct (pot_empty _); [discriminate|]. intro H. inversion H as [E]. eapply complete_inl_young; [|exact E]. exact F.
    + intro H. inversion H; subst. exact F.
Qed.
Lemma with_items_young : forall its es c es' c', young c = true -> with_items its es c = inl (es', c') -> young c' = true.
Proof.
  induction its as [|it r IH]; intros es c es' c' F H; cbn [with_items] in H.
  - inversion H; subst. exact F.
  - destruct (with_item it es c) as [[es1 c1]|fl] eqn:E; [|discriminate H].
    eapply IH; [|exact H]. eapply with_item_young; [exact F|exact E].
Qed.

Definition done_call (c : acall) : bool := c_checked c && match c_state c with Succeeded => true | _ => false end.
(* checkExpectations of a call that goes through: the call is checked and succeeded *)
Lemma check_call_done es c es' c' : ok_call c = true -> check_call es c = inl (es', c') -> done_call c' = true.
Proof.
  unfold check_call, ok_call, done_call. destruct (c_checked c) eqn:K.
  - intros O H. inversion H; subst. rewrite K. destruct (c_state c'); cbn in *; congruence.
  - intros O. cbn [c_state set_checked]. destruct (c_state c) eqn:S.
    + destruct (existsb _ es); [discriminate|]. destruct (take_first _ _ es); [|destruct (existsb _ es); discriminate].
      intro H. inversion H; subst. reflexivity.
    + intro H. inversion H; subst. cbn. rewrite S. reflexivity.
    + discriminate O.
Qed.
Lemma done_ok c : done_call c = true -> ok_call c = true.
Proof. unfold done_call, ok_call. destruct (c_checked c); destruct (c_state c); cbn; congruence. Qed.

Definition done_mock (m : mock) : bool := match m_last m with Some c => done_call c | None => true end.
Lemma done_mock_ok m : done_mock m = true -> ok_mock m = true.
Proof. unfold done_mock, ok_mock. destruct (m_last m); [apply done_ok|auto]. Qed.
Lemma finish_last_done m m' : ok_mock m = true -> finish_last m = inl m' -> done_mock m' = true.
Proof.
  unfold finish_last, ok_mock, done_mock. destruct (m_last m) as [c|] eqn:L.
  - intro O. destruct (check_call (m_exps m) c) as [[es c']|fl] eqn:E; [|discriminate].
    intro H. inversion H; subst. cbn. eapply check_call_done; [exact O|exact E].
  - intros _ H. inversion H; subst. rewrite L. reflexivity.
Qed.

(* ---------------------------------------------------------------- ok is kept by every operation that goes through *)
Lemma step_ok m o m' rv : ok_mock m = true -> step true m o = inl (m', rv) -> ok_mock m' = true.
Proof.
  intro O. destruct o; cbn [step].
  - intro H. inversion H; subst. unfold expect. destruct (negb (m_enabled m)); [exact O|]. exact O.
  - unfold actual_call. destruct (finish_last m) as [m1|fl] eqn:F; [|discriminate].
    destruct (negb (m_enabled (with_exps m1 (m_exps m1) None))); [intro H; inversion H; subst; reflexivity|].
    destruct (m_ignore (with_exps m1 (m_exps m1) None) && negb (existsb (relates f) (m_exps (with_exps m1 (m_exps m1) None))));
      [intro H; inversion H; subst; reflexivity|].
    match goal with |- context [with_name ?es ?c] => destruct (with_name es c) as [[es1 c1]|fl] eqn:WN; [|discriminate];
      assert (F1 : young c1 = true) by (eapply with_name_young; [|exact WN]; reflexivity) end.
    destruct (with_items its es1 c1) as [[es2 c2]|fl] eqn:WI; [|discriminate].
    assert (F2 : young c2 = true) by (eapply with_items_young; [exact F1|exact WI]).
    destruct want.
    + match goal with |- context [finish_last ?mm] => destruct (finish_last mm) as [m3|fl] eqn:F3; [|discriminate];
        assert (D : done_mock m3 = true) by (eapply finish_last_done; [|exact F3]; cbn; apply young_ok; exact F2) end.
      intro H. inversion H; subst. apply done_mock_ok. exact D.
    + intro H. inversion H; subst. cbn. apply young_ok. exact F2.
  - unfold check_expectations. destruct (finish_last m) as [m1|fl] eqn:F; [|discriminate].
    destruct (last_ok m1 && unfulfilled (m_exps m1)); [discriminate|]. destruct (existsb e_ooo (m_exps m1)); [discriminate|].
    intro H. inversion H; subst. apply done_mock_ok. eapply finish_last_done; [exact O|exact F].
  - intro H. inversion H; subst. reflexivity.
  - intro H. inversion H; subst. exact O.
  - intro H. inversion H; subst. exact O.
  - intro H. inversion H; subst. exact O.
  - intro H. inversion H; subst. exact O.
  - unfold calls_left. destruct (finish_last m) as [m1|fl] eqn:F; [|discriminate].
    intro H. inversion H; subst. apply done_mock_ok. eapply finish_last_done; [exact O|exact F].
  - intro H. inversion H; subst. reflexivity.
Qed.

Lemma finish_kids_done : forall kids kids', forallb (fun k => ok_mock (snd k)) kids = true -> finish_kids kids = inl kids' ->
  forallb (fun k => done_mock (snd k)) kids' = true.
Proof.
  induction kids as [|[t m] r IH]; intros kids' O H; cbn [finish_kids] in H.
  - inversion H; subst. reflexivity.
  - cbn [forallb snd] in O. apply andb_prop in O. destruct O as [O1 O2].
    destruct (finish_last m) as [m1|fl] eqn:F; [|discriminate]. destruct (finish_kids r) as [r1|fl] eqn:FK; [|discriminate].
    inversion H; subst. cbn [forallb snd]. rewrite (IH r1 O2 eq_refl), andb_true_r. eapply finish_last_done; [exact O1|exact F].
Qed.
Lemma finish_all_done w w' : ok_world w = true -> finish_all w = inl w' ->
  done_mock (w_g w') = true /\ forallb (fun k => done_mock (snd k)) (w_kids w') = true.
Proof.
  unfold ok_world, finish_all. intro O. apply andb_prop in O. destruct O as [O1 O2].
  destruct (finish_last (w_g w)) as [g|fl] eqn:F; [|discriminate]. destruct (finish_kids (w_kids w)) as [ks|fl] eqn:FK; [|discriminate].
  intro H. inversion H; subst. cbn. split; [eapply finish_last_done; [exact O1|exact F]|eapply finish_kids_done; [exact O2|exact FK]].
Qed.
Lemma forallb_done_ok kids : forallb (fun k => done_mock (snd k)) kids = true -> forallb (fun k : N * mock => ok_mock (snd k)) kids = true.
Proof. rewrite !forallb_forall. intros H x I. apply done_mock_ok. apply H. exact I. Qed.

Lemma lookup_kid_forallb (P : mock -> bool) : forall kids s m, forallb (fun k => P (snd k)) kids = true -> lookup_kid s kids = Some m -> P m = true.
Proof.
  induction kids as [|[t m0] r IH]; intros s m A L; cbn [lookup_kid] in L; [discriminate|].
  cbn [forallb snd] in A. apply andb_prop in A. destruct A as [A1 A2]. destruct (t =? s); [inversion L; subst; exact A1|eapply IH; eauto].
Qed.
Lemma put_kid_forallb (P : mock -> bool) : forall kids s m, forallb (fun k => P (snd k)) kids = true -> P m = true ->
  forallb (fun k => P (snd k)) (put_kid s m kids) = true.
Proof.
  induction kids as [|[t m0] r IH]; intros s m A B; cbn [put_kid forallb snd]; [rewrite B; reflexivity|].
  cbn [forallb snd] in A. apply andb_prop in A. destruct A as [A1 A2].
  destruct (t =? s); cbn [forallb snd]; [rewrite B, A2; reflexivity|rewrite A1, (IH s m A2 B); reflexivity].
Qed.
Lemma map_kids_forallb (P : mock -> bool) (f : mock -> mock) kids : (forall m, P m = true -> P (f m) = true) ->
  forallb (fun k => P (snd k)) kids = true -> forallb (fun k => P (snd k)) (map (fun k : N * mock => (fst k, f (snd k))) kids) = true.
Proof.
  intros Hf. induction kids as [|[t m] r IH]; intro A; [reflexivity|].
  cbn [forallb snd map fst] in *. apply andb_prop in A. destruct A as [A1 A2]. rewrite (Hf m A1), (IH A2). reflexivity.
Qed.

Lemma kid_ok s w : ok_world w = true -> ok_mock (kid s w) = true.
Proof.
  unfold ok_world, kid. intro O. apply andb_prop in O. destruct O as [_ O2].
  destruct (lookup_kid s (w_kids w)) as [m|] eqn:L; [eapply (lookup_kid_forallb ok_mock); eauto|reflexivity].
Qed.

Lemma stepw_ok w so w' rv : ok_world w = true -> stepw true w so = inl (w', rv) -> ok_world w' = true.
Proof.
  intro O. destruct so as [s o]. unfold stepw. destruct (s =? 0) eqn:Z.
  - pose proof O as O'. unfold ok_world in O'. apply andb_prop in O'. destruct O' as [O1 O2].
    assert (G : forall o0, (match step true (w_g w) o0 with inr fl => inr fl | inl (g, r) => inl ({| w_g := g; w_kids := w_kids w |}, r) end = inl (w', rv)) -> ok_world w' = true).
    { intros o0 H. destruct (step true (w_g w) o0) as [[g r]|fl] eqn:S; [|discriminate]. inversion H; subst.
      unfold ok_world. cbn. rewrite (step_ok _ _ _ _ O1 S), O2. reflexivity. }
    destruct o; try (apply G).
    + unfold check_world. destruct (finish_all w) as [w1|fl] eqn:F; [|discriminate].
      destruct (last_ok_all w1 && left_all w1); [discriminate|]. destruct (ooo_all w1); [discriminate|].
      intro H. inversion H; subst. destruct (finish_all_done _ _ O F) as [D1 D2]. unfold ok_world.
      rewrite (done_mock_ok _ D1), (forallb_done_ok _ D2). reflexivity.
    + intro H. inversion H; subst. reflexivity.
    + intro H. inversion H; subst. unfold ok_world, map_kids. cbn.
      rewrite (map_kids_forallb ok_mock set_ignore (w_kids w)); [rewrite andb_true_r; exact O1|auto|exact O2].
    + intro H. inversion H; subst. unfold ok_world, map_kids. cbn.
      rewrite (map_kids_forallb ok_mock (fun m => set_enabled m true) (w_kids w)); [rewrite andb_true_r; exact O1|auto|exact O2].
    + intro H. inversion H; subst. unfold ok_world, map_kids. cbn.
      rewrite (map_kids_forallb ok_mock (fun m => set_enabled m false) (w_kids w)); [rewrite andb_true_r; exact O1|auto|exact O2].
    + destruct (finish_all w) as [w1|fl] eqn:F; [|discriminate].
      intro H. inversion H; subst. destruct (finish_all_done _ _ O F) as [D1 D2]. unfold ok_world.
      rewrite (done_mock_ok _ D1), (forallb_done_ok _ D2). reflexivity.
    + intro H. inversion H; subst. reflexivity.
  - destruct (step true (kid s w) o) as [[m r]|fl] eqn:S; [|discriminate]. intro H. inversion H; subst.
    pose proof (step_ok _ _ _ _ (kid_ok s w O) S) as M. unfold ok_world in *. cbn. apply andb_prop in O. destruct O as [O1 O2].
    rewrite O1. cbn [andb]. apply (put_kid_forallb ok_mock); assumption.
Qed.

Lemma body_ok : forall t w i a w' a', ok_world w = true -> body_from true w i t a = (BDone w', a') -> ok_world w' = true.
Proof.
  induction t as [|s r IH]; intros w i a w' a' O H; cbn [body_from] in H.
  - inversion H; subst. exact O.
  - destruct s as [so|[|]].
    + destruct (stepw true w so) as [[w1 rv]|fl] eqn:S; [|discriminate H]. eapply IH; [|exact H]. eapply stepw_ok; [exact O|exact S].
    + eapply IH; [exact O|exact H].
    + discriminate H.
Qed.

(* ---------------------------------------------------------------- calm *)
Definition calm_mock (m : mock) : bool :=
  done_mock m && negb (unfulfilled (m_exps m)) && negb (existsb e_ooo (m_exps m)).
Definition calm_world (w : world) : bool := calm_mock (w_g w) && forallb (fun k => calm_mock (snd k)) (w_kids w).

Lemma done_last_ok m : done_mock m = true -> last_ok m = true.
Proof.
  unfold done_mock, last_ok, done_call. destruct (m_last m) as [c|]; [|reflexivity].
  destruct (c_checked c); destruct (c_state c); cbn; congruence.
Qed.

(* a passing mock().checkExpectations() leaves a calm world *)
Lemma check_world_calm w w' : ok_world w = true -> check_world w = inl w' -> calm_world w' = true.
Proof.
  intros O. unfold check_world. destruct (finish_all w) as [w1|fl] eqn:F; [|discriminate].
  destruct (finish_all_done _ _ O F) as [D1 D2].
  assert (LO : last_ok_all w1 = true).
  { unfold last_ok_all. rewrite (done_last_ok _ D1). cbn [andb]. rewrite forallb_forall in *. intros x I. apply done_last_ok. apply D2. exact I. }
  rewrite LO. cbn [andb]. destruct (left_all w1) eqn:LA; [discriminate|]. destruct (ooo_all w1) eqn:OO; [discriminate|].
  intro H. inversion H; subst w'. unfold left_all in LA. unfold ooo_all in OO.
  apply orb_false_elim in LA. destruct LA as [LA1 LA2]. apply orb_false_elim in OO. destruct OO as [OO1 OO2].
  unfold calm_world, calm_mock. rewrite D1, LA1, OO1. cbn [andb negb].
  rewrite forallb_forall. intros x I. rewrite forallb_forall in D2. rewrite (D2 x I). cbn [andb].
  assert (U : unfulfilled (m_exps (snd x)) = false).
  { destruct (unfulfilled (m_exps (snd x))) eqn:U; [|reflexivity]. exfalso.
    assert (E : existsb (fun k : N * mock => unfulfilled (m_exps (snd k))) (w_kids w1) = true) by (apply existsb_exists; exists x; auto). congruence. }
  assert (Q : existsb e_ooo (m_exps (snd x)) = false).
  { destruct (existsb e_ooo (m_exps (snd x))) eqn:Q; [|reflexivity]. exfalso.
    assert (E : existsb (fun k : N * mock => existsb e_ooo (m_exps (snd k))) (w_kids w1) = true) by (apply existsb_exists; exists x; auto). congruence. }
  rewrite U, Q. reflexivity.
Qed.

(* on a calm mock checkExpectations of the last call changes nothing that matters and reports nothing *)
Lemma finish_last_calm m : calm_mock m = true -> exists m', finish_last m = inl m' /\ calm_mock m' = true /\ finish_last_nl m = (m', []).
Proof.
  unfold calm_mock, finish_last, finish_last_nl, done_mock. intro C.
  destruct (m_last m) as [c|] eqn:L.
  - apply andb_prop in C. destruct C as [C C3]. apply andb_prop in C. destruct C as [C1 C2].
    assert (K : c_checked c = true) by (unfold done_call in C1; apply andb_prop in C1; tauto).
    unfold check_call. rewrite K. eexists. split; [reflexivity|]. split; [|reflexivity]. cbn [m_last m_exps with_exps]. rewrite C1, C2, C3. reflexivity.
  - exists m. split; [reflexivity|]. split; [|reflexivity]. rewrite L. exact C.
Qed.

Lemma calm_parts m : calm_mock m = true -> last_ok m = true /\ unfulfilled (m_exps m) = false /\ existsb e_ooo (m_exps m) = false.
Proof.
  unfold calm_mock. intro C. apply andb_prop in C. destruct C as [C C3]. apply andb_prop in C. destruct C as [C1 C2].
  split; [apply done_last_ok; exact C1|]. split; [destruct (unfulfilled (m_exps m)); [discriminate C2|reflexivity]|destruct (existsb e_ooo (m_exps m)); [discriminate C3|reflexivity]].
Qed.

Lemma finish_kids_calm : forall kids, forallb (fun k => calm_mock (snd k)) kids = true ->
  exists kids', finish_kids kids = inl kids' /\ forallb (fun k => calm_mock (snd k)) kids' = true /\ finish_kids_nl kids = (kids', []).
Proof.
  induction kids as [|[t m] r IH]; intro C.
  - exists []. repeat split.
  - cbn [forallb snd] in C. apply andb_prop in C. destruct C as [C1 C2].
    destruct (finish_last_calm m C1) as [m' [F [CM FN]]]. destruct (IH C2) as [r' [FK [CK FKN]]].
    exists ((t, m') :: r'). cbn [finish_kids finish_kids_nl]. rewrite F, FK, FN, FKN. cbn [forallb snd]. rewrite CM, CK. repeat split.
Qed.
Lemma finish_all_calm w : calm_world w = true ->
  exists w', finish_all w = inl w' /\ calm_world w' = true /\ finish_all_nl w = (w', []).
Proof.
  unfold calm_world. intro C. apply andb_prop in C. destruct C as [C1 C2].
  destruct (finish_last_calm _ C1) as [g [F [CG FN]]]. destruct (finish_kids_calm _ C2) as [ks [FK [CK FKN]]].
  exists {| w_g := g; w_kids := ks |}. unfold finish_all, finish_all_nl. rewrite F, FK, FN, FKN. cbn. rewrite CG, CK. repeat split.
Qed.

Lemma calm_world_quiet w : calm_world w = true -> last_ok_all w && left_all w = false /\ ooo_all w = false.
Proof.
  unfold calm_world. intro C. apply andb_prop in C. destruct C as [C1 C2].
  destruct (calm_parts _ C1) as [_ [U1 Q1]].
  assert (LA : left_all w = false).
  { unfold left_all. rewrite U1. cbn [orb]. destruct (existsb _ (w_kids w)) eqn:E; [|reflexivity]. exfalso.
    apply existsb_exists in E. destruct E as [x [I U]]. rewrite forallb_forall in C2. destruct (calm_parts _ (C2 x I)) as [_ [U2 _]]. congruence. }
  assert (OO : ooo_all w = false).
  { unfold ooo_all. rewrite Q1. cbn [orb]. destruct (existsb _ (w_kids w)) eqn:E; [|reflexivity]. exfalso.
    apply existsb_exists in E. destruct E as [x [I U]]. rewrite forallb_forall in C2. destruct (calm_parts _ (C2 x I)) as [_ [_ Q2]]. congruence. }
  rewrite LA, OO, andb_false_r. split; reflexivity.
Qed.

(* the plugin's end-of-test check on a calm world delivers nothing *)
Lemma post_world_calm w : calm_world w = true -> post_world w = [].
Proof.
  intro C. unfold post_world. destruct (finish_all_calm w C) as [w' [_ [CW FN]]]. rewrite FN.
  destruct (calm_world_quiet w' CW) as [A B]. rewrite A, B. reflexivity.
Qed.

Lemma kid_calm s w : calm_world w = true -> calm_mock (kid s w) = true.
Proof.
  unfold calm_world, kid. intro C. apply andb_prop in C. destruct C as [_ C2].
  destruct (lookup_kid s (w_kids w)) as [m|] eqn:L; [eapply (lookup_kid_forallb calm_mock); eauto|reflexivity].
Qed.

(* checkExpectations() / clear() on mock() or on a scope of a calm world go through and leave a calm world *)
Lemma stepw_calm w so : calm_world w = true -> td_valid [so] = true ->
  exists w', stepw true w so = inl (w', no_effect) /\ calm_world w' = true.
Proof.
  intros C V. destruct so as [s o]. unfold td_valid in V. cbn in V. unfold stepw. destruct (s =? 0) eqn:Z.
  - destruct o; try discriminate V.
    + unfold check_world. destruct (finish_all_calm w C) as [w' [F [CW _]]]. rewrite F.
      destruct (calm_world_quiet w' CW) as [A B]. rewrite A, B. exists w'. split; [reflexivity|exact CW].
    + exists world0. split; reflexivity.
  - pose proof (kid_calm s w C) as K. unfold calm_world in C. apply andb_prop in C. destruct C as [C1 C2].
    destruct o; try discriminate V; cbn [step].
    + unfold check_expectations. destruct (finish_last_calm _ K) as [m' [F [CM _]]]. rewrite F.
      destruct (calm_parts _ CM) as [_ [U Q]]. rewrite U, Q, andb_false_r. eexists. split; [reflexivity|].
      unfold calm_world. cbn. rewrite C1. cbn [andb]. apply (put_kid_forallb calm_mock); assumption.
    + eexists. split; [reflexivity|]. unfold calm_world. cbn. rewrite C1. cbn [andb]. apply (put_kid_forallb calm_mock); [assumption|reflexivity].
Qed.

Lemma td_valid_cons so r : td_valid (so :: r) = true -> td_valid [so] = true /\ td_valid r = true.
Proof. unfold td_valid. cbn [forallb]. intro H. apply andb_prop in H. destruct H as [A B]. rewrite A. auto. Qed.

(* a teardown on a calm world, the test not failed: nothing is delivered, the world stays calm *)
Lemma td_calm : forall td w j, calm_world w = true -> td_valid td = true ->
  exists w', td_from rep_default true false w j td = (w', []) /\ calm_world w' = true.
Proof.
  induction td as [|so r IH]; intros w j C V.
  - exists w. split; [reflexivity|exact C].
  - destruct (td_valid_cons _ _ V) as [V1 V2]. cbn [td_from rep_default negb].
    destruct (stepw_calm w so C V1) as [w1 [S C1]]. rewrite S. apply IH; assumption.
Qed.
