(* C18: the translated SimpleStringInternalCache (gen/Gen_HeapC18.v, regenerated from /repo on every run) run on a heap that
   represents a model state (C18_HeapRep.v: rep) does what the hand-written model (C18_Model.v) does: same return value, a heap
   representing the model's new state, the allocator events of the model (after erasing the ghost events), the warning exactly
   when the model warns, nothing outside the structure touched.  Helper functions first, then the four public operations. *)
From Coq Require Import ZArith NArith Bool List Lia.
From CppUVerif Require Import lib.CSem lib.CMem lib.CMemFacts lib.CHeap gen.Gen_C18 gen.Gen_HeapC18 C18_Model C18_HeapRep.
Import ListNotations.
Local Open Scope Z_scope.

(* ------------------------------------------------------------------ cell access *)
Lemma t_z2b_ptr b i : z2b (hp_bool (HPtr b i)) = true. Proof. reflexivity. Qed.
Lemma t_z2b_null : z2b (hp_bool HNull) = false. Proof. reflexivity. Qed.

Lemma t_hpadd h b i k j : Z.of_nat i + k = Z.of_nat j -> (j <= length (hblock h b))%nat ->
  hpadd h (HPtr b (Z.of_nat i)) k = Some (HPtr b (Z.of_nat j)).
Proof.
  intros E L. cbn [hpadd]. rewrite E. replace (0 <=? Z.of_nat j) with true by (symmetry; apply Z.leb_le; lia).
  replace (Z.of_nat j <=? Z.of_nat (length (hblock h b))) with true by (symmetry; apply Z.leb_le; lia). reflexivity.
Qed.
Lemma t_hpadd0 h b k j : k = Z.of_nat j -> (j <= length (hblock h b))%nat -> hpadd h (HPtr b 0) k = Some (HPtr b (Z.of_nat j)).
Proof. intros E L. exact (t_hpadd h b 0 k j E L). Qed.
Lemma t_load_ptr h b k q : nth_error (hblock h b) k = Some (VPtr q) -> hload_ptr h (HPtr b (Z.of_nat k)) = Some q.
Proof. intro H. unfold hload_ptr. rewrite hload_cell. unfold cell. rewrite H. reflexivity. Qed.
Lemma t_load_int h b k z : nth_error (hblock h b) k = Some (VInt z) -> hload_int h (HPtr b (Z.of_nat k)) = Some z.
Proof. intro H. unfold hload_int. rewrite hload_cell. unfold cell. rewrite H. reflexivity. Qed.
Lemma t_load_ptr0 h b q : nth_error (hblock h b) 0 = Some (VPtr q) -> hload_ptr h (HPtr b 0) = Some q.
Proof. exact (t_load_ptr h b 0 q). Qed.
Lemma t_store h b k v : (k < length (hblock h b))%nat -> (b < length h)%nat ->
  exists h', hstore h (HPtr b (Z.of_nat k)) v = Some h' /\ length h' = length h /\
    (forall b', b' <> b -> hblock h' b' = hblock h b') /\ hblock h' b = upd (hblock h b) k v.
Proof.
  intros L1 L2. exists (upd h b (upd (hblock h b) k v)). split; [|split; [|split]].
  - rewrite hstore_cell. replace (Nat.ltb k (length (hblock h b))) with true by (symmetry; apply Nat.ltb_lt; exact L1).
    replace (Nat.ltb b (length h)) with true by (symmetry; apply Nat.ltb_lt; exact L2). reflexivity.
  - apply heap_upd_length.
  - intros b' Hne. apply hblock_upd_other. intro E. apply Hne. symmetry. exact E.
  - apply hblock_upd_same. exact L2.
Qed.
Lemma t_store0 h b v : (0 < length (hblock h b))%nat -> (b < length h)%nat ->
  exists h', hstore h (HPtr b 0) v = Some h' /\ length h' = length h /\
    (forall b', b' <> b -> hblock h' b' = hblock h b') /\ hblock h' b = upd (hblock h b) 0 v.
Proof. exact (t_store h b 0 v). Qed.

(* a block holding a SimpleStringMemoryBlock *)
Section Blk.
  Variables (h : heap) (hb : nat) (b : mblock) (nxt : hptr).
  Hypothesis Hb : hblock h hb = blk_cells b nxt.
  Lemma t_blk_padd1 : hpadd h (HPtr hb 0) 1 = Some (HPtr hb 1).
  Proof. exact (t_hpadd0 h hb 1 1 eq_refl ltac:(rewrite Hb; cbn; lia)). Qed.
  Lemma t_blk_mem : hload_int h (HPtr hb 1) = Some (Z.of_N (b_mem b)).
  Proof. apply (t_load_int h hb 1). rewrite Hb. reflexivity. Qed.
  Lemma t_blk_next : hload_ptr h (HPtr hb 0) = Some nxt.
  Proof. apply t_load_ptr0. rewrite Hb. reflexivity. Qed.
  Lemma t_blk_set_next q : (hb < length h)%nat ->
    exists h', hstore h (HPtr hb 0) (VPtr q) = Some h' /\ length h' = length h /\
      (forall b', b' <> hb -> hblock h' b' = hblock h b') /\ hblock h' hb = blk_cells b q.
  Proof.
    intro L. destruct (t_store0 h hb (VPtr q)) as [h' [A [B [C D]]]]; [rewrite Hb; cbn; lia | exact L|].
    exists h'. split; [exact A|]. split; [exact B|]. split; [exact C|]. rewrite D, Hb. reflexivity.
  Qed.
End Blk.

Lemma t_mem_eq (b : mblock) (p : mptr) : z2b (c_eq (Z.of_N (b_mem b)) (addr_of p)) = mem_is b p.
Proof.
  unfold c_eq. rewrite b2z_z2b. destruct p as [m|k]; cbn [addr_of mem_is].
  - destruct (N.eqb_spec (b_mem b) m) as [E|E]; [subst; apply Z.eqb_refl | apply Z.eqb_neq; lia].
  - apply Z.eqb_neq. lia.
Qed.
Lemma t_leb_N x y : z2b (c_le (Z.of_N x) (Z.of_N y)) = (x <=? y)%N.
Proof.
  unfold c_le. rewrite b2z_z2b. destruct (N.leb_spec x y); [apply Z.leb_le | apply Z.leb_gt]; lia.
Qed.

(* ------------------------------------------------------------------ isCached, getIndexForCache, getCacheNodeFromSize *)
Lemma t_isCached fuel h evs nx this n :
  src_cache_isCached fuel h evs nx this (Z.of_N n) = FOk (b2z (is_cached n), h, evs, nx).
Proof.
  unfold src_cache_isCached, finish, is_cached, cached_bound. change 256 with (Z.of_N 256).
  unfold c_le. replace (Z.of_N n <=? Z.of_N 256) with (n <=? 256)%N; [reflexivity|].
  destruct (N.leb_spec n 256); symmetry; [apply Z.leb_le | apply Z.leb_gt]; lia.
Qed.

Lemma index_from_bound n : forall c i j, index_from i c n = Some j -> (i <= j < i + length c)%nat.
Proof.
  induction c as [|nd c IH]; intros i j H; cbn [index_from] in H; [discriminate H|].
  destruct (n <=? n_size nd)%N.
  - inversion H; subst. cbn [length]. lia.
  - apply IH in H. cbn [length]. lia.
Qed.
Lemma index_for_bound c n : (0 < length c)%nat -> (index_for c n < length c)%nat.
Proof.
  intro H. unfold index_for. destruct (index_from 0 c n) as [j|] eqn:E; [|exact H]. apply index_from_bound in E. lia.
Qed.
Lemma skipn_nth_cons (c : list mnode) : forall i, (i < length c)%nat -> skipn i c = nth i c dnode :: skipn (S i) c.
Proof.
  induction c as [|x c IH]; intros [|i] H; cbn [length] in H; try lia; [reflexivity|].
  cbn [skipn nth]. rewrite (IH i) by lia. reflexivity.
Qed.

(* the cells of the cache object and of the node array *)
Section This.
  Variables (h : heap) (bt bn : nat) (al : Z) (pn : hptr) (w : bool).
  Hypothesis Hbt : hblock h bt = cache_cells al bn pn w.
  Lemma t_this_padd1 : hpadd h (HPtr bt 0) 1 = Some (HPtr bt 1).
  Proof. exact (t_hpadd0 h bt 1 1 eq_refl ltac:(rewrite Hbt; cbn; lia)). Qed.
  Lemma t_this_padd2 : hpadd h (HPtr bt 0) 2 = Some (HPtr bt 2).
  Proof. exact (t_hpadd0 h bt 2 2 eq_refl ltac:(rewrite Hbt; cbn; lia)). Qed.
  Lemma t_this_padd3 : hpadd h (HPtr bt 0) 3 = Some (HPtr bt 3).
  Proof. exact (t_hpadd0 h bt 3 3 eq_refl ltac:(rewrite Hbt; cbn; lia)). Qed.
  Lemma t_this_cache : hload_ptr h (HPtr bt 1) = Some (HPtr bn 0).
  Proof. apply (t_load_ptr h bt 1). rewrite Hbt. reflexivity. Qed.
  Lemma t_this_non : hload_ptr h (HPtr bt 2) = Some pn.
  Proof. apply (t_load_ptr h bt 2). rewrite Hbt. reflexivity. Qed.
  Lemma t_this_warned : hload_int h (HPtr bt 3) = Some (b2z w).
  Proof. apply (t_load_int h bt 3). rewrite Hbt. reflexivity. Qed.
End This.
Section Arr.
  Variables (h : heap) (bn : nat).
  Hypothesis Hlen : length (hblock h bn) = 15%nat.
  Lemma t_node_ptr i : (i < 5)%nat -> hpadd h (HPtr bn 0) (Z.of_nat i * 3) = Some (HPtr bn (Z.of_nat (3 * i))).
  Proof. intro H. apply t_hpadd0; [lia | rewrite Hlen; lia]. Qed.
  Lemma t_node_padd1 i : (i < 5)%nat -> hpadd h (HPtr bn (Z.of_nat (3 * i))) 1 = Some (HPtr bn (Z.of_nat (3 * i + 1))).
  Proof. intros H1. apply t_hpadd; [lia | rewrite Hlen; lia]. Qed.
  Lemma t_node_padd2 i : (i < 5)%nat -> hpadd h (HPtr bn (Z.of_nat (3 * i))) 2 = Some (HPtr bn (Z.of_nat (3 * i + 2))).
  Proof. intros H1. apply t_hpadd; [lia | rewrite Hlen; lia]. Qed.
End Arr.

(* what the read-only helpers need from the heap *)
Section Nodes.
  Variables (h : heap) (bt bn : nat) (al : Z) (pn : hptr) (w : bool) (c : list mnode).
  Hypothesis Hbt : hblock h bt = cache_cells al bn pn w.
  Hypothesis Hlen : length (hblock h bn) = 15%nat.
  Hypothesis Hc : length c = 5%nat.
  Hypothesis Hsz : forall i, (i < 5)%nat -> nth_error (hblock h bn) (3 * i) = Some (VInt (Z.of_N (n_size (nth i c dnode)))).

  Lemma t_node_size i : (i < 5)%nat -> hload_int h (HPtr bn (Z.of_nat (3 * i))) = Some (Z.of_N (n_size (nth i c dnode))).
  Proof. intro H. apply t_load_int. apply Hsz. exact H. Qed.

  Lemma t_getIndex_loop fuel0 evs nx n : forall d i fuel, (i + d = 5)%nat -> (d < fuel)%nat ->
    src_cache_getIndexForCache_loop1 fuel0 fuel h (HPtr bt 0) evs nx (Z.of_N n) (Z.of_nat i) =
    match index_from i (skipn i c) n with Some j => Done (Z.of_nat j, h, evs, nx) | None => Go 5 end.
  Proof.
    induction d as [|d IH]; intros i fuel Hi Hf; (destruct fuel as [|fuel]; [lia|]); cbn [src_cache_getIndexForCache_loop1].
    - assert (i = 5%nat) by lia. subst i. rewrite skipn_all2 by lia. reflexivity.
    - replace (z2b (c_lt (Z.of_nat i) 5)) with true
        by (unfold c_lt; replace (Z.of_nat i <? 5) with true by (symmetry; apply Z.ltb_lt; lia); reflexivity).
      rewrite (t_this_padd1 _ _ _ _ _ _ Hbt). cbv beta iota. rewrite (t_this_cache _ _ _ _ _ _ Hbt). cbv beta iota.
      rewrite (t_node_ptr _ _ Hlen i) by lia. cbv beta iota. rewrite (t_node_size i) by lia. cbv beta iota.
      rewrite t_leb_N. rewrite (skipn_nth_cons c i) by lia. cbn [index_from].
      destruct (n <=? n_size (nth i c dnode))%N; [reflexivity|]. cbv zeta.
      replace (cw 64 false (Z.of_nat i + 1)) with (Z.of_nat (S i)).
      + apply IH; lia.
      + rewrite cw_u_small; [lia|]. change (2 ^ 64) with 18446744073709551616. lia.
  Qed.

  Lemma t_getIndex fuel evs nx n : (5 < fuel)%nat ->
    src_cache_getIndexForCache fuel h evs nx (HPtr bt 0) (Z.of_N n) = FOk (Z.of_nat (index_for c n), h, evs, nx).
  Proof.
    intro Hf. unfold src_cache_getIndexForCache. cbv zeta. pose proof (t_getIndex_loop fuel evs nx n 5 0 fuel eq_refl Hf) as H.
    change (Z.of_nat 0) with 0 in H. rewrite H. cbn [skipn]. unfold index_for.
    destruct (index_from 0 c n); reflexivity.
  Qed.

  Lemma t_getNode fuel evs nx n : (5 < fuel)%nat ->
    src_cache_getCacheNodeFromSize fuel h evs nx (HPtr bt 0) (Z.of_N n) =
    FOk (HPtr bn (Z.of_nat (3 * index_for c n)), h, evs, nx).
  Proof.
    intro Hf. unfold src_cache_getCacheNodeFromSize. rewrite t_getIndex by exact Hf. cbv beta iota zeta.
    rewrite (t_this_padd1 _ _ _ _ _ _ Hbt). cbv beta iota. rewrite (t_this_cache _ _ _ _ _ _ Hbt). cbv beta iota.
    rewrite (t_node_ptr _ _ Hlen); [reflexivity|]. rewrite <- Hc. apply index_for_bound. lia.
  Qed.
End Nodes.

(* ------------------------------------------------------------------ createSimpleStringMemoryBlock, destroySimpleStringMemoryBlock(List) *)
Lemma t_hblock_new (h : heap) x : hblock (h ++ [x]) (length h) = x.
Proof. unfold hblock. rewrite app_nth2 by lia. rewrite Nat.sub_diag. reflexivity. Qed.
Lemma t_hblock_old (h : heap) x b : (b < length h)%nat -> hblock (h ++ [x]) b = hblock h b.
Proof. intro H. unfold hblock. apply app_nth1. exact H. Qed.
Lemma t_hstore_new (h : heap) x k v : (k < length x)%nat ->
  hstore (h ++ [x]) (HPtr (length h) (Z.of_nat k)) v = Some (h ++ [upd x k v]).
Proof.
  intro L. rewrite hstore_cell. rewrite t_hblock_new.
  replace (Nat.ltb k (length x)) with true by (symmetry; apply Nat.ltb_lt; exact L).
  replace (Nat.ltb (length h) (length (h ++ [x]))) with true by (symmetry; apply Nat.ltb_lt; rewrite app_length; cbn; lia).
  cbn [andb]. rewrite upd_app_mid. reflexivity.
Qed.

Lemma t_create fuel h evs nx this size next :
  src_cache_createSimpleStringMemoryBlock fuel h evs nx this size next =
  FOk (HPtr (length h) 0, h ++ [[VPtr next; VInt (nx + 1)]],
       evs ++ [HAllocRec nx (HPtr (length h) 0) sizeof_SimpleStringMemoryBlock; HAllocBuf (nx + 1) size], nx + 1 + 1).
Proof.
  unfold src_cache_createSimpleStringMemoryBlock. cbv zeta.
  rewrite (t_hpadd0 _ (length h) 1 1 eq_refl) by (rewrite t_hblock_new; cbn; lia). cbv beta iota.
  rewrite (t_hstore_new h _ 1) by (cbn; lia). cbv beta iota.
  change (HPtr (length h) 0) with (HPtr (length h) (Z.of_nat 0)). rewrite (t_hstore_new h _ 0) by (cbn; lia). cbv beta iota.
  rewrite <- app_assoc. reflexivity.
Qed.

Lemma t_destroy fuel h evs nx this hb b nxt size : hblock h hb = blk_cells b nxt ->
  src_cache_destroySimpleStringMemoryBlock fuel h evs nx this (HPtr hb 0) size =
  FOk (tt, h, evs ++ [HFreeBuf (Z.of_N (b_mem b)) size; HFreeRec (HPtr hb 0) sizeof_SimpleStringMemoryBlock], nx).
Proof.
  intro Hb. unfold src_cache_destroySimpleStringMemoryBlock. rewrite (t_blk_padd1 _ _ _ _ Hb). cbv beta iota.
  rewrite (t_blk_mem _ _ _ _ Hb). cbv beta iota zeta. rewrite <- app_assoc. reflexivity.
Qed.

(* the ghost events of destroying a represented list *)
Fixpoint destroy_hevs (size : Z) (bs : list nat) (l : list mblock) : list hev :=
  match l, bs with
  | b :: l', hb :: bs' =>
      HFreeBuf (Z.of_N (b_mem b)) size :: HFreeRec (HPtr hb 0) sizeof_SimpleStringMemoryBlock :: destroy_hevs size bs' l'
  | _, _ => []
  end.

Lemma t_destroyList_loop fuel0 this size h ids nx : forall l fuel p bs evs,
  chain h ids p bs l -> (length l < fuel)%nat ->
  src_cache_destroySimpleStringMemoryBlockList_loop1 fuel0 fuel this size h evs nx p =
  Go (h, evs ++ destroy_hevs size bs l, nx, HNull).
Proof.
  induction l as [|b l IH]; intros fuel p bs evs Hc Hf; (destruct fuel as [|fuel]; [cbn in Hf; lia|]);
    cbn [src_cache_destroySimpleStringMemoryBlockList_loop1].
  - apply chain_nil_inv in Hc. destruct Hc as [-> ->]. rewrite t_z2b_null. cbn [destroy_hevs]. rewrite app_nil_r. reflexivity.
  - apply chain_cons_inv in Hc. destruct Hc as [hb [bs' [nxt [-> [-> [Hl [Hb Hc]]]]]]]. rewrite t_z2b_ptr. cbv beta iota.
    rewrite (t_blk_next _ _ _ _ Hb). cbv beta iota zeta. rewrite (t_destroy fuel0 h evs nx this hb b nxt size Hb). cbv beta iota.
    cbn [length] in Hf. rewrite (IH fuel nxt bs' _ Hc) by lia. cbn [destroy_hevs]. rewrite <- app_assoc. reflexivity.
Qed.

Lemma t_destroyList fuel this size h ids nx p bs l evs : chain h ids p bs l -> (length l < fuel)%nat ->
  src_cache_destroySimpleStringMemoryBlockList fuel h evs nx this p size = FOk (tt, h, evs ++ destroy_hevs size bs l, nx).
Proof.
  intros Hc Hf. unfold src_cache_destroySimpleStringMemoryBlockList. cbv zeta.
  rewrite (t_destroyList_loop fuel this size h ids nx l fuel p bs evs Hc Hf). reflexivity.
Qed.

(* their erasure is the model's destroy_list; no warning among them *)
Lemma t_destroy_hevs_erase h ids ids' sz : forall l p bs, chain h ids p bs l ->
  (forall b, In b bs -> lookup b ids' = lookup b ids) ->
  erase_all ids' (destroy_hevs (Z.of_N sz) bs l) = destroy_list sz l /\
  Forall (resolved ids') (destroy_hevs (Z.of_N sz) bs l) /\ has_warn (destroy_hevs (Z.of_N sz) bs l) = false.
Proof.
  induction l as [|b l IH]; intros p bs Hc Hi.
  - apply chain_nil_inv in Hc. destruct Hc as [-> ->]. cbn. split; [reflexivity|]. split; [constructor | reflexivity].
  - apply chain_cons_inv in Hc. destruct Hc as [hb [bs' [nxt [-> [-> [Hl [Hb Hc]]]]]]].
    destruct (IH nxt bs' Hc) as [A [B C]]; [intros x Hx; apply Hi; right; exact Hx|].
    assert (Hl' : lookup hb ids' = Some (b_hdr b)) by (rewrite Hi by (left; reflexivity); exact Hl).
    cbn [destroy_hevs]. split; [|split].
    + unfold erase_all in *. cbn [flat_map erase]. rewrite Hl'. rewrite A. unfold destroy_list. cbn [flat_map destroy_block app].
      rewrite !N2Z.id. reflexivity.
    + constructor; [exact I|]. constructor; [|exact B]. cbn [resolved]. rewrite Hl'. discriminate.
    + exact C.
Qed.

(* ------------------------------------------------------------------ distinctness facts from NoDup (lay_blocks L), by counting *)
Lemma cnt_nth_le x : forall (ls : list (list nat)) i, (cnt x (nth i ls []) <= cnt x (concat ls))%nat.
Proof.
  induction ls as [|a ls IH]; intros [|i]; cbn [nth concat]; try rewrite cnt_app; try rewrite cnt_nil; try lia.
  specialize (IH i). lia.
Qed.
Lemma cnt_nth2_le x : forall (ls : list (list nat)) i j, i <> j -> (cnt x (nth i ls []) + cnt x (nth j ls []) <= cnt x (concat ls))%nat.
Proof.
  induction ls as [|a ls IH]; intros [|i] [|j] H; cbn [nth concat]; try rewrite cnt_app; try rewrite cnt_nil; try lia.
  - pose proof (cnt_nth_le x ls j). lia.
  - pose proof (cnt_nth_le x ls i). lia.
  - specialize (IH i j ltac:(lia)). lia.
Qed.
Lemma lay_cnt_slots L x i j : NoDup (lay_blocks L) ->
  (one (l_bt L) x + one (l_bn L) x + cnt x (nth i (l_fr L) []) + cnt x (nth j (l_us L) []) + cnt x (l_non L) <= 1)%nat.
Proof.
  intro H. apply NoDup_cnt with (x := x) in H. rewrite cnt_lay in H.
  pose proof (cnt_nth_le x (l_fr L) i). pose proof (cnt_nth_le x (l_us L) j). lia.
Qed.
Lemma lay_cnt_fr2 L x i j : NoDup (lay_blocks L) -> i <> j -> (cnt x (nth i (l_fr L) []) + cnt x (nth j (l_fr L) []) <= 1)%nat.
Proof.
  intros H Hne. apply NoDup_cnt with (x := x) in H. rewrite cnt_lay in H. pose proof (cnt_nth2_le x (l_fr L) i j Hne). lia.
Qed.
Lemma lay_cnt_us2 L x i j : NoDup (lay_blocks L) -> i <> j -> (cnt x (nth i (l_us L) []) + cnt x (nth j (l_us L) []) <= 1)%nat.
Proof.
  intros H Hne. apply NoDup_cnt with (x := x) in H. rewrite cnt_lay in H. pose proof (cnt_nth2_le x (l_us L) i j Hne). lia.
Qed.
Lemma ne_one a x : a <> x <-> one a x = 0%nat.
Proof. unfold one. destruct (Nat.eq_dec a x); split; intro H; try lia; try contradiction; discriminate. Qed.
Lemma eq_one a x : a = x -> one a x = 1%nat.
Proof. intro H. subst. apply one_same. Qed.

Lemma one_sym a x : one a x = one x a.
Proof. unfold one. destruct (Nat.eq_dec a x), (Nat.eq_dec x a); congruence. Qed.

(* all membership hypotheses and goals as counts, then lia *)
Ltac cnt_solve :=
  repeat match goal with
         | H : In _ _ |- _ => apply In_cnt in H
         | H : ~ In _ _ |- _ => apply notIn_cnt in H
         | H : ?a <> ?b :> nat |- _ => pose proof (one_sym a b); apply ne_one in H
         end;
  try match goal with
      | |- ~ In _ _ => apply notIn_cnt
      | |- In _ _ => apply In_cnt
      | |- ?a <> ?b :> nat => pose proof (one_sym a b); apply ne_one
      end;
  rewrite ?cnt_cons, ?cnt_app, ?cnt_nil, ?one_same in *; try lia.

Ltac rep_inv H :=
  let Ht := fresh "Ht" in let pn := fresh "pn" in let Hbt := fresh "Hbt" in let Hnon := fresh "Hnon" in
  let Hc := fresh "Hc" in let Hfr := fresh "Hfr" in let Hus := fresh "Hus" in let Hlen := fresh "Hlen" in
  let Hnodes := fresh "Hnodes" in let Hnd := fresh "Hnd" in let Hbd := fresh "Hbd" in
  destruct H as [Ht [[pn [Hbt Hnon]] [Hc [Hfr [Hus [Hlen [Hnodes [Hnd Hbd]]]]]]]].

(* ------------------------------------------------------------------ rebuilding rep after a change at one node / at the non-cached list *)
Lemma rep_set_node h h' this ids ids' L st i nd' fr' us' :
  rep h this ids L st -> (i < 5)%nat -> (length h <= length h')%nat ->
  (forall b, In b (lay_blocks L) -> b <> l_bn L -> ~ In b (nth i (l_fr L) []) -> ~ In b (nth i (l_us L) []) ->
             hblock h' b = hblock h b) ->
  (forall b, In b (lay_blocks L) -> lookup b ids' = lookup b ids) ->
  length (hblock h' (l_bn L)) = 15%nat ->
  (forall k, k <> (3 * i + 1)%nat -> k <> (3 * i + 2)%nat -> nth_error (hblock h' (l_bn L)) k = nth_error (hblock h (l_bn L)) k) ->
  n_size nd' = n_size (nth i (s_cache st) dnode) ->
  (exists pf pu, nth_error (hblock h' (l_bn L)) (3 * i + 1) = Some (VPtr pf) /\
                 nth_error (hblock h' (l_bn L)) (3 * i + 2) = Some (VPtr pu) /\
                 chain h' ids' pf fr' (n_free nd') /\ chain h' ids' pu us' (n_used nd')) ->
  NoDup (lay_blocks (lay_set_node L i fr' us')) ->
  Forall (fun b => (b < length h')%nat) fr' -> Forall (fun b => (b < length h')%nat) us' ->
  rep h' this ids' (lay_set_node L i fr' us') (with_cache st (set_nth i nd' (s_cache st))).
Proof.
  intros Hrep Hi Hle Hfrm Hids Hlen' Hcells Hsz [pf' [pu' [Hpf [Hpu [Hcf Hcu]]]]] Hnd' Hbf Hbu. rep_inv Hrep.
  unfold rep. cbn [lay_set_node with_cache l_bt l_bn l_fr l_us l_non l_al s_cache s_non s_warned].
  split; [exact Ht|]. split; [|split; [|split; [|split; [|split; [|split; [|split]]]]]].
  - exists pn. split.
    + rewrite Hfrm; [exact Hbt | apply In_lay_bt | | |]; pose proof (lay_cnt_slots L (l_bt L) i i Hnd) as Q; cnt_solve.
    + apply chain_frame with (h := h) (ids := ids); [| |exact Hnon].
      * intros b Hb. pose proof (lay_cnt_slots L b i i Hnd) as Q.
        apply Hfrm; [apply In_lay_non; exact Hb | | |]; cnt_solve.
      * intros b Hb. apply Hids. apply In_lay_non. exact Hb.
  - rewrite set_nth_length. exact Hc.
  - rewrite upd_length. exact Hfr.
  - rewrite upd_length. exact Hus.
  - exact Hlen'.
  - intros j Hj. destruct (Nat.eq_dec i j) as [E|E].
    + subst j. exists pf', pu'. rewrite set_nth_same by lia. rewrite !nth_upd_same by lia.
      split; [|split; [exact Hpf | split; [exact Hpu | split; [exact Hcf | exact Hcu]]]].
      rewrite Hcells by lia. rewrite Hsz. destruct (Hnodes i Hi) as [pf [pu [A _]]]. exact A.
    + destruct (Hnodes j Hj) as [pf [pu [A [B [C [D F]]]]]]. exists pf, pu. rewrite set_nth_other by exact E.
      rewrite !nth_upd_other by exact E. rewrite !Hcells by lia.
      split; [exact A|]. split; [exact B|]. split; [exact C|]. split.
      * apply chain_frame with (h := h) (ids := ids); [| |exact D].
        -- intros b Hb. pose proof (lay_cnt_slots L b j i Hnd) as Q. pose proof (lay_cnt_fr2 L b i j Hnd E) as Q2.
           apply Hfrm; [apply (In_lay_fr L j); exact Hb | | |]; cnt_solve.
        -- intros b Hb. apply Hids. apply (In_lay_fr L j). exact Hb.
      * apply chain_frame with (h := h) (ids := ids); [| |exact F].
        -- intros b Hb. pose proof (lay_cnt_slots L b i j Hnd) as Q. pose proof (lay_cnt_us2 L b i j Hnd E) as Q2.
           apply Hfrm; [apply (In_lay_us L j); exact Hb | | |]; cnt_solve.
        -- intros b Hb. apply Hids. apply (In_lay_us L j). exact Hb.
  - exact Hnd'.
  - apply Forall_forall. intros x Hx. destruct (In_lay_set_node _ _ _ _ _ Hx) as [H|[H|H]].
    + exact (proj1 (Forall_forall _ _) Hbf x H).
    + exact (proj1 (Forall_forall _ _) Hbu x H).
    + apply Nat.lt_le_trans with (length h); [exact (proj1 (Forall_forall _ _) Hbd x H) | exact Hle].
Qed.

Lemma rep_set_non h h' this ids ids' L st non' l' w' :
  rep h this ids L st -> (length h <= length h')%nat ->
  (forall b, In b (lay_blocks L) -> b <> l_bt L -> ~ In b (l_non L) -> hblock h' b = hblock h b) ->
  (forall b, In b (lay_blocks L) -> lookup b ids' = lookup b ids) ->
  (exists pn, hblock h' (l_bt L) = cache_cells (l_al L) (l_bn L) pn w' /\ chain h' ids' pn non' l') ->
  NoDup (lay_blocks (lay_set_non L non')) -> Forall (fun b => (b < length h')%nat) non' ->
  rep h' this ids' (lay_set_non L non') {| s_cache := s_cache st; s_non := l'; s_warned := w'; s_next := s_next st |}.
Proof.
  intros Hrep Hle Hfrm Hids Hnew Hnd' Hbn. rep_inv Hrep.
  unfold rep. cbn [lay_set_non l_bt l_bn l_fr l_us l_non l_al s_cache s_non s_warned].
  split; [exact Ht|]. split; [exact Hnew|]. split; [exact Hc|]. split; [exact Hfr|]. split; [exact Hus|].
  assert (Hbnb : hblock h' (l_bn L) = hblock h (l_bn L)).
  { pose proof (lay_cnt_slots L (l_bn L) 0 0 Hnd) as Q. apply Hfrm; [apply In_lay_bn | |]; cnt_solve. }
  split; [rewrite Hbnb; exact Hlen|]. split; [|split; [exact Hnd'|]].
  - intros j Hj. destruct (Hnodes j Hj) as [pf [pu [A [B [C [D F]]]]]]. exists pf, pu. rewrite Hbnb.
    split; [exact A|]. split; [exact B|]. split; [exact C|]. split.
    + apply chain_frame with (h := h) (ids := ids); [| |exact D].
      * intros b Hb. pose proof (lay_cnt_slots L b j j Hnd) as Q. apply Hfrm; [apply (In_lay_fr L j); exact Hb | |]; cnt_solve.
      * intros b Hb. apply Hids. apply (In_lay_fr L j). exact Hb.
    + apply chain_frame with (h := h) (ids := ids); [| |exact F].
      * intros b Hb. pose proof (lay_cnt_slots L b j j Hnd) as Q. apply Hfrm; [apply (In_lay_us L j); exact Hb | |]; cnt_solve.
      * intros b Hb. apply Hids. apply (In_lay_us L j). exact Hb.
  - apply Forall_forall. intros x Hx. destruct (In_lay_set_non _ _ _ Hx) as [H|H].
    + exact (proj1 (Forall_forall _ _) Hbn x H).
    + apply Nat.lt_le_trans with (length h); [exact (proj1 (Forall_forall _ _) Hbd x H) | exact Hle].
Qed.

(* a store into one cell of the node array *)
Lemma t_node_store h bn k v : length (hblock h bn) = 15%nat -> (k < 15)%nat -> (bn < length h)%nat ->
  exists h', hstore h (HPtr bn (Z.of_nat k)) v = Some h' /\ length h' = length h /\
    (forall b', b' <> bn -> hblock h' b' = hblock h b') /\ length (hblock h' bn) = 15%nat /\
    nth_error (hblock h' bn) k = Some v /\ (forall k', k' <> k -> nth_error (hblock h' bn) k' = nth_error (hblock h bn) k').
Proof.
  intros Hl Hk Hb. destruct (t_store h bn k v) as [h' [A [B [C D]]]]; [lia | exact Hb|].
  exists h'. split; [exact A|]. split; [exact B|]. split; [exact C|]. rewrite D. split; [rewrite upd_length; exact Hl|].
  split; [apply nth_error_upd_same; lia|]. intros k' Hk'. apply nth_error_upd_other. intro E. apply Hk'. symmetry. exact E.
Qed.

(* ------------------------------------------------------------------ reserveCachedBlockFrom *)
Lemma t_reserve fuel h evs nx this ids L st i b frl :
  rep h this ids L st -> (i < 5)%nat -> n_free (nth i (s_cache st) dnode) = b :: frl ->
  exists h' hb tl q,
    nth i (l_fr L) [] = hb :: tl /\
    src_cache_reserveCachedBlockFrom fuel h evs nx this (HPtr (l_bn L) (Z.of_nat (3 * i))) = FOk (HPtr hb 0, h', evs, nx) /\
    hblock h' hb = blk_cells b q /\
    rep h' this ids (lay_set_node L i tl (hb :: nth i (l_us L) []))
        (with_cache st (set_nth i {| n_size := n_size (nth i (s_cache st) dnode); n_free := frl;
                                     n_used := b :: n_used (nth i (s_cache st) dnode) |} (s_cache st))) /\
    length h' = length h /\ (forall x, ~ In x (lay_blocks L) -> hblock h' x = hblock h x).
Proof.
  intros Hrep Hi Hfree. pose proof Hrep as Hrep0. rep_inv Hrep. set (bn := l_bn L) in *.
  destruct (Hnodes i Hi) as [pf [pu [Hs [Hpf [Hpu [Hcf Hcu]]]]]]. rewrite Hfree in Hcf.
  apply chain_cons_inv in Hcf. destruct Hcf as [hb [tl [nxt [Hfi [-> [Hlk [Hb Hct]]]]]]].
  assert (Hbnl : (bn < length h)%nat) by (apply (proj1 (Forall_forall _ _) Hbd); apply In_lay_bn).
  assert (Hhbin : In hb (nth i (l_fr L) [])) by (rewrite Hfi; left; reflexivity).
  assert (Hhbl : (hb < length h)%nat) by (apply (proj1 (Forall_forall _ _) Hbd); apply (In_lay_fr L i); exact Hhbin).
  assert (Hhbn : hb <> bn).
  { pose proof (lay_cnt_slots L hb i i Hnd) as Q. fold bn in Q. cnt_solve. }
  destruct (t_node_store h bn (3 * i + 1) (VPtr nxt) Hlen ltac:(lia) Hbnl) as [h1 [S1 [L1 [F1 [N1 [C1 O1]]]]]].
  assert (Hb1 : hblock h1 hb = blk_cells b nxt) by (rewrite F1 by exact Hhbn; exact Hb).
  destruct (t_blk_set_next h1 hb b nxt Hb1 pu ltac:(lia)) as [h2 [S2 [L2 [F2 B2]]]].
  assert (N2 : length (hblock h2 bn) = 15%nat) by (rewrite F2 by (intro E; apply Hhbn; symmetry; exact E); exact N1).
  destruct (t_node_store h2 bn (3 * i + 2) (VPtr (HPtr hb 0)) N2 ltac:(lia) ltac:(lia)) as [h3 [S3 [L3 [F3 [N3 [C3 O3]]]]]].
  assert (Hbn21 : hblock h2 bn = hblock h1 bn) by (apply F2; intro E; apply Hhbn; symmetry; exact E).
  exists h3, hb, tl, pu. split; [exact Hfi|]. split; [|split; [|split; [|split]]].
  - unfold src_cache_reserveCachedBlockFrom. fold bn.
    rewrite (t_node_padd1 h bn Hlen i Hi). cbv beta iota. rewrite (t_load_ptr _ _ _ _ Hpf). cbv beta iota zeta.
    rewrite (t_blk_next _ _ _ _ Hb). cbv beta iota. rewrite S1. cbv beta iota.
    rewrite (t_node_padd2 h1 bn N1 i Hi). cbv beta iota.
    rewrite (t_load_ptr h1 bn (3 * i + 2) pu) by (rewrite O1 by lia; exact Hpu). cbv beta iota.
    unfold src_cache_addToSimpleStringMemoryBlockList. rewrite S2. cbv beta iota. cbn [finish]. cbv beta iota.
    rewrite (t_node_padd2 h2 bn N2 i Hi). cbv beta iota. rewrite S3. reflexivity.
  - rewrite F3 by exact Hhbn. exact B2.
  - apply (rep_set_node h h3 this ids ids L st i) with (1 := Hrep0); try assumption.
    + lia.
    + intros x Hx Hxn Hxf Hxu. rewrite F3 by exact Hxn. rewrite F2 by (intro E; subst x; exact (Hxf Hhbin)). apply F1. exact Hxn.
    + intros; reflexivity.
    + fold bn. intros k K1 K2. rewrite O3 by exact K2. rewrite Hbn21. apply O1. exact K1.
    + reflexivity.
    + fold bn. exists nxt, (HPtr hb 0). cbn [n_free n_used]. split; [rewrite O3 by lia; rewrite Hbn21; exact C1|].
      split; [exact C3|]. split.
      * apply chain_frame with (h := h) (ids := ids); [| intros; reflexivity | exact Hct].
        intros x Hx. assert (Hxi : In x (nth i (l_fr L) [])) by (rewrite Hfi; right; exact Hx).
        assert (x <> hb).
        { pose proof (lay_cnt_fr2 L x i i Hnd) as _. apply NoDup_cnt with (x := x) in Hnd. rewrite cnt_lay in Hnd.
          pose proof (cnt_nth_le x (l_fr L) i) as Q. rewrite Hfi in Q. cnt_solve. }
        assert (x <> bn) by (pose proof (lay_cnt_slots L x i i Hnd) as Q; fold bn in Q; cnt_solve).
        rewrite F3, F2, F1 by assumption. reflexivity.
      * cbn [chain]. split; [reflexivity|]. split; [exact Hlk|]. exists pu. split; [rewrite F3 by exact Hhbn; exact B2|].
        apply chain_frame with (h := h) (ids := ids); [| intros; reflexivity | exact Hcu].
        intros x Hx. pose proof (lay_cnt_slots L x i i Hnd) as Q. fold bn in Q. rewrite Hfi in Q.
        assert (x <> hb) by cnt_solve. assert (x <> bn) by cnt_solve. rewrite F3, F2, F1 by assumption. reflexivity.
    + apply NoDup_cnt. intro x. pose proof (cnt_lay_set_node x L i tl (hb :: nth i (l_us L) []) ltac:(lia) ltac:(lia)) as Q.
      rewrite Hfi in Q. apply NoDup_cnt with (x := x) in Hnd. cnt_solve.
    + apply Forall_forall. intros x Hx. rewrite L3, L2, L1. apply (proj1 (Forall_forall _ _) Hbd). apply (In_lay_fr L i).
      rewrite Hfi. right. exact Hx.
    + apply Forall_forall. intros x Hx. rewrite L3, L2, L1. apply (proj1 (Forall_forall _ _) Hbd).
      destruct Hx as [<-|Hx]; [apply (In_lay_fr L i); exact Hhbin | apply (In_lay_us L i); exact Hx].
  - lia.
  - intros x Hx. assert (x <> bn) by (intro E; subst x; apply Hx; apply In_lay_bn).
    assert (x <> hb) by (intro E; subst x; apply Hx; apply (In_lay_fr L i); exact Hhbin).
    rewrite F3, F2, F1 by assumption. reflexivity.
Qed.

(* stores into the cache object *)
Section ThisStore.
  Variables (h : heap) (bt bn : nat) (al : Z) (pn : hptr) (w : bool).
  Hypothesis Hbt : hblock h bt = cache_cells al bn pn w.
  Hypothesis Hl : (bt < length h)%nat.
  Lemma t_this_set_non q :
    exists h', hstore h (HPtr bt 2) (VPtr q) = Some h' /\ length h' = length h /\
      (forall b', b' <> bt -> hblock h' b' = hblock h b') /\ hblock h' bt = cache_cells al bn q w.
  Proof.
    destruct (t_store h bt 2 (VPtr q)) as [h' [A [B [C D]]]]; [rewrite Hbt; cbn; lia | exact Hl|].
    exists h'. split; [exact A|]. split; [exact B|]. split; [exact C|]. rewrite D, Hbt. reflexivity.
  Qed.
  Lemma t_this_set_warned :
    exists h', hstore h (HPtr bt 3) (VInt 1) = Some h' /\ length h' = length h /\
      (forall b', b' <> bt -> hblock h' b' = hblock h b') /\ hblock h' bt = cache_cells al bn pn true.
  Proof.
    destruct (t_store h bt 3 (VInt 1)) as [h' [A [B [C D]]]]; [rewrite Hbt; cbn; lia | exact Hl|].
    exists h'. split; [exact A|]. split; [exact B|]. split; [exact C|]. rewrite D, Hbt. reflexivity.
  Qed.
End ThisStore.

(* ------------------------------------------------------------------ allocateNewCacheBlockFrom *)
Lemma t_allocNew fuel h evs this ids L st i :
  rep h this ids L st -> (i < 5)%nat ->
  exists h' q,
    src_cache_allocateNewCacheBlockFrom fuel h evs (Z.of_N (s_next st)) this (HPtr (l_bn L) (Z.of_nat (3 * i))) =
    FOk (HPtr (length h) 0, h',
         evs ++ [HAllocRec (Z.of_N (s_next st)) (HPtr (length h) 0) sizeof_SimpleStringMemoryBlock;
                 HAllocBuf (Z.of_N (s_next st) + 1) (Z.of_N (n_size (nth i (s_cache st) dnode)))],
         Z.of_N (s_next st) + 1 + 1) /\
    hblock h' (length h) = blk_cells {| b_hdr := s_next st; b_mem := s_next st + 1 |} q /\
    rep h' this ((length h, s_next st) :: ids) (lay_set_node L i (nth i (l_fr L) []) (length h :: nth i (l_us L) []))
        (with_cache st (set_nth i {| n_size := n_size (nth i (s_cache st) dnode); n_free := n_free (nth i (s_cache st) dnode);
                                     n_used := {| b_hdr := s_next st; b_mem := s_next st + 1 |} :: n_used (nth i (s_cache st) dnode) |}
                                 (s_cache st))) /\
    length h' = S (length h) /\ (forall x, (x < length h)%nat -> ~ In x (lay_blocks L) -> hblock h' x = hblock h x).
Proof.
  intros Hrep Hi. pose proof Hrep as Hrep0. rep_inv Hrep. set (bn := l_bn L) in *. set (nx := s_next st) in *.
  set (b := {| b_hdr := nx; b_mem := (nx + 1)%N |}).
  destruct (Hnodes i Hi) as [pf [pu [Hs [Hpf [Hpu [Hcf Hcu]]]]]].
  assert (Hbnl : (bn < length h)%nat) by (apply (proj1 (Forall_forall _ _) Hbd); apply In_lay_bn).
  set (h1 := h ++ [[VPtr pu; VInt (Z.of_N nx + 1)]]).
  assert (Hold : forall x, (x < length h)%nat -> hblock h1 x = hblock h x) by (intros x Hx; apply t_hblock_old; exact Hx).
  assert (Hb1 : hblock h1 (length h) = blk_cells b pu).
  { unfold h1. rewrite t_hblock_new. unfold blk_cells, b. cbn [b_mem]. rewrite N2Z.inj_add. reflexivity. }
  assert (L1 : length h1 = S (length h)) by (unfold h1; rewrite app_length; cbn; lia).
  assert (N1 : length (hblock h1 bn) = 15%nat) by (rewrite Hold by exact Hbnl; exact Hlen).
  destruct (t_blk_set_next h1 (length h) b pu Hb1 pu ltac:(lia)) as [h2 [S2 [L2 [F2 B2]]]].
  assert (Hbn21 : hblock h2 bn = hblock h1 bn) by (apply F2; lia).
  assert (N2 : length (hblock h2 bn) = 15%nat) by (rewrite Hbn21; exact N1).
  destruct (t_node_store h2 bn (3 * i + 2) (VPtr (HPtr (length h) 0)) N2 ltac:(lia) ltac:(lia)) as [h3 [S3 [L3 [F3 [N3 [C3 O3]]]]]].
  assert (Hfin : forall x, (x < length h)%nat -> x <> bn -> hblock h3 x = hblock h x).
  { intros x H1 H2. rewrite F3 by exact H2. rewrite F2 by lia. apply Hold. exact H1. }
  assert (Hlay : forall x, In x (lay_blocks L) -> (x < length h)%nat) by (apply Forall_forall; exact Hbd).
  exists h3, pu. split; [|split; [|split; [|split]]].
  - unfold src_cache_allocateNewCacheBlockFrom. fold bn.
    rewrite (t_load_int _ _ _ _ Hs). cbv beta iota. rewrite (t_node_padd2 h bn Hlen i Hi). cbv beta iota.
    rewrite (t_load_ptr _ _ _ _ Hpu). cbv beta iota. rewrite t_create. cbv beta iota zeta. fold h1.
    rewrite (t_node_padd2 h1 bn N1 i Hi). cbv beta iota.
    rewrite (t_load_ptr h1 bn (3 * i + 2) pu) by (rewrite Hold by exact Hbnl; exact Hpu). cbv beta iota.
    unfold src_cache_addToSimpleStringMemoryBlockList. rewrite S2. cbv beta iota. cbn [finish]. cbv beta iota.
    rewrite (t_node_padd2 h2 bn N2 i Hi). cbv beta iota. rewrite S3. reflexivity.
  - rewrite F3 by lia. exact B2.
  - apply (rep_set_node h h3 this ids ((length h, nx) :: ids) L st i) with (1 := Hrep0); try assumption.
    + lia.
    + intros x Hx Hxn _ _. apply Hfin; [apply Hlay; exact Hx | exact Hxn].
    + intros x Hx. apply lookup_cons_other. apply Hlay in Hx. lia.
    + fold bn. intros k K1 K2. rewrite O3 by exact K2. rewrite Hbn21. rewrite Hold by exact Hbnl. reflexivity.
    + reflexivity.
    + fold bn. exists pf, (HPtr (length h) 0). cbn [n_free n_used].
      split; [rewrite O3 by lia; rewrite Hbn21; rewrite Hold by exact Hbnl; exact Hpf|]. split; [exact C3|]. split.
      * apply chain_frame with (h := h) (ids := ids); [| | exact Hcf].
        -- intros x Hx. pose proof (lay_cnt_slots L x i i Hnd) as Q. fold bn in Q.
           apply Hfin; [apply Hlay; apply (In_lay_fr L i); exact Hx | cnt_solve].
        -- intros x Hx. apply lookup_cons_other. apply (In_lay_fr L i) in Hx. apply Hlay in Hx. lia.
      * cbn [chain]. split; [reflexivity|]. split; [apply lookup_cons_same|]. exists pu. split; [rewrite F3 by lia; exact B2|].
        apply chain_frame with (h := h) (ids := ids); [| | exact Hcu].
        -- intros x Hx. pose proof (lay_cnt_slots L x i i Hnd) as Q. fold bn in Q.
           apply Hfin; [apply Hlay; apply (In_lay_us L i); exact Hx | cnt_solve].
        -- intros x Hx. apply lookup_cons_other. apply (In_lay_us L i) in Hx. apply Hlay in Hx. lia.
    + apply NoDup_cnt. intro x.
      pose proof (cnt_lay_set_node x L i (nth i (l_fr L) []) (length h :: nth i (l_us L) []) ltac:(lia) ltac:(lia)) as Q.
      pose proof Hnd as Hnd2. apply NoDup_cnt with (x := x) in Hnd2. rewrite cnt_cons in Q.
      destruct (Nat.eq_dec (length h) x) as [E|E].
      * assert (Hz : cnt x (lay_blocks L) = 0%nat).
        { apply notIn_cnt. intro Hin. apply Hlay in Hin. lia. }
        rewrite (eq_one _ _ E) in Q. lia.
      * rewrite (one_other _ _ E) in Q. lia.
    + apply Forall_forall. intros x Hx. rewrite L3, L2, L1. apply (In_lay_fr L i) in Hx. apply Hlay in Hx. lia.
    + apply Forall_forall. intros x Hx. rewrite L3, L2, L1. destruct Hx as [<-|Hx]; [lia|].
      apply (In_lay_us L i) in Hx. apply Hlay in Hx. lia.
  - lia.
  - intros x H1 H2. apply Hfin; [exact H1|]. intro E. subst x. apply H2. apply In_lay_bn.
Qed.

(* ------------------------------------------------------------------ what every public operation establishes *)
(* res = the model's (new state, output); h' evs' nx' = the heap, ghost events and ghost counter returned by the source *)
Definition tie_post (h : heap) (evs : list hev) (L : lay) (this : hptr) (res : state * out)
                    (h' : heap) (evs' : list hev) (nx' : Z) (ids' : list (nat * N)) (L' : lay) : Prop :=
  exists new,
    evs' = evs ++ new /\ nx' = Z.of_N (s_next (fst res)) /\ rep h' this ids' L' (fst res) /\
    erase_all ids' new = o_evs (snd res) /\ Forall (resolved ids') new /\ (In HWarn new <-> o_warn (snd res) = true) /\
    (forall b, (b < length h)%nat -> ~ In b (lay_blocks L) -> hblock h' b = hblock h b) /\ (length h <= length h')%nat.

Lemma fuel_ok_5 fuel st : fuel_ok fuel st -> (5 < fuel)%nat. Proof. intros [H _]. exact H. Qed.
Lemma no_warn_iff : In HWarn [] <-> false = true.
Proof. split; [intros [] | discriminate]. Qed.

(* ------------------------------------------------------------------ alloc *)
Theorem src_cache_alloc_spec : forall fuel h evs this ids L st n,
  rep h this ids L st -> fuel_ok fuel st ->
  exists h' evs' nx' ids' L' id,
    o_ret (snd (C18_Model.alloc st n)) = Some id /\
    src_cache_alloc fuel h evs (Z.of_N (s_next st)) this (Z.of_N n) = FOk (Z.of_N id, h', evs', nx') /\
    (ids' = ids \/ ids' = (length h, s_next st) :: ids) /\
    tie_post h evs L this (C18_Model.alloc st n) h' evs' nx' ids' L'.
Proof.
  intros fuel h evs this ids L st n Hrep Hfuel. pose proof (fuel_ok_5 _ _ Hfuel) as H5. pose proof Hrep as Hrep0. rep_inv Hrep.
  subst this. set (bt := l_bt L) in *. set (bn := l_bn L) in *.
  assert (Hsz : forall i, (i < 5)%nat ->
            nth_error (hblock h bn) (3 * i) = Some (VInt (Z.of_N (n_size (nth i (s_cache st) dnode))))).
  { intros i Hi. destruct (Hnodes i Hi) as [pf [pu [A _]]]. exact A. }
  unfold src_cache_alloc, C18_Model.alloc. rewrite t_isCached. cbv beta iota. rewrite b2z_z2b.
  destruct (is_cached n) eqn:Hcach.
  - (* a cached size *)
    cbv zeta. pose proof (t_getNode h bt bn _ _ _ (s_cache st) Hbt Hlen Hc Hsz fuel evs (Z.of_N (s_next st)) n H5) as HgN.
    set (i := index_for (s_cache st) n) in *.
    assert (Hi : (i < 5)%nat) by (unfold i; rewrite <- Hc; apply index_for_bound; lia).
    unfold src_cache_hasFreeBlocksOfSize. rewrite HgN. cbv beta iota.
    destruct (Hnodes i Hi) as [pf [pu [_ [Hpf [Hpu [Hcf Hcu]]]]]].
    rewrite (t_node_padd1 h bn Hlen i Hi). cbv beta iota. rewrite (t_load_ptr _ _ _ _ Hpf). cbv beta iota. cbn [finish]. cbv beta iota.
    destruct (n_free (nth i (s_cache st) dnode)) as [|b frl] eqn:Hfree.
    + (* no free block: a new one *)
      apply chain_nil_inv in Hcf. destruct Hcf as [-> Hfri]. change (z2b (hp_ne HNull HNull)) with false. cbv beta iota.
      rewrite HgN. cbv beta iota.
      destruct (t_allocNew fuel h evs (HPtr bt 0) ids L st i Hrep0 Hi) as [h' [q [Hrun [Hblk [Hrep' [Hlen' Hfrm]]]]]].
      fold bn in Hrun. rewrite Hrun. cbv beta iota. rewrite (t_blk_padd1 _ _ _ _ Hblk). cbv beta iota.
      rewrite (t_blk_mem _ _ _ _ Hblk). cbv beta iota. cbn [finish b_mem]. unfold create_block. cbv beta iota. cbn [fst snd mk_out o_ret].
      eexists h', _, _, ((length h, s_next st) :: ids), _, (s_next st + 1)%N.
      split; [reflexivity|]. split; [reflexivity|]. split; [right; reflexivity|].
      eexists. split; [reflexivity|]. cbn [fst snd s_next o_evs o_warn mk_out]. split; [lia|]. split; [|split; [|split; [|split; [|split]]]].
      * rewrite Hfree in Hrep'. eapply rep_next; [| | | exact Hrep']; reflexivity.
      * unfold erase_all. cbn [flat_map erase app]. replace (Z.of_N (s_next st) + 1) with (Z.of_N (s_next st + 1)) by lia.
        rewrite !N2Z.id. reflexivity.
      * constructor; [exact I|]. constructor; [exact I | constructor].
      * split; [|discriminate]. intros [E|[E|[]]]; discriminate E.
      * exact Hfrm.
      * lia.
    + (* a free block is reused *)
      apply chain_cons_inv in Hcf. destruct Hcf as [hb0 [tl0 [nxt0 [_ [-> _]]]]]. change (z2b (hp_ne (HPtr hb0 0) HNull)) with true.
      cbv beta iota. rewrite HgN. cbv beta iota.
      destruct (t_reserve fuel h evs (Z.of_N (s_next st)) (HPtr bt 0) ids L st i b frl Hrep0 Hi Hfree)
        as [h' [hb [tl [q [Hfi [Hrun [Hblk [Hrep' [Hlen' Hfrm]]]]]]]]].
      fold bn in Hrun. rewrite Hrun. cbv beta iota. rewrite (t_blk_padd1 _ _ _ _ Hblk). cbv beta iota.
      rewrite (t_blk_mem _ _ _ _ Hblk). cbv beta iota. cbn [finish fst snd mk_out o_ret].
      eexists h', _, _, ids, _, (b_mem b). split; [reflexivity|]. split; [reflexivity|]. split; [left; reflexivity|].
      exists []. split; [rewrite app_nil_r; reflexivity|]. cbn [fst snd s_next o_evs o_warn mk_out with_cache].
      split; [reflexivity|]. split; [exact Hrep'|]. split; [reflexivity|]. split; [constructor|]. split; [exact no_warn_iff|].
      split; [intros x _ Hx; apply Hfrm; exact Hx | lia].
  - (* above the bound: a non-cached block *)
    rewrite (t_this_padd2 _ _ _ _ _ _ Hbt). cbv beta iota. rewrite (t_this_non _ _ _ _ _ _ Hbt). cbv beta iota.
    rewrite t_create. cbv beta iota. set (nx := s_next st). set (b := {| b_hdr := nx; b_mem := (nx + 1)%N |}).
    set (h1 := h ++ [[VPtr pn; VInt (Z.of_N nx + 1)]]).
    assert (Hlay : forall x, In x (lay_blocks L) -> (x < length h)%nat) by (apply Forall_forall; exact Hbd).
    assert (Hbtl : (bt < length h)%nat) by (apply Hlay; apply In_lay_bt).
    assert (Hold : forall x, (x < length h)%nat -> hblock h1 x = hblock h x) by (intros x Hx; apply t_hblock_old; exact Hx).
    assert (Hb1 : hblock h1 (length h) = blk_cells b pn).
    { unfold h1. rewrite t_hblock_new. unfold blk_cells, b. cbn [b_mem]. rewrite N2Z.inj_add. reflexivity. }
    assert (L1 : length h1 = S (length h)) by (unfold h1; rewrite app_length; cbn; lia).
    assert (Hbt1 : hblock h1 bt = cache_cells (l_al L) bn pn (s_warned st)) by (rewrite Hold by exact Hbtl; exact Hbt).
    destruct (t_this_set_non h1 bt bn (l_al L) pn (s_warned st) Hbt1 ltac:(lia) (HPtr (length h) 0)) as [h2 [S2 [L2 [F2 B2]]]].
    assert (Hb2 : hblock h2 (length h) = blk_cells b pn) by (rewrite F2 by lia; exact Hb1).
    rewrite (t_this_padd2 _ _ _ _ _ _ Hbt1). cbv beta iota. rewrite S2. cbv beta iota.
    rewrite (t_this_padd2 _ _ _ _ _ _ B2). cbv beta iota. rewrite (t_this_non _ _ _ _ _ _ B2). cbv beta iota.
    rewrite (t_blk_padd1 _ _ _ _ Hb2). cbv beta iota. rewrite (t_blk_mem _ _ _ _ Hb2). cbv beta iota. cbn [finish b_mem].
    unfold create_block. cbv beta iota. cbn [fst snd mk_out o_ret]. fold nx.
    eexists h2, _, _, ((length h, nx) :: ids), (lay_set_non L (length h :: l_non L)), (nx + 1)%N.
    split; [reflexivity|]. split; [reflexivity|]. split; [right; reflexivity|].
    eexists. split; [reflexivity|]. cbn [fst snd s_next o_evs o_warn mk_out]. split; [lia|]. split; [|split; [|split; [|split; [|split]]]].
    + apply (rep_set_non h h2 (HPtr bt 0) ids ((length h, nx) :: ids) L st (length h :: l_non L) (b :: s_non st) (s_warned st) Hrep0).
      * lia.
      * intros x Hx Hxb _. rewrite F2 by exact Hxb. apply Hold. apply Hlay. exact Hx.
      * intros x Hx. apply lookup_cons_other. apply Hlay in Hx. lia.
      * exists (HPtr (length h) 0). split; [exact B2|]. cbn [chain]. split; [reflexivity|]. split; [apply lookup_cons_same|].
        exists pn. split; [exact Hb2|]. apply chain_frame with (h := h) (ids := ids); [| | exact Hnon].
        -- intros x Hx. pose proof (lay_cnt_slots L x 0 0 Hnd) as Q. fold bt in Q. rewrite F2 by cnt_solve.
           apply Hold. apply Hlay. apply In_lay_non. exact Hx.
        -- intros x Hx. apply lookup_cons_other. apply In_lay_non in Hx. apply Hlay in Hx. lia.
      * apply NoDup_cnt. intro x. pose proof (cnt_lay_set_non x L (length h :: l_non L)) as Q.
        pose proof Hnd as Hnd2. apply NoDup_cnt with (x := x) in Hnd2. rewrite cnt_cons in Q.
        destruct (Nat.eq_dec (length h) x) as [E|E].
        -- assert (Hz : cnt x (lay_blocks L) = 0%nat) by (apply notIn_cnt; intro Hin; apply Hlay in Hin; lia).
           rewrite (eq_one _ _ E) in Q. lia.
        -- rewrite (one_other _ _ E) in Q. lia.
      * apply Forall_forall. intros x Hx. rewrite L2, L1. destruct Hx as [<-|Hx]; [lia|]. apply In_lay_non in Hx. apply Hlay in Hx. lia.
    + unfold erase_all. cbn [flat_map erase app]. replace (Z.of_N nx + 1) with (Z.of_N (nx + 1)) by lia. rewrite !N2Z.id. reflexivity.
    + constructor; [exact I|]. constructor; [exact I | constructor].
    + split; [|discriminate]. intros [E|[E|[]]]; discriminate E.
    + intros x H1 H2. rewrite F2 by (intro E; subst x; apply H2; apply In_lay_bt). apply Hold. exact H1.
    + lia.
Qed.

(* ------------------------------------------------------------------ printDeallocatingUnknownMemory vs unknown_release *)
Lemma t_printUnknown fuel h evs nx this ids L st m :
  rep h this ids L st ->
  exists h', src_cache_printDeallocatingUnknownMemory fuel h evs nx this m =
             FOk (tt, h', evs ++ (if s_warned st then [] else [HWarn]), nx) /\
    rep h' this ids L (fst (unknown_release st)) /\ length h' = length h /\
    (forall x, ~ In x (lay_blocks L) -> hblock h' x = hblock h x).
Proof.
  intros Hrep. pose proof Hrep as Hrep0. rep_inv Hrep. subst this. unfold src_cache_printDeallocatingUnknownMemory, unknown_release.
  cbn [fst]. rewrite (t_this_padd3 _ _ _ _ _ _ Hbt). cbv beta iota. rewrite (t_this_warned _ _ _ _ _ _ Hbt). cbv beta iota.
  unfold c_lnot. rewrite !b2z_z2b. destruct (s_warned st) eqn:Hw; cbn [negb]; cbv beta iota.
  - exists h. split; [rewrite app_nil_r; reflexivity|]. split; [|split; [reflexivity | intros; reflexivity]].
    apply (rep_next h (HPtr (l_bt L) 0) ids L st); [reflexivity | reflexivity | cbn [s_warned]; symmetry; exact Hw | exact Hrep0].
  - assert (Hlay : forall x, In x (lay_blocks L) -> (x < length h)%nat) by (apply Forall_forall; exact Hbd).
    destruct (t_this_set_warned h (l_bt L) (l_bn L) (l_al L) pn false Hbt (Hlay _ (In_lay_bt L))) as [h1 [S1 [L1 [F1 B1]]]].
    rewrite S1. cbv beta iota zeta.
    exists h1. split; [reflexivity|]. split; [|split; [exact L1|]].
    + pose proof (rep_set_non h h1 (HPtr (l_bt L) 0) ids ids L st (l_non L) (s_non st) true Hrep0 ltac:(lia)) as R.
      destruct L as [bt bn fr us non al]. apply R; cbn [l_bt l_bn l_fr l_us l_non l_al lay_set_non] in *.
      * intros x _ Hx _. apply F1. exact Hx.
      * intros; reflexivity.
      * exists pn. split; [exact B1|]. apply chain_frame with (h := h) (ids := ids); [| intros; reflexivity | exact Hnon].
        intros x Hx. apply F1. pose proof (lay_cnt_slots _ x 0 0 Hnd) as Q. cbn [l_bt l_bn l_fr l_us l_non] in Q. cnt_solve.
      * exact Hnd.
      * apply Forall_forall. intros x Hx. rewrite L1. apply Hlay. apply (In_lay_non {| l_bt := bt; l_bn := bn; l_fr := fr; l_us := us; l_non := non; l_al := al |}). exact Hx.
    + intros x Hx. apply F1. intro E. subst x. apply Hx. apply In_lay_bt.
Qed.

(* ------------------------------------------------------------------ releaseCachedBlockFrom: the loop vs unlink_next *)
(* local invariant: block bp holds `cur` whose next_ is p0, from p0 the heap holds `rest`; node i's freeMemoryHead_ is pf *)
Lemma t_relC_loop fuel0 this ids p bn i : forall rest fuel h evs nx cur bp p0 bs pf,
  hblock h bp = blk_cells cur p0 -> lookup bp ids = Some (b_hdr cur) -> chain h ids p0 bs rest ->
  NoDup (bp :: bs) -> ~ In bn (bp :: bs) -> Forall (fun b => (b < length h)%nat) (bp :: bs) -> (bn < length h)%nat ->
  length (hblock h bn) = 15%nat -> (i < 5)%nat -> nth_error (hblock h bn) (3 * i + 1) = Some (VPtr pf) ->
  (S (length rest) < fuel)%nat ->
  match unlink_next cur rest p with
  | None => src_cache_releaseCachedBlockFrom_loop1 fuel0 fuel this (addr_of p) (HPtr bn (Z.of_nat (3 * i))) h evs nx (HPtr bp 0) =
            Go (h, evs, nx, HNull)
  | Some (b, l') => exists h' hx bs' l'',
      l' = cur :: l'' /\
      src_cache_releaseCachedBlockFrom_loop1 fuel0 fuel this (addr_of p) (HPtr bn (Z.of_nat (3 * i))) h evs nx (HPtr bp 0) =
      Done (tt, h', evs, nx) /\
      chain h' ids (HPtr bp 0) (bp :: bs') (cur :: l'') /\
      (forall x, cnt x bs = (one hx x + cnt x bs')%nat) /\
      hblock h' hx = blk_cells b pf /\ lookup hx ids = Some (b_hdr b) /\
      length h' = length h /\ length (hblock h' bn) = 15%nat /\
      nth_error (hblock h' bn) (3 * i + 1) = Some (VPtr (HPtr hx 0)) /\
      (forall k, k <> (3 * i + 1)%nat -> nth_error (hblock h' bn) k = nth_error (hblock h bn) k) /\
      (forall x, x <> bn -> ~ In x (bp :: bs) -> hblock h' x = hblock h x)
  end.
Proof.
  induction rest as [|nb rest IH]; intros fuel h evs nx cur bp p0 bs pf Hbp Hlk Hc Hnd Hbn Hlt Hbnl Hlen Hi Hpf Hf.
  - apply chain_nil_inv in Hc. destruct Hc as [-> ->]. destruct fuel as [|[|fuel]]; [cbn in Hf; lia | cbn in Hf; lia|].
    cbn [unlink_next src_cache_releaseCachedBlockFrom_loop1]. rewrite t_z2b_ptr. cbv beta iota.
    rewrite (t_blk_next _ _ _ _ Hbp). cbv beta iota. rewrite t_z2b_null. cbv beta iota zeta. reflexivity.
  - apply chain_cons_inv in Hc. destruct Hc as [hn [bs2 [nxt2 [-> [-> [Hlkn [Hbnb Hc]]]]]]].
    destruct fuel as [|fuel]; [cbn in Hf; lia|]. cbn [length] in Hf.
    inversion Hnd as [|? ? Hn1 Hnd1]; subst. inversion Hnd1 as [|? ? Hn2 Hnd2]; subst.
    inversion Hlt as [|? ? Hl1 Hlt1]; subst. inversion Hlt1 as [|? ? Hl2 Hlt2]; subst.
    assert (Hbpn : bp <> bn) by (intro E; apply Hbn; left; exact E).
    assert (Hhnn : hn <> bn) by (intro E; apply Hbn; right; left; exact E).
    assert (Hbphn : bp <> hn) by (intro E; apply Hn1; left; symmetry; exact E).
    cbn [unlink_next src_cache_releaseCachedBlockFrom_loop1]. rewrite t_z2b_ptr. cbv beta iota.
    rewrite (t_blk_next _ _ _ _ Hbp). cbv beta iota. rewrite t_z2b_ptr. cbv beta iota.
    rewrite (t_blk_padd1 _ _ _ _ Hbnb). cbv beta iota. rewrite (t_blk_mem _ _ _ _ Hbnb). cbv beta iota. rewrite t_mem_eq.
    destruct (mem_is nb p).
    + cbv beta iota zeta. rewrite (t_blk_next _ _ _ _ Hbnb). cbv beta iota.
      destruct (t_blk_set_next h bp cur (HPtr hn 0) Hbp nxt2 Hl1) as [h1 [S1 [L1 [F1 B1]]]]. rewrite S1. cbv beta iota.
      assert (N1 : length (hblock h1 bn) = 15%nat) by (rewrite F1 by (intro E; apply Hbpn; symmetry; exact E); exact Hlen).
      rewrite (t_node_padd1 h1 bn N1 i Hi). cbv beta iota.
      rewrite (t_load_ptr h1 bn (3 * i + 1) pf) by (rewrite F1 by (intro E; apply Hbpn; symmetry; exact E); exact Hpf). cbv beta iota.
      assert (Hb1 : hblock h1 hn = blk_cells nb nxt2) by (rewrite F1 by (intro E; apply Hbphn; symmetry; exact E); exact Hbnb).
      destruct (t_blk_set_next h1 hn nb nxt2 Hb1 pf ltac:(lia)) as [h2 [S2 [L2 [F2 B2]]]].
      unfold src_cache_addToSimpleStringMemoryBlockList. rewrite S2. cbv beta iota. cbn [finish]. cbv beta iota.
      assert (N2 : length (hblock h2 bn) = 15%nat) by (rewrite F2 by (intro E; apply Hhnn; symmetry; exact E); exact N1).
      rewrite (t_node_padd1 h2 bn N2 i Hi). cbv beta iota.
      destruct (t_node_store h2 bn (3 * i + 1) (VPtr (HPtr hn 0)) N2 ltac:(lia) ltac:(lia)) as [h3 [S3 [L3 [F3 [N3 [C3 O3]]]]]].
      rewrite S3. cbv beta iota.
      exists h3, hn, bs2, rest. split; [reflexivity|]. split; [reflexivity|]. split; [|split; [|split; [|split; [|split; [|split; [|split; [|split]]]]]]].
      * cbn [chain]. split; [reflexivity|]. split; [exact Hlk|]. exists nxt2. split.
        -- rewrite F3 by exact Hbpn. rewrite F2 by exact Hbphn. exact B1.
        -- apply chain_frame with (h := h) (ids := ids); [| intros; reflexivity | exact Hc].
           intros x Hx. assert (x <> bn) by (intro E; subst x; apply Hbn; right; right; exact Hx).
           assert (x <> hn) by (intro E; subst x; exact (Hn2 Hx)).
           assert (x <> bp) by (intro E; subst x; apply Hn1; right; exact Hx).
           rewrite F3, F2, F1 by assumption. reflexivity.
      * intro x. rewrite cnt_cons. reflexivity.
      * rewrite F3 by exact Hhnn. exact B2.
      * exact Hlkn.
      * lia.
      * exact N3.
      * exact C3.
      * intros k Hk. rewrite O3 by exact Hk. rewrite F2 by (intro E; apply Hhnn; symmetry; exact E).
        rewrite F1 by (intro E; apply Hbpn; symmetry; exact E). reflexivity.
      * intros x H1 H2. assert (x <> hn) by (intro E; subst x; apply H2; right; left; reflexivity).
        assert (x <> bp) by (intro E; subst x; apply H2; left; reflexivity). rewrite F3, F2, F1 by assumption. reflexivity.
    + cbv beta iota zeta.
      assert (Hbn' : ~ In bn (hn :: bs2)) by (intro Hin; apply Hbn; right; exact Hin).
      pose proof (IH fuel h evs nx nb hn nxt2 bs2 pf Hbnb Hlkn Hc Hnd1 Hbn' Hlt1 Hbnl Hlen Hi Hpf ltac:(lia)) as R.
      destruct (unlink_next nb rest p) as [[b l']|].
      * destruct R as [h' [hx [bs' [l'' [-> [Hrun [Hch [Hcnt [Hbx [Hlx [Hlen' [N' [C' [O' F']]]]]]]]]]]]]].
        exists h', hx, (hn :: bs'), (nb :: l''). split; [reflexivity|]. split; [exact Hrun|].
        split; [|split; [|split; [|split; [|split; [|split; [|split; [|split]]]]]]]; try assumption.
        -- cbn [chain]. split; [reflexivity|]. split; [exact Hlk|]. exists (HPtr hn 0). split; [|exact Hch].
           rewrite F' by assumption. exact Hbp.
        -- intro x. rewrite !cnt_cons. rewrite Hcnt. lia.
        -- intros x H1 H2. apply F'; [exact H1|]. intro Hin. apply H2. right. exact Hin.
      * exact R.
Qed.

(* ------------------------------------------------------------------ releaseCachedBlockFrom vs unlink on the used list of node i *)
Lemma t_releaseCached fuel h evs nx this ids L st i p :
  rep h this ids L st -> (i < 5)%nat -> (length (n_used (nth i (s_cache st) dnode)) < fuel)%nat ->
  match unlink (n_used (nth i (s_cache st) dnode)) p with
  | Some (b, used') => exists h' L',
      src_cache_releaseCachedBlockFrom fuel h evs nx this (addr_of p) (HPtr (l_bn L) (Z.of_nat (3 * i))) = FOk (tt, h', evs, nx) /\
      rep h' this ids L' (with_cache st (set_nth i {| n_size := n_size (nth i (s_cache st) dnode);
                                                       n_free := b :: n_free (nth i (s_cache st) dnode); n_used := used' |}
                                                 (s_cache st))) /\
      length h' = length h /\ (forall x, ~ In x (lay_blocks L) -> hblock h' x = hblock h x)
  | None => exists h',
      src_cache_releaseCachedBlockFrom fuel h evs nx this (addr_of p) (HPtr (l_bn L) (Z.of_nat (3 * i))) =
      FOk (tt, h', evs ++ (if s_warned st then [] else [HWarn]), nx) /\
      rep h' this ids L (fst (unknown_release st)) /\ length h' = length h /\
      (forall x, ~ In x (lay_blocks L) -> hblock h' x = hblock h x)
  end.
Proof.
  intros Hrep Hi Hf. pose proof Hrep as Hrep0. rep_inv Hrep. set (bn := l_bn L) in *.
  destruct (Hnodes i Hi) as [pf [pu [Hs [Hpf [Hpu [Hcf Hcu]]]]]].
  assert (Hlay : forall x, In x (lay_blocks L) -> (x < length h)%nat) by (apply Forall_forall; exact Hbd).
  assert (Hbnl : (bn < length h)%nat) by (apply Hlay; apply In_lay_bn).
  unfold src_cache_releaseCachedBlockFrom. rewrite (t_node_padd2 h bn Hlen i Hi). cbv beta iota.
  rewrite (t_load_ptr _ _ _ _ Hpu). cbv beta iota.
  destruct (n_used (nth i (s_cache st) dnode)) as [|hd r] eqn:Hused.
  - apply chain_nil_inv in Hcu. destruct Hcu as [-> Hui]. rewrite t_z2b_null. cbv beta iota. change (z2b 0) with false. cbv beta iota zeta.
    destruct fuel as [|fuel]; [cbn in Hf; lia|]. cbn [src_cache_releaseCachedBlockFrom_loop1]. rewrite t_z2b_null. cbv beta iota.
    destruct (t_printUnknown (S fuel) h evs nx this ids L st (addr_of p) Hrep0) as [h' [Hrun [Hrep' [Hlen' Hfrm]]]].
    rewrite Hrun. cbv beta iota. cbn [unlink]. exists h'. split; [reflexivity|]. split; [exact Hrep'|]. split; [exact Hlen' | exact Hfrm].
  - apply chain_cons_inv in Hcu. destruct Hcu as [hb [bs [nxt [Hui [-> [Hlk [Hb Hct]]]]]]].
    assert (Hhbin : In hb (nth i (l_us L) [])) by (rewrite Hui; left; reflexivity).
    assert (Hhbl : (hb < length h)%nat) by (apply Hlay; apply (In_lay_us L i); exact Hhbin).
    assert (Hhbn : hb <> bn) by (pose proof (lay_cnt_slots L hb i i Hnd) as Q; fold bn in Q; cnt_solve).
    assert (Hndu : NoDup (hb :: bs)).
    { rewrite <- Hui. apply NoDup_cnt. intro x. apply NoDup_cnt with (x := x) in Hnd. rewrite cnt_lay in Hnd.
      pose proof (cnt_nth_le x (l_us L) i). lia. }
    assert (Hbnu : ~ In bn (hb :: bs)).
    { rewrite <- Hui. pose proof (lay_cnt_slots L bn i i Hnd) as Q. fold bn in Q. cnt_solve. }
    assert (Hltu : Forall (fun b => (b < length h)%nat) (hb :: bs)).
    { rewrite <- Hui. apply Forall_forall. intros x Hx. apply Hlay. apply (In_lay_us L i). exact Hx. }
    rewrite t_z2b_ptr. cbv beta iota. rewrite (t_blk_padd1 _ _ _ _ Hb). cbv beta iota. rewrite (t_blk_mem _ _ _ _ Hb). cbv beta iota.
    rewrite t_mem_eq. cbn [unlink]. destruct (mem_is hd p).
    + (* the head *)
      cbv beta iota zeta. rewrite (t_blk_next _ _ _ _ Hb). cbv beta iota.
      destruct (t_node_store h bn (3 * i + 2) (VPtr nxt) Hlen ltac:(lia) Hbnl) as [h1 [S1 [L1 [F1 [N1 [C1 O1]]]]]].
      rewrite S1. cbv beta iota. rewrite (t_node_padd1 h1 bn N1 i Hi). cbv beta iota.
      rewrite (t_load_ptr h1 bn (3 * i + 1) pf) by (rewrite O1 by lia; exact Hpf). cbv beta iota.
      assert (Hb1 : hblock h1 hb = blk_cells hd nxt) by (rewrite F1 by exact Hhbn; exact Hb).
      destruct (t_blk_set_next h1 hb hd nxt Hb1 pf ltac:(lia)) as [h2 [S2 [L2 [F2 B2]]]].
      unfold src_cache_addToSimpleStringMemoryBlockList. rewrite S2. cbv beta iota. cbn [finish]. cbv beta iota.
      assert (Hbn21 : hblock h2 bn = hblock h1 bn) by (apply F2; intro E; apply Hhbn; symmetry; exact E).
      assert (N2 : length (hblock h2 bn) = 15%nat) by (rewrite Hbn21; exact N1).
      rewrite (t_node_padd1 h2 bn N2 i Hi). cbv beta iota.
      destruct (t_node_store h2 bn (3 * i + 1) (VPtr (HPtr hb 0)) N2 ltac:(lia) ltac:(lia)) as [h3 [S3 [L3 [F3 [N3 [C3 O3]]]]]].
      rewrite S3. cbv beta iota.
      exists h3, (lay_set_node L i (hb :: nth i (l_fr L) []) bs). split; [reflexivity|]. split; [|split; [lia|]].
      * apply (rep_set_node h h3 this ids ids L st i) with (1 := Hrep0); try assumption.
        -- lia.
        -- intros x Hx Hxn Hxf Hxu. rewrite F3 by exact Hxn. rewrite F2 by (intro E; subst x; exact (Hxu Hhbin)). apply F1. exact Hxn.
        -- intros; reflexivity.
        -- fold bn. intros k K1 K2. rewrite O3 by exact K1. rewrite Hbn21. apply O1. exact K2.
        -- reflexivity.
        -- fold bn. exists (HPtr hb 0), nxt. cbn [n_free n_used]. split; [exact C3|]. split; [rewrite O3 by lia; rewrite Hbn21; exact C1|]. split.
           ++ cbn [chain]. split; [reflexivity|]. split; [exact Hlk|]. exists pf. split; [rewrite F3 by exact Hhbn; exact B2|].
              apply chain_frame with (h := h) (ids := ids); [| intros; reflexivity | exact Hcf].
              intros x Hx. pose proof (lay_cnt_slots L x i i Hnd) as Q. fold bn in Q. rewrite Hui in Q.
              assert (x <> hb) by cnt_solve. assert (x <> bn) by cnt_solve. rewrite F3, F2, F1 by assumption. reflexivity.
           ++ apply chain_frame with (h := h) (ids := ids); [| intros; reflexivity | exact Hct].
              intros x Hx. assert (x <> hb) by (inversion Hndu; intro E; subst x; contradiction).
              assert (x <> bn) by (intro E; subst x; apply Hbnu; right; exact Hx). rewrite F3, F2, F1 by assumption. reflexivity.
        -- apply NoDup_cnt. intro x. pose proof (cnt_lay_set_node x L i (hb :: nth i (l_fr L) []) bs ltac:(lia) ltac:(lia)) as Q.
           rewrite Hui in Q. apply NoDup_cnt with (x := x) in Hnd. cnt_solve.
        -- apply Forall_forall. intros x Hx. rewrite L3, L2, L1. apply Hlay.
           destruct Hx as [<-|Hx]; [apply (In_lay_us L i); exact Hhbin | apply (In_lay_fr L i); exact Hx].
        -- apply Forall_forall. intros x Hx. rewrite L3, L2, L1. apply Hlay. apply (In_lay_us L i). rewrite Hui. right. exact Hx.
      * intros x Hx. assert (x <> bn) by (intro E; subst x; apply Hx; apply In_lay_bn).
        assert (x <> hb) by (intro E; subst x; apply Hx; apply (In_lay_us L i); exact Hhbin). rewrite F3, F2, F1 by assumption. reflexivity.
    + (* the walk *)
      cbv beta iota zeta. cbn [length] in Hf.
      pose proof (t_relC_loop fuel this ids p bn i r fuel h evs nx hd hb nxt bs pf Hb Hlk Hct Hndu Hbnu Hltu Hbnl Hlen Hi Hpf ltac:(lia)) as R.
      destruct (unlink_next hd r p) as [[b l']|].
      * destruct R as [h' [hx [bs' [l'' [-> [Hrun [Hch [Hcnt [Hbx [Hlx [Hlen' [N' [C' [O' F']]]]]]]]]]]]]]. rewrite Hrun.
        exists h', (lay_set_node L i (hx :: nth i (l_fr L) []) (hb :: bs')). split; [reflexivity|]. split; [|split; [exact Hlen'|]].
        -- assert (Hhxin : In hx (nth i (l_us L) [])).
           { rewrite Hui. right. apply In_cnt. rewrite Hcnt, one_same. lia. }
           apply (rep_set_node h h' this ids ids L st i) with (1 := Hrep0); try assumption.
           ++ lia.
           ++ intros x Hx Hxn Hxf Hxu. apply F'; [exact Hxn | rewrite <- Hui; exact Hxu].
           ++ intros; reflexivity.
           ++ fold bn. intros k K1 K2. apply O'. exact K1.
           ++ reflexivity.
           ++ fold bn. exists (HPtr hx 0), (HPtr hb 0). cbn [n_free n_used]. split; [exact C'|]. split; [rewrite O' by lia; exact Hpu|]. split.
              ** cbn [chain]. split; [reflexivity|]. split; [exact Hlx|]. exists pf. split; [exact Hbx|].
                 apply chain_frame with (h := h) (ids := ids); [| intros; reflexivity | exact Hcf].
                 intros x Hx. pose proof (lay_cnt_slots L x i i Hnd) as Q. fold bn in Q. apply F'; [cnt_solve | rewrite <- Hui; cnt_solve].
              ** exact Hch.
           ++ apply NoDup_cnt. intro x. pose proof (cnt_lay_set_node x L i (hx :: nth i (l_fr L) []) (hb :: bs') ltac:(lia) ltac:(lia)) as Q.
              rewrite Hui in Q. apply NoDup_cnt with (x := x) in Hnd. specialize (Hcnt x). cnt_solve.
           ++ apply Forall_forall. intros x Hx. rewrite Hlen'. apply Hlay.
              destruct Hx as [<-|Hx]; [apply (In_lay_us L i); exact Hhxin | apply (In_lay_fr L i); exact Hx].
           ++ apply Forall_forall. intros x Hx. rewrite Hlen'. apply Hlay. apply (In_lay_us L i). rewrite Hui.
              destruct Hx as [<-|Hx]; [left; reflexivity|]. right. apply In_cnt. apply In_cnt in Hx. rewrite Hcnt. lia.
        -- intros x Hx. apply F'; [intro E; subst x; apply Hx; apply In_lay_bn|].
           intro Hin. apply Hx. apply (In_lay_us L i). rewrite Hui. exact Hin.
      * rewrite R.
        destruct (t_printUnknown fuel h evs nx this ids L st (addr_of p) Hrep0) as [h' [Hrun [Hrep' [Hlen' Hfrm]]]].
        rewrite Hrun. cbv beta iota. exists h'. split; [reflexivity|]. split; [exact Hrep'|]. split; [exact Hlen' | exact Hfrm].
Qed.

(* ------------------------------------------------------------------ releaseNonCachedMemory: the loop vs unlink_next *)
Lemma t_relN_loop fuel0 this ids p size : forall rest fuel h evs nx cur bp p0 bs,
  hblock h bp = blk_cells cur p0 -> lookup bp ids = Some (b_hdr cur) -> chain h ids p0 bs rest ->
  NoDup (bp :: bs) -> Forall (fun b => (b < length h)%nat) (bp :: bs) -> (S (length rest) < fuel)%nat ->
  match unlink_next cur rest p with
  | None => src_cache_releaseNonCachedMemory_loop1 fuel0 fuel this (addr_of p) size h evs nx (HPtr bp 0) = Go (h, evs, nx, HNull)
  | Some (b, l') => exists h' hx bs' l'',
      l' = cur :: l'' /\
      src_cache_releaseNonCachedMemory_loop1 fuel0 fuel this (addr_of p) size h evs nx (HPtr bp 0) =
      Done (tt, h', evs ++ [HFreeBuf (Z.of_N (b_mem b)) size; HFreeRec (HPtr hx 0) sizeof_SimpleStringMemoryBlock], nx) /\
      chain h' ids (HPtr bp 0) (bp :: bs') (cur :: l'') /\
      (forall x, cnt x bs = (one hx x + cnt x bs')%nat) /\ lookup hx ids = Some (b_hdr b) /\
      length h' = length h /\ (forall x, ~ In x (bp :: bs) -> hblock h' x = hblock h x)
  end.
Proof.
  induction rest as [|nb rest IH]; intros fuel h evs nx cur bp p0 bs Hbp Hlk Hc Hnd Hlt Hf.
  - apply chain_nil_inv in Hc. destruct Hc as [-> ->]. destruct fuel as [|[|fuel]]; [cbn in Hf; lia | cbn in Hf; lia|].
    cbn [unlink_next src_cache_releaseNonCachedMemory_loop1]. rewrite t_z2b_ptr. cbv beta iota.
    rewrite (t_blk_next _ _ _ _ Hbp). cbv beta iota. rewrite t_z2b_null. cbv beta iota zeta. reflexivity.
  - apply chain_cons_inv in Hc. destruct Hc as [hn [bs2 [nxt2 [-> [-> [Hlkn [Hbnb Hc]]]]]]].
    destruct fuel as [|fuel]; [cbn in Hf; lia|]. cbn [length] in Hf.
    inversion Hnd as [|? ? Hn1 Hnd1]; subst. inversion Hnd1 as [|? ? Hn2 Hnd2]; subst.
    inversion Hlt as [|? ? Hl1 Hlt1]; subst. inversion Hlt1 as [|? ? Hl2 Hlt2]; subst.
    assert (Hbphn : bp <> hn) by (intro E; apply Hn1; left; symmetry; exact E).
    cbn [unlink_next src_cache_releaseNonCachedMemory_loop1]. rewrite t_z2b_ptr. cbv beta iota.
    rewrite (t_blk_next _ _ _ _ Hbp). cbv beta iota. rewrite t_z2b_ptr. cbv beta iota.
    rewrite (t_blk_padd1 _ _ _ _ Hbnb). cbv beta iota. rewrite (t_blk_mem _ _ _ _ Hbnb). cbv beta iota. rewrite t_mem_eq.
    destruct (mem_is nb p).
    + cbv beta iota zeta. rewrite (t_blk_next _ _ _ _ Hbnb). cbv beta iota.
      destruct (t_blk_set_next h bp cur (HPtr hn 0) Hbp nxt2 Hl1) as [h1 [S1 [L1 [F1 B1]]]]. rewrite S1. cbv beta iota.
      assert (Hb1 : hblock h1 hn = blk_cells nb nxt2) by (rewrite F1 by (intro E; apply Hbphn; symmetry; exact E); exact Hbnb).
      rewrite (t_destroy fuel0 h1 evs nx this hn nb nxt2 size Hb1). cbv beta iota.
      exists h1, hn, bs2, rest. split; [reflexivity|]. split; [reflexivity|]. split; [|split; [|split; [|split]]].
      * cbn [chain]. split; [reflexivity|]. split; [exact Hlk|]. exists nxt2. split; [exact B1|].
        apply chain_frame with (h := h) (ids := ids); [| intros; reflexivity | exact Hc].
        intros x Hx. apply F1. intro E. subst x. apply Hn1. right. exact Hx.
      * intro x. rewrite cnt_cons. reflexivity.
      * exact Hlkn.
      * exact L1.
      * intros x Hx. apply F1. intro E. subst x. apply Hx. left. reflexivity.
    + cbv beta iota zeta.
      pose proof (IH fuel h evs nx nb hn nxt2 bs2 Hbnb Hlkn Hc Hnd1 Hlt1 ltac:(lia)) as R.
      destruct (unlink_next nb rest p) as [[b l']|].
      * destruct R as [h' [hx [bs' [l'' [-> [Hrun [Hch [Hcnt [Hlx [Hlen' F']]]]]]]]]].
        exists h', hx, (hn :: bs'), (nb :: l''). split; [reflexivity|]. split; [exact Hrun|].
        split; [|split; [|split; [|split]]]; try assumption.
        -- cbn [chain]. split; [reflexivity|]. split; [exact Hlk|]. exists (HPtr hn 0). split; [|exact Hch].
           rewrite F' by exact Hn1. exact Hbp.
        -- intro x. rewrite !cnt_cons. rewrite Hcnt. lia.
        -- intros x Hx. apply F'. intro Hin. apply Hx. right. exact Hin.
      * exact R.
Qed.

Lemma t_releaseNonCached fuel h evs nx this ids L st p size :
  rep h this ids L st -> (length (s_non st) < fuel)%nat ->
  match unlink (s_non st) p with
  | Some (b, non') => exists h' L' hx,
      src_cache_releaseNonCachedMemory fuel h evs nx this (addr_of p) size =
      FOk (tt, h', evs ++ [HFreeBuf (Z.of_N (b_mem b)) size; HFreeRec (HPtr hx 0) sizeof_SimpleStringMemoryBlock], nx) /\
      lookup hx ids = Some (b_hdr b) /\
      rep h' this ids L' {| s_cache := s_cache st; s_non := non'; s_warned := s_warned st; s_next := s_next st |} /\
      length h' = length h /\ (forall x, ~ In x (lay_blocks L) -> hblock h' x = hblock h x)
  | None => exists h',
      src_cache_releaseNonCachedMemory fuel h evs nx this (addr_of p) size =
      FOk (tt, h', evs ++ (if s_warned st then [] else [HWarn]), nx) /\
      rep h' this ids L (fst (unknown_release st)) /\ length h' = length h /\
      (forall x, ~ In x (lay_blocks L) -> hblock h' x = hblock h x)
  end.
Proof.
  intros Hrep Hf. pose proof Hrep as Hrep0. rep_inv Hrep. subst this. set (bt := l_bt L) in *.
  assert (Hlay : forall x, In x (lay_blocks L) -> (x < length h)%nat) by (apply Forall_forall; exact Hbd).
  assert (Hbtl : (bt < length h)%nat) by (apply Hlay; apply In_lay_bt).
  unfold src_cache_releaseNonCachedMemory. rewrite (t_this_padd2 _ _ _ _ _ _ Hbt). cbv beta iota.
  rewrite (t_this_non _ _ _ _ _ _ Hbt). cbv beta iota.
  destruct (s_non st) as [|hd r] eqn:Hnoneq.
  - apply chain_nil_inv in Hnon. destruct Hnon as [-> Hni]. rewrite t_z2b_null. cbv beta iota. change (z2b 0) with false. cbv beta iota zeta.
    destruct fuel as [|fuel]; [cbn in Hf; lia|]. cbn [src_cache_releaseNonCachedMemory_loop1]. rewrite t_z2b_null. cbv beta iota.
    destruct (t_printUnknown (S fuel) h evs nx (HPtr bt 0) ids L st (addr_of p) Hrep0) as [h' [Hrun [Hrep' [Hlen' Hfrm]]]].
    rewrite Hrun. cbv beta iota. cbn [unlink]. exists h'. split; [reflexivity|]. split; [exact Hrep'|]. split; [exact Hlen' | exact Hfrm].
  - apply chain_cons_inv in Hnon. destruct Hnon as [hb [bs [nxt [Hni [-> [Hlk [Hb Hct]]]]]]].
    assert (Hhbin : In hb (l_non L)) by (rewrite Hni; left; reflexivity).
    assert (Hhbl : (hb < length h)%nat) by (apply Hlay; apply In_lay_non; exact Hhbin).
    assert (Hhbt : hb <> bt) by (pose proof (lay_cnt_slots L hb 0 0 Hnd) as Q; fold bt in Q; cnt_solve).
    assert (Hndu : NoDup (hb :: bs)).
    { rewrite <- Hni. apply NoDup_cnt. intro x. apply NoDup_cnt with (x := x) in Hnd. rewrite cnt_lay in Hnd. lia. }
    assert (Hbtu : ~ In bt (hb :: bs)).
    { rewrite <- Hni. pose proof (lay_cnt_slots L bt 0 0 Hnd) as Q. fold bt in Q. cnt_solve. }
    assert (Hltu : Forall (fun b => (b < length h)%nat) (hb :: bs)).
    { rewrite <- Hni. apply Forall_forall. intros x Hx. apply Hlay. apply In_lay_non. exact Hx. }
    rewrite t_z2b_ptr. cbv beta iota. rewrite (t_blk_padd1 _ _ _ _ Hb). cbv beta iota. rewrite (t_blk_mem _ _ _ _ Hb). cbv beta iota.
    rewrite t_mem_eq. cbn [unlink]. destruct (mem_is hd p).
    + (* the head *)
      cbv beta iota zeta. rewrite (t_blk_next _ _ _ _ Hb). cbv beta iota.
      destruct (t_this_set_non h bt (l_bn L) (l_al L) (HPtr hb 0) (s_warned st) Hbt Hbtl nxt) as [h1 [S1 [L1 [F1 B1]]]].
      rewrite S1. cbv beta iota.
      assert (Hb1 : hblock h1 hb = blk_cells hd nxt) by (rewrite F1 by exact Hhbt; exact Hb).
      rewrite (t_destroy fuel h1 evs nx (HPtr bt 0) hb hd nxt size Hb1). cbv beta iota.
      exists h1, (lay_set_non L bs), hb. split; [reflexivity|]. split; [exact Hlk|]. split; [|split; [exact L1|]].
      * apply (rep_set_non h h1 (HPtr bt 0) ids ids L st bs r (s_warned st) Hrep0).
        -- lia.
        -- intros x _ Hx _. apply F1. exact Hx.
        -- intros; reflexivity.
        -- exists nxt. split; [exact B1|]. apply chain_frame with (h := h) (ids := ids); [| intros; reflexivity | exact Hct].
           intros x Hx. apply F1. intro E. subst x. apply Hbtu. right. exact Hx.
        -- apply NoDup_cnt. intro x. pose proof (cnt_lay_set_non x L bs) as Q. rewrite Hni in Q.
           apply NoDup_cnt with (x := x) in Hnd. cnt_solve.
        -- apply Forall_forall. intros x Hx. rewrite L1. apply Hlay. apply In_lay_non. rewrite Hni. right. exact Hx.
      * intros x Hx. apply F1. intro E. subst x. apply Hx. apply In_lay_bt.
    + (* the walk *)
      cbv beta iota zeta. cbn [length] in Hf.
      pose proof (t_relN_loop fuel (HPtr bt 0) ids p size r fuel h evs nx hd hb nxt bs Hb Hlk Hct Hndu Hltu ltac:(lia)) as R.
      destruct (unlink_next hd r p) as [[b l']|].
      * destruct R as [h' [hx [bs' [l'' [-> [Hrun [Hch [Hcnt [Hlx [Hlen' F']]]]]]]]]]. rewrite Hrun.
        exists h', (lay_set_non L (hb :: bs')), hx. split; [reflexivity|]. split; [exact Hlx|]. split; [|split; [exact Hlen'|]].
        -- apply (rep_set_non h h' (HPtr bt 0) ids ids L st (hb :: bs') (hd :: l'') (s_warned st) Hrep0).
           ++ lia.
           ++ intros x _ _ Hx. apply F'. rewrite <- Hni. exact Hx.
           ++ intros; reflexivity.
           ++ exists (HPtr hb 0). split; [rewrite F' by exact Hbtu; exact Hbt | exact Hch].
           ++ apply NoDup_cnt. intro x. pose proof (cnt_lay_set_non x L (hb :: bs')) as Q. rewrite Hni in Q.
              apply NoDup_cnt with (x := x) in Hnd. specialize (Hcnt x). cnt_solve.
           ++ apply Forall_forall. intros x Hx. rewrite Hlen'. apply Hlay. apply In_lay_non. rewrite Hni.
              destruct Hx as [<-|Hx]; [left; reflexivity|]. right. apply In_cnt. apply In_cnt in Hx. rewrite Hcnt. lia.
        -- intros x Hx. apply F'. intro Hin. apply Hx. apply In_lay_non. rewrite Hni. exact Hin.
      * rewrite R.
        destruct (t_printUnknown fuel h evs nx (HPtr bt 0) ids L st (addr_of p) Hrep0) as [h' [Hrun [Hrep' [Hlen' Hfrm]]]].
        rewrite Hrun. cbv beta iota. exists h'. split; [reflexivity|]. split; [exact Hrep'|]. split; [exact Hlen' | exact Hfrm].
Qed.

(* ------------------------------------------------------------------ dealloc *)
Lemma warn_new_iff (w : bool) : In HWarn (if w then [] else [HWarn]) <-> negb w = true.
Proof. destruct w; cbn; split; intro H; try discriminate; try (destruct H as [H|[]]; discriminate); try destruct H; auto. Qed.
Lemma warn_new_erase ids (w : bool) : erase_all ids (if w then [] else [HWarn]) = [] /\ Forall (resolved ids) (if w then [] else [HWarn]).
Proof. destruct w; split; try reflexivity; repeat constructor. Qed.

Theorem src_cache_dealloc_spec : forall fuel h evs this ids L st p n,
  rep h this ids L st -> fuel_ok fuel st ->
  exists h' evs' nx' L',
    src_cache_dealloc fuel h evs (Z.of_N (s_next st)) this (addr_of p) (Z.of_N n) = FOk (tt, h', evs', nx') /\
    o_ret (snd (dealloc st p n)) = None /\
    tie_post h evs L this (dealloc st p n) h' evs' nx' ids L'.
Proof.
  intros fuel h evs this ids L st p n Hrep Hfuel. destruct Hfuel as [H5 [Hfn Hfc]]. pose proof Hrep as Hrep0. rep_inv Hrep.
  subst this. set (bt := l_bt L) in *. set (bn := l_bn L) in *.
  assert (Hsz : forall i, (i < 5)%nat ->
            nth_error (hblock h bn) (3 * i) = Some (VInt (Z.of_N (n_size (nth i (s_cache st) dnode))))).
  { intros i Hi. destruct (Hnodes i Hi) as [pf [pu [A _]]]. exact A. }
  unfold src_cache_dealloc, dealloc. rewrite t_isCached. cbv beta iota. rewrite b2z_z2b.
  destruct (is_cached n) eqn:Hcach.
  - rewrite (t_getIndex h bt bn _ _ _ (s_cache st) Hbt Hlen Hc Hsz fuel evs (Z.of_N (s_next st)) n H5). cbv beta iota zeta.
    set (i := index_for (s_cache st) n).
    assert (Hi : (i < 5)%nat) by (unfold i; rewrite <- Hc; apply index_for_bound; lia).
    rewrite (t_this_padd1 _ _ _ _ _ _ Hbt). cbv beta iota. rewrite (t_this_cache _ _ _ _ _ _ Hbt). cbv beta iota.
    rewrite (t_node_ptr _ _ Hlen i Hi). cbv beta iota.
    assert (Hfu : (length (n_used (nth i (s_cache st) dnode)) < fuel)%nat).
    { apply (Hfc (nth i (s_cache st) dnode)). apply nth_In. lia. }
    pose proof (t_releaseCached fuel h evs (Z.of_N (s_next st)) (HPtr bt 0) ids L st i p Hrep0 Hi Hfu) as R. fold bn in R.
    destruct (unlink (n_used (nth i (s_cache st) dnode)) p) as [[b used']|].
    + destruct R as [h' [L' [Hrun [Hrep' [Hlen' Hfrm]]]]]. rewrite Hrun. cbv beta iota. cbn [finish].
      exists h', evs, (Z.of_N (s_next st)), L'. split; [reflexivity|]. split; [reflexivity|].
      exists []. split; [rewrite app_nil_r; reflexivity|]. cbn [fst snd s_next o_evs o_warn mk_out with_cache].
      split; [reflexivity|]. split; [exact Hrep'|]. split; [reflexivity|]. split; [constructor|]. split; [exact no_warn_iff|].
      split; [intros x _ Hx; apply Hfrm; exact Hx | lia].
    + destruct R as [h' [Hrun [Hrep' [Hlen' Hfrm]]]]. rewrite Hrun. cbv beta iota. cbn [finish].
      exists h', (evs ++ (if s_warned st then [] else [HWarn])), (Z.of_N (s_next st)), L. split; [reflexivity|]. split; [reflexivity|].
      exists (if s_warned st then [] else [HWarn]). split; [reflexivity|]. unfold unknown_release in *. cbn [fst snd s_next o_evs o_warn mk_out] in *.
      split; [reflexivity|]. split; [exact Hrep'|]. destruct (warn_new_erase ids (s_warned st)) as [E1 E2].
      split; [exact E1|]. split; [exact E2|]. split; [apply warn_new_iff|].
      split; [intros x _ Hx; apply Hfrm; exact Hx | lia].
  - pose proof (t_releaseNonCached fuel h evs (Z.of_N (s_next st)) (HPtr bt 0) ids L st p (Z.of_N n) Hrep0 Hfn) as R.
    destruct (unlink (s_non st) p) as [[b non']|].
    + destruct R as [h' [L' [hx [Hrun [Hlx [Hrep' [Hlen' Hfrm]]]]]]]. rewrite Hrun. cbv beta iota. cbn [finish].
      eexists h', _, (Z.of_N (s_next st)), L'. split; [reflexivity|]. split; [reflexivity|].
      eexists. split; [reflexivity|]. cbn [fst snd s_next o_evs o_warn mk_out].
      split; [reflexivity|]. split; [exact Hrep'|]. split; [|split; [|split; [|split]]].
      * unfold erase_all. cbn [flat_map erase app]. rewrite Hlx. rewrite !N2Z.id. reflexivity.
      * constructor; [exact I|]. constructor; [|constructor]. cbn [resolved]. rewrite Hlx. discriminate.
      * split; [|discriminate]. intros [E|[E|[]]]; discriminate E.
      * intros x _ Hx. apply Hfrm. exact Hx.
      * lia.
    + destruct R as [h' [Hrun [Hrep' [Hlen' Hfrm]]]]. rewrite Hrun. cbv beta iota. cbn [finish].
      exists h', (evs ++ (if s_warned st then [] else [HWarn])), (Z.of_N (s_next st)), L. split; [reflexivity|]. split; [reflexivity|].
      exists (if s_warned st then [] else [HWarn]). split; [reflexivity|]. unfold unknown_release in *. cbn [fst snd s_next o_evs o_warn mk_out] in *.
      split; [reflexivity|]. split; [exact Hrep'|]. destruct (warn_new_erase ids (s_warned st)) as [E1 E2].
      split; [exact E1|]. split; [exact E2|]. split; [apply warn_new_iff|].
      split; [intros x _ Hx; apply Hfrm; exact Hx | lia].
Qed.

(* ------------------------------------------------------------------ clearing one list head of node i *)
Lemma set_nth_set_nth x y : forall c i, set_nth i y (set_nth i x c) = set_nth i y c.
Proof. induction c as [|z c IH]; intros [|i]; cbn; auto. f_equal. apply IH. Qed.

Lemma t_clear_free_store h this ids L st i : rep h this ids L st -> (i < 5)%nat ->
  exists h1, hstore h (HPtr (l_bn L) (Z.of_nat (3 * i + 1))) (VPtr HNull) = Some h1 /\
    rep h1 this ids (lay_set_node L i [] (nth i (l_us L) []))
        (with_cache st (set_nth i {| n_size := n_size (nth i (s_cache st) dnode); n_free := [];
                                     n_used := n_used (nth i (s_cache st) dnode) |} (s_cache st))) /\
    length h1 = length h /\ (forall x, x <> l_bn L -> hblock h1 x = hblock h x).
Proof.
  intros Hrep Hi. pose proof Hrep as Hrep0. rep_inv Hrep. set (bn := l_bn L) in *.
  destruct (Hnodes i Hi) as [pf [pu [Hs [Hpf [Hpu [Hcf Hcu]]]]]].
  assert (Hlay : forall x, In x (lay_blocks L) -> (x < length h)%nat) by (apply Forall_forall; exact Hbd).
  destruct (t_node_store h bn (3 * i + 1) (VPtr HNull) Hlen ltac:(lia) (Hlay _ (In_lay_bn L))) as [h1 [S1 [L1 [F1 [N1 [C1 O1]]]]]].
  exists h1. split; [exact S1|]. split; [|split; [exact L1 | exact F1]].
  apply (rep_set_node h h1 this ids ids L st i) with (1 := Hrep0); try assumption.
  - lia.
  - intros x _ Hx _ _. apply F1. exact Hx.
  - intros; reflexivity.
  - fold bn. intros k K1 _. apply O1. exact K1.
  - reflexivity.
  - fold bn. exists HNull, pu. cbn [n_free n_used]. split; [exact C1|]. split; [rewrite O1 by lia; exact Hpu|]. split; [reflexivity|].
    apply chain_frame with (h := h) (ids := ids); [| intros; reflexivity | exact Hcu].
    intros x Hx. apply F1. pose proof (lay_cnt_slots L x i i Hnd) as Q. fold bn in Q. cnt_solve.
  - apply NoDup_cnt. intro x. pose proof (cnt_lay_set_node x L i [] (nth i (l_us L) []) ltac:(lia) ltac:(lia)) as Q.
    apply NoDup_cnt with (x := x) in Hnd. cnt_solve.
  - constructor.
  - apply Forall_forall. intros x Hx. rewrite L1. apply Hlay. apply (In_lay_us L i). exact Hx.
Qed.

Lemma t_clear_used_store h this ids L st i : rep h this ids L st -> (i < 5)%nat ->
  exists h1, hstore h (HPtr (l_bn L) (Z.of_nat (3 * i + 2))) (VPtr HNull) = Some h1 /\
    rep h1 this ids (lay_set_node L i (nth i (l_fr L) []) [])
        (with_cache st (set_nth i {| n_size := n_size (nth i (s_cache st) dnode); n_free := n_free (nth i (s_cache st) dnode);
                                     n_used := [] |} (s_cache st))) /\
    length h1 = length h /\ (forall x, x <> l_bn L -> hblock h1 x = hblock h x).
Proof.
  intros Hrep Hi. pose proof Hrep as Hrep0. rep_inv Hrep. set (bn := l_bn L) in *.
  destruct (Hnodes i Hi) as [pf [pu [Hs [Hpf [Hpu [Hcf Hcu]]]]]].
  assert (Hlay : forall x, In x (lay_blocks L) -> (x < length h)%nat) by (apply Forall_forall; exact Hbd).
  destruct (t_node_store h bn (3 * i + 2) (VPtr HNull) Hlen ltac:(lia) (Hlay _ (In_lay_bn L))) as [h1 [S1 [L1 [F1 [N1 [C1 O1]]]]]].
  exists h1. split; [exact S1|]. split; [|split; [exact L1 | exact F1]].
  apply (rep_set_node h h1 this ids ids L st i) with (1 := Hrep0); try assumption.
  - lia.
  - intros x _ Hx _ _. apply F1. exact Hx.
  - intros; reflexivity.
  - fold bn. intros k _ K2. apply O1. exact K2.
  - reflexivity.
  - fold bn. exists pf, HNull. cbn [n_free n_used]. split; [rewrite O1 by lia; exact Hpf|]. split; [exact C1|]. split; [|reflexivity].
    apply chain_frame with (h := h) (ids := ids); [| intros; reflexivity | exact Hcf].
    intros x Hx. apply F1. pose proof (lay_cnt_slots L x i i Hnd) as Q. fold bn in Q. cnt_solve.
  - apply NoDup_cnt. intro x. pose proof (cnt_lay_set_node x L i (nth i (l_fr L) []) [] ltac:(lia) ltac:(lia)) as Q.
    apply NoDup_cnt with (x := x) in Hnd. cnt_solve.
  - apply Forall_forall. intros x Hx. rewrite L1. apply Hlay. apply (In_lay_fr L i). exact Hx.
  - constructor.
Qed.

Lemma In_lay_set_node_sub L i fr us x :
  (forall y, In y fr -> In y (lay_blocks L)) -> (forall y, In y us -> In y (lay_blocks L)) ->
  In x (lay_blocks (lay_set_node L i fr us)) -> In x (lay_blocks L).
Proof. intros H1 H2 H. destruct (In_lay_set_node _ _ _ _ _ H) as [E|[E|E]]; [apply H1 | apply H2 |]; exact E. Qed.

(* ------------------------------------------------------------------ the model's loops over the nodes, index by index *)
Fixpoint clear_from (f : mnode -> mnode * list ev) (i k : nat) (c : list mnode) : list mnode * list ev :=
  match k with
  | O => (c, [])
  | S k' => match clear_from f (S i) k' (set_nth i (fst (f (nth i c dnode))) c) with
            | (c', e) => (c', snd (f (nth i c dnode)) ++ e)
            end
  end.
Lemma clear_from_S f i k c : clear_from f i (S k) c =
  (fst (clear_from f (S i) k (set_nth i (fst (f (nth i c dnode))) c)),
   snd (f (nth i c dnode)) ++ snd (clear_from f (S i) k (set_nth i (fst (f (nth i c dnode))) c))).
Proof. cbn [clear_from]. destruct (clear_from f (S i) k _). reflexivity. Qed.
Lemma clear_from_free c : length c = 5%nat -> clear_from clear_node_free 0 5 c = clear_nodes clear_node_free c.
Proof. intro H. do 5 (destruct c as [|? c]; [discriminate H|]). destruct c; [|discriminate H]. cbn. rewrite !app_nil_r. reflexivity. Qed.
Lemma clear_from_all c : length c = 5%nat -> clear_from clear_node_all 0 5 c = clear_nodes clear_node_all c.
Proof. intro H. do 5 (destruct c as [|? c]; [discriminate H|]). destruct c; [|discriminate H]. cbn. rewrite !app_nil_r. reflexivity. Qed.

Lemma t_lt5 i : (i < 5)%nat -> z2b (c_lt (Z.of_nat i) 5) = true.
Proof. intro H. unfold c_lt. replace (Z.of_nat i <? 5) with true by (symmetry; apply Z.ltb_lt; lia). reflexivity. Qed.
Lemma t_next_i i : (i < 5)%nat -> cw 64 false (Z.of_nat i + 1) = Z.of_nat (S i).
Proof. intro H. rewrite cw_u_small; [lia|]. change (2 ^ 64) with 18446744073709551616. lia. Qed.

(* ------------------------------------------------------------------ clearCache *)
Lemma t_clearCache_loop fuel0 this ids nx : forall d i fuel h evs L st,
  rep h this ids L st -> (i + d = 5)%nat -> (d < fuel)%nat ->
  (forall nd, In nd (s_cache st) -> (length (n_free nd) < fuel0)%nat) ->
  exists h' L' new,
    src_cache_clearCache_loop1 fuel0 fuel this h evs nx (Z.of_nat i) = Go (h', evs ++ new, nx, 5) /\
    rep h' this ids L' (with_cache st (fst (clear_from clear_node_free i d (s_cache st)))) /\
    erase_all ids new = snd (clear_from clear_node_free i d (s_cache st)) /\ Forall (resolved ids) new /\ has_warn new = false /\
    length h' = length h /\ (forall x, ~ In x (lay_blocks L) -> hblock h' x = hblock h x) /\
    (forall x, In x (lay_blocks L') -> In x (lay_blocks L)).
Proof.
  induction d as [|d IH]; intros i fuel h evs L st Hrep Hid Hf Hfl; (destruct fuel as [|fuel]; [lia|]); cbn [src_cache_clearCache_loop1].
  - assert (i = 5%nat) by lia. subst i. change (z2b (c_lt (Z.of_nat 5) 5)) with false. cbv beta iota.
    exists h, L, []. rewrite app_nil_r. split; [reflexivity|]. cbn [clear_from fst snd].
    split; [apply (rep_next h this ids L st); [reflexivity | reflexivity | reflexivity | exact Hrep]|].
    split; [reflexivity|]. split; [constructor|]. split; [reflexivity|]. split; [reflexivity|]. split; intros; [reflexivity | assumption].
  - assert (Hi : (i < 5)%nat) by lia. rewrite (t_lt5 i Hi). cbv beta iota.
    pose proof Hrep as Hrep0. rep_inv Hrep. subst this. set (bt := l_bt L) in *. set (bn := l_bn L) in *.
    destruct (Hnodes i Hi) as [pf [pu [Hs [Hpf [Hpu [Hcf Hcu]]]]]].
    rewrite (t_this_padd1 _ _ _ _ _ _ Hbt). cbv beta iota. rewrite (t_this_cache _ _ _ _ _ _ Hbt). cbv beta iota.
    rewrite (t_node_ptr _ _ Hlen i Hi). cbv beta iota. rewrite (t_node_padd1 h bn Hlen i Hi). cbv beta iota.
    rewrite (t_load_ptr _ _ _ _ Hpf). cbv beta iota. rewrite (t_load_int _ _ _ _ Hs). cbv beta iota.
    assert (Hfi : (length (n_free (nth i (s_cache st) dnode)) < fuel0)%nat) by (apply Hfl; apply nth_In; lia).
    rewrite (t_destroyList fuel0 (HPtr bt 0) _ h ids nx pf _ _ evs Hcf Hfi). cbv beta iota.
    rewrite (t_this_padd1 _ _ _ _ _ _ Hbt). cbv beta iota. rewrite (t_this_cache _ _ _ _ _ _ Hbt). cbv beta iota.
    rewrite (t_node_ptr _ _ Hlen i Hi). cbv beta iota. rewrite (t_node_padd1 h bn Hlen i Hi). cbv beta iota.
    destruct (t_clear_free_store h (HPtr bt 0) ids L st i Hrep0 Hi) as [h1 [S1 [Hrep1 [L1 F1]]]]. fold bn in S1.
    rewrite S1. cbv beta iota zeta. rewrite (t_next_i i Hi).
    set (st1 := with_cache st (set_nth i {| n_size := n_size (nth i (s_cache st) dnode); n_free := [];
                                            n_used := n_used (nth i (s_cache st) dnode) |} (s_cache st))) in *.
    set (L1' := lay_set_node L i [] (nth i (l_us L) [])) in *.
    destruct (IH (S i) fuel h1 (evs ++ destroy_hevs (Z.of_N (n_size (nth i (s_cache st) dnode))) (nth i (l_fr L) [])
                                          (n_free (nth i (s_cache st) dnode))) L1' st1 Hrep1 ltac:(lia) ltac:(lia))
      as [h' [L' [new [Hrun [Hrep' [Her [Hres [Hw [Hlen' [Hfrm Hsub]]]]]]]]]].
    { intros nd Hin. unfold st1 in Hin. cbn [with_cache s_cache] in Hin. apply set_nth_In in Hin. destruct Hin as [->|Hin].
      - cbn [n_free length]. lia.
      - apply Hfl. exact Hin. }
    assert (Hsub1 : forall x, In x (lay_blocks L1') -> In x (lay_blocks L)).
    { intros x Hx. apply (In_lay_set_node_sub L i [] (nth i (l_us L) []) x); [intros y [] | intros y Hy; apply (In_lay_us L i); exact Hy | exact Hx]. }
    destruct (t_destroy_hevs_erase h ids ids (n_size (nth i (s_cache st) dnode)) _ _ _ Hcf ltac:(intros; reflexivity)) as [E1 [E2 E3]].
    exists h', L', (destroy_hevs (Z.of_N (n_size (nth i (s_cache st) dnode))) (nth i (l_fr L) []) (n_free (nth i (s_cache st) dnode)) ++ new).
    rewrite app_assoc. split; [exact Hrun|]. rewrite clear_from_S. cbn [fst snd].
    split; [exact Hrep'|]. split; [rewrite erase_all_app, E1; f_equal; exact Her|]. split; [apply Forall_app; split; assumption|].
    split; [rewrite has_warn_app, E3, Hw; reflexivity|]. split; [lia|]. split.
    + intros x Hx. rewrite Hfrm by (intro Hin; apply Hx; apply Hsub1; exact Hin). apply F1. intro E. subst x. apply Hx. apply In_lay_bn.
    + intros x Hx. apply Hsub1. apply Hsub. exact Hx.
Qed.

Theorem src_cache_clearCache_spec : forall fuel h evs this ids L st,
  rep h this ids L st -> fuel_ok fuel st ->
  exists h' evs' nx' L',
    src_cache_clearCache fuel h evs (Z.of_N (s_next st)) this = FOk (tt, h', evs', nx') /\
    o_ret (snd (clear_cache st)) = None /\
    tie_post h evs L this (clear_cache st) h' evs' nx' ids L'.
Proof.
  intros fuel h evs this ids L st Hrep [H5 [Hfn Hfc]].
  destruct (t_clearCache_loop fuel this ids (Z.of_N (s_next st)) 5 0 fuel h evs L st Hrep eq_refl H5)
    as [h' [L' [new [Hrun [Hrep' [Her [Hres [Hw [Hlen' [Hfrm Hsub]]]]]]]]]].
  { intros nd Hin. exact (proj1 (Hfc nd Hin)). }
  change (Z.of_nat 0) with 0 in Hrun. unfold src_cache_clearCache. cbv zeta. rewrite Hrun. cbv beta iota. cbn [finish].
  assert (Hc : length (s_cache st) = 5%nat) by (destruct Hrep as [_ [_ [Hc _]]]; exact Hc).
  rewrite (clear_from_free _ Hc) in Hrep', Her. unfold clear_cache.
  destruct (clear_nodes clear_node_free (s_cache st)) as [c e]. cbn [fst snd] in *.
  exists h', (evs ++ new), (Z.of_N (s_next st)), L'. split; [reflexivity|]. split; [reflexivity|].
  exists new. split; [reflexivity|]. cbn [fst snd o_evs o_warn mk_out with_cache s_next].
  split; [reflexivity|]. split; [exact Hrep'|]. split; [exact Her|]. split; [exact Hres|]. split.
  - rewrite <- has_warn_In. rewrite Hw. split; intro H; discriminate H.
  - split; [intros x _ Hx; apply Hfrm; exact Hx | lia].
Qed.

(* ------------------------------------------------------------------ clearAllIncludingCurrentlyUsedMemory *)
Lemma t_clearAll_loop fuel0 this ids nx : forall d i fuel h evs L st,
  rep h this ids L st -> (i + d = 5)%nat -> (d < fuel)%nat ->
  (forall nd, In nd (s_cache st) -> (length (n_free nd) < fuel0)%nat /\ (length (n_used nd) < fuel0)%nat) ->
  exists h' L' new,
    src_cache_clearAllIncludingCurrentlyUsedMemory_loop1 fuel0 fuel this h evs nx (Z.of_nat i) = Go (h', evs ++ new, nx, 5) /\
    rep h' this ids L' (with_cache st (fst (clear_from clear_node_all i d (s_cache st)))) /\
    erase_all ids new = snd (clear_from clear_node_all i d (s_cache st)) /\ Forall (resolved ids) new /\ has_warn new = false /\
    length h' = length h /\ (forall x, ~ In x (lay_blocks L) -> hblock h' x = hblock h x) /\
    (forall x, In x (lay_blocks L') -> In x (lay_blocks L)).
Proof.
  induction d as [|d IH]; intros i fuel h evs L st Hrep Hid Hf Hfl; (destruct fuel as [|fuel]; [lia|]);
    cbn [src_cache_clearAllIncludingCurrentlyUsedMemory_loop1].
  - assert (i = 5%nat) by lia. subst i. change (z2b (c_lt (Z.of_nat 5) 5)) with false. cbv beta iota.
    exists h, L, []. rewrite app_nil_r. split; [reflexivity|]. cbn [clear_from fst snd].
    split; [apply (rep_next h this ids L st); [reflexivity | reflexivity | reflexivity | exact Hrep]|].
    split; [reflexivity|]. split; [constructor|]. split; [reflexivity|]. split; [reflexivity|]. split; intros; [reflexivity | assumption].
  - assert (Hi : (i < 5)%nat) by lia. rewrite (t_lt5 i Hi). cbv beta iota.
    pose proof Hrep as Hrep0. rep_inv Hrep. subst this. set (bt := l_bt L) in *. set (bn := l_bn L) in *.
    destruct (Hnodes i Hi) as [pf [pu [Hs [Hpf [Hpu [Hcf Hcu]]]]]].
    set (nd := nth i (s_cache st) dnode) in *.
    assert (Hfi : (length (n_free nd) < fuel0)%nat /\ (length (n_used nd) < fuel0)%nat) by (apply Hfl; apply nth_In; lia).
    rewrite (t_this_padd1 _ _ _ _ _ _ Hbt). cbv beta iota. rewrite (t_this_cache _ _ _ _ _ _ Hbt). cbv beta iota.
    rewrite (t_node_ptr _ _ Hlen i Hi). cbv beta iota. rewrite (t_node_padd1 h bn Hlen i Hi). cbv beta iota.
    rewrite (t_load_ptr _ _ _ _ Hpf). cbv beta iota. rewrite (t_load_int _ _ _ _ Hs). cbv beta iota.
    rewrite (t_destroyList fuel0 (HPtr bt 0) _ h ids nx pf _ _ evs Hcf (proj1 Hfi)). cbv beta iota.
    rewrite (t_this_padd1 _ _ _ _ _ _ Hbt). cbv beta iota. rewrite (t_this_cache _ _ _ _ _ _ Hbt). cbv beta iota.
    rewrite (t_node_ptr _ _ Hlen i Hi). cbv beta iota. rewrite (t_node_padd2 h bn Hlen i Hi). cbv beta iota.
    rewrite (t_load_ptr _ _ _ _ Hpu). cbv beta iota. rewrite (t_load_int _ _ _ _ Hs). cbv beta iota.
    rewrite (t_destroyList fuel0 (HPtr bt 0) _ h ids nx pu _ _ _ Hcu (proj2 Hfi)). cbv beta iota.
    rewrite (t_this_padd1 _ _ _ _ _ _ Hbt). cbv beta iota. rewrite (t_this_cache _ _ _ _ _ _ Hbt). cbv beta iota.
    rewrite (t_node_ptr _ _ Hlen i Hi). cbv beta iota. rewrite (t_node_padd1 h bn Hlen i Hi). cbv beta iota.
    destruct (t_clear_free_store h (HPtr bt 0) ids L st i Hrep0 Hi) as [h1 [S1 [Hrep1 [L1 F1]]]]. fold bn nd in S1, Hrep1.
    rewrite S1. cbv beta iota.
    set (st1 := with_cache st (set_nth i {| n_size := n_size nd; n_free := []; n_used := n_used nd |} (s_cache st))) in *.
    set (L1' := lay_set_node L i [] (nth i (l_us L) [])) in *.
    destruct (t_clear_used_store h1 (HPtr bt 0) ids L1' st1 i Hrep1 Hi) as [h2 [S2 [Hrep2 [L2 F2]]]].
    change (l_bn L1') with bn in S2, F2.
    pose proof Hrep1 as Hrep1'. rep_inv Hrep1'. change (l_bt L1') with bt in *. change (l_bn L1') with bn in *.
    rewrite (t_this_padd1 _ _ _ _ _ _ Hbt0). cbv beta iota. rewrite (t_this_cache _ _ _ _ _ _ Hbt0). cbv beta iota.
    rewrite (t_node_ptr _ _ Hlen0 i Hi). cbv beta iota. rewrite (t_node_padd2 h1 bn Hlen0 i Hi). cbv beta iota.
    rewrite S2. cbv beta iota zeta. rewrite (t_next_i i Hi).
    set (L2' := lay_set_node L1' i (nth i (l_fr L1') []) []) in *.
    set (st2 := with_cache st (set_nth i {| n_size := n_size nd; n_free := []; n_used := [] |} (s_cache st))).
    assert (Hrep2' : rep h2 (HPtr bt 0) ids L2' st2).
    { unfold st1 in Hrep2. cbn [with_cache s_cache s_non s_warned s_next] in Hrep2. rewrite set_nth_same in Hrep2 by lia.
      rewrite set_nth_set_nth in Hrep2. cbn [n_size n_free] in Hrep2. exact Hrep2. }
    set (D1 := destroy_hevs (Z.of_N (n_size nd)) (nth i (l_fr L) []) (n_free nd)) in *.
    set (D2 := destroy_hevs (Z.of_N (n_size nd)) (nth i (l_us L) []) (n_used nd)) in *.
    destruct (IH (S i) fuel h2 ((evs ++ D1) ++ D2) L2' st2 Hrep2' ltac:(lia) ltac:(lia))
      as [h' [L' [new [Hrun [Hrep' [Her [Hres [Hw [Hlen' [Hfrm Hsub]]]]]]]]]].
    { intros x Hin. unfold st2 in Hin. cbn [with_cache s_cache] in Hin. apply set_nth_In in Hin. destruct Hin as [->|Hin].
      - cbn [n_free n_used length]. lia.
      - apply Hfl. exact Hin. }
    assert (Hsub1 : forall x, In x (lay_blocks L1') -> In x (lay_blocks L)).
    { intros x Hx. apply (In_lay_set_node_sub L i [] (nth i (l_us L) []) x); [intros y [] | intros y Hy; apply (In_lay_us L i); exact Hy | exact Hx]. }
    assert (Hsub2 : forall x, In x (lay_blocks L2') -> In x (lay_blocks L1')).
    { intros x Hx. apply (In_lay_set_node_sub L1' i (nth i (l_fr L1') []) [] x); [intros y Hy; apply (In_lay_fr L1' i); exact Hy | intros y [] | exact Hx]. }
    destruct (t_destroy_hevs_erase h ids ids (n_size nd) _ _ _ Hcf ltac:(intros; reflexivity)) as [E1 [E2 E3]].
    destruct (t_destroy_hevs_erase h ids ids (n_size nd) _ _ _ Hcu ltac:(intros; reflexivity)) as [G1 [G2 G3]]. fold D1 in E1, E2, E3. fold D2 in G1, G2, G3.
    exists h', L', (D1 ++ D2 ++ new).
    replace (evs ++ D1 ++ D2 ++ new) with (((evs ++ D1) ++ D2) ++ new) by (rewrite <- !app_assoc; reflexivity).
    split; [exact Hrun|]. rewrite clear_from_S. fold nd. cbn [fst snd clear_node_all].
    split; [exact Hrep'|]. split.
    { rewrite !erase_all_app, E1, G1. rewrite <- app_assoc. f_equal. f_equal. exact Her. }
    split; [apply Forall_app; split; [assumption | apply Forall_app; split; assumption]|].
    split; [rewrite !has_warn_app, E3, G3, Hw; reflexivity|]. split; [lia|]. split.
    + intros x Hx. assert (x <> bn) by (intro E; subst x; apply Hx; apply In_lay_bn).
      rewrite Hfrm by (intro Hin; apply Hx; apply Hsub1; apply Hsub2; exact Hin). rewrite F2 by assumption. apply F1. assumption.
    + intros x Hx. apply Hsub1. apply Hsub2. apply Hsub. exact Hx.
Qed.

Theorem src_cache_clearAll_spec : forall fuel h evs this ids L st,
  rep h this ids L st -> fuel_ok fuel st ->
  exists h' evs' nx' L',
    src_cache_clearAllIncludingCurrentlyUsedMemory fuel h evs (Z.of_N (s_next st)) this = FOk (tt, h', evs', nx') /\
    o_ret (snd (clear_all st)) = None /\
    tie_post h evs L this (clear_all st) h' evs' nx' ids L'.
Proof.
  intros fuel h evs this ids L st Hrep [H5 [Hfn Hfc]].
  destruct (t_clearAll_loop fuel this ids (Z.of_N (s_next st)) 5 0 fuel h evs L st Hrep eq_refl H5 Hfc)
    as [h1 [L1 [new [Hrun [Hrep1 [Her [Hres [Hw [Hlen1 [Hfrm Hsub]]]]]]]]]].
  change (Z.of_nat 0) with 0 in Hrun. unfold src_cache_clearAllIncludingCurrentlyUsedMemory. cbv zeta. rewrite Hrun. cbv beta iota.
  assert (Hc : length (s_cache st) = 5%nat) by (destruct Hrep as [_ [_ [Hc _]]]; exact Hc).
  rewrite (clear_from_all _ Hc) in Hrep1, Her. unfold clear_all.
  destruct (clear_nodes clear_node_all (s_cache st)) as [c e]. cbn [fst snd] in *.
  set (st1 := with_cache st c) in *.
  pose proof Hrep1 as Hrep1'. rep_inv Hrep1'. subst this. cbn [st1 with_cache s_non s_warned] in Hbt, Hnon.
  assert (Hlay : forall x, In x (lay_blocks L1) -> (x < length h1)%nat) by (apply Forall_forall; exact Hbd).
  rewrite (t_this_padd2 _ _ _ _ _ _ Hbt). cbv beta iota. rewrite (t_this_non _ _ _ _ _ _ Hbt). cbv beta iota.
  rewrite (t_destroyList fuel (HPtr (l_bt L1) 0) 0 h1 ids (Z.of_N (s_next st)) pn _ _ (evs ++ new) Hnon Hfn). cbv beta iota.
  rewrite (t_this_padd2 _ _ _ _ _ _ Hbt). cbv beta iota.
  destruct (t_this_set_non h1 (l_bt L1) (l_bn L1) (l_al L1) pn (s_warned st) Hbt (Hlay _ (In_lay_bt L1)) HNull) as [h2 [S2 [L2 [F2 B2]]]].
  rewrite S2. cbv beta iota. cbn [finish].
  destruct (t_destroy_hevs_erase h1 ids ids 0%N _ _ _ Hnon ltac:(intros; reflexivity)) as [E1 [E2 E3]].
  change (Z.of_N 0) with 0 in E1, E2, E3.
  exists h2, ((evs ++ new) ++ destroy_hevs 0 (l_non L1) (s_non st)), (Z.of_N (s_next st)), (lay_set_non L1 []).
  split; [reflexivity|]. split; [reflexivity|].
  exists (new ++ destroy_hevs 0 (l_non L1) (s_non st)). split; [rewrite app_assoc; reflexivity|].
  cbn [fst snd o_evs o_warn mk_out s_next]. split; [reflexivity|]. split; [|split; [|split; [|split; [|split]]]].
  - apply (rep_set_non h1 h2 (HPtr (l_bt L1) 0) ids ids L1 st1 [] [] (s_warned st) Hrep1).
    + lia.
    + intros x _ Hx _. apply F2. exact Hx.
    + intros; reflexivity.
    + exists HNull. split; [exact B2 | reflexivity].
    + apply NoDup_cnt. intro x. pose proof (cnt_lay_set_non x L1 []) as Q. apply NoDup_cnt with (x := x) in Hnd. cnt_solve.
    + constructor.
  - rewrite erase_all_app, Her, E1. reflexivity.
  - apply Forall_app. split; assumption.
  - rewrite <- has_warn_In. rewrite has_warn_app, Hw, E3. split; intro H; discriminate H.
  - intros x Hx1 Hx2. rewrite F2; [apply Hfrm; exact Hx2|]. intro E. subst x. apply Hx2. apply Hsub. apply In_lay_bt.
  - lia.
Qed.

(* ------------------------------------------------------------------ a concrete heap: class 32 has one free and one used block,
   one non-cached block, one block (5) that does not belong to the cache; ordinals 1..6 are taken, the next is 7 *)
Definition ex_arr (f0 u0 u1 : hptr) : list val :=
  [VInt 32; VPtr f0; VPtr u0; VInt 64; VPtr HNull; VPtr u1; VInt 96; VPtr HNull; VPtr HNull;
   VInt 128; VPtr HNull; VPtr HNull; VInt 256; VPtr HNull; VPtr HNull].
Definition ex_heap : heap :=
  [ [VInt 7; VPtr (HPtr 1 0); VPtr (HPtr 4 0); VInt 0]; ex_arr (HPtr 2 0) (HPtr 3 0) HNull;
    [VPtr HNull; VInt 2]; [VPtr HNull; VInt 4]; [VPtr HNull; VInt 6]; [VInt 99] ].
Definition ex_ids : list (nat * N) := [(2%nat, 1%N); (3%nat, 3%N); (4%nat, 5%N)].
Definition ex_lay : lay :=
  {| l_bt := 0; l_bn := 1; l_fr := [[2%nat]; []; []; []; []]; l_us := [[3%nat]; []; []; []; []]; l_non := [4%nat]; l_al := 7 |}.
Definition mkb (a b : N) : mblock := {| b_hdr := a; b_mem := b |}.
Definition mkn (s : N) (f u : list mblock) : mnode := {| n_size := s; n_free := f; n_used := u |}.
Definition ex_st : state :=
  {| s_cache := [mkn 32 [mkb 1 2] [mkb 3 4]; mkn 64 [] []; mkn 96 [] []; mkn 128 [] []; mkn 256 [] []];
     s_non := [mkb 5 6]; s_warned := false; s_next := 7 |}.

(* the hypotheses of the four theorems hold of it *)
Example ex_rep : rep ex_heap (HPtr 0 0) ex_ids ex_lay ex_st.
Proof.
  unfold rep. split; [reflexivity|]. split.
  { exists (HPtr 4 0). split; [reflexivity|]. cbn. split; [reflexivity|]. split; [reflexivity|]. exists HNull. split; reflexivity. }
  split; [reflexivity|]. split; [reflexivity|]. split; [reflexivity|]. split; [reflexivity|]. split; [|split].
  - intros i Hi. destruct i as [|[|[|[|[|i]]]]]; try lia.
    + exists (HPtr 2 0), (HPtr 3 0). cbn. repeat split; try reflexivity; exists HNull; split; reflexivity.
    + exists HNull, HNull. cbn. repeat split; reflexivity.
    + exists HNull, HNull. cbn. repeat split; reflexivity.
    + exists HNull, HNull. cbn. repeat split; reflexivity.
    + exists HNull, HNull. cbn. repeat split; reflexivity.
  - change (lay_blocks ex_lay) with [0; 1; 2; 3; 4]%nat. repeat (constructor; [cbn; intuition lia|]). constructor.
  - cbn. repeat constructor.
Qed.
Example ex_fuel : fuel_ok 10 ex_st.
Proof.
  split; [lia|]. split; [cbn; lia|]. intros nd H. cbn in H.
  destruct H as [<-|[<-|[<-|[<-|[<-|[]]]]]]; cbn; lia.
Qed.

(* alloc(10): the free block of class 32 is handed out again (buffer ordinal 2), no allocator call *)
Example ex_alloc_reuse :
  src_cache_alloc 10 ex_heap [] 7 (HPtr 0 0) 10 =
  FOk (2, [ [VInt 7; VPtr (HPtr 1 0); VPtr (HPtr 4 0); VInt 0]; ex_arr HNull (HPtr 2 0) HNull;
            [VPtr (HPtr 3 0); VInt 2]; [VPtr HNull; VInt 4]; [VPtr HNull; VInt 6]; [VInt 99] ], [], 7) /\
  snd (C18_Model.alloc ex_st 10) = mk_out [] (Some 2%N) false.
Proof. split; vm_compute; reflexivity. Qed.
(* alloc(40): class 64 has no free block: header = ordinal 7 (heap block 6), buffer = ordinal 8 *)
Example ex_alloc_new :
  src_cache_alloc 10 ex_heap [] 7 (HPtr 0 0) 40 =
  FOk (8, [ [VInt 7; VPtr (HPtr 1 0); VPtr (HPtr 4 0); VInt 0]; ex_arr (HPtr 2 0) (HPtr 3 0) (HPtr 6 0);
            [VPtr HNull; VInt 2]; [VPtr HNull; VInt 4]; [VPtr HNull; VInt 6]; [VInt 99]; [VPtr HNull; VInt 8] ],
       [HAllocRec 7 (HPtr 6 0) 16; HAllocBuf 8 64], 9) /\
  erase_all ((6%nat, 7%N) :: ex_ids) [HAllocRec 7 (HPtr 6 0) 16; HAllocBuf 8 64] = o_evs (snd (C18_Model.alloc ex_st 40)) /\
  snd (C18_Model.alloc ex_st 40) = mk_out [EA 7 16; EA 8 64] (Some 8%N) false.
Proof. repeat split; vm_compute; reflexivity. Qed.
(* alloc(300): not cached *)
Example ex_alloc_noncached :
  src_cache_alloc 10 ex_heap [] 7 (HPtr 0 0) 300 =
  FOk (8, [ [VInt 7; VPtr (HPtr 1 0); VPtr (HPtr 6 0); VInt 0]; ex_arr (HPtr 2 0) (HPtr 3 0) HNull;
            [VPtr HNull; VInt 2]; [VPtr HNull; VInt 4]; [VPtr HNull; VInt 6]; [VInt 99]; [VPtr (HPtr 4 0); VInt 8] ],
       [HAllocRec 7 (HPtr 6 0) 16; HAllocBuf 8 300], 9) /\
  snd (C18_Model.alloc ex_st 300) = mk_out [EA 7 16; EA 8 300] (Some 8%N) false.
Proof. split; vm_compute; reflexivity. Qed.
(* dealloc(buffer 4, 10): the used block of class 32 goes to the head of the free list *)
Example ex_dealloc_cached :
  src_cache_dealloc 10 ex_heap [] 7 (HPtr 0 0) (addr_of (PId 4)) 10 =
  FOk (tt, [ [VInt 7; VPtr (HPtr 1 0); VPtr (HPtr 4 0); VInt 0]; ex_arr (HPtr 3 0) HNull HNull;
             [VPtr HNull; VInt 2]; [VPtr (HPtr 2 0); VInt 4]; [VPtr HNull; VInt 6]; [VInt 99] ], [], 7) /\
  snd (dealloc ex_st (PId 4) 10) = mk_out [] None false.
Proof. split; vm_compute; reflexivity. Qed.
(* dealloc(a pointer the cache never handed out, 10): the one-time warning, the flag is set *)
Example ex_dealloc_foreign :
  src_cache_dealloc 10 ex_heap [] 7 (HPtr 0 0) (addr_of (PFor 0)) 10 =
  FOk (tt, [ [VInt 7; VPtr (HPtr 1 0); VPtr (HPtr 4 0); VInt 1]; ex_arr (HPtr 2 0) (HPtr 3 0) HNull;
             [VPtr HNull; VInt 2]; [VPtr HNull; VInt 4]; [VPtr HNull; VInt 6]; [VInt 99] ], [HWarn], 7) /\
  snd (dealloc ex_st (PFor 0) 10) = mk_out [] None true.
Proof. split; vm_compute; reflexivity. Qed.
(* dealloc(buffer 6, 300): the non-cached block goes back to the allocator, buffer first *)
Example ex_dealloc_noncached :
  src_cache_dealloc 10 ex_heap [] 7 (HPtr 0 0) (addr_of (PId 6)) 300 =
  FOk (tt, [ [VInt 7; VPtr (HPtr 1 0); VPtr HNull; VInt 0]; ex_arr (HPtr 2 0) (HPtr 3 0) HNull;
             [VPtr HNull; VInt 2]; [VPtr HNull; VInt 4]; [VPtr HNull; VInt 6]; [VInt 99] ],
       [HFreeBuf 6 300; HFreeRec (HPtr 4 0) 16], 7) /\
  erase_all ex_ids [HFreeBuf 6 300; HFreeRec (HPtr 4 0) 16] = o_evs (snd (dealloc ex_st (PId 6) 300)) /\
  snd (dealloc ex_st (PId 6) 300) = mk_out [EF 6 300; EF 5 16] None false.
Proof. repeat split; vm_compute; reflexivity. Qed.
(* clearCache: the free block of class 32 goes back *)
Example ex_clearCache :
  src_cache_clearCache 10 ex_heap [] 7 (HPtr 0 0) =
  FOk (tt, [ [VInt 7; VPtr (HPtr 1 0); VPtr (HPtr 4 0); VInt 0]; ex_arr HNull (HPtr 3 0) HNull;
             [VPtr HNull; VInt 2]; [VPtr HNull; VInt 4]; [VPtr HNull; VInt 6]; [VInt 99] ],
       [HFreeBuf 2 32; HFreeRec (HPtr 2 0) 16], 7) /\
  erase_all ex_ids [HFreeBuf 2 32; HFreeRec (HPtr 2 0) 16] = o_evs (snd (clear_cache ex_st)) /\
  snd (clear_cache ex_st) = mk_out [EF 2 32; EF 1 16] None false.
Proof. repeat split; vm_compute; reflexivity. Qed.
(* clearAllIncludingCurrentlyUsedMemory: free, used, then the non-cached block with size 0 *)
Example ex_clearAll :
  src_cache_clearAllIncludingCurrentlyUsedMemory 10 ex_heap [] 7 (HPtr 0 0) =
  FOk (tt, [ [VInt 7; VPtr (HPtr 1 0); VPtr HNull; VInt 0]; ex_arr HNull HNull HNull;
             [VPtr HNull; VInt 2]; [VPtr HNull; VInt 4]; [VPtr HNull; VInt 6]; [VInt 99] ],
       [HFreeBuf 2 32; HFreeRec (HPtr 2 0) 16; HFreeBuf 4 32; HFreeRec (HPtr 3 0) 16; HFreeBuf 6 0; HFreeRec (HPtr 4 0) 16], 7) /\
  erase_all ex_ids [HFreeBuf 2 32; HFreeRec (HPtr 2 0) 16; HFreeBuf 4 32; HFreeRec (HPtr 3 0) 16; HFreeBuf 6 0; HFreeRec (HPtr 4 0) 16] =
  o_evs (snd (clear_all ex_st)) /\
  snd (clear_all ex_st) = mk_out [EF 2 32; EF 1 16; EF 4 32; EF 3 16; EF 6 0; EF 5 16] None false.
Proof. repeat split; vm_compute; reflexivity. Qed.

(* the theorems apply to it (their hypotheses are satisfiable) *)
Example ex_alloc_thm := src_cache_alloc_spec 10 ex_heap [] (HPtr 0 0) ex_ids ex_lay ex_st 10 ex_rep ex_fuel.
Example ex_dealloc_thm := src_cache_dealloc_spec 10 ex_heap [] (HPtr 0 0) ex_ids ex_lay ex_st (PId 4) 10 ex_rep ex_fuel.
Example ex_clearCache_thm := src_cache_clearCache_spec 10 ex_heap [] (HPtr 0 0) ex_ids ex_lay ex_st ex_rep ex_fuel.
Example ex_clearAll_thm := src_cache_clearAll_spec 10 ex_heap [] (HPtr 0 0) ex_ids ex_lay ex_st ex_rep ex_fuel.
