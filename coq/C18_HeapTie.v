(* C18: the translated SimpleStringInternalCache (gen/Gen_HeapC18.v, regenerated from /repo on every run) run on a heap that
   represents a model state (C18_HeapRep.v: rep) does what the hand-written model (C18_Model.v) does: same return value, a heap
   representing the model's new state, the allocator events of the model (after erasing the ghost events), the warning exactly
   when the model warns, nothing outside the structure touched.  Helper functions first, then the four public operations. *)
From Coq Require Import ZArith NArith Bool List Lia.
From CppUVerif Require Import lib.CSem lib.CMem lib.CMemFacts lib.CHeap gen.Gen_C18 gen.Gen_HeapC18 C18_Model C18_HeapRep.
Import ListNotations.
Local Open Scope Z_scope.

(* ------------------------------------------------------------------ cell access *)
Lemma t_z2b_ptr b i : z2b (hp_bool (HPtr b i)) = true. Proof. reflexivity. Qed.
Lemma t_z2b_null : z2b (hp_bool HNull) = false. Proof. reflexivity. Qed.

Lemma t_hpadd h b i k j : Z.of_nat i + k = Z.of_nat j -> (j <= length (hblock h b))%nat ->
  hpadd h (HPtr b (Z.of_nat i)) k = Some (HPtr b (Z.of_nat j)).
Proof.
  intros E L. cbn [hpadd]. rewrite E. replace (0 <=? Z.of_nat j) with true by (symmetry; apply Z.leb_le; lia).
  replace (Z.of_nat j <=? Z.of_nat (length (hblock h b))) with true by (symmetry; apply Z.leb_le; lia). reflexivity.
Qed.
Lemma t_hpadd0 h b k j : k = Z.of_nat j -> (j <= length (hblock h b))%nat -> hpadd h (HPtr b 0) k = Some (HPtr b (Z.of_nat j)).
Proof. intros E L. exact (t_hpadd h b 0 k j E L). Qed.
Lemma t_load_ptr h b k q : nth_error (hblock h b) k = Some (VPtr q) -> hload_ptr h (HPtr b (Z.of_nat k)) = Some q.
Proof. intro H. unfold hload_ptr. rewrite hload_cell. unfold cell. rewrite H. reflexivity. Qed.
Lemma t_load_int h b k z : nth_error (hblock h b) k = Some (VInt z) -> hload_int h (HPtr b (Z.of_nat k)) = Some z.
Proof. intro H. unfold hload_int. rewrite hload_cell. unfold cell. rewrite H. reflexivity. Qed.
Lemma t_load_ptr0 h b q : nth_error (hblock h b) 0 = Some (VPtr q) -> hload_ptr h (HPtr b 0) = Some q.
Proof. exact (t_load_ptr h b 0 q). Qed.
Lemma t_store h b k v : (k < length (hblock h b))%nat -> (b < length h)%nat ->
  exists h', hstore h (HPtr b (Z.of_nat k)) v = Some h' /\ length h' = length h /\
    (forall b', b' <> b -> hblock h' b' = hblock h b') /\ hblock h' b = upd (hblock h b) k v.
Proof.
  intros L1 L2. exists (upd h b (upd (hblock h b) k v)). split; [|split; [|split]].
  - rewrite hstore_cell. replace (Nat.ltb k (length (hblock h b))) with true by (symmetry; apply Nat.ltb_lt; exact L1).
    replace (Nat.ltb b (length h)) with true by (symmetry; apply Nat.ltb_lt; exact L2). reflexivity.
  - apply heap_upd_length.
  - intros b' Hne. apply hblock_upd_other. intro E. apply Hne. symmetry. exact E.
  - apply hblock_upd_same. exact L2.
Qed.
Lemma t_store0 h b v : (0 < length (hblock h b))%nat -> (b < length h)%nat ->
  exists h', hstore h (HPtr b 0) v = Some h' /\ length h' = length h /\
    (forall b', b' <> b -> hblock h' b' = hblock h b') /\ hblock h' b = upd (hblock h b) 0 v.
Proof. exact (t_store h b 0 v). Qed.

(* a block holding a SimpleStringMemoryBlock *)
Section Blk.
  Variables (h : heap) (hb : nat) (b : mblock) (nxt : hptr).
  Hypothesis Hb : hblock h hb = blk_cells b nxt.
  Lemma t_blk_padd1 : hpadd h (HPtr hb 0) 1 = Some (HPtr hb 1).
  Proof. exact (t_hpadd0 h hb 1 1 eq_refl ltac:(rewrite Hb; cbn; lia)). Qed.
  Lemma t_blk_mem : hload_int h (HPtr hb 1) = Some (Z.of_N (b_mem b)).
  Proof. apply (t_load_int h hb 1). rewrite Hb. reflexivity. Qed.
  Lemma t_blk_next : hload_ptr h (HPtr hb 0) = Some nxt.
  Proof. apply t_load_ptr0. rewrite Hb. reflexivity. Qed.
  Lemma t_blk_set_next q : (hb < length h)%nat ->
    exists h', hstore h (HPtr hb 0) (VPtr q) = Some h' /\ length h' = length h /\
      (forall b', b' <> hb -> hblock h' b' = hblock h b') /\ hblock h' hb = blk_cells b q.
  Proof.
    intro L. destruct (t_store0 h hb (VPtr q)) as [h' [A [B [C D]]]]; [rewrite Hb; cbn; lia | exact L|].
    exists h'. split; [exact A|]. split; [exact B|]. split; [exact C|]. rewrite D, Hb. reflexivity.
  Qed.
End Blk.

Lemma t_mem_eq (b : mblock) (p : mptr) : z2b (c_eq (Z.of_N (b_mem b)) (addr_of p)) = mem_is b p.
Proof.
  unfold c_eq. rewrite b2z_z2b. destruct p as [m|k]; cbn [addr_of mem_is].
  - destruct (N.eqb_spec (b_mem b) m) as [E|E]; [subst; apply Z.eqb_refl | apply Z.eqb_neq; lia].
  - apply Z.eqb_neq. lia.
Qed.
Lemma t_leb_N x y : z2b (c_le (Z.of_N x) (Z.of_N y)) = (x <=? y)%N.
Proof.
  unfold c_le. rewrite b2z_z2b. destruct (N.leb_spec x y); [apply Z.leb_le | apply Z.leb_gt]; lia.
Qed.

(* ------------------------------------------------------------------ isCached, getIndexForCache, getCacheNodeFromSize *)
Lemma t_isCached fuel h evs nx this n :
  src_cache_isCached fuel h evs nx this (Z.of_N n) = FOk (b2z (is_cached n), h, evs, nx).
Proof.
  unfold src_cache_isCached, finish, is_cached, cached_bound. change 256 with (Z.of_N 256).
  unfold c_le. replace (Z.of_N n <=? Z.of_N 256) with (n <=? 256)%N; [reflexivity|].
  destruct (N.leb_spec n 256); symmetry; [apply Z.leb_le | apply Z.leb_gt]; lia.
Qed.

Lemma index_from_bound n : forall c i j, index_from i c n = Some j -> (i <= j < i + length c)%nat.
Proof.
  induction c as [|nd c IH]; intros i j H; cbn [index_from] in H; [discriminate H|].
  destruct (n <=? n_size nd)%N.
  - inversion H; subst. cbn [length]. lia.
  - apply IH in H. cbn [length]. lia.
Qed.
Lemma index_for_bound c n : (0 < length c)%nat -> (index_for c n < length c)%nat.
Proof.
  intro H. unfold index_for. destruct (index_from 0 c n) as [j|] eqn:E; [|exact H]. apply index_from_bound in E. lia.
Qed.
Lemma skipn_nth_cons (c : list mnode) : forall i, (i < length c)%nat -> skipn i c = nth i c dnode :: skipn (S i) c.
Proof.
  induction c as [|x c IH]; intros [|i] H; cbn [length] in H; try lia; [reflexivity|].
  cbn [skipn nth]. rewrite (IH i) by lia. reflexivity.
Qed.

(* the cells of the cache object and of the node array *)
Section This.
  Variables (h : heap) (bt bn : nat) (al : Z) (pn : hptr) (w : bool).
  Hypothesis Hbt : hblock h bt = cache_cells al bn pn w.
  Lemma t_this_padd1 : hpadd h (HPtr bt 0) 1 = Some (HPtr bt 1).
  Proof. exact (t_hpadd0 h bt 1 1 eq_refl ltac:(rewrite Hbt; cbn; lia)). Qed.
  Lemma t_this_padd2 : hpadd h (HPtr bt 0) 2 = Some (HPtr bt 2).
  Proof. exact (t_hpadd0 h bt 2 2 eq_refl ltac:(rewrite Hbt; cbn; lia)). Qed.
  Lemma t_this_padd3 : hpadd h (HPtr bt 0) 3 = Some (HPtr bt 3).
  Proof. exact (t_hpadd0 h bt 3 3 eq_refl ltac:(rewrite Hbt; cbn; lia)). Qed.
  Lemma t_this_cache : hload_ptr h (HPtr bt 1) = Some (HPtr bn 0).
  Proof. apply (t_load_ptr h bt 1). rewrite Hbt. reflexivity. Qed.
  Lemma t_this_non : hload_ptr h (HPtr bt 2) = Some pn.
  Proof. apply (t_load_ptr h bt 2). rewrite Hbt. reflexivity. Qed.
  Lemma t_this_warned : hload_int h (HPtr bt 3) = Some (b2z w).
  Proof. apply (t_load_int h bt 3). rewrite Hbt. reflexivity. Qed.
End This.
Section Arr.
  Variables (h : heap) (bn : nat).
  Hypothesis Hlen : length (hblock h bn) = 15%nat.
  Lemma t_node_ptr i : (i < 5)%nat -> hpadd h (HPtr bn 0) (Z.of_nat i * 3) = Some (HPtr bn (Z.of_nat (3 * i))).
  Proof. intro H. apply t_hpadd0; [lia | rewrite Hlen; lia]. Qed.
  Lemma t_node_padd1 i : (i < 5)%nat -> hpadd h (HPtr bn (Z.of_nat (3 * i))) 1 = Some (HPtr bn (Z.of_nat (3 * i + 1))).
  Proof. intros H1. apply t_hpadd; [lia | rewrite Hlen; lia]. Qed.
  Lemma t_node_padd2 i : (i < 5)%nat -> hpadd h (HPtr bn (Z.of_nat (3 * i))) 2 = Some (HPtr bn (Z.of_nat (3 * i + 2))).
  Proof. intros H1. apply t_hpadd; [lia | rewrite Hlen; lia]. Qed.
End Arr.

(* what the read-only helpers need from the heap *)
Section Nodes.
  Variables (h : heap) (bt bn : nat) (al : Z) (pn : hptr) (w : bool) (c : list mnode).
  Hypothesis Hbt : hblock h bt = cache_cells al bn pn w.
  Hypothesis Hlen : length (hblock h bn) = 15%nat.
  Hypothesis Hc : length c = 5%nat.
  Hypothesis Hsz : forall i, (i < 5)%nat -> nth_error (hblock h bn) (3 * i) = Some (VInt (Z.of_N (n_size (nth i c dnode)))).

  Lemma t_node_size i : (i < 5)%nat -> hload_int h (HPtr bn (Z.of_nat (3 * i))) = Some (Z.of_N (n_size (nth i c dnode))).
  Proof. intro H. apply t_load_int. apply Hsz. exact H. Qed.

  Lemma t_getIndex_loop fuel0 evs nx n : forall d i fuel, (i + d = 5)%nat -> (d < fuel)%nat ->
    src_cache_getIndexForCache_loop1 fuel0 fuel h (HPtr bt 0) evs nx (Z.of_N n) (Z.of_nat i) =
    match index_from i (skipn i c) n with Some j => Done (Z.of_nat j, h, evs, nx) | None => Go 5 end.
  Proof.
    induction d as [|d IH]; intros i fuel Hi Hf; (destruct fuel as [|fuel]; [lia|]); cbn [src_cache_getIndexForCache_loop1].
    - assert (i = 5%nat) by lia. subst i. rewrite skipn_all2 by lia. reflexivity.
    - replace (z2b (c_lt (Z.of_nat i) 5)) with true
        by (unfold c_lt; replace (Z.of_nat i <? 5) with true by (symmetry; apply Z.ltb_lt; lia); reflexivity).
      rewrite (t_this_padd1 _ _ _ _ _ _ Hbt). cbv beta iota. rewrite (t_this_cache _ _ _ _ _ _ Hbt). cbv beta iota.
      rewrite (t_node_ptr _ _ Hlen i) by lia. cbv beta iota. rewrite (t_node_size i) by lia. cbv beta iota.
      rewrite t_leb_N. rewrite (skipn_nth_cons c i) by lia. cbn [index_from].
      destruct (n <=? n_size (nth i c dnode))%N; [reflexivity|]. cbv zeta.
      replace (cw 64 false (Z.of_nat i + 1)) with (Z.of_nat (S i)).
      + apply IH; lia.
      + rewrite cw_u_small; [lia|]. change (2 ^ 64) with 18446744073709551616. lia.
  Qed.

  Lemma t_getIndex fuel evs nx n : (5 < fuel)%nat ->
    src_cache_getIndexForCache fuel h evs nx (HPtr bt 0) (Z.of_N n) = FOk (Z.of_nat (index_for c n), h, evs, nx).
  Proof.
    intro Hf. unfold src_cache_getIndexForCache. cbv zeta. pose proof (t_getIndex_loop fuel evs nx n 5 0 fuel eq_refl Hf) as H.
    change (Z.of_nat 0) with 0 in H. rewrite H. cbn [skipn]. unfold index_for.
    destruct (index_from 0 c n); reflexivity.
  Qed.

  Lemma t_getNode fuel evs nx n : (5 < fuel)%nat ->
    src_cache_getCacheNodeFromSize fuel h evs nx (HPtr bt 0) (Z.of_N n) =
    FOk (HPtr bn (Z.of_nat (3 * index_for c n)), h, evs, nx).
  Proof.
    intro Hf. unfold src_cache_getCacheNodeFromSize. rewrite t_getIndex by exact Hf. cbv beta iota zeta.
    rewrite (t_this_padd1 _ _ _ _ _ _ Hbt). cbv beta iota. rewrite (t_this_cache _ _ _ _ _ _ Hbt). cbv beta iota.
    rewrite (t_node_ptr _ _ Hlen); [reflexivity|]. rewrite <- Hc. apply index_for_bound. lia.
  Qed.
End Nodes.

(* ------------------------------------------------------------------ createSimpleStringMemoryBlock, destroySimpleStringMemoryBlock(List) *)
Lemma t_hblock_new (h : heap) x : hblock (h ++ [x]) (length h) = x.
Proof. unfold hblock. rewrite app_nth2 by lia. rewrite Nat.sub_diag. reflexivity. Qed.
Lemma t_hblock_old (h : heap) x b : (b < length h)%nat -> hblock (h ++ [x]) b = hblock h b.
Proof. intro H. unfold hblock. apply app_nth1. exact H. Qed.
Lemma t_hstore_new (h : heap) x k v : (k < length x)%nat ->
  hstore (h ++ [x]) (HPtr (length h) (Z.of_nat k)) v = Some (h ++ [upd x k v]).
Proof.
  intro L. rewrite hstore_cell. rewrite t_hblock_new.
  replace (Nat.ltb k (length x)) with true by (symmetry; apply Nat.ltb_lt; exact L).
  replace (Nat.ltb (length h) (length (h ++ [x]))) with true by (symmetry; apply Nat.ltb_lt; rewrite app_length; cbn; lia).
  cbn [andb]. rewrite upd_app_mid. reflexivity.
Qed.

Lemma t_create fuel h evs nx this size next :
  src_cache_createSimpleStringMemoryBlock fuel h evs nx this size next =
  FOk (HPtr (length h) 0, h ++ [[VPtr next; VInt (nx + 1)]],
       evs ++ [HAllocRec nx (HPtr (length h) 0) sizeof_SimpleStringMemoryBlock; HAllocBuf (nx + 1) size], nx + 1 + 1).
Proof.
  unfold src_cache_createSimpleStringMemoryBlock. cbv zeta.
  rewrite (t_hpadd0 _ (length h) 1 1 eq_refl) by (rewrite t_hblock_new; cbn; lia). cbv beta iota.
  rewrite (t_hstore_new h _ 1) by (cbn; lia). cbv beta iota.
  change (HPtr (length h) 0) with (HPtr (length h) (Z.of_nat 0)). rewrite (t_hstore_new h _ 0) by (cbn; lia). cbv beta iota.
  rewrite <- app_assoc. reflexivity.
Qed.

Lemma t_destroy fuel h evs nx this hb b nxt size : hblock h hb = blk_cells b nxt ->
  src_cache_destroySimpleStringMemoryBlock fuel h evs nx this (HPtr hb 0) size =
  FOk (tt, h, evs ++ [HFreeBuf (Z.of_N (b_mem b)) size; HFreeRec (HPtr hb 0) sizeof_SimpleStringMemoryBlock], nx).
Proof.
  intro Hb. unfold src_cache_destroySimpleStringMemoryBlock. rewrite (t_blk_padd1 _ _ _ _ Hb). cbv beta iota.
  rewrite (t_blk_mem _ _ _ _ Hb). cbv beta iota zeta. rewrite <- app_assoc. reflexivity.
Qed.

(* the ghost events of destroying a represented list *)
Fixpoint destroy_hevs (size : Z) (bs : list nat) (l : list mblock) : list hev :=
  match l, bs with
  | b :: l', hb :: bs' =>
      HFreeBuf (Z.of_N (b_mem b)) size :: HFreeRec (HPtr hb 0) sizeof_SimpleStringMemoryBlock :: destroy_hevs size bs' l'
  | _, _ => []
  end.

Lemma t_destroyList_loop fuel0 this size h ids nx : forall l fuel p bs evs,
  chain h ids p bs l -> (length l < fuel)%nat ->
  src_cache_destroySimpleStringMemoryBlockList_loop1 fuel0 fuel this size h evs nx p =
  Go (h, evs ++ destroy_hevs size bs l, nx, HNull).
Proof.
  induction l as [|b l IH]; intros fuel p bs evs Hc Hf; (destruct fuel as [|fuel]; [cbn in Hf; lia|]);
    cbn [src_cache_destroySimpleStringMemoryBlockList_loop1].
  - apply chain_nil_inv in Hc. destruct Hc as [-> ->]. rewrite t_z2b_null. cbn [destroy_hevs]. rewrite app_nil_r. reflexivity.
  - apply chain_cons_inv in Hc. destruct Hc as [hb [bs' [nxt [-> [-> [Hl [Hb Hc]]]]]]]. rewrite t_z2b_ptr. cbv beta iota.
    rewrite (t_blk_next _ _ _ _ Hb). cbv beta iota zeta. rewrite (t_destroy fuel0 h evs nx this hb b nxt size Hb). cbv beta iota.
    cbn [length] in Hf. rewrite (IH fuel nxt bs' _ Hc) by lia. cbn [destroy_hevs]. rewrite <- app_assoc. reflexivity.
Qed.

Lemma t_destroyList fuel this size h ids nx p bs l evs : chain h ids p bs l -> (length l < fuel)%nat ->
  src_cache_destroySimpleStringMemoryBlockList fuel h evs nx this p size = FOk (tt, h, evs ++ destroy_hevs size bs l, nx).
Proof.
  intros Hc Hf. unfold src_cache_destroySimpleStringMemoryBlockList. cbv zeta.
  rewrite (t_destroyList_loop fuel this size h ids nx l fuel p bs evs Hc Hf). reflexivity.
Qed.

(* their erasure is the model's destroy_list; no warning among them *)
Lemma t_destroy_hevs_erase h ids ids' sz : forall l p bs, chain h ids p bs l ->
  (forall b, In b bs -> lookup b ids' = lookup b ids) ->
  erase_all ids' (destroy_hevs (Z.of_N sz) bs l) = destroy_list sz l /\
  Forall (resolved ids') (destroy_hevs (Z.of_N sz) bs l) /\ has_warn (destroy_hevs (Z.of_N sz) bs l) = false.
Proof.
  induction l as [|b l IH]; intros p bs Hc Hi.
  - apply chain_nil_inv in Hc. destruct Hc as [-> ->]. cbn. split; [reflexivity|]. split; [constructor | reflexivity].
  - apply chain_cons_inv in Hc. destruct Hc as [hb [bs' [nxt [-> [-> [Hl [Hb Hc]]]]]]].
    destruct (IH nxt bs' Hc) as [A [B C]]; [intros x Hx; apply Hi; right; exact Hx|].
    assert (Hl' : lookup hb ids' = Some (b_hdr b)) by (rewrite Hi by (left; reflexivity); exact Hl).
    cbn [destroy_hevs]. split; [|split].
    + unfold erase_all in *. cbn [flat_map erase]. rewrite Hl'. rewrite A. unfold destroy_list. cbn [flat_map destroy_block app].
      rewrite !N2Z.id. reflexivity.
    + constructor; [exact I|]. constructor; [|exact B]. cbn [resolved]. rewrite Hl'. discriminate.
    + exact C.
Qed.

(* ------------------------------------------------------------------ distinctness facts from NoDup (lay_blocks L), by counting *)
Lemma cnt_nth_le x : forall (ls : list (list nat)) i, (cnt x (nth i ls []) <= cnt x (concat ls))%nat.
Proof.
  induction ls as [|a ls IH]; intros [|i]; cbn [nth concat]; try rewrite cnt_app; try rewrite cnt_nil; try lia.
  specialize (IH i). lia.
Qed.
Lemma cnt_nth2_le x : forall (ls : list (list nat)) i j, i <> j -> (cnt x (nth i ls []) + cnt x (nth j ls []) <= cnt x (concat ls))%nat.
Proof.
  induction ls as [|a ls IH]; intros [|i] [|j] H; cbn [nth concat]; try rewrite cnt_app; try rewrite cnt_nil; try lia.
  - pose proof (cnt_nth_le x ls j). lia.
  - pose proof (cnt_nth_le x ls i). lia.
  - specialize (IH i j ltac:(lia)). lia.
Qed.
Lemma lay_cnt_slots L x i j : NoDup (lay_blocks L) ->
  (one (l_bt L) x + one (l_bn L) x + cnt x (nth i (l_fr L) []) + cnt x (nth j (l_us L) []) + cnt x (l_non L) <= 1)%nat.
Proof.
  intro H. apply NoDup_cnt with (x := x) in H. rewrite cnt_lay in H.
  pose proof (cnt_nth_le x (l_fr L) i). pose proof (cnt_nth_le x (l_us L) j). lia.
Qed.
Lemma lay_cnt_fr2 L x i j : NoDup (lay_blocks L) -> i <> j -> (cnt x (nth i (l_fr L) []) + cnt x (nth j (l_fr L) []) <= 1)%nat.
Proof.
  intros H Hne. apply NoDup_cnt with (x := x) in H. rewrite cnt_lay in H. pose proof (cnt_nth2_le x (l_fr L) i j Hne). lia.
Qed.
Lemma lay_cnt_us2 L x i j : NoDup (lay_blocks L) -> i <> j -> (cnt x (nth i (l_us L) []) + cnt x (nth j (l_us L) []) <= 1)%nat.
Proof.
  intros H Hne. apply NoDup_cnt with (x := x) in H. rewrite cnt_lay in H. pose proof (cnt_nth2_le x (l_us L) i j Hne). lia.
Qed.
Lemma ne_one a x : a <> x <-> one a x = 0%nat.
Proof. unfold one. destruct (Nat.eq_dec a x); split; intro H; try lia; try contradiction; discriminate. Qed.
Lemma eq_one a x : a = x -> one a x = 1%nat.
Proof. intro H. subst. apply one_same. Qed.

Lemma one_sym a x : one a x = one x a.
Proof. unfold one. destruct (Nat.eq_dec a x), (Nat.eq_dec x a); congruence. Qed.

(* all membership hypotheses and goals as counts, then lia *)
Ltac cnt_solve :=
  repeat match goal with
         | H : In _ _ |- _ => apply In_cnt in H
         | H : ~ In _ _ |- _ => apply notIn_cnt in H
         | H : ?a <> ?b :> nat |- _ => pose proof (one_sym a b); apply ne_one in H
         end;
  try match goal with
      | |- ~ In _ _ => apply notIn_cnt
      | |- In _ _ => apply In_cnt
      | |- ?a <> ?b :> nat => pose proof (one_sym a b); apply ne_one
      end;
  rewrite ?cnt_cons, ?cnt_app, ?cnt_nil, ?one_same in *; try lia.

Ltac rep_inv H :=
  let Ht := fresh "Ht" in let pn := fresh "pn" in let Hbt := fresh "Hbt" in let Hnon := fresh "Hnon" in
  let Hc := fresh "Hc" in let Hfr := fresh "Hfr" in let Hus := fresh "Hus" in let Hlen := fresh "Hlen" in
  let Hnodes := fresh "Hnodes" in let Hnd := fresh "Hnd" in let Hbd := fresh "Hbd" in
  destruct H as [Ht [[pn [Hbt Hnon]] [Hc [Hfr [Hus [Hlen [Hnodes [Hnd Hbd]]]]]]]].

(* ------------------------------------------------------------------ rebuilding rep after a change at one node / at the non-cached list *)
Lemma rep_set_node h h' this ids ids' L st i nd' fr' us' :
  rep h this ids L st -> (i < 5)%nat -> (length h <= length h')%nat ->
  (forall b, In b (lay_blocks L) -> b <> l_bn L -> ~ In b (nth i (l_fr L) []) -> ~ In b (nth i (l_us L) []) ->
             hblock h' b = hblock h b) ->
  (forall b, In b (lay_blocks L) -> lookup b ids' = lookup b ids) ->
  length (hblock h' (l_bn L)) = 15%nat ->
  (forall k, k <> (3 * i + 1)%nat -> k <> (3 * i + 2)%nat -> nth_error (hblock h' (l_bn L)) k = nth_error (hblock h (l_bn L)) k) ->
  n_size nd' = n_size (nth i (s_cache st) dnode) ->
  (exists pf pu, nth_error (hblock h' (l_bn L)) (3 * i + 1) = Some (VPtr pf) /\
                 nth_error (hblock h' (l_bn L)) (3 * i + 2) = Some (VPtr pu) /\
                 chain h' ids' pf fr' (n_free nd') /\ chain h' ids' pu us' (n_used nd')) ->
  NoDup (lay_blocks (lay_set_node L i fr' us')) ->
  Forall (fun b => (b < length h')%nat) fr' -> Forall (fun b => (b < length h')%nat) us' ->
  rep h' this ids' (lay_set_node L i fr' us') (with_cache st (set_nth i nd' (s_cache st))).
Proof.
  intros Hrep Hi Hle Hfrm Hids Hlen' Hcells Hsz [pf' [pu' [Hpf [Hpu [Hcf Hcu]]]]] Hnd' Hbf Hbu. rep_inv Hrep.
  unfold rep. cbn [lay_set_node with_cache l_bt l_bn l_fr l_us l_non l_al s_cache s_non s_warned].
  split; [exact Ht|]. split; [|split; [|split; [|split; [|split; [|split; [|split]]]]]].
  - exists pn. split.
    + rewrite Hfrm; [exact Hbt | apply In_lay_bt | | |]; pose proof (lay_cnt_slots L (l_bt L) i i Hnd) as Q; cnt_solve.
    + apply chain_frame with (h := h) (ids := ids); [| |exact Hnon].
      * intros b Hb. pose proof (lay_cnt_slots L b i i Hnd) as Q.
        apply Hfrm; [apply In_lay_non; exact Hb | | |]; cnt_solve.
      * intros b Hb. apply Hids. apply In_lay_non. exact Hb.
  - rewrite set_nth_length. exact Hc.
  - rewrite upd_length. exact Hfr.
  - rewrite upd_length. exact Hus.
  - exact Hlen'.
  - intros j Hj. destruct (Nat.eq_dec i j) as [E|E].
    + subst j. exists pf', pu'. rewrite set_nth_same by lia. rewrite !nth_upd_same by lia.
      split; [|split; [exact Hpf | split; [exact Hpu | split; [exact Hcf | exact Hcu]]]].
      rewrite Hcells by lia. rewrite Hsz. destruct (Hnodes i Hi) as [pf [pu [A _]]]. exact A.
    + destruct (Hnodes j Hj) as [pf [pu [A [B [C [D F]]]]]]. exists pf, pu. rewrite set_nth_other by exact E.
      rewrite !nth_upd_other by exact E. rewrite !Hcells by lia.
      split; [exact A|]. split; [exact B|]. split; [exact C|]. split.
      * apply chain_frame with (h := h) (ids := ids); [| |exact D].
        -- intros b Hb. pose proof (lay_cnt_slots L b j i Hnd) as Q. pose proof (lay_cnt_fr2 L b i j Hnd E) as Q2.
           apply Hfrm; [apply (In_lay_fr L j); exact Hb | | |]; cnt_solve.
        -- intros b Hb. apply Hids. apply (In_lay_fr L j). exact Hb.
      * apply chain_frame with (h := h) (ids := ids); [| |exact F].
        -- intros b Hb. pose proof (lay_cnt_slots L b i j Hnd) as Q. pose proof (lay_cnt_us2 L b i j Hnd E) as Q2.
           apply Hfrm; [apply (In_lay_us L j); exact Hb | | |]; cnt_solve.
        -- intros b Hb. apply Hids. apply (In_lay_us L j). exact Hb.
  - exact Hnd'.
  - apply Forall_forall. intros x Hx. destruct (In_lay_set_node _ _ _ _ _ Hx) as [H|[H|H]].
    + exact (proj1 (Forall_forall _ _) Hbf x H).
    + exact (proj1 (Forall_forall _ _) Hbu x H).
    + apply Nat.lt_le_trans with (length h); [exact (proj1 (Forall_forall _ _) Hbd x H) | exact Hle].
Qed.

Lemma rep_set_non h h' this ids ids' L st non' l' w' :
  rep h this ids L st -> (length h <= length h')%nat ->
  (forall b, In b (lay_blocks L) -> b <> l_bt L -> ~ In b (l_non L) -> hblock h' b = hblock h b) ->
  (forall b, In b (lay_blocks L) -> lookup b ids' = lookup b ids) ->
  (exists pn, hblock h' (l_bt L) = cache_cells (l_al L) (l_bn L) pn w' /\ chain h' ids' pn non' l') ->
  NoDup (lay_blocks (lay_set_non L non')) -> Forall (fun b => (b < length h')%nat) non' ->
  rep h' this ids' (lay_set_non L non') {| s_cache := s_cache st; s_non := l'; s_warned := w'; s_next := s_next st |}.
Proof.
  intros Hrep Hle Hfrm Hids Hnew Hnd' Hbn. rep_inv Hrep.
  unfold rep. cbn [lay_set_non l_bt l_bn l_fr l_us l_non l_al s_cache s_non s_warned].
  split; [exact Ht|]. split; [exact Hnew|]. split; [exact Hc|]. split; [exact Hfr|]. split; [exact Hus|].
  assert (Hbnb : hblock h' (l_bn L) = hblock h (l_bn L)).
  { pose proof (lay_cnt_slots L (l_bn L) 0 0 Hnd) as Q. apply Hfrm; [apply In_lay_bn | |]; cnt_solve. }
  split; [rewrite Hbnb; exact Hlen|]. split; [|split; [exact Hnd'|]].
  - intros j Hj. destruct (Hnodes j Hj) as [pf [pu [A [B [C [D F]]]]]]. exists pf, pu. rewrite Hbnb.
    split; [exact A|]. split; [exact B|]. split; [exact C|]. split.
    + apply chain_frame with (h := h) (ids := ids); [| |exact D].
      * intros b Hb. pose proof (lay_cnt_slots L b j j Hnd) as Q. apply Hfrm; [apply (In_lay_fr L j); exact Hb | |]; cnt_solve.
      * intros b Hb. apply Hids. apply (In_lay_fr L j). exact Hb.
    + apply chain_frame with (h := h) (ids := ids); [| |exact F].
      * intros b Hb. pose proof (lay_cnt_slots L b j j Hnd) as Q. apply Hfrm; [apply (In_lay_us L j); exact Hb | |]; cnt_solve.
      * intros b Hb. apply Hids. apply (In_lay_us L j). exact Hb.
  - apply Forall_forall. intros x Hx. destruct (In_lay_set_non _ _ _ Hx) as [H|H].
    + exact (proj1 (Forall_forall _ _) Hbn x H).
    + apply Nat.lt_le_trans with (length h); [exact (proj1 (Forall_forall _ _) Hbd x H) | exact Hle].
Qed.

(* a store into one cell of the node array *)
Lemma t_node_store h bn k v : length (hblock h bn) = 15%nat -> (k < 15)%nat -> (bn < length h)%nat ->
  exists h', hstore h (HPtr bn (Z.of_nat k)) v = Some h' /\ length h' = length h /\
    (forall b', b' <> bn -> hblock h' b' = hblock h b') /\ length (hblock h' bn) = 15%nat /\
    nth_error (hblock h' bn) k = Some v /\ (forall k', k' <> k -> nth_error (hblock h' bn) k' = nth_error (hblock h bn) k').
Proof.
  intros Hl Hk Hb. destruct (t_store h bn k v) as [h' [A [B [C D]]]]; [lia | exact Hb|].
  exists h'. split; [exact A|]. split; [exact B|]. split; [exact C|]. rewrite D. split; [rewrite upd_length; exact Hl|].
  split; [apply nth_error_upd_same; lia|]. intros k' Hk'. apply nth_error_upd_other. intro E. apply Hk'. symmetry. exact E.
Qed.

(* ------------------------------------------------------------------ reserveCachedBlockFrom *)
Lemma t_reserve fuel h evs nx this ids L st i b frl :
  rep h this ids L st -> (i < 5)%nat -> n_free (nth i (s_cache st) dnode) = b :: frl ->
  exists h' hb tl q,
    nth i (l_fr L) [] = hb :: tl /\
    src_cache_reserveCachedBlockFrom fuel h evs nx this (HPtr (l_bn L) (Z.of_nat (3 * i))) = FOk (HPtr hb 0, h', evs, nx) /\
    hblock h' hb = blk_cells b q /\
    rep h' this ids (lay_set_node L i tl (hb :: nth i (l_us L) []))
        (with_cache st (set_nth i {| n_size := n_size (nth i (s_cache st) dnode); n_free := frl;
                                     n_used := b :: n_used (nth i (s_cache st) dnode) |} (s_cache st))) /\
    length h' = length h /\ (forall x, ~ In x (lay_blocks L) -> hblock h' x = hblock h x).
Proof.
  intros Hrep Hi Hfree. pose proof Hrep as Hrep0. rep_inv Hrep. set (bn := l_bn L) in *.
  destruct (Hnodes i Hi) as [pf [pu [Hs [Hpf [Hpu [Hcf Hcu]]]]]]. rewrite Hfree in Hcf.
  apply chain_cons_inv in Hcf. destruct Hcf as [hb [tl [nxt [Hfi [-> [Hlk [Hb Hct]]]]]]].
  assert (Hbnl : (bn < length h)%nat) by (apply (proj1 (Forall_forall _ _) Hbd); apply In_lay_bn).
  assert (Hhbin : In hb (nth i (l_fr L) [])) by (rewrite Hfi; left; reflexivity).
  assert (Hhbl : (hb < length h)%nat) by (apply (proj1 (Forall_forall _ _) Hbd); apply (In_lay_fr L i); exact Hhbin).
  assert (Hhbn : hb <> bn).
  { pose proof (lay_cnt_slots L hb i i Hnd) as Q. fold bn in Q. cnt_solve. }
  destruct (t_node_store h bn (3 * i + 1) (VPtr nxt) Hlen ltac:(lia) Hbnl) as [h1 [S1 [L1 [F1 [N1 [C1 O1]]]]]].
  assert (Hb1 : hblock h1 hb = blk_cells b nxt) by (rewrite F1 by exact Hhbn; exact Hb).
  destruct (t_blk_set_next h1 hb b nxt Hb1 pu ltac:(lia)) as [h2 [S2 [L2 [F2 B2]]]].
  assert (N2 : length (hblock h2 bn) = 15%nat) by (rewrite F2 by (intro E; apply Hhbn; symmetry; exact E); exact N1).
  destruct (t_node_store h2 bn (3 * i + 2) (VPtr (HPtr hb 0)) N2 ltac:(lia) ltac:(lia)) as [h3 [S3 [L3 [F3 [N3 [C3 O3]]]]]].
  assert (Hbn21 : hblock h2 bn = hblock h1 bn) by (apply F2; intro E; apply Hhbn; symmetry; exact E).
  exists h3, hb, tl, pu. split; [exact Hfi|]. split; [|split; [|split; [|split]]].
  - unfold src_cache_reserveCachedBlockFrom. fold bn.
    rewrite (t_node_padd1 h bn Hlen i Hi). cbv beta iota. rewrite (t_load_ptr _ _ _ _ Hpf). cbv beta iota zeta.
    rewrite (t_blk_next _ _ _ _ Hb). cbv beta iota. rewrite S1. cbv beta iota.
    rewrite (t_node_padd2 h1 bn N1 i Hi). cbv beta iota.
    rewrite (t_load_ptr h1 bn (3 * i + 2) pu) by (rewrite O1 by lia; exact Hpu). cbv beta iota.
    unfold src_cache_addToSimpleStringMemoryBlockList. rewrite S2. cbv beta iota. cbn [finish]. cbv beta iota.
    rewrite (t_node_padd2 h2 bn N2 i Hi). cbv beta iota. rewrite S3. reflexivity.
  - rewrite F3 by exact Hhbn. exact B2.
  - apply (rep_set_node h h3 this ids ids L st i) with (1 := Hrep0); try assumption.
    + lia.
    + intros x Hx Hxn Hxf Hxu. rewrite F3 by exact Hxn. rewrite F2 by (intro E; subst x; exact (Hxf Hhbin)). apply F1. exact Hxn.
    + intros; reflexivity.
    + fold bn. intros k K1 K2. rewrite O3 by exact K2. rewrite Hbn21. apply O1. exact K1.
    + reflexivity.
    + fold bn. exists nxt, (HPtr hb 0). cbn [n_free n_used]. split; [rewrite O3 by lia; rewrite Hbn21; exact C1|].
      split; [exact C3|]. split.
      * apply chain_frame with (h := h) (ids := ids); [| intros; reflexivity | exact Hct].
        intros x Hx. assert (Hxi : In x (nth i (l_fr L) [])) by (rewrite Hfi; right; exact Hx).
        assert (x <> hb).
        { pose proof (lay_cnt_fr2 L x i i Hnd) as _. apply NoDup_cnt with (x := x) in Hnd. rewrite cnt_lay in Hnd.
          pose proof (cnt_nth_le x (l_fr L) i) as Q. rewrite Hfi in Q. cnt_solve. }
        assert (x <> bn) by (pose proof (lay_cnt_slots L x i i Hnd) as Q; fold bn in Q; cnt_solve).
        rewrite F3, F2, F1 by assumption. reflexivity.
      * cbn [chain]. split; [reflexivity|]. split; [exact Hlk|]. exists pu. split; [rewrite F3 by exact Hhbn; exact B2|].
        apply chain_frame with (h := h) (ids := ids); [| intros; reflexivity | exact Hcu].
        intros x Hx. pose proof (lay_cnt_slots L x i i Hnd) as Q. fold bn in Q. rewrite Hfi in Q.
        assert (x <> hb) by cnt_solve. assert (x <> bn) by cnt_solve. rewrite F3, F2, F1 by assumption. reflexivity.
    + apply NoDup_cnt. intro x. pose proof (cnt_lay_set_node x L i tl (hb :: nth i (l_us L) []) ltac:(lia) ltac:(lia)) as Q.
      rewrite Hfi in Q. apply NoDup_cnt with (x := x) in Hnd. cnt_solve.
    + apply Forall_forall. intros x Hx. rewrite L3, L2, L1. apply (proj1 (Forall_forall _ _) Hbd). apply (In_lay_fr L i).
      rewrite Hfi. right. exact Hx.
    + apply Forall_forall. intros x Hx. rewrite L3, L2, L1. apply (proj1 (Forall_forall _ _) Hbd).
      destruct Hx as [<-|Hx]; [apply (In_lay_fr L i); exact Hhbin | apply (In_lay_us L i); exact Hx].
  - lia.
  - intros x Hx. assert (x <> bn) by (intro E; subst x; apply Hx; apply In_lay_bn).
    assert (x <> hb) by (intro E; subst x; apply Hx; apply (In_lay_fr L i); exact Hhbin).
    rewrite F3, F2, F1 by assumption. reflexivity.
Qed.

(* stores into the cache object *)
Section ThisStore.
  Variables (h : heap) (bt bn : nat) (al : Z) (pn : hptr) (w : bool).
  Hypothesis Hbt : hblock h bt = cache_cells al bn pn w.
  Hypothesis Hl : (bt < length h)%nat.
  Lemma t_this_set_non q :
    exists h', hstore h (HPtr bt 2) (VPtr q) = Some h' /\ length h' = length h /\
      (forall b', b' <> bt -> hblock h' b' = hblock h b') /\ hblock h' bt = cache_cells al bn q w.
  Proof.
    destruct (t_store h bt 2 (VPtr q)) as [h' [A [B [C D]]]]; [rewrite Hbt; cbn; lia | exact Hl|].
    exists h'. split; [exact A|]. split; [exact B|]. split; [exact C|]. rewrite D, Hbt. reflexivity.
  Qed.
  Lemma t_this_set_warned :
    exists h', hstore h (HPtr bt 3) (VInt 1) = Some h' /\ length h' = length h /\
      (forall b', b' <> bt -> hblock h' b' = hblock h b') /\ hblock h' bt = cache_cells al bn pn true.
  Proof.
    destruct (t_store h bt 3 (VInt 1)) as [h' [A [B [C D]]]]; [rewrite Hbt; cbn; lia | exact Hl|].
    exists h'. split; [exact A|]. split; [exact B|]. split; [exact C|]. rewrite D, Hbt. reflexivity.
  Qed.
End ThisStore.

(* ------------------------------------------------------------------ allocateNewCacheBlockFrom *)
Lemma t_allocNew fuel h evs this ids L st i :
  rep h this ids L st -> (i < 5)%nat ->
  exists h' q,
    src_cache_allocateNewCacheBlockFrom fuel h evs (Z.of_N (s_next st)) this (HPtr (l_bn L) (Z.of_nat (3 * i))) =
    FOk (HPtr (length h) 0, h',
         evs ++ [HAllocRec (Z.of_N (s_next st)) (HPtr (length h) 0) sizeof_SimpleStringMemoryBlock;
                 HAllocBuf (Z.of_N (s_next st) + 1) (Z.of_N (n_size (nth i (s_cache st) dnode)))],
         Z.of_N (s_next st) + 1 + 1) /\
    hblock h' (length h) = blk_cells {| b_hdr := s_next st; b_mem := s_next st + 1 |} q /\
    rep h' this ((length h, s_next st) :: ids) (lay_set_node L i (nth i (l_fr L) []) (length h :: nth i (l_us L) []))
        (with_cache st (set_nth i {| n_size := n_size (nth i (s_cache st) dnode); n_free := n_free (nth i (s_cache st) dnode);
                                     n_used := {| b_hdr := s_next st; b_mem := s_next st + 1 |} :: n_used (nth i (s_cache st) dnode) |}
                                 (s_cache st))) /\
    length h' = S (length h) /\ (forall x, (x < length h)%nat -> ~ In x (lay_blocks L) -> hblock h' x = hblock h x).
Proof.
  intros Hrep Hi. pose proof Hrep as Hrep0. rep_inv Hrep. set (bn := l_bn L) in *. set (nx := s_next st) in *.
  set (b := {| b_hdr := nx; b_mem := (nx + 1)%N |}).
  destruct (Hnodes i Hi) as [pf [pu [Hs [Hpf [Hpu [Hcf Hcu]]]]]].
  assert (Hbnl : (bn < length h)%nat) by (apply (proj1 (Forall_forall _ _) Hbd); apply In_lay_bn).
  set (h1 := h ++ [[VPtr pu; VInt (Z.of_N nx + 1)]]).
  assert (Hold : forall x, (x < length h)%nat -> hblock h1 x = hblock h x) by (intros x Hx; apply t_hblock_old; exact Hx).
  assert (Hb1 : hblock h1 (length h) = blk_cells b pu).
  { unfold h1. rewrite t_hblock_new. unfold blk_cells, b. cbn [b_mem]. rewrite N2Z.inj_add. reflexivity. }
  assert (L1 : length h1 = S (length h)) by (unfold h1; rewrite app_length; cbn; lia).
  assert (N1 : length (hblock h1 bn) = 15%nat) by (rewrite Hold by exact Hbnl; exact Hlen).
  destruct (t_blk_set_next h1 (length h) b pu Hb1 pu ltac:(lia)) as [h2 [S2 [L2 [F2 B2]]]].
  assert (Hbn21 : hblock h2 bn = hblock h1 bn) by (apply F2; lia).
  assert (N2 : length (hblock h2 bn) = 15%nat) by (rewrite Hbn21; exact N1).
  destruct (t_node_store h2 bn (3 * i + 2) (VPtr (HPtr (length h) 0)) N2 ltac:(lia) ltac:(lia)) as [h3 [S3 [L3 [F3 [N3 [C3 O3]]]]]].
  assert (Hfin : forall x, (x < length h)%nat -> x <> bn -> hblock h3 x = hblock h x).
  { intros x H1 H2. rewrite F3 by exact H2. rewrite F2 by lia. apply Hold. exact H1. }
  assert (Hlay : forall x, In x (lay_blocks L) -> (x < length h)%nat) by (apply Forall_forall; exact Hbd).
  exists h3, pu. split; [|split; [|split; [|split]]].
  - unfold src_cache_allocateNewCacheBlockFrom. fold bn.
    rewrite (t_load_int _ _ _ _ Hs). cbv beta iota. rewrite (t_node_padd2 h bn Hlen i Hi). cbv beta iota.
    rewrite (t_load_ptr _ _ _ _ Hpu). cbv beta iota. rewrite t_create. cbv beta iota zeta. fold h1.
    rewrite (t_node_padd2 h1 bn N1 i Hi). cbv beta iota.
    rewrite (t_load_ptr h1 bn (3 * i + 2) pu) by (rewrite Hold by exact Hbnl; exact Hpu). cbv beta iota.
    unfold src_cache_addToSimpleStringMemoryBlockList. rewrite S2. cbv beta iota. cbn [finish]. cbv beta iota.
    rewrite (t_node_padd2 h2 bn N2 i Hi). cbv beta iota. rewrite S3. reflexivity.
  - rewrite F3 by lia. exact B2.
  - apply (rep_set_node h h3 this ids ((length h, nx) :: ids) L st i) with (1 := Hrep0); try assumption.
    + lia.
    + intros x Hx Hxn _ _. apply Hfin; [apply Hlay; exact Hx | exact Hxn].
    + intros x Hx. apply lookup_cons_other. apply Hlay in Hx. lia.
    + fold bn. intros k K1 K2. rewrite O3 by exact K2. rewrite Hbn21. rewrite Hold by exact Hbnl. reflexivity.
    + reflexivity.
    + fold bn. exists pf, (HPtr (length h) 0). cbn [n_free n_used].
      split; [rewrite O3 by lia; rewrite Hbn21; rewrite Hold by exact Hbnl; exact Hpf|]. split; [exact C3|]. split.
      * apply chain_frame with (h := h) (ids := ids); [| | exact Hcf].
        -- intros x Hx. pose proof (lay_cnt_slots L x i i Hnd) as Q. fold bn in Q.
           apply Hfin; [apply Hlay; apply (In_lay_fr L i); exact Hx | cnt_solve].
        -- intros x Hx. apply lookup_cons_other. apply (In_lay_fr L i) in Hx. apply Hlay in Hx. lia.
      * cbn [chain]. split; [reflexivity|]. split; [apply lookup_cons_same|]. exists pu. split; [rewrite F3 by lia; exact B2|].
        apply chain_frame with (h := h) (ids := ids); [| | exact Hcu].
        -- intros x Hx. pose proof (lay_cnt_slots L x i i Hnd) as Q. fold bn in Q.
           apply Hfin; [apply Hlay; apply (In_lay_us L i); exact Hx | cnt_solve].
        -- intros x Hx. apply lookup_cons_other. apply (In_lay_us L i) in Hx. apply Hlay in Hx. lia.
    + apply NoDup_cnt. intro x.
      pose proof (cnt_lay_set_node x L i (nth i (l_fr L) []) (length h :: nth i (l_us L) []) ltac:(lia) ltac:(lia)) as Q.
      pose proof Hnd as Hnd2. apply NoDup_cnt with (x := x) in Hnd2. rewrite cnt_cons in Q.
      destruct (Nat.eq_dec (length h) x) as [E|E].
      * assert (Hz : cnt x (lay_blocks L) = 0%nat).
        { apply notIn_cnt. intro Hin. apply Hlay in Hin. lia. }
        rewrite (eq_one _ _ E) in Q. lia.
      * rewrite (one_other _ _ E) in Q. lia.
    + apply Forall_forall. intros x Hx. rewrite L3, L2, L1. apply (In_lay_fr L i) in Hx. apply Hlay in Hx. lia.
    + apply Forall_forall. intros x Hx. rewrite L3, L2, L1. destruct Hx as [<-|Hx]; [lia|].
      apply (In_lay_us L i) in Hx. apply Hlay in Hx. lia.
  - lia.
  - intros x H1 H2. apply Hfin; [exact H1|]. intro E. subst x. apply H2. apply In_lay_bn.
Qed.
