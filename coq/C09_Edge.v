(* C09 -- by-content values AT THE EDGES OF THEIR REPRESENTATION (model part, no proofs).
   A memory buffer is handed over as (address, size); a string as an address.  The edges: size 0 with a NULL address on the
   expectation side, on the actual side, on both; size 0 with non-null addresses (also one past the end of an object); the same
   (address, size) on both sides; buffers differing in the last byte / in the length only; a NULL char pointer against the
   empty string.  The model works on ADDRESSES in a memory where objects lie only where the scenario put them -- nothing lies
   at address 0 -- and mirrors the loops of the code: a read of an address where no object lies makes the model's answer
   `None` (undefined behaviour; a crash for the null page).  The three interfaces a test reaches the comparison through:
   MockNamedValue::equals itself (both directions), mock().expectOneCall / actualCall with withXParameter, and the C table
   mock_c()->expectOneCall / actualCall with withXParameters / withMemoryBufferParameter. *)
From Coq Require Import ZArith NArith Bool List.
From CppUVerif Require Import lib.CInt lib.Dbl lib.Str C09_Model C09_Access C09_Reuse.
Import ListNotations.
Local Open Scope Z_scope.

Inductive iface := IEquals | IMockCpp | IMockC.
(* where a pointer of the scenario points: nowhere (NULL), or into the scenario's one allocation (the arena) at an offset *)
Inductive eref := RNull | ROff (o : nat).

Inductive escenario :=
| EMem (i : iface) (ar : list N) (ra : eref) (la : nat) (rb : eref) (lb : nat)   (* setMemoryBuffer(ra, la) / setMemoryBuffer(rb, lb) *)
| EStr (i : iface) (ar : list N) (ra rb : eref)      (* setValue((const char* )ra) / (rb); the arena is followed by one NUL *)
| EVal (i : iface) (a b : value).                    (* any two values (payloads apart, non-null) through the interface *)

Definition with_iface (i : iface) (s : escenario) : escenario :=
  match s with
  | EMem _ ar ra la rb lb => EMem i ar ra la rb lb
  | EStr _ ar ra rb => EStr i ar ra rb
  | EVal _ a b => EVal i a b
  end.

(* -------- the memory -------- *)
Definition arena_base : Z := heap_base.
Definition ref_addr (r : eref) : Z := match r with RNull => 0 | ROff o => arena_base + Z.of_nat o end.
(* the byte at an address: the arena occupies [arena_base, arena_base + length); no object anywhere else, none at 0 *)
Definition mem_at (ar : list N) (a : Z) : option N :=
  if (arena_base <=? a) && (a <? arena_base + Z.of_nat (length ar))
  then Some (nth (Z.to_nat (a - arena_base)) ar 0%N) else None.

(* -------- the code -------- *)
Definition memory := Z -> option N.
Definition memcmp_fn := memory -> Z -> Z -> nat -> option bool.
(* SimpleString::MemCmp(s1, s2, n) == 0:  while (n--) if ( *p1 != *p2) return *p1 - *p2; else { ++p1; ++p2; }  return 0; *)
Fixpoint memcmp_z (mem : memory) (p q : Z) (n : nat) : option bool :=
  match n with
  | O => Some true
  | S n' => match mem p, mem q with
            | Some x, Some y => if N.eqb x y then memcmp_z mem (p + 1) (q + 1) n' else Some false
            | _, _ => None
            end
  end.
(* the "const unsigned char*" branch of equals: if (size_ != p.size_) return false; return MemCmp(buffer, p.buffer, size_) == 0 *)
Definition buf_equals (mc : memcmp_fn) (mem : memory) (pa : Z) (la : nat) (pb : Z) (lb : nat) : option bool :=
  if negb (Nat.eqb la lb) then Some false else mc mem pa pb la.

(* SimpleString(const char* s): NULL gives the empty string, otherwise the bytes from s up to the first NUL are copied *)
Fixpoint cstr_z (mem : memory) (p : Z) (fuel : nat) : option (list N) :=
  match fuel with
  | O => None
  | S f => match mem p with
           | None => None
           | Some c => if N.eqb c 0 then Some [] else option_map (cons c) (cstr_z mem (p + 1) f)
           end
  end.
Definition sstring_z (mem : memory) (p : Z) (fuel : nat) : option (list N) := if p =? 0 then Some [] else cstr_z mem p fuel.
(* the "const char*" branch: SimpleString(stringValue_) == SimpleString(p.stringValue_) *)
Definition str_equals_z (mem : memory) (pa pb : Z) (fuel : nat) : option bool :=
  match sstring_z mem pa fuel, sstring_z mem pb fuel with
  | Some x, Some y => Some (bytes_eqb x y)
  | _, _ => None
  end.

(* The mock path: MockCheckedActualCall::checkInputParameter keeps the expectations whose parameter of the actual one's name
   `equals` it -- MockCheckedExpectedCall::hasInputParameter: p->equals(parameter), p the EXPECTED value -- and the call is
   fulfilled iff one is kept.  With one expectation and one parameter: fulfilled = expected.equals(actual).  The C table
   forwards to the same calls.  So `e_ab` of a mock interface is "first value expected, second passed: fulfilled", `e_ba` the
   same with the sides swapped, and all three interfaces answer by the same function. *)
Definition eobs := option (bool * bool).              (* None = the comparison read an address where no object lies *)
Definition both (x y : option bool) : eobs := match x, y with Some a, Some b => Some (a, b) | _, _ => None end.

Definition e_run_with (mc : memcmp_fn) (s : escenario) : eobs :=
  match s with
  | EMem _ ar ra la rb lb =>
      let mem := mem_at ar in
      both (buf_equals mc mem (ref_addr ra) la (ref_addr rb) lb) (buf_equals mc mem (ref_addr rb) lb (ref_addr ra) la)
  | EStr _ ar ra rb =>
      let mem := mem_at (ar ++ [0%N]) in
      let fuel := S (length ar) in
      both (str_equals_z mem (ref_addr ra) (ref_addr rb) fuel) (str_equals_z mem (ref_addr rb) (ref_addr ra) fuel)
  | EVal _ a b => Some (equals a b, equals b a)
  end.
Definition e_run : escenario -> eobs := e_run_with memcmp_z.

(* -------- validity: what a test may hand over -------- *)
(* a buffer is (NULL, 0) or lies inside the arena (size 0 included, also at the one-past-the-end address) *)
Definition ref_ok (ar : list N) (r : eref) (l : nat) : bool :=
  match r with RNull => Nat.eqb l 0 | ROff o => Nat.leb (o + l) (length ar) end.
Definition e_valid (s : escenario) : bool :=
  match s with
  | EMem _ ar ra la rb lb => ref_ok ar ra la && ref_ok ar rb lb
  | EStr _ ar ra rb => ref_ok ar ra 0 && ref_ok ar rb 0
  | EVal _ a b => valid a && valid b
  end.

(* -------- spec: the property's sentences about the CONTENTS; addresses do not occur in it -------- *)
Definition ref_bytes (ar : list N) (r : eref) (l : nat) : list N := match r with RNull => [] | ROff o => slice o l ar end.
Definition ref_string (ar : list N) (r : eref) : option (list N) := match r with RNull => None | ROff o => Some (skipn o ar) end.
Definition e_values (s : escenario) : value * value :=
  match s with
  | EMem _ ar ra la rb lb => (VMem (ref_bytes ar ra la), VMem (ref_bytes ar rb lb))
  | EStr _ ar ra rb => (VStr (ref_string ar ra), VStr (ref_string ar rb))
  | EVal _ a b => (a, b)
  end.
(* by length and content / by content / by value, in both directions; a NULL char pointer is no string: not constrained *)
Definition e_spec (s : escenario) (o : eobs) : bool :=
  match o with
  | None => false
  | Some (ab, ba) =>
      let (v, w) := e_values s in eq_ok (math_equal v w) ab && eq_ok (math_equal w v) ba
  end.

(* -------- variants of MemCmp -------- *)
(* red-team change C09-2 of round 5: MemCmp made "null safe" -- a null buffer equals only another null buffer, decided
   BEFORE the length is looked at *)
Definition memcmp_nullguard : memcmp_fn :=
  fun mem p q n => if (p =? 0) || (q =? 0) then Some (p =? q) else memcmp_z mem p q n.
(* a harmless rewrite: the length looked at first *)
Definition memcmp_len_first : memcmp_fn :=
  fun mem p q n => match n with O => Some true | S _ => memcmp_z mem p q n end.

(* -------- the whole scenario language -------- *)
Inductive wscenario := WOld (s : zscenario) | WEdge (e : escenario).
Inductive wobs := QOld (o : zobs) | QEdge (o : eobs).
Definition w_valid (s : wscenario) : bool := match s with WOld s => z_valid s | WEdge e => e_valid e end.
Definition w_run (s : wscenario) : wobs := match s with WOld s => QOld (z_run s) | WEdge e => QEdge (e_run e) end.
Definition w_spec (s : wscenario) (o : wobs) : bool :=
  match s, o with
  | WOld s, QOld o => z_spec s o
  | WEdge e, QEdge o => e_spec e o
  | _, _ => false end.
