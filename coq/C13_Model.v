(* C13 -- executable, bounds-checked mirror of src/CppUTest/SimpleString.cpp (code after the fix: commits for D8, D9, D19,
   D10, D11; the code before them is kept as ..._old).
   Memory model: a `const char*` is the list of cells from the pointer to the END OF ITS BUFFER, so `*p` on the empty list
   is a read past the buffer (Oob) and p+k beyond one-past-the-end is Oob; a buffer that is written is a list of cells
   with an index, `wr` outside it is Oob.  Loops are structural or run on explicit fuel (NoFuel = did not terminate).
   No proofs in this file. *)
From Coq Require Import NArith ZArith Bool List.
From CppUVerif Require Import lib.Str C13_Text C13_Alloc.
Import ListNotations.
Local Open Scope N_scope.

Inductive res (A : Type) := Ok (a : A) | Oob | NoFuel | Ub.
Arguments Ok {A} a. Arguments Oob {A}. Arguments NoFuel {A}. Arguments Ub {A}.
Definition bind {A B} (r : res A) (f : A -> res B) : res B :=
  match r with Ok a => f a | Oob => Oob | NoFuel => NoFuel | Ub => Ub end.
Notation "'do' x <- r ; k" := (bind r (fun x => k)) (at level 200, x name, r at level 100, k at level 200).

Definition rd (p : list N) : res N := match p with [] => Oob | c :: _ => Ok c end.
Definition adv (k : nat) (p : list N) : res (list N) := if Nat.leb k (length p) then Ok (skipn k p) else Oob.
Definition wr (b : list N) (i : nat) (v : N) : res (list N) :=
  if Nat.ltb i (length b) then Ok (firstn i b ++ v :: skipn (S i) b) else Oob.
Definition fresh (n : nat) : list N := repeat 205 n.          (* allocStringBuffer(n): n cells of garbage *)

(* ---------------------------------------------------------------- char classification on (signed) char *)
Definition sc (c : N) : Z := if c <? 128 then Z.of_N c else (Z.of_N c - 256)%Z.
Definition isDigit (c : N) : bool := (48 <=? sc c)%Z && (sc c <=? 57)%Z.
Definition isSpace (c : N) : bool := (c =? 32) || ((8 <? sc c)%Z && (sc c <? 14)%Z).
Definition isControl (c : N) : bool := (sc c <? 32)%Z || (c =? 127).
Definition isControlShort (c : N) : bool := (7 <=? sc c)%Z && (sc c <=? 13)%Z.

(* ---------------------------------------------------------------- primitives *)
Fixpoint StrLen (p : list N) : res nat :=
  match p with [] => Oob | c :: r => if c =? 0 then Ok 0%nat else do n <- StrLen r; Ok (S n) end.

Definition diff (a b : N) : Z := (Z.of_N a - Z.of_N b)%Z.
Fixpoint StrCmp (p q : list N) : res Z :=
  match p, q with
  | a :: p', b :: q' => if negb (a =? 0) && (a =? b) then StrCmp p' q' else Ok (diff a b)
  | _, _ => Oob end.
Fixpoint StrNCmp (p q : list N) (n : nat) {struct n} : res Z :=
  match n with O => Ok 0%Z | S n' =>
    match p, q with
    | a :: p', b :: q' => if negb (a =? 0) && (a =? b) then StrNCmp p' q' n' else Ok (diff a b)
    | _, _ => Oob end end.
Fixpoint MemCmp (p q : list N) (n : nat) {struct n} : res Z :=
  match n with O => Ok 0%Z | S n' =>
    match p, q with
    | a :: p', b :: q' => if a =? b then MemCmp p' q' n' else Ok (diff a b)
    | _, _ => Oob end end.

(* StrNCpy(d+o, src, n) for n >= 1:  *s1 = *s2; while (--n != 0 && *s1) *++s1 = *++s2; *)
Fixpoint StrNCpy_loop (d : list N) (o : nat) (src : list N) (n : nat) {struct n} : res (list N) :=
  match n with O => Ok d | S n' =>
    do c <- rd src; do d' <- wr d o c;
    if Nat.eqb n' 0 || (c =? 0) then Ok d' else StrNCpy_loop d' (S o) (tl src) n' end.
Definition StrNCpy (d : list N) (o : nat) (src : list N) (n : nat) : res (list N) :=
  if Nat.eqb n 0 then Ok d else StrNCpy_loop d o src n.

Fixpoint StrStr_loop (p q : list N) (lq off : nat) : res (option nat) :=
  match p with [] => Oob | c :: p' =>
    if c =? 0 then Ok None else
    do d <- StrNCmp p q lq; if (d =? 0)%Z then Ok (Some off) else StrStr_loop p' q lq (S off) end.
Definition StrStr (p q : list N) : res (option nat) :=
  do c <- rd q; if c =? 0 then Ok (Some 0%nat) else do l <- StrLen q; StrStr_loop p q l 0.

Fixpoint skip_space (p : list N) : res (list N) :=
  match p with [] => Oob | c :: r => if isSpace c then skip_space r else Ok p end.
Definition UINT_MOD : Z := 4294967296.
Definition INT_MAX : Z := 2147483647.
Fixpoint atou_loop (p : list N) (acc : Z) : res Z :=
  match p with [] => Oob | c :: r =>
    if isDigit c && (48 <=? sc c)%Z then atou_loop r ((acc * 10 + (Z.of_N c - 48)) mod UINT_MOD)%Z else Ok acc end.
Definition AtoU (p : list N) : res Z := do q <- skip_space p; atou_loop q 0.
(* int arithmetic: exceeding INT_MAX is undefined behaviour (Ub) *)
Fixpoint atoi_loop (p : list N) (acc : Z) : res Z :=
  match p with [] => Oob | c :: r =>
    if isDigit c then
      let v := (acc * 10 + (Z.of_N c - 48))%Z in if (INT_MAX <? v)%Z then Ub else atoi_loop r v
    else Ok acc end.
Definition AtoI (p : list N) : res Z :=
  do q <- skip_space p; do f <- rd q;
  do q' <- (if (f =? 45) || (f =? 43) then adv 1 q else Ok q);
  do r <- atoi_loop q' 0; Ok (if f =? 45 then (- r)%Z else r).

(* ---------------------------------------------------------------- SimpleString on its internal buffer *)
(* copyToNewBuffer(p, size) *)
Definition copyToNewBuffer (p : list N) (size : nat) : res (list N) :=
  do b <- StrNCpy (fresh size) 0 p size; wr b (size - 1) 0.
(* SimpleString(const char* p), p non-NULL: copyBufferToNewInternalBuffer(p, StrLen(p)+1) *)
Definition newFrom (p : list N) : res (list N) := do n <- StrLen p; copyToNewBuffer p (S n).
Definition emptyString : list N := [0].               (* getEmptyString(): 1 cell, NUL *)

Definition contains_m (a b : list N) : res bool :=
  do r <- StrStr a b; Ok (match r with Some _ => true | None => false end).
Definition startsWith_m (a b : list N) : res bool :=
  do lb <- StrLen b; if Nat.eqb lb 0 then Ok true else
  do la <- StrLen a; if Nat.eqb la 0 then Ok false else
  do r <- StrStr a b; Ok (match r with Some O => true | _ => false end).
Definition endsWith_m (a b : list N) : res bool :=
  do la <- StrLen a; do lb <- StrLen b;
  if Nat.eqb lb 0 then Ok true else if Nat.eqb la 0 then Ok false else if Nat.ltb la lb then Ok false else
  do p <- adv (la - lb) a; do d <- StrCmp p b; Ok (d =? 0)%Z.

Fixpoint count_loop (fuel : nat) (str : list N) (part : option nat) (sub : list N) (num : nat) : res nat :=
  match fuel with O => NoFuel | S f =>
    do c <- rd str; if c =? 0 then Ok num else
    match part with None => Ok num | Some off =>
      do str' <- adv (S off) str; do part' <- StrStr str' sub; count_loop f str' part' sub (S num) end end.
Definition count_m (a sub : list N) : res nat :=
  do c <- rd a; do part <- (if c =? 0 then Ok None else StrStr a sub);
  count_loop (S (length a)) a part sub 0.

(* lowerCase(): copy, then in-place loop over size() *)
Fixpoint lower_loop (b : list N) (i k : nat) : res (list N) :=
  match k with O => Ok b | S k' =>
    do p <- adv i b; do c <- rd p; do b' <- wr b i (to_lower c); lower_loop b' (S i) k' end.
Definition lowerCase_m (a : list N) : res (list N) :=
  do b <- newFrom a; do n <- StrLen b; lower_loop b 0 n.
Definition equal_m (a b : list N) : res bool := do d <- StrCmp a b; Ok (d =? 0)%Z.
Definition equalsNoCase_m (a b : list N) : res bool :=
  do x <- lowerCase_m a; do y <- lowerCase_m b; equal_m x y.
Definition containsNoCase_m (a b : list N) : res bool :=
  do x <- lowerCase_m a; do y <- lowerCase_m b; contains_m x y.

(* replace(char to, char with): in place *)
Fixpoint replc_loop (b : list N) (i k : nat) (c1 c2 : N) : res (list N) :=
  match k with O => Ok b | S k' =>
    do p <- adv i b; do c <- rd p;
    do b' <- (if c =? c1 then wr b i c2 else Ok b); replc_loop b' (S i) k' c1 c2 end.
Definition replaceChar_m (a : list N) (c1 c2 : N) : res (list N) := do n <- StrLen a; replc_loop a 0 n c1 c2.

(* find / findFrom: positions are size_t (N); None = npos *)
Fixpoint find_loop (p : list N) (k : nat) (i : N) (ch : N) : res (option N) :=
  match k with O => Ok None | S k' =>
    do c <- rd p; if c =? ch then Ok (Some i) else find_loop (tl p) k' (i + 1) ch end.
Definition findFrom_m (a : list N) (start ch : N) : res (option N) :=
  do n <- StrLen a;
  if N.of_nat n <=? start then Ok None else
  do p <- adv (N.to_nat start) a; find_loop p (n - N.to_nat start) start ch.
Definition find_m (a : list N) (ch : N) := findFrom_m a 0 ch.

(* subString(beginPos, amount) after the D8 repair: `if (beginPos >= size()) return "";` *)
Definition subString_m (a : list N) (beginPos amount : N) : res (list N) :=
  do n <- StrLen a;
  if N.of_nat n <=? beginPos then newFrom emptyString else
  do p <- adv (N.to_nat beginPos) a; do ns <- newFrom p; do m <- StrLen ns;
  if amount <? N.of_nat m then wr ns (N.to_nat amount) 0 else Ok ns.
(* before the repair: `if (beginPos > size()-1) return "";` with size()-1 computed in size_t *)
Definition SIZE_MOD : N := 18446744073709551616.
Definition NPOS : N := SIZE_MOD - 1.
Definition subString_old (a : list N) (beginPos amount : N) : res (list N) :=
  do n <- StrLen a;
  if (N.of_nat n + NPOS) mod SIZE_MOD <? beginPos then newFrom emptyString else
  do p <- adv (N.to_nat beginPos) a; do ns <- newFrom p; do m <- StrLen ns;
  if amount <? N.of_nat m then wr ns (N.to_nat amount) 0 else Ok ns.
Definition subStringFromTill_m (a : list N) (c1 c2 : N) : res (list N) :=
  do b <- find_m a c1;
  match b with None => newFrom emptyString | Some bp =>
    do e <- findFrom_m a bp c2;
    match e with None => subString_m a bp NPOS | Some ep => subString_m a bp (ep - bp) end end.

(* copyToBuffer(buffer, bufferSize): buffer = caller's cells (garbage), non-NULL *)
Definition copyToBuffer_m (a : list N) (dst : list N) (bufferSize : nat) : res (list N) :=
  if Nat.eqb bufferSize 0 then Ok dst else
  do n <- StrLen a;
  let k := if Nat.ltb (bufferSize - 1) n then (bufferSize - 1)%nat else n in
  do d <- StrNCpy dst 0 a k; wr d k 0.

(* operator+=(const char* rhs) *)
Definition append_m (a rhs : list N) : res (list N) :=
  do n <- StrLen a; do m <- StrLen rhs;
  let total := (n + S m)%nat in
  do t <- copyToNewBuffer a total; StrNCpy t n rhs (S m).
Definition plus_m (a rhs : list N) : res (list N) := do t <- newFrom a; append_m t rhs.

(* SimpleString(const char* other, size_t repeatCount) *)
Fixpoint repeat_loop (b : list N) (o : nat) (other : list N) (len k : nat) : res (list N) :=
  match k with O => wr b o 0 | S k' => do b' <- StrNCpy b o other (S len); repeat_loop b' (o + len) other len k' end.
Definition newRepeat (other : list N) (k : nat) : res (list N) :=
  do len <- StrLen other; do b <- wr (fresh (len * k + 1)) 0 0; repeat_loop b 0 other len k.

(* padStringsToSameLength(str1, str2, ch): returns the new (str1, str2) *)
Definition pad_m (a b : list N) (ch : N) : res (list N * list N) :=
  do la <- StrLen a; do lb <- StrLen b;
  if Nat.ltb lb la then do p <- newRepeat [ch; 0] (la - lb); do r <- plus_m p b; Ok (a, r)
  else do p <- newRepeat [ch; 0] (lb - la); do r <- plus_m p a; Ok (r, b).

(* replace(const char* to, const char* with), repaired (D19: empty pattern returns; D9: c counts the matches the copy loop takes) *)
Fixpoint nonoverlap_count (fuel : nat) (a : list N) (i len : nat) (to : list N) (tolen c : nat) : res nat :=
  match fuel with O => NoFuel | S f =>
    if Nat.ltb i len then
      do p <- adv i a; do d <- StrNCmp p to tolen;
      if (d =? 0)%Z then nonoverlap_count f a (i + tolen) len to tolen (S c) else nonoverlap_count f a (S i) len to tolen c
    else Ok c end.
Fixpoint repl_copy (fuel : nat) (a nb : list N) (i j len : nat) (to w : list N) (tolen wlen : nat) : res (list N) :=
  match fuel with O => NoFuel | S f =>
    if Nat.ltb i len then
      do p <- adv i a; do d <- StrNCmp p to tolen;
      if (d =? 0)%Z then do nb' <- StrNCpy nb j w (S wlen); repl_copy f a nb' (i + tolen) (j + wlen) len to w tolen wlen
      else do c <- rd p; do nb' <- wr nb j c; repl_copy f a nb' (S i) (S j) len to w tolen wlen
    else Ok nb end.
Definition replace_tail (a to w : list N) (len tolen wlen c : nat) : res (list N) :=
  if Nat.eqb c 0 then Ok a else
  (* size_t arithmetic: len + withlen*c - tolen*c + 1 (exact when c is the number of substituted matches) *)
  let newsize := (len + wlen * c - tolen * c + 1)%nat in
  if Nat.ltb 1 newsize then
    do nb <- repl_copy (S len) a (fresh newsize) 0 0 len to w tolen wlen; wr nb (newsize - 1) 0
  else Ok emptyString.
Definition replaceStr_m (a to w : list N) : res (list N) :=
  do len <- StrLen a; do tolen <- StrLen to; do wlen <- StrLen w;
  if Nat.eqb tolen 0 then Ok a else
  do c <- nonoverlap_count (S len) a 0 len to tolen 0;
  replace_tail a to w len tolen wlen c.
(* before the repairs: c = count(to) (overlapping), no guard for the empty pattern *)
Definition replaceStr_old (a to w : list N) : res (list N) :=
  do c <- count_m a to;
  if Nat.eqb c 0 then Ok a else
  do len <- StrLen a; do tolen <- StrLen to; do wlen <- StrLen w;
  replace_tail a to w len tolen wlen c.

(* printable(): size pre-computation, then the copy loop.  hex2 = "%02X" of the byte as unsigned char (D11 repair);
   before the repair the char was sign-extended to int and the first four characters of "\xFFFFFFnn " were kept *)
Definition hexdig (d : N) : N := if d <? 10 then 48 + d else 55 + d.
Definition hexEscape (c : N) : list N := [92; 120; hexdig (c / 16); hexdig (c mod 16); 32; 0].
Definition hexEscape_old (c : N) : list N :=
  if c <? 128 then hexEscape c else [92; 120; 70; 70; 70; 70; 70; 70; hexdig (c / 16); hexdig (c mod 16); 32; 0].
Definition shortEscape (c : N) : list N :=    (* shortEscapeCodes[(unsigned char)(c - '\a')] *)
  [92; nth (N.to_nat (c - 7)) [97; 98; 116; 110; 118; 102; 114] 0; 0].
Fixpoint printableSize (p : list N) (k : nat) (acc : nat) : res nat :=
  match k with O => Ok acc | S k' =>
    do c <- rd p;
    printableSize (tl p) k' (if isControlShort c then acc + 1 else if isControl c then acc + 3 else acc)%nat end.
Fixpoint printable_loop (esc : N -> list N) (p r : list N) (j k : nat) : res (list N) :=
  match k with O => wr r j 0 | S k' =>
    do c <- rd p;
    if isControlShort c then do r' <- StrNCpy r j (shortEscape c) 2; printable_loop esc (tl p) r' (j + 2) k'
    else if isControl c then do r' <- StrNCpy r j (esc c) 4; printable_loop esc (tl p) r' (j + 4) k'
    else do r' <- wr r j c; printable_loop esc (tl p) r' (j + 1) k' end.
Definition printable_gen (esc : N -> list N) (a : list N) : res (list N) :=
  do n <- StrLen a; do ps <- printableSize a n n;
  do r <- wr (fresh (ps + 1)) 0 0; printable_loop esc a r 0 n.
Definition printable_m := printable_gen hexEscape.
Definition printable_old := printable_gen hexEscape_old.

(* split(delimiter, col): the collection as a list of buffers *)
Fixpoint split_loop (str delim : list N) (num : nat) (acc : list (list N)) : res (list (list N) * list N) :=
  match num with O => Ok (rev acc, str) | S num' =>
    do r <- StrStr str delim;
    match r with None => Oob      (* NULL + 1 dereferenced by SimpleString(prev) / next StrStr *)
    | Some off =>
      do nxt <- adv (S off) str;
      do whole <- newFrom str; do piece <- subString_m whole 0 (N.of_nat (S off));
      split_loop nxt delim num' (piece :: acc) end end.
Definition split_m (a delim : list N) : res (list (list N)) :=
  do num <- count_m a delim; do e <- endsWith_m a delim;
  do pr <- split_loop a delim num [];
  if e then Ok (fst pr) else do last <- newFrom (snd pr); Ok (fst pr ++ [last]).

(* ---------------------------------------------------------------- formatters *)
Fixpoint dec_digits (fuel : nat) (n : N) (acc : list N) : list N :=
  match fuel with O => acc | S f => let acc' := (48 + n mod 10) :: acc in if n / 10 =? 0 then acc' else dec_digits f (n / 10) acc' end.
Definition dec_of (n : N) : list N := dec_digits (S (N.to_nat (N.log2 n))) n [].      (* "%u" *)
(* StringFromOrdinalNumber after the D10 repair (number % 100 tested) *)
Definition ordinal_suffix (n : N) : list N :=
  let two := n mod 100 in
  if (two <? 11) || (13 <? two) then
    let d := n mod 10 in if d =? 3 then [114; 100] else if d =? 2 then [110; 100] else if d =? 1 then [115; 116] else [116; 104]
  else [116; 104].
Definition ordinal_suffix_old (n : N) : list N :=
  if (n <? 11) || (13 <? n) then
    let d := n mod 10 in if d =? 3 then [114; 100] else if d =? 2 then [110; 100] else if d =? 1 then [115; 116] else [116; 104]
  else [116; 104].
Definition ordinal_m (n : N) : list N := dec_of n ++ ordinal_suffix n.
Definition ordinal_old (n : N) : list N := dec_of n ++ ordinal_suffix_old n.

(* StringFromMaskedBits(value, mask, byteCount), unsigned long = 64 bits; repaired: bitCount == 0 returns "" *)
Definition ULONG_MOD : N := 18446744073709551616.
Fixpoint masked_loop (k : nat) (i : N) (bitCount value mask msb : N) (acc : list N) : list N :=
  match k with O => acc | S k' =>
    let acc1 := acc ++ [if N.land mask msb =? 0 then 120 else if N.land value msb =? 0 then 48 else 49] in
    let acc2 := if (i mod 8 =? 7) && negb (i =? bitCount - 1) then acc1 ++ [32] else acc1 in
    masked_loop k' (i + 1) bitCount ((value * 2) mod ULONG_MOD) ((mask * 2) mod ULONG_MOD) msb acc2 end.
Definition maskedBits_m (value mask byteCount : N) : res (list N) :=
  let bitCount := if 8 <? byteCount then 64 else byteCount * 8 in
  if bitCount =? 0 then Ok [] else
  Ok (masked_loop (N.to_nat bitCount) 0 bitCount value mask (N.shiftl 1 (bitCount - 1)) []).
Definition maskedBits_old (value mask byteCount : N) : res (list N) :=
  let bitCount := if 8 <? byteCount then 64 else byteCount * 8 in
  if bitCount =? 0 then Ub      (* 1UL << (size_t)-1 *)
  else Ok (masked_loop (N.to_nat bitCount) 0 bitCount value mask (N.shiftl 1 (bitCount - 1)) []).

(* StringFromBinary(value, size): "%02X " per byte appended, then the last blank cut by subString(0, size-1) *)
Fixpoint binary_loop (p : list N) (k : nat) (acc : list N) : res (list N) :=
  match k with O => Ok acc | S k' => do c <- rd p; binary_loop (tl p) k' (acc ++ [hexdig (c / 16); hexdig (c mod 16); 32]) end.
Definition binary_m (bytes : list N) (size : nat) : res (list N) :=
  do s <- binary_loop bytes size [];
  (* result.subString(0, result.size() - 1): size()-1 wraps to SIZE_MAX for the empty string, subString then returns "" *)
  Ok (removelast s).

(* VStringFromFormat("%s%s", a, b): vsnprintf is an oracle that writes min(length, cells-1) bytes of the text and a NUL.
   size < 100: result built from the 100-byte stack buffer; otherwise a buffer of size+1 bytes is requested from the string
   allocator, filled, copied into the result and handed back with size+1. *)
Definition vsnprintf_m (cells : nat) (text : list N) : list N :=
  firstn (cells - 1) text ++ 0 :: fresh (cells - 1 - length text).
Definition format_m (text : list N) : res (list N) :=
  let size := length text in
  if Nat.ltb size 100 then newFrom (vsnprintf_m 100 text) else newFrom (vsnprintf_m (S size) text).
(* allocator events of one call: the temporary buffer, then the life of the result string
   (default-constructed "", assigned from SimpleString(buffer)) *)
Definition format_log (size : nat) : list ev :=
  (if Nat.ltb size 100 then [] else [EA (S size); EF (S size)]) ++ life [PCopy 1; PCopy (S size)].
(* seeded variant: the temporary buffer handed back with `size` *)
Definition format_log_wrong (size : nat) : list ev :=
  (if Nat.ltb size 100 then [] else [EA (S size); EF size]) ++ life [PCopy 1; PCopy (S size)].

(* ================================================================ scenarios, observations, run, spec *)
(* A C-string argument s (no NUL inside) is handed to the code in a buffer of exactly length s + 1 cells. *)
Definition cs (s : list N) : list N := s ++ [0].
Fixpoint cstr_of (b : list N) : option (list N) :=
  match b with [] => None | c :: r => if c =? 0 then Some [] else option_map (cons c) (cstr_of r) end.

Inductive op :=
| OStrLen (a : list N) | OStrCmp (a b : list N) | OStrNCmp (a b : list N) (n : nat) | OStrStr (a b : list N)
| OMemCmp (a b : list N) (n : nat)
| OContains (a b : list N) | OContainsNoCase (a b : list N) | OStartsWith (a b : list N) | OEndsWith (a b : list N)
| OCount (a b : list N) | OEqual (a b : list N) | OEqualsNoCase (a b : list N)
| OFind (a : list N) (ch : N) | OFindFrom (a : list N) (start ch : N)
| OSubString (a : list N) (b n : N) | OSubString1 (a : list N) (b : N)
| OLower (a : list N) | OReplaceChar (a : list N) (c1 c2 : N)
| OOrdinal (n : N)
| OReplaceStr (a to w : list N) | OPrintable (a : list N) | OAppend (a b : list N) | OPlus (a b : list N)
| OCopyBuf (a : list N) (dn : nat)
| OFormat (a b : list N)
| OAtoI (a : list N) | OAtoU (a : list N).

Inductive oval := VZ (z : Z) | VNone | VB (l : list N) | VL (l : list (list N)) | VErr.
Record obs := { o_val : oval; o_ref : bool; o_paired : bool }.

Definition nonul (s : list N) : bool := forallb (fun c => negb (c =? 0) && (c <? 256)) s.
Definition isbyte (c : N) : bool := c <? 256.
Definition valid (o : op) : bool :=
  match o with
  | OStrLen a | OLower a => nonul a
  | OStrCmp a b | OStrStr a b | OContains a b | OContainsNoCase a b | OStartsWith a b | OEndsWith a b | OCount a b
  | OEqual a b | OEqualsNoCase a b => nonul a && nonul b
  | OStrNCmp a b n => nonul a && nonul b
  | OMemCmp a b n => forallb isbyte a && forallb isbyte b && Nat.leb n (length a) && Nat.leb n (length b)
  | OFind a ch => nonul a && isbyte ch
  | OFindFrom a st ch => nonul a && isbyte ch && (st <? SIZE_MOD)
  | OSubString a b n => nonul a && (b <? SIZE_MOD) && (n <? SIZE_MOD)
  | OSubString1 a b => nonul a && (b <? SIZE_MOD) && (N.of_nat (length a) <? NPOS)
  | OReplaceChar a c1 c2 => nonul a && isbyte c1 && isbyte c2
  | OOrdinal n => n <? 4294967296
  | OReplaceStr a to w => nonul a && nonul to && nonul w
  | OPrintable a => nonul a
  | OAppend a b | OPlus a b | OFormat a b => nonul a && nonul b
  | OCopyBuf a dn => nonul a
  (* the digit string must fit the result type (same contract as atoi / strtoul); at most 9 digits always do *)
  | OAtoI a => nonul a && t_fits_int a
  | OAtoU a => nonul a && t_fits_unsigned a
  end.

Definition vz (r : res Z) : oval := match r with Ok z => VZ z | _ => VErr end.
Definition vsgn (r : res Z) : oval := match r with Ok z => VZ (Z.sgn z) | _ => VErr end.
Definition vnat (r : res nat) : oval := match r with Ok n => VZ (Z.of_nat n) | _ => VErr end.
Definition vbool (r : res bool) : oval := match r with Ok b => VZ (if b then 1 else 0) | _ => VErr end.
Definition vonat (r : res (option nat)) : oval := match r with Ok (Some n) => VZ (Z.of_nat n) | Ok None => VNone | _ => VErr end.
Definition voN (r : res (option N)) : oval := match r with Ok (Some n) => VZ (Z.of_N n) | Ok None => VNone | _ => VErr end.
Definition vstr (r : res (list N)) : oval :=
  match r with Ok b => match cstr_of b with Some s => VB s | None => VErr end | _ => VErr end.

(* what the model of the code computes *)
Definition eval (o : op) : oval :=
  match o with
  | OStrLen a => vnat (StrLen (cs a))
  | OStrCmp a b => vsgn (StrCmp (cs a) (cs b))
  | OStrNCmp a b n => vsgn (StrNCmp (cs a) (cs b) n)
  | OStrStr a b => vonat (StrStr (cs a) (cs b))
  | OMemCmp a b n => vsgn (MemCmp a b n)
  | OContains a b => vbool (contains_m (cs a) (cs b))
  | OContainsNoCase a b => vbool (containsNoCase_m (cs a) (cs b))
  | OStartsWith a b => vbool (startsWith_m (cs a) (cs b))
  | OEndsWith a b => vbool (endsWith_m (cs a) (cs b))
  | OCount a b => vnat (count_m (cs a) (cs b))
  | OEqual a b => vbool (equal_m (cs a) (cs b))
  | OEqualsNoCase a b => vbool (equalsNoCase_m (cs a) (cs b))
  | OFind a ch => voN (find_m (cs a) ch)
  | OFindFrom a st ch => voN (findFrom_m (cs a) st ch)
  | OSubString a b n => vstr (subString_m (cs a) b n)
  | OSubString1 a b => vstr (subString_m (cs a) b NPOS)
  | OLower a => vstr (lowerCase_m (cs a))
  | OReplaceChar a c1 c2 => vstr (replaceChar_m (cs a) c1 c2)
  | OOrdinal n => VB (ordinal_m n)
  | OReplaceStr a to w => vstr (replaceStr_m (cs a) (cs to) (cs w))
  | OPrintable a => vstr (printable_m (cs a))
  | OAppend a b => vstr (append_m (cs a) (cs b))
  | OPlus a b => vstr (plus_m (cs a) (cs b))
  | OCopyBuf a dn => match copyToBuffer_m (cs a) (fresh dn) dn with Ok d => VB d | _ => VErr end
  | OFormat a b => vstr (format_m (a ++ b))
  | OAtoI a => vz (AtoI (cs a))
  | OAtoU a => vz (AtoU (cs a))
  end.
(* allocator pairing verdict of the modelled event log (C13_Alloc.v); operations whose buffers all belong to SimpleString
   objects are covered by the theorem alloc_pairing over the buffer primitives *)
Definition pairing (o : op) : bool :=
  match o with OFormat a b => paired (format_log (length (a ++ b))) | _ => true end.
Definition run (o : op) : obs := {| o_val := eval o; o_ref := true; o_paired := pairing o |}.

(* -------- spec: the textbook answer (lib/Str.v, C13_Text.v only -- nothing of the model above) -------- *)
Definition bz (b : bool) : oval := VZ (if b then 1 else 0).
Definition expected (o : op) : oval :=
  match o with
  | OStrLen a => VZ (Z.of_nat (length a))
  | OStrCmp a b => VZ (cmp_z (str_cmp a b))
  | OStrNCmp a b n => VZ (cmp_z (t_ncmp n a b))
  | OStrStr a b => match find_sub a b with Some i => VZ (Z.of_nat i) | None => VNone end
  | OMemCmp a b n => VZ (cmp_z (t_ncmp n a b))
  | OContains a b => bz (contains a b)
  | OContainsNoCase a b => bz (contains (lower a) (lower b))
  | OStartsWith a b => bz (is_prefix b a)
  | OEndsWith a b => bz (t_ends_with a b)
  | OCount a b => VZ (Z.of_nat (t_count a b))
  | OEqual a b => bz (bytes_eqb a b)
  | OEqualsNoCase a b => bz (bytes_eqb (lower a) (lower b))
  | OFind a ch => match t_find_from a 0 ch with Some i => VZ (Z.of_N i) | None => VNone end
  | OFindFrom a st ch => match t_find_from a st ch with Some i => VZ (Z.of_N i) | None => VNone end
  | OSubString a b n => VB (t_substr a b n)
  | OSubString1 a b => VB (t_skipN b a)
  | OLower a => VB (lower a)
  | OReplaceChar a c1 c2 => VB (cut_nul (t_repl_char c1 c2 a))
  | OOrdinal n => VB (t_ordinal n)
  | OReplaceStr a to w => VB (t_replace a to w)
  | OPrintable a => VB (t_printable a)
  | OAppend a b | OPlus a b | OFormat a b => VB (a ++ b)
  | OCopyBuf a dn => VB (t_copy_out a dn)
  | OAtoI a => VZ (t_atoi a)
  | OAtoU a => VZ (t_atou a)
  end.
Fixpoint lbytes_eqb (x y : list (list N)) : bool :=
  match x, y with [], [] => true | a :: x', b :: y' => bytes_eqb a b && lbytes_eqb x' y' | _, _ => false end.
Definition oval_eqb (x y : oval) : bool :=
  match x, y with
  | VZ a, VZ b => (a =? b)%Z | VNone, VNone => true | VB a, VB b => bytes_eqb a b | VL a, VL b => lbytes_eqb a b
  | _, _ => false end.
(* result equals the textbook value; the harness's independent reference (std::string / libc) agreed with what the code
   returned; every buffer went back to the string allocator exactly once with the size it was requested with *)
Definition spec (o : op) (ob : obs) : bool := oval_eqb (o_val ob) (expected o) && o_ref ob && o_paired ob.
