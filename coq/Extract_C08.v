From Coq Require Import ExtrOcamlBasic.
From CppUVerif Require Import lib.CInt C08_Model.
Extraction "c08_model.ml" C08_Model.run C08_Model.run_old C08_Model.spec C08_Model.pv_valid.
