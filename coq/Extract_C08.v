From Coq Require Import ExtrOcamlBasic.
From CppUVerif Require Import lib.CInt C08_Model.
Extraction "c08_model.ml" C08_Model.runw C08_Model.runw_old C08_Model.specw C08_Model.valid C08_Model.run C08_Model.spec C08_Model.parsew C08_Model.judgedw C08_Model.verdictw_ok C08_Model.post_to_check C08_Model.runs C08_Model.runs_gen C08_Model.spec_run C08_Model.valid_run C08_Model.ops_before C08_Model.own_fails C08_Model.plugin_runwide C08_Model.plugin_always C08_Model.plugin_noclear.
