From Coq Require Import ExtrOcamlBasic.
From CppUVerif Require Import lib.CInt C08_Model.
Extraction "c08_model.ml" C08_Model.runw C08_Model.runw_old C08_Model.specw C08_Model.valid C08_Model.run C08_Model.spec C08_Model.parsew C08_Model.judgedw C08_Model.verdictw_ok C08_Model.post_to_check.
