(* C12 -- Command line: every argv is parsed safely and means what the help text says.
   Only statements; every proof is `exact <lemma>` into C12_Proofs.v / C12_Meaning.v / C12_Select.v / C12_Safe.v. *)
From Coq Require Import NArith ZArith Bool List.
From CppUVerif Require Import gen.Gen_C12 lib.Str C13_Model C12_Model C12_Proofs C12_Meaning C12_Select C12_Checked C12_Safe C12_Examples.
Import ListNotations.
Local Open Scope N_scope.

(* the loop over argv is a structural recursion over the remaining arguments (every iteration consumes one or two of them, the
   index only moves forward): no fuel, no out-of-fuel result.  Every rule of the dispatch chain re-read from the source has an
   action in the model (no "unknown rule" result), so every vector is rejected or gives a configuration *)
Theorem C12_total : forall tm argv, (exists h, parse tm argv = Reject h) \/ (exists c, parse tm argv = Accept c).
Proof. exact parse_total. Qed.
Print Assumptions C12_total.

(* memory safety and termination on buffers: the same parser written over C buffers with the bounds-checked primitives of
   C13_Model.v (C12_Checked.v: av[i] is an exact-size buffer; av[i] + 2 / + parameterLength, av[i+1], at(0), subString(0, size()-1),
   subString(2), split, AtoI, AtoU all checked; Oob = read outside a buffer, NoFuel = loop did not end, Ub = int overflow) returns,
   for EVERY valid vector, Ok of what the list-level parser returns -- hence a rejection or a configuration *)
Theorem C12_memory_safe : forall tm argv, valid tm argv = true -> parse_m tm argv = Ok (parse tm argv).
Proof. exact memory_safe. Qed.
Print Assumptions C12_memory_safe.

Theorem C12_total_on_buffers : forall tm argv, valid tm argv = true ->
  (exists h, parse_m tm argv = Ok (Reject h)) \/ (exists c, parse_m tm argv = Ok (Accept c)).
Proof. exact memory_safe_result. Qed.
Print Assumptions C12_total_on_buffers.

(* the code before the repair of subString (a2ff8a1): "TEST(" as last argument reads past the buffer of the empty string *)
Theorem C12_memory_safe_old_refuted : ~ memory_safe_old_stmt.
Proof. exact memory_safe_old_refuted. Qed.
Print Assumptions C12_memory_safe_old_refuted.

(* refinement to the documented grammar: every spelling (attached / separated, any order and multiplicity) of every sequence
   of documented options whose values have the claimed shapes (opt_ok) gives exactly the documented configuration;
   -h anywhere gives the help screen *)
Theorem C12_meaning : forall tm prog opts argv,
  forallb opt_ok opts = true -> In argv (render opts) -> parse tm (prog :: argv) = sem tm opts.
Proof. exact meaning. Qed.
Print Assumptions C12_meaning.

(* help(): "randomization seed ... must be greater than 0" -- seed 0 is refused in both spellings, and no accepted vector at all
   gives a configuration that shuffles with seed 0 *)
Theorem C12_seed_zero_rejected : forall tm c rest,
  parse_args tm c ([45; 115; 48] :: rest) = Reject false /\ parse_args tm c ([45; 115] :: [48] :: rest) = Reject false.
Proof. exact seed_zero_rejected. Qed.
Print Assumptions C12_seed_zero_rejected.

Theorem C12_seed_positive : forall tm argv c, parse tm argv = Accept c -> seed_ok c = true.
Proof. exact parse_seed. Qed.
Print Assumptions C12_seed_positive.

(* a rejected vector: help (after -h) or usage is printed, nothing else, and runAllTests is not called *)
Theorem C12_reject_no_run : forall tm argv h, parse tm argv = Reject h ->
  run tm argv = ORejected h 0 (if h then PHelp else PUsage) /\ ~ In ERunAllTests (run_all_tests_main (parse tm argv)).
Proof. exact reject_no_run_parse. Qed.
Print Assumptions C12_reject_no_run.

(* one filter of each kind accepts exactly: substring / equal / not substring / not equal (textbook `contains` of lib/Str.v) *)
Theorem C12_filter_kinds : forall k v text,
  doc_filter_accepts (mkf v (fk_strict k) (fk_invert k)) text = true <->
  match k with
  | FContains => exists p q, text = p ++ v ++ q
  | FStrict => text = v
  | FExclude => ~ exists p q, text = p ++ v ++ q
  | FExcludeStrict => text <> v
  end.
Proof. exact filter_kind_meaning. Qed.
Print Assumptions C12_filter_kinds.

(* TestFilter::match / UtestShell::shouldRun over the parsed lists *)
Theorem C12_selected_lists : forall c g n,
  selected c (g, n) = true <->
  (c_gf c = [] \/ exists f, In f (c_gf c) /\ doc_filter_accepts f g = true) /\
  (c_nf c = [] \/ exists f, In f (c_nf c) /\ doc_filter_accepts f n = true).
Proof. exact selected_meaning. Qed.
Print Assumptions C12_selected_lists.

(* a vector that is ONE documented test-selection option (-g -sg -xg -xsg -n -sn -xn -xsn -t -st -xt -xst, "TEST(g, n)",
   "IGNORE_TEST(g, n)") in any spelling is accepted and selects exactly the tests its sentence in help() names
   (doc_says: the sentence as re-read from the source into gen/Gen_C12.v c12_help) *)
Theorem C12_filters_select : forall tm prog o f argv,
  opt_ok o = true -> doc_says o = Some f -> In argv (render [o]) ->
  exists c, parse tm (prog :: argv) = Accept c /\ forall t, selected c t = f t.
Proof. exact filters_select. Qed.
Print Assumptions C12_filters_select.

(* the sentences help() had for -xt / -xst before the text was repaired do not describe what the two inverted filters select *)
Theorem C12_xt_help_old_refuted : ~ xt_help_old_stmt.
Proof. exact xt_help_old_refuted. Qed.
Print Assumptions C12_xt_help_old_refuted.

(* the executable oracle used on the implementation's observations accepts every observation of the model *)
Theorem C12_run_meets_spec : forall tm argv opts, valid tm argv = true -> spec tm argv opts (run tm argv) = true.
Proof. exact run_meets_spec. Qed.
Print Assumptions C12_run_meets_spec.
