From Coq Require Import NArith ZArith Bool List.
From CppUVerif Require Import gen.Gen_C12 lib.Str C12_Model C12_Proofs.
Import ListNotations.
Theorem C12_stub : valid 0 [] = true.
Proof. exact stub. Qed.
Print Assumptions C12_stub.
