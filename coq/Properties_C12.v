(* C12 -- Command line: every argv is parsed safely and means what the help text says.
   Only statements; every proof is `exact <lemma>` into C12_Proofs.v / C12_Meaning.v / C12_Select.v / C12_Safe.v. *)
From Coq Require Import NArith ZArith Bool List.
From Coq Require Import Permutation.
From CppUVerif Require Import gen.Gen_C12 lib.Str C13_Model C12_Model C12_Proofs C12_Meaning C12_Select C12_Checked C12_Safe C12_Apply C12_ApplyProofs C12_Seq C12_SeqProofs C12_Examples.
Import ListNotations.
Local Open Scope N_scope.

(* the loop over argv is a structural recursion over the remaining arguments (every iteration consumes one or two of them, the
   index only moves forward): no fuel, no out-of-fuel result.  Every rule of the dispatch chain re-read from the source has an
   action in the model (no "unknown rule" result), so every vector is rejected or gives a configuration *)
Theorem C12_total : forall tm argv, (exists h, parse tm argv = Reject h) \/ (exists c, parse tm argv = Accept c).
Proof. exact parse_total. Qed.
Print Assumptions C12_total.

(* memory safety and termination on buffers: the same parser written over C buffers with the bounds-checked primitives of
   C13_Model.v (C12_Checked.v: av[i] is an exact-size buffer; av[i] + 2 / + parameterLength, av[i+1], at(0), subString(0, size()-1),
   subString(2), split, AtoI, AtoU all checked; Oob = read outside a buffer, NoFuel = loop did not end, Ub = int overflow) returns,
   for EVERY valid vector, Ok of what the list-level parser returns -- hence a rejection or a configuration *)
Theorem C12_memory_safe : forall tm argv, valid tm argv = true -> parse_m tm argv = Ok (parse tm argv).
Proof. exact memory_safe. Qed.
Print Assumptions C12_memory_safe.

Theorem C12_total_on_buffers : forall tm argv, valid tm argv = true ->
  (exists h, parse_m tm argv = Ok (Reject h)) \/ (exists c, parse_m tm argv = Ok (Accept c)).
Proof. exact memory_safe_result. Qed.
Print Assumptions C12_total_on_buffers.

(* the code before the repair of subString (a2ff8a1): "TEST(" as last argument reads past the buffer of the empty string *)
Theorem C12_memory_safe_old_refuted : ~ memory_safe_old_stmt.
Proof. exact memory_safe_old_refuted. Qed.
Print Assumptions C12_memory_safe_old_refuted.

(* refinement to the documented grammar: every spelling (attached / separated, any order and multiplicity) of every sequence
   of documented options whose values have the claimed shapes (opt_ok) gives exactly the documented configuration;
   -h anywhere gives the help screen *)
Theorem C12_meaning : forall tm prog opts argv,
  forallb opt_ok opts = true -> In argv (render opts) -> parse tm (prog :: argv) = sem tm opts.
Proof. exact meaning. Qed.
Print Assumptions C12_meaning.

(* help(): "randomization seed ... must be greater than 0" -- seed 0 is refused in both spellings, and no accepted vector at all
   gives a configuration that shuffles with seed 0 *)
Theorem C12_seed_zero_rejected : forall tm c rest,
  parse_args tm c ([45; 115; 48] :: rest) = Reject false /\ parse_args tm c ([45; 115] :: [48] :: rest) = Reject false.
Proof. exact seed_zero_rejected. Qed.
Print Assumptions C12_seed_zero_rejected.

Theorem C12_seed_positive : forall tm argv c, parse tm argv = Accept c -> seed_ok c = true.
Proof. exact parse_seed. Qed.
Print Assumptions C12_seed_positive.

(* a rejected vector: help (after -h) or usage is printed, nothing else, and runAllTests is not called *)
Theorem C12_reject_no_run : forall tm argv h, parse tm argv = Reject h ->
  run tm argv = ORejected h 0 (if h then PHelp else PUsage) /\ ~ In ERunAllTests (run_all_tests_main (parse tm argv)).
Proof. exact reject_no_run_parse. Qed.
Print Assumptions C12_reject_no_run.

(* one filter of each kind accepts exactly: substring / equal / not substring / not equal (textbook `contains` of lib/Str.v) *)
Theorem C12_filter_kinds : forall k v text,
  doc_filter_accepts (mkf v (fk_strict k) (fk_invert k)) text = true <->
  match k with
  | FContains => exists p q, text = p ++ v ++ q
  | FStrict => text = v
  | FExclude => ~ exists p q, text = p ++ v ++ q
  | FExcludeStrict => text <> v
  end.
Proof. exact filter_kind_meaning. Qed.
Print Assumptions C12_filter_kinds.

(* TestFilter::match / UtestShell::shouldRun over the parsed lists *)
Theorem C12_selected_lists : forall c g n,
  selected c (g, n) = true <->
  (c_gf c = [] \/ exists f, In f (c_gf c) /\ doc_filter_accepts f g = true) /\
  (c_nf c = [] \/ exists f, In f (c_nf c) /\ doc_filter_accepts f n = true).
Proof. exact selected_meaning. Qed.
Print Assumptions C12_selected_lists.

(* a vector that is ONE documented test-selection option (-g -sg -xg -xsg -n -sn -xn -xsn -t -st -xt -xst, "TEST(g, n)",
   "IGNORE_TEST(g, n)") in any spelling is accepted and selects exactly the tests its sentence in help() names
   (doc_says: the sentence as re-read from the source into gen/Gen_C12.v c12_help) *)
Theorem C12_filters_select : forall tm prog o f argv,
  opt_ok o = true -> doc_says o = Some f -> In argv (render [o]) ->
  exists c, parse tm (prog :: argv) = Accept c /\ forall t, selected c t = f t.
Proof. exact filters_select. Qed.
Print Assumptions C12_filters_select.

(* the sentences help() had for -xt / -xst before the text was repaired do not describe what the two inverted filters select *)
Theorem C12_xt_help_old_refuted : ~ xt_help_old_stmt.
Proof. exact xt_help_old_refuted. Qed.
Print Assumptions C12_xt_help_old_refuted.

(* the executable oracle of the parse part accepts every observation of the model *)
Theorem C12_parse_meets_spec : forall tm argv opts, valid tm argv = true -> spec tm argv opts (run tm argv) = true.
Proof. exact run_meets_spec. Qed.
Print Assumptions C12_parse_meets_spec.

(* ------------------------------------------------------------ the runner applies the configuration (C12_Apply.v)
   apply c = what a recording output and 18 recording probe tests (4 of them IGNORE_TESTs) see of CommandLineTestRunner
   (accepted branch of parseArguments, initializeTestRun, runAllTests) for configuration c, up to REP_CAP repetitions *)

(* for EVERY configuration: the first output created is of the configured kind (JUnit: with the package name); every output created
   got the highest verbosity level asked for and the colour; a list mode prints its listing (entries without repetition, covering
   the selected tests, naming only existing ones) and runs nothing; otherwise there are exactly repeat-count repetitions and each
   one runs the selected tests -- in the normal order, or backwards under -b, in EVERY repetition; under -s srand got the configured
   seed and a permutation of the selected tests ran -- ignored tests run exactly under -ri, and every started test was switched to
   separate-process mode exactly under -p *)
Theorem C12_apply_documented : forall c, c_repeat c <= REP_CAP ->
  exists outs text reps, apply c = AApplied outs text reps /\
    (exists o rest, outs = o :: rest /\ o_kind o = c_out c /\ (c_out c = OJUnit -> o_pkg o = c_pkg c)) /\
    (forall o, In o outs -> o_level o = doc_level c /\ o_color o = c_color c) /\
    (list_mode c = true -> reps = [] /\ doc_list_ok c text = true) /\
    (list_mode c = false -> length reps = N.to_nat (c_repeat c) /\ forall r, In r reps ->
       r_level r = doc_level c /\ r_color r = c_color c /\
       (c_shuf c = false -> r_seeds r = [] /\ r_started r = (if c_rev c then rev (natural c) else natural c)) /\
       (c_shuf c = true -> r_seeds r = [c_seed c mod 4294967296] /\ Permutation (r_started r) (natural c)) /\
       r_ran r = List.filter (fun i => negb (ignored_id i) || c_runign c) (r_started r) /\
       r_sep r = (if c_sep c then r_started r else [])).
Proof. exact apply_documented. Qed.
Print Assumptions C12_apply_documented.

(* the flags of the documented configuration of an option sequence: set exactly when the option occurs, wherever and however often *)
Theorem C12_flags_any_order : forall tm opts c, sem tm opts = Accept c ->
  c_verbose c = asks DVerbose opts /\ c_veryverbose c = asks DVeryVerbose opts /\ c_color c = asks DColor opts /\
  c_sep c = asks DSepProcess opts /\ c_listg c = asks DListGroups opts /\ c_listn c = asks DListNames opts /\
  c_listl c = asks DListLocations opts /\ c_runign c = asks DRunIgnored opts /\ c_rev c = asks DReverse opts /\
  c_shuf c = asks_shuffle opts.
Proof. exact sem_flags. Qed.
Print Assumptions C12_flags_any_order.

(* every spelling of every sequence of documented options (values of the claimed shapes, no -h): accepted, and what the runner does
   is the documented meaning of what the vector asks for *)
Theorem C12_vector_applied : forall tm prog opts argv,
  forallb opt_ok opts = true -> In argv (render opts) -> existsb is_help opts = false ->
  exists c, sem tm opts = Accept c /\
    x_parse (xrun tm (prog :: argv)) = OAccepted c (map (selected c) probes) /\
    (c_repeat c <= REP_CAP ->
     exists outs text reps, x_applied (xrun tm (prog :: argv)) = Some (AApplied outs text reps) /\
       (exists o rest, outs = o :: rest /\ o_kind o = c_out c /\ (c_out c = OJUnit -> o_pkg o = c_pkg c)) /\
       (forall o, In o outs -> o_level o = asked_level opts /\ o_color o = asks DColor opts) /\
       (asks_list opts = true -> reps = [] /\ doc_list_ok c text = true) /\
       (asks_list opts = false -> length reps = N.to_nat (c_repeat c) /\ forall r, In r reps ->
          r_level r = asked_level opts /\ r_color r = asks DColor opts /\
          (asks_shuffle opts = false -> r_seeds r = [] /\ r_started r = (if asks DReverse opts then rev (natural c) else natural c)) /\
          (asks_shuffle opts = true -> r_seeds r = [c_seed c mod 4294967296] /\ Permutation (r_started r) (natural c)) /\
          r_ran r = List.filter (fun i => negb (ignored_id i) || asks DRunIgnored opts) (r_started r) /\
          r_sep r = (if asks DSepProcess opts then r_started r else []))).
Proof. exact vector_applied. Qed.
Print Assumptions C12_vector_applied.

(* -v together with -vv, in any order and multiplicity, anything in between: very verbose on every output and in every repetition *)
Theorem C12_verbosity_highest_wins : forall tm prog opts argv c outs text reps,
  forallb opt_ok opts = true -> In argv (render opts) -> sem tm opts = Accept c ->
  x_applied (xrun tm (prog :: argv)) = Some (AApplied outs text reps) ->
  (forall o, In o outs -> o_level o = asked_level opts) /\ (forall r, In r reps -> r_level r = asked_level opts).
Proof. exact verbosity_highest_wins. Qed.
Print Assumptions C12_verbosity_highest_wins.

(* -b without shuffling reverses EVERY repetition, and there are exactly repeat-count of them ... *)
Theorem C12_reverse_every_repetition : forall c outs text reps,
  apply c = AApplied outs text reps -> list_mode c = false -> c_shuf c = false ->
  length reps = N.to_nat (c_repeat c) /\ forall r, In r reps -> r_started r = (if c_rev c then rev (natural c) else natural c).
Proof. exact reverse_every_repetition. Qed.
Print Assumptions C12_reverse_every_repetition.

(* ... all alike (the model's shuffle is the identity: under -s this says nothing about the real order) *)
Theorem C12_repetitions_alike : forall c outs text reps, apply c = AApplied outs text reps ->
  forall r1 r2, In r1 reps -> In r2 reps -> r1 = r2.
Proof. exact repetitions_alike. Qed.
Print Assumptions C12_repetitions_alike.

(* a runner that reverses inside the repeat loop (red-team change C12-3) does not run every repetition backwards *)
Theorem C12_reverse_inside_loop_refuted : ~ rev_inside_stmt.
Proof. exact rev_inside_refuted. Qed.
Print Assumptions C12_reverse_inside_loop_refuted.

(* -lg / -ln / -ll: the listing is printed and no test runs *)
Theorem C12_list_modes_run_nothing : forall c outs text reps, apply c = AApplied outs text reps -> list_mode c = true ->
  reps = [] /\ doc_list_ok c text = true.
Proof. exact list_modes_run_nothing. Qed.
Print Assumptions C12_list_modes_run_nothing.

(* the executable oracle for the applied part accepts the model's observation of every configuration *)
Theorem C12_apply_meets_spec : forall c, apply_ok c (apply c) = true.
Proof. exact apply_meets_spec. Qed.
Print Assumptions C12_apply_meets_spec.

(* the executable oracle used on the implementation's observations of ONE vector (parse part and applied part) accepts every observation of the model *)
Theorem C12_vector_meets_spec : forall tm argv opts, valid tm argv = true -> xspec tm argv opts (xrun tm argv) = true.
Proof. exact xrun_meets_spec. Qed.
Print Assumptions C12_vector_meets_spec.

(* --------------------------------------------------------------------------------------------------------------
   SEQUENCES of vectors handed to the static entry point CommandLineTestRunner::RunAllTests(ac, av) in one process on the current registry
   (C12_Seq.v): the plugin chain and the registry are state across the calls.
   -------------------------------------------------------------------------------------------------------------- *)
(* the oracle of both scenario kinds (one vector; a sequence of vectors with the user's plugins and failing tests) accepts every observation
   of the model.  For a sequence the oracle asks: every call came back; a rejected vector printed exactly usage / help and ran nothing; help
   only for a vector that has the argument -h; a vector that spells documented options is rejected / accepted and run as documented; a vector that is one -p<x> is accepted exactly when a
   plugin of the user takes it; after every call no plugin of the runner is installed and the user's plugins are there as before; the same
   vector later in the sequence has the same outcome *)
Theorem C12_run_meets_spec : forall s, yvalid s = true -> yspec s (yrun s) = true.
Proof. exact yrun_meets_spec. Qed.
Print Assumptions C12_run_meets_spec.

(* every call returns: the model of a call is a total function, a sequence gives one observation per vector *)
Theorem C12_seq_every_call_returns : forall tm mask vs st, length (run_calls tm mask st vs) = length vs.
Proof. exact run_calls_length. Qed.
Print Assumptions C12_seq_every_call_returns.

(* a call leaves the plugin chain as it found it -- vector accepted or rejected, tests failing or not, nothing selected, too many
   repetitions: WHATEVER the result (no user plugin carries one of the two names the runner removes by) *)
Theorem C12_seq_plugins_restored : forall tm mask st v, forallb not_runners (st_plugins st) = true ->
  st_plugins (snd (one_call tm mask st v)) = st_plugins st.
Proof. exact plugins_restored. Qed.
Print Assumptions C12_seq_plugins_restored.

(* in general (a user plugin named like the runner's): the chain is unchanged, or it is the chain without those two names -- a call never
   leaves anything of its own behind *)
Theorem C12_seq_plugins_never_added : forall tm mask st v,
  st_plugins (snd (one_call tm mask st v)) = st_plugins st \/
  st_plugins (snd (one_call tm mask st v)) = without_runner_names (st_plugins st).
Proof. exact plugins_never_added. Qed.
Print Assumptions C12_seq_plugins_never_added.

(* in every call of every sequence the observer finds the user's plugins, in their order, and nothing else: plugin count back to what it was *)
Theorem C12_seq_restores_in_every_call : forall tm mask ps vs, name_clash ps = false ->
  forall o, In o (run_calls tm mask (initial_state ps) vs) ->
  match o with CCall _ _ _ tags => tags = initial_tags ps | CBig => True end.
Proof. exact restores_in_every_call. Qed.
Print Assumptions C12_seq_restores_in_every_call.

Theorem C12_seq_plugins_after_any_sequence : forall ps tm mask vs, name_clash ps = false ->
  st_plugins (end_state tm mask (initial_state ps) vs) = user_plugins ps.
Proof. exact plugins_after_any_sequence. Qed.
Print Assumptions C12_seq_plugins_after_any_sequence.

(* a vector is accepted / rejected, and runs the same tests (IGNORE_TESTs aside: the registry's run-ignored switch is sticky), whatever
   calls were made before it *)
Theorem C12_seq_independent_of_earlier_calls : forall ps tm mask vs1 vs2 v, name_clash ps = false ->
  same_outcome_prop (fst (one_call tm mask (end_state tm mask (initial_state ps) vs1) v))
                    (fst (one_call tm mask (end_state tm mask (initial_state ps) vs2) v)).
Proof. exact independent_of_earlier_calls. Qed.
Print Assumptions C12_seq_independent_of_earlier_calls.

(* every spelling of every sequence of documented options means what the help text says, whatever plugins are installed: a documented
   option is never handed to the plugin chain *)
Theorem C12_seq_meaning_any_chain : forall takes tm prog opts argv,
  forallb opt_ok opts = true -> In argv (render opts) -> parse_p takes tm (prog :: argv) = sem tm opts.
Proof. exact meaning_p. Qed.
Print Assumptions C12_seq_meaning_any_chain.

(* ... and so, after ANY sequence of earlier calls and with ANY plugins of the user, a documented vector is rejected with help or accepted
   and run as documented: the selected tests that are not IGNORE_TESTs, as often as asked, and all of them under -ri; nothing in a list mode *)
Theorem C12_seq_documented_after_any_sequence : forall ps tm mask vs v opts, spells v opts = true ->
  let o := fst (one_call tm mask (end_state tm mask (initial_state ps) vs) v) in
  match sem tm opts with
  | Reject h => exists tags, o = CCall (if h then PHelp else PUsage) 0 [] tags
  | Accept c => c_repeat c <= REP_CAP -> exists seeds ran tags, o = CCall PNothing seeds ran tags /\
                  (list_mode c = true -> ran = []) /\
                  (list_mode c = false ->
                     Permutation (List.filter not_ignored ran) (times (N.to_nat (c_repeat c)) (List.filter not_ignored (natural c))) /\
                     (c_runign c = true -> Permutation ran (times (N.to_nat (c_repeat c)) (natural c))))
  | Unknown => False
  end.
Proof. exact documented_after_any_sequence. Qed.
Print Assumptions C12_seq_documented_after_any_sequence.

(* a vector that is one plugin option -p<x>, after any sequence of earlier calls: accepted exactly when a plugin of the user takes it *)
Theorem C12_seq_plugin_option_after_any_sequence : forall ps tm mask vs x a, name_clash ps = false ->
  is_prefix lit_plugin_option a = true -> (2 < length a)%nat ->
  exists seeds ran tags, fst (one_call tm mask (end_state tm mask (initial_state ps) vs) [x; a]) =
    CCall (if existsb (fun q => kind_takes (snd q) a) ps then PNothing else PUsage) seeds ran tags.
Proof. exact plugin_option_after_any_sequence. Qed.
Print Assumptions C12_seq_plugin_option_after_any_sequence.

(* the runner that returns early on a non-zero result, before removing its leak plugin (red team C12-2): "every call restores" is false
   of it; witness: no plugins, the one vector -zz *)
Theorem C12_seq_early_return_refuted : ~ early_return_restores_stmt.
Proof. exact early_return_refuted. Qed.
Print Assumptions C12_seq_early_return_refuted.

(* ties to the one-vector model: the parser with the chain of the one-vector harness is C12_Model.parse; a run on the fresh registry is
   C12_Apply.runner_run_all_tests *)
Theorem C12_seq_parse_with_chain : forall tm argv, parse_p plugin_accepts tm argv = parse tm argv.
Proof. exact parse_p_model. Qed.
Print Assumptions C12_seq_parse_with_chain.

Theorem C12_seq_run_on_fresh_registry : forall c, fst (run_on c registry0) = runner_run_all_tests c.
Proof. exact run_on_registry0. Qed.
Print Assumptions C12_seq_run_on_fresh_registry.

(* --------------------------------------------------------------------------------------------------------------
   THE TRANSLATED SOURCE of CommandLineArguments::parse (gen/Gen_HeapC12.v, regenerated by tools/cxx2heap.py on every run): the AST-level chain of tests is first_match over the (independently, regex-) extracted dispatch table, one loop trip stores the flag / calls the handler of that rule, and the whole loop follows the model's parse_args
   -------------------------------------------------------------------------------------------------------------- *)
From CppUVerif Require Import lib.CSem lib.CMem lib.CHeap gen.Gen_C12 gen.Gen_HeapC12 C12_ParseTie.
Local Open Scope Z_scope.
Theorem C12_arg_hyps_satisfiable :
  forall txt : Z -> bytes,
  exists arg_is arg_starts : Z -> String.string -> Z,
  (forall (id : Z) (s : String.string), arg_is id s = b2z (bytes_eqb (txt id) (bs s))) /\
  (forall (id : Z) (s : String.string), arg_starts id s = b2z (is_prefix (bs s) (txt id))).
Proof. exact arg_hyps_satisfiable. Qed.
Print Assumptions C12_arg_hyps_satisfiable.

Theorem C12_dispatch_is_first_match :
  forall a : bytes, src_rule a = first_match c12_dispatch a.
Proof. exact dispatch_is_first_match. Qed.
Print Assumptions C12_dispatch_is_first_match.

Theorem C12_args_layout_is_the_source :
  off_CommandLineArguments_ac_ = 0 /\
  off_CommandLineArguments_av_ = 1 /\
  off_CommandLineArguments_needHelp_ = 2 /\
  off_CommandLineArguments_verbose_ = 3 /\
  off_CommandLineArguments_veryVerbose_ = 4 /\
  off_CommandLineArguments_color_ = 5 /\
  off_CommandLineArguments_runTestsAsSeperateProcess_ = 6 /\
  off_CommandLineArguments_listTestGroupNames_ = 7 /\
  off_CommandLineArguments_listTestGroupAndCaseNames_ = 8 /\
  off_CommandLineArguments_listTestLocations_ = 9 /\
  off_CommandLineArguments_runIgnored_ = 10 /\
  off_CommandLineArguments_reversing_ = 11 /\
  off_CommandLineArguments_crashOnFail_ = 12 /\
  off_CommandLineArguments_rethrowExceptions_ = 13 /\ cells_CommandLineArguments = 22.
Proof. exact args_layout_is_the_source. Qed.
Print Assumptions C12_args_layout_is_the_source.

Theorem C12_tables_cover_dispatch :
  forallb covered c12_dispatch = true.
Proof. exact tables_cover_dispatch. Qed.
Print Assumptions C12_tables_cover_dispatch.

Theorem C12_src_args_parse_loop_step :
  forall (txt : Z -> bytes) (arg_is arg_starts : Z -> String.string -> Z),
  (forall (id : Z) (s : String.string), arg_is id s = b2z (bytes_eqb (txt id) (bs s))) ->
  (forall (id : Z) (s : String.string), arg_starts id s = b2z (is_prefix (bs s) (txt id))) ->
  forall (fuel0 fuel : nat) (plugin : Z) (h : heap) (ob vb : nat) (ids : list Z) (evs : list aev12)
  (hres : list (Z * Z)) (cp i : Z),
  args_at h ob vb ids ->
  0 <= i < Z.of_nat (length ids) ->
  src_args_parse_loop1 arg_is arg_starts fuel0 (S fuel) (HPtr ob 0) plugin h evs hres cp i =
  match step_of (first_match c12_dispatch (txt (nth (Z.to_nat i) ids 0))) ob h evs hres cp i with
  | Go (mem, evs0, hres0, cp0, i0) =>
  if z2b (c_eq cp0 0)
  then Done (0, mem, evs0, hres0)
  else
  src_args_parse_loop1 arg_is arg_starts fuel0 fuel (HPtr ob 0) plugin mem evs0 hres0 cp0
  (cw 32 true (i0 + 1))
  | Done r => Done r
  | Oob => Oob
  | NoFuel => NoFuel
  end.
Proof. exact src_args_parse_loop_step. Qed.
Print Assumptions C12_src_args_parse_loop_step.

Theorem C12_step_flag_rule :
  forall (txt : Z -> bytes) (arg_is arg_starts : Z -> String.string -> Z),
  (forall (id : Z) (s : String.string), arg_is id s = b2z (bytes_eqb (txt id) (bs s))) ->
  (forall (id : Z) (s : String.string), arg_starts id s = b2z (is_prefix (bs s) (txt id))) ->
  forall (fuel0 fuel : nat) (plugin : Z) (h : heap) (ob vb : nat) (ids : list Z) (evs : list aev12)
  (hres : list (Z * Z)) (cp i : Z) (lit : bytes) (k v : Z),
  args_at h ob vb ids ->
  0 <= i < Z.of_nat (length ids) ->
  cp <> 0 ->
  first_match c12_dispatch (txt (nth (Z.to_nat i) ids 0)) = Some (MExact, lit) ->
  lookup flag_table lit = Some (k, v, false) ->
  src_args_parse_loop1 arg_is arg_starts fuel0 (S fuel) (HPtr ob 0) plugin h evs hres cp i =
  src_args_parse_loop1 arg_is arg_starts fuel0 fuel (HPtr ob 0) plugin (store_cell h ob k (VInt v)) evs hres cp
  (cw 32 true (i + 1)).
Proof. exact step_flag_rule. Qed.
Print Assumptions C12_step_flag_rule.

Theorem C12_step_help_rule :
  forall (txt : Z -> bytes) (arg_is arg_starts : Z -> String.string -> Z),
  (forall (id : Z) (s : String.string), arg_is id s = b2z (bytes_eqb (txt id) (bs s))) ->
  (forall (id : Z) (s : String.string), arg_starts id s = b2z (is_prefix (bs s) (txt id))) ->
  forall (fuel0 fuel : nat) (plugin : Z) (h : heap) (ob vb : nat) (ids : list Z) (evs : list aev12)
  (hres : list (Z * Z)) (cp i : Z) (lit : bytes) (k v : Z),
  args_at h ob vb ids ->
  0 <= i < Z.of_nat (length ids) ->
  first_match c12_dispatch (txt (nth (Z.to_nat i) ids 0)) = Some (MExact, lit) ->
  lookup flag_table lit = Some (k, v, true) ->
  src_args_parse_loop1 arg_is arg_starts fuel0 (S fuel) (HPtr ob 0) plugin h evs hres cp i =
  Done (0, store_cell h ob k (VInt v), evs, hres).
Proof. exact step_help_rule. Qed.
Print Assumptions C12_step_help_rule.

Theorem C12_step_handler_rule :
  forall (txt : Z -> bytes) (arg_is arg_starts : Z -> String.string -> Z),
  (forall (id : Z) (s : String.string), arg_is id s = b2z (bytes_eqb (txt id) (bs s))) ->
  (forall (id : Z) (s : String.string), arg_starts id s = b2z (is_prefix (bs s) (txt id))) ->
  forall (fuel0 fuel : nat) (plugin : Z) (h : heap) (ob vb : nat) (ids : list Z) (evs : list aev12)
  (hres : list (Z * Z)) (cp i : Z) (lit : bytes) (name la : String.string) (fl : list Z)
  (asg adv : bool) (rv ni : Z),
  args_at h ob vb ids ->
  0 <= i < Z.of_nat (length ids) ->
  cp <> 0 ->
  first_match c12_dispatch (txt (nth (Z.to_nat i) ids 0)) = Some (MPrefix, lit) ->
  lookup handler_table lit = Some (name, la, fl, asg, adv) ->
  src_args_parse_loop1 arg_is arg_starts fuel0 (S fuel) (HPtr ob 0) plugin h evs ((rv, ni) :: hres) cp i =
  (if asg && (rv =? 0)
  then Done (0, h, evs ++ [AHandler name i la fl], hres)
  else
  src_args_parse_loop1 arg_is arg_starts fuel0 fuel (HPtr ob 0) plugin h (evs ++ [AHandler name i la fl]) hres
  (if asg then rv else cp) (cw 32 true ((if adv then ni else i) + 1))).
Proof. exact step_handler_rule. Qed.
Print Assumptions C12_step_handler_rule.

Theorem C12_step_no_rule :
  forall (txt : Z -> bytes) (arg_is arg_starts : Z -> String.string -> Z),
  (forall (id : Z) (s : String.string), arg_is id s = b2z (bytes_eqb (txt id) (bs s))) ->
  (forall (id : Z) (s : String.string), arg_starts id s = b2z (is_prefix (bs s) (txt id))) ->
  forall (fuel0 fuel : nat) (plugin : Z) (h : heap) (ob vb : nat) (ids : list Z) (evs : list aev12)
  (hres : list (Z * Z)) (cp i : Z),
  args_at h ob vb ids ->
  0 <= i < Z.of_nat (length ids) ->
  first_match c12_dispatch (txt (nth (Z.to_nat i) ids 0)) = None ->
  src_args_parse_loop1 arg_is arg_starts fuel0 (S fuel) (HPtr ob 0) plugin h evs hres cp i =
  Done (0, h, evs, hres).
Proof. exact step_no_rule. Qed.
Print Assumptions C12_step_no_rule.

Theorem C12_gdn_flags_are_the_models :
  forall (tm : N) (c : config) (a : bytes) (next : option bytes),
  action tm c MPrefix
  (bs
  (String.String (Ascii.Ascii true false true true false true false false)
  (String.String (Ascii.Ascii false false true false true true true false) String.EmptyString))) a next =
  add_group_dot_name (z2b 0) (z2b 0)
  (length
  (bs
  (String.String (Ascii.Ascii true false true true false true false false)
  (String.String (Ascii.Ascii false false true false true true true false) String.EmptyString)))) c a
  next /\
  action tm c MPrefix
  (bs
  (String.String (Ascii.Ascii true false true true false true false false)
  (String.String (Ascii.Ascii true true false false true true true false)
  (String.String (Ascii.Ascii false false true false true true true false) String.EmptyString)))) a
  next =
  add_group_dot_name (z2b 1) (z2b 0)
  (length
  (bs
  (String.String (Ascii.Ascii true false true true false true false false)
  (String.String (Ascii.Ascii true true false false true true true false)
  (String.String (Ascii.Ascii false false true false true true true false) String.EmptyString)))))
  c a next /\
  action tm c MPrefix
  (bs
  (String.String (Ascii.Ascii true false true true false true false false)
  (String.String (Ascii.Ascii false false false true true true true false)
  (String.String (Ascii.Ascii false false true false true true true false) String.EmptyString)))) a
  next =
  add_group_dot_name (z2b 0) (z2b 1)
  (length
  (bs
  (String.String (Ascii.Ascii true false true true false true false false)
  (String.String (Ascii.Ascii false false false true true true true false)
  (String.String (Ascii.Ascii false false true false true true true false) String.EmptyString)))))
  c a next /\
  action tm c MPrefix
  (bs
  (String.String (Ascii.Ascii true false true true false true false false)
  (String.String (Ascii.Ascii false false false true true true true false)
  (String.String (Ascii.Ascii true true false false true true true false)
  (String.String (Ascii.Ascii false false true false true true true false) String.EmptyString)))))
  a next =
  add_group_dot_name (z2b 1) (z2b 1)
  (length
  (bs
  (String.String (Ascii.Ascii true false true true false true false false)
  (String.String (Ascii.Ascii false false false true true true true false)
  (String.String (Ascii.Ascii true true false false true true true false)
  (String.String (Ascii.Ascii false false true false true true true false) String.EmptyString))))))
  c a next.
Proof. exact gdn_flags_are_the_models. Qed.
Print Assumptions C12_gdn_flags_are_the_models.

Theorem C12_model_oracle_consistent :
  forall (tm : N) (n : nat) (args : list bytes) (c : config) (i : Z) (tail : list (Z * Z)),
  (length args <= n)%nat -> consistent tm c i args (model_oracle tm c i args ++ tail).
Proof. exact model_oracle_consistent. Qed.
Print Assumptions C12_model_oracle_consistent.

Theorem C12_src_args_parse_spec :
  forall (txt : Z -> bytes) (arg_is arg_starts : Z -> String.string -> Z),
  (forall (id : Z) (s : String.string), arg_is id s = b2z (bytes_eqb (txt id) (bs s))) ->
  (forall (id : Z) (s : String.string), arg_starts id s = b2z (is_prefix (bs s) (txt id))) ->
  forall (tm : N) (fuel : nat) (plugin : Z) (h : heap) (ob vb : nat) (ids : list Z)
  (evs : list aev12) (hres : list (Z * Z)) (c : config),
  args_at h ob vb ids ->
  Z.of_nat (length ids) < 2 ^ 31 ->
  flags_rep h ob c ->
  consistent tm c 1 (map txt (tl ids)) hres ->
  (length (tl ids) < fuel)%nat ->
  exists (h' : heap) (used hres' : list (Z * Z)),
  hres = used ++ hres' /\
  length used = length (events_of (model_walk tm c 1 (map txt (tl ids)))) /\
  src_args_parse arg_is arg_starts fuel h evs hres (HPtr ob 0) plugin =
  FOk
  (ret_code (parse_args tm c (map txt (tl ids))), h',
  evs ++ events_of (model_walk tm c 1 (map txt (tl ids))), hres') /\
  same_but_flags h h' ob /\
  flags_rep h' ob (model_last tm c (map txt (tl ids))) /\
  cell h' ob 2 =
  match parse_args tm c (map txt (tl ids)) with
  | Reject true => Some (VInt 1)
  | _ => cell h ob 2
  end /\ parse_args tm c (map txt (tl ids)) <> Unknown.
Proof. exact src_args_parse_spec. Qed.
Print Assumptions C12_src_args_parse_spec.

Theorem C12_src_parse_meets_model :
  forall (txt : Z -> list N) (arg_is arg_starts : Z -> String.string -> Z),
  (forall (id : Z) (s : String.string), arg_is id s = b2z (bytes_eqb (txt id) (bs s))) ->
  (forall (id : Z) (s : String.string), arg_starts id s = b2z (is_prefix (bs s) (txt id))) ->
  forall (tm : N) (fuel : nat) (plugin : Z) (h : heap) (ob vb : nat) (ids : list Z)
  (evs : list aev12) (hres : list (Z * Z)),
  args_at h ob vb ids ->
  Z.of_nat (length ids) < 2 ^ 31 ->
  flags_rep h ob default_config ->
  cell h ob 2 = Some (VInt 0) ->
  consistent tm default_config 1 (map txt (tl ids)) hres ->
  (length (tl ids) < fuel)%nat ->
  exists (r : Z) (h' : heap) (evs' : list aev12) (hres' : list (Z * Z)),
  src_args_parse arg_is arg_starts fuel h evs hres (HPtr ob 0) plugin = FOk (r, h', evs ++ evs', hres') /\
  same_but_flags h h' ob /\
  map ev_key evs' = walk_handlers (model_walk tm default_config 1 (map txt (tl ids))) /\
  length hres = (length evs' + length hres')%nat /\
  match parse tm (map txt ids) with
  | Reject hp => r = 0 /\ cell h' ob 2 = Some (VInt (b2z hp))
  | Accept c => r = 1 /\ flags_rep h' ob c /\ cell h' ob 2 = Some (VInt 0)
  | Unknown => False
  end.
Proof. exact src_parse_meets_model. Qed.
Print Assumptions C12_src_parse_meets_model.

Theorem C12_ex_premises :
  args_at (ex_heap [0; 1; 2; 3; 4]) 0 1 [0; 1; 2; 3; 4] /\
  flags_rep (ex_heap [0; 1; 2; 3; 4]) 0 default_config /\
  cell (ex_heap [0; 1; 2; 3; 4]) 0 2 = Some (VInt 0) /\
  consistent 0 default_config 1 (map ex_txt (tl [0; 1; 2; 3; 4])) [(1, 3)].
Proof. exact ex_premises. Qed.
Print Assumptions C12_ex_premises.

(* --------------------------------------------------------------------------------------------------------------
   SOURCE TIE (the runner's frame): CommandLineTestRunner::initializeTestRun / runAllTestsMain / the static RunAllTests(ac, av) as translated on every run into gen/Gen_HeapC12R.v -- the exact calls made for every parsed command line and every outcome: the pointer plugin and the leak plugin are installed once and removed by name whatever the result, the run happens iff the arguments parsed, the final report is printed iff the result is 0
   -------------------------------------------------------------------------------------------------------------- *)
From CppUVerif Require gen.Gen_HeapC12R C12_RunnerTie.
Local Open Scope Z_scope.
Theorem C12_initializeTestRun_events :
  forall (fuel : nat) (h : heap) (evs : list Gen_HeapC12R.rnev) (gf nf v vv c sep ri cr rt : Z)
  (ps rs ms : list Z) (this : hptr),
  Gen_HeapC12R.src_runner_initializeTestRun fuel h evs gf nf v vv c sep ri cr rt ps rs ms this =
  FOk
  (tt, h, evs ++ C12_RunnerTie.init_events gf nf v vv c sep ri cr rt, gf, nf, v, vv, c, sep, ri, cr, rt, ps,
  rs, ms).
Proof. exact C12_RunnerTie.initializeTestRun_events. Qed.
Print Assumptions C12_initializeTestRun_events.

Theorem C12_initializeTestRun_effect :
  forall (s : C12_RunnerTie.switches) (gf nf v vv c sep ri cr rt : Z),
  let s' := C12_RunnerTie.after s (C12_RunnerTie.init_events gf nf v vv c sep ri cr rt) in
  C12_RunnerTie.s_gf s' = gf /\
  C12_RunnerTie.s_nf s' = nf /\
  C12_RunnerTie.s_rethrow s' = z2b rt /\
  C12_RunnerTie.s_run_ignored s' = C12_RunnerTie.s_run_ignored s || z2b ri /\
  C12_RunnerTie.s_separate s' = C12_RunnerTie.s_separate s || z2b sep /\
  C12_RunnerTie.s_crash s' = C12_RunnerTie.s_crash s || z2b cr /\
  C12_RunnerTie.s_color s' = C12_RunnerTie.s_color s || z2b c /\
  C12_RunnerTie.s_verbosity s' = (if z2b vv then 2 else if z2b v then 1 else C12_RunnerTie.s_verbosity s).
Proof. exact C12_RunnerTie.initializeTestRun_effect. Qed.
Print Assumptions C12_initializeTestRun_effect.

Theorem C12_runAllTestsMain_parsed :
  forall (fuel : nat) (h : heap) (evs : list Gen_HeapC12R.rnev) (gf nf v vv c sep ri cr rt ok : Z)
  (ps : list Z) (r : Z) (rs ms : list Z) (this : hptr),
  z2b ok = true ->
  Gen_HeapC12R.src_runner_runAllTestsMain fuel h evs gf nf v vv c sep ri cr rt (ok :: ps) (r :: rs) ms this =
  FOk (r, h, evs ++ C12_RunnerTie.main_events ok r, gf, nf, v, vv, c, sep, ri, cr, rt, ps, rs, ms).
Proof. exact C12_RunnerTie.runAllTestsMain_parsed. Qed.
Print Assumptions C12_runAllTestsMain_parsed.

Theorem C12_runAllTestsMain_rejected :
  forall (fuel : nat) (h : heap) (evs : list Gen_HeapC12R.rnev) (gf nf v vv c sep ri cr rt ok : Z)
  (ps rs ms : list Z) (this : hptr),
  z2b ok = false ->
  Gen_HeapC12R.src_runner_runAllTestsMain fuel h evs gf nf v vv c sep ri cr rt (ok :: ps) rs ms this =
  FOk (1, h, evs ++ C12_RunnerTie.main_events ok 0, gf, nf, v, vv, c, sep, ri, cr, rt, ps, rs, ms).
Proof. exact C12_RunnerTie.runAllTestsMain_rejected. Qed.
Print Assumptions C12_runAllTestsMain_rejected.

Theorem C12_RunAllTests_events :
  forall (fuel : nat) (h : heap) (evs : list Gen_HeapC12R.rnev) (gf nf v vv c sep ri cr rt : Z)
  (ps rs : list Z) (r : Z) (ms : list Z) (this : hptr) (ac : Z) (av : hptr),
  Gen_HeapC12R.src_runner_RunAllTests fuel h evs gf nf v vv c sep ri cr rt ps rs (r :: ms) this ac av =
  FOk (r, h, evs ++ C12_RunnerTie.static_events r, gf, nf, v, vv, c, sep, ri, cr, rt, ps, rs, ms).
Proof. exact C12_RunnerTie.RunAllTests_events. Qed.
Print Assumptions C12_RunAllTests_events.

Theorem C12_plugins_removed_whatever_the_result :
  forall ok r r' : Z,
  C12_RunnerTie.installs (C12_RunnerTie.main_events ok r) = 1%nat /\
  C12_RunnerTie.removes (C12_RunnerTie.main_events ok r) = [2] /\
  C12_RunnerTie.installs (C12_RunnerTie.static_events r') = 1%nat /\
  C12_RunnerTie.removes (C12_RunnerTie.static_events r') = [1] /\
  last (C12_RunnerTie.main_events ok r) Gen_HeapC12R.RPrint = Gen_HeapC12R.RRemove 2 /\
  last (C12_RunnerTie.static_events r') Gen_HeapC12R.RPrint = Gen_HeapC12R.RRemove 1.
Proof. exact C12_RunnerTie.plugins_removed_whatever_the_result. Qed.
Print Assumptions C12_plugins_removed_whatever_the_result.

Theorem C12_final_report_iff_result_zero :
  forall r : Z, In (Gen_HeapC12R.RFinalReport 0) (C12_RunnerTie.static_events r) <-> r = 0.
Proof. exact C12_RunnerTie.final_report_iff_result_zero. Qed.
Print Assumptions C12_final_report_iff_result_zero.
