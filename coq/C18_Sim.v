(* C18 -- every call of the model keeps the invariant and passes the model-free oracle *)
From Coq Require Import NArith Arith Bool List Lia.
From CppUVerif Require Import gen.Gen_C18 C18_Model C18_Lists C18_Inv.
Import ListNotations.
Local Open Scope N_scope.

Lemma in_mid : forall (A : Type) (l1 : list A) x l2 y, In y (l1 ++ x :: l2) <-> In y l1 \/ x = y \/ In y l2.
Proof. intros. rewrite in_app_iff. simpl. tauto. Qed.

Lemma cnt_fm_ge : forall (l : list node) nd id, In nd l -> In id (node_ids nd) -> (cnt (flat_map node_ids l) id >= 1)%nat.
Proof.
  induction l as [|h r IH]; intros nd id H Hi; [destruct H|]. simpl. rewrite cnt_app.
  destruct H as [<-|H]; [apply cnt_In in Hi; lia | specialize (IH _ _ H Hi); lia].
Qed.
Lemma cnt_mems_bids : forall l id, In id (mems l) -> (cnt (bids l) id >= 1)%nat.
Proof. intros l id H. apply mems_bids in H. apply cnt_In in H. lia. Qed.

(* a buffer on a free list is on no used list and not among the non-cached blocks; and the other way round *)
Lemma cnt_free_used : forall c non nd1 nd2 id,
  (forall x, (cnt (flat_map node_ids c ++ bids non) x <= 1)%nat) ->
  In nd1 c -> In nd2 c -> In id (mems (n_free nd1)) -> In id (mems (n_used nd2)) -> False.
Proof.
  intros c non nd1 nd2 id Hn H1 H2 Hf Hu. specialize (Hn id). rewrite cnt_app in Hn.
  assert (Hi : In id (node_ids nd2)) by (unfold node_ids; rewrite in_app_iff; right; apply mems_bids; exact Hu).
  apply cnt_mems_bids in Hf. apply cnt_mems_bids in Hu.
  apply in_split in H1. destruct H1 as [l1 [l2 ->]].
  rewrite flat_map_mid, !cnt_app in Hn. unfold node_ids at 2 in Hn. rewrite cnt_app in Hn.
  apply in_mid in H2. destruct H2 as [H2|[<-|H2]].
  - pose proof (cnt_fm_ge l1 nd2 id H2 Hi). lia.
  - lia.
  - pose proof (cnt_fm_ge l2 nd2 id H2 Hi). lia.
Qed.
Lemma cnt_free_non : forall c non nd1 id,
  (forall x, (cnt (flat_map node_ids c ++ bids non) x <= 1)%nat) ->
  In nd1 c -> In id (mems (n_free nd1)) -> In id (mems non) -> False.
Proof.
  intros c non nd1 id Hn H1 Hf Hu. specialize (Hn id). rewrite cnt_app in Hn.
  apply cnt_mems_bids in Hu.
  assert ((cnt (flat_map node_ids c) id >= 1)%nat).
  { apply (cnt_fm_ge c nd1 id H1). unfold node_ids. rewrite in_app_iff. left. apply mems_bids. exact Hf. }
  lia.
Qed.

Lemma ids_of_In : forall l e, In e l -> In (fst (fst e)) (ids_of l).
Proof. intros l e H. unfold ids_of. apply in_map_iff. exists e. auto. Qed.
Lemma ids_of_In_inv : forall l id, In id (ids_of l) -> exists off req, In (id, off, req) l.
Proof.
  intros l id H. unfold ids_of in H. apply in_map_iff in H. destruct H as [[[i o] r] [H1 H2]]. simpl in H1. subst.
  exists o, r. exact H2.
Qed.

Lemma free_not_live : forall st s nd id, R st s -> In nd (s_cache st) -> In id (mems (n_free nd)) -> ~ In id (ids_of (a_live s)).
Proof.
  intros st s nd id HR Hnd Hf Hl. apply ids_of_In_inv in Hl. destruct Hl as [off [req Hl]].
  pose proof (r_live_a _ _ HR _ Hl) as [_ Hloc]. simpl in Hloc.
  destruct (cls req) as [sz|].
  - destruct Hloc as [nd2 [H1 [_ H3]]].
    exact (cnt_free_used _ _ nd nd2 id (r_nodup _ _ HR) Hnd H1 Hf H3).
  - exact (cnt_free_non _ _ nd id (r_nodup _ _ HR) Hnd Hf Hloc).
Qed.

Lemma overlaps_none : forall live id off n, ~ In id (ids_of live) -> existsb (overlaps id off n) live = false.
Proof.
  induction live as [|[[i o] r] l IH]; intros id off n H; [reflexivity|]. simpl in *.
  replace (id =? i) with false by (symmetry; apply N.eqb_neq; intros E; apply H; left; auto).
  simpl. apply IH. intros G. apply H. right. exact G.
Qed.

Lemma Forall_mid : forall (A : Type) (P : A -> Prop) l1 x l2, Forall P (l1 ++ x :: l2) <-> Forall P l1 /\ P x /\ Forall P l2.
Proof.
  intros. rewrite Forall_app. split.
  - intros [H1 H2]. inversion H2; subst. auto.
  - intros [H1 [H2 H3]]. split; [exact H1 | constructor; assumption].
Qed.
Lemma map_mid_size : forall l1 (x y : node) l2, n_size x = n_size y -> map n_size (l1 ++ x :: l2) = map n_size (l1 ++ y :: l2).
Proof. intros. rewrite !map_app. simpl. rewrite H. reflexivity. Qed.

(* weakening the books: blocks obtained later do not disturb what is known about earlier ones *)
Lemma node_ok_grow : forall sizes x seen sn nd,
  node_ok sizes seen nd ->
  (forall b, In b (n_free nd ++ n_used nd) -> seen_cls sn (b_mem b) = seen_cls seen (b_mem b)) ->
  node_ok (sizes ++ x) sn nd.
Proof.
  intros sizes x seen sn nd H Hs b Hb. destruct (H b Hb) as [[H1 H2] H3].
  split; [split; apply szof_app_old; assumption | rewrite Hs; assumption].
Qed.
Lemma non_ok_grow : forall sizes x seen sn b,
  non_ok sizes seen b -> seen_cls sn (b_mem b) = seen_cls seen (b_mem b) -> non_ok (sizes ++ x) sn b.
Proof.
  intros sizes x seen sn b [a [H1 [[H2 H3] H4]]] Hs. exists a. split; [exact H1|].
  split; [split; apply szof_app_old; assumption | rewrite Hs; assumption].
Qed.

(* ---------------------------------------------------------------- consequences of the invariant *)
Lemma in_all_ids : forall st id, In id (all_ids st) <->
  (exists nd b, In nd (s_cache st) /\ In b (n_free nd ++ n_used nd) /\ (id = b_hdr b \/ id = b_mem b)) \/
  (exists b, In b (s_non st) /\ (id = b_hdr b \/ id = b_mem b)).
Proof.
  intros st id. unfold all_ids. rewrite in_app_iff, in_flat_map, in_bids. split.
  - intros [[nd [H1 H2]]|H]; [left|right; exact H]. unfold node_ids in H2. rewrite <- bids_app, in_bids in H2.
    destruct H2 as [b [H2 H3]]. exists nd, b. auto.
  - intros [[nd [b [H1 [H2 H3]]]]|H]; [left|right; exact H]. exists nd. split; [exact H1|].
    unfold node_ids. rewrite <- bids_app, in_bids. exists b. auto.
Qed.

Lemma all_ids_lt : forall st s id, R st s -> In id (all_ids st) -> id < s_next st.
Proof.
  intros st s id HR H. rewrite (r_next _ _ HR). apply in_all_ids in H.
  destruct H as [[nd [b [H1 [H2 H3]]]]|[b [H1 H3]]].
  - pose proof (r_nodes _ _ HR) as F. rewrite Forall_forall in F. destruct (F nd H1 b H2) as [[Ha Hb] _].
    destruct H3 as [->| ->]; eapply szof_lt; eauto.
  - pose proof (r_non _ _ HR) as F. rewrite Forall_forall in F. destruct (F b H1) as [a [_ [[Ha Hb] _]]].
    destruct H3 as [->| ->]; eapply szof_lt; eauto.
Qed.

Lemma live_in_all : forall st s id, R st s -> In id (ids_of (a_live s)) -> In id (all_ids st).
Proof.
  intros st s id HR H. apply ids_of_In_inv in H. destruct H as [off [req H]].
  pose proof (r_live_a _ _ HR _ H) as [_ Hloc]. simpl in Hloc. apply in_all_ids.
  destruct (cls req).
  - destruct Hloc as [nd [H1 [_ H3]]]. apply in_mems in H3. destruct H3 as [b [H3 H4]].
    left. exists nd, b. split; [exact H1|]. split; [apply in_app_iff; right; exact H3 | right; exact H4].
  - apply in_mems in Hloc. destruct Hloc as [b [H3 H4]]. right. exists b. auto.
Qed.

Lemma free_in_all : forall st id, in_free (s_cache st) id -> In id (all_ids st).
Proof.
  intros st id [nd [H1 H2]]. apply in_mems in H2. destruct H2 as [b [H2 H3]]. apply in_all_ids. left.
  exists nd, b. split; [exact H1|]. split; [apply in_app_iff; left; exact H2 | right; exact H3].
Qed.

Lemma seen_lt : forall st s id c, R st s -> In (id, c) (a_seen s) -> id < s_next st.
Proof.
  intros st s id c HR H. destruct (r_seen _ _ HR _ _ H) as [G|[G|G]].
  - exact (r_freed _ _ HR _ G).
  - eapply all_ids_lt; eauto. apply free_in_all. exact G.
  - eapply all_ids_lt; eauto. eapply live_in_all; eauto.
Qed.

Lemma next_pos : forall st s, R st s -> 0 < s_next st.
Proof. intros st s HR. rewrite (r_next _ _ HR). destruct (r_zero _ _ HR) as [H _]. apply szof_lt in H. exact H. Qed.

Lemma szof_new2 : forall sizes h sz,
  szof ((sizes ++ [h]) ++ [sz]) (N.of_nat (length sizes)) = Some h /\
  szof ((sizes ++ [h]) ++ [sz]) (N.of_nat (length sizes) + 1) = Some sz.
Proof.
  intros. split.
  - apply szof_app_old. apply szof_new.
  - replace (N.of_nat (length sizes) + 1) with (N.of_nat (length (sizes ++ [h]))); [apply szof_new|].
    rewrite app_length. simpl. lia.
Qed.

Lemma seen_cls_skip : forall seen id0 c id, id <> id0 -> seen_cls ((id0, c) :: seen) id = seen_cls seen id.
Proof. intros. simpl. replace (id =? id0) with false; [reflexivity|]. symmetry. apply N.eqb_neq. exact H. Qed.

Lemma in_used_mid : forall l1 nd nd' l2 id sz,
  n_size nd' = n_size nd -> (forall x, In x (mems (n_used nd)) -> In x (mems (n_used nd'))) ->
  in_used (l1 ++ nd :: l2) id sz -> in_used (l1 ++ nd' :: l2) id sz.
Proof.
  intros l1 nd nd' l2 id sz Hs Hu [x [H1 [H2 H3]]]. apply in_mid in H1. destruct H1 as [H1|[<-|H1]].
  - exists x. split; [apply in_mid; auto | auto].
  - exists nd'. split; [apply in_mid; auto|]. split; [congruence | apply Hu; exact H3].
  - exists x. split; [apply in_mid; auto | auto].
Qed.

Definition ptrs_ok (s s' : sstate) (x : out) : Prop :=
  match o_ret x with Some id => a_ptrs s' = a_ptrs s ++ [(id, 0)] | None => a_ptrs s' = a_ptrs s end.

(* ---------------------------------------------------------------- alloc *)
Lemma sim_alloc_reuse : forall st s n l1 nd l2 b fr,
  R st s -> s_cache st = l1 ++ nd :: l2 -> n_free nd = b :: fr -> n <= n_size nd -> cls n = Some (n_size nd) ->
  let st' := with_cache st (l1 ++ {| n_size := n_size nd; n_free := fr; n_used := b :: n_used nd |} :: l2) in
  exists s', check_alloc s n (item_of (mk_out [] (Some (b_mem b)) false)) = Some s' /\ R st' s' /\
             a_ptrs s' = a_ptrs s ++ [(b_mem b, 0)].
Proof.
  intros st s n l1 nd l2 b fr HR Hc Hfree Hle Hcls st'.
  set (nd' := {| n_size := n_size nd; n_free := fr; n_used := b :: n_used nd |}) in *.
  assert (Hnd : In nd (s_cache st)) by (rewrite Hc; apply in_mid; auto).
  assert (Hbf : In (b_mem b) (mems (n_free nd))) by (rewrite Hfree; left; reflexivity).
  pose proof (r_nodes _ _ HR) as Hnodes. rewrite Forall_forall in Hnodes.
  destruct (Hnodes nd Hnd b) as [[Hbh Hbm] Hbs]; [rewrite Hfree; left; reflexivity|].
  assert (Hball : In (b_mem b) (all_ids st)) by (apply free_in_all; exists nd; auto).
  destruct (r_ids _ _ HR _ Hball) as [_ Hnf].
  pose proof (free_not_live _ _ _ _ HR Hnd Hbf) as Hnl.
  assert (Hcnt : forall id, cnt (all_ids st') id = cnt (all_ids st) id).
  { intros id. unfold all_ids, st'. simpl. rewrite Hc, !flat_map_mid. unfold node_ids, nd'. simpl n_free. simpl n_used.
    rewrite Hfree. rewrite !cnt_app, !cnt_bids_cons. lia. }
  assert (Hin : forall id, In id (all_ids st') <-> In id (all_ids st)) by (intros; rewrite !cnt_In, Hcnt; tauto).
  exists (mk_s (a_bk s) ((b_mem b, 0, n) :: a_live s) (a_seen s) (a_warned s) (a_ptrs s ++ [(b_mem b, 0)])).
  split; [|split; [|reflexivity]].
  - unfold check_alloc, item_of. simpl. rewrite Hbm.
    replace (memN (b_mem b) (snd (a_bk s))) with false by (symmetry; apply memN_false; exact Hnf).
    replace (n <=? n_size nd) with true by (symmetry; apply N.leb_le; exact Hle). simpl.
    rewrite (overlaps_none _ _ _ _ Hnl). rewrite Hbs, Hcls. simpl. rewrite N.eqb_refl. reflexivity.
  - constructor; simpl.
    + rewrite <- (r_sizes _ _ HR), Hc. apply map_mid_size. reflexivity.
    + exact (r_next _ _ HR).
    + exact (r_warn _ _ HR).
    + intros id. rewrite Hcnt. exact (r_nodup _ _ HR id).
    + intros id H. apply Hin in H. exact (r_ids _ _ HR id H).
    + intros id H1 H2. destruct (r_out _ _ HR id H1 H2); [left; apply Hin; auto | right; auto].
    + exact (r_freed _ _ HR).
    + exact (r_fnd _ _ HR).
    + exact (r_zero _ _ HR).
    + pose proof (r_nodes _ _ HR) as F. rewrite Hc in F. apply Forall_mid in F. destruct F as [F1 [F2 F3]].
      apply Forall_mid. split; [exact F1|]. split; [|exact F3].
      intros b0 Hb0. apply (F2 b0). rewrite Hfree. unfold nd' in Hb0. simpl in Hb0.
      rewrite in_app_iff in *. simpl in *. tauto.
    + exact (r_non _ _ HR).
    + intros e [<-|He].
      * split; [reflexivity|]. simpl. rewrite Hcls. exists nd'. split; [apply in_mid; auto|]. split; [reflexivity | left; reflexivity].
      * destruct (r_live_a _ _ HR e He) as [H1 H2]. split; [exact H1|].
        destruct (cls (snd e)); [|exact H2]. rewrite Hc in H2. apply (in_used_mid l1 nd nd' l2); [reflexivity | intros x Hx; right; exact Hx | exact H2].
    + constructor; [exact Hnl | exact (r_live_nd _ _ HR)].
    + intros nd2 id H1 H2. apply in_mid in H1. destruct H1 as [H1|[<-|H1]].
      * destruct (r_live_b _ _ HR nd2 id) as [req [G1 G2]]; [rewrite Hc; apply in_mid; auto | exact H2|]. exists req. auto.
      * simpl in H2. destruct H2 as [<-|H2].
        -- exists n. split; [left; reflexivity | exact Hcls].
        -- destruct (r_live_b _ _ HR nd id Hnd H2) as [req [G1 G2]]. exists req. auto.
      * destruct (r_live_b _ _ HR nd2 id) as [req [G1 G2]]; [rewrite Hc; apply in_mid; auto | exact H2|]. exists req. auto.
    + intros id H. destruct (r_live_c _ _ HR id H) as [req [G1 G2]]. exists req. auto.
    + intros id c H. destruct (r_seen _ _ HR id c H) as [G|[G|G]]; [left; exact G| |right; right; right; exact G].
      destruct G as [nd2 [G1 G2]]. rewrite Hc in G1. apply in_mid in G1. destruct G1 as [G1|[<-|G1]].
      * right; left. exists nd2. split; [apply in_mid; auto | exact G2].
      * rewrite Hfree in G2. destruct G2 as [<-|G2]; [right; right; left; reflexivity|].
        right; left. exists nd'. split; [apply in_mid; auto | exact G2].
      * right; left. exists nd2. split; [apply in_mid; auto | exact G2].
Qed.

Definition pair_ids (a : N) : list N := [a; a + 1].
Lemma cnt_pair_le : forall (a id : N), (cnt (pair_ids a) id <= 1)%nat.
Proof. intros. unfold pair_ids. rewrite !cnt_cons, cnt_nil. destruct (N.eq_dec a id), (N.eq_dec (a + 1) id); simpl; lia. Qed.
Lemma cnt_pair_pos : forall (a id : N), (cnt (pair_ids a) id > 0)%nat <-> id = a \/ id = a + 1.
Proof. intros. unfold pair_ids. rewrite !cnt_cons, cnt_nil. destruct (N.eq_dec a id), (N.eq_dec (a + 1) id); simpl; lia. Qed.

Lemma sim_alloc_new : forall st s n l1 nd l2,
  R st s -> s_cache st = l1 ++ nd :: l2 -> n_free nd = [] -> n <= n_size nd -> cls n = Some (n_size nd) ->
  let nx := s_next st in
  let b := {| b_hdr := nx; b_mem := nx + 1 |} in
  let st' := {| s_cache := l1 ++ {| n_size := n_size nd; n_free := []; n_used := b :: n_used nd |} :: l2;
                s_non := s_non st; s_warned := s_warned st; s_next := nx + 2 |} in
  exists s', check_alloc s n (item_of (mk_out [EA nx block_hdr_size; EA (nx + 1) (n_size nd)] (Some (nx + 1)) false)) = Some s' /\
             R st' s' /\ a_ptrs s' = a_ptrs s ++ [(nx + 1, 0)].
Proof.
  intros st s n l1 nd l2 HR Hc Hfree Hle Hcls nx b st'.
  set (nd' := {| n_size := n_size nd; n_free := []; n_used := b :: n_used nd |}) in *.
  destruct s as [[sizes freed] live seen warned ptrs].
  assert (Hnx : nx = N.of_nat (length sizes)) by exact (r_next _ _ HR).
  assert (Hnd : In nd (s_cache st)) by (rewrite Hc; apply in_mid; auto).
  assert (Hlt : forall id, In id (all_ids st) -> id < nx) by (intros; eapply all_ids_lt; eauto).
  assert (Hpos : 0 < nx) by (eapply next_pos; eauto).
  assert (Hfl : forall id, In id freed -> id < nx) by exact (r_freed _ _ HR).
  assert (Hll : forall id, In id (ids_of live) -> id < nx).
  { intros id H. apply Hlt. eapply live_in_all; eauto. }
  assert (Hsl : forall id c, In (id, c) seen -> id < nx) by (intros; eapply seen_lt; eauto).
  assert (Hcnt : forall id, cnt (all_ids st') id = (cnt (pair_ids nx) id + cnt (all_ids st) id)%nat).
  { intros id. unfold all_ids, st'. cbn [s_cache s_non]. rewrite Hc, !flat_map_mid. unfold node_ids, nd'. cbn [n_free n_used].
    rewrite Hfree. rewrite !cnt_app, !cnt_bids_cons. cbn [b_hdr b_mem b]. fold (pair_ids nx). lia. }
  assert (Hin : forall id, In id (all_ids st') <-> (id = nx \/ id = nx + 1) \/ In id (all_ids st)).
  { intros id. rewrite !cnt_In, Hcnt. rewrite <- cnt_pair_pos. lia. }
  destruct (szof_new2 sizes block_hdr_size (n_size nd)) as [Hz1 Hz2]. rewrite <- Hnx in Hz1, Hz2.
  set (sizes' := (sizes ++ [block_hdr_size]) ++ [n_size nd]) in *.
  assert (Hold : forall id a, szof sizes id = Some a -> szof sizes' id = Some a).
  { intros id a H. unfold sizes'. apply szof_app_old. apply szof_app_old. exact H. }
  assert (Hseen : forall id, id < nx -> seen_cls ((nx + 1, cls n) :: seen) id = seen_cls seen id).
  { intros id H. apply seen_cls_skip. lia. }
  exists (mk_s (sizes', freed) ((nx + 1, 0, n) :: live) ((nx + 1, cls n) :: seen) warned (ptrs ++ [(nx + 1, 0)])).
  split; [|split; [|reflexivity]].
  - unfold check_alloc, item_of. cbn [i_evs i_ret i_warn o_evs o_ret o_warn mk_out a_bk a_live a_seen a_warned a_ptrs].
    rewrite Hnx at 1 2. rewrite apply_create. fold sizes'. cbn [fst snd]. rewrite Hz2.
    replace (memN (nx + 1) freed) with false by (symmetry; apply memN_false; intros G; apply Hfl in G; lia).
    replace (0 + n <=? n_size nd) with true by (symmetry; apply N.leb_le; lia). cbn [negb].
    rewrite overlaps_none by (intros G; apply Hll in G; lia).
    rewrite seen_cls_None by (intros c G; apply Hsl in G; lia). reflexivity.
  - constructor; cbn [s_cache s_non s_warned s_next st' a_bk a_live a_seen a_warned a_ptrs mk_s fst snd].
    + rewrite <- (r_sizes _ _ HR), Hc. apply map_mid_size. reflexivity.
    + unfold sizes'. rewrite !app_length. simpl. lia.
    + exact (r_warn _ _ HR).
    + intros id. rewrite Hcnt. pose proof (cnt_pair_le nx id). pose proof (r_nodup _ _ HR id).
      destruct (Nat.eq_dec (cnt (pair_ids nx) id) 0) as [E|E]; [lia|].
      assert (G : (cnt (pair_ids nx) id > 0)%nat) by lia. apply cnt_pair_pos in G.
      assert (cnt (all_ids st) id = O); [|lia]. apply cnt_notIn. intros K. apply Hlt in K. lia.
    + intros id H. apply Hin in H. destruct H as [H|H]; [|exact (r_ids _ _ HR id H)].
      split; [lia|]. intros G. apply Hfl in G. lia.
    + intros id H1 H2. destruct (N.lt_ge_cases id nx) as [G|G].
      * destruct (r_out _ _ HR id H1 G) as [K|K]; [left; apply Hin; auto | right; exact K].
      * left. apply Hin. left. lia.
    + intros id H. apply Hfl in H. lia.
    + exact (r_fnd _ _ HR).
    + destruct (r_zero _ _ HR) as [H1 H2]. split; [apply Hold; exact H1 | exact H2].
    + pose proof (r_nodes _ _ HR) as F. simpl in F. rewrite Hc in F. apply Forall_mid in F. destruct F as [F1 [F2 F3]].
      assert (W : forall x, In x (s_cache st) -> node_ok sizes seen x -> node_ok sizes' ((nx + 1, cls n) :: seen) x).
      { intros x Hx Hok. unfold sizes'. rewrite <- app_assoc. apply node_ok_grow with (seen := seen); [exact Hok|].
        intros b0 Hb0. apply Hseen. apply Hlt. apply in_all_ids. left. exists x, b0. auto. }
      apply Forall_mid. split; [|split].
      * rewrite Forall_forall in *. intros x Hx. apply W; [rewrite Hc; apply in_mid; auto | apply F1; exact Hx].
      * intros b0 Hb0. unfold nd' in Hb0. simpl in Hb0. destruct Hb0 as [<-|Hb0].
        -- simpl. split; [split; assumption|]. rewrite N.eqb_refl. rewrite Hcls. reflexivity.
        -- apply (W nd Hnd F2 b0). rewrite Hfree. simpl. exact Hb0.
      * rewrite Forall_forall in *. intros x Hx. apply W; [rewrite Hc; apply in_mid; auto | apply F3; exact Hx].
    + pose proof (r_non _ _ HR) as F. simpl in F. rewrite Forall_forall in *. intros b0 Hb0.
      unfold sizes'. rewrite <- app_assoc. apply non_ok_grow with (seen := seen); [apply F; exact Hb0|].
      apply Hseen. apply Hlt. apply in_all_ids. right. exists b0. auto.
    + intros e [<-|He].
      * split; [reflexivity|]. simpl. rewrite Hcls. exists nd'. split; [apply in_mid; auto|]. split; [reflexivity | left; reflexivity].
      * destruct (r_live_a _ _ HR e He) as [H1 H2]. split; [exact H1|]. simpl in H2.
        destruct (cls (snd e)); [|exact H2]. rewrite Hc in H2.
        apply (in_used_mid l1 nd nd' l2); [reflexivity | intros x Hx; right; exact Hx | exact H2].
    + change (NoDup ((nx + 1) :: ids_of live)). constructor; [intros G; apply Hll in G; lia | exact (r_live_nd _ _ HR)].
    + intros nd2 id H1 H2. apply in_mid in H1. destruct H1 as [H1|[<-|H1]].
      * destruct (r_live_b _ _ HR nd2 id) as [req [G1 G2]]; [rewrite Hc; apply in_mid; auto | exact H2|]. exists req. split; [right; exact G1 | exact G2].
      * simpl in H2. destruct H2 as [<-|H2].
        -- exists n. split; [left; reflexivity | exact Hcls].
        -- destruct (r_live_b _ _ HR nd id Hnd H2) as [req [G1 G2]]. exists req. split; [right; exact G1 | exact G2].
      * destruct (r_live_b _ _ HR nd2 id) as [req [G1 G2]]; [rewrite Hc; apply in_mid; auto | exact H2|]. exists req. split; [right; exact G1 | exact G2].
    + intros id H. destruct (r_live_c _ _ HR id H) as [req [G1 G2]]. exists req. split; [right; exact G1 | exact G2].
    + intros id c [H|H].
      * inversion H; subst. right; right; left; reflexivity.
      * destruct (r_seen _ _ HR id c H) as [G|[G|G]]; [left; exact G| |right; right; right; exact G].
        destruct G as [nd2 [G1 G2]]. simpl in G1. rewrite Hc in G1. apply in_mid in G1. destruct G1 as [G1|[<-|G1]].
        -- right; left. exists nd2. split; [apply in_mid; auto | exact G2].
        -- rewrite Hfree in G2. destruct G2.
        -- right; left. exists nd2. split; [apply in_mid; auto | exact G2].
Qed.

Lemma sim_alloc_non : forall st s n,
  R st s -> is_cached n = false ->
  let nx := s_next st in
  let b := {| b_hdr := nx; b_mem := nx + 1 |} in
  let st' := {| s_cache := s_cache st; s_non := b :: s_non st; s_warned := s_warned st; s_next := nx + 2 |} in
  exists s', check_alloc s n (item_of (mk_out [EA nx block_hdr_size; EA (nx + 1) n] (Some (nx + 1)) false)) = Some s' /\
             R st' s' /\ a_ptrs s' = a_ptrs s ++ [(nx + 1, 0)].
Proof.
  intros st s n HR Hnc nx b st'.
  pose proof (cls_not_cached n Hnc) as Hcls.
  assert (Hbig : cached_bound < n) by (unfold is_cached in Hnc; apply N.leb_gt in Hnc; exact Hnc).
  destruct s as [[sizes freed] live seen warned ptrs].
  assert (Hnx : nx = N.of_nat (length sizes)) by exact (r_next _ _ HR).
  assert (Hlt : forall id, In id (all_ids st) -> id < nx) by (intros; eapply all_ids_lt; eauto).
  assert (Hpos : 0 < nx) by (eapply next_pos; eauto).
  assert (Hfl : forall id, In id freed -> id < nx) by exact (r_freed _ _ HR).
  assert (Hll : forall id, In id (ids_of live) -> id < nx).
  { intros id H. apply Hlt. eapply live_in_all; eauto. }
  assert (Hsl : forall id c, In (id, c) seen -> id < nx) by (intros; eapply seen_lt; eauto).
  assert (Hcnt : forall id, cnt (all_ids st') id = (cnt (pair_ids nx) id + cnt (all_ids st) id)%nat).
  { intros id. unfold all_ids, st'. cbn [s_cache s_non]. rewrite !cnt_app, !cnt_bids_cons. cbn [b_hdr b_mem b].
    fold (pair_ids nx). lia. }
  assert (Hin : forall id, In id (all_ids st') <-> (id = nx \/ id = nx + 1) \/ In id (all_ids st)).
  { intros id. rewrite !cnt_In, Hcnt. rewrite <- cnt_pair_pos. lia. }
  destruct (szof_new2 sizes block_hdr_size n) as [Hz1 Hz2]. rewrite <- Hnx in Hz1, Hz2.
  set (sizes' := (sizes ++ [block_hdr_size]) ++ [n]) in *.
  assert (Hold : forall id a, szof sizes id = Some a -> szof sizes' id = Some a).
  { intros id a H. unfold sizes'. apply szof_app_old. apply szof_app_old. exact H. }
  assert (Hseen : forall id, id < nx -> seen_cls ((nx + 1, cls n) :: seen) id = seen_cls seen id).
  { intros id H. apply seen_cls_skip. lia. }
  exists (mk_s (sizes', freed) ((nx + 1, 0, n) :: live) ((nx + 1, cls n) :: seen) warned (ptrs ++ [(nx + 1, 0)])).
  split; [|split; [|reflexivity]].
  - unfold check_alloc, item_of. cbn [i_evs i_ret i_warn o_evs o_ret o_warn mk_out a_bk a_live a_seen a_warned a_ptrs].
    rewrite Hnx at 1 2. rewrite apply_create. fold sizes'. cbn [fst snd]. rewrite Hz2.
    replace (memN (nx + 1) freed) with false by (symmetry; apply memN_false; intros G; apply Hfl in G; lia).
    replace (0 + n <=? n) with true by (symmetry; apply N.leb_le; lia). cbn [negb].
    rewrite overlaps_none by (intros G; apply Hll in G; lia).
    rewrite seen_cls_None by (intros c G; apply Hsl in G; lia). reflexivity.
  - constructor; cbn [s_cache s_non s_warned s_next st' a_bk a_live a_seen a_warned a_ptrs mk_s fst snd].
    + exact (r_sizes _ _ HR).
    + unfold sizes'. rewrite !app_length. simpl. lia.
    + exact (r_warn _ _ HR).
    + intros id. rewrite Hcnt. pose proof (cnt_pair_le nx id). pose proof (r_nodup _ _ HR id).
      destruct (Nat.eq_dec (cnt (pair_ids nx) id) 0) as [E|E]; [lia|].
      assert (G : (cnt (pair_ids nx) id > 0)%nat) by lia. apply cnt_pair_pos in G.
      assert (cnt (all_ids st) id = O); [|lia]. apply cnt_notIn. intros K. apply Hlt in K. lia.
    + intros id H. apply Hin in H. destruct H as [H|H]; [|exact (r_ids _ _ HR id H)].
      split; [lia|]. intros G. apply Hfl in G. lia.
    + intros id H1 H2. destruct (N.lt_ge_cases id nx) as [G|G].
      * destruct (r_out _ _ HR id H1 G) as [K|K]; [left; apply Hin; auto | right; exact K].
      * left. apply Hin. left. lia.
    + intros id H. apply Hfl in H. lia.
    + exact (r_fnd _ _ HR).
    + destruct (r_zero _ _ HR) as [H1 H2]. split; [apply Hold; exact H1 | exact H2].
    + pose proof (r_nodes _ _ HR) as F. simpl in F. rewrite Forall_forall in *. intros x Hx.
      unfold sizes'. rewrite <- app_assoc. apply node_ok_grow with (seen := seen); [apply F; exact Hx|].
      intros b0 Hb0. apply Hseen. apply Hlt. apply in_all_ids. left. exists x, b0. auto.
    + pose proof (r_non _ _ HR) as F. simpl in F. constructor.
      * exists n. split; [exact Hbig|]. split; [split; assumption|]. simpl. rewrite N.eqb_refl. rewrite Hcls. reflexivity.
      * rewrite Forall_forall in *. intros b0 Hb0.
        unfold sizes'. rewrite <- app_assoc. apply non_ok_grow with (seen := seen); [apply F; exact Hb0|].
        apply Hseen. apply Hlt. apply in_all_ids. right. exists b0. auto.
    + intros e [<-|He].
      * split; [reflexivity|]. simpl. rewrite Hcls. left. reflexivity.
      * destruct (r_live_a _ _ HR e He) as [H1 H2]. split; [exact H1|]. simpl in H2.
        destruct (cls (snd e)); [exact H2 | right; exact H2].
    + change (NoDup ((nx + 1) :: ids_of live)). constructor; [intros G; apply Hll in G; lia | exact (r_live_nd _ _ HR)].
    + intros nd2 id H1 H2. destruct (r_live_b _ _ HR nd2 id H1 H2) as [req [G1 G2]]. exists req. split; [right; exact G1 | exact G2].
    + intros id [<-|H].
      * exists n. split; [left; reflexivity | exact Hcls].
      * destruct (r_live_c _ _ HR id H) as [req [G1 G2]]. exists req. split; [right; exact G1 | exact G2].
    + intros id c [H|H].
      * inversion H; subst. right; right; left; reflexivity.
      * destruct (r_seen _ _ HR id c H) as [G|[G|G]]; [left; exact G | right; left; exact G | right; right; right; exact G].
Qed.

Lemma sim_alloc : forall st s n, R st s ->
  exists s', check_alloc s n (item_of (snd (alloc st n))) = Some s' /\ R (fst (alloc st n)) s' /\ ptrs_ok s s' (snd (alloc st n)).
Proof.
  intros st s n HR. unfold alloc. destruct (is_cached n) eqn:Hc.
  - destruct (class_lookup _ n (r_sizes _ _ HR) Hc) as [l1 [nd [l2 [Hsplit [Hnth [Hset [Hle Hcls]]]]]]].
    rewrite Hnth. destruct (n_free nd) as [|b fr] eqn:Hfree.
    + unfold create_block. rewrite Hset. cbn [fst snd].
      destruct (sim_alloc_new st s n l1 nd l2 HR Hsplit Hfree Hle Hcls) as [s' [H1 [H2 H3]]].
      exists s'. split; [exact H1|]. split; [exact H2 | exact H3].
    + rewrite Hset. cbn [fst snd].
      destruct (sim_alloc_reuse st s n l1 nd l2 b fr HR Hsplit Hfree Hle Hcls) as [s' [H1 [H2 H3]]].
      exists s'. split; [exact H1|]. split; [exact H2 | exact H3].
  - unfold create_block. cbn [fst snd].
    destruct (sim_alloc_non st s n HR Hc) as [s' [H1 [H2 H3]]].
    exists s'. split; [exact H1|]. split; [exact H2 | exact H3].
Qed.

(* ---------------------------------------------------------------- the list of buffers in use *)
Lemma find_live_In : forall l id off req, find_live l id off = Some req -> In (id, off, req) l.
Proof.
  induction l as [|[[i o] r] l IH]; intros id off req H; simpl in H; [discriminate|].
  destruct ((id =? i) && (off =? o)) eqn:E.
  - apply andb_true_iff in E. destruct E as [E1 E2]. apply N.eqb_eq in E1. apply N.eqb_eq in E2. inversion H; subst. left; reflexivity.
  - right. apply IH. exact H.
Qed.
Lemma find_live_unique : forall l id off req, NoDup (ids_of l) -> In (id, off, req) l -> find_live l id off = Some req.
Proof.
  induction l as [|[[i o] r] l IH]; intros id off req Hn H; [destruct H|]. simpl in Hn. inversion Hn as [|? ? Hh Hr]; subst.
  simpl. destruct H as [H|H].
  - inversion H; subst. rewrite !N.eqb_refl. reflexivity.
  - replace (id =? i) with false; [simpl; apply IH; assumption|].
    symmetry. apply N.eqb_neq. intros E. subst. apply Hh. apply (ids_of_In l (i, off, req)). exact H.
Qed.
Lemma drop_live_spec : forall l id off req, NoDup (ids_of l) -> In (id, off, req) l ->
  (forall e, In e (drop_live l id off) <-> In e l /\ fst (fst e) <> id) /\ NoDup (ids_of (drop_live l id off)).
Proof.
  induction l as [|[[i o] r] l IH]; intros id off req Hn H; [destruct H|]. simpl in Hn. inversion Hn as [|? ? Hh Hr]; subst.
  simpl. destruct H as [H|H].
  - inversion H; subst. rewrite !N.eqb_refl. simpl. split; [|exact Hr].
    intros e. split.
    + intros He. split; [right; exact He|]. intros E. apply Hh. rewrite <- E. apply ids_of_In. exact He.
    + intros [[He|He] Hne]; [subst; simpl in Hne; congruence | exact He].
  - assert (Hne : id <> i). { intros E. subst. apply Hh. apply (ids_of_In l (i, off, req)). exact H. }
    replace (id =? i) with false by (symmetry; apply N.eqb_neq; exact Hne). simpl.
    destruct (IH id off req Hr H) as [H1 H2]. split.
    + intros e. simpl. rewrite H1. split.
      * intros [<-|[G1 G2]]; [split; [left; reflexivity | simpl; congruence] | split; [right; exact G1 | exact G2]].
      * intros [[<-|G1] G2]; [left; reflexivity | right; split; assumption].
    + simpl. constructor; [|exact H2]. intros G. apply ids_of_In_inv in G. destruct G as [o' [r' G]].
      apply H1 in G. destruct G as [G _]. apply Hh. apply (ids_of_In l (i, o', r')). exact G.
Qed.

(* ---------------------------------------------------------------- headers are never buffers *)
Definition all_blocks (st : state) : list block := flat_map (fun nd => n_free nd ++ n_used nd) (s_cache st) ++ s_non st.
Lemma all_ids_blocks : forall st, all_ids st = bids (all_blocks st).
Proof.
  intros st. unfold all_ids, all_blocks. rewrite bids_app. f_equal.
  induction (s_cache st) as [|nd r IH]; [reflexivity|]. simpl. rewrite bids_app, IH. unfold node_ids. rewrite bids_app. reflexivity.
Qed.
Lemma in_all_blocks : forall st b, In b (all_blocks st) <->
  (exists nd, In nd (s_cache st) /\ In b (n_free nd ++ n_used nd)) \/ In b (s_non st).
Proof. intros. unfold all_blocks. rewrite in_app_iff, in_flat_map. tauto. Qed.
Lemma hdr_mem_cnt : forall l b b2, In b l -> In b2 l -> b_hdr b = b_mem b2 -> (cnt (bids l) (b_hdr b) >= 2)%nat.
Proof.
  induction l as [|h r IH]; intros b b2 H1 H2 E; [destruct H1|]. rewrite cnt_bids_cons, !cnt_cons, cnt_nil.
  destruct H1 as [<-|H1], H2 as [<-|H2].
  - rewrite E. destruct (N.eq_dec (b_mem h) (b_mem h)); [|congruence]. rewrite <- E.
    destruct (N.eq_dec (b_hdr h) (b_hdr h)); [|congruence]. simpl. lia.
  - destruct (N.eq_dec (b_hdr h) (b_hdr h)); [|congruence].
    assert ((cnt (bids r) (b_hdr h) >= 1)%nat). { rewrite E. apply cnt_mems_bids. apply in_mems. exists b2. auto. } lia.
  - destruct (N.eq_dec (b_mem h) (b_hdr b)); [|congruence].
    assert ((cnt (bids r) (b_hdr b) >= 1)%nat). { apply cnt_In. apply in_bids. exists b. auto. } lia.
  - specialize (IH b b2 H1 H2 E). lia.
Qed.
Lemma live_is_mem : forall st s id, R st s -> In id (ids_of (a_live s)) -> exists b2, In b2 (all_blocks st) /\ id = b_mem b2.
Proof.
  intros st s id HR H. apply ids_of_In_inv in H. destruct H as [off [req H]].
  pose proof (r_live_a _ _ HR _ H) as [_ Hloc]. simpl in Hloc.
  destruct (cls req).
  - destruct Hloc as [nd [H1 [_ H3]]]. apply in_mems in H3. destruct H3 as [b [H3 H4]].
    exists b. split; [|exact H4]. apply in_all_blocks. left. exists nd. split; [exact H1 | apply in_app_iff; right; exact H3].
  - apply in_mems in Hloc. destruct Hloc as [b [H3 H4]]. exists b. split; [|exact H4]. apply in_all_blocks. right. exact H3.
Qed.
Lemma hdr_not_live : forall st s b, R st s -> In b (all_blocks st) -> ~ In (b_hdr b) (ids_of (a_live s)).
Proof.
  intros st s b HR Hb Hl. destruct (live_is_mem _ _ _ HR Hl) as [b2 [H1 H2]].
  pose proof (hdr_mem_cnt _ b b2 Hb H1 H2) as G. rewrite <- all_ids_blocks in G.
  pose proof (r_nodup _ _ HR (b_hdr b)). lia.
Qed.

Lemma unlink_foreign : forall l k, unlink l (PFor k) = None.
Proof.
  intros l k. rewrite unlink_remove_first. induction l as [|h r IH]; [reflexivity|]. simpl. rewrite IH. reflexivity.
Qed.

(* ---------------------------------------------------------------- dealloc *)
Lemma sim_unknown : forall st s po n, R st s -> known s po n = false ->
  exists s', check_dealloc s po n (item_of (snd (unknown_release st))) = Some s' /\ R (fst (unknown_release st)) s' /\
             a_ptrs s' = a_ptrs s.
Proof.
  intros st s po n HR Hk.
  exists (mk_s (a_bk s) (a_live s) (a_seen s) true (a_ptrs s)). split; [|split; [|reflexivity]].
  - unfold check_dealloc, unknown_release, item_of. simpl. rewrite Hk. rewrite (r_warn _ _ HR). rewrite Bool.eqb_reflx. reflexivity.
  - destruct HR. constructor; simpl; auto.
Qed.

Definition ptr_rel (p : ptr) (po : option (N * N)) : Prop :=
  match p with PId id => po = Some (id, 0) | PFor _ => po = None end.

Lemma known_found : forall s id req n, NoDup (ids_of (a_live s)) -> In (id, 0, req) (a_live s) -> cls req = cls n ->
  known s (Some (id, 0)) n = true.
Proof.
  intros s id req n Hn Hi Hc. unfold known. rewrite (find_live_unique _ _ _ _ Hn Hi). rewrite Hc.
  destruct (cls n); simpl; [apply N.eqb_refl | reflexivity].
Qed.
Lemma optN_eqb_eq : forall a b, optN_eqb a b = true -> a = b.
Proof. intros [a|] [b|] H; simpl in H; try discriminate; [apply N.eqb_eq in H; subst|]; reflexivity. Qed.

Lemma sim_dealloc_cached_found : forall st s n l1 nd l2 id b u1 u2,
  R st s -> s_cache st = l1 ++ nd :: l2 -> cls n = Some (n_size nd) -> n_used nd = u1 ++ b :: u2 -> b_mem b = id ->
  let st' := with_cache st (l1 ++ {| n_size := n_size nd; n_free := b :: n_free nd; n_used := u1 ++ u2 |} :: l2) in
  exists s', check_dealloc s (Some (id, 0)) n (item_of (mk_out [] None false)) = Some s' /\ R st' s' /\ a_ptrs s' = a_ptrs s.
Proof.
  intros st s n l1 nd l2 id b u1 u2 HR Hc Hcls Hused Hid st'.
  set (nd' := {| n_size := n_size nd; n_free := b :: n_free nd; n_used := u1 ++ u2 |}) in *.
  assert (Hnd : In nd (s_cache st)) by (rewrite Hc; apply in_mid; auto).
  assert (Hbu : In id (mems (n_used nd))) by (rewrite Hused; apply in_mems; exists b; split; [apply in_mid; auto | auto]).
  destruct (r_live_b _ _ HR nd id Hnd Hbu) as [req [Hl1 Hl2]].
  destruct (drop_live_spec _ _ _ _ (r_live_nd _ _ HR) Hl1) as [Hd1 Hd2].
  assert (Hcnt : forall x, cnt (all_ids st') x = cnt (all_ids st) x).
  { intros x. unfold all_ids, st'. cbn [with_cache s_cache s_non]. rewrite Hc, !flat_map_mid. unfold node_ids, nd'. cbn [n_free n_used].
    rewrite Hused. rewrite !cnt_app, !cnt_bids_cons, !cnt_bids_app, !cnt_bids_cons. lia. }
  assert (Hin : forall x, In x (all_ids st') <-> In x (all_ids st)) by (intros; rewrite !cnt_In, Hcnt; tauto).
  (* the released buffer occurs once in the used list *)
  assert (Hone : ~ In id (mems (u1 ++ u2))).
  { intros G. pose proof (r_nodup _ _ HR id) as K. unfold all_ids in K. rewrite Hc, flat_map_mid in K.
    unfold node_ids at 2 in K. rewrite Hused in K. rewrite !cnt_app, !cnt_bids_app, cnt_bids_cons, !cnt_cons in K.
    unfold mems in G. rewrite map_app, in_app_iff in G. fold (mems u1) in G. fold (mems u2) in G.
    destruct (N.eq_dec (b_mem b) id); [|congruence].
    destruct G as [G|G]; apply cnt_mems_bids in G; lia. }
  exists (mk_s (a_bk s) (drop_live (a_live s) id 0) (a_seen s) (a_warned s) (a_ptrs s)).
  split; [|split; [|reflexivity]].
  - unfold check_dealloc, item_of. cbn [i_evs i_ret i_warn o_evs o_ret o_warn mk_out].
    rewrite (known_found s id req n (r_live_nd _ _ HR) Hl1) by congruence. reflexivity.
  - constructor; cbn [st' with_cache s_cache s_non s_warned s_next a_bk a_live a_seen a_warned a_ptrs mk_s].
    + rewrite <- (r_sizes _ _ HR), Hc. apply map_mid_size. reflexivity.
    + exact (r_next _ _ HR).
    + exact (r_warn _ _ HR).
    + intros x. rewrite Hcnt. exact (r_nodup _ _ HR x).
    + intros x H. apply Hin in H. exact (r_ids _ _ HR x H).
    + intros x H1 H2. destruct (r_out _ _ HR x H1 H2); [left; apply Hin; auto | right; auto].
    + exact (r_freed _ _ HR).
    + exact (r_fnd _ _ HR).
    + exact (r_zero _ _ HR).
    + pose proof (r_nodes _ _ HR) as F. rewrite Hc in F. apply Forall_mid in F. destruct F as [F1 [F2 F3]].
      apply Forall_mid. split; [exact F1|]. split; [|exact F3].
      intros b0 Hb0. apply (F2 b0). rewrite Hused. unfold nd' in Hb0. cbn [n_free n_used n_size] in Hb0.
      rewrite !in_app_iff in Hb0 |- *. simpl in Hb0 |- *. tauto.
    + exact (r_non _ _ HR).
    + intros e He. apply Hd1 in He. destruct He as [He Hne].
      destruct (r_live_a _ _ HR e He) as [H1 H2]. split; [exact H1|].
      destruct (cls (snd e)) as [sz|]; [|exact H2].
      destruct H2 as [nd2 [G1 [G2 G3]]]. rewrite Hc in G1. apply in_mid in G1. destruct G1 as [G1|[<-|G1]].
      * exists nd2. split; [apply in_mid; auto | auto].
      * exists nd'. split; [apply in_mid; auto|]. split; [exact G2|]. cbn [nd' n_used].
        rewrite Hused in G3. unfold mems in *. rewrite map_app in *. simpl in G3. rewrite in_app_iff in *. simpl in G3.
        destruct G3 as [G3|[G3|G3]]; [auto | congruence | auto].
      * exists nd2. split; [apply in_mid; auto | auto].
    + exact Hd2.
    + intros nd2 x H1 H2. apply in_mid in H1.
      assert (Hx : forall req', In (x, 0, req') (a_live s) -> x <> id -> In (x, 0, req') (drop_live (a_live s) id 0)).
      { intros req' G1 G2. apply Hd1. split; [exact G1 | exact G2]. }
      destruct H1 as [H1|[<-|H1]].
      * destruct (r_live_b _ _ HR nd2 x) as [req' [G1 G2]]; [rewrite Hc; apply in_mid; auto | exact H2|].
        exists req'. split; [apply Hx; [exact G1|] | exact G2]. intros E. subst x.
        (* id would be in two used lists *)
        pose proof (r_nodup _ _ HR id) as K. unfold all_ids in K. rewrite Hc, flat_map_mid, !cnt_app in K.
        pose proof (cnt_fm_ge l1 nd2 id H1) as K1. unfold node_ids in K1 at 1. rewrite in_app_iff in K1.
        assert ((cnt (flat_map node_ids l1) id >= 1)%nat) by (apply K1; right; apply mems_bids; exact H2).
        assert ((cnt (node_ids nd) id >= 1)%nat) by (apply cnt_In; unfold node_ids; rewrite in_app_iff; right; apply mems_bids; exact Hbu).
        lia.
      * cbn [nd' n_used] in H2.
        assert (Hxu : In x (mems (n_used nd))).
        { rewrite Hused. unfold mems in *. rewrite map_app in *. simpl. rewrite in_app_iff in *. simpl. tauto. }
        destruct (r_live_b _ _ HR nd x Hnd Hxu) as [req' [G1 G2]].
        exists req'. split; [apply Hx; [exact G1|] | exact G2]. intros E. subst x. exact (Hone H2).
      * destruct (r_live_b _ _ HR nd2 x) as [req' [G1 G2]]; [rewrite Hc; apply in_mid; auto | exact H2|].
        exists req'. split; [apply Hx; [exact G1|] | exact G2]. intros E. subst x.
        pose proof (r_nodup _ _ HR id) as K. unfold all_ids in K. rewrite Hc, flat_map_mid, !cnt_app in K.
        pose proof (cnt_fm_ge l2 nd2 id H1) as K1. unfold node_ids in K1 at 1. rewrite in_app_iff in K1.
        assert ((cnt (flat_map node_ids l2) id >= 1)%nat) by (apply K1; right; apply mems_bids; exact H2).
        assert ((cnt (node_ids nd) id >= 1)%nat) by (apply cnt_In; unfold node_ids; rewrite in_app_iff; right; apply mems_bids; exact Hbu).
        lia.
    + intros x H. destruct (r_live_c _ _ HR x H) as [req' [G1 G2]]. exists req'. split; [|exact G2].
      apply Hd1. split; [exact G1|]. simpl. intros E. subst x.
      pose proof (r_nodup _ _ HR id) as K. unfold all_ids in K. rewrite !cnt_app in K.
      assert ((cnt (flat_map node_ids (s_cache st)) id >= 1)%nat).
      { apply (cnt_fm_ge _ nd id Hnd). unfold node_ids. rewrite in_app_iff. right. apply mems_bids. exact Hbu. }
      apply cnt_mems_bids in H. lia.
    + intros x c H. destruct (r_seen _ _ HR x c H) as [G|[G|G]]; [left; exact G| |].
      * right; left. destruct G as [nd2 [G1 G2]]. rewrite Hc in G1. apply in_mid in G1. destruct G1 as [G1|[<-|G1]].
        -- exists nd2. split; [apply in_mid; auto | exact G2].
        -- exists nd'. split; [apply in_mid; auto | right; exact G2].
        -- exists nd2. split; [apply in_mid; auto | exact G2].
      * destruct (N.eq_dec x id) as [E|E].
        -- subst x. right; left. exists nd'. split; [apply in_mid; auto | left; exact Hid].
        -- right; right. apply ids_of_In_inv in G. destruct G as [o' [r' G]].
           apply (ids_of_In _ (x, o', r')). apply Hd1. split; [exact G | exact E].
Qed.

Lemma sim_dealloc_non_found : forall st s n id b u1 u2,
  R st s -> is_cached n = false -> s_non st = u1 ++ b :: u2 -> b_mem b = id ->
  let st' := {| s_cache := s_cache st; s_non := u1 ++ u2; s_warned := s_warned st; s_next := s_next st |} in
  exists s', check_dealloc s (Some (id, 0)) n (item_of (mk_out (destroy_block n b) None false)) = Some s' /\ R st' s' /\
             a_ptrs s' = a_ptrs s.
Proof.
  intros st s n id b u1 u2 HR Hnc Hnon Hid st'.
  pose proof (cls_not_cached n Hnc) as Hcls.
  assert (Hbn : In b (s_non st)) by (rewrite Hnon; apply in_mid; auto).
  assert (Hbu : In id (mems (s_non st))) by (apply in_mems; exists b; auto).
  destruct (r_live_c _ _ HR id Hbu) as [req [Hl1 Hl2]].
  destruct (drop_live_spec _ _ _ _ (r_live_nd _ _ HR) Hl1) as [Hd1 Hd2].
  pose proof (r_non _ _ HR) as Fn. rewrite Forall_forall in Fn. destruct (Fn b Hbn) as [a [Ha [[Hbh Hbm] Hbs]]].
  assert (Hcnt : forall x, cnt (all_ids st) x = (cnt [b_hdr b; b_mem b] x + cnt (all_ids st') x)%nat).
  { intros x. unfold all_ids, st'. cbn [s_cache s_non]. rewrite Hnon. rewrite !cnt_app, !cnt_bids_app, !cnt_bids_cons. lia. }
  assert (Hball : forall x, In x [b_hdr b; b_mem b] -> In x (all_ids st)).
  { intros x Hx. apply cnt_In. rewrite Hcnt. apply cnt_In in Hx. lia. }
  assert (Hsub : forall x, In x (all_ids st') -> In x (all_ids st) /\ ~ In x [b_hdr b; b_mem b]).
  { intros x Hx. apply cnt_In in Hx. pose proof (r_nodup _ _ HR x) as K. rewrite Hcnt in K.
    split; [apply cnt_In; rewrite Hcnt; lia | apply cnt_notIn; lia]. }
  assert (Hne : b_hdr b <> b_mem b).
  { intros E. pose proof (r_nodup _ _ HR (b_mem b)) as K. rewrite Hcnt, !cnt_cons, E in K.
    destruct (N.eq_dec (b_mem b) (b_mem b)); [simpl in K; lia | congruence]. }
  assert (Hab : In b (all_blocks st)) by (apply in_all_blocks; right; exact Hbn).
  destruct s as [[sizes freed] live seen warned ptrs]. cbn [a_bk a_live a_seen a_warned a_ptrs fst snd] in *.
  destruct (apply_destroy_list [b] n (ids_of (drop_live live id 0)) sizes freed n) as [freed' [Hap [Hfr Hfn]]].
  { intros b0 [<-|[]]. split; [exact Hbh|]. exists a. split; [exact Hbm|]. unfold size_ok.
    replace (cached_bound <? a) with true by (symmetry; apply N.ltb_lt; exact Ha). rewrite N.eqb_refl. apply orb_true_r. }
  { intros x. change (bids [b]) with [b_hdr b; b_mem b]. rewrite !cnt_cons, cnt_nil.
    destruct (N.eq_dec (b_hdr b) x), (N.eq_dec (b_mem b) x); simpl; lia. }
  { intros x Hx. unfold bids in Hx. simpl in Hx. split.
    - apply (r_ids _ _ HR). apply Hball. simpl. tauto.
    - intros G. apply ids_of_In_inv in G. destruct G as [o' [r' G]]. apply Hd1 in G. destruct G as [G1 G2]. simpl in G2.
      destruct Hx as [<-|[<-|[]]].
      + apply (hdr_not_live _ _ b HR Hab). apply (ids_of_In _ (b_hdr b, o', r')). exact G1.
      + congruence. }
  assert (Hfr' : forall x, In x freed' <-> In x freed \/ x = b_hdr b \/ x = b_mem b).
  { intros x. rewrite Hfr. unfold bids. simpl. intuition auto. }
  exists (mk_s (sizes, freed') (drop_live live id 0) seen warned ptrs).
  split; [|split; [|reflexivity]].
  - unfold check_dealloc, item_of. cbn [i_evs i_ret i_warn o_evs o_ret o_warn mk_out a_bk a_live a_seen a_warned a_ptrs].
    rewrite (known_found _ id req n (r_live_nd _ _ HR) Hl1) by (simpl; congruence).
    change (destroy_block n b) with (destroy_list n [b] ++ []) in *. rewrite app_nil_r. rewrite Hap. reflexivity.
  - constructor; cbn [st' s_cache s_non s_warned s_next a_bk a_live a_seen a_warned a_ptrs mk_s fst snd].
    + exact (r_sizes _ _ HR).
    + exact (r_next _ _ HR).
    + exact (r_warn _ _ HR).
    + intros x. pose proof (r_nodup _ _ HR x) as K. rewrite Hcnt in K. lia.
    + intros x H. destruct (Hsub x H) as [H1 H2]. destruct (r_ids _ _ HR x H1) as [G1 G2]. split; [exact G1|].
      rewrite Hfr'. simpl in H2. intros [K|[K|K]]; [exact (G2 K) | apply H2; left; congruence | apply H2; right; left; congruence].
    + intros x H1 H2. rewrite Hfr'. destruct (r_out _ _ HR x H1 H2) as [G|G]; [|tauto].
      destruct (N.eq_dec x (b_hdr b)); [tauto|]. destruct (N.eq_dec x (b_mem b)); [tauto|].
      left. apply cnt_In. apply cnt_In in G. rewrite Hcnt, !cnt_cons, cnt_nil in G.
      destruct (N.eq_dec (b_hdr b) x), (N.eq_dec (b_mem b) x); try congruence. simpl in G. lia.
    + intros x H. apply Hfr' in H. destruct H as [H|[->| ->]]; [exact (r_freed _ _ HR x H)| |];
        eapply all_ids_lt; eauto; apply Hball; simpl; tauto.
    + apply Hfn. exact (r_fnd _ _ HR).
    + destruct (r_zero _ _ HR) as [H1 H2]. split; [exact H1|]. rewrite Hfr'. intros [G|[G|G]]; [tauto| |].
      * destruct (r_ids _ _ HR (b_hdr b)) as [K _]; [apply Hball; simpl; tauto|]. lia.
      * destruct (r_ids _ _ HR (b_mem b)) as [K _]; [apply Hball; simpl; tauto|]. lia.
    + exact (r_nodes _ _ HR).
    + pose proof (r_non _ _ HR) as F. simpl in F. rewrite Hnon in F. apply Forall_app in F. destruct F as [F1 F2].
      inversion F2; subst. apply Forall_app. split; assumption.
    + intros e He. apply Hd1 in He. destruct He as [He Hnee].
      destruct (r_live_a _ _ HR e He) as [H1 H2]. split; [exact H1|]. simpl in H2.
      destruct (cls (snd e)) as [sz|]; [exact H2|].
      rewrite Hnon in H2. unfold mems in *. rewrite map_app in *. simpl in H2. rewrite in_app_iff in *. simpl in H2.
      destruct H2 as [H2|[H2|H2]]; [auto | congruence | auto].
    + exact Hd2.
    + intros nd2 x H1 H2. destruct (r_live_b _ _ HR nd2 x H1 H2) as [req' [G1 G2]]. exists req'. split; [|exact G2].
      apply Hd1. split; [exact G1|]. simpl. intros E. subst x.
      pose proof (r_nodup _ _ HR id) as K. unfold all_ids in K. rewrite !cnt_app in K.
      assert ((cnt (flat_map node_ids (s_cache st)) id >= 1)%nat).
      { apply (cnt_fm_ge _ nd2 id H1). unfold node_ids. rewrite in_app_iff. right. apply mems_bids. exact H2. }
      apply cnt_mems_bids in Hbu. lia.
    + intros x H.
      assert (Hxn : In x (mems (s_non st))).
      { rewrite Hnon. unfold mems in *. rewrite map_app in *. simpl. rewrite in_app_iff in *. simpl. tauto. }
      destruct (r_live_c _ _ HR x Hxn) as [req' [G1 G2]]. exists req'. split; [|exact G2].
      apply Hd1. split; [exact G1|]. simpl. intros E. subst x.
      assert (In id (all_ids st')) by (unfold all_ids, st'; cbn [s_cache s_non]; apply in_app_iff; right; apply mems_bids; exact H).
      destruct (Hsub id H0) as [_ K]. apply K. simpl. tauto.
    + intros x c H. destruct (r_seen _ _ HR x c H) as [G|[G|G]]; [left; apply Hfr'; tauto | right; left; exact G |].
      destruct (N.eq_dec x id) as [E|E].
      * subst x. left. apply Hfr'. right; right. symmetry; exact Hid.
      * right; right. apply ids_of_In_inv in G. destruct G as [o' [r' G]].
        apply (ids_of_In _ (x, o', r')). apply Hd1. split; [exact G | exact E].
Qed.

Lemma known_false_cached : forall st s nd n id, R st s -> In nd (s_cache st) -> cls n = Some (n_size nd) ->
  (forall x, In x (n_used nd) -> mem_is x (PId id) = false) -> known s (Some (id, 0)) n = false.
Proof.
  intros st s nd n id HR Hnd Hcls Hno. unfold known. destruct (find_live (a_live s) id 0) as [req|] eqn:F; [|reflexivity].
  apply find_live_In in F. destruct (r_live_a _ _ HR _ F) as [_ Hloc]. simpl in Hloc.
  destruct (optN_eqb (cls req) (cls n)) eqn:E; [|reflexivity]. apply optN_eqb_eq in E. rewrite E, Hcls in Hloc.
  destruct Hloc as [nd2 [H1 [H2 H3]]].
  assert (nd2 = nd).
  { apply (same_size_same_node (s_cache st)); auto. rewrite (r_sizes _ _ HR). apply classes_distinct. }
  subst nd2. apply in_mems in H3. destruct H3 as [b [H3 H4]]. specialize (Hno b H3). simpl in Hno.
  rewrite H4, N.eqb_refl in Hno. discriminate.
Qed.
Lemma known_false_non : forall st s n id, R st s -> cls n = None ->
  (forall x, In x (s_non st) -> mem_is x (PId id) = false) -> known s (Some (id, 0)) n = false.
Proof.
  intros st s n id HR Hcls Hno. unfold known. destruct (find_live (a_live s) id 0) as [req|] eqn:F; [|reflexivity].
  apply find_live_In in F. destruct (r_live_a _ _ HR _ F) as [_ Hloc]. simpl in Hloc.
  destruct (optN_eqb (cls req) (cls n)) eqn:E; [|reflexivity]. apply optN_eqb_eq in E. rewrite E, Hcls in Hloc.
  apply in_mems in Hloc. destruct Hloc as [b [H3 H4]]. specialize (Hno b H3). simpl in Hno.
  rewrite H4, N.eqb_refl in Hno. discriminate.
Qed.

Lemma sim_dealloc : forall st s p po n, R st s -> ptr_rel p po ->
  exists s', check_dealloc s po n (item_of (snd (dealloc st p n))) = Some s' /\ R (fst (dealloc st p n)) s' /\
             a_ptrs s' = a_ptrs s.
Proof.
  intros st s p po n HR Hp. unfold dealloc. destruct (is_cached n) eqn:Hc.
  - destruct (class_lookup _ n (r_sizes _ _ HR) Hc) as [l1 [nd [l2 [Hsplit [Hnth [Hset [Hle Hcls]]]]]]].
    assert (Hnd : In nd (s_cache st)) by (rewrite Hsplit; apply in_mid; auto).
    rewrite Hnth. destruct (unlink (n_used nd) p) as [[b used']|] eqn:U.
    + apply unlink_some in U. destruct U as [Hb [u1 [u2 [H1 [H2 _]]]]].
      destruct p as [id|k]; simpl in Hb; [|discriminate]. apply N.eqb_eq in Hb. simpl in Hp. subst po used'.
      rewrite Hset. cbn [fst snd].
      exact (sim_dealloc_cached_found st s n l1 nd l2 id b u1 u2 HR Hsplit Hcls H1 Hb).
    + apply sim_unknown; [exact HR|]. destruct p as [id|k]; simpl in Hp; subst po; [|reflexivity].
      apply (known_false_cached st s nd n id HR Hnd Hcls). apply unlink_none. exact U.
  - destruct (unlink (s_non st) p) as [[b non']|] eqn:U.
    + apply unlink_some in U. destruct U as [Hb [u1 [u2 [H1 [H2 _]]]]].
      destruct p as [id|k]; simpl in Hb; [|discriminate]. apply N.eqb_eq in Hb. simpl in Hp. subst po non'.
      cbn [fst snd].
      exact (sim_dealloc_non_found st s n id b u1 u2 HR Hc H1 Hb).
    + apply sim_unknown; [exact HR|]. destruct p as [id|k]; simpl in Hp; subst po; [|reflexivity].
      apply (known_false_non st s n id HR (cls_not_cached n Hc)). apply unlink_none. exact U.
Qed.

(* ---------------------------------------------------------------- clearCache / clearAll *)
Lemma clear_nodes_spec : forall f c,
  clear_nodes f c = (map (fun nd => fst (f nd)) c, flat_map (fun nd => snd (f nd)) c).
Proof.
  intros f. induction c as [|nd r IH]; [reflexivity|]. simpl. rewrite IH. destruct (f nd). reflexivity.
Qed.

Lemma apply_destroy_nodes : forall (gone : node -> list block) c caller prot sizes freed,
  (forall nd b, In nd c -> In b (gone nd) -> szof sizes (b_hdr b) = Some block_hdr_size /\ szof sizes (b_mem b) = Some (n_size nd)) ->
  (forall id, (cnt (flat_map (fun nd => bids (gone nd)) c) id <= 1)%nat) ->
  (forall id, In id (flat_map (fun nd => bids (gone nd)) c) -> ~ In id freed /\ ~ In id prot) ->
  exists freed', apply_evs caller prot (sizes, freed) (flat_map (fun nd => destroy_list (n_size nd) (gone nd)) c) = Some (sizes, freed') /\
                 (forall id, In id freed' <-> In id freed \/ In id (flat_map (fun nd => bids (gone nd)) c)) /\
                 (NoDup freed -> NoDup freed').
Proof.
  intros gone. induction c as [|nd r IH]; intros caller prot sizes freed Hs Hn Hf.
  - exists freed. simpl. split; [reflexivity|]. split; [intros; tauto | auto].
  - simpl in *.
    destruct (apply_destroy_list (gone nd) caller prot sizes freed (n_size nd)) as [f1 [A1 [A2 A3]]].
    + intros b Hb. destruct (Hs nd b) as [H1 H2]; auto. split; [exact H1|]. exists (n_size nd). split; [exact H2 | apply size_ok_same].
    + intros id. specialize (Hn id). rewrite cnt_app in Hn. lia.
    + intros id Hid. apply Hf. apply in_app_iff. left. exact Hid.
    + destruct (IH caller prot sizes f1) as [f2 [B1 [B2 B3]]].
      * intros nd2 b H1 H2. apply Hs; auto.
      * intros id. specialize (Hn id). rewrite cnt_app in Hn. lia.
      * intros id Hid. destruct (Hf id) as [G1 G2]; [apply in_app_iff; right; exact Hid|]. split; [|exact G2].
        rewrite A2. intros [K|K]; [tauto|]. specialize (Hn id). rewrite cnt_app in Hn.
        apply cnt_In in K. apply cnt_In in Hid. lia.
      * exists f2. split; [rewrite apply_evs_app, A1; exact B1|]. split; [|auto].
        intros id. rewrite B2, A2, in_app_iff. tauto.
Qed.

Definition keep_used (nd : node) : node := {| n_size := n_size nd; n_free := []; n_used := n_used nd |}.
Definition wipe (nd : node) : node := {| n_size := n_size nd; n_free := []; n_used := [] |}.
Definition free_ids (c : list node) : list N := flat_map (fun nd => bids (n_free nd)) c.

Lemma cnt_keep : forall c id,
  cnt (flat_map node_ids c) id = (cnt (free_ids c) id + cnt (flat_map node_ids (map keep_used c)) id)%nat.
Proof.
  induction c as [|nd r IH]; intros id; [reflexivity|]. unfold free_ids in *. simpl. rewrite !cnt_app, IH.
  unfold node_ids at 1 3. cbn [keep_used n_free n_used]. rewrite !cnt_app. change (bids []) with (@nil N). rewrite cnt_nil. lia.
Qed.
Lemma in_free_ids : forall c id, In id (free_ids c) <-> exists nd b, In nd c /\ In b (n_free nd) /\ (id = b_hdr b \/ id = b_mem b).
Proof.
  intros. unfold free_ids. rewrite in_flat_map. split.
  - intros [nd [H1 H2]]. apply in_bids in H2. destruct H2 as [b [H2 H3]]. exists nd, b. auto.
  - intros [nd [b [H1 [H2 H3]]]]. exists nd. split; [exact H1|]. apply in_bids. exists b. auto.
Qed.
Lemma wipe_no_ids : forall c, flat_map node_ids (map wipe c) = [].
Proof. induction c as [|nd r IH]; [reflexivity|]. simpl. rewrite IH. reflexivity. Qed.

Lemma clear_cache_eq : forall st,
  clear_cache st = (with_cache st (map keep_used (s_cache st)),
                    mk_out (flat_map (fun nd => destroy_list (n_size nd) (n_free nd)) (s_cache st)) None false).
Proof. intros. unfold clear_cache. rewrite clear_nodes_spec. reflexivity. Qed.

Lemma sim_clear_cache : forall st s, R st s ->
  exists s', check_clear_cache s (item_of (snd (clear_cache st))) = Some s' /\ R (fst (clear_cache st)) s' /\ a_ptrs s' = a_ptrs s.
Proof.
  intros st s HR. rewrite clear_cache_eq. cbn [fst snd].
  set (c := s_cache st) in *.
  pose proof (r_nodes _ _ HR) as Fn. rewrite Forall_forall in Fn.
  assert (Hgone_all : forall id, In id (free_ids c) -> In id (all_ids st)).
  { intros id H. apply in_free_ids in H. destruct H as [nd [b [H1 [H2 H3]]]]. apply in_all_ids. left. exists nd, b.
    split; [exact H1|]. split; [apply in_app_iff; left; exact H2 | exact H3]. }
  assert (Hcnt : forall id, cnt (all_ids st) id = (cnt (free_ids c) id + cnt (all_ids (with_cache st (map keep_used c))) id)%nat).
  { intros id. unfold all_ids. cbn [with_cache s_cache s_non]. fold c. rewrite !cnt_app, (cnt_keep c id). lia. }
  destruct s as [[sizes freed] live seen warned ptrs]. cbn [a_bk a_live a_seen a_warned a_ptrs fst snd] in *.
  destruct (apply_destroy_nodes n_free c 0 (ids_of live) sizes freed) as [freed' [Hap [Hfr Hfn]]].
  { intros nd b H1 H2. destruct (Fn nd H1 b) as [[G1 G2] _]; [apply in_app_iff; left; exact H2|]. auto. }
  { intros id. fold (free_ids c). pose proof (r_nodup _ _ HR id) as K. rewrite Hcnt in K. lia. }
  { intros id H. fold (free_ids c) in H. split; [apply (r_ids _ _ HR); apply Hgone_all; exact H|].
    apply in_free_ids in H. destruct H as [nd [b [H1 [H2 [->| ->]]]]].
    - apply (hdr_not_live _ _ b HR). apply in_all_blocks. left. exists nd. split; [exact H1 | apply in_app_iff; left; exact H2].
    - apply (free_not_live _ _ nd _ HR H1). apply in_mems. exists b. auto. }
  fold (free_ids c) in Hfr.
  assert (Hseen' : forall id cl, In (id, cl) seen -> In id freed' \/ In id (ids_of live)).
  { intros id cl H. destruct (r_seen _ _ HR id cl H) as [G|[G|G]]; [left; apply Hfr; tauto | | right; exact G].
    left. apply Hfr. right. destruct G as [nd [G1 G2]]. apply in_mems in G2. destruct G2 as [b [G2 G3]].
    apply in_free_ids. exists nd, b. auto. }
  exists (mk_s (sizes, freed') live seen warned ptrs).
  split; [|split; [|reflexivity]].
  - unfold check_clear_cache, item_of. cbn [i_evs i_ret i_warn o_evs o_ret o_warn mk_out a_bk a_live a_seen a_warned a_ptrs].
    rewrite Hap. cbn [snd].
    replace (forallb (fun e : N * option N => memN (fst e) freed' || memN (fst e) (ids_of live)) seen) with true; [reflexivity|].
    symmetry. apply forallb_forall. intros [id cl] H. simpl. apply orb_true_iff.
    destruct (Hseen' id cl H) as [G|G]; [left | right]; apply memN_In; exact G.
  - constructor; cbn [with_cache s_cache s_non s_warned s_next a_bk a_live a_seen a_warned a_ptrs mk_s fst snd].
    + rewrite map_map. simpl. exact (r_sizes _ _ HR).
    + exact (r_next _ _ HR).
    + exact (r_warn _ _ HR).
    + intros id. pose proof (r_nodup _ _ HR id) as K. rewrite Hcnt in K. lia.
    + intros id H. apply cnt_In in H. pose proof (r_nodup _ _ HR id) as K. rewrite Hcnt in K.
      destruct (r_ids _ _ HR id) as [G1 G2]; [apply cnt_In; rewrite Hcnt; lia|]. split; [exact G1|].
      rewrite Hfr. intros [G|G]; [exact (G2 G)|]. apply cnt_In in G. lia.
    + intros id H1 H2. destruct (r_out _ _ HR id H1 H2) as [G|G]; [|right; apply Hfr; tauto].
      apply cnt_In in G. rewrite Hcnt in G.
      destruct (Nat.eq_dec (cnt (free_ids c) id) 0) as [E|E]; [left; apply cnt_In; lia|].
      right. apply Hfr. right. apply cnt_In. lia.
    + intros id H. apply Hfr in H. destruct H as [H|H]; [exact (r_freed _ _ HR id H)|].
      eapply all_ids_lt; eauto.
    + apply Hfn. exact (r_fnd _ _ HR).
    + destruct (r_zero _ _ HR) as [H1 H2]. split; [exact H1|]. rewrite Hfr. intros [G|G]; [exact (H2 G)|].
      destruct (r_ids _ _ HR 0 (Hgone_all 0 G)) as [K _]. lia.
    + apply Forall_forall. intros nd' H. apply in_map_iff in H. destruct H as [nd [<- H]].
      intros b Hb. cbn [keep_used n_free n_used n_size] in *. apply (Fn nd H b). apply in_app_iff. right. exact Hb.
    + exact (r_non _ _ HR).
    + intros e He. destruct (r_live_a _ _ HR e He) as [H1 H2]. split; [exact H1|]. simpl in H2.
      destruct (cls (snd e)) as [sz|]; [|exact H2].
      destruct H2 as [nd [G1 [G2 G3]]]. exists (keep_used nd). split; [apply in_map; exact G1 | auto].
    + exact (r_live_nd _ _ HR).
    + intros nd' id H1 H2. apply in_map_iff in H1. destruct H1 as [nd [<- H1]].
      exact (r_live_b _ _ HR nd id H1 H2).
    + exact (r_live_c _ _ HR).
    + intros id cl H. destruct (Hseen' id cl H); tauto.
Qed.

Lemma clear_all_eq : forall st,
  clear_all st = ({| s_cache := map wipe (s_cache st); s_non := []; s_warned := s_warned st; s_next := s_next st |},
                  mk_out (flat_map (fun nd => destroy_list (n_size nd) (n_free nd ++ n_used nd)) (s_cache st)
                          ++ destroy_list 0 (s_non st)) None false).
Proof.
  intros. unfold clear_all. rewrite clear_nodes_spec. f_equal. f_equal. f_equal.
  apply flat_map_ext. intros nd. simpl. unfold destroy_list. rewrite flat_map_app. reflexivity.
Qed.

Lemma all_ids_gone : forall st,
  all_ids st = flat_map (fun nd => bids (n_free nd ++ n_used nd)) (s_cache st) ++ bids (s_non st).
Proof.
  intros. unfold all_ids. f_equal. apply flat_map_ext. intros nd. unfold node_ids. rewrite bids_app. reflexivity.
Qed.

Lemma sim_clear_all : forall st s, R st s -> (1 <= length (fst (a_bk s)))%nat ->
  exists s', check_clear_all 1 s (item_of (snd (clear_all st))) = Some s' /\ R (fst (clear_all st)) s' /\ a_ptrs s' = a_ptrs s.
Proof.
  intros st s HR Hlen. rewrite clear_all_eq. cbn [fst snd].
  set (c := s_cache st) in *.
  pose proof (r_nodes _ _ HR) as Fn. rewrite Forall_forall in Fn.
  pose proof (r_non _ _ HR) as Fo. rewrite Forall_forall in Fo.
  pose proof (all_ids_gone st) as Hall. fold c in Hall.
  destruct s as [[sizes freed] live seen warned ptrs]. cbn [a_bk a_live a_seen a_warned a_ptrs fst snd] in *.
  destruct (apply_destroy_nodes (fun nd => n_free nd ++ n_used nd) c 0 [] sizes freed) as [f1 [A1 [A2 A3]]].
  { intros nd b H1 H2. destruct (Fn nd H1 b H2) as [[G1 G2] _]. auto. }
  { intros id. pose proof (r_nodup _ _ HR id) as K. rewrite Hall, cnt_app in K. lia. }
  { intros id H. split; [|intros []]. apply (r_ids _ _ HR). rewrite Hall. apply in_app_iff. left. exact H. }
  destruct (apply_destroy_list (s_non st) 0 [] sizes f1 0) as [f2 [B1 [B2 B3]]].
  { intros b Hb. destruct (Fo b Hb) as [a [Ha [[G1 G2] _]]]. split; [exact G1|]. exists a. split; [exact G2|].
    unfold size_ok. replace (cached_bound <? a) with true by (symmetry; apply N.ltb_lt; exact Ha). rewrite N.eqb_refl. apply orb_true_r. }
  { intros id. pose proof (r_nodup _ _ HR id) as K. rewrite Hall, cnt_app in K. lia. }
  { intros id H. split; [|intros []]. rewrite A2. intros [K|K].
    - apply (r_ids _ _ HR id); [|exact K]. rewrite Hall. apply in_app_iff. right. exact H.
    - pose proof (r_nodup _ _ HR id) as G. rewrite Hall, cnt_app in G. apply cnt_In in K. apply cnt_In in H. lia. }
  assert (Hf2 : forall id, In id f2 <-> In id freed \/ In id (all_ids st)).
  { intros id. rewrite B2, A2, Hall, in_app_iff. tauto. }
  exists (mk_s (sizes, f2) [] seen warned ptrs).
  split; [|split; [|reflexivity]].
  - unfold check_clear_all, item_of. cbn [i_evs i_ret i_warn o_evs o_ret o_warn mk_out a_bk a_live a_seen a_warned a_ptrs].
    rewrite apply_evs_app, A1, B1. cbn [fst snd].
    replace (forallb (fun id : N => memN id f2) (range_from (N.of_nat 1) (length sizes - 1))) with true; [reflexivity|].
    symmetry. apply forallb_forall. intros id H. apply range_from_In in H. apply memN_In. apply Hf2.
    destruct (r_out _ _ HR id) as [G|G]; [lia | rewrite (r_next _ _ HR); simpl; lia | right; exact G | left; exact G].
  - constructor; cbn [s_cache s_non s_warned s_next a_bk a_live a_seen a_warned a_ptrs mk_s fst snd].
    + rewrite map_map. simpl. exact (r_sizes _ _ HR).
    + exact (r_next _ _ HR).
    + exact (r_warn _ _ HR).
    + intros id. unfold all_ids. cbn [s_cache s_non]. rewrite wipe_no_ids. simpl. lia.
    + intros id H. unfold all_ids in H. cbn [s_cache s_non] in H. rewrite wipe_no_ids in H. destruct H.
    + intros id H1 H2. right. apply Hf2. destruct (r_out _ _ HR id H1 H2); tauto.
    + intros id H. apply Hf2 in H. destruct H as [H|H]; [exact (r_freed _ _ HR id H) | eapply all_ids_lt; eauto].
    + apply B3. apply A3. exact (r_fnd _ _ HR).
    + destruct (r_zero _ _ HR) as [H1 H2]. split; [exact H1|]. rewrite Hf2. intros [G|G]; [exact (H2 G)|].
      destruct (r_ids _ _ HR 0 G) as [K _]. lia.
    + apply Forall_forall. intros nd' H. apply in_map_iff in H. destruct H as [nd [<- H]]. intros b Hb. destruct Hb.
    + constructor.
    + intros e [].
    + constructor.
    + intros nd' id H1 H2. apply in_map_iff in H1. destruct H1 as [nd [<- H1]]. destruct H2.
    + intros id [].
    + intros id cl H. left. apply Hf2. destruct (r_seen _ _ HR id cl H) as [G|[G|G]]; [tauto | right | right].
      * apply free_in_all. exact G.
      * eapply live_in_all; eauto.
Qed.

Lemma sim_destroy : forall st s, R st s -> check_destroy 1 s (item_of (snd (destroy st))) = true.
Proof.
  intros st s HR. destruct s as [[sizes freed] live seen warned ptrs]. destruct (r_zero _ _ HR) as [H1 H2].
  cbn [a_bk fst snd] in *.
  unfold check_destroy, destroy, item_of. cbn [i_evs i_ret i_warn o_evs o_ret o_warn mk_out a_bk snd apply_evs].
  rewrite (apply_ef_ok 0 [] sizes freed 0 node_array_size node_array_size H1 H2); [|intros [] | apply size_ok_same].
  reflexivity.
Qed.
