(* C13 -- operator+=, operator+, copyToBuffer *)
From Coq Require Import NArith ZArith Bool List Lia ZifyBool.
From CppUVerif Require Import lib.Str C13_Text C13_Alloc C13_Model C13_Proofs.
Import ListNotations.
Local Open Scope N_scope.

Lemma wr_keep b i v : (i < length b)%nat ->
  exists b', wr b i v = Ok b' /\ length b' = length b /\ forall n, (n <= i)%nat -> firstn n b' = firstn n b.
Proof.
  intro L. unfold wr. replace (Nat.ltb i (length b)) with true by lia. eexists. split; [reflexivity|]. split.
  - rewrite app_length, firstn_length. cbn [length]. rewrite skipn_length. lia.
  - intros n Hn. rewrite firstn_app, firstn_firstn, firstn_length.
    replace (Nat.min n i) with n by lia. replace (n - Nat.min i (length b))%nat with 0%nat by lia. cbn [firstn]. apply app_nil_r.
Qed.

Lemma append_ok a b ra rb : NN a -> NN b -> append_m (a ++ 0 :: ra) (b ++ 0 :: rb) = Ok (a ++ b ++ [0]).
Proof.
  intros Ha Hb. unfold append_m. rewrite !StrLen_ok by assumption. cbn [bind]. unfold copyToNewBuffer, StrNCpy.
  replace (Nat.eqb (length a + S (length b)) 0) with false by lia.
  replace (length a + S (length b))%nat with (S (length a) + length b)%nat by lia. rewrite fresh_app.
  pose proof (StrNCpy_loop_ok (S (length a) + length b) a ra [] (fresh (S (length a))) (fresh (length b))) as H.
  cbn [app length] in H. rewrite H; [| lia | assumption | rewrite fresh_length; lia]. clear H. cbn [bind].
  rewrite fresh_length. replace (firstn (S (length a)) (a ++ [0])) with (a ++ [0]) by (rewrite firstn_all2; [reflexivity | rewrite app_length; cbn; lia]).
  set (t := (a ++ [0]) ++ fresh (length b)).
  assert (Lt : length t = (S (length a) + length b)%nat) by (unfold t; rewrite !app_length, fresh_length; cbn; lia).
  destruct (wr_keep t (S (length a) + length b - 1) 0 ltac:(lia)) as [t' [W [Lt' F]]]. rewrite W. cbn [bind].
  replace (Nat.eqb (S (length b)) 0) with false by lia.
  assert (Ft : firstn (length a) t' = a).
  { rewrite F by lia. unfold t. rewrite <- app_assoc, firstn_app, firstn_all, Nat.sub_diag. cbn [firstn]. apply app_nil_r. }
  rewrite <- (firstn_skipn (length a) t'). rewrite Ft.
  pose proof (StrNCpy_loop_ok (S (length b)) b rb a (skipn (length a) t') []) as H. rewrite app_nil_r in H.
  rewrite H; [| lia | assumption | rewrite skipn_length; lia]. rewrite skipn_length, Lt', app_nil_r.
  replace (S (length a) + length b - length a)%nat with (S (length b)) by lia.
  rewrite firstn_all2 by (rewrite app_length; cbn; lia). reflexivity.
Qed.
Lemma plus_ok a b ra rb : NN a -> NN b -> plus_m (a ++ 0 :: ra) (b ++ 0 :: rb) = Ok (a ++ b ++ [0]).
Proof. intros Ha Hb. unfold plus_m. rewrite newFrom_ok by assumption. cbn [bind]. apply append_ok; assumption. Qed.

(* copyToBuffer into a caller buffer of dn cells: min(dn-1, size) bytes, a terminator, nothing else touched *)
Lemma copyToBuffer_ok a r dn : NN a -> copyToBuffer_m (a ++ 0 :: r) (fresh dn) dn = Ok (t_copy_out a dn).
Proof.
  intro Ha. unfold copyToBuffer_m, t_copy_out. fold (fresh (dn - 1 - length a)). destruct dn as [|d]; [reflexivity|]. cbn [Nat.eqb].
  rewrite StrLen_ok by assumption. cbn [bind]. replace (S d - 1)%nat with d by lia.
  set (k := if Nat.ltb d (length a) then d else length a).
  assert (Kd : (k <= d)%nat) by (unfold k; destruct (Nat.ltb d (length a)) eqn:E; lia).
  assert (Ka : (k <= length a)%nat) by (unfold k; destruct (Nat.ltb d (length a)) eqn:E; lia).
  assert (Fk : firstn k a = firstn d a).
  { unfold k. destruct (Nat.ltb d (length a)) eqn:E; [reflexivity|]. rewrite firstn_all, firstn_all2 by lia. reflexivity. }
  assert (Dk : (d - k = d - length a)%nat) by (unfold k; destruct (Nat.ltb d (length a)) eqn:E; lia).
  replace (S d) with (k + S (d - k))%nat by lia. rewrite fresh_app. unfold StrNCpy.
  destruct (Nat.eqb k 0) eqn:K0.
  - assert (k = 0%nat) by lia. rewrite H in *. change (fresh 0) with (@nil N). cbn [app bind]. pose proof (wr_mid [] 205 (fresh (d - 0)) 0) as W.
    cbn [app length] in W. change (fresh (S (d - 0))) with (205 :: fresh (d - 0)). rewrite W. rewrite <- Fk. cbn [firstn app].
    rewrite <- Dk. reflexivity.
  - pose proof (StrNCpy_loop_ok k a r [] (fresh k) (fresh (S (d - k)))) as H. cbn [app length] in H.
    rewrite H; [| lia | assumption | rewrite fresh_length; lia]. clear H. cbn [bind]. rewrite fresh_length.
    replace (firstn k (a ++ [0])) with (firstn k a) by (rewrite firstn_app; replace (k - length a)%nat with 0%nat by lia; cbn [firstn]; rewrite app_nil_r; reflexivity).
    change (fresh (S (d - k))) with (205 :: fresh (d - k)).
    pose proof (wr_mid (firstn k a) 205 (fresh (d - k)) 0) as W. rewrite firstn_length in W.
    replace (Nat.min k (length a)) with k in W by lia. cbn [app]. rewrite W. rewrite Fk, Dk. reflexivity.
Qed.

(* VStringFromFormat: both paths return the formatted text; the temporary buffer is paired *)
Lemma format_ok text : NN text -> format_m text = Ok (text ++ [0]).
Proof.
  intro H. unfold format_m, vsnprintf_m. destruct (Nat.ltb (length text) 100) eqn:L.
  - rewrite firstn_all2 by lia. apply newFrom_ok. assumption.
  - replace (S (length text) - 1)%nat with (length text) by lia. rewrite firstn_all. apply newFrom_ok. assumption.
Qed.
Lemma format_paired size : paired (format_log size) = true.
Proof.
  unfold format_log. destruct (Nat.ltb size 100); [apply alloc_pairing|].
  unfold paired. cbn [app paired_from remove1]. rewrite Nat.eqb_refl. apply alloc_pairing.
Qed.
Lemma format_wrong_refuted : ~ (forall size, paired (format_log_wrong size) = true).
Proof. intro H. specialize (H 100%nat). vm_compute in H. discriminate H. Qed.
