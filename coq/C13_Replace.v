(* C13 -- replace(const char*, const char* ): the repaired code substitutes leftmost non-overlapping matches, sizes the
   new buffer exactly, and stays inside both buffers; the code before the repairs (D9, D19) does not. *)
From Coq Require Import NArith ZArith Bool List Lia ZifyBool.
From CppUVerif Require Import lib.Str C13_Text C13_Model C13_Proofs.
Import ListNotations.
Local Open Scope N_scope.
Arguments diff : simpl never.

(* number of substitutions the textbook function performs *)
Fixpoint t_nmatch (n : nat) (s t : list N) : nat :=
  match n with O => 0%nat | S n' =>
    match s with [] => 0%nat | c :: s' =>
      if is_prefix t s then S (t_nmatch n' (skipn (length t) s) t) else t_nmatch n' s' t end end.

Lemma is_prefix_split t s : is_prefix t s = true -> s = t ++ skipn (length t) s.
Proof.
  intro H. apply is_prefix_spec in H. destruct H as [q ->]. rewrite skipn_app, skipn_all, Nat.sub_diag. reflexivity.
Qed.
Lemma is_prefix_len t s : is_prefix t s = true -> (length t <= length s)%nat.
Proof. intro H. apply is_prefix_spec in H. destruct H as [q ->]. rewrite app_length. lia. Qed.
Lemma len_pos (t : list N) : t <> [] -> (1 <= length t)%nat.
Proof. destruct t; [contradiction | cbn; lia]. Qed.

Lemma repl_length n : forall s t w, t <> [] -> (length s <= n)%nat ->
  (length (t_repl n s t w) + length t * t_nmatch n s t = length s + length w * t_nmatch n s t)%nat.
Proof.
  induction n as [|n IH]; intros s t w Ht L.
  - destruct s; cbn in *; lia.
  - destruct s as [|c s]; [cbn; lia|]. cbn [t_repl t_nmatch].
    destruct (is_prefix t (c :: s)) eqn:P.
    + pose proof (is_prefix_len _ _ P) as PL. pose proof (len_pos t Ht). rewrite app_length.
      specialize (IH (skipn (length t) (c :: s)) t w Ht). rewrite skipn_length in IH. cbn [length] in *.
      specialize (IH ltac:(lia)). nia.
    + cbn [length] in *. specialize (IH s t w Ht ltac:(lia)). lia.
Qed.
Lemma repl_nomatch n : forall s t w, t_nmatch n s t = 0%nat -> t_repl n s t w = s.
Proof.
  induction n as [|n IH]; intros s t w H; [reflexivity|]. destruct s as [|c s]; [reflexivity|].
  cbn [t_repl t_nmatch] in *. destruct (is_prefix t (c :: s)); [discriminate H|]. rewrite IH by assumption. reflexivity.
Qed.
Lemma NN_repl n : forall s t w, NN s -> NN w -> NN (t_repl n s t w).
Proof.
  induction n as [|n IH]; intros s t w Hs Hw; [assumption|]. destruct s as [|c s]; [assumption|]. cbn [t_repl].
  destruct (is_prefix t (c :: s)).
  - apply NN_app. split; [assumption|]. apply IH; [apply NN_skipn|]; assumption.
  - apply NN_cons in Hs. destruct Hs. apply NN_cons. split; [assumption|]. apply IH; assumption.
Qed.
Lemma repl_nil n t w : t_repl n [] t w = [].
Proof. destruct n; reflexivity. Qed.
Lemma nmatch_nil n t : t_nmatch n [] t = 0%nat.
Proof. destruct n; reflexivity. Qed.

Lemma adv_mid pre s : adv (length pre) ((pre ++ s) ++ [0]) = Ok (s ++ [0]).
Proof.
  change ((pre ++ s) ++ [0]) with ((pre ++ s) ++ 0 :: []). rewrite adv_cs by (rewrite app_length; lia).
  rewrite skipn_app, skipn_all, Nat.sub_diag. reflexivity.
Qed.

Lemma nonoverlap_count_ok fuel : forall s pre a i len to rb c n,
  a = pre ++ s -> i = length pre -> len = (length pre + length s)%nat ->
  NN a -> NN to -> to <> [] -> (length s < fuel)%nat -> (length s <= n)%nat ->
  nonoverlap_count fuel (a ++ [0]) i len (to ++ 0 :: rb) (length to) c = Ok (c + t_nmatch n s to)%nat.
Proof.
  induction fuel as [|f IH]; intros s pre a i len to rb c n Ea Ei El Ha Hto Hne Lf Ln; [lia|]. subst a i len.
  cbn [nonoverlap_count]. destruct s as [|x s].
  - cbn [length]. replace (Nat.ltb (length pre) (length pre + 0)) with false by lia. rewrite nmatch_nil. f_equal. lia.
  - replace (Nat.ltb (length pre) (length pre + length (x :: s))) with true by (cbn [length]; lia).
    rewrite adv_mid. cbn [bind]. apply NN_app in Ha as Ha'. destruct Ha' as [Hpre Hs].
    destruct (StrNCmp_prefix to (x :: s) [] rb Hs Hto) as [d [E Z]]. rewrite E. cbn [bind]. rewrite Z.
    destruct n as [|n]; [cbn [length] in Ln; lia|]. cbn [t_nmatch].
    destruct (is_prefix to (x :: s)) eqn:P.
    + pose proof (is_prefix_len _ _ P) as PL. pose proof (len_pos to Hne) as TL. pose proof (is_prefix_split _ _ P) as Sp.
      rewrite (IH (skipn (length to) (x :: s)) (pre ++ to) _ _ _ to rb (S c) n); try assumption.
      * f_equal. lia.
      * rewrite Sp at 1. rewrite app_assoc. reflexivity.
      * rewrite app_length. reflexivity.
      * rewrite app_length, skipn_length. lia.
      * rewrite skipn_length. cbn [length] in *. lia.
      * rewrite skipn_length. cbn [length] in *. lia.
    + rewrite (IH s (pre ++ [x]) _ _ _ to rb c n); try assumption.
      * reflexivity.
      * rewrite <- app_assoc. reflexivity.
      * rewrite app_length. cbn [length]. lia.
      * rewrite app_length. cbn [length]. lia.
      * cbn [length] in *. lia.
      * cbn [length] in *. lia.
Qed.

Lemma repl_copy_ok fuel : forall s pre a i len out rest nb j to w rb rw n,
  a = pre ++ s -> i = length pre -> len = (length pre + length s)%nat -> nb = out ++ rest -> j = length out ->
  NN a -> NN to -> to <> [] -> NN w -> (length s < fuel)%nat -> (length s <= n)%nat ->
  (length (t_repl n s to w) + 1 <= length rest)%nat ->
  exists rest', repl_copy fuel (a ++ [0]) nb i j len (to ++ 0 :: rb) (w ++ 0 :: rw) (length to) (length w)
                = Ok (out ++ t_repl n s to w ++ rest') /\ length rest' = (length rest - length (t_repl n s to w))%nat.
Proof.
  induction fuel as [|f IH]; intros s pre a i len out rest nb j to w rb rw n Ea Ei El Enb Ej Ha Hto Hne Hw Lf Ln Lr; [lia|].
  subst a i len nb j. cbn [repl_copy]. destruct s as [|x s].
  - cbn [length]. replace (Nat.ltb (length pre) (length pre + 0)) with false by lia. rewrite repl_nil.
    exists rest. split; [reflexivity | cbn; lia].
  - replace (Nat.ltb (length pre) (length pre + length (x :: s))) with true by (cbn [length]; lia).
    rewrite adv_mid. cbn [bind]. apply NN_app in Ha as Ha'. destruct Ha' as [Hpre Hs].
    destruct (StrNCmp_prefix to (x :: s) [] rb Hs Hto) as [d [E Z]]. rewrite E. cbn [bind]. rewrite Z.
    destruct n as [|n]; [cbn [length] in Ln; lia|]. cbn [t_repl] in *.
    destruct (is_prefix to (x :: s)) eqn:P.
    + pose proof (is_prefix_len _ _ P) as PL. pose proof (len_pos to Hne) as TL. pose proof (is_prefix_split _ _ P) as Sp.
      rewrite app_length in Lr.
      unfold StrNCpy. cbn [Nat.eqb].
      replace (out ++ rest) with (out ++ firstn (S (length w)) rest ++ skipn (S (length w)) rest) by (rewrite firstn_skipn; reflexivity).
      rewrite (StrNCpy_loop_ok (S (length w)) w rw out (firstn (S (length w)) rest) (skipn (S (length w)) rest));
        [| lia | assumption | rewrite firstn_length; lia].
      cbn [bind]. rewrite firstn_length. replace (Nat.min (S (length w)) (length rest)) with (S (length w)) by lia.
      replace (firstn (S (length w)) (w ++ [0])) with (w ++ [0]) by (rewrite firstn_all2; [reflexivity | rewrite app_length; cbn; lia]).
      destruct (IH (skipn (length to) (x :: s)) (pre ++ to) ((pre ++ to) ++ skipn (length to) (x :: s))
                   (length pre + length to)%nat (length pre + length (x :: s))%nat (out ++ w) (0 :: skipn (S (length w)) rest)
                   (out ++ (w ++ [0]) ++ skipn (S (length w)) rest) (length out + length w)%nat to w rb rw n) as [rest' [R L]];
        try assumption; try reflexivity.
      * rewrite app_length. reflexivity.
      * rewrite !app_length, skipn_length. lia.
      * rewrite <- !app_assoc. reflexivity.
      * rewrite app_length. reflexivity.
      * rewrite <- app_assoc, <- Sp. assumption.
      * rewrite skipn_length. cbn [length] in *. lia.
      * rewrite skipn_length. cbn [length] in *. lia.
      * cbn [length]. rewrite skipn_length. lia.
      * replace ((pre ++ to) ++ skipn (length to) (x :: s)) with (pre ++ x :: s) in R by (rewrite <- app_assoc, <- Sp; reflexivity).
        rewrite R. exists rest'. split; [rewrite <- !app_assoc; reflexivity|].
        rewrite L. cbn [length]. rewrite skipn_length, app_length. lia.
    + cbn [rd app bind]. destruct rest as [|r0 rest]; [cbn [length] in Lr; lia|]. rewrite wr_mid. cbn [bind].
      destruct (IH s (pre ++ [x]) ((pre ++ [x]) ++ s) (S (length pre)) (length pre + length (x :: s))%nat (out ++ [x]) rest
                   (out ++ x :: rest) (S (length out)) to w rb rw n) as [rest' [R L]]; try assumption; try reflexivity.
      * rewrite app_length. cbn; lia.
      * rewrite app_length. cbn [length]. lia.
      * rewrite <- app_assoc. reflexivity.
      * rewrite app_length. cbn; lia.
      * rewrite <- app_assoc. assumption.
      * cbn [length] in *. lia.
      * cbn [length] in *. lia.
      * cbn [length] in *. lia.
      * replace ((pre ++ [x]) ++ s) with (pre ++ x :: s) in R by (rewrite <- app_assoc; reflexivity).
        rewrite R. exists rest'. split; [rewrite <- !app_assoc; reflexivity|]. rewrite L. cbn [length]. lia.
Qed.

Lemma replaceStr_ok a to w : NN a -> NN to -> NN w ->
  exists buf, replaceStr_m (cs a) (cs to) (cs w) = Ok buf /\ cstr_of buf = Some (t_replace a to w).
Proof.
  intros Ha Hto Hw. unfold replaceStr_m, cs. rewrite !StrLen_ok by assumption. cbn [bind].
  destruct to as [|y to].
  - cbn [length Nat.eqb t_replace]. eexists. split; [reflexivity | apply cstr_of_cs; assumption].
  - cbn [Nat.eqb length]. change (S (length to)) with (length (y :: to)). set (t := y :: to) in *.
    assert (Hne : t <> []) by discriminate.
    rewrite (nonoverlap_count_ok (S (length a)) a [] a 0%nat (length a) t [] 0%nat (length a)); try assumption; try reflexivity; try lia.
    cbn [bind Nat.add]. unfold replace_tail, t_replace. fold t.
    pose proof (repl_length (length a) a t w Hne (le_n _)) as RL.
    set (c := t_nmatch (length a) a t) in *. set (R := t_repl (length a) a t w) in *.
    destruct (Nat.eqb c 0) eqn:C0.
    + eexists. split; [reflexivity|]. rewrite cstr_of_cs by assumption. f_equal. symmetry. apply repl_nomatch. lia.
    + replace (length a + length w * c - length t * c + 1)%nat with (length R + 1)%nat by nia.
      destruct (Nat.ltb 1 (length R + 1)) eqn:L1.
      * destruct (repl_copy_ok (S (length a)) a [] a 0%nat (length a) [] (fresh (length R + 1)) (fresh (length R + 1)) 0%nat t w [] []
                               (length a)) as [rest' [E L]]; try assumption; try reflexivity; try lia.
        { fold R. rewrite fresh_length. lia. }
        fold R in E, L. rewrite fresh_length in L. rewrite E. cbn [bind app].
        destruct rest' as [|r0 rest']; [cbn [length] in L; lia|]. destruct rest'; [|cbn [length] in L; lia].
        replace (length R + 1 - 1)%nat with (length R) by lia. rewrite wr_mid. eexists. split; [reflexivity|].
        apply cstr_of_cs. apply NN_repl; assumption.
      * exists emptyString. split; [reflexivity|]. destruct R; [reflexivity | cbn [length] in L1; lia].
Qed.

(* the code before the D9 repair writes past the new buffer for a self-overlapping pattern ... *)
Lemma replaceStr_old_overlap_refuted :
  ~ (forall a to w, nonul a = true -> nonul to = true -> nonul w = true -> replaceStr_old (cs a) (cs to) (cs w) <> Oob).
Proof. intro H. apply (H [97;97;97;97] [97;97] [98] eq_refl eq_refl eq_refl). vm_compute. reflexivity. Qed.
(* ... and returns a wrong string where it happens to stay inside ("aaa" -> "b", textbook "ba") *)
Lemma replaceStr_old_wrong_refuted :
  ~ (forall a to w buf, nonul a = true -> nonul to = true -> nonul w = true ->
       replaceStr_old (cs a) (cs to) (cs w) = Ok buf -> cstr_of buf = Some (t_replace a to w)).
Proof. intro H. specialize (H [97;97;97] [97;97] [98] _ eq_refl eq_refl eq_refl eq_refl). vm_compute in H. discriminate H. Qed.
(* before the D19 repair an empty pattern never advances: the copy loop leaves the new buffer (or runs out of fuel) *)
Lemma replaceStr_old_empty_refuted :
  ~ (forall a w, nonul a = true -> nonul w = true -> exists buf, replaceStr_old (cs a) (cs []) (cs w) = Ok buf).
Proof. intro H. destruct (H [97;98;99] [120] eq_refl eq_refl) as [buf E]. vm_compute in E. discriminate E. Qed.
