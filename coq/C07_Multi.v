(* C07 -- proofs about several plugin instances (C07_ModelM):
   A. firstPlugin_ is written once; the macros reach the object it points to.
   B. the runner's plugin, its detector and the registry's result evolve exactly as in the program without the statements about
      other instances (`erase`): the run of C07_Model.
   C. every further instance reports what the text of ITS statements demands (the table / final-report lemmas of C07_Tests and
      C07_Main applied to its private world).
   D. mrun meets mspec. *)
From Coq Require Import NArith List Bool Lia Permutation Arith.
From CppUVerif Require Import gen.Gen_Common C04_Model C04_Lists C04_Table C04_Proofs C07_Model C07_Proofs C07_Tests C07_Main C07_ModelM.
Import ListNotations.
Local Open Scope N_scope.

(* ------------------------------------------------------------------ 0. association lists *)
Section Slots.
Context {A : Type} (slot : A -> N).

Lemma find_upd_same j f l : (forall a, slot (f a) = slot a) ->
  find_s slot j (upd_s slot j f l) = option_map f (find_s slot j l).
Proof.
  intros Hf. unfold find_s, upd_s. induction l as [|a l IH]; [reflexivity|]. cbn [map find].
  destruct (slot a =? j) eqn:E.
  - rewrite Hf, E. reflexivity.
  - rewrite E. exact IH.
Qed.
Lemma find_upd_other j j' f l : (forall a, slot (f a) = slot a) -> j <> j' ->
  find_s slot j (upd_s slot j' f l) = find_s slot j l.
Proof.
  intros Hf Hj. unfold find_s, upd_s. induction l as [|a l IH]; [reflexivity|]. cbn [map find].
  destruct (slot a =? j') eqn:E.
  - rewrite Hf. apply N.eqb_eq in E. rewrite E. destruct (j' =? j) eqn:E2; [apply N.eqb_eq in E2; congruence|exact IH].
  - destruct (slot a =? j); [reflexivity|exact IH].
Qed.
Lemma find_del_same j l : find_s slot j (del_s slot j l) = None.
Proof.
  unfold find_s, del_s. induction l as [|a l IH]; [reflexivity|]. cbn [filter].
  destruct (slot a =? j) eqn:E; cbn [negb]; [exact IH|]. cbn [find]. rewrite E. exact IH.
Qed.
Lemma find_del_other j j' l : j <> j' -> find_s slot j (del_s slot j' l) = find_s slot j l.
Proof.
  intros Hj. unfold find_s, del_s. induction l as [|a l IH]; [reflexivity|]. cbn [filter find].
  destruct (slot a =? j') eqn:E; cbn [negb].
  - apply N.eqb_eq in E. destruct (slot a =? j) eqn:E2; [apply N.eqb_eq in E2; congruence|exact IH].
  - cbn [find]. destruct (slot a =? j); [reflexivity|exact IH].
Qed.
Lemma find_app_new j l a : find_s slot j (l ++ [a]) =
  match find_s slot j l with Some x => Some x | None => if slot a =? j then Some a else None end.
Proof.
  unfold find_s. induction l as [|b l IH]; [reflexivity|]. cbn [app find]. destruct (slot b =? j); [reflexivity|exact IH].
Qed.
Lemma find_slot j l a : find_s slot j l = Some a -> slot a = j.
Proof. unfold find_s. intros H. apply find_some in H. apply N.eqb_eq. apply H. Qed.
End Slots.

(* ------------------------------------------------------------------ A. firstPlugin_ *)
Lemma reach_first x b : x_first (x_reach x b) = x_first x.
Proof.
  destruct x as [f n l o e]. unfold x_reach. cbn [x_first]. destruct f as [[|p]|]; try reflexivity.
  cbn [x_insts]. match goal with |- context [existsb ?f ?l] => destruct (existsb f l) end; reflexivity.
Qed.

Lemma first_stable x s o : x_first x = Some o -> x_first (aux_step x s) = Some o.
Proof.
  intros H. destruct s; cbn [aux_step].
  - destruct (is_macro s); [rewrite reach_first|]; assumption.
  - cbn [x_first]. rewrite H. reflexivity.
  - assumption.
  - assumption.
  - assumption.
  - destruct (find_s i_slot j (x_insts x)) as [i|]; [|assumption]. destruct (i_shared i); [assumption|].
    destruct (post_item (i_w i)). assumption.
  - destruct (find_s i_slot j (x_insts x)) as [i|]; [|assumption]. destruct (i_shared i); [assumption|].
    destruct (final_item j (i_w i) k). assumption.
Qed.

Lemma first_written_once : forall l x o, x_first x = Some o -> x_first (fold_left aux_step l x) = Some o.
Proof. induction l as [|s l IH]; intros x o H; [assumption|]. cbn [fold_left]. apply IH, first_stable, H. Qed.

Definition is_new (s : mstmt) : bool := match s with MNew _ _ => true | _ => false end.

Lemma step_not_new x s : is_new s = false -> x_first (aux_step x s) = x_first x /\ x_next (aux_step x s) = x_next x.
Proof.
  intros H. destruct s; cbn [aux_step]; try discriminate H.
  - destruct (is_macro s); [rewrite reach_first|]; split; try reflexivity.
    destruct x as [f n l o e]. unfold x_reach. cbn [x_first]. destruct f as [[|p]|]; try reflexivity.
    cbn [x_insts]. match goal with |- context [existsb ?f ?l] => destruct (existsb f l) end; reflexivity.
  - split; reflexivity.
  - split; reflexivity.
  - split; reflexivity.
  - destruct (find_s i_slot j (x_insts x)) as [i|]; [|split; reflexivity]. destruct (i_shared i); [split; reflexivity|].
    destruct (post_item (i_w i)). split; reflexivity.
  - destruct (find_s i_slot j (x_insts x)) as [i|]; [|split; reflexivity]. destruct (i_shared i); [split; reflexivity|].
    destruct (final_item j (i_w i) k). split; reflexivity.
Qed.

(* firstPlugin_ is the first plugin constructed since it was NULL, whatever is constructed or destroyed afterwards *)
Lemma first_is_first_constructed : forall l x, x_first x = None ->
  x_first (fold_left aux_step l x) = if existsb is_new l then Some (x_next x) else None.
Proof.
  induction l as [|s l IH]; intros x H; [assumption|]. cbn [fold_left existsb].
  destruct (is_new s) eqn:E; cbn [orb].
  - destruct s; try discriminate E. apply first_written_once. cbn [aux_step x_first]. rewrite H. reflexivity.
  - destruct (step_not_new x s E) as [E1 E2]. rewrite IH by congruence. rewrite E2. reflexivity.
Qed.

(* the object the first further plugin is: its serial is the value firstPlugin_ takes *)
Lemma new_serial x j sh : exists i, find_s i_slot j (x_insts (aux_step x (MNew j sh))) = Some i /\ i_serial i = x_next x /\ i_w i = w_start d_init.
Proof.
  cbn [aux_step x_insts]. rewrite find_app_new, find_del_same. cbn [i_slot]. rewrite N.eqb_refl. eexists. split; [reflexivity|]. split; reflexivity.
Qed.

(* the runner's plugin constructed while firstPlugin_ is NULL: every later macro goes to it and to nobody else *)
Lemma main_first_forever l x : x_first x = None -> x_first (fold_left aux_step l (x_main_ctor x)) = Some 0.
Proof. intros H. apply first_written_once. unfold x_main_ctor. cbn [x_first]. rewrite H. reflexivity. Qed.

Lemma macro_to_main st b : is_macro b = true -> x_first (snd st) = Some 0 -> mstep st (MS b) = (step (fst st) b, snd st).
Proof.
  intros Hm Hf. unfold mstep. cbn [main_step aux_step]. rewrite Hm, Hf. unfold x_reach. rewrite Hf. reflexivity.
Qed.

(* firstPlugin_ points to another object (o <> 0) that exists: that object's members change, the runner's plugin is not reached *)
Lemma macro_to_other st b o : is_macro b = true -> x_first (snd st) = Some o -> o <> 0 ->
  existsb (fun i => i_serial i =? o) (x_insts (snd st)) = true ->
  fst (mstep st (MS b)) = fst st /\
  x_insts (snd (mstep st (MS b))) = map (fun i => if i_serial i =? o then with_w i (exec_stmt (i_w i) b) else i) (x_insts (snd st)) /\
  x_err (snd (mstep st (MS b))) = x_err (snd st).
Proof.
  intros Hm Hf Ho He. unfold mstep. cbn [main_step aux_step fst snd]. rewrite Hm, Hf. unfold x_reach. rewrite Hf.
  destruct o as [|p]; [congruence|]. rewrite He. cbn. auto.
Qed.

(* ------------------------------------------------------------------ the two components of the machine *)
Lemma snd_fold : forall l st, snd (fold_left mstep l st) = fold_left aux_step l (snd st).
Proof. induction l as [|s l IH]; intros st; [reflexivity|]. cbn [fold_left]. rewrite IH. reflexivity. Qed.

Lemma fst_fold : forall l st, x_first (snd st) = Some 0 -> fst (fold_left mstep l st) = fold_left (main_step (Some 0)) l (fst st).
Proof.
  induction l as [|s l IH]; intros st H; [reflexivity|]. cbn [fold_left]. rewrite IH.
  - unfold mstep. cbn [fst]. rewrite H. reflexivity.
  - unfold mstep. cbn [snd]. apply first_stable, H.
Qed.

(* ------------------------------------------------------------------ B. the runner's plugin does not notice the other instances *)
Lemma er_app a b : er (a ++ b) = er a ++ er b.
Proof. unfold er. apply flat_map_app. Qed.

Lemma upto_er : forall l, upto_fail (er l) = (er (fst (m_upto_fail l)), snd (m_upto_fail l)).
Proof.
  induction l as [|s r IH]; [reflexivity|].
  destruct s as [b| | | | | |];
    try (cbn [m_upto_fail]; change (er (?x :: r)) with (er r); rewrite IH; destruct (m_upto_fail r) as [e f]; reflexivity).
  change (er (MS b :: r)) with (b :: er r).
  destruct b; cbn [m_upto_fail upto_fail]; try reflexivity;
    rewrite IH; destruct (m_upto_fail r) as [e f]; reflexivity.
Qed.

Lemma m_run_phase_spec : forall l st,
  m_run_phase st l = (fold_left mstep (fst (m_upto_fail l)) st, negb (snd (m_upto_fail l))).
Proof.
  induction l as [|s r IH]; intros st; [reflexivity|].
  destruct s as [b| | | | | |];
    try (cbn [m_run_phase m_upto_fail]; rewrite IH; destruct (m_upto_fail r) as [e f]; reflexivity).
  destruct b; cbn [m_run_phase m_upto_fail]; try reflexivity; rewrite IH; destruct (m_upto_fail r) as [e f]; reflexivity.
Qed.

Lemma m_run_body_spec st t : m_run_body st t = fold_left mstep (m_phase_text t) st.
Proof.
  unfold m_run_body, m_phase_text. rewrite m_run_phase_spec.
  destruct (m_upto_fail (mt_setup t)) as [a fa]. cbn [fst snd].
  destruct fa; cbn [negb]; rewrite !m_run_phase_spec; cbn [fst]; rewrite !fold_left_app; reflexivity.
Qed.

Lemma m_inside_spec st t :
  fold_left mstep (mt_ipost t) (m_run_body (fold_left mstep (mt_ipre t) st) t) = fold_left mstep (m_executed t) st.
Proof. unfold m_executed. rewrite !fold_left_app, m_run_body_spec. reflexivity. Qed.

Lemma er_phase_text t : er (m_phase_text t) = phase_text (er_test t).
Proof.
  unfold m_phase_text, phase_text, er_test. cbn [t_setup t_body t_teardown]. rewrite !upto_er.
  destruct (m_upto_fail (mt_setup t)) as [a fa]. cbn [fst snd]. rewrite !er_app. destruct fa; reflexivity.
Qed.
Lemma er_executed t : er (m_executed t) = executed (er_test t).
Proof. unfold m_executed, executed. rewrite !er_app, er_phase_text. reflexivity. Qed.
Lemma er_text_of t : er (m_text_of t) = text_of (er_test t).
Proof. unfold m_text_of, text_of. rewrite er_app, er_executed. reflexivity. Qed.
Lemma er_trace s : er (mtrace s) = trace (erase s).
Proof.
  unfold mtrace, trace, erase. cbn [s_tests s_tail]. rewrite er_app. f_equal.
  induction (m_tests s) as [|t ts IH]; [reflexivity|]. cbn [flat_map map]. rewrite er_app, IH, er_text_of. reflexivity.
Qed.

Lemma no_shared_upto : forall l, no_shared_new l = true -> no_shared_new (fst (m_upto_fail l)) = true.
Proof.
  unfold no_shared_new. induction l as [|s r IH]; intros H; [reflexivity|].
  cbn [forallb] in H. apply andb_true_iff in H. destruct H as [H1 H2]. specialize (IH H2).
  destruct s as [b| | | | | |]; try (cbn [m_upto_fail]; destruct (m_upto_fail r) as [e f]; cbn [fst forallb] in *; apply andb_true_iff; split; assumption).
  destruct b; cbn [m_upto_fail]; try reflexivity; destruct (m_upto_fail r) as [e f]; cbn [fst forallb] in *; rewrite IH; reflexivity.
Qed.
Lemma no_shared_app a b : no_shared_new (a ++ b) = no_shared_new a && no_shared_new b.
Proof. unfold no_shared_new. apply forallb_app. Qed.

Lemma no_shared_executed t : window_ok t = true -> no_shared_new (m_executed t) = true.
Proof.
  unfold window_ok. rewrite !andb_true_iff. intros ((((H1 & H2) & H3) & H4) & H5).
  unfold m_executed, m_phase_text. pose proof (no_shared_upto _ H2) as U2. pose proof (no_shared_upto _ H3) as U3. pose proof (no_shared_upto _ H4) as U4.
  destruct (m_upto_fail (mt_setup t)) as [a fa]. cbn [fst] in U2.
  rewrite !no_shared_app, H1, H5, U2, U4. destruct fa; [reflexivity|]. rewrite U3. reflexivity.
Qed.

(* inside the checking window (no plugin is constructed on the runner's detector there) *)
Lemma main_sim_in : forall l w, no_shared_new l = true -> fold_left (main_step (Some 0)) l w = fold_left step (er l) w.
Proof.
  induction l as [|s r IH]; intros w H; [reflexivity|].
  unfold no_shared_new in H. cbn [forallb] in H. apply andb_true_iff in H. destruct H as [H1 H2]. fold (no_shared_new r) in H2.
  cbn [fold_left]. destruct s as [b|j sh| | | | |]; try (change (er (?x :: r)) with (er r); cbn [main_step]; apply IH; assumption).
  - change (er (MS b :: r)) with (b :: er r). cbn [fold_left main_step]. rewrite IH by assumption. destruct (is_macro b); reflexivity.
  - destruct sh; [discriminate H1|]. change (er (MNew j false :: r)) with (er r). cbn [main_step]. apply IH; assumption.
Qed.

Definition is_mem (s : stmt) : bool := match s with SAlloc _ _ _ | SFree _ | SRealloc _ _ => true | _ => false end.
Lemma mem_only_is l : mem_only l = forallb is_mem l.
Proof. reflexivity. Qed.

Lemma dealloc_period d a : d_period (fst (d_dealloc d a)) = d_period d.
Proof. unfold d_dealloc. destruct (t_remove a (d_tbl d)) as [[n|] t']; reflexivity. Qed.
Lemma mem_stmt_period d s : d_period (mem_stmt d s) = d_period d.
Proof. destruct s; cbn [mem_stmt]; try reflexivity; [apply dealloc_period|]. unfold d_store. cbn [d_period]. apply dealloc_period. Qed.
Lemma step_mem w b : is_mem b = true -> step w b = with_det w (mem_stmt (w_det w) b).
Proof. destruct b; try discriminate; reflexivity. Qed.
Lemma with_det_same w : with_det w (w_det w) = w.
Proof. destruct w; reflexivity. Qed.
Lemma with_period_same d : with_period d (d_period d) = d.
Proof. destruct d; reflexivity. Qed.

(* statements outside a test: they return normally and only touch the detector *)
Lemma fold_step_mem : forall l w, mem_only l = true -> fold_left step l w = with_det w (fold_left mem_stmt l (w_det w)).
Proof.
  induction l as [|s r IH]; intros w H; [symmetry; apply with_det_same|].
  rewrite mem_only_is in H. cbn [forallb] in H. apply andb_true_iff in H. destruct H as [H1 H2].
  cbn [fold_left]. rewrite IH by exact H2. rewrite (step_mem _ _ H1). reflexivity.
Qed.

(* outside the checking window: enable() on a detector that is in period `enabled` changes nothing *)
Lemma main_sim_out : forall l w, d_period (w_det w) = SEnabled -> mem_only (er l) = true ->
  fold_left (main_step (Some 0)) l w = fold_left step (er l) w.
Proof.
  induction l as [|s r IH]; intros w Hp H; [reflexivity|].
  cbn [fold_left]. destruct s as [b|j sh| | | | |]; try (change (er (?x :: r)) with (er r) in *; cbn [main_step]; apply IH; assumption).
  - change (er (MS b :: r)) with (b :: er r) in *. rewrite mem_only_is in H. cbn [forallb] in H. apply andb_true_iff in H. destruct H as [H1 H2].
    cbn [fold_left main_step]. assert (Em : is_macro b = false) by (destruct b; try discriminate H1; reflexivity). rewrite Em.
    apply IH; [|exact H2]. rewrite (step_mem _ _ H1). cbn [with_det w_det]. rewrite mem_stmt_period. exact Hp.
  - change (er (MNew j sh :: r)) with (er r) in *. cbn [main_step]. destruct sh; [|apply IH; assumption].
    rewrite <- Hp, with_period_same, with_det_same. apply IH; assumption.
Qed.

Lemma between_period P0 w T0 a : Between P0 w T0 a -> d_period (w_det w) = SEnabled.
Proof. intros [HR _ Hp _ _ _ _ _]. destruct HR as (_ & _ & E & _). congruence. Qed.

Lemma m_run_one_sim w x t : x_first x = Some 0 -> d_period (w_det w) = SEnabled ->
  mem_only (er (mt_before t)) = true -> window_ok t = true ->
  fst (fst (m_run_one (w, x) t)) = fst (run_one w (er_test t)) /\
  snd (m_run_one (w, x) t) = snd (run_one w (er_test t)) /\
  snd (fst (m_run_one (w, x) t)) = fold_left aux_step (m_text_of t) x.
Proof.
  intros Hf Hp Hb Hw. unfold m_run_one. rewrite m_inside_spec.
  set (st0 := fold_left mstep (mt_before t) (w, x)).
  assert (E0 : fst st0 = with_det w (fold_left mem_stmt (t_before (er_test t)) (w_det w))).
  { subst st0. rewrite fst_fold by exact Hf. cbn [fst]. rewrite main_sim_out by assumption. apply fold_step_mem. assumption. }
  assert (X0 : snd st0 = fold_left aux_step (mt_before t) x) by (subst st0; rewrite snd_fold; reflexivity).
  assert (F0 : x_first (snd st0) = Some 0) by (rewrite X0; apply first_written_once; exact Hf).
  set (st2 := fold_left mstep (m_executed t) (pre_action (fst st0), snd st0)).
  assert (E2 : fst st2 = fold_left step (executed (er_test t)) (pre_action (fst st0))).
  { subst st2. rewrite fst_fold by exact F0. cbn [fst]. rewrite main_sim_in by (apply no_shared_executed; exact Hw). rewrite er_executed. reflexivity. }
  assert (X2 : snd st2 = fold_left aux_step (m_text_of t) x).
  { subst st2. rewrite snd_fold. cbn [snd]. rewrite X0. unfold m_text_of. rewrite fold_left_app. reflexivity. }
  unfold run_one. rewrite inside_spec, <- E0, E2.
  destruct (post_action (fold_left step (executed (er_test t)) (pre_action (fst st0)))) as [w3 rep]. cbn [fst snd].
  repeat split; try reflexivity. exact X2.
Qed.

Lemma m_run_tests_sim P0 : forall ts w x T0 a rest, x_first x = Some 0 -> Between P0 w T0 a ->
  valid_trace (addrs (pure_recs P0 T0)) (flat_text (map er_test ts) ++ rest) = true ->
  forallb (fun t => mem_only (er (mt_before t))) ts = true -> forallb window_ok ts = true ->
  fst (fst (m_run_tests (w, x) ts)) = fst (run_tests w (map er_test ts)) /\
  snd (m_run_tests (w, x) ts) = snd (run_tests w (map er_test ts)) /\
  snd (fst (m_run_tests (w, x) ts)) = fold_left aux_step (flat_map m_text_of ts) x.
Proof.
  induction ts as [|t ts IH]; intros w x T0 a rest Hf HB HV Hb Hw; [cbn; auto|].
  cbn [forallb] in Hb, Hw. apply andb_true_iff in Hb, Hw. destruct Hb as [Hb1 Hb2], Hw as [Hw1 Hw2].
  destruct (m_run_one_sim w x t Hf (between_period _ _ _ _ HB) Hb1 Hw1) as (E1 & E2 & E3).
  cbn [map flat_text flat_map] in HV. fold (flat_text (map er_test ts)) in HV. rewrite <- app_assoc in HV.
  destruct (one_test P0 w T0 a (er_test t) _ HB HV) as (a1 & HB1 & HV1 & _).
  cbn [m_run_tests map run_tests flat_map]. destruct (m_run_one (w, x) t) as [[w1 x1] i]. cbn [fst snd] in *.
  destruct (run_one w (er_test t)) as [w1' i']. cbn [fst snd] in *. subst w1' i'.
  assert (Hf1 : x_first x1 = Some 0) by (rewrite E3; apply first_written_once; exact Hf).
  destruct (IH w1 x1 _ a1 rest Hf1 HB1 HV1 Hb2 Hw2) as (F1 & F2 & F3).
  destruct (m_run_tests (w1, x1) ts) as [[w2 x2] is]. destruct (run_tests w1 (map er_test ts)) as [w2' is']. cbn [fst snd] in *.
  subst w2' is'. repeat split; try reflexivity. rewrite fold_left_app, <- E3. exact F3.
Qed.

Lemma pre_sim : forall l w x, forallb is_MS l = true -> mem_only (er l) = true ->
  fold_left mstep l (w, x) = (fold_left step (er l) w, x).
Proof.
  induction l as [|s r IH]; intros w x H1 H2; [reflexivity|].
  cbn [forallb] in H1. apply andb_true_iff in H1. destruct H1 as [Hs H1]. destruct s as [b| | | | | |]; try discriminate Hs.
  change (er (MS b :: r)) with (b :: er r) in *. rewrite mem_only_is in H2. cbn [forallb] in H2. apply andb_true_iff in H2. destruct H2 as [Hb H2].
  cbn [fold_left]. unfold mstep at 2. cbn [fst snd main_step aux_step].
  assert (Em : is_macro b = false) by (destruct b; try discriminate Hb; reflexivity). rewrite Em. apply IH; assumption.
Qed.

Lemma forallb_map' {A B} (f : A -> B) (p : B -> bool) l : forallb p (map f l) = forallb (fun a => p (f a)) l.
Proof. induction l as [|a l IH]; [reflexivity|]. cbn. rewrite IH. reflexivity. Qed.

Record mvalid_parts (s : mscenario) : Prop := mkVP {
  vp_before : forallb (fun t => mem_only (er (mt_before t))) (m_tests s) = true;
  vp_tail : mem_only (er (m_tail s)) = true;
  vp_pre : mem_only (er (m_pre s)) = true;
  vp_trace : valid_trace [] (er (m_pre s) ++ flat_text (map er_test (m_tests s)) ++ er (m_tail s)) = true;
  vp_base : valid (erase s) = true;
  vp_preMS : forallb is_MS (m_pre s) = true;
  vp_win : forallb window_ok (m_tests s) = true;
  vp_insts : insts_ok [] (mtrace s) = true }.

Lemma mvalid_split s : mvalid s = true -> mvalid_parts s.
Proof.
  unfold mvalid. rewrite !andb_true_iff. intros (((HV & H2) & H3) & H4).
  pose proof HV as HV'. unfold valid in HV'. rewrite !andb_true_iff in HV'. destruct HV' as (((((V1 & V2) & V3) & _) & _) & V6).
  constructor; try assumption.
  unfold erase in V1. cbn [s_tests] in V1. rewrite forallb_map' in V1. exact V1.
Qed.

(* the other instances are invisible to the runner's plugin: its verdicts and its final report are those of the program without
   them; what the run leaves in the other components is a fold over the executed statements *)
Lemma mrun_parts s : mvalid s = true ->
  let X := fold_left aux_step (mtrace s) (x_main_ctor x_init) in
  mrun s = mkMO (run (erase s)) (x_err X) (x_obs X).
Proof.
  intros HV X. destruct (mvalid_split s HV) as [Hb Ht Hp Htr _ Hms Hw _].
  unfold mrun, run, erase. cbn [s_pre s_tests s_tail s_tbd].
  rewrite (pre_sim _ _ _ Hms Hp). cbn [fst snd]. rewrite (fold_step_mem _ _ Hp). cbn [with_det w_det w_none].
  destruct (between_init _ _ Htr) as (a0 & HB0 & HV0).
  set (w1 := w_start (fold_left mem_stmt (er (m_pre s)) d_init)) in *.
  assert (Hf : x_first (x_main_ctor x_init) = Some 0) by reflexivity.
  destruct (m_run_tests_sim _ (m_tests s) w1 _ [] a0 _ Hf HB0 HV0 Hb Hw) as (E1 & E2 & E3).
  destruct (all_tests _ (map er_test (m_tests s)) w1 [] a0 _ HB0 HV0) as (a1 & HB1 & _ & _).
  destruct (m_run_tests (w1, x_main_ctor x_init) (m_tests s)) as [[w2 x2] items]. cbn [fst snd] in *.
  destruct (run_tests w1 (map er_test (m_tests s))) as [w2' items']. cbn [fst snd] in *. subst w2' items'.
  assert (Hf2 : x_first x2 = Some 0) by (rewrite E3; apply first_written_once; exact Hf).
  assert (EX : snd (fold_left mstep (m_tail s) (w2, x2)) = X).
  { rewrite snd_fold. cbn [snd]. rewrite E3. subst X. unfold mtrace. rewrite fold_left_app. reflexivity. }
  rewrite EX. rewrite fst_fold by exact Hf2. cbn [fst]. rewrite (main_sim_out _ _ (between_period _ _ _ _ HB1) Ht), (fold_step_mem _ _ Ht).
  reflexivity.
Qed.

Lemma main_is_base_run s : mvalid s = true -> mo_main (mrun s) = run (erase s).
Proof. intros HV. rewrite (mrun_parts s HV). reflexivity. Qed.

(* ------------------------------------------------------------------ C. every further instance against the text of its statements *)
Lemma allocs_nil : allocs [] = 0.
Proof. reflexivity. Qed.

(* the blocks alive after T, as the text has them *)
Lemma vt_live T B : valid_trace [] (T ++ B) = true -> valid_trace (addrs (pure_recs [] T)) B = true.
Proof.
  intros H. destruct (between_init [] (T ++ B) H) as (a0 & HB0 & HV0).
  destruct (outside_ops [] _ _ _ T B HB0 HV0) as (a1 & _ & HV1). exact HV1.
Qed.
Lemma vt_prefix T B : valid_trace [] (T ++ B) = true -> valid_trace [] T = true.
Proof.
  generalize (@nil N). induction T as [|s r IH]; intros live H; [reflexivity|].
  destruct s; cbn [app valid_trace] in *; try (eapply IH; eassumption).
  - rewrite !andb_true_iff in *. destruct H as ((((H1 & H2) & H3) & H4) & H5). repeat split; try assumption. eapply IH; eassumption.
  - rewrite !andb_true_iff in *. destruct H as ((H1 & H2) & H3). repeat split; try assumption. eapply IH; eassumption.
  - rewrite !andb_true_iff in *. destruct H as (H1 & H2). split; [assumption|]. eapply IH; eassumption.
Qed.

Lemma upto_mem : forall W, mem_only W = true -> upto_fail W = (W, false).
Proof.
  induction W as [|s r IH]; intros H; [reflexivity|]. rewrite mem_only_is in H. cbn [forallb] in H. apply andb_true_iff in H. destruct H as [H1 H2].
  destruct s; try discriminate H1; cbn [upto_fail]; rewrite (IH H2); reflexivity.
Qed.
Definition win_test (W : list stmt) : ltest := mkT [] [] [] W [] [].
Lemma executed_win W : mem_only W = true -> executed (win_test W) = W.
Proof.
  intros H. unfold executed, phase_text, win_test. cbn [t_ipre t_setup t_body t_teardown t_ipost upto_fail]. rewrite (upto_mem _ H).
  cbn [fst app]. rewrite !app_nil_r. reflexivity.
Qed.
Lemma text_of_win W : mem_only W = true -> text_of (win_test W) = W.
Proof. intros H. unfold text_of. rewrite (executed_win _ H). reflexivity. Qed.

(* an instance's preTestAction, the statements through its detector, its postTestAction: one test of the instance *)
Lemma post_item_run_one w0 W : mem_only W = true -> post_item (fold_left step W (pre_action w0)) = run_one w0 (win_test W).
Proof.
  intros H. unfold run_one, post_item. cbn [t_before win_test fold_left]. rewrite with_det_same.
  rewrite inside_spec. fold (win_test W). rewrite (executed_win _ H).
  destruct (steps_scalars W (pre_action w0)) as (_ & _ & _ & C & _). cbn zeta in C. rewrite C. cbn [pre_action w_fc0]. reflexivity.
Qed.

Definition RelI (i : inst) (t : tinst) : Prop :=
  i_slot i = tn_slot t /\ i_shared i = tn_shared t /\
  (tn_shared t = false ->
   valid_trace [] (tn_all t) = true /\
   match tn_win t with
   | None => exists a, Between [] (i_w i) (tn_text t) a
   | Some W => mem_only W = true /\ exists w0 a, Between [] w0 (tn_text t) a /\ i_w i = fold_left step W (pre_action w0)
   end).
Definition RelJ (x : aux) (al : list tinst) (j : N) : Prop :=
  match find_s i_slot j (x_insts x), find_s tn_slot j al with
  | None, None => True
  | Some i, Some t => RelI i t
  | _, _ => False
  end.
Definition Rel (x : aux) (al : list tinst) : Prop := forall j, RelJ x al j.

Lemma rel_find x al j t : Rel x al -> find_s tn_slot j al = Some t -> exists i, find_s i_slot j (x_insts x) = Some i /\ RelI i t.
Proof. intros H E. specialize (H j). unfold RelJ in H. rewrite E in H. destruct (find_s i_slot j (x_insts x)) as [i|]; [eauto|contradiction]. Qed.
Lemma rel_none x al j : Rel x al -> find_s tn_slot j al = None -> find_s i_slot j (x_insts x) = None.
Proof. intros H E. specialize (H j). unfold RelJ in H. rewrite E in H. destruct (find_s i_slot j (x_insts x)) as [i|]; [contradiction|reflexivity]. Qed.

Lemma tn_add_slot b t : tn_slot (tn_add b t) = tn_slot t.
Proof. unfold tn_add. destruct (tn_win t); reflexivity. Qed.
Lemma sec_ok_mem b : sec_stmt_ok b = true -> is_mem b = true.
Proof. destruct b; try discriminate; reflexivity. Qed.
Lemma mem_only_snoc W b : mem_only W = true -> is_mem b = true -> mem_only (W ++ [b]) = true.
Proof. intros H1 H2. rewrite mem_only_is in *. rewrite forallb_app, H1. cbn. rewrite H2. reflexivity. Qed.

(* the instances untouched by a statement about slot j *)
Lemma rel_frame x al j (fi : inst -> inst) (ft : tinst -> tinst) x' :
  Rel x al -> (forall i, i_slot (fi i) = i_slot i) -> (forall t, tn_slot (ft t) = tn_slot t) ->
  x_insts x' = upd_s i_slot j fi (x_insts x) ->
  (forall i t, find_s i_slot j (x_insts x) = Some i -> find_s tn_slot j al = Some t -> RelI i t -> RelI (fi i) (ft t)) ->
  Rel x' (upd_s tn_slot j ft al).
Proof.
  intros HR Hfi Hft Ex Hj j'. unfold RelJ. rewrite Ex. destruct (N.eq_dec j' j) as [->|Hn].
  - rewrite !find_upd_same by assumption. specialize (HR j). unfold RelJ in HR.
    destruct (find_s i_slot j (x_insts x)) as [i|] eqn:Ei, (find_s tn_slot j al) as [t|] eqn:Et; cbn [option_map]; try assumption.
    apply (Hj i t); auto.
  - rewrite !find_upd_other by assumption. exact (HR j').
Qed.

Definition step_good (x : aux) (al : list tinst) (s : mstmt) (al' : list tinst) : Prop :=
  Rel (aux_step x s) al' /\ x_err (aux_step x s) = x_err x /\
  (if observes s then exists o, x_obs (aux_step x s) = x_obs x ++ [o] /\ demand al s o = true
   else x_obs (aux_step x s) = x_obs x).

Lemma step_new x al j sh : Rel x al -> find_s tn_slot j al = None -> step_good x al (MNew j sh) (al ++ [mkTN j sh [] None]).
Proof.
  intros HR En. split; [|split; reflexivity].
  intros j'. unfold RelJ. cbn [aux_step x_insts]. rewrite !find_app_new. cbn [i_slot tn_slot].
  destruct (N.eq_dec j' j) as [->|Hn].
  - rewrite find_del_same, En, N.eqb_refl. split; [reflexivity|]. split; [reflexivity|]. cbn [tn_shared tn_all tn_text tn_win i_w].
    intros _. split; [reflexivity|]. destruct (between_init [] [] eq_refl) as (a & HB & _). exists a. exact HB.
  - rewrite find_del_other by assumption. specialize (HR j'). unfold RelJ in HR.
    destruct (j =? j') eqn:E; [apply N.eqb_eq in E; congruence|].
    destruct (find_s i_slot j' (x_insts x)) as [i|], (find_s tn_slot j' al) as [t|]; assumption.
Qed.

Lemma step_del x al j : Rel x al -> step_good x al (MDel j) (del_s tn_slot j al).
Proof.
  intros HR. split; [|split; reflexivity].
  intros j'. unfold RelJ. cbn [aux_step with_insts x_insts]. destruct (N.eq_dec j' j) as [->|Hn].
  - rewrite !find_del_same. exact I.
  - rewrite !find_del_other by assumption. exact (HR j').
Qed.

Lemma step_on x al j b t : Rel x al -> find_s tn_slot j al = Some t -> tn_shared t = false -> sec_stmt_ok b = true ->
  valid_trace [] (tn_all t ++ [b]) = true -> step_good x al (MOn j b) (upd_s tn_slot j (tn_add b) al).
Proof.
  intros HR Et Hs Hb HV. split; [|split; reflexivity].
  refine (rel_frame x al j _ (tn_add b) (aux_step x (MOn j b)) HR _ (tn_add_slot b) eq_refl _).
  - intros i. cbv beta. destruct (i_shared i); reflexivity.
  - intros i t' Ei Et' (S1 & S2 & S3). rewrite Et in Et'. injection Et' as <-. cbv beta. rewrite S2, Hs. specialize (S3 Hs). destruct S3 as [V3 W3].
    unfold RelI, tn_add, tn_all in *. pose proof (sec_ok_mem _ Hb) as Hm.
    destruct (tn_win t) as [W|]; cbn [tn_slot tn_shared tn_text tn_win i_slot i_shared i_w with_w].
    + split; [assumption|]. split; [assumption|]. intros _. split; [rewrite app_assoc; exact HV|].
      destruct W3 as (Mw & w0 & a & HB & Ew). split; [apply mem_only_snoc; assumption|]. exists w0, a. split; [assumption|].
      rewrite fold_left_app, <- Ew. cbn [fold_left]. symmetry. apply step_mem. exact Hm.
    + split; [assumption|]. split; [assumption|]. intros _. rewrite app_nil_r in *. split; [exact HV|].
      destruct W3 as (a & HB). pose proof (vt_live _ _ HV) as HL. rewrite <- (app_nil_r [b]) in HL.
      destruct (outside_ops [] _ _ _ [b] [] HB HL) as (a' & HB' & _). exists a'. exact HB'.
Qed.

Lemma step_pre x al j t : Rel x al -> find_s tn_slot j al = Some t -> tn_shared t = false -> tn_win t = None ->
  step_good x al (MPre j) (upd_s tn_slot j tn_open al).
Proof.
  intros HR Et Hs Hw. split; [|split; reflexivity].
  refine (rel_frame x al j _ tn_open (aux_step x (MPre j)) HR _ (fun t => eq_refl) eq_refl _).
  - intros i. cbv beta. destruct (i_shared i); reflexivity.
  - intros i t' Ei Et' (S1 & S2 & S3). rewrite Et in Et'. injection Et' as <-. cbv beta. rewrite S2, Hs. specialize (S3 Hs). destruct S3 as [V3 W3].
    unfold RelI, tn_open, tn_all in *. rewrite Hw in *. cbn [tn_slot tn_shared tn_text tn_win i_slot i_shared i_w with_w].
    split; [assumption|]. split; [assumption|]. intros _. split; [assumption|]. split; [reflexivity|].
    destruct W3 as (a & HB). exists (i_w i), a. split; [assumption|reflexivity].
Qed.

Lemma step_post x al j t W : Rel x al -> find_s tn_slot j al = Some t -> tn_shared t = false -> tn_win t = Some W ->
  step_good x al (MPost j) (upd_s tn_slot j tn_close al).
Proof.
  intros HR Et Hs Hw. destruct (rel_find _ _ _ _ HR Et) as (i & Ei & S1 & S2 & S3). specialize (S3 Hs). destruct S3 as [V3 W3].
  rewrite Hw in W3. destruct W3 as (Mw & w0 & a & HB & Ew). unfold tn_all in V3. rewrite Hw in V3.
  pose proof (vt_live _ _ V3) as HL. rewrite <- (text_of_win W Mw), <- (app_nil_r (text_of (win_test W))) in HL.
  destruct (one_test [] w0 _ a (win_test W) [] HB HL) as (a' & HB' & _ & HG).
  replace (1 + allocs [] + allocs (tn_text t) + allocs (t_before (win_test W))) with (1 + allocs (tn_text t)) in HG
    by (change (t_before (win_test W)) with (@nil stmt); rewrite allocs_nil; lia).
  rewrite <- (post_item_run_one w0 W Mw), <- Ew in HG, HB'. rewrite (text_of_win W Mw) in HB'.
  unfold step_good. cbn [aux_step observes]. rewrite Ei, S2, Hs.
  destruct (post_item (i_w i)) as [w' it]. cbn [fst snd x_err x_obs] in *.
  assert (Hx : w_err w' = false) by (destruct HB'; assumption).
  split; [|split].
  - eapply rel_frame with (fi := fun i => with_w i w') (ft := tn_close);
      [exact HR|intros; reflexivity|intros; reflexivity|reflexivity|].
    intros i0 t0 Ei0 Et0 _. rewrite Ei in Ei0. injection Ei0 as <-. rewrite Et in Et0. injection Et0 as <-.
    unfold RelI, tn_close, tn_all. rewrite Hw. cbn [tn_slot tn_shared tn_text tn_win i_slot i_shared i_w with_w].
    split; [assumption|]. split; [assumption|]. intros _. rewrite app_nil_r. split; [assumption|]. exists a'. exact HB'.
  - rewrite Hx. apply orb_false_r.
  - eexists. split; [reflexivity|]. cbn [demand]. rewrite Et, Hw, N.eqb_refl. cbn [andb]. apply item_good_check. exact HG.
Qed.

Lemma leaked_base1 T : leaked (1 + allocs []) T = leaked 1 T.
Proof. reflexivity. Qed.

Lemma step_final x al j k t : Rel x al -> find_s tn_slot j al = Some t -> tn_shared t = false -> tn_win t = None ->
  step_good x al (MFinal j k) al.
Proof.
  intros HR Et Hs Hw. destruct (rel_find _ _ _ _ HR Et) as (i & Ei & S1 & S2 & S3). specialize (S3 Hs). destruct S3 as [V3 W3].
  rewrite Hw in W3. destruct W3 as (a & HB).
  pose proof (final_spec [] _ _ _ k HB) as HF. cbn zeta in HF. rewrite leaked_base1 in HF.
  unfold step_good. cbn [aux_step observes]. rewrite Ei, S2, Hs. unfold final_item.
  destruct (len (leaked 1 (tn_text t)) =? k) eqn:Ek.
  - rewrite HF. cbn [x_err x_obs]. split; [exact HR|]. split; [apply orb_false_r|].
    eexists. split; [reflexivity|]. cbn [demand]. rewrite Et, N.eqb_refl, Ek. reflexivity.
  - destruct HF as (l & -> & PL). cbn [x_err x_obs]. split; [exact HR|]. split; [apply orb_false_r|].
    eexists. split; [reflexivity|]. cbn [demand]. rewrite Et, N.eqb_refl, Ek. cbn [Bool.eqb andb].
    replace (is_nil l) with (is_nil (leaked 1 (tn_text t))) by (rewrite <- (perm_is_nil _ _ PL); destruct l; reflexivity).
    replace (len l) with (len (leaked 1 (tn_text t))).
    + apply check_report_perm. exact PL.
    + rewrite <- (len_map ent l). unfold len. rewrite (Permutation_length PL). reflexivity.
Qed.

Lemma is_some_false {A} (o : option A) : is_some o = false -> o = None.
Proof. destruct o; [discriminate|reflexivity]. Qed.

Lemma rel_step x al s al' : Rel x al -> x_first x = Some 0 -> tstep al s = Some al' -> step_good x al s al'.
Proof.
  intros HR Hf Ht. destruct s as [b|j sh|j|j b|j|j|j k]; cbn [tstep] in Ht.
  - injection Ht as <-. unfold step_good. cbn [aux_step observes].
    assert (E : (if is_macro b then x_reach x b else x) = x).
    { destruct (is_macro b); [|reflexivity]. unfold x_reach. rewrite Hf. reflexivity. }
    rewrite E. auto.
  - destruct ((j <? max_slots) && negb (is_some (find_s tn_slot j al))) eqn:E; [|discriminate]. injection Ht as <-.
    apply andb_true_iff in E. destruct E as [_ E]. apply negb_true_iff, is_some_false in E. apply step_new; assumption.
  - destruct (is_some (find_s tn_slot j al)); [|discriminate]. injection Ht as <-. apply step_del; assumption.
  - destruct (find_s tn_slot j al) as [t|] eqn:Et; [|discriminate].
    destruct (negb (tn_shared t) && sec_stmt_ok b && valid_trace [] (tn_all t ++ [b])) eqn:E; [|discriminate]. injection Ht as <-.
    rewrite !andb_true_iff, negb_true_iff in E. destruct E as ((E1 & E2) & E3). eapply step_on; eassumption.
  - destruct (find_s tn_slot j al) as [t|] eqn:Et; [|discriminate].
    destruct (negb (tn_shared t) && negb (is_some (tn_win t))) eqn:E; [|discriminate]. injection Ht as <-.
    rewrite !andb_true_iff, !negb_true_iff in E. destruct E as (E1 & E2). apply is_some_false in E2. eapply step_pre; eassumption.
  - destruct (find_s tn_slot j al) as [t|] eqn:Et; [|discriminate].
    destruct (negb (tn_shared t) && is_some (tn_win t)) eqn:E; [|discriminate]. injection Ht as <-.
    rewrite !andb_true_iff, !negb_true_iff in E. destruct E as (E1 & E2). destruct (tn_win t) as [W|] eqn:Ew; [|discriminate]. eapply step_post; eassumption.
  - destruct (find_s tn_slot j al) as [t|] eqn:Et; [|discriminate].
    destruct (negb (tn_shared t) && negb (is_some (tn_win t)) && (k <? 4294967296)) eqn:E; [|discriminate]. injection Ht as <-.
    rewrite !andb_true_iff, !negb_true_iff in E. destruct E as ((E1 & E2) & _). apply is_some_false in E2. eapply step_final; eassumption.
Qed.

Lemma rel_fold : forall tr x al, Rel x al -> x_first x = Some 0 -> insts_ok al tr = true ->
  exists os, x_obs (fold_left aux_step tr x) = x_obs x ++ os /\ spec_insts al tr os = true /\ x_err (fold_left aux_step tr x) = x_err x.
Proof.
  induction tr as [|s r IH]; intros x al HR Hf Hok.
  - exists []. rewrite app_nil_r. auto.
  - cbn [insts_ok] in Hok. destruct (tstep al s) as [al'|] eqn:Et; [|discriminate].
    destruct (rel_step _ _ _ _ HR Hf Et) as (HR' & He & Ho).
    destruct (IH _ _ HR' (first_stable _ _ _ Hf) Hok) as (os & E1 & E2 & E3).
    cbn [fold_left spec_insts]. rewrite Et, E1, E3, He. destruct (observes s).
    + destruct Ho as (o & -> & Hd). exists (o :: os). rewrite <- app_assoc. cbn [app]. rewrite Hd, E2. auto.
    + rewrite Ho. exists os. auto.
Qed.

Lemma rel_init : Rel (x_main_ctor x_init) [].
Proof. intros j. exact I. Qed.

(* ------------------------------------------------------------------ D. the whole run *)
Lemma instances_good s : mvalid s = true ->
  mo_err (mrun s) = false /\ spec_insts [] (mtrace s) (mo_sec (mrun s)) = true.
Proof.
  intros HV. rewrite (mrun_parts s HV). cbn [mo_err mo_sec].
  destruct (mvalid_split s HV) as [_ _ _ _ _ _ _ Hi].
  destruct (rel_fold _ _ _ rel_init eq_refl Hi) as (os & E1 & E2 & E3). rewrite E1, E3. split; [reflexivity|exact E2].
Qed.

Lemma mrun_meets_mspec s : mvalid s = true -> mspec s (mrun s) = true.
Proof.
  intros HV. unfold mspec. destruct (instances_good s HV) as [E1 E2]. rewrite E1, E2, (main_is_base_run s HV).
  destruct (mvalid_split s HV) as [_ _ _ _ Hb _ _ _]. rewrite (run_meets_spec _ Hb). reflexivity.
Qed.

(* ------------------------------------------------------------------ the named statements *)
(* the verdict table of C07_Main.verdict_iff, for the tests of a program with other instances *)
Lemma verdict_iff_multi s i : mvalid s = true -> (i < length (m_tests s))%nat ->
  let ex := executed (nth i (s_tests (erase s)) no_test) in
  let o := nth i (o_tests (mo_main (mrun s))) no_item in
  (ti_leak o = 1 <-> own_failures ex = 0 /\ asked_ignore ex = false /\ len (leaks_of (erase s) i) <> declared ex) /\
  (ti_leak o = 0 \/ ti_leak o = 1) /\
  ti_fail o = own_failures ex + ti_leak o.
Proof.
  intros HV Hi. rewrite (main_is_base_run s HV). destruct (mvalid_split s HV) as [_ _ _ _ Hb _ _ _].
  apply verdict_iff; [exact Hb|]. unfold erase. cbn [s_tests]. rewrite map_length. exact Hi.
Qed.

(* the text state after a prefix of the executed statements *)
Fixpoint tfold (al : list tinst) (tr : list mstmt) : option (list tinst) :=
  match tr with
  | [] => Some al
  | s :: r => match tstep al s with Some al' => tfold al' r | None => None end
  end.
Lemma insts_ok_app : forall p q al, insts_ok al (p ++ q) = true -> exists al', tfold al p = Some al' /\ insts_ok al' q = true.
Proof.
  induction p as [|s p IH]; intros q al H; [exists al; auto|].
  cbn [app insts_ok tfold] in *. destruct (tstep al s) as [al1|]; [|discriminate]. apply IH. exact H.
Qed.
Lemma rel_tfold : forall tr x al al', Rel x al -> x_first x = Some 0 -> tfold al tr = Some al' ->
  Rel (fold_left aux_step tr x) al' /\ x_first (fold_left aux_step tr x) = Some 0.
Proof.
  induction tr as [|s r IH]; intros x al al' HR Hf Ht.
  - injection Ht as <-. auto.
  - cbn [tfold] in Ht. destruct (tstep al s) as [al1|] eqn:Es; [|discriminate].
    destruct (rel_step _ _ _ _ HR Hf Es) as (HR' & _). cbn [fold_left]. eapply IH; [exact HR'|apply first_stable; exact Hf|exact Ht].
Qed.

(* at every point of the run, an instance (on a private detector) whose preTestAction is not pending -- in particular from its
   construction to its first preTestAction -- has its detector in period `enabled`, and its FinalReport(k) is silent exactly when
   the number of blocks obtained through that detector since the construction and not released is k; otherwise it lists them *)
Lemma instance_enabled s p q al' j t : mvalid s = true -> mtrace s = p ++ q -> tfold [] p = Some al' ->
  find_s tn_slot j al' = Some t -> tn_shared t = false -> tn_win t = None ->
  exists i, find_s i_slot j (x_insts (fold_left aux_step p (x_main_ctor x_init))) = Some i /\
    d_period (w_det (i_w i)) = SEnabled /\
    forall k, let out := leaked 1 (tn_text t) in
      (len out = k -> final_report (i_w i) k = (None, false)) /\
      (len out <> k -> exists l, final_report (i_w i) k = (Some l, false) /\ Permutation (map ent l) out).
Proof.
  intros HV Htr Hp Et Hs Hw.
  destruct (rel_tfold p _ _ _ rel_init eq_refl Hp) as [HR _].
  destruct (rel_find _ _ _ _ HR Et) as (i & Ei & _ & _ & S3). specialize (S3 Hs). destruct S3 as [_ W3]. rewrite Hw in W3. destruct W3 as (a & HB).
  exists i. split; [exact Ei|]. split; [exact (between_period _ _ _ _ HB)|].
  intros k out. pose proof (final_spec [] _ _ _ k HB) as HF. cbn zeta in HF. rewrite leaked_base1 in HF. fold out in HF.
  destruct (len out =? k) eqn:Ek.
  - apply N.eqb_eq in Ek. split; [intros _; exact HF|intros Hn; contradiction].
  - apply N.eqb_neq in Ek. split; [intros He; contradiction|intros _; exact HF].
Qed.

(* right after its construction: nothing outstanding, period `enabled` -- whatever firstPlugin_ is *)
Lemma new_instance_enabled x j : exists i, find_s i_slot j (x_insts (aux_step x (MNew j false))) = Some i /\
  d_period (w_det (i_w i)) = SEnabled /\ i_shared i = false.
Proof.
  cbn [aux_step x_insts]. rewrite find_app_new, find_del_same. cbn [i_slot]. rewrite N.eqb_refl. eexists. split; [reflexivity|]. split; reflexivity.
Qed.

(* ------------------------------------------------------------------ the hypotheses are satisfiable *)
Definition example_m : mscenario := mkMS
  [MS (SAlloc 20 5 0)]
  [ mkMT [MNew 0 false; MOn 0 (SAlloc 1 4 2)] [] [] [MS (SAlloc 1 4 0); MFinal 0 0; MDel 0] [] [];   (* an instance made and destroyed around a leaking test *)
    mkMT [] [] [MNew 1 false] [MS (SExpect 1); MS (SAlloc 2 8 1); MPre 1; MOn 1 (SAlloc 7 2 2); MOn 1 (SAlloc 8 3 2); MOn 1 (SFree 7); MPost 1]
         [MDel 1] [];                                                                                (* declared one, leaks one; a nested test of the instance leaks one *)
    mkMT [MNew 2 true] [] [] [MS SIgnore; MS (SAlloc 3 1 0); MNew 0 false; MDel 0] [MDel 2] [];      (* an instance on the runner's detector *)
    mkMT [] [] [] [MS (SExpect 2); MS (SAlloc 4 1 2)] [] [] ]
  [MNew 3 false; MOn 3 (SAlloc 0 1 2); MFinal 3 1; MFinal 3 0] 0.
Example example_m_valid : mvalid example_m = true.
Proof. vm_compute. reflexivity. Qed.
Example example_m_run :
  map ti_leak (o_tests (mo_main (mrun example_m))) = [1; 0; 0; 1] /\
  mo_sec (mrun example_m) =
    [SIFinal 0 false false false 1 [(1, 4)]; SIPost 1 (mkTI 1 1 false false 1 [(2, 3)]); SIFinal 3 true false false 0 []; SIFinal 3 false false false 1 [(1, 1)]] /\
  mo_err (mrun example_m) = false.
Proof. vm_compute. repeat split; reflexivity. Qed.
Example example_m_prefix : exists p q al' t, mtrace example_m = p ++ q /\ tfold [] p = Some al' /\
  find_s tn_slot 0 al' = Some t /\ tn_shared t = false /\ tn_win t = None /\ leaked 1 (tn_text t) = [(1, 4)].
Proof.
  exists [MNew 0 false; MOn 0 (SAlloc 1 4 2)], (skipn 2 (mtrace example_m)). eexists. eexists. vm_compute. repeat split; reflexivity.
Qed.
Example example_first : x_first (fold_left aux_step [MNew 4 false; MNew 5 true; MDel 4; MNew 4 false] x_init) = Some 1 /\
  x_first (fold_left aux_step [MNew 4 false; MDel 4; MNew 5 false] (x_main_ctor x_init)) = Some 0.
Proof. vm_compute. split; reflexivity. Qed.
(* a macro while firstPlugin_ points to another object that exists *)
Example example_macro_other :
  let st := fold_left mstep [MNew 4 false; MS (SExpect 3)] (w_start d_init, x_init) in
  w_expected (fst st) = 0 /\ map (fun i => w_expected (i_w i)) (x_insts (snd st)) = [3].
Proof. vm_compute. split; reflexivity. Qed.
(* not a program the property speaks about: a plugin constructed on the runner's detector INSIDE a test calls enable() on it; the
   blocks obtained afterwards are stamped `enabled`, not `checking` (the limit "enable()/disable() inside a test") *)
Definition example_shared_in_window : mscenario :=
  mkMS [] [mkMT [] [] [] [MNew 0 true; MS (SAlloc 1 1 0)] [] []] [] 0.
Example example_shared_in_window_not_valid :
  mvalid example_shared_in_window = false /\ map ti_leak (o_tests (mo_main (mrun example_shared_in_window))) = [0].
Proof. vm_compute. split; reflexivity. Qed.
