(* C13 -- the oracle theorem: for every valid scenario the model's observation satisfies the model-free spec. *)
From Coq Require Import NArith ZArith Bool List Lia ZifyBool.
From CppUVerif Require Import lib.Str C13_Text C13_Alloc C13_Model C13_Proofs C13_Replace C13_Printable C13_Concat C13_Atoi.
Import ListNotations.
Local Open Scope N_scope.
Arguments diff : simpl never.

Ltac split_valid V :=
  repeat match type of V with (_ && _) = true => let V2 := fresh "V" in apply andb_true_iff in V; destruct V as [V V2] end.
Ltac nn := repeat match goal with H : nonul ?s = true |- _ => apply nonul_NN in H end.
Lemma expected_ok o : expected o <> VErr.
Proof.
  destruct o; cbn [expected]; unfold bz; try discriminate;
  try (match goal with |- context [match ?x with _ => _ end] => destruct x end; discriminate).
Qed.
Lemma eval_expected o : valid o = true -> eval o = expected o.
Proof.
  destruct o; cbn [valid eval expected]; intro V; split_valid V;
  try (match goal with |- context [printable_m] => pose proof (nonul_bytes _ V) as Vb end);
  try (match goal with |- context [AtoI] => pose proof (nonul_bytes _ V) as Vb end);
  try (match goal with |- context [AtoU] => pose proof (nonul_bytes _ V) as Vb end); nn; unfold cs, bz.
  - rewrite StrLen_ok by assumption. reflexivity.
  - destruct (StrCmp_ok a b [] [] V V0) as [d [E S]]. rewrite E. cbn. rewrite S. reflexivity.
  - destruct (StrNCmp_ok n a b [] [] V V0) as [d [E S]]. rewrite E. cbn. rewrite S. reflexivity.
  - rewrite StrStr_ok by assumption. cbn. destruct (find_sub a b); reflexivity.
  - destruct (MemCmp_ok n a b) as [d [E S]]; [lia | lia |]. rewrite E. cbn. rewrite S. reflexivity.
  - rewrite contains_ok by assumption. reflexivity.
  - unfold containsNoCase_m. rewrite !lowerCase_ok by assumption. cbn [bind].
    rewrite contains_ok by (apply NN_lower; assumption). reflexivity.
  - rewrite startsWith_ok by assumption. reflexivity.
  - rewrite endsWith_ok by assumption. reflexivity.
  - rewrite count_ok by assumption. reflexivity.
  - rewrite equal_ok by assumption. reflexivity.
  - unfold equalsNoCase_m. rewrite !lowerCase_ok by assumption. cbn [bind].
    rewrite equal_ok by (apply NN_lower; assumption). reflexivity.
  - unfold find_m. rewrite findFrom_ok by assumption. cbn. destruct (t_find_from a 0 ch); reflexivity.
  - rewrite findFrom_ok by assumption. cbn. destruct (t_find_from a start ch); reflexivity.
  - destruct (subString_ok a [] b n V) as [buf [E C]]. rewrite E. cbn. rewrite C. reflexivity.
  - destruct (subString_ok a [] b NPOS V) as [buf [E C]]. rewrite E. cbn. rewrite C.
    unfold t_substr, t_takeN. f_equal.
    assert (N.of_nat (length (t_skipN b a)) <= N.of_nat (length a)).
    { unfold t_skipN. destruct (N.of_nat (length a) <=? b); [cbn; lia|]. rewrite skipn_length. lia. }
    replace (N.of_nat (length (t_skipN b a)) <=? NPOS) with true by lia. reflexivity.
  - rewrite lowerCase_ok by assumption. cbn. rewrite cstr_of_cs by (apply NN_lower; assumption). reflexivity.
  - rewrite replaceChar_ok by assumption. cbn. rewrite cstr_of_cut. reflexivity.
  - rewrite ordinal_ok. reflexivity.
  - destruct (replaceStr_ok a to w V V1 V0) as [buf [E C]]. unfold cs in E. rewrite E. cbn. rewrite C. reflexivity.
  - destruct (printable_ok a Vb V) as [buf [E C]]. unfold cs in E. rewrite E. cbn. rewrite C. reflexivity.
  - rewrite append_ok by assumption. cbn. rewrite app_assoc, cstr_of_cs by (apply NN_app; split; assumption). reflexivity.
  - rewrite plus_ok by assumption. cbn. rewrite app_assoc, cstr_of_cs by (apply NN_app; split; assumption). reflexivity.
  - rewrite copyToBuffer_ok by assumption. reflexivity.
  - rewrite format_ok by (apply NN_app; split; assumption). cbn. rewrite cstr_of_cs by (apply NN_app; split; assumption). reflexivity.
  - rewrite AtoI_ok; [reflexivity | exact Vb | unfold t_fits_int in V0; lia].
  - rewrite AtoU_ok by exact Vb. reflexivity.
Qed.
Lemma pairing_ok o : pairing o = true.
Proof. destruct o; try reflexivity. apply format_paired. Qed.
Lemma run_meets_spec o : valid o = true -> spec o (run o) = true.
Proof.
  intro V. unfold spec, run. cbn [o_val o_ref o_paired]. rewrite (eval_expected o V), pairing_ok.
  rewrite oval_eqb_refl by apply expected_ok. reflexivity.
Qed.
(* memory safety and termination of every modelled operation: the model's result is never an error value *)
Lemma run_safe o : valid o = true -> o_val (run o) <> VErr.
Proof. intro V. cbn. rewrite (eval_expected o V). apply expected_ok. Qed.

