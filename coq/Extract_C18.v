From Coq Require Import ExtrOcamlBasic NArith ZArith.
From CppUVerif Require Import C18_Model C18_ModelG.
Extraction "c18_model.ml" C18_Model.run C18_Model.spec C18_Model.valid C18_ModelG.grun C18_ModelG.gspec C18_ModelG.gvalid BinInt.Z.of_N.
