From Coq Require Import ExtrOcamlBasic NArith ZArith.
From CppUVerif Require Import C18_Model C18_ModelG C18_ModelE C18_ModelW.
Extraction "c18_model.ml" C18_Model.run C18_Model.spec C18_Model.valid C18_ModelG.grun C18_ModelG.gspec C18_ModelG.gvalid C18_ModelE.erun C18_ModelE.espec C18_ModelE.evalid C18_ModelW.wrun C18_ModelW.wspec C18_ModelW.wvalid BinInt.Z.of_N.
