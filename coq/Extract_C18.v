From Coq Require Import ExtrOcamlBasic NArith ZArith.
From CppUVerif Require Import C18_Model.
Extraction "c18_model.ml" C18_Model.run C18_Model.spec C18_Model.valid BinInt.Z.of_N.
