From Coq Require Import ExtrOcamlBasic NArith ZArith.
From CppUVerif Require Import C18_Model C18_ModelG C18_ModelE.
Extraction "c18_model.ml" C18_Model.run C18_Model.spec C18_Model.valid C18_ModelG.grun C18_ModelG.gspec C18_ModelG.gvalid C18_ModelE.erun C18_ModelE.espec C18_ModelE.evalid BinInt.Z.of_N.
