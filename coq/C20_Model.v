(* C20 -- executable mirror of TeamCityTestOutput (src/CppUTest/TeamCityTestOutput.cpp) driven by the callback order of
   TestRegistry::runAllTests (test scripts and per-test callbacks from C16_Events; the loop with name filters here), a parser for TeamCity service messages, and the model-free oracle `spec`.
   No proofs here. *)
From Coq Require Import NArith Bool List.
From Coq Require String Ascii.
Import String.StringSyntax.
Delimit Scope string_scope with string.
From CppUVerif Require Import lib.Str C16_Events.
Import ListNotations.
Local Open Scope N_scope.

Definition B (s : String.string) : bytes := map Ascii.N_of_ascii (String.list_ascii_of_string s).

(* ------------------------------------------------------------------------------------------------------------
   printEscaped: one pass over the bytes; ' | [ ] get a | in front, CR becomes |r, LF becomes |n. *)
Definition tc_esc (c : N) : bytes :=
  if (c =? 39) || (c =? 124) || (c =? 91) || (c =? 93) then [124; c]
  else if c =? 13 then [124; 114]
  else if c =? 10 then [124; 110]
  else [c].
Definition tc_escape (s : bytes) : bytes := flat_map tc_esc s.

(* StringFrom(size_t) / StringFrom(long) of a non-negative number: %lu *)
Fixpoint dec_go (fuel : nat) (n : N) (acc : bytes) : bytes :=
  match fuel with
  | O => acc
  | S f => let d := 48 + n mod 10 in let q := n / 10 in if q =? 0 then d :: acc else dec_go f q (d :: acc)
  end.
Definition dec (n : N) : bytes := dec_go (S (N.size_nat n)) n [].

(* ------------------------------------------------------------------------------------------------------------
   What the writer emits.  A value is a list of segments: Raw = bytes handed to print() as they are (literal text,
   numbers), Esc = bytes handed to printEscaped(). *)
Inductive seg := Raw (s : bytes) | Esc (s : bytes).
Record pmsg := { pm_name : bytes; pm_attrs : list (bytes * list seg) }.
Inductive item := IMsg (m : pmsg) | IText (s : bytes).

Definition L_marker := Eval vm_compute in B "##teamcity["%string.
Definition L_name := Eval vm_compute in B "name"%string.
Definition L_message := Eval vm_compute in B "message"%string.
Definition L_details := Eval vm_compute in B "details"%string.
Definition L_duration := Eval vm_compute in B "duration"%string.
Definition L_testSuiteStarted := Eval vm_compute in B "testSuiteStarted"%string.
Definition L_testSuiteFinished := Eval vm_compute in B "testSuiteFinished"%string.
Definition L_testStarted := Eval vm_compute in B "testStarted"%string.
Definition L_testFinished := Eval vm_compute in B "testFinished"%string.
Definition L_testIgnored := Eval vm_compute in B "testIgnored"%string.
Definition L_testFailed := Eval vm_compute in B "testFailed"%string.
Definition L_TEST_failed := Eval vm_compute in B "TEST failed ("%string.
Definition L_close_colon := Eval vm_compute in B "): "%string.

Definition seg_print (x : seg) : bytes := match x with Raw s => s | Esc s => tc_escape s end.
Definition segs_print (l : list seg) : bytes := flat_map seg_print l.
Definition attr_print (a : bytes * list seg) : bytes := [32] ++ fst a ++ [61; 39] ++ segs_print (snd a) ++ [39].
Definition msg_print (m : pmsg) : bytes := L_marker ++ pm_name m ++ flat_map attr_print (pm_attrs m) ++ [93; 10].
Definition item_print (i : item) : bytes := match i with IMsg m => msg_print m | IText s => s end.

(* TestRegistry::runAllTests with strict name filters (-sn): a test runs iff there is no filter or its name equals one of them
   (UtestShell::shouldRun / TestFilter::match); the group callbacks do not depend on the filters.
   Run options: with "run ignored tests" (-ri, TestRegistry::setRunIgnored) the loop calls test->setRunIgnored() on every shell
   BEFORE anything is reported about it.  UtestShell::setRunIgnored is empty; IgnoredUtestShell::setRunIgnored sets runIgnored_,
   after which willRun / runOneTest / getMacroName are those of UtestShell: the shell is a normal test from then on (the flag
   stays set on later passes over the registry). *)
Definition unignore (t : test) : test :=
  {| t_group := t_group t; t_name := t_name t; t_file := t_file t; t_line := t_line t; t_ignored := false; t_body := t_body t |}.
Definition arm (ri : bool) (t : test) : test := if ri then unignore t else t.     (* if (runIgnored_) test->setRunIgnored(); *)
Definition selected (fs : list bytes) (t : test) : bool :=
  match fs with [] => true | _ => existsb (bytes_eqb (t_name t)) fs end.
Definition sel_events (fs : list bytes) (t : test) : list ev := if selected fs t then test_events t else [].
Fixpoint reg_loop_sel (ri : bool) (fs : list bytes) (groupStart : bool) (ts : list test) : list ev :=
  match ts with
  | [] => []
  | t :: rest =>
      let t' := arm ri t in
      (if groupStart then [EGroupStart t'] else []) ++ sel_events fs t' ++
      (if end_of_group t' rest then EGroupEnd :: reg_loop_sel ri fs true rest else reg_loop_sel ri fs false rest)
  end.
Definition events_sel (ri : bool) (fs : list bytes) (ts : list test) : list ev := reg_loop_sel ri fs true ts.
(* the body of a scripted test is executed (Utest::run reaches testBody) once per pass iff the shell is selected and, as armed,
   not ignored; the harness counts the executions *)
Definition exec_count (fs : list bytes) (t' : test) : N := if selected fs t' && negb (t_ignored t') then 1 else 0.
Definition pass_exec (ri : bool) (fs : list bytes) (ts : list test) : list N := map (fun t => exec_count fs (arm ri t)) ts.
(* CommandLineTestRunner::runAllTests: `passes` runs over the same registry and the same output object (-r<n>); the shells keep
   what setRunIgnored did to them *)
Fixpoint passes_events (ri : bool) (fs : list bytes) (passes : nat) (ts : list test) : list ev :=
  match passes with
  | O => []
  | S k => events_sel ri fs ts ++ passes_events ri fs k (map (arm ri) ts)
  end.
Fixpoint passes_exec (ri : bool) (fs : list bytes) (passes : nat) (ts : list test) : list N :=
  match passes with
  | O => []
  | S k => pass_exec ri fs ts ++ passes_exec ri fs k (map (arm ri) ts)
  end.

(* the writer's members: currtest_, currGroup_, groupOpen_ (the last one added by the repair of D15) *)
Record tcst := { c_test : option test; c_group : bytes; c_open : bool }.
Definition tc_init : tcst := {| c_test := None; c_group := []; c_open := false |}.

Definition named (kind : bytes) (nm : bytes) : pmsg := {| pm_name := kind; pm_attrs := [(L_name, [Esc nm])] |}.

Section Writer.
Variable pathseg : bytes -> seg.     (* how printFailure copies the test's file name: Esc after the repair of D15, Raw before *)
Variable use_flag : bool.            (* true: printCurrentGroupEnded tests groupOpen_ (repaired); false: tests currGroup_ == "" *)
Variable dur : N.                    (* milliseconds the clock seam advances while a test body runs *)

(* printFailure *)
Definition failure_pmsg (t : test) (file : bytes) (line : N) (msg : bytes) : pmsg :=
  {| pm_name := L_testFailed;
     pm_attrs := [(L_name, [Esc (t_name t)]);
                  (L_message,
                   (if negb (bytes_eqb (t_file t) file) || (line <? t_line t)      (* isOutsideTestFile() || isInHelperFunction() *)
                    then [Raw L_TEST_failed; pathseg (t_file t); Raw [58]; Raw (dec (t_line t)); Raw L_close_colon] else [])
                   ++ [Esc file; Raw [58]; Raw (dec line)]);
                  (L_details, [Esc msg])] |}.

Definition tc_step (st : tcst) (e : ev) : tcst * list item :=
  match e with
  | EGroupStart t =>      (* printCurrentGroupStarted *)
      ({| c_test := c_test st; c_group := t_group t; c_open := true |}, [IMsg (named L_testSuiteStarted (t_group t))])
  | EGroupEnd =>          (* printCurrentGroupEnded *)
      if (if use_flag then negb (c_open st) else bytes_eqb (c_group st) []) then (st, [])
      else ({| c_test := c_test st; c_group := c_group st; c_open := false |}, [IMsg (named L_testSuiteFinished (c_group st))])
  | ETestStart t =>       (* printCurrentTestStarted; willRun() = negb t_ignored *)
      ({| c_test := Some t; c_group := c_group st; c_open := c_open st |},
       IMsg (named L_testStarted (t_name t)) :: (if t_ignored t then [IMsg (named L_testIgnored (t_name t))] else []))
  | ETestEnd _ =>         (* printCurrentTestEnded *)
      match c_test st with
      | None => (st, [])
      | Some t => (st, [IMsg {| pm_name := L_testFinished;
                               pm_attrs := [(L_name, [Esc (t_name t)]); (L_duration, [Raw (dec (if t_ignored t then 0 else dur))])] |}])
      end
  | EPrint s => (st, [IText s])                   (* TestOutput::print -> printBuffer *)
  | EFailure t f l m => (st, [IMsg (failure_pmsg t f l m)])
  end.

Fixpoint tc_items (st : tcst) (es : list ev) : list item :=
  match es with
  | [] => []
  | e :: r => let '(st', out) := tc_step st e in out ++ tc_items st' r
  end.
Definition render_with (ri : bool) (passes : nat) (fs : list bytes) (ts : list test) : bytes :=
  flat_map item_print (tc_items tc_init (passes_events ri fs passes ts)).
End Writer.

(* ------------------------------------------------------------------------------------------------------------
   The pieces: every call of printBuffer, in order.  print(literal) / print(number) hand one piece to printBuffer, printEscaped hands
   one piece per character of its argument (the character, or | and the character / n / r).  The literals are those of the source:
   "##teamcity[<kind> <key1>='", between two values "' <key>='", at the end "']\n". *)
Definition seg_pieces (x : seg) : list bytes := match x with Raw s => [s] | Esc s => map tc_esc s end.
Fixpoint attrs_pieces (a : bytes * list seg) (r : list (bytes * list seg)) {struct r} : list bytes :=
  flat_map seg_pieces (snd a) ++
  match r with
  | [] => [[39; 93; 10]]
  | b :: r' => ([39; 32] ++ fst b ++ [61; 39]) :: attrs_pieces b r'
  end.
Definition msg_pieces (m : pmsg) : list bytes :=
  match pm_attrs m with
  | [] => [L_marker ++ pm_name m ++ [93; 10]]
  | a :: r => (L_marker ++ pm_name m ++ [32] ++ fst a ++ [61; 39]) :: attrs_pieces a r
  end.
Definition item_pieces (i : item) : list bytes := match i with IMsg m => msg_pieces m | IText s => [s] end.

(* ------------------------------------------------------------------------------------------------------------
   The console path the TeamCity output inherits: ConsoleTestOutput::printBuffer(s) = PlatformSpecificFPuts(s, stdout); flush();
   ConsoleTestOutput::flush() = PlatformSpecificFlush().  What the platform is asked to do, call by call: *)
Inductive wop := WPuts (s : bytes) | WFlush.
Definition console_printBuffer (s : bytes) : list wop := [WPuts s; WFlush].
Definition console (pieces : list bytes) : list wop := flat_map console_printBuffer pieces.
(* what has reached standard output after these calls (flushes move no byte) *)
Definition wop_bytes (o : wop) : bytes := match o with WPuts s => s | WFlush => [] end.
Definition written (ops : list wop) : bytes := flat_map wop_bytes ops.

(* ------------------------------------------------------------------------------------------------------------
   Very verbose mode (-vv, TestOutput::verbose(level_veryVerbose)): UtestShell::runOneTestInCurrentProcess and Utest::run hand
   progress texts to TestOutput::printVeryVerbose around the stages of a test that is run (an IgnoredUtestShell that is not run only
   counts); they reach printBuffer as they are.  With exceptions enabled a fail() leaves the body before "after body".
   Verbose mode (-v) changes nothing: TeamCityTestOutput overrides printCurrentTestStarted / printCurrentTestEnded without calling
   the base class, so neither the formatted test name, the " - n ms" text nor the progress dots of TestOutput are printed. *)
Definition vv_pre : list bytes := Eval vm_compute in
  map (fun x => 10 :: B x) ["-- before runAllPreTestAction: "; "-- after runAllPreTestAction: "; "---- before createTest: "; "---- after createTest: ";
                           "------ before runTest: "; "-------- before setup: "; "-------- after  setup: "; "----------  before body: "]%string.
Definition vv_after_body : bytes := Eval vm_compute in 10 :: B "----------  after body: "%string.
Definition vv_tail : list bytes := Eval vm_compute in
  map (fun x => 10 :: B x) ["--------  before teardown: "; "--------  after teardown: "; "------ after runTest: "; "---- before destroyTest: ";
                           "---- after destroyTest: "; "-- before runAllPostTestAction: "; "-- after runAllPostTestAction: "]%string.
Definition vv_post (completed : bool) : list bytes := (if completed then [vv_after_body] else []) ++ vv_tail.
(* running = the test announced last is run; ETestEnd c: c = 1 iff the body was left by fail() *)
Fixpoint vv_decorate (running : bool) (es : list ev) : list ev :=
  match es with
  | [] => []
  | ETestStart t :: r => ETestStart t :: (if t_ignored t then [] else map EPrint vv_pre) ++ vv_decorate (negb (t_ignored t)) r
  | ETestEnd c :: r => (if running then map EPrint (vv_post (c =? 0)) else []) ++ ETestEnd c :: vv_decorate false r
  | e :: r => e :: vv_decorate running r
  end.
Definition decorate (verb : N) (es : list ev) : list ev := if verb =? 2 then vv_decorate false es else es.

(* s_verb: 0 quiet, 1 verbose (-v), 2 very verbose (-vv).  s_sink: where the stream is observed - 0: a subclass that overrides
   printBuffer (a test double: the pieces themselves); 1: the PlatformSpecificFPuts / PlatformSpecificFlush seam under the real
   ConsoleTestOutput::printBuffer; 2: file descriptor 1 of the process under the real platform functions. *)
Record scenario := { s_dur : N; s_ri : bool; s_passes : nat; s_filters : list bytes; s_tests : list test; s_verb : N; s_sink : N }.
(* everything that reached the sink, in order; and for every pass, for every registered test in order, how often its body was executed *)
Record obs := { o_stream : bytes; o_exec : list N }.
Definition add_text (o : obs) (trailer : bytes) : obs := {| o_stream := o_stream o ++ trailer; o_exec := o_exec o |}.
Definition render_tc (dur : N) (ri : bool) (passes : nat) (fs : list bytes) (ts : list test) : bytes := render_with Esc true dur ri passes fs ts.
Definition run_exec (s : scenario) : list N := passes_exec (s_ri s) (s_filters s) (s_passes s) (s_tests s).
Definition run_events (s : scenario) : list ev := decorate (s_verb s) (passes_events (s_ri s) (s_filters s) (s_passes s) (s_tests s)).
Definition run_items_of (s : scenario) : list item := tc_items Esc true (s_dur s) tc_init (run_events s).
Definition run_pieces (s : scenario) : list bytes := flat_map item_pieces (run_items_of s).
Definition sink_stream (sink : N) (pieces : list bytes) : bytes := if sink =? 0 then concat pieces else written (console pieces).
Definition run (s : scenario) : obs := {| o_stream := sink_stream (s_sink s) (run_pieces s); o_exec := run_exec s |}.
Definition run_old_path (s : scenario) : obs :=     (* before the repair of D15 (1) *)
  {| o_stream := render_with Raw true (s_dur s) (s_ri s) (s_passes s) (s_filters s) (s_tests s); o_exec := run_exec s |}.
Definition run_old_group (s : scenario) : obs :=    (* before the repair of D15 (2) *)
  {| o_stream := render_with Esc false (s_dur s) (s_ri s) (s_passes s) (s_filters s) (s_tests s); o_exec := run_exec s |}.

(* scenarios the harness can hand to the real code: numbers are size_t, strings are C strings; text printed by test bodies
   (UT_PRINT) is copied into the stream as it is and is outside the property *)
Definition max_size : N := 18446744073709551615.
Definition cstring (s : bytes) : bool := forallb (fun c => negb (c =? 0) && (c <=? 255)) s.
Definition tc_okstmt (s : stmt) : bool :=
  match s with
  | SPrint _ => false
  | SFail f l m | SFailStop f l m => cstring f && (l <=? max_size) && cstring m
  end.
Definition tc_oktest (t : test) : bool :=
  cstring (t_group t) && cstring (t_name t) && cstring (t_file t) && (t_line t <=? max_size) && forallb tc_okstmt (t_body t).
Definition valid (s : scenario) : bool :=
  (s_dur s <=? max_size) && (s_verb s <=? 2) && (s_sink s <=? 2) && forallb cstring (s_filters s) && forallb tc_oktest (s_tests s).

(* ------------------------------------------------------------------------------------------------------------
   TeamCity service messages, read as the documentation defines them:
     ##teamcity[messageName attr='value' attr='value' ...]
   one message per line, starting the line; names are identifiers (a letter, then letters, digits, '-'); inside a value
   | escapes ' | [ ] and |n |r stand for LF CR.  The parser is strict: a raw ' ends the value, raw [ ] CR inside a value,
   an unknown escape, a duplicate attribute, anything after the closing ], or the marker in the middle of a line reject the
   stream.  Lines without the marker are ordinary build-log text and are skipped.  (The single-value form
   ##teamcity[name 'value'] and the escapes |x |l |p |0xNNNN are not accepted: the writer never uses them.) *)
Record message := { m_name : bytes; m_attrs : list (bytes * bytes) }.

Definition is_letter (c : N) : bool := ((65 <=? c) && (c <=? 90)) || ((97 <=? c) && (c <=? 122)).
Definition is_identc (c : N) : bool := is_letter c || ((48 <=? c) && (c <=? 57)) || (c =? 45).
Definition has_key (k : bytes) (attrs : list (bytes * bytes)) : bool := existsb (fun a => bytes_eqb (fst a) k) attrs.

(* decoding of the character after | *)
Definition unesc_char (d : N) : option N :=
  if (d =? 39) || (d =? 124) || (d =? 91) || (d =? 93) then Some d
  else if d =? 110 then Some 10 else if d =? 114 then Some 13 else None.
(* characters that may not stand raw inside a value *)
Definition raw_forbidden (c : N) : bool := (c =? 39) || (c =? 91) || (c =? 93) || (c =? 10) || (c =? 13).

Inductive mode :=
| MName (acc : bytes)                                             (* message name, newest first *)
| MSp (nm : bytes) (attrs : list (bytes * bytes))                 (* after white space: attribute, more space or ] *)
| MKey (nm : bytes) (attrs : list (bytes * bytes)) (k : bytes)    (* attribute name, newest first *)
| MQuote (nm : bytes) (attrs : list (bytes * bytes)) (k : bytes)  (* after = *)
| MVal (nm : bytes) (attrs : list (bytes * bytes)) (k : bytes) (acc : bytes)   (* inside '...', decoded text newest first *)
| MEsc (nm : bytes) (attrs : list (bytes * bytes)) (k : bytes) (acc : bytes)   (* after | *)
| MAfter (nm : bytes) (attrs : list (bytes * bytes))              (* after the closing ' *)
| MDone (nm : bytes) (attrs : list (bytes * bytes)).              (* after ] *)
(* attrs are kept newest first *)

Definition step (m : mode) (c : N) : option mode :=
  match m with
  | MName acc =>
      match acc with
      | [] => if is_letter c then Some (MName [c]) else None
      | _ => if is_identc c then Some (MName (c :: acc))
             else if c =? 32 then Some (MSp (rev acc) [])
             else if c =? 93 then Some (MDone (rev acc) [])
             else None
      end
  | MSp nm attrs =>
      if c =? 32 then Some m
      else if c =? 93 then Some (MDone nm attrs)
      else if is_letter c then Some (MKey nm attrs [c])
      else None
  | MKey nm attrs k =>
      if is_identc c then Some (MKey nm attrs (c :: k))
      else if c =? 61 then (if has_key (rev k) attrs then None else Some (MQuote nm attrs (rev k)))
      else None
  | MQuote nm attrs k => if c =? 39 then Some (MVal nm attrs k []) else None
  | MVal nm attrs k acc =>
      if c =? 39 then Some (MAfter nm ((k, rev_append acc []) :: attrs))
      else if c =? 124 then Some (MEsc nm attrs k acc)
      else if raw_forbidden c then None
      else Some (MVal nm attrs k (c :: acc))
  | MEsc nm attrs k acc =>
      match unesc_char c with Some x => Some (MVal nm attrs k (x :: acc)) | None => None end
  | MAfter nm attrs =>
      if c =? 32 then Some (MSp nm attrs)
      else if c =? 93 then Some (MDone nm attrs)
      else None
  | MDone _ _ => None
  end.

Fixpoint run_sm (m : mode) (s : bytes) : option mode :=
  match s with
  | [] => Some m
  | c :: r => match step m c with Some m' => run_sm m' r | None => None end
  end.

Definition parse_msg (s : bytes) : option message :=
  match run_sm (MName []) s with
  | Some (MDone nm attrs) => Some {| m_name := nm; m_attrs := rev attrs |}
  | _ => None
  end.

(* the stream cut at LF; the piece after the last LF is a line too *)
Fixpoint lines (s : bytes) : list bytes :=
  match s with
  | [] => [[]]
  | c :: r => if c =? 10 then [] :: lines r
              else match lines r with l :: ls => (c :: l) :: ls | [] => [[c]] end
  end.

Inductive line_kind := LPlain | LBad | LMsg (m : message).
Definition classify_line (l : bytes) : line_kind :=
  if is_prefix L_marker l then match parse_msg (skipn 11 l) with Some m => LMsg m | None => LBad end
  else if contains l L_marker then LBad else LPlain.

Fixpoint parse_lines (ls : list bytes) : option (list message) :=
  match ls with
  | [] => Some []
  | l :: r =>
      match classify_line l with
      | LBad => None
      | LPlain => parse_lines r
      | LMsg m => match parse_lines r with Some ms => Some (m :: ms) | None => None end
      end
  end.
Definition tc_parse (s : bytes) : option (list message) := parse_lines (lines s).

(* ------------------------------------------------------------------------------------------------------------
   The property, read off a parsed stream (model-free: no writer function is used below). *)
Definition get_attr (k : bytes) (m : message) : option bytes :=
  match find (fun a => bytes_eqb (fst a) k) (m_attrs m) with Some a => Some (snd a) | None => None end.
Definition attr_is (k : bytes) (m : message) (v : bytes) : bool :=
  match get_attr k m with Some x => bytes_eqb x v | None => false end.
Definition is_msg (kind : bytes) (m : message) : bool := bytes_eqb (m_name m) kind.

(* balance: suites do not nest, every suite start is closed by a finish of the same name, tests start only inside a suite
   and are closed by a finish of the same name before anything else starts, ignored/failed messages name the open test *)
Fixpoint balanced_go (suite tst : option bytes) (ms : list message) : bool :=
  match ms with
  | [] => match suite, tst with None, None => true | _, _ => false end
  | m :: r =>
      match get_attr L_name m with
      | None => false
      | Some n =>
          if is_msg L_testSuiteStarted m then
            match suite, tst with None, None => balanced_go (Some n) None r | _, _ => false end
          else if is_msg L_testSuiteFinished m then
            match suite, tst with Some g, None => bytes_eqb g n && balanced_go None None r | _, _ => false end
          else if is_msg L_testStarted m then
            match suite, tst with Some _, None => balanced_go suite (Some n) r | _, _ => false end
          else if is_msg L_testFinished m then
            match tst with Some t => bytes_eqb t n && balanced_go suite None r | None => false end
          else if is_msg L_testIgnored m || is_msg L_testFailed m then
            match tst with Some t => bytes_eqb t n && balanced_go suite tst r | None => false end
          else false
      end
  end.
Definition balanced (ms : list message) : bool := balanced_go None None ms.

Definition ends_with (v suf : bytes) : bool := bytes_eqb (skipn (length v - length suf) v) suf.
Definition loc_text (file : bytes) (line : N) : bytes := file ++ [58] ++ dec line.

(* one testFailed message against one failure of test t: names the test, details = the failure text, the location value ends
   with file:line of the failure and, when the failure is outside the test's file or above the test's line, also carries
   file:line of the test *)
Definition failure_ok (t : test) (f : bytes * N * bytes) (m : message) : bool :=
  let '(file, line, msg) := f in
  is_msg L_testFailed m && attr_is L_name m (t_name t) && attr_is L_details m msg
  && match get_attr L_message m with
     | Some v => ends_with v (loc_text file line)
                 && (if negb (bytes_eqb (t_file t) file) || (line <? t_line t) then contains v (loc_text (t_file t) (t_line t)) else true)
     | None => false
     end.

Fixpoint take_failures (t : test) (fs : list (bytes * N * bytes)) (ms : list message) : option (list message) :=
  match fs with
  | [] => Some ms
  | f :: fr => match ms with
               | m :: r => if failure_ok t f m then take_failures t fr r else None
               | [] => None
               end
  end.
(* "the test is run": it is not an IGNORE_TEST, or ignored tests are run (-ri) *)
Definition runs (ri : bool) (t : test) : bool := negb (t_ignored t) || ri.
Definition test_failures (ri : bool) (t : test) : list (bytes * N * bytes) := if runs ri t then all_failures (t_body t) else [].
Definition is_flag (t : test) (m : message) : bool := is_msg L_testIgnored m && attr_is L_name m (t_name t).

(* the messages of one test and the observed number of executions c of its body in this pass: started; then the test is flagged
   (testIgnored naming it) iff it is ignored and NOT run; a flagged test's body was not executed and it has no testFailed message,
   any other test's body was executed once and it has one testFailed per failure in order; finished *)
Definition take_test (ri : bool) (t : test) (c : N) (ms : list message) : option (list message) :=
  match ms with
  | m :: r =>
      if is_msg L_testStarted m && attr_is L_name m (t_name t) then
        let '(flagged, r1) := match r with
                              | i :: r' => if is_flag t i then (true, r') else (false, r)
                              | [] => (false, r)
                              end in
        if Bool.eqb flagged (negb (runs ri t)) && (c =? (if flagged then 0 else 1)) then
          match take_failures t (if flagged then [] else all_failures (t_body t)) r1 with
          | Some (e :: r2) => if is_msg L_testFinished e && attr_is L_name e (t_name t) then Some r2 else None
          | _ => None
          end
        else None
      else None
  | [] => None
  end.
(* the tests of one group against the execution counts (one count per registered test, selected or not) and the messages (only the
   selected tests have any; the body of a test that is not selected is not executed) *)
Fixpoint take_tests (ri : bool) (fs : list bytes) (g : list test) (cs : list N) (ms : list message) : option (list N * list message) :=
  match g with
  | [] => Some (cs, ms)
  | t :: r =>
      match cs with
      | c :: cr =>
          if selected fs t then
            match take_test ri t c ms with Some ms' => take_tests ri fs r cr ms' | None => None end
          else if c =? 0 then take_tests ri fs r cr ms else None
      | [] => None
      end
  end.
Definition group_name (g : list test) : bytes := match g with t :: _ => t_group t | [] => [] end.
(* the messages of one group (maximal run of consecutive registered tests with the same group name): the bracket is there even
   when the filters select none of its tests; inside it, the tests that the filters select *)
Definition take_suite (ri : bool) (fs : list bytes) (g : list test) (cs : list N) (ms : list message) : option (list N * list message) :=
  match ms with
  | m :: r =>
      if is_msg L_testSuiteStarted m && attr_is L_name m (group_name g) then
        match take_tests ri fs g cs r with
        | Some (cs', e :: r2) => if is_msg L_testSuiteFinished e && attr_is L_name e (group_name g) then Some (cs', r2) else None
        | _ => None
        end
      else None
  | [] => None
  end.
Fixpoint faithful (ri : bool) (fs : list bytes) (gs : list (list test)) (cs : list N) (ms : list message) : bool :=
  match gs with
  | [] => match cs, ms with [], [] => true | _, _ => false end
  | g :: r => match take_suite ri fs g cs ms with Some (cs', ms') => faithful ri fs r cs' ms' | None => false end
  end.

(* the groups of `passes` passes over the registry, one pass after the other *)
Definition pass_groups (passes : nat) (ts : list test) : list (list test) := concat (repeat (segments ts) passes).
Definition spec_msgs (ri : bool) (passes : nat) (fs : list bytes) (ts : list test) (cs : list N) (ms : list message) : bool :=
  balanced ms && faithful ri fs (pass_groups passes ts) cs ms.
(* Reading of a very verbose stream: the progress texts do not end in a line break, so a message written after one starts in the
   middle of a line.  There a message is recognised wherever the marker first occurs in a line; what stands before it is ordinary
   text, the message must still end the line (one message per line), and everything else is as strict as above.  On a stream the
   strict reading accepts, both readings return the same messages (C20_parse_any_extends_strict). *)
Fixpoint after_marker (l : bytes) : option bytes :=
  if is_prefix L_marker l then Some (skipn 11 l)
  else match l with [] => None | _ :: r => after_marker r end.
Definition classify_line_any (l : bytes) : line_kind :=
  match after_marker l with
  | Some b => match parse_msg b with Some m => LMsg m | None => LBad end
  | None => LPlain
  end.
Fixpoint parse_lines_any (ls : list bytes) : option (list message) :=
  match ls with
  | [] => Some []
  | l :: r =>
      match classify_line_any l with
      | LBad => None
      | LPlain => parse_lines_any r
      | LMsg m => match parse_lines_any r with Some ms => Some (m :: ms) | None => None end
      end
  end.
Definition tc_parse_any (s : bytes) : option (list message) := parse_lines_any (lines s).
Definition parse_for (verb : N) : bytes -> option (list message) := if verb =? 2 then tc_parse_any else tc_parse.

Definition spec (s : scenario) (o : obs) : bool :=
  match parse_for (s_verb s) (o_stream o) with
  | Some ms => spec_msgs (s_ri s) (s_passes s) (s_filters s) (s_tests s) (o_exec o) ms
  | None => false
  end.

(* the parser alone, for comparing it with an independent decoder on arbitrary byte strings *)
Definition parse_result (s : bytes) : option (list (bytes * list (bytes * bytes))) :=
  match tc_parse s with Some ms => Some (map (fun m => (m_name m, m_attrs m)) ms) | None => None end.
Definition parse_result_any (s : bytes) : option (list (bytes * list (bytes * bytes))) :=
  match tc_parse_any s with Some ms => Some (map (fun m => (m_name m, m_attrs m)) ms) | None => None end.

(* ------------------------------------------------------------------------------------------------------------
   Statement-level definitions used by the theorems (not extracted). *)
(* textbook decoding of an escaped value; None = the text is not a well-formed value *)
Fixpoint tc_unescape (s : bytes) : option bytes :=
  match s with
  | [] => Some []
  | c :: r =>
      if c =? 124 then
        match r with
        | d :: r' => match unesc_char d, tc_unescape r' with Some x, Some u => Some (x :: u) | _, _ => None end
        | [] => None
        end
      else if raw_forbidden c then None
      else match tc_unescape r with Some u => Some (c :: u) | None => None end
  end.
(* no ' [ ] LF CR stands unescaped: esc = the previous byte was an unpaired | *)
Fixpoint no_raw_special_go (esc : bool) (s : bytes) : bool :=
  match s with
  | [] => negb esc
  | c :: r => if esc then no_raw_special_go false r
              else if c =? 124 then no_raw_special_go true r
              else negb (raw_forbidden c) && no_raw_special_go false r
  end.
Definition no_raw_special (s : bytes) : bool := no_raw_special_go false s.

(* the messages the property demands of a run: per pass and group a suite bracket, per selected test a test bracket with the
   ignored flag iff the test is ignored and not run, and one failed message per failure of a test that is run *)
Definition mk_named (kind nm : bytes) : message := {| m_name := kind; m_attrs := [(L_name, nm)] |}.
Definition failure_text (t : test) (file : bytes) (line : N) : bytes :=
  (if negb (bytes_eqb (t_file t) file) || (line <? t_line t)
   then L_TEST_failed ++ t_file t ++ [58] ++ dec (t_line t) ++ L_close_colon else []) ++ loc_text file line.
Definition failure_msg (t : test) (f : bytes * N * bytes) : message :=
  let '(file, line, msg) := f in
  {| m_name := L_testFailed; m_attrs := [(L_name, t_name t); (L_message, failure_text t file line); (L_details, msg)] |}.
Definition test_msgs (dur : N) (ri : bool) (t : test) : list message :=
  mk_named L_testStarted (t_name t) :: (if runs ri t then [] else [mk_named L_testIgnored (t_name t)])
  ++ map (failure_msg t) (test_failures ri t)
  ++ [{| m_name := L_testFinished; m_attrs := [(L_name, t_name t); (L_duration, dec (if runs ri t then dur else 0))] |}].
Definition suite_msgs (dur : N) (ri : bool) (fs : list bytes) (g : list test) : list message :=
  mk_named L_testSuiteStarted (group_name g) :: flat_map (test_msgs dur ri) (filter (selected fs) g) ++ [mk_named L_testSuiteFinished (group_name g)].
Definition messages_of (dur : N) (ri : bool) (passes : nat) (fs : list bytes) (ts : list test) : list message :=
  flat_map (suite_msgs dur ri fs) (pass_groups passes ts).
(* the executions of test bodies the property demands of a run: per pass, per registered test, once iff selected and run *)
Definition exec_of (ri : bool) (passes : nat) (fs : list bytes) (ts : list test) : list N :=
  flat_map (map (fun t => if selected fs t && runs ri t then 1 else 0)) (pass_groups passes ts).

(* what a decoder must return for a printed message *)
Definition seg_dec (x : seg) : bytes := match x with Raw s => s | Esc s => s end.
Definition erase (m : pmsg) : message :=
  {| m_name := pm_name m; m_attrs := map (fun a => (fst a, flat_map seg_dec (snd a))) (pm_attrs m) |}.

(* ------------------------------------------------------------------------------------------------------------
   A line buffer between printBuffer and the platform (statement-level; not the code): bytes are collected in a buffer of `cap`
   bytes, a full buffer is written out, a line break writes the buffer out and flushes, the rest is written out when the output
   object is destroyed.  lossy = false: the character that finds the buffer full is stored after the buffer was written out (a
   harmless rewrite of ConsoleTestOutput); lossy = true: it is forgotten (red-team change C20-3 of round 3, cap = 255). *)
Definition write_line (buf : bytes) : list wop := match buf with [] => [] | _ => [WPuts buf] end.
Fixpoint linebuf_chars (lossy : bool) (cap : nat) (buf : bytes) (s : bytes) : list wop * bytes :=
  match s with
  | [] => ([], buf)
  | c :: r =>
      let '(o1, b1) := if Nat.ltb (length buf) cap then ([], buf ++ [c]) else (write_line buf, if lossy then [] else [c]) in
      let '(o2, b2) := if c =? 10 then (write_line b1 ++ [WFlush], []) else ([], b1) in
      let '(o3, b3) := linebuf_chars lossy cap b2 r in
      (o1 ++ o2 ++ o3, b3)
  end.
Fixpoint linebuf_pieces (lossy : bool) (cap : nat) (buf : bytes) (pieces : list bytes) : list wop :=
  match pieces with
  | [] => write_line buf                                   (* the destructor *)
  | p :: r => let '(o, b) := linebuf_chars lossy cap buf p in o ++ linebuf_pieces lossy cap b r
  end.
Definition linebuf (lossy : bool) (cap : nat) (pieces : list bytes) : list wop := linebuf_pieces lossy cap [] pieces.
Definition run_linebuf (lossy : bool) (cap : nat) (s : scenario) : obs :=
  {| o_stream := written (linebuf lossy cap (run_pieces s)); o_exec := run_exec s |}.
