(* C08 -- proofs, part 3: the spec on the model's own observations (one mock and the world of scopes), refutation of the code
   before the repair, and spec-level facts (order independence of the verdict clause, when a call succeeds, tie of veq to C09's
   equals, the global mock alone behaves as one mock). *)
From Coq Require Import ZArith NArith Bool List Lia Permutation.
From CppUVerif Require Import lib.CInt lib.Str C08_Model C08_Proofs C08_Proofs2 C08_Scopes C08_Count C08_Outs C08_Post.
From CppUVerif Require C09_Model C09_Proofs.
Import ListNotations.
Local Open Scope N_scope.

Lemma dkind_eqb_refl d : dkind_eqb d d = true.
Proof. destruct d; cbn; rewrite ?N.eqb_refl; reflexivity. Qed.
Lemma opt_pv_eqb_refl v : opt_pv_eqb v v = true.
Proof. destruct v; cbn; [apply pv_eqb_refl|reflexivity]. Qed.
Lemma list_eqb_refl {A} (eqb : A -> A -> bool) l : (forall x, eqb x x = true) -> list_eqb eqb l l = true.
Proof. intro H. induction l; cbn; [reflexivity|]. rewrite H, IHl. reflexivity. Qed.

(* the M-level statement "M passes iff the multisets (strict: the sequences) agree" for one scope's scenario *)
Definition verdict_agrees (k : canon) : Prop :=
  verdict_ok k = match fst (expected k) with None => true | Some _ => false end.

Lemma proj_lift_fail o (ef : option (N * dkind)) er :
  proj o = lift (ef, er) -> fail_ok (o_fail o) ef = true /\ o_rets o = er /\ passed_obs o = match ef with None => true | Some _ => false end.
Proof.
  unfold proj, lift, fail_ok, passed_obs. cbn [fst snd]. intro H. injection H as L1 L2.
  destruct (o_fail o) as [[i fl]|]; destruct ef as [[j d]|]; try discriminate L1.
  - inversion L1; subst. rewrite H1. rewrite N.eqb_refl, dkind_eqb_refl. auto.
  - auto.
Qed.

(* clauses 2 and 3 of the spec hold of the model on every judged scenario (consequence of L_refines_M);
   clause 1 holds whenever M's verdict is the multiset verdict *)
Lemma run_meets_spec_partial ops :
  (forall k, parse ops = Some k -> judged k = true -> verdict_agrees k) -> spec ops (run ops) = true.
Proof.
  intro HV. unfold spec. destruct (parse ops) as [k|] eqn:Hp; [|reflexivity].
  destruct (judged k) eqn:Hj; [|reflexivity]. cbn [negb].
  destruct (L_refines_M ops k Hp Hj) as [LR LO]. specialize (HV k eq_refl Hj). unfold verdict_agrees in HV.
  unfold expected in *. cbn [fst snd] in *. destruct (proj_lift_fail _ _ _ LR) as [A [B C]].
  rewrite A, B, C, HV, LO. rewrite eqb_reflx, andb_true_r. cbn [andb]. apply list_eqb_refl. apply opt_pv_eqb_refl.
Qed.

(* on judged scenarios the impossible failure is impossible: the "This cannot happen" FAIL is never delivered, and exactly the M
   diagnosis is *)
Lemma no_impossible_failure ops k i fl :
  parse ops = Some k -> judged k = true -> o_fail (run ops) = Some (i, fl) ->
  f_kind fl <> FCannotHappen /\ exists d, fst (expected k) = Some (i, d) /\ dkind_of (f_kind fl) = Some d.
Proof.
  intros Hp Hj Hf. destruct (L_refines_M ops k Hp Hj) as [LR _]. unfold proj, lift, expected in *. cbn [fst snd] in *. rewrite Hf in LR.
  injection LR as L1 _. destruct (mr_fail (expected_res k)) as [[j d]|]; [|discriminate]. inversion L1; subst.
  split; [intro X; rewrite X in H1; discriminate|]. exists d. auto.
Qed.

(* without onObject in the expectations the object diagnoses are unreachable (the fragment of the earlier version of this check) *)
Definition obj_kind (d : dkind) : bool := match d with DObjectMissing _ | DObjectUnexpected _ => true | _ => false end.
Definition no_obj (xs : list mexp) : Prop := forall x, In x xs -> sx_obj (x_e x) = None.
Definition liveM (f : name) (its : list item) (x : mexp) : bool := x_open x && (sx_f (x_e x) =? f) && agrees_upto (x_e x) its.
Lemma first_dead_no_obj f xs : no_obj xs -> forall rest seen,
  existsb (liveM f seen) xs = true ->
  match first_dead f xs seen rest with
  | Some (IObj _) => False
  | Some _ => True
  | None => existsb (liveM f (seen ++ rest)) xs = true
  end.
Proof.
  intro NO. induction rest as [|p r IH]; intros seen H; cbn [first_dead].
  - rewrite app_nil_r. exact H.
  - fold (liveM f (seen ++ [p])). destruct (existsb (liveM f (seen ++ [p])) xs) eqn:E.
    + specialize (IH (seen ++ [p]) E). rewrite <- app_assoc in IH. exact IH.
    + destruct p as [n v|n b|a]; try exact I.
      assert (X : existsb (liveM f (seen ++ [IObj a])) xs = existsb (liveM f seen) xs); [|congruence].
      apply existsb_ext'. intros x Hx. unfold liveM.
      rewrite agrees_upto_app. unfold agrees_upto at 2. cbn. rewrite (NO x Hx). rewrite !andb_true_r. reflexivity.
Qed.
Lemma deviation_no_obj f its o xs : no_obj xs -> consume f its o xs = None -> obj_kind (fst (deviation f its xs)) = false.
Proof.
  intros NO CN. unfold deviation. destruct (existsb (fun x => x_open x && (sx_f (x_e x) =? f)) xs) eqn:OP; cbn [negb].
  2: { destruct (0 <? _); reflexivity. }
  assert (L0 : existsb (liveM f []) xs = true).
  { rewrite <- OP. apply existsb_ext'. intros x _. unfold liveM. cbn. apply andb_true_r. }
  pose proof (first_dead_no_obj f xs NO its [] L0) as FD. cbn [app] in FD.
  destruct (first_dead f xs [] its) as [[n v|n b|a]|].
  - cbn [fst]. match goal with |- context [if ?b then _ else _] => destruct b end; reflexivity.
  - cbn [fst]. match goal with |- context [if ?b then _ else _] => destruct b end; reflexivity.
  - destruct FD.
  - apply existsb_exists in FD. destruct FD as [x [Hx Lx]]. cbn [fst].
    destruct (existsb (fun x0 => x_open x0 && (sx_f (x_e x0) =? f) && agrees_upto (x_e x0) its && negb (params_covered (x_e x0) its)) xs) eqn:E; [reflexivity|].
    exfalso. rewrite existsb_false in E. specialize (E x Hx). unfold liveM in Lx. rewrite Lx in E. cbn in E. apply negb_false_iff in E.
    assert (M : x_open x && matches (x_e x) f its = true).
    { apply andb_true_iff in Lx. destruct Lx as [Lx A]. apply andb_true_iff in Lx. destruct Lx as [O F]. rewrite O. unfold matches. rewrite F, A.
      unfold covers. unfold params_covered in E. rewrite E, (NO x Hx). reflexivity. }
    assert (X : exists xs' v, consume f its o xs = Some (xs', v)).
    { clear - Hx M. induction xs as [|y r IH]; [destruct Hx|]. cbn. destruct Hx as [Hx|Hx].
      - subst y. rewrite M. eauto.
      - destruct (x_open y && matches (x_e y) f its); [eauto|]. destruct (IH Hx) as [xs' [v H]]. rewrite H. eauto. }
    destruct X as [xs' [v X]]. congruence.
Qed.
Definition pend_ok (st : mst) : Prop := match s_pend st with Some d => obj_kind d = false | None => True end.
Lemma m_calls_no_obj ign kn : forall cs st i a j d,
  no_obj (s_xs st) -> pend_ok st -> mr_fail (m_calls ign kn st i cs a) = Some (j, d) -> obj_kind d = false.
Proof.
  induction cs as [|c r IH]; intros st i a j d NO PO H.
  - cbn in H. unfold m_final in H. cbn in H. unfold pend_ok in PO. destruct (s_pend st) as [d0|].
    + cbn in H. inversion H; subst. exact PO.
    + cbn in H. destruct (existsb x_open (s_xs st) || false); [inversion H; reflexivity|].
      destruct (existsb x_ooo (s_xs st) || false); [inversion H; reflexivity|discriminate H].
  - cbn [m_calls] in H. unfold m_call in H. unfold pend_ok in PO. destruct (s_pend st) as [d0|] eqn:P.
    + cbn in H. inversion H; subst. exact PO.
    + destruct (ign && negb (kn (sc_f c))).
      * apply (IH st _ _ j d NO) in H; [exact H|]. unfold pend_ok. rewrite P. exact I.
      * destruct (consume (sc_f c) (sc_items c) (s_order st + 1) (s_xs st)) as [[xs' e]|] eqn:CS.
        -- apply (IH _ _ _ j d) in H; [exact H| |exact I]. cbn [s_xs]. intros x Hx.
           apply (in_map x_e) in Hx. rewrite (consume_xe _ _ _ _ _ _ CS) in Hx. apply in_map_iff in Hx. destruct Hx as [x0 [E Hx0]]. rewrite <- E. apply NO. exact Hx0.
        -- pose proof (deviation_no_obj _ _ _ _ NO CS) as DV. destruct (deviation (sc_f c) (sc_items c) (s_xs st)) as [d1 df]. cbn [fst] in DV.
           destruct (df && negb (sc_want c)).
           ++ apply (IH _ _ _ j d) in H; [exact H|exact NO|]. unfold pend_ok. cbn. exact DV.
           ++ cbn in H. inversion H; subst. exact DV.
Qed.
Lemma no_object_failure ops k i fl :
  parse ops = Some k -> judged k = true -> (forall e, In e (k_exps k) -> sx_obj e = None) -> o_fail (run ops) = Some (i, fl) ->
  (forall f, f_kind fl <> FObjectMissing f) /\ (forall f, f_kind fl <> FObjectUnexpected f).
Proof.
  intros Hp Hj NO Hf. destruct (no_impossible_failure ops k i fl Hp Hj Hf) as [_ [d [E D]]].
  unfold expected, expected_res in E. cbn [fst] in E.
  assert (K : obj_kind d = false).
  { apply (m_calls_no_obj _ _ _ _ _ _ i d) in E; [exact E| |exact I]. cbn [mst0 s_xs]. intros x Hx. apply NO.
    apply (in_map x_e) in Hx. rewrite xe_init in Hx. exact Hx. }
  split; intros f X; rewrite X in D; cbn in D; inversion D; subst; discriminate K.
Qed.

(* a call is consumed iff some still-open expectation is exactly the call (same function, object, parameter set, outputs) *)
Lemma call_succeeds_iff f ps o xs :
  (exists xs' v, consume f ps o xs = Some (xs', v)) <-> (exists x, In x xs /\ x_open x = true /\ matches (x_e x) f ps = true).
Proof.
  split.
  - intros [xs' [v H]]. destruct (existsb (fun x => x_open x && matches (x_e x) f ps) xs) eqn:E.
    + apply existsb_exists in E. destruct E as [x [Hx Hm]]. apply andb_true_iff in Hm. exists x. tauto.
    + rewrite existsb_false in E. rewrite (consume_none f ps o xs E) in H. discriminate.
  - intros [x [Hx [Ho Hm]]]. destruct (consume f ps o xs) as [[xs' v]|] eqn:E; [eauto|]. exfalso.
    revert E. clear - Hx Ho Hm. induction xs as [|y r IH]; [destruct Hx|]. cbn. destruct Hx as [Hx|Hx].
    + subst y. rewrite Ho, Hm. discriminate.
    + destruct (x_open y && matches (x_e y) f ps); [discriminate|]. destruct (consume f ps o r) as [[r' w]|]; [discriminate|]. intros _. apply IH; auto.
Qed.
(* ... and what it hands back is that expectation's return value and output bytes *)
Lemma call_returns_consumed ign kn st c st' rv :
  m_call ign kn st c = inl (st', rv) -> ign && negb (kn (sc_f c)) = false -> s_pend st' = None ->
  exists e, consume (sc_f c) (sc_items c) (s_order st + 1) (s_xs st) = Some (s_xs st', e) /\
            fst rv = (if sc_want c then Some (sx_ret e) else None) /\ snd rv = out_bytes e (sc_items c).
Proof.
  unfold m_call. destruct (s_pend st); [discriminate|]. intros H IG. rewrite IG in H.
  destruct (consume (sc_f c) (sc_items c) (s_order st + 1) (s_xs st)) as [[xs' e]|].
  - inversion H; subst. intros _. exists e. auto.
  - destruct (deviation _ _ _) as [d df]. destruct (df && negb (sc_want c)); [|discriminate]. inversion H; subst. discriminate.
Qed.

(* the verdict clause does not depend on the order of the actual calls *)
Lemma filter_length_perm {A} (p : A -> bool) l l' : Permutation l l' -> length (filter p l) = length (filter p l').
Proof. intro H. induction H; cbn; try destruct (p x); try destruct (p y); cbn; congruence. Qed.
Lemma forallb_perm {A} (p : A -> bool) l l' : Permutation l l' -> forallb p l = forallb p l'.
Proof. intro H. induction H; cbn; try congruence. destruct (p x), (p y); reflexivity. Qed.
Lemma existsb_perm {A} (p : A -> bool) l l' : Permutation l l' -> existsb p l = existsb p l'.
Proof. intro H. induction H; cbn; try congruence. destruct (p x), (p y); reflexivity. Qed.
Lemma multiset_ok_perm es cs cs' : Permutation cs cs' -> multiset_ok es cs = multiset_ok es cs'.
Proof.
  intro H. unfold multiset_ok. f_equal.
  - rewrite (forallb_perm _ _ _ H). apply forallb_ext'. intros c _. unfold count_calls. rewrite (filter_length_perm _ _ _ H). reflexivity.
  - apply forallb_ext'. intros e _. rewrite (existsb_perm _ _ _ H). reflexivity.
Qed.

(* veq is MockNamedValue::equals as modelled and proved in C09 *)
Definition emb (v : pv) : C09_Model.value :=
  match v with PBool b => C09_Model.VBool b | PInt t z => C09_Model.VInt t z | PStr s => C09_Model.VStr (Some s) | PPtr a => C09_Model.VPtr a end.
Lemma veq_is_C09_equals a b : pv_valid a = true -> pv_valid b = true -> veq a b = C09_Model.equals (emb a) (emb b).
Proof.
  destruct a, b; cbn; intros Ha Hb; try reflexivity.
  - symmetry. apply (C09_Proofs.int_equals_math t t0 z z0 Ha Hb).
  - rewrite !cut_nul_id; [reflexivity| |].
    + intro X. apply negb_true_iff in Hb. rewrite existsb_false in Hb. specialize (Hb 0 X). discriminate Hb.
    + intro X. apply negb_true_iff in Ha. rewrite existsb_false in Ha. specialize (Ha 0 X). discriminate Ha.
Qed.

(* ------------------------------------------------------------------ the world of scopes meets its spec *)
Lemma forallb_true_iff {A} (p : A -> bool) l : forallb p l = true <-> forall x, In x l -> p x = true.
Proof. apply forallb_forall. Qed.

(* M's verdict over the scopes is the multiset / strict-sequence verdict of every scope, once each scope's is *)
Lemma verdictw_is_M_partial k :
  (forall s, In s (0 :: scopes_of k) -> verdict_agrees (scope_canon k s)) ->
  verdictw_ok k = match mr_fail (expectedw k) with None => true | Some _ => false end.
Proof.
  intro HV. unfold verdictw_ok. destruct (mr_fail (expectedw k)) eqn:F.
  - destruct (forallb (fun s => verdict_ok (scope_canon k s)) (0 :: scopes_of k)) eqn:X; [|reflexivity]. exfalso.
    assert (Y : mr_fail (expectedw k) = None); [|congruence].
    apply verdict_scopes. intros s Hs. rewrite forallb_forall in X. specialize (X s Hs). rewrite (HV s Hs) in X.
    unfold expected in X. cbn [fst] in X. destruct (mr_fail (expected_res (scope_canon k s))); [discriminate X|reflexivity].
  - apply forallb_forall. intros s Hs. rewrite (HV s Hs). unfold expected. cbn [fst].
    rewrite (proj1 (verdict_scopes k) F s Hs). reflexivity.
Qed.

(* an operation other than the plugin's check delivers nothing to the recording reporter *)
Lemma step_post_nil m o m' r : o <> OPost -> step true m o = inl (m', r) -> r_post r = [].
Proof.
  intro NP. destruct o as [n f ps outs obj ret ign|f its want| | | | | | | |]; cbn [step]; try (intro H; inversion H; reflexivity).
  - intro H. apply (actual_call_facts _ _ _ _ _ _ H).
  - destruct (check_expectations m); [intro H; inversion H; reflexivity|discriminate].
  - destruct (calls_left m) as [[m1 b]|]; [intro H; inversion H; reflexivity|discriminate].
  - congruence.
Qed.
Lemma stepw_post_nil w s o w' r : o <> OPost -> stepw true w (s, o) = inl (w', r) -> r_post r = [].
Proof.
  intro NP. unfold stepw. destruct (s =? 0).
  - assert (GEN : match step true (w_g w) o with inr fl => inr fl | inl (g, r0) => inl ({| w_g := g; w_kids := w_kids w |}, r0) end = inl (w', r) -> r_post r = []).
    { destruct (step true (w_g w) o) as [[g r0]|] eqn:ST; [|discriminate]. intro H. inversion H; subst. apply (step_post_nil _ _ _ _ NP ST). }
    destruct o as [n f ps outs obj ret ign|f its want| | | | | | | |]; try exact GEN; try (intro H; inversion H; reflexivity).
    + destruct (check_world w); [intro H; inversion H; reflexivity|discriminate].
    + destruct (finish_all w); [intro H; inversion H; reflexivity|discriminate].
    + congruence.
  - destruct (step true (kid s w) o) as [[m r0]|] eqn:ST; [|discriminate]. intro H. inversion H; subst. apply (step_post_nil _ _ _ _ NP ST).
Qed.
Lemma runw_no_post : forall ops w i a, (forall so, In so ops -> snd so <> OPost) -> a_post a = [] -> o_post (runw_from true w i ops a) = [].
Proof.
  induction ops as [|[s o] r IH]; intros w i a NP HA; cbn [runw_from]; [cbn; rewrite HA; reflexivity|].
  destruct (stepw true w (s, o)) as [[w' rv]|fl] eqn:ST; [|cbn; rewrite HA; reflexivity].
  apply IH; [intros so Hso; apply NP; right; exact Hso|]. cbn. rewrite HA, (stepw_post_nil _ _ _ _ _ (NP (s, o) (or_introl eq_refl)) ST). reflexivity.
Qed.
Lemma canonw_no_post k : forall so, In so (canonw_ops k) -> snd so <> OPost.
Proof.
  intros so H. unfold canonw_ops in H. rewrite !in_app_iff in H. destruct H as [H|[H|[H|[H|[]]]]].
  - apply in_map_iff in H. destruct H as [c [<- _]]. unfold cfg_op. cbn. destruct (snd c); discriminate.
  - apply in_map_iff in H. destruct H as [c [<- _]]. discriminate.
  - apply in_map_iff in H. destruct H as [c [<- _]]. discriminate.
  - subst so. discriminate.
Qed.
Lemma kinds_list_eqb2 fs ds : kinds fs = map Some ds -> list_eqb2 kind_is fs ds = true.
Proof.
  revert ds. induction fs as [|fl r IH]; destruct ds as [|d ds]; cbn; intro H; try discriminate H; [reflexivity|].
  inversion H as [[H1 H2]]. unfold kind_is. rewrite H1, dkind_eqb_refl. apply IH. exact H2.
Qed.
Lemma kinds_nil fs : kinds fs = [] -> fs = []. Proof. destruct fs; [reflexivity|discriminate]. Qed.

(* the spec over the scopes on the model's own observation: the coherence clause for every scenario; on judged scenarios that end
   with mock().checkExpectations() the verdict, first-deviation, value and output clauses (W_refines_M); on judged scenarios that
   end with the plugin's check the same with the list of failures that check delivers (W_post_refines_M) *)
Lemma runw_meets_specw_partial ops :
  (forall k s, judgedw k = true -> In s (0 :: scopes_of k) -> verdict_agrees (scope_canon k s)) ->
  specw ops (runw ops) = true.
Proof.
  intro HV. unfold specw. rewrite coherent_run. cbn [andb]. destruct (parsew ops) as [k|] eqn:Hp.
  - destruct (judgedw k) eqn:Hj; [|reflexivity]. cbn [negb].
    destruct (W_refines_M ops k Hp Hj) as [LR LO]. destruct (proj_lift_fail _ _ _ LR) as [A [B C]].
    rewrite A, B, C, LO, (verdictw_is_M_partial k (fun s => HV k s Hj)).
    assert (NP : o_post (runw ops) = []).
    { unfold runw, runw_gen. apply runw_no_post; [|reflexivity]. rewrite (parsew_inv _ _ Hp). apply canonw_no_post. }
    rewrite NP, eqb_reflx, andb_true_r. cbn [andb is_nil]. rewrite andb_true_r. apply list_eqb_refl. apply opt_pv_eqb_refl.
  - destruct (post_to_check ops) as [ops'|] eqn:Hq; [|reflexivity]. destruct (parsew ops') as [k|] eqn:Hp'; [|reflexivity].
    destruct (judgedw k) eqn:Hj; [|reflexivity]. cbn [negb]. unfold specw_post.
    destruct (W_post_refines_M ops ops' k Hq Hp' Hj) as [RT [OU M]]. cbn zeta in RT, OU, M.
    rewrite RT, OU, (verdictw_is_M_partial k (fun s => HV k s Hj)), (list_eqb_refl opt_pv_eqb _ opt_pv_eqb_refl), !andb_true_r.
    destruct (mw_end k (sts0 k) (kw_calls k)) as [sts|].
    + destruct M as [F [KP MF]]. rewrite MF. unfold passed_post, passed_obs. rewrite F, (kinds_list_eqb2 _ _ KP). cbn [andb]. rewrite andb_true_r.
      destruct (m_final (map snd sts)) as [d|] eqn:MFi.
      * destruct (o_post (runw ops)) as [|x xs] eqn:OP; [|reflexivity]. exfalso. cbn in KP.
        assert (X : m_post (map snd sts) = []) by (destruct (m_post (map snd sts)); [reflexivity|discriminate KP]).
        apply m_post_nil in X. congruence.
      * apply m_post_nil in MFi. rewrite MFi in KP. rewrite (kinds_nil _ KP). reflexivity.
    + destruct M as [PL [PN MF]]. destruct (proj_lift_fail _ _ _ PL) as [A [B C]]. rewrite A, PN. unfold passed_post. rewrite C. cbn [is_nil andb].
      destruct (mr_fail (expectedw k)); [reflexivity|]. exfalso. apply MF. reflexivity.
Qed.

(* the verdict over the scopes: the model passes a judged scenario iff, in M, every scope passes its own scenario *)
Lemma verdict_every_scope ops k :
  parsew ops = Some k -> judgedw k = true ->
  (o_fail (runw ops) = None <-> forall s, In s (0 :: scopes_of k) -> fst (expected (scope_canon k s)) = None).
Proof.
  intros Hp Hj. destruct (W_refines_M ops k Hp Hj) as [LR _]. destruct (proj_lift_fail _ _ _ LR) as [_ [_ C]].
  unfold passed_obs in C. rewrite <- verdict_scopes. destruct (o_fail (runw ops)); destruct (mr_fail (expectedw k)); try discriminate C; split; auto; discriminate.
Qed.

(* ------------------------------------------------------------------ with the counting theorem: the spec holds outright *)
Lemma judgedw_scope k s : judgedw k = true -> In s (0 :: scopes_of k) -> judged (scope_canon k s) = true.
Proof. unfold judgedw. rewrite forallb_forall. intros H Hs. apply H. exact Hs. Qed.
Theorem run_meets_spec ops : spec ops (run ops) = true.
Proof. apply run_meets_spec_partial. intros k _ Hj. apply verdict_counting. exact Hj. Qed.
Theorem runw_meets_specw ops : specw ops (runw ops) = true.
Proof. apply runw_meets_specw_partial. intros k s Hj Hs. apply verdict_counting. apply judgedw_scope; assumption. Qed.
(* the verdict clause itself: the model passes iff the multisets (strict: the sequences) agree -- in every scope *)
Theorem verdict_exact ops k : parse ops = Some k -> judged k = true -> (o_fail (run ops) = None <-> verdict_ok k = true).
Proof.
  intros Hp Hj. destruct (L_refines_M ops k Hp Hj) as [LR _]. unfold expected in LR. destruct (proj_lift_fail _ _ _ LR) as [_ [_ C]].
  rewrite (verdict_counting k Hj). unfold expected. cbn [fst]. unfold passed_obs in C.
  destruct (o_fail (run ops)); destruct (mr_fail (expected_res k)); try discriminate C; split; auto; discriminate.
Qed.
Theorem verdict_exact_scopes ops k :
  parsew ops = Some k -> judgedw k = true ->
  (o_fail (runw ops) = None <-> forall s, In s (0 :: scopes_of k) -> verdict_ok (scope_canon k s) = true).
Proof.
  intros Hp Hj. rewrite (verdict_every_scope ops k Hp Hj). split; intros H s Hs; specialize (H s Hs).
  - rewrite (verdict_counting _ (judgedw_scope k s Hj Hs)), H. reflexivity.
  - rewrite (verdict_counting _ (judgedw_scope k s Hj Hs)) in H. destruct (fst (expected (scope_canon k s))); [discriminate H|reflexivity].
Qed.

(* ------------------------------------------------------------------ the global mock alone is one mock *)
Lemma stepw_global w o : w_kids w = [] ->
  stepw true w (0, o) = match step true (w_g w) o with inr fl => inr fl | inl (g, r) => inl ({| w_g := g; w_kids := [] |}, r) end.
Proof.
  intro K. destruct w as [g kids]. cbn in K. subst kids. destruct o as [n f ps outs obj ret ign|f its want| | | | | | | |]; cbn; try reflexivity.
  - unfold check_world, check_expectations, finish_all, last_ok_all, left_all, ooo_all, all_exps. cbn.
    destruct (finish_last g) as [g'|]; [|reflexivity]. cbn. rewrite !orb_false_r, andb_true_r, app_nil_r.
    destruct (last_ok g' && unfulfilled (m_exps g')); [reflexivity|]. destruct (existsb e_ooo (m_exps g')); reflexivity.
  - unfold calls_left, finish_all, left_all. cbn. destruct (finish_last g) as [g'|]; [|reflexivity]. cbn. rewrite orb_false_r. reflexivity.
  - unfold post_world, post_check, finish_all_nl, last_ok_all, left_all, ooo_all, all_exps. cbn.
    destruct (finish_last_nl g) as [g' f1]. cbn. rewrite !orb_false_r, andb_true_r, !app_nil_r.
    destruct (last_ok g' && unfulfilled (m_exps g')); [reflexivity|]. destruct (existsb e_ooo (m_exps g')); reflexivity.
Qed.
Lemma runw_global_from : forall ops g i a, runw_from true {| w_g := g; w_kids := [] |} i (map (pair 0) ops) a = run_from true g i ops a.
Proof.
  induction ops as [|o r IH]; intros g i a; [reflexivity|]. cbn [map runw_from run_from]. rewrite stepw_global by reflexivity. cbn [w_g].
  destruct (step true g o) as [[g' rv]|]; [apply IH|reflexivity].
Qed.
Lemma runw_global ops : runw (map (pair 0) ops) = run ops.
Proof. apply runw_global_from. Qed.

(* ------------------------------------------------------------------ the code before the repair (f9780ee) violated the property *)
Definition witness_old : list op :=
  [ OExpect 1 0 [(0, PInt TInt 1%Z); (1, PInt TInt 2%Z)] [] None None false;
    OExpect 1 0 [(0, PInt TInt 1%Z); (1, PInt TInt 3%Z)] [] None None false;
    OCall 0 [IIn 0 (PInt TInt 1%Z); IIn 1 (PInt TInt 3%Z)] false;
    OCall 0 [IIn 1 (PInt TInt 2%Z)] false;
    OCheck ].
Definition run_old_meets_spec_stmt : Prop := forall ops, spec ops (run_old ops) = true.
Lemma run_old_refuted : ~ run_old_meets_spec_stmt.
Proof. intro H. specialize (H witness_old). vm_compute in H. discriminate H. Qed.
(* the repaired code is judged correct on the same scenario: the second call lacks parameter p0 *)
Example witness_now : spec witness_old (run witness_old) = true /\ o_fail (run witness_old) <> None.
Proof. vm_compute. split; [reflexivity|discriminate]. Qed.

(* hypotheses of the theorems are satisfiable *)
Definition example_ops : list op :=
  [ OStrict; OExpect 2 0 [(0, PInt TInt 1%Z)] [] None (Some (PInt TLong 7%Z)) false; OExpect 1 1 [] [] None None false;
    OCall 0 [IIn 0 (PInt TUInt 1%Z)] true; OCall 0 [IIn 0 (PInt TInt 1%Z)] false; OCall 1 [] true; OCheck ].
Example example_judged : exists k, parse example_ops = Some k /\ judged k = true /\ verdict_agrees k /\ o_fail (run example_ops) = None.
Proof. eexists. split; [reflexivity|]. split; [reflexivity|]. split; vm_compute; reflexivity. Qed.
(* two scopes, objects and outputs: mock("s1") read() on two devices, output passed before and after the object; mock("s2") strict *)
Definition buf8 : list N := [0; 0; 0; 0; 0; 0; 0; 0].
Definition example_opsw : list (N * op) :=
  [ (2, OStrict); (0, OIgnoreOtherCalls);
    (1, OExpect 1 0 [] [(0, [161; 162])] (Some 4096%Z) (Some (PInt TInt 1%Z)) false);
    (1, OExpect 1 0 [] [(0, [177; 178; 179])] (Some 4104%Z) (Some (PInt TInt 2%Z)) false);
    (2, OExpect 1 0 [] [] None None false); (2, OExpect 1 1 [] [] None None false);
    (1, OCall 0 [IOut 0 buf8; IObj 4104%Z] true); (2, OCall 0 [] false); (0, OCall 9 [] false);
    (1, OCall 0 [IObj 4096%Z; IOut 0 buf8] true); (2, OCall 1 [] false); (0, OCheck) ].
Example example_judgedw :
  exists k, parsew example_opsw = Some k /\ judgedw k = true /\ (forall s, In s (0 :: scopes_of k) -> verdict_agrees (scope_canon k s)) /\
            o_fail (runw example_opsw) = None /\ o_rets (runw example_opsw) = [Some (PInt TInt 2%Z); Some (PInt TInt 1%Z)] /\
            o_outs (runw example_opsw) = [[177; 178; 179; 0; 0; 0; 0; 0]; [161; 162; 0; 0; 0; 0; 0; 0]].
Proof.
  eexists. split; [reflexivity|]. split; [reflexivity|]. split; [|vm_compute; auto].
  intros s Hs. vm_compute in Hs. destruct Hs as [<-|[<-|[<-|[]]]]; vm_compute; reflexivity.
Qed.
