(* C08 -- proofs, part 3: the spec on the model's own observations, refutation of the code before the repair, and
   spec-level facts (order independence of the verdict clause, when a call succeeds, tie of veq to C09's equals). *)
From Coq Require Import ZArith NArith Bool List Lia Permutation.
From CppUVerif Require Import lib.CInt lib.Str C08_Model C08_Proofs C08_Proofs2.
From CppUVerif Require C09_Model C09_Proofs.
Import ListNotations.
Local Open Scope N_scope.

Lemma dkind_eqb_refl d : dkind_eqb d d = true.
Proof. destruct d; cbn; rewrite ?N.eqb_refl; reflexivity. Qed.
Lemma opt_pv_eqb_refl v : opt_pv_eqb v v = true.
Proof. destruct v; cbn; [apply pv_eqb_refl|reflexivity]. Qed.
Lemma list_eqb_refl {A} (eqb : A -> A -> bool) l : (forall x, eqb x x = true) -> list_eqb eqb l l = true.
Proof. intro H. induction l; cbn; [reflexivity|]. rewrite H, IHl. reflexivity. Qed.

(* the M-level statement "M passes iff the multisets (strict: the sequences) agree" for one scenario *)
Definition verdict_agrees (k : canon) : Prop :=
  verdict_ok k = match fst (expected k) with None => true | Some _ => false end.

(* clauses 2 and 3 of the spec hold of the model on every judged scenario (consequence of L_refines_M);
   clause 1 holds whenever M's verdict is the multiset verdict *)
Lemma run_meets_spec_partial ops :
  (forall k, parse ops = Some k -> judged k = true -> verdict_agrees k) -> spec ops (run ops) = true.
Proof.
  intro HV. unfold spec. destruct (parse ops) as [k|] eqn:Hp; [|reflexivity].
  destruct (judged k) eqn:Hj; [|reflexivity]. cbn [negb].
  pose proof (L_refines_M ops k Hp Hj) as LR. specialize (HV k eq_refl Hj). unfold verdict_agrees in HV.
  destruct (expected k) as [ef er]. unfold proj, lift in LR. cbn [fst snd] in *.
  injection LR as L1 L2. rewrite L2, HV.
  destruct (o_fail (run ops)) as [[i fl]|]; destruct ef as [[j d]|]; try discriminate L1.
  - inversion L1; subst. rewrite H1. cbn. rewrite N.eqb_refl, dkind_eqb_refl. cbn. apply list_eqb_refl. apply opt_pv_eqb_refl.
  - cbn. apply list_eqb_refl. apply opt_pv_eqb_refl.
Qed.

(* on judged scenarios the impossible failures are impossible: neither the "This cannot happen" FAIL nor, in this fragment,
   "expected call on object did not happen" is ever delivered, and exactly the M diagnosis is *)
Lemma no_impossible_failure ops k i fl :
  parse ops = Some k -> judged k = true -> o_fail (run ops) = Some (i, fl) ->
  f_kind fl <> FCannotHappen /\ (forall f, f_kind fl <> FObjectMissing f) /\ exists d, fst (expected k) = Some (i, d) /\ dkind_of (f_kind fl) = Some d.
Proof.
  intros Hp Hj Hf. pose proof (L_refines_M ops k Hp Hj) as LR. unfold proj, lift in LR. rewrite Hf in LR.
  injection LR as L1 _. destruct (fst (expected k)) as [[j d]|]; [|discriminate]. inversion L1; subst.
  split; [intro X; rewrite X in H1; discriminate|]. split; [intros f X; rewrite X in H1; discriminate|]. exists d. auto.
Qed.

(* a call is consumed iff some still-open expectation is exactly the call (same function, same parameter set) *)
Lemma call_succeeds_iff f ps o xs :
  (exists xs' v, consume f ps o xs = Some (xs', v)) <-> (exists x, In x xs /\ x_open x = true /\ matches (x_e x) f ps = true).
Proof.
  split.
  - intros [xs' [v H]]. destruct (existsb (fun x => x_open x && matches (x_e x) f ps) xs) eqn:E.
    + apply existsb_exists in E. destruct E as [x [Hx Hm]]. apply andb_true_iff in Hm. exists x. tauto.
    + rewrite existsb_false in E. rewrite (consume_none f ps o xs E) in H. discriminate.
  - intros [x [Hx [Ho Hm]]]. destruct (consume f ps o xs) as [[xs' v]|] eqn:E; [eauto|]. exfalso.
    revert E. clear - Hx Ho Hm. induction xs as [|y r IH]; [destruct Hx|]. cbn. destruct Hx as [Hx|Hx].
    + subst y. rewrite Ho, Hm. discriminate.
    + destruct (x_open y && matches (x_e y) f ps); [discriminate|]. destruct (consume f ps o r) as [[r' w]|]; [discriminate|]. intros _. apply IH; auto.
Qed.

(* the verdict clause does not depend on the order of the actual calls *)
Lemma filter_length_perm {A} (p : A -> bool) l l' : Permutation l l' -> length (filter p l) = length (filter p l').
Proof. intro H. induction H; cbn; try destruct (p x); try destruct (p y); cbn; congruence. Qed.
Lemma forallb_perm {A} (p : A -> bool) l l' : Permutation l l' -> forallb p l = forallb p l'.
Proof. intro H. induction H; cbn; try congruence. destruct (p x), (p y); reflexivity. Qed.
Lemma existsb_perm {A} (p : A -> bool) l l' : Permutation l l' -> existsb p l = existsb p l'.
Proof. intro H. induction H; cbn; try congruence. destruct (p x), (p y); reflexivity. Qed.
Lemma multiset_ok_perm es cs cs' : Permutation cs cs' -> multiset_ok es cs = multiset_ok es cs'.
Proof.
  intro H. unfold multiset_ok. f_equal.
  - rewrite (forallb_perm _ _ _ H). apply forallb_ext'. intros c _. unfold count_calls. rewrite (filter_length_perm _ _ _ H). reflexivity.
  - apply forallb_ext'. intros e _. rewrite (existsb_perm _ _ _ H). reflexivity.
Qed.

(* veq is MockNamedValue::equals as modelled and proved in C09 *)
Definition emb (v : pv) : C09_Model.value :=
  match v with PBool b => C09_Model.VBool b | PInt t z => C09_Model.VInt t z | PStr s => C09_Model.VStr (Some s) | PPtr a => C09_Model.VPtr a end.
Lemma veq_is_C09_equals a b : pv_valid a = true -> pv_valid b = true -> veq a b = C09_Model.equals (emb a) (emb b).
Proof.
  destruct a, b; cbn; intros Ha Hb; try reflexivity.
  - symmetry. apply (C09_Proofs.int_equals_math t t0 z z0 Ha Hb).
  - rewrite !cut_nul_id; [reflexivity| |].
    + intro X. apply negb_true_iff in Hb. rewrite existsb_false in Hb. specialize (Hb 0 X). discriminate Hb.
    + intro X. apply negb_true_iff in Ha. rewrite existsb_false in Ha. specialize (Ha 0 X). discriminate Ha.
Qed.

(* ------------------------------------------------------------------ the code before the repair (f9780ee) violated the property *)
Definition witness_old : list op :=
  [ OExpect 1 0 [(0, PInt TInt 1%Z); (1, PInt TInt 2%Z)] None false;
    OExpect 1 0 [(0, PInt TInt 1%Z); (1, PInt TInt 3%Z)] None false;
    OCall 0 [(0, PInt TInt 1%Z); (1, PInt TInt 3%Z)] false;
    OCall 0 [(1, PInt TInt 2%Z)] false;
    OCheck ].
Definition run_old_meets_spec_stmt : Prop := forall ops, spec ops (run_old ops) = true.
Lemma run_old_refuted : ~ run_old_meets_spec_stmt.
Proof. intro H. specialize (H witness_old). vm_compute in H. discriminate H. Qed.
(* the repaired code is judged correct on the same scenario: the second call lacks parameter p0 *)
Example witness_now : spec witness_old (run witness_old) = true /\ o_fail (run witness_old) <> None.
Proof. vm_compute. split; [reflexivity|discriminate]. Qed.

(* hypotheses of the theorems are satisfiable *)
Definition example_ops : list op :=
  [ OStrict; OExpect 2 0 [(0, PInt TInt 1%Z)] (Some (PInt TLong 7%Z)) false; OExpect 1 1 [] None false;
    OCall 0 [(0, PInt TUInt 1%Z)] true; OCall 0 [(0, PInt TInt 1%Z)] false; OCall 1 [] true; OCheck ].
Example example_judged : exists k, parse example_ops = Some k /\ judged k = true /\ verdict_agrees k /\ o_fail (run example_ops) = None.
Proof. eexists. split; [reflexivity|]. split; [reflexivity|]. split; vm_compute; reflexivity. Qed.
