(* C05 -- scenarios with memory accounting on: the accounting wrapper allocators between the tracked entry points and the
   underlying allocator.

   Part 1: executable mirror of AccountingTestMemoryAllocator::alloc_memory / free_memory and of its tracking list
   (TestMemoryAllocator.cpp: addMemoryToMemoryTrackingToKeepTrackOfSize, removeMemoryFromTrackingAndReturnAllocatedSize,
   removeHeadAndReturnSize, removeNextNodeAndReturnSize) over an oracle for the allocator it wraps, and the proof that the
   wrapper is transparent: the pointer it returns is the pointer the wrapped allocator returned for exactly the requested
   size (so address, alignment, usable bytes and region are the wrapped allocator's), its own node is a separate request,
   and free hands back exactly the pointer it was given plus the node.  This is why [run] of a wrapper scenario is [run] of
   the scenario without wrappers.  The variant that puts the node in front of the block (one request of NODE + size, returns
   block + NODE) is refuted for NODE = 24: its blocks are 8 mod 16.

   Part 2: what [spec] demands of a wrapper scenario: everything it demands without wrappers except the two clauses about the
   sizes and the balance of the underlying calls; of the call logs it reads only "did a call fail" (this is the projection
   checks/C05.py applies before it compares the model's and the implementation's observation of a wrapper scenario). *)
From Coq Require Import NArith Bool List Lia.
From CppUVerif Require Import gen.Gen_Common gen.Gen_C05 lib.Str C05_Model.
Import ListNotations.
Local Open Scope N_scope.

(* ===================================================================================================================== *)
(* Part 1: the wrapper                                                                                                    *)
(* ===================================================================================================================== *)
(* addresses are numbers, NULL = 0.  [und k size]: what the wrapped allocator returns for its k-th request (0 = refused). *)
Record wnode := { wn_addr : N; wn_mem : N; wn_size : N }.      (* the node's own address, memory_, size_ *)
Inductive ucall := UAlloc (size res : N) | UFree (addr size : N).
Definition NODE : N := 24.                                     (* sizeof(AccountingTestMemoryAllocatorMemoryNode), LP64 *)

(* alloc_memory: accountant_.alloc(size) [statistics only]; memory = original->alloc_memory(size);
   addMemoryToMemoryTrackingToKeepTrackOfSize(memory, size): node = original->alloc_memory(sizeof node), written without a
   NULL test ([None] = the NULL node is dereferenced), pushed at the head *)
Definition w_alloc (node_sz : N) (und : N -> N -> N) (k : N) (l : list wnode) (size : N) : option (N * list wnode * list ucall) :=
  let memory := und k size in
  let node := und (k + 1) node_sz in
  if node =? 0 then None
  else Some (memory, {| wn_addr := node; wn_mem := memory; wn_size := size |} :: l, [UAlloc size memory; UAlloc node_sz node]).

(* removeMemoryFromTrackingAndReturnAllocatedSize: the head, else the first later node whose memory_ is [memory] *)
Fixpoint w_remove (memory : N) (l : list wnode) : option wnode * list wnode :=
  match l with
  | [] => (None, [])
  | x :: r => if wn_mem x =? memory then (Some x, r) else let '(fo, r') := w_remove memory r in (fo, x :: r')
  end.

(* free_memory: the node (if there is one) is given back, then original->free_memory(memory, size) *)
Definition w_free (l : list wnode) (memory : N) : list wnode * list ucall :=
  match w_remove memory l with
  | (Some x, l') => (l', [UFree (wn_addr x) (wn_size x); UFree memory (wn_size x)])
  | (None, l') => (l', [UFree memory 0])
  end.

(* the variant with the node in front of the block: one request, the block starts [node_sz] bytes into it *)
Definition w_alloc_prefix (node_sz : N) (und : N -> N -> N) (k : N) (l : list wnode) (size : N) : N * list wnode * list ucall :=
  let block := und k (node_sz + size) in
  if block =? 0 then (0, l, [UAlloc (node_sz + size) 0])
  else (block + node_sz, {| wn_addr := block; wn_mem := block + node_sz; wn_size := size |} :: l, [UAlloc (node_sz + size) block]).

(* transparency: same pointer, same size asked of the wrapped allocator, the node a request of its own *)
Lemma wrapper_transparent node_sz und k l size p l' cs :
  w_alloc node_sz und k l size = Some (p, l', cs) ->
  p = und k size /\ p mod 16 = und k size mod 16 /\
  cs = [UAlloc size p; UAlloc node_sz (und (k + 1) node_sz)] /\ und (k + 1) node_sz <> 0 /\
  l' = {| wn_addr := und (k + 1) node_sz; wn_mem := p; wn_size := size |} :: l.
Proof.
  unfold w_alloc. destruct (N.eqb_spec (und (k + 1) node_sz) 0) as [E|E]; [discriminate|].
  intro H. injection H as <- <- <-. repeat split; try reflexivity. exact E.
Qed.

(* a refused request is passed on as NULL (the wrapper keeps a node for it) *)
Lemma wrapper_passes_null node_sz und k l size p l' cs :
  und k size = 0 -> w_alloc node_sz und k l size = Some (p, l', cs) -> p = 0.
Proof. intros E H. apply wrapper_transparent in H. destruct H as [H _]. rewrite H. exact E. Qed.

(* free after alloc: the tracking list is what it was; exactly the two pointers obtained are given back, the block first
   found by its own address *)
Lemma wrapper_alloc_free node_sz und k l size p l' cs :
  w_alloc node_sz und k l size = Some (p, l', cs) ->
  w_free l' p = (l, [UFree (und (k + 1) node_sz) size; UFree p size]).
Proof.
  intro H. apply wrapper_transparent in H. destruct H as (_ & _ & _ & _ & ->).
  unfold w_free. cbn [w_remove wn_mem]. rewrite N.eqb_refl. reflexivity.
Qed.

(* a pointer the wrapper does not know (e.g. a block moved by realloc, which does not go through the wrapper) is passed on as it is *)
Lemma wrapper_free_unknown l memory : Forall (fun x => wn_mem x <> memory) l -> w_free l memory = (l, [UFree memory 0]).
Proof.
  intro H. unfold w_free. assert (E : w_remove memory l = (None, l)).
  { induction l as [|x r IH]; [reflexivity|]. inversion H as [|? ? Hx Hr]; subst. cbn [w_remove].
    destruct (N.eqb_spec (wn_mem x) memory) as [E|_]; [contradiction|]. rewrite (IH Hr). reflexivity. }
  rewrite E. reflexivity.
Qed.

(* whatever is removed was in the list, everything else stays in order *)
Lemma w_remove_sound memory l : match w_remove memory l with
  | (Some x, l') => wn_mem x = memory /\ exists a b, l = a ++ x :: b /\ l' = a ++ b /\ Forall (fun y => wn_mem y <> memory) a
  | (None, l') => l' = l /\ Forall (fun y => wn_mem y <> memory) l
  end.
Proof.
  induction l as [|x r IH]; cbn [w_remove]; [split; [reflexivity|constructor]|].
  destruct (N.eqb_spec (wn_mem x) memory) as [E|E].
  - split; [exact E|]. exists [], r. repeat split. constructor.
  - destruct (w_remove memory r) as [[y|] r'].
    + destruct IH as (Hy & a & b & -> & -> & Ha). split; [exact Hy|]. exists (x :: a), b. repeat split. constructor; assumption.
    + destruct IH as (-> & Hr). split; [reflexivity|]. constructor; assumption.
Qed.

(* the node in front of the block: wherever the wrapped allocator returns 16-aligned blocks, the wrapper's are 8 mod 16 *)
Lemma wrapper_prefix_refuted und k l size :
  und k (NODE + size) <> 0 -> und k (NODE + size) mod 16 = 0 ->
  fst (fst (w_alloc_prefix NODE und k l size)) mod 16 = 8.
Proof.
  intros Hn Ha. unfold w_alloc_prefix. destruct (N.eqb_spec (und k (NODE + size)) 0) as [E|_]; [contradiction|].
  cbn [fst]. rewrite N.add_mod by discriminate. rewrite Ha. reflexivity.
Qed.

Definition ex_und (k size : N) : N := if 1048576 <? size then 0 else 4096 + 64 * k.
Example ex_wrapper : w_alloc NODE ex_und 3 [] 100 = Some (4288, [{| wn_addr := 4352; wn_mem := 4288; wn_size := 100 |}], [UAlloc 100 4288; UAlloc 24 4352])
  /\ 4288 mod 16 = 0 /\ fst (fst (w_alloc_prefix NODE ex_und 3 [] 100)) = 4312 /\ 4312 mod 16 = 8.
Proof. lazy. repeat split. Qed.

(* ===================================================================================================================== *)
(* Part 2: the oracle on wrapper scenarios                                                                                 *)
(* ===================================================================================================================== *)
Ltac split_all :=
  repeat match goal with H : _ && _ = true |- _ => apply andb_true_iff in H; destruct H end;
  repeat match goal with
         | H : (_ =? _) = true |- _ => apply N.eqb_eq in H
         | H : (_ <? _) = true |- _ => apply N.ltb_lt in H
         | H : negb _ = true |- _ => apply negb_true_iff in H
         | H : Bool.eqb _ _ = true |- _ => apply eqb_prop in H
         end.

Definition set_wrap (b : bool) (sc : scenario) : scenario :=
  {| sc_cfg := sc_cfg sc; sc_wrap := b; sc_fail := sc_fail sc; sc_ops := sc_ops sc |}.
Definition obs_set_wrap (b : bool) (o : obs) : obs :=
  {| ob_guard := ob_guard o; ob_ns := ob_ns o; ob_wrap := b; ob_ops := ob_ops o; ob_end_live := ob_end_live o;
     ob_end_total := ob_end_total o; ob_end_rep := ob_end_rep o |}.

(* the model's observation does not depend on the wrappers (beyond echoing the flag) *)
Lemma run_wrap_independent v b sc : run_v v (set_wrap b sc) = obs_set_wrap b (run_v v sc).
Proof.
  unfold run_v, set_wrap, obs_set_wrap. cbn [sc_cfg sc_fail sc_ops sc_wrap].
  destruct (steps v (sc_cfg sc) (sc_fail sc) st0 0 (sc_ops sc)) as [s os].
  destruct (release_all s (s_blocks s) 0) as [s' rep]. reflexivity.
Qed.

(* ---- whatever is accepted without wrappers is accepted with them *)
Lemma spec_alloc_mono w c thr n content before after fd o :
  spec_alloc false c thr n content before after fd o = true -> spec_alloc w c thr n content before after fd o = true.
Proof.
  unfold spec_alloc. cbn [orb]. intro H.
  apply andb_true_iff in H. destruct H as [H H2]. apply andb_true_iff in H. destruct H as [H0 H1].
  rewrite H0, H1, orb_true_r. cbn [andb].
  destruct (o_kind o =? K_PTR); [exact H2|].
  destruct (o_kind o =? (if thr then K_BAD else K_NULL)); [|exact H2].
  apply andb_true_iff in H2. destruct H2 as [H2 H5]. apply andb_true_iff in H2. destruct H2 as [H2 H4].
  apply andb_true_iff in H2. destruct H2 as [H2 H3]. rewrite H2, H3, H4, H5, orb_true_r. reflexivity.
Qed.

Lemma spec_step_mono w c l idx o ob l' : spec_step false c l idx o ob = Some l' -> spec_step w c l idx o ob = Some l'.
Proof.
  assert (A : forall thr n content before after fd X,
             (if spec_alloc false c thr n content before after fd ob then Some X else None) = Some l' ->
             (if spec_alloc w c thr n content before after fd ob then Some X else None) = Some l').
  { intros thr n content before after fd X H.
    destruct (spec_alloc false c thr n content before after fd ob) eqn:E; [|discriminate H].
    rewrite (spec_alloc_mono w _ _ _ _ _ _ _ _ E). exact H. }
  destruct o as [n|n|a b|[i|] n|s|s k|arr thr n|i|i off bytes]; cbn [spec_step]; try apply A; try (intro H; exact H).
  destruct (l_find i l) as [[fam d]|]; [|intro H; exact H].
  destruct fam; [apply A|intro H; exact H].
Qed.

Lemma spec_steps_mono w c ops : forall l idx obs e,
  spec_steps false c l idx ops obs e = true -> spec_steps w c l idx ops obs e = true.
Proof.
  induction ops as [|o r IH]; intros l idx obs e H; destruct obs as [|ob obr]; cbn [spec_steps] in *; try exact H.
  destruct (spec_step false c l idx o ob) as [l'|] eqn:E; [|discriminate H].
  rewrite (spec_step_mono w _ _ _ _ _ _ E). apply IH. exact H.
Qed.

Lemma spec_wrap_monotone sc o : sc_wrap sc = false -> spec sc o = true -> spec (set_wrap true sc) (obs_set_wrap true o) = true.
Proof.
  intros Hw H. unfold spec in *. cbn [set_wrap obs_set_wrap sc_cfg sc_wrap sc_ops ob_guard ob_ns ob_wrap ob_ops ob_end_live ob_end_total ob_end_rep].
  rewrite Hw in H.
  repeat match goal with H : _ && _ = true |- _ => apply andb_true_iff in H; destruct H end.
  repeat match goal with H : Bool.eqb _ _ = true |- _ => apply eqb_prop in H end.
  repeat match goal with H : ?x = true |- context [?x] => rewrite H end.
  match goal with H : ob_guard o = _ |- _ => rewrite H end.
  match goal with H : spec_steps false _ _ _ _ _ _ = true |- _ => rewrite (spec_steps_mono true _ _ _ _ _ _ H) end.
  rewrite !eqb_reflx. reflexivity.
Qed.

(* ---- with wrappers the oracle reads from a call log only whether a call failed *)
Definition canon_calls (cs : list call) : list call := if any_failed cs then [(0, 0, false)] else [].
Definition canon_op (o : oobs) : oobs :=
  {| o_kind := o_kind o; o_calls := canon_calls (o_calls o); o_amod := o_amod o; o_ovl := o_ovl o; o_off := o_off o; o_req := o_req o;
     o_nk := o_nk o; o_nv := o_nv o; o_dig := o_dig o; o_total := o_total o; o_rep := o_rep o |}.
Definition canon (o : obs) : obs :=
  {| ob_guard := ob_guard o; ob_ns := ob_ns o; ob_wrap := ob_wrap o; ob_ops := map canon_op (ob_ops o); ob_end_live := ob_end_live o;
     ob_end_total := ob_end_total o; ob_end_rep := ob_end_rep o |}.

Lemma any_failed_canon cs : any_failed (canon_calls cs) = any_failed cs.
Proof. unfold canon_calls. destruct (any_failed cs) eqn:E; reflexivity. Qed.

Lemma spec_alloc_canon c thr n content before after fd o :
  spec_alloc true c thr n content before after fd (canon_op o) = spec_alloc true c thr n content before after fd o.
Proof.
  unfold spec_alloc, layout_ok. cbn [canon_op o_kind o_calls o_amod o_ovl o_off o_req o_nk o_nv o_dig o_total o_rep orb].
  rewrite any_failed_canon. reflexivity.
Qed.

Lemma spec_step_canon c l idx o ob : spec_step true c l idx o (canon_op ob) = spec_step true c l idx o ob.
Proof.
  assert (K : o_kind (canon_op ob) = o_kind ob) by reflexivity.
  assert (S : spec_skip l (canon_op ob) = spec_skip l ob) by reflexivity.
  destruct o as [n|n|a b|[i|] n|s|s k|arr thr n|i|i off bytes]; cbn [spec_step]; rewrite ?spec_alloc_canon, ?K, ?S; try reflexivity.
  - destruct (l_find i l) as [[fam d]|]; [|reflexivity]. destruct fam; [|reflexivity]. rewrite spec_alloc_canon. reflexivity.
Qed.

Lemma spec_steps_canon c ops : forall l idx obs e,
  spec_steps true c l idx ops (map canon_op obs) e = spec_steps true c l idx ops obs e.
Proof.
  induction ops as [|o r IH]; intros l idx obs e; destruct obs as [|ob obr]; cbn [spec_steps map]; try reflexivity.
  rewrite spec_step_canon. destruct (spec_step true c l idx o ob); [apply IH|reflexivity].
Qed.

Lemma spec_wrap_reads_failure_only sc o : sc_wrap sc = true -> spec sc (canon o) = spec sc o.
Proof.
  intro Hw. unfold spec. rewrite Hw. cbn [canon ob_guard ob_ns ob_wrap ob_ops ob_end_live ob_end_total ob_end_rep].
  rewrite spec_steps_canon. reflexivity.
Qed.

(* ---- what an accepted observation guarantees for every returned pointer, wrappers or not *)
Definition ptr_sound (c : cfg) (ob : oobs) : Prop :=
  o_kind ob = K_PTR ->
  o_amod ob = 0 /\ o_ovl ob = 0 /\ o_rep ob = 0 /\ any_failed (o_calls ob) = false /\ exists n, n < W /\ layout_ok c n ob = true.

Lemma spec_alloc_ptr w c thr n content before after fd o : spec_alloc w c thr n content before after fd o = true -> ptr_sound c o.
Proof.
  unfold spec_alloc. intros H Hk. rewrite Hk in H. change (K_PTR =? K_PTR) with true in H. cbv iota in H.
  split_all. repeat split; try assumption. exists n. split; assumption.
Qed.

Lemma spec_step_ptr w c l idx o ob l' : spec_step w c l idx o ob = Some l' -> ptr_sound c ob.
Proof.
  assert (A : forall thr n content before after fd X,
             (if spec_alloc w c thr n content before after fd ob then Some X else None) = Some l' -> ptr_sound c ob).
  { intros thr n content before after fd X H.
    destruct (spec_alloc w c thr n content before after fd ob) eqn:E; [|discriminate H]. exact (spec_alloc_ptr _ _ _ _ _ _ _ _ _ E). }
  assert (S : forall X : option live, (if spec_skip l ob then X else None) = Some l' -> ptr_sound c ob).
  { intros X H Hk. unfold spec_skip in H. rewrite Hk in H. discriminate H. }
  assert (V : forall (b2 b3 : bool) X, (if (o_kind ob =? K_VOID) && b2 && b3 then X else None) = Some l' -> ptr_sound c ob).
  { intros b2 b3 X H Hk. rewrite Hk in H. discriminate H. }
  destruct o as [n|n|a b|[i|] n|s|s k|arr thr n|i|i off bytes]; cbn [spec_step]; try apply A.
  - destruct (l_find i l) as [[fam d]|]; [|apply S]. destruct fam; [apply A|apply S].
  - destruct (l_find i l) as [[fam d]|]; [apply V|apply S].
  - destruct (l_find i l) as [[fam d]|]; [|apply S].
    destruct ((off <=? N.of_nat (length d)) && (N.of_nat (length bytes) <=? N.of_nat (length d) - off)); [apply V|apply S].
Qed.

Lemma spec_steps_ptr w c ops : forall l idx obs e, spec_steps w c l idx ops obs e = true -> Forall (ptr_sound c) obs.
Proof.
  induction ops as [|o r IH]; intros l idx obs e H; destruct obs as [|ob obr]; cbn [spec_steps] in H; try discriminate H; [constructor|].
  destruct (spec_step w c l idx o ob) as [l'|] eqn:E; [|discriminate H].
  constructor; [exact (spec_step_ptr _ _ _ _ _ _ _ E)|exact (IH _ _ _ _ H)].
Qed.

Lemma spec_demands sc o : spec sc o = true ->
  ob_wrap o = sc_wrap sc /\ Forall (ptr_sound (sc_cfg sc)) (ob_ops o) /\ ob_end_total o = 0 /\ ob_end_rep o = 0.
Proof.
  unfold spec. intro H. split_all. repeat split; try assumption.
  match goal with H : spec_steps _ _ _ _ _ _ _ = true |- _ => exact (spec_steps_ptr _ _ _ _ _ _ _ H) end.
Qed.

(* ---- the hypotheses can be met: a wrapper scenario, its observation, and the observation with the blocks 8 mod 16 *)
Definition ex_wcfg : cfg := {| guard_on := true; node_size := 64 |}.
Definition ex_wrapped : scenario :=
  {| sc_cfg := ex_wcfg; sc_wrap := true; sc_fail := []; sc_ops := [OMalloc 16; ONew false true 8; ORealloc (Some 0) 40; OMalloc 2097152; OFree 1] |}.
Definition misalign (o : obs) : obs :=
  {| ob_guard := ob_guard o; ob_ns := ob_ns o; ob_wrap := ob_wrap o;
     ob_ops := map (fun x => {| o_kind := o_kind x; o_calls := o_calls x; o_amod := (if o_kind x =? K_PTR then 8 else 0); o_ovl := o_ovl x;
                                o_off := o_off x; o_req := o_req x; o_nk := o_nk x; o_nv := o_nv x; o_dig := o_dig x; o_total := o_total x;
                                o_rep := o_rep x |}) (ob_ops o);
     ob_end_live := ob_end_live o; ob_end_total := ob_end_total o; ob_end_rep := ob_end_rep o |}.
Example ex_wrapped_run : valid ex_wrapped = true /\ spec ex_wrapped (run ex_wrapped) = true /\ spec ex_wrapped (canon (run ex_wrapped)) = true /\
  map o_kind (ob_ops (run ex_wrapped)) = [K_PTR; K_PTR; K_PTR; K_NULL; K_VOID] /\ spec ex_wrapped (misalign (run ex_wrapped)) = false.
Proof. lazy. repeat split. Qed.
Example ex_wrapped_faults_invalid : valid {| sc_cfg := ex_wcfg; sc_wrap := true; sc_fail := [1]; sc_ops := [OMalloc 16] |} = false.
Proof. reflexivity. Qed.
