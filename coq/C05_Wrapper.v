(* C05 -- scenarios with memory accounting on: the accounting wrapper allocators between the tracked entry points and the
   underlying allocator.

   Part 1: executable mirror of AccountingTestMemoryAllocator::alloc_memory / free_memory, of its tracking list
   (TestMemoryAllocator.cpp: addMemoryToMemoryTrackingToKeepTrackOfSize, removeMemoryFromTrackingAndReturnAllocatedSize,
   removeHeadAndReturnSize, removeNextNodeAndReturnSize) and of the part of MemoryAccountant that asks for memory
   (findOrCreateNodeOfSize: one statistics node per size, requested when a size is first accounted for) over an oracle for the
   allocator it wraps.  Proved: the wrapper is transparent -- the pointer it returns is the pointer the wrapped allocator
   returned for exactly the requested size (so address, alignment, usable bytes and region are the wrapped allocator's), its own
   node and the statistics node are separate requests, and free hands back exactly the pointer it was given plus the node --
   which is why [run] of a wrapper scenario is [run] of the scenario without wrappers; and it fails cleanly: when the wrapped
   allocator refuses the block or the tracking node, alloc_memory returns NULL, tracking list and statistics are unchanged and
   no block of the wrapped allocator stays allocated; when it refuses only the statistics node, the block is returned and that
   size simply has no statistics.  The code as it was before the repair (statistics first, no NULL test on either node, a NULL
   block recorded like a block) is kept as [w_alloc_old]; the clean-failure statement is refuted for it on the scenario that
   crashed (`1 40 1 2 :wrap :m 10`: the third underlying request, the tracking node, refused).  The variant that puts the
   node in front of the block (one request of NODE + size, returns block + NODE) is refuted for NODE = 24: its blocks are 8 mod 16.

   Part 2: what [spec] demands of a wrapper scenario: everything it demands without wrappers except the clause about the sizes
   of the underlying calls, with "no failed call" weakened to "no failed call other than a request for a statistics node" for a
   returned pointer and "everything given back" to "everything but statistics nodes given back" for a failed request; of the call
   logs it reads only these three facts (this is the projection checks/C05.py applies before it compares the model's and the
   implementation's observation of a wrapper scenario without fault indices). *)
From Coq Require Import NArith Bool List Lia.
From CppUVerif Require Import gen.Gen_Common gen.Gen_C05 lib.Str C05_Model C05_Proofs C05_History.
Import ListNotations.
Local Open Scope N_scope.

(* ===================================================================================================================== *)
(* Part 1: the wrapper                                                                                                    *)
(* ===================================================================================================================== *)
(* addresses are numbers, NULL = 0.  [und k size]: what the wrapped allocator returns for its k-th request (0 = refused). *)
Record wnode := { wn_addr : N; wn_mem : N; wn_size : N }.      (* the node's own address, memory_, size_ *)
Inductive ucall := UAlloc (size res : N) | UFree (addr size : N).
Definition NODE : N := c05_tracking_node_size.                 (* sizeof(AccountingTestMemoryAllocatorMemoryNode), LP64: 24 *)
Definition STAT : N := c05_accountant_node_size.               (* sizeof(MemoryAccountantAllocationNode), LP64: 48 *)

(* MemoryAccountant::alloc(size) / dealloc(size) as far as memory goes: findOrCreateNodeOfSize asks the allocator for a node
   when [size] has none yet ([cl]: the sizes that have one).  Repaired code: a refused node leaves the list as it is and the
   statistics of this call are skipped *)
Definition a_touch (und : N -> N -> N) (k : N) (cl : list N) (size : N) : N * list N * list ucall :=
  if mem size cl then (k, cl, [])
  else let node := und k STAT in (k + 1, (if node =? 0 then cl else size :: cl), [UAlloc STAT node]).
(* as it was: the refused node is written to ([None] = NULL dereferenced) *)
Definition a_touch_old (und : N -> N -> N) (k : N) (cl : list N) (size : N) : option (N * list N * list ucall) :=
  if mem size cl then Some (k, cl, [])
  else let node := und k STAT in if node =? 0 then None else Some (k + 1, size :: cl, [UAlloc STAT node]).

(* result pointer, next request index, sizes with statistics, tracking list, requests made *)
Record wres := { r_ptr : N; r_k : N; r_cl : list N; r_list : list wnode; r_calls : list ucall }.

(* alloc_memory, repaired: memory = original->alloc_memory(size), NULL passed on; addMemoryToMemoryTrackingToKeepTrackOfSize:
   node = original->alloc_memory(sizeof node), on NULL the block is given back and NULL returned, else the node is pushed at
   the head; accountant_.alloc(size) last, for a request that was served *)
Definition w_alloc (node_sz : N) (und : N -> N -> N) (k : N) (cl : list N) (l : list wnode) (size : N) : wres :=
  let memory := und k size in
  if memory =? 0 then {| r_ptr := 0; r_k := k + 1; r_cl := cl; r_list := l; r_calls := [UAlloc size 0] |}
  else
    let node := und (k + 1) node_sz in
    if node =? 0 then {| r_ptr := 0; r_k := k + 2; r_cl := cl; r_list := l; r_calls := [UAlloc size memory; UAlloc node_sz 0; UFree memory size] |}
    else
      let '(k', cl', cs) := a_touch und (k + 2) cl size in
      {| r_ptr := memory; r_k := k'; r_cl := cl'; r_list := {| wn_addr := node; wn_mem := memory; wn_size := size |} :: l;
         r_calls := [UAlloc size memory; UAlloc node_sz node] ++ cs |}.

(* alloc_memory as it was: accountant_.alloc(size) first; memory = original->alloc_memory(size) is not tested; the node is
   written without a NULL test ([None]) and records whatever [memory] is, NULL included *)
Definition w_alloc_old (node_sz : N) (und : N -> N -> N) (k : N) (cl : list N) (l : list wnode) (size : N) : option wres :=
  match a_touch_old und k cl size with
  | None => None
  | Some (k1, cl1, cs1) =>
      let memory := und k1 size in
      let node := und (k1 + 1) node_sz in
      if node =? 0 then None
      else Some {| r_ptr := memory; r_k := k1 + 2; r_cl := cl1; r_list := {| wn_addr := node; wn_mem := memory; wn_size := size |} :: l;
                   r_calls := cs1 ++ [UAlloc size memory; UAlloc node_sz node] |}
  end.

(* removeMemoryFromTrackingAndReturnAllocatedSize: the head, else the first later node whose memory_ is [memory] *)
Fixpoint w_remove (memory : N) (l : list wnode) : option wnode * list wnode :=
  match l with
  | [] => (None, [])
  | x :: r => if wn_mem x =? memory then (Some x, r) else let '(fo, r') := w_remove memory r in (fo, x :: r')
  end.

(* free_memory: the node (if there is one) is given back, accountant_.dealloc(size of the node, 0 without one), then
   original->free_memory(memory, size) *)
Definition w_free (und : N -> N -> N) (k : N) (cl : list N) (l : list wnode) (memory : N) : N * list N * list wnode * list ucall :=
  match w_remove memory l with
  | (Some x, l') => let '(k', cl', cs) := a_touch und k cl (wn_size x) in (k', cl', l', UFree (wn_addr x) (wn_size x) :: cs ++ [UFree memory (wn_size x)])
  | (None, l') => let '(k', cl', cs) := a_touch und k cl 0 in (k', cl', l', cs ++ [UFree memory 0])
  end.

(* the variant with the node in front of the block: one request, the block starts [node_sz] bytes into it *)
Definition w_alloc_prefix (node_sz : N) (und : N -> N -> N) (k : N) (l : list wnode) (size : N) : N * list wnode * list ucall :=
  let block := und k (node_sz + size) in
  if block =? 0 then (0, l, [UAlloc (node_sz + size) 0])
  else (block + node_sz, {| wn_addr := block; wn_mem := block + node_sz; wn_size := size |} :: l, [UAlloc (node_sz + size) block]).

(* blocks of the wrapped allocator obtained and not given back by a sequence of requests *)
Fixpoint held (cs : list ucall) (acc : list N) : list N :=
  match cs with
  | [] => acc
  | UAlloc _ res :: r => held r (if res =? 0 then acc else res :: acc)
  | UFree a _ :: r => held r (filter (fun x => negb (x =? a)) acc)
  end.
Definition stat_request (c : ucall) : Prop := exists res, c = UAlloc STAT res.

Lemma a_touch_calls und k cl size : Forall stat_request (snd (a_touch und k cl size)).
Proof.
  unfold a_touch. destruct (mem size cl); cbn [snd]; [constructor|]. constructor; [eexists; reflexivity|constructor].
Qed.

(* transparency: a pointer the wrapper returns is the wrapped allocator's pointer for exactly the requested size (same address,
   same alignment); the node is a request of its own and is pushed; whatever else is asked for is a statistics node *)
Lemma wrapper_transparent node_sz und k cl l size :
  let r := w_alloc node_sz und k cl l size in
  r_ptr r <> 0 ->
  r_ptr r = und k size /\ r_ptr r mod 16 = und k size mod 16 /\ und (k + 1) node_sz <> 0 /\
  r_list r = {| wn_addr := und (k + 1) node_sz; wn_mem := r_ptr r; wn_size := size |} :: l /\
  exists cs, r_calls r = [UAlloc size (r_ptr r); UAlloc node_sz (und (k + 1) node_sz)] ++ cs /\ Forall stat_request cs.
Proof.
  cbv zeta. unfold w_alloc.
  destruct (N.eqb_spec (und k size) 0) as [E|E]; [cbn [r_ptr]; congruence|].
  destruct (N.eqb_spec (und (k + 1) node_sz) 0) as [E2|E2]; [cbn [r_ptr]; congruence|].
  pose proof (a_touch_calls und (k + 2) cl size) as Hs.
  destruct (a_touch und (k + 2) cl size) as [[k' cl'] cs]. cbn [r_ptr r_list r_calls snd] in *. intros _.
  repeat split; try assumption. exists cs. split; [reflexivity|exact Hs].
Qed.

(* clean failure: the wrapped allocator refuses the block or the tracking node: NULL, tracking list and statistics as before,
   and no block of the wrapped allocator stays allocated *)
Lemma wrapper_alloc_fails_cleanly node_sz und k cl l size :
  und k size = 0 \/ und (k + 1) node_sz = 0 ->
  let r := w_alloc node_sz und k cl l size in
  r_ptr r = 0 /\ r_list r = l /\ r_cl r = cl /\ held (r_calls r) [] = [].
Proof.
  intro H. cbv zeta. unfold w_alloc.
  destruct (N.eqb_spec (und k size) 0) as [E|E].
  - cbn [r_ptr r_list r_cl r_calls held]. repeat split.
  - destruct H as [H|H]; [congruence|]. rewrite H. cbn [N.eqb r_ptr r_list r_cl r_calls held].
    destruct (N.eqb_spec (und k size) 0) as [E'|_]; [congruence|]. cbn [filter]. rewrite N.eqb_refl. repeat split.
Qed.

(* ... and when it refuses only the statistics node, the caller is served all the same: that size just has no statistics *)
Lemma wrapper_stat_refused node_sz und k cl l size :
  und k size <> 0 -> und (k + 1) node_sz <> 0 -> mem size cl = false -> und (k + 2) STAT = 0 ->
  let r := w_alloc node_sz und k cl l size in
  r_ptr r = und k size /\ r_cl r = cl /\ r_list r = {| wn_addr := und (k + 1) node_sz; wn_mem := und k size; wn_size := size |} :: l.
Proof.
  intros E1 E2 Hm E3. cbv zeta. unfold w_alloc, a_touch.
  destruct (N.eqb_spec (und k size) 0) as [E|_]; [congruence|].
  destruct (N.eqb_spec (und (k + 1) node_sz) 0) as [E|_]; [congruence|].
  rewrite Hm, E3. cbn [N.eqb r_ptr r_cl r_list]. repeat split.
Qed.

(* free after alloc: the tracking list is what it was; exactly the two pointers obtained are given back, the block found by
   its own address; in between at most a statistics node is asked for *)
Lemma wrapper_alloc_free node_sz und k cl l size :
  let r := w_alloc node_sz und k cl l size in
  r_ptr r <> 0 ->
  exists k' cl' cs, w_free und (r_k r) (r_cl r) (r_list r) (r_ptr r) = (k', cl', l, UFree (und (k + 1) node_sz) size :: cs ++ [UFree (r_ptr r) size]) /\
                    Forall stat_request cs.
Proof.
  cbv zeta. intro Hp. destruct (wrapper_transparent node_sz und k cl l size Hp) as (_ & _ & _ & Hl & _).
  unfold w_free. rewrite Hl. cbn [w_remove wn_mem]. rewrite N.eqb_refl. cbn [wn_size wn_addr].
  pose proof (a_touch_calls und (r_k (w_alloc node_sz und k cl l size)) (r_cl (w_alloc node_sz und k cl l size)) size) as Hs.
  destruct (a_touch und (r_k (w_alloc node_sz und k cl l size)) (r_cl (w_alloc node_sz und k cl l size)) size) as [[k' cl'] cs].
  exists k', cl', cs. split; [reflexivity|exact Hs].
Qed.

(* a pointer the wrapper does not know (e.g. a block moved by realloc, which does not go through the wrapper) is passed on as it
   is, accounted for under size 0 *)
Lemma wrapper_free_unknown und k cl l memory : Forall (fun x => wn_mem x <> memory) l ->
  exists k' cl' cs, w_free und k cl l memory = (k', cl', l, cs ++ [UFree memory 0]) /\ Forall stat_request cs.
Proof.
  intro H. unfold w_free. assert (E : w_remove memory l = (None, l)).
  { induction l as [|x r IH]; [reflexivity|]. inversion H as [|? ? Hx Hr]; subst. cbn [w_remove].
    destruct (N.eqb_spec (wn_mem x) memory) as [E|_]; [contradiction|]. rewrite (IH Hr). reflexivity. }
  rewrite E. pose proof (a_touch_calls und k cl 0) as Hs. destruct (a_touch und k cl 0) as [[k' cl'] cs].
  exists k', cl', cs. split; [reflexivity|exact Hs].
Qed.

(* whatever is removed was in the list, everything else stays in order *)
Lemma w_remove_sound memory l : match w_remove memory l with
  | (Some x, l') => wn_mem x = memory /\ exists a b, l = a ++ x :: b /\ l' = a ++ b /\ Forall (fun y => wn_mem y <> memory) a
  | (None, l') => l' = l /\ Forall (fun y => wn_mem y <> memory) l
  end.
Proof.
  induction l as [|x r IH]; cbn [w_remove]; [split; [reflexivity|constructor]|].
  destruct (N.eqb_spec (wn_mem x) memory) as [E|E].
  - split; [exact E|]. exists [], r. repeat split. constructor.
  - destruct (w_remove memory r) as [[y|] r'].
    + destruct IH as (Hy & a & b & -> & -> & Ha). split; [exact Hy|]. exists (x :: a), b. repeat split. constructor; assumption.
    + destruct IH as (-> & Hr). split; [reflexivity|]. constructor; assumption.
Qed.

(* the node in front of the block: wherever the wrapped allocator returns 16-aligned blocks, the wrapper's are 8 mod 16 *)
Lemma wrapper_prefix_refuted und k l size :
  und k (NODE + size) <> 0 -> und k (NODE + size) mod 16 = 0 ->
  fst (fst (w_alloc_prefix NODE und k l size)) mod 16 = 8.
Proof.
  intros Hn Ha. unfold w_alloc_prefix. destruct (N.eqb_spec (und k (NODE + size)) 0) as [E|_]; [contradiction|].
  cbn [fst]. rewrite N.add_mod by discriminate. rewrite Ha. reflexivity.
Qed.

(* ---- the code as it was.  [und_fail f]: the wrapped allocator refuses its f-th request and serves every other one.
   Statement: with a fresh accountant and an empty tracking list, whichever of the three underlying requests of alloc_memory(24)
   -- statistics node, block, tracking node -- is refused, NULL comes back, nothing is recorded and nothing stays allocated.
   Refuted: f = 2 is the scenario `1 40 1 2 :wrap :m 10` (cpputest_malloc(16) asks the wrapper for 24 bytes): the refused
   tracking node is written to.  Likewise f = 0 (the refused statistics node is written to); f = 1 returns NULL but records the
   NULL block like a block and keeps its node *)
Definition und_fail (f : N) (k size : N) : N := if k =? f then 0 else 4096 + 64 * k.
Definition w_clean (l : list wnode) (cl : list N) (r : option wres) : Prop :=
  match r with Some r => r_ptr r = 0 /\ r_list r = l /\ r_cl r = cl /\ held (r_calls r) [] = [] | None => False end.
Definition wrapper_fault_old_stmt : Prop := forall f, f < 3 -> w_clean [] [] (w_alloc_old NODE (und_fail f) 0 [] [] 24).

Lemma wrapper_fault_old_refuted : ~ wrapper_fault_old_stmt.
Proof. intro H. specialize (H 2 eq_refl). vm_compute in H. exact H. Qed.

Example ex_old_faults :
  w_alloc_old NODE (und_fail 0) 0 [] [] 24 = None /\ w_alloc_old NODE (und_fail 2) 0 [] [] 24 = None /\
  option_map (fun r => (r_ptr r, r_list r)) (w_alloc_old NODE (und_fail 1) 0 [] [] 24) = Some (0, [{| wn_addr := 4224; wn_mem := 0; wn_size := 24 |}]).
Proof. vm_compute. repeat split. Qed.
(* the repaired code on the same three fault points (now block, tracking node, statistics node): NULL and clean twice, then served *)
Example ex_new_faults :
  w_clean [] [] (Some (w_alloc NODE (und_fail 0) 0 [] [] 24)) /\ w_clean [] [] (Some (w_alloc NODE (und_fail 1) 0 [] [] 24)) /\
  r_ptr (w_alloc NODE (und_fail 2) 0 [] [] 24) = 4096 /\ r_cl (w_alloc NODE (und_fail 2) 0 [] [] 24) = [] /\
  r_cl (w_alloc NODE (und_fail 9) 0 [] [] 24) = [24].
Proof. vm_compute. repeat split. Qed.

Definition ex_und (k size : N) : N := if 1048576 <? size then 0 else 4096 + 64 * k.
Example ex_wrapper :
  let r := w_alloc NODE ex_und 3 [] [] 100 in
  r_ptr r = 4288 /\ r_list r = [{| wn_addr := 4352; wn_mem := 4288; wn_size := 100 |}] /\
  r_calls r = [UAlloc 100 4288; UAlloc 24 4352; UAlloc 48 4416] /\ r_cl r = [100] /\
  4288 mod 16 = 0 /\ fst (fst (w_alloc_prefix NODE ex_und 3 [] 100)) = 4312 /\ 4312 mod 16 = 8 /\
  w_free ex_und (r_k r) (r_cl r) (r_list r) 4288 = (6, [100], [], [UFree 4352 100; UFree 4288 100]).
Proof. vm_compute. repeat split. Qed.

(* ===================================================================================================================== *)
(* Part 2: the oracle on wrapper scenarios                                                                                 *)
(* ===================================================================================================================== *)
Ltac split_all :=
  repeat match goal with H : _ && _ = true |- _ => apply andb_true_iff in H; destruct H end;
  repeat match goal with
         | H : (_ =? _) = true |- _ => apply N.eqb_eq in H
         | H : (_ <? _) = true |- _ => apply N.ltb_lt in H
         | H : negb _ = true |- _ => apply negb_true_iff in H
         | H : Bool.eqb _ _ = true |- _ => apply eqb_prop in H
         end.

Definition set_wrap (b : bool) (sc : scenario) : scenario :=
  {| sc_cfg := sc_cfg sc; sc_wrap := b; sc_fail := sc_fail sc; sc_ops := sc_ops sc |}.
Definition obs_set_wrap (b : bool) (o : obs) : obs :=
  {| ob_guard := ob_guard o; ob_ns := ob_ns o; ob_wrap := b; ob_faults := ob_faults o; ob_ops := ob_ops o; ob_end_live := ob_end_live o;
     ob_end_total := ob_end_total o; ob_end_rep := ob_end_rep o; ob_end_leak := ob_end_leak o |}.

(* the model's observation does not depend on the wrappers (beyond echoing the flag) *)
Lemma run_wrap_independent v b sc : run_v v (set_wrap b sc) = obs_set_wrap b (run_v v sc).
Proof.
  unfold run_v, set_wrap, obs_set_wrap. cbn [sc_cfg sc_fail sc_ops sc_wrap].
  destruct (steps v (sc_cfg sc) (sc_fail sc) st0 0 (sc_ops sc)) as [s os].
  destruct (release_all s (s_blocks s) 0) as [s' rep]. reflexivity.
Qed.

(* ---- whatever is accepted without wrappers is accepted with them *)
Lemma hard_failed_le cs : hard_failed cs = true -> any_failed cs = true.
Proof.
  intro H. destruct (any_failed cs) eqn:E; [reflexivity|]. rewrite (hard_failed_none _ E) in H. discriminate H.
Qed.

Lemma spec_alloc_mono w c thr n content before after fd o :
  spec_alloc false c thr n content before after fd o = true -> spec_alloc w c thr n content before after fd o = true.
Proof.
  destruct w; [|intro H; exact H].
  unfold spec_alloc. cbn [orb]. intro H.
  apply andb_true_iff in H. destruct H as [H H2]. apply andb_true_iff in H. destruct H as [H0 H1].
  rewrite H0. cbn [andb].
  destruct (o_kind o =? K_PTR).
  - destruct (any_failed (o_calls o)) eqn:Ef; [discriminate H2|]. rewrite (hard_failed_none _ Ef). exact H2.
  - destruct (o_kind o =? (if thr then K_BAD else K_NULL)); [|exact H2].
    apply andb_true_iff in H2. destruct H2 as [H2 H5]. apply andb_true_iff in H2. destruct H2 as [H2 H4].
    apply andb_true_iff in H2. destruct H2 as [H2 H3]. rewrite H2, (wbalanced_of_balanced _ H3), H4, H5. reflexivity.
Qed.

Lemma spec_step_mono w c l idx o ob l' : spec_step false c l idx o ob = Some l' -> spec_step w c l idx o ob = Some l'.
Proof.
  assert (A : forall thr n content before after fd X,
             (if spec_alloc false c thr n content before after fd ob then Some X else None) = Some l' ->
             (if spec_alloc w c thr n content before after fd ob then Some X else None) = Some l').
  { intros thr n content before after fd X H.
    destruct (spec_alloc false c thr n content before after fd ob) eqn:E; [|discriminate H].
    rewrite (spec_alloc_mono w _ _ _ _ _ _ _ _ E). exact H. }
  destruct o as [n|n|a b|[i|] n|s|s k|arr thr n|i|i off bytes]; cbn [spec_step]; try apply A; try (intro H; exact H).
  destruct (l_find i l) as [[fam d]|]; [|intro H; exact H].
  destruct fam; [apply A|intro H; exact H].
Qed.

Lemma spec_steps_mono w c ops : forall l idx obs e,
  spec_steps false c l idx ops obs e = true -> spec_steps w c l idx ops obs e = true.
Proof.
  induction ops as [|o r IH]; intros l idx obs e H; destruct obs as [|ob obr]; cbn [spec_steps] in *; try exact H.
  destruct (spec_step false c l idx o ob) as [l'|] eqn:E; [|discriminate H].
  rewrite (spec_step_mono w _ _ _ _ _ _ E). apply IH. exact H.
Qed.

Lemma spec_wrap_monotone sc o : sc_wrap sc = false -> spec sc o = true -> spec (set_wrap true sc) (obs_set_wrap true o) = true.
Proof.
  intros Hw H. unfold spec in *.
  cbn [set_wrap obs_set_wrap sc_cfg sc_wrap sc_fail sc_ops ob_guard ob_ns ob_wrap ob_faults ob_ops ob_end_live ob_end_total ob_end_rep ob_end_leak].
  rewrite Hw in H.
  repeat match goal with H : _ && _ = true |- _ => apply andb_true_iff in H; destruct H end.
  match goal with H : (ob_end_leak o <=? 0) = true |- _ => apply N.leb_le in H; rename H into Hleak end.
  repeat match goal with H : Bool.eqb _ _ = true |- _ => apply eqb_prop in H end.
  repeat match goal with H : ?x = true |- context [?x] => rewrite H end.
  match goal with H : ob_guard o = _ |- _ => rewrite H end.
  match goal with H : ob_faults o = _ |- _ => rewrite H end.
  match goal with H : spec_steps false _ _ _ _ _ _ = true |- _ => rewrite (spec_steps_mono true _ _ _ _ _ _ H) end.
  rewrite !eqb_reflx. cbn [andb]. apply N.leb_le. lia.
Qed.

(* ---- with wrappers the oracle reads from a call log three facts: a call other than a request for a statistics node failed; a
   request for a statistics node failed; and, of a request that returned NULL / bad_alloc only, whether everything obtained,
   statistics nodes apart, was given back.  [canon_calls]: the shortest log with the same facts *)
Definition nullish (kind : N) : bool := (kind =? K_NULL) || (kind =? K_BAD).
Definition canon_calls (null : bool) (cs : list call) : list call :=
  (if hard_failed cs then [(0, 0, false)] else []) ++ (if stat_failed cs then [(0, c05_accountant_node_size, false)] else []) ++
  (if null && negb (wbalanced cs) then [(0, 0, true)] else []).
Definition canon_op (o : oobs) : oobs :=
  {| o_kind := o_kind o; o_calls := canon_calls (nullish (o_kind o)) (o_calls o); o_amod := o_amod o; o_ovl := o_ovl o; o_off := o_off o; o_req := o_req o;
     o_nk := o_nk o; o_nv := o_nv o; o_dig := o_dig o; o_total := o_total o; o_rep := o_rep o |}.
Definition canon (o : obs) : obs :=
  {| ob_guard := ob_guard o; ob_ns := ob_ns o; ob_wrap := ob_wrap o; ob_faults := ob_faults o; ob_ops := map canon_op (ob_ops o);
     ob_end_live := ob_end_live o; ob_end_total := ob_end_total o; ob_end_rep := ob_end_rep o; ob_end_leak := ob_end_leak o |}.

Lemma any_failed_split cs : any_failed cs = hard_failed cs || stat_failed cs.
Proof.
  unfold any_failed, hard_failed, stat_failed. induction cs as [|x cs IH]; cbn [existsb]; [reflexivity|]. rewrite IH.
  destruct (snd x), (is_stat x), (existsb (fun x0 : call => negb (snd x0) && negb (is_stat x0)) cs); reflexivity.
Qed.

Lemma canon_facts null cs :
  hard_failed (canon_calls null cs) = hard_failed cs /\ stat_failed (canon_calls null cs) = stat_failed cs /\
  (null = true -> wbalanced (canon_calls null cs) = wbalanced cs).
Proof.
  unfold canon_calls. destruct null, (hard_failed cs), (stat_failed cs), (wbalanced cs); vm_compute; repeat split; intro; congruence.
Qed.

Lemma any_failed_canon null cs : any_failed (canon_calls null cs) = any_failed cs.
Proof. rewrite !any_failed_split. destruct (canon_facts null cs) as (-> & -> & _). reflexivity. Qed.

Lemma spec_alloc_canon c thr n content before after fd o :
  spec_alloc true c thr n content before after fd (canon_op o) = spec_alloc true c thr n content before after fd o.
Proof.
  unfold spec_alloc, layout_ok. cbn [canon_op o_kind o_calls o_amod o_ovl o_off o_req o_nk o_nv o_dig o_total o_rep orb].
  rewrite any_failed_canon. destruct (canon_facts (nullish (o_kind o)) (o_calls o)) as (-> & _ & Hb).
  destruct (o_kind o =? K_PTR); [reflexivity|].
  destruct (o_kind o =? (if thr then K_BAD else K_NULL)) eqn:E; [|reflexivity].
  rewrite Hb; [reflexivity|]. apply N.eqb_eq in E. rewrite E. destruct thr; reflexivity.
Qed.

Lemma spec_step_canon c l idx o ob : spec_step true c l idx o (canon_op ob) = spec_step true c l idx o ob.
Proof.
  assert (K : o_kind (canon_op ob) = o_kind ob) by reflexivity.
  assert (S : spec_skip l (canon_op ob) = spec_skip l ob) by reflexivity.
  destruct o as [n|n|a b|[i|] n|s|s k|arr thr n|i|i off bytes]; cbn [spec_step]; rewrite ?spec_alloc_canon, ?K, ?S; try reflexivity.
  - destruct (l_find i l) as [[fam d]|]; [|reflexivity]. destruct fam; [|reflexivity]. rewrite spec_alloc_canon. reflexivity.
Qed.

Lemma spec_steps_canon c ops : forall l idx obs e,
  spec_steps true c l idx ops (map canon_op obs) e = spec_steps true c l idx ops obs e.
Proof.
  induction ops as [|o r IH]; intros l idx obs e; destruct obs as [|ob obr]; cbn [spec_steps map]; try reflexivity.
  rewrite spec_step_canon. destruct (spec_step true c l idx o ob); [apply IH|reflexivity].
Qed.

Lemma moved_canon ops : forall obs, moved ops (map canon_op obs) = moved ops obs.
Proof.
  induction ops as [|o r IH]; intros obs; destruct obs as [|ob obr]; cbn [moved map]; try reflexivity. rewrite IH. reflexivity.
Qed.

Lemma spec_wrap_reads_failure_only sc o : sc_wrap sc = true -> spec sc (canon o) = spec sc o.
Proof.
  intro Hw. unfold spec. rewrite Hw. cbn [canon ob_guard ob_ns ob_wrap ob_faults ob_ops ob_end_live ob_end_total ob_end_rep ob_end_leak].
  rewrite spec_steps_canon, moved_canon. reflexivity.
Qed.

(* ---- what an accepted observation guarantees for every returned pointer, wrappers ([w]) or not: no failed call, except that
   with the wrappers a request for a statistics node may have failed *)
Definition ptr_sound (w : bool) (c : cfg) (ob : oobs) : Prop :=
  o_kind ob = K_PTR ->
  o_amod ob = 0 /\ o_ovl ob = 0 /\ o_rep ob = 0 /\ hard_failed (o_calls ob) = false /\ (w = false -> any_failed (o_calls ob) = false) /\
  exists n, n < W /\ layout_ok c n ob = true.
(* ... and for every request that returned NULL / bad_alloc: a call failed or the size is too big, and what was obtained was
   given back (statistics nodes apart with the wrappers) *)
Definition null_clean (w : bool) (ob : oobs) : Prop :=
  o_kind ob = K_NULL \/ o_kind ob = K_BAD -> o_rep ob = 0 /\ (if w then wbalanced (o_calls ob) else balanced (o_calls ob)) = true.

Lemma spec_alloc_ptr w c thr n content before after fd o : spec_alloc w c thr n content before after fd o = true -> ptr_sound w c o /\ null_clean w o.
Proof.
  unfold spec_alloc. intro H. split.
  - intro Hk. rewrite Hk in H. change (K_PTR =? K_PTR) with true in H. cbv iota in H.
    split_all. destruct w;
      (repeat split; try assumption; try (intro; discriminate); try (intro; assumption); try (apply hard_failed_none; assumption);
       try (exists n; split; assumption)).
  - intro Hk. apply andb_true_iff in H. destruct H as [H H2]. apply andb_true_iff in H. destruct H as [H0 _]. apply N.eqb_eq in H0.
    split; [exact H0|].
    destruct (o_kind o =? K_PTR) eqn:E; [apply N.eqb_eq in E; destruct Hk as [Hk|Hk]; rewrite Hk in E; discriminate E|].
    destruct (o_kind o =? (if thr then K_BAD else K_NULL)); [|discriminate H2]. split_all. assumption.
Qed.

Lemma spec_step_ptr w c l idx o ob l' : spec_step w c l idx o ob = Some l' -> ptr_sound w c ob /\ null_clean w ob.
Proof.
  assert (A : forall thr n content before after fd X,
             (if spec_alloc w c thr n content before after fd ob then Some X else None) = Some l' -> ptr_sound w c ob /\ null_clean w ob).
  { intros thr n content before after fd X H.
    destruct (spec_alloc w c thr n content before after fd ob) eqn:E; [|discriminate H]. exact (spec_alloc_ptr _ _ _ _ _ _ _ _ _ E). }
  assert (S : forall X : option live, (if spec_skip l ob then X else None) = Some l' -> ptr_sound w c ob /\ null_clean w ob).
  { intros X H. unfold spec_skip in H. split; [intro Hk|intros [Hk|Hk]]; rewrite Hk in H; discriminate H. }
  assert (V : forall (b2 b3 : bool) X, (if (o_kind ob =? K_VOID) && b2 && b3 then X else None) = Some l' -> ptr_sound w c ob /\ null_clean w ob).
  { intros b2 b3 X H. split; [intro Hk|intros [Hk|Hk]]; rewrite Hk in H; discriminate H. }
  destruct o as [n|n|a b|[i|] n|s|s k|arr thr n|i|i off bytes]; cbn [spec_step]; try apply A.
  - destruct (l_find i l) as [[fam d]|]; [|apply S]. destruct fam; [apply A|apply S].
  - destruct (l_find i l) as [[fam d]|]; [apply V|apply S].
  - destruct (l_find i l) as [[fam d]|]; [|apply S].
    destruct ((off <=? N.of_nat (length d)) && (N.of_nat (length bytes) <=? N.of_nat (length d) - off)); [apply V|apply S].
Qed.

Lemma spec_steps_ptr w c ops : forall l idx obs e, spec_steps w c l idx ops obs e = true -> Forall (fun ob => ptr_sound w c ob /\ null_clean w ob) obs.
Proof.
  induction ops as [|o r IH]; intros l idx obs e H; destruct obs as [|ob obr]; cbn [spec_steps] in H; try discriminate H; [constructor|].
  destruct (spec_step w c l idx o ob) as [l'|] eqn:E; [|discriminate H].
  constructor; [exact (spec_step_ptr _ _ _ _ _ _ _ E)|exact (IH _ _ _ _ H)].
Qed.

Lemma moved_le ops : forall obs, moved ops obs <= N.of_nat (length ops).
Proof.
  induction ops as [|o r IH]; intros obs; destruct obs as [|ob obr]; cbn [moved length]; try lia.
  specialize (IH obr). destruct o as [n|n|a b|[i|] n|s|s k|arr thr n|i|i off bytes]; try lia. destruct (o_kind ob =? K_PTR); lia.
Qed.

Lemma spec_demands sc o : spec sc o = true ->
  ob_wrap o = sc_wrap sc /\ Forall (fun ob => ptr_sound (sc_wrap sc) (sc_cfg sc) ob /\ null_clean (sc_wrap sc) ob) (ob_ops o) /\
  ob_end_total o = 0 /\ ob_end_rep o = 0 /\ (sc_wrap sc = false -> ob_end_leak o = 0) /\ ob_end_leak o <= moved (sc_ops sc) (ob_ops o).
Proof.
  unfold spec. intro H.
  repeat match goal with H : _ && _ = true |- _ => apply andb_true_iff in H; destruct H end.
  match goal with H : (ob_end_leak o <=? _) = true |- _ => apply N.leb_le in H; rename H into Hleak end.
  split_all. repeat split; try assumption.
  - match goal with H : spec_steps _ _ _ _ _ _ _ = true |- _ => exact (spec_steps_ptr _ _ _ _ _ _ _ H) end.
  - intro Hw. rewrite Hw in Hleak. lia.
  - destruct (sc_wrap sc); lia.
Qed.

(* ---- the hypotheses can be met: a wrapper scenario, its observation, and the observation with the blocks 8 mod 16 *)
Definition ex_wcfg : cfg := {| guard_on := true; node_size := 64 |}.
Definition ex_wrapped : scenario :=
  {| sc_cfg := ex_wcfg; sc_wrap := true; sc_fail := []; sc_ops := [OMalloc 16; ONew false true 8; ORealloc (Some 0) 40; OMalloc 2097152; OFree 1] |}.
Definition misalign (o : obs) : obs :=
  {| ob_guard := ob_guard o; ob_ns := ob_ns o; ob_wrap := ob_wrap o; ob_faults := ob_faults o;
     ob_ops := map (fun x => {| o_kind := o_kind x; o_calls := o_calls x; o_amod := (if o_kind x =? K_PTR then 8 else 0); o_ovl := o_ovl x;
                                o_off := o_off x; o_req := o_req x; o_nk := o_nk x; o_nv := o_nv x; o_dig := o_dig x; o_total := o_total x;
                                o_rep := o_rep x |}) (ob_ops o);
     ob_end_live := ob_end_live o; ob_end_total := ob_end_total o; ob_end_rep := ob_end_rep o; ob_end_leak := ob_end_leak o |}.
Example ex_wrapped_run : valid ex_wrapped = true /\ spec ex_wrapped (run ex_wrapped) = true /\ spec ex_wrapped (canon (run ex_wrapped)) = true /\
  map o_kind (ob_ops (run ex_wrapped)) = [K_PTR; K_PTR; K_PTR; K_NULL; K_VOID] /\ spec ex_wrapped (misalign (run ex_wrapped)) = false.
Proof. lazy. repeat split. Qed.

(* ---- fault points with the wrappers installed: what the implementation observes on `1 40 1 k :wrap :m 10` for k = 2 (the
   statistics node refused: a sound block all the same), k = 1 (the tracking node refused: NULL, the block given back) -- accepted;
   the second with the block not given back, and a pointer after a refused tracking node -- rejected.  Logs as the harness prints
   them: block 24, tracking node 24, statistics node 48, leak record 64, its tracking node 24, its statistics node 48 *)
Definition ex_wfault (k : N) : scenario := {| sc_cfg := ex_wcfg; sc_wrap := true; sc_fail := [k]; sc_ops := [OMalloc 16] |}.
Definition ex_wobs (kind : N) (cs : list call) (live : list (N * list N)) (leak : N) : obs :=
  {| ob_guard := true; ob_ns := 64; ob_wrap := true; ob_faults := true;
     ob_ops := [{| o_kind := kind; o_calls := cs; o_amod := 0; o_ovl := 0; o_off := 0; o_req := (if kind =? K_PTR then 24 else 0);
                   o_nk := (if kind =? K_PTR then 2 else 0); o_nv := (if kind =? K_PTR then 64 else 0);
                   o_dig := (if kind =? K_PTR then repeat FILL 16 else []); o_total := (if kind =? K_PTR then 1 else 0); o_rep := 0 |}];
     ob_end_live := live; ob_end_total := 0; ob_end_rep := 0; ob_end_leak := leak |}.
Definition ok_calls : list call := [(0, 24, true); (0, 24, true); (0, 48, false); (0, 64, true); (0, 24, true); (0, 48, true)].
Example ex_wrapped_faults :
  valid (ex_wfault 2) = true /\
  spec (ex_wfault 2) (ex_wobs K_PTR ok_calls [(0, repeat FILL 16)] 0) = true /\
  spec (ex_wfault 1) (ex_wobs K_NULL [(0, 24, true); (0, 24, false); (2, 0, true)] [] 0) = true /\
  spec (ex_wfault 1) (ex_wobs K_NULL [(0, 24, true); (0, 24, false)] [] 0) = false /\
  spec (ex_wfault 1) (ex_wobs K_NULL [(0, 24, true); (0, 24, false); (2, 0, true)] [] 1) = false /\
  spec (ex_wfault 1) (ex_wobs K_PTR [(0, 24, true); (0, 24, false); (0, 48, true); (0, 64, true); (0, 24, true); (0, 48, true)] [(0, repeat FILL 16)] 0) = false /\
  spec (ex_wfault 2) (run (ex_wfault 2)) = true.
Proof. vm_compute. repeat split. Qed.
