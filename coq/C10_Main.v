(* C10 -- assembling: every complete execution of a valid scenario, under every schedule, meets the spec. *)
From Coq Require Import NArith Arith Bool List Lia.
From CppUVerif Require Import C10_Wiring gen.Gen_C10 C10_Model C10_Steps C10_Lock C10_Data C10_Sched C10_Proofs.
Import ListNotations.

(* ---------------------------------------------------------------- textbook reading: small facts *)
Lemma lstep_fails : forall o L, l_fails (fst (lstep o L)) = l_fails L.
Proof.
  destruct o; simpl; intros; auto;
    repeat match goal with |- context [match ?x with _ => _ end] => destruct x; simpl; auto end.
Qed.

Lemma lstep_nodup : forall o L, NoDup (map fst (l_slots L)) -> NoDup (map fst (l_slots (fst (lstep o L)))).
Proof.
  destruct o; simpl; intros; auto;
    repeat match goal with |- context [match ?x with _ => _ end] => destruct x; simpl; auto end;
    try (apply slot_set_keys; auto); try (apply slot_del_keys; auto);
    try (match goal with |- NoDup (?k :: _) => destruct (slot_del_keys k (l_slots L) H); constructor; auto end).
Qed.

Lemma lrun_nodup : forall ops sk L, NoDup (map fst (l_slots L)) -> NoDup (map fst (l_slots (lrun ops sk L))).
Proof.
  induction ops as [|o r IH]; simpl; intros sk L H; auto.
  destruct sk.
  - destruct o; apply IH; auto.
  - pose proof (lstep_nodup o L H) as H2. destruct (lstep o L) as [L' f]. simpl in H2. destruct f; apply IH; auto.
Qed.

Lemma script_ok_nofail : forall ops sk L, script_ok ops sk L false = true -> l_fails (lrun ops sk L) = l_fails L.
Proof.
  induction ops as [|o r IH]; simpl; intros sk L H; auto.
  apply andb_true_iff in H. destruct H as (Hshape & H).
  destruct sk.
  - destruct o; try (apply IH; auto). discriminate.
  - apply andb_true_iff in H. destruct H as (_ & H).
    pose proof (lstep_fails o L) as Hf. destruct (lstep o L) as [L' f]. simpl in Hf. destruct f.
    + discriminate.
    + rewrite IH; auto.
Qed.

(* ---------------------------------------------------------------- boolean list checks *)
Lemma nodup_N_true : forall l, NoDup l -> nodup_N l = true.
Proof.
  induction l; simpl; intros H; auto. inversion H; subst. rewrite IHl; auto. rewrite andb_true_r.
  apply negb_true_iff. apply Bool.not_true_iff_false. intros E. apply existsb_exists in E. destruct E as (x & Hx & E).
  apply N.eqb_eq in E. subst. auto.
Qed.

Lemma filter_all : forall A (f : A -> bool) l, (forall x, In x l -> f x = true) -> filter f l = l.
Proof. induction l; simpl; intros H; auto. rewrite H by auto. rewrite IHl; auto. Qed.
Lemma filter_none : forall A (f : A -> bool) l, (forall x, In x l -> f x = false) -> filter f l = [].
Proof. induction l; simpl; intros H; auto. rewrite H by auto. auto. Qed.

Lemma triple_eqb_refl : forall y, triple_eqb y y = true.
Proof. intros [[t k] z]. simpl. rewrite !Nat.eqb_refl, N.eqb_refl. auto. Qed.
Lemma existsb_triple : forall y l, In y l -> existsb (triple_eqb y) l = true.
Proof. intros. apply existsb_exists. exists y. split; auto. apply triple_eqb_refl. Qed.

Lemma list_bool_eqb_refl : forall l, list_bool_eqb l l = true.
Proof. induction l; simpl; auto. rewrite IHl. destruct a; auto. Qed.

Definition triple (x : tentry) : nat * nat * N := (t_owner x, t_slot x, t_size x).

Lemma nodup_keys_true : forall tb, NoDup (map tkey tb) -> nodup_keys (map triple tb) = true.
Proof.
  induction tb as [|x r IH]; simpl; intros H; auto. inversion H; subst. rewrite IH; auto. rewrite andb_true_r.
  apply negb_true_iff. apply Bool.not_true_iff_false. intros E. apply existsb_exists in E. destruct E as (y & Hy & E).
  apply in_map_iff in Hy. destruct Hy as (z & <- & Hz). unfold triple, key_eqb in E.
  apply andb_true_iff in E. destruct E as (E1 & E2). apply Nat.eqb_eq in E1. apply Nat.eqb_eq in E2.
  apply H2. apply in_map_iff. exists z. split; auto. unfold tkey. congruence.
Qed.

(* ---------------------------------------------------------------- expected entries *)
Lemma in_expected : forall scripts t0 t sc k si,
  nth_error scripts t = Some sc -> In (k, si) (l_slots (final_local sc)) ->
  In (t0 + t, k, s_size si) (expected_entries t0 scripts).
Proof.
  induction scripts as [|sc0 r IH]; intros t0 t sc k si Hn Hin; destruct t; simpl in *; try discriminate.
  - inversion Hn; subst. apply in_or_app. left. rewrite Nat.add_0_r.
    apply in_map_iff. exists (k, si). auto.
  - apply in_or_app. right. replace (t0 + S t) with (S t0 + t) by lia. eapply IH; eauto.
Qed.

Lemma expected_in : forall scripts t0 y, In y (expected_entries t0 scripts) ->
  exists t sc k si, nth_error scripts t = Some sc /\ In (k, si) (l_slots (final_local sc)) /\ y = (t0 + t, k, s_size si).
Proof.
  induction scripts as [|sc0 r IH]; simpl; intros t0 y H; [tauto|].
  apply in_app_or in H. destruct H as [H|H].
  - apply in_map_iff in H. destruct H as ([k si] & <- & Hin). exists 0, sc0, k, si. rewrite Nat.add_0_r. auto.
  - destruct (IH _ _ H) as (t & sc & k & si & Hn & Hin & ->). exists (S t), sc, k, si. repeat split; auto. f_equal. f_equal. lia.
Qed.

Lemma sum_allocs_expected : forall ths scripts,
  length ths = length scripts ->
  (forall t th sc, nth_error ths t = Some th -> nth_error scripts t = Some sc -> th_loc th = final_local sc) ->
  sum_allocs ths = expected_allocs scripts.
Proof.
  induction ths as [|th r IH]; destruct scripts as [|sc rs]; simpl; intros Hl H; try discriminate; auto.
  rewrite (H 0 th sc) by auto. f_equal. apply IH; auto. intros t th' sc' H1 H2. apply (H (S t)); auto.
Qed.

(* ---------------------------------------------------------------- initial state *)
Lemma sum_allocs_init : forall scripts, sum_allocs (map (fun sc => mk_thread sc PIdle l0 false) scripts) = 0%N.
Proof. induction scripts; simpl; auto. Qed.

Lemma scripts_ok_inv : forall scripts, scripts_ok scripts = true ->
  exists sc0 rest, scripts = sc0 :: rest /\ script_ok sc0 false l0 true = true
                   /\ (forall sc, In sc rest -> script_ok sc false l0 false = true).
Proof.
  intros scripts H. unfold scripts_ok in H. destruct scripts as [|sc0 rest]; [discriminate|].
  apply andb_true_iff in H. destruct H as (H2 & H3).
  exists sc0, rest. repeat split; auto. rewrite forallb_forall in H3. auto.
Qed.

Lemma datainv_init : forall s, scripts_ok (sc_scripts s) = true -> DataInv (sc_scripts s) (init_state s).
Proof.
  intros s Hv. destruct (scripts_ok_inv _ Hv) as (sc0 & rest & Hs & H0 & Hr).
  unfold init_state. constructor; simpl.
  - apply map_length.
  - intros t th sc Hn Hsc. rewrite nth_error_map, Hsc in Hn. simpl in Hn. inversion Hn; subst. reflexivity.
  - intros t th Hn. rewrite Hs in Hn. destruct t; simpl in Hn.
    + inversion Hn; subst. exists true. exact H0.
    + rewrite nth_error_map in Hn. destruct (nth_error rest t) eqn:E; simpl in Hn; [|discriminate]. inversion Hn; subst.
      exists false. unfold ok_from, cont. simpl. apply Hr. eapply nth_error_In; eauto.
  - intros t th Hn k. rewrite nth_error_map in Hn. destruct (nth_error (sc_scripts s) t); simpl in Hn; [|discriminate].
    inversion Hn; subst. reflexivity.
  - constructor; simpl; try tauto; try constructor; lia.
  - rewrite sum_allocs_init. reflexivity.
Qed.

(* ---------------------------------------------------------------- final state -> spec *)
Section Final.
Variable scripts : list (list op).       (* every thread's script as a whole *)
Variable st : state.
Hypothesis Hv : scripts_ok scripts = true.
Hypothesis I : LockInv st.
Hypothesis D : DataInv scripts st.
Hypothesis Hdone : all_done st = true.
Variable pk : nat.                       (* largest occupancy of the locked region seen on the way *)
Hypothesis Hpk : pk <= 1.
Variable counts : list (N * N).

Lemma final_loc : forall t th sc, nth_error (st_threads st) t = Some th -> nth_error scripts t = Some sc ->
  th_loc th = final_local sc.
Proof.
  intros t th sc Hn Hsc. rewrite <- (di_future _ _ D _ _ _ Hn Hsc).
  unfold all_done in Hdone. rewrite forallb_forall in Hdone. specialize (Hdone th (nth_error_In _ _ Hn)).
  unfold thread_done in Hdone. destruct (th_pc th) eqn:Hp; [|discriminate].
  destruct (th_phase th) eqn:Hph; unfold future, cont; rewrite Hp, Hph; simpl; auto;
    destruct (li_shape _ I _ _ Hn) as (_ & o & r & e & Hp2 & _); try (rewrite Hph; discriminate); congruence.
Qed.

Lemma script_of_thread : forall t th, nth_error (st_threads st) t = Some th -> exists sc, nth_error scripts t = Some sc.
Proof.
  intros t th Hn. destruct (nth_error scripts t) eqn:E; eauto.
  apply nth_error_None in E. rewrite <- (di_len _ _ D) in E. assert (t < length (st_threads st)) by (apply nth_error_Some; congruence). lia.
Qed.
Lemma thread_of_script : forall t sc, nth_error scripts t = Some sc -> exists th, nth_error (st_threads st) t = Some th.
Proof.
  intros t sc Hn. destruct (nth_error (st_threads st) t) eqn:E; eauto.
  apply nth_error_None in E. rewrite (di_len _ _ D) in E. assert (t < length scripts) by (apply nth_error_Some; congruence). lia.
Qed.

Lemma all_held : forall x, In x (sh_table (st_sh st)) -> held (st_threads st) x = true.
Proof.
  intros x Hx. pose proof (di_tbl _ _ D) as T. pose proof (ti_owner _ _ T x Hx) as Ho.
  unfold held. destruct (nth_error (st_threads st) (t_owner x)) as [th|] eqn:Hn.
  - pose proof (di_agree _ _ D _ _ Hn (t_slot x)) as Ha. rewrite (tbl_find_In x _ (ti_keys _ _ T) Hx) in Ha.
    destruct (slot_get (t_slot x) (l_slots (th_loc th))); auto. discriminate.
  - apply nth_error_None in Hn. lia.
Qed.

Lemma entry_expected : forall x, In x (sh_table (st_sh st)) -> In (triple x) (expected_entries 0 scripts).
Proof.
  intros x Hx. pose proof (di_tbl _ _ D) as T. pose proof (ti_owner _ _ T x Hx) as Ho.
  destruct (nth_error (st_threads st) (t_owner x)) as [th|] eqn:Hn; [|apply nth_error_None in Hn; lia].
  destruct (script_of_thread _ _ Hn) as (sc & Hsc).
  pose proof (di_agree _ _ D _ _ Hn (t_slot x)) as Ha. rewrite (tbl_find_In x _ (ti_keys _ _ T) Hx) in Ha.
  destruct (slot_get (t_slot x) (l_slots (th_loc th))) as [si|] eqn:Hs; [|discriminate].
  simpl in Ha. unfold info, sinfo in Ha. inversion Ha.
  rewrite (final_loc _ _ _ Hn Hsc) in Hs. apply slot_get_In in Hs.
  pose proof (in_expected scripts 0 _ _ _ _ Hsc Hs) as Hin. simpl in Hin. unfold triple. rewrite H0. exact Hin.
Qed.

Lemma expected_entry : forall y, In y (expected_entries 0 scripts) -> In y (map triple (sh_table (st_sh st))).
Proof.
  intros y Hy. destruct (expected_in _ _ _ Hy) as (t & sc & k & si & Hsc & Hin & ->). simpl.
  destruct (thread_of_script _ _ Hsc) as (th & Hn).
  assert (Hs : slot_get k (l_slots (th_loc th)) = Some si).
  { rewrite (final_loc _ _ _ Hn Hsc). apply In_slot_get; auto. apply lrun_nodup. simpl. constructor. }
  destruct (agree_some _ _ _ _ _ (di_agree _ _ D _ _ Hn) Hs) as (x & Hx & Hsz & _).
  unfold tbl_find in Hx. apply find_some in Hx. destruct Hx as (Hx & Hk). apply key_is_spec in Hk. unfold tkey in Hk. inversion Hk.
  apply in_map_iff. exists x. split; auto. unfold triple. congruence.
Qed.

Lemma final_meets_spec : spec_core scripts (observe_core (n_tests_of scripts) pk counts st) = true.
Proof.
  destruct (scripts_ok_inv _ Hv) as (sc0 & rest & Hs & H0 & Hr).
  pose proof (di_tbl _ _ D) as T.
  assert (Hnone : filter (fun x => negb (held (st_threads st) x)) (sh_table (st_sh st)) = []).
  { apply filter_none. intros x Hx. rewrite all_held; auto. }
  assert (Hall : filter (held (st_threads st)) (sh_table (st_sh st)) = sh_table (st_sh st)).
  { apply filter_all. apply all_held. }
  destruct (st_threads st) as [|th0 ths] eqn:Hths.
  { pose proof (di_len _ _ D) as Hl. rewrite Hths, Hs in Hl. discriminate. }
  assert (Hth0 : nth_error (st_threads st) 0 = Some th0) by (rewrite Hths; reflexivity).
  assert (Hsc0 : nth_error scripts 0 = Some sc0) by (rewrite Hs; reflexivity).
  unfold spec_core, observe_core. cbn [o_done o_verdicts o_wfail o_adv o_distinct o_foreign o_rest o_overlap o_entries].
  rewrite Hths. cbn [tl]. rewrite Hdone, Hnone, Hall.
  repeat (apply andb_true_iff; split); auto.
  - (* verdicts *)
    unfold expected_verdicts. rewrite Hs. rewrite (final_loc _ _ _ Hth0 Hsc0). apply list_bool_eqb_refl.
  - (* no report on the worker threads *)
    assert (E : flat_map (fun th => l_fails (th_loc th)) ths = []).
    { assert (Hw : forall t th, nth_error ths t = Some th -> l_fails (th_loc th) = []).
      { intros t th Hn. assert (Hn' : nth_error (st_threads st) (S t) = Some th) by (rewrite Hths; exact Hn).
        destruct (script_of_thread _ _ Hn') as (sc & Hsc). rewrite (final_loc _ _ _ Hn' Hsc).
        unfold final_local. rewrite script_ok_nofail; auto. apply Hr. rewrite Hs in Hsc. simpl in Hsc. eapply nth_error_In; eauto. }
      clear -Hw. induction ths as [|a l IH]; simpl; auto. rewrite (Hw 0 a eq_refl). simpl. apply IH. intros t th H. apply (Hw (S t)); auto. }
    rewrite E. reflexivity.
  - (* sequence numbers handed out = allocations made *)
    apply N.eqb_eq. pose proof (di_count _ _ D) as C.
    rewrite <- (sum_allocs_expected (st_threads st) scripts (di_len _ _ D) final_loc). lia.
  - (* distinct, within range *)
    apply nodup_N_true. apply (ti_seqs _ _ T).
  - apply forallb_forall. intros x Hx. pose proof (ti_seq _ _ T x Hx). apply andb_true_iff. split; [apply N.leb_le|apply N.ltb_lt]; lia.
  - (* never two threads inside the locked region *)
    apply N.eqb_eq. lia.
  - (* the outstanding set *)
    apply (nodup_keys_true _ (ti_keys _ _ T)).
  - apply forallb_forall. intros y Hy. apply in_map_iff in Hy. destruct Hy as (x & <- & Hx).
    apply existsb_triple. apply entry_expected; auto.
  - apply forallb_forall. intros y Hy. apply existsb_triple. apply expected_entry; auto.
Qed.

End Final.
