(* C12: CommandLineArguments::parse -- the loop over argv and its chain of `argument == "..."` / `argument.startsWith("...")`
   tests -- as TRANSLATED from /repo on every run (gen/Gen_HeapC12.v, tools/cxx2heap.py) dispatches exactly as the hand-written
   model C12_Model.v does (first_match c12_dispatch / action / handle / parse_args, where the table c12_dispatch is itself
   re-read from the same source by a different, regex-based plugin: gen/Gen_C12.v).

   What the translation abstracts (header of the generated file): an argument is an integer id, `txt : Z -> bytes` (a
   parameter of every theorem here) gives its text; `argument == "lit"` / `argument.startsWith("lit")` are the Section variables
   arg_is / arg_starts, assumed to decide equality with / prefix of the literal (hypotheses Hai / Has below, satisfiable for
   every txt: arg_hyps_satisfiable).  A flag option stores 1 (0 for rethrowExceptions_) into its member cell; a value-taking
   option is handed to its handler = ghost event `AHandler name i lit flags`, whose result and new index (rv, ni) are the
   next pair of the oracle stream.

   1. dispatch_is_first_match : src_rule a = first_match c12_dispatch a for ALL texts a, where src_rule is the chain of tests
      read off the generated code (loop_step proves that the generated chain takes the branch src_rule names).
   2. src_args_parse_loop_step (+ step_flag_rule / step_help_rule / step_handler_rule / step_no_rule): one trip of the loop,
      as a function of first_match c12_dispatch (txt (av i)), the two tables flag_table (rule -> member cell, value, reject)
      and handler_table (rule -> handler name, literal argument, flags, result assigned to correctParameters?, index by
      reference?); args_layout_is_the_source ties the cells to the generated off_* constants, tables_cover_dispatch shows
      every rule of c12_dispatch has its row.
   3. src_args_parse_spec : for every argv block, every oracle stream `consistent` with the model, the translated parse returns
      FOk (ret_code (parse_args ...), h', evs ++ events_of (model_walk ...), unread oracle) with
        - ret_code = 1 iff the model does not Reject (and the model is never Unknown),
        - the flag cells 3..13 of h' represent the flag fields of the model's configuration (model_last: the accepted
          configuration, or the one reached when the rejecting argument was met),
        - needHelp_ (cell 2) is 1 after Reject true and untouched otherwise,
        - every other cell of the object and every other block unchanged (same_but_flags),
        - one oracle pair consumed per event; the events are exactly the handlers the model's walk passes through, with the
          argument index (events_of / walk_handlers).
      src_parse_meets_model: the same for C12_Model.parse from the constructor's flag values (default_config).
      model_oracle_consistent: a consistent stream exists for every argv.
   The value part of the configuration (repeat count, filters, seed, output, package) is not related: those handlers are not
   translated. *)
From Coq Require Import String Ascii.
From Coq Require Import ZArith NArith Bool List Lia.
From CppUVerif Require Import lib.CSem lib.CMem lib.CMemFacts lib.CHeap lib.Str gen.Gen_C12 C12_Model gen.Gen_HeapC12.
Import ListNotations.
Local Open Scope Z_scope.

Definition rule : Type := (c12_match * bytes)%type.

(* ------------------------------------------------------------------ the layout, as re-read from the class definition on every run *)
Lemma args_layout_is_the_source :
  off_CommandLineArguments_ac_ = 0 /\ off_CommandLineArguments_av_ = 1 /\ off_CommandLineArguments_needHelp_ = 2 /\
  off_CommandLineArguments_verbose_ = 3 /\ off_CommandLineArguments_veryVerbose_ = 4 /\ off_CommandLineArguments_color_ = 5 /\
  off_CommandLineArguments_runTestsAsSeperateProcess_ = 6 /\ off_CommandLineArguments_listTestGroupNames_ = 7 /\
  off_CommandLineArguments_listTestGroupAndCaseNames_ = 8 /\ off_CommandLineArguments_listTestLocations_ = 9 /\
  off_CommandLineArguments_runIgnored_ = 10 /\ off_CommandLineArguments_reversing_ = 11 /\
  off_CommandLineArguments_crashOnFail_ = 12 /\ off_CommandLineArguments_rethrowExceptions_ = 13 /\
  cells_CommandLineArguments = 22.
Proof. repeat split; reflexivity. Qed.

(* ------------------------------------------------------------------ the two tables: what the branch guarded by a rule does *)
Fixpoint lookup {A} (t : list (string * A)) (lit : bytes) : option A :=
  match t with [] => None | (s, x) :: r => if bytes_eqb lit (bs s) then Some x else lookup r lit end.

(* exact rule -> (member cell stored, value stored, correctParameters = false ?) *)
Definition flag_table : list (string * (Z * Z * bool)) :=
  [ ("-h", (off_CommandLineArguments_needHelp_, 1, true));
    ("-v", (off_CommandLineArguments_verbose_, 1, false));
    ("-vv", (off_CommandLineArguments_veryVerbose_, 1, false));
    ("-c", (off_CommandLineArguments_color_, 1, false));
    ("-p", (off_CommandLineArguments_runTestsAsSeperateProcess_, 1, false));
    ("-b", (off_CommandLineArguments_reversing_, 1, false));
    ("-lg", (off_CommandLineArguments_listTestGroupNames_, 1, false));
    ("-ln", (off_CommandLineArguments_listTestGroupAndCaseNames_, 1, false));
    ("-ll", (off_CommandLineArguments_listTestLocations_, 1, false));
    ("-ri", (off_CommandLineArguments_runIgnored_, 1, false));
    ("-f", (off_CommandLineArguments_crashOnFail_, 1, false));
    ("-e", (off_CommandLineArguments_rethrowExceptions_, 0, false));
    ("-ci", (off_CommandLineArguments_rethrowExceptions_, 0, false)) ]%string.

(* prefix rule -> (handler, its literal argument, its flag arguments, result assigned to correctParameters ?, index passed
   by reference ?) *)
Definition handler_table : list (string * (string * string * list Z * bool * bool)) :=
  [ ("-r", ("setRepeatCount", "", [], false, true));
    ("-g", ("addGroupFilter", "", [], false, true));
    ("-t", ("addGroupDotNameFilter", "-t", [0; 0], true, true));
    ("-st", ("addGroupDotNameFilter", "-st", [1; 0], true, true));
    ("-xt", ("addGroupDotNameFilter", "-xt", [0; 1], true, true));
    ("-xst", ("addGroupDotNameFilter", "-xst", [1; 1], true, true));
    ("-sg", ("addStrictGroupFilter", "", [], false, true));
    ("-xg", ("addExcludeGroupFilter", "", [], false, true));
    ("-xsg", ("addExcludeStrictGroupFilter", "", [], false, true));
    ("-n", ("addNameFilter", "", [], false, true));
    ("-sn", ("addStrictNameFilter", "", [], false, true));
    ("-xn", ("addExcludeNameFilter", "", [], false, true));
    ("-xsn", ("addExcludeStrictNameFilter", "", [], false, true));
    ("-s", ("setShuffle", "", [], true, true));
    ("TEST(", ("addTestToRunBasedOnVerboseOutput", "TEST(", [], false, true));
    ("IGNORE_TEST(", ("addTestToRunBasedOnVerboseOutput", "IGNORE_TEST(", [], false, true));
    ("-o", ("setOutputType", "", [], true, true));
    ("-p", ("parseAllArguments", "", [], true, false));
    ("-k", ("setPackageName", "", [], false, true)) ]%string.

Definition h_assigns (lit : bytes) : bool :=
  match lookup handler_table lit with Some (_, _, _, asg, _) => asg | None => false end.
Definition h_advances (lit : bytes) : bool :=
  match lookup handler_table lit with Some (_, _, _, _, adv) => adv | None => false end.

(* every rule of the regex-extracted table has its row *)
Definition covered (r : rule) : bool :=
  match r with
  | (MExact, lit) => match lookup flag_table lit with Some _ => true | None => false end
  | (MPrefix, lit) => match lookup handler_table lit with Some _ => true | None => false end
  end.
Lemma tables_cover_dispatch : forallb covered c12_dispatch = true.
Proof. vm_compute. reflexivity. Qed.

(* ------------------------------------------------------------------ 1. the chain of the translated code = the table *)
(* the branch the generated chain takes: the first test, in source order, that holds (loop_step below) *)
Definition src_rule (a : bytes) : option rule :=
  if bytes_eqb a (bs "-h") then Some (MExact, bs "-h") else
  if bytes_eqb a (bs "-v") then Some (MExact, bs "-v") else
  if bytes_eqb a (bs "-vv") then Some (MExact, bs "-vv") else
  if bytes_eqb a (bs "-c") then Some (MExact, bs "-c") else
  if bytes_eqb a (bs "-p") then Some (MExact, bs "-p") else
  if bytes_eqb a (bs "-b") then Some (MExact, bs "-b") else
  if bytes_eqb a (bs "-lg") then Some (MExact, bs "-lg") else
  if bytes_eqb a (bs "-ln") then Some (MExact, bs "-ln") else
  if bytes_eqb a (bs "-ll") then Some (MExact, bs "-ll") else
  if bytes_eqb a (bs "-ri") then Some (MExact, bs "-ri") else
  if bytes_eqb a (bs "-f") then Some (MExact, bs "-f") else
  if bytes_eqb a (bs "-e") then Some (MExact, bs "-e") else
  if bytes_eqb a (bs "-ci") then Some (MExact, bs "-ci") else
  if is_prefix (bs "-r") a then Some (MPrefix, bs "-r") else
  if is_prefix (bs "-g") a then Some (MPrefix, bs "-g") else
  if is_prefix (bs "-t") a then Some (MPrefix, bs "-t") else
  if is_prefix (bs "-st") a then Some (MPrefix, bs "-st") else
  if is_prefix (bs "-xt") a then Some (MPrefix, bs "-xt") else
  if is_prefix (bs "-xst") a then Some (MPrefix, bs "-xst") else
  if is_prefix (bs "-sg") a then Some (MPrefix, bs "-sg") else
  if is_prefix (bs "-xg") a then Some (MPrefix, bs "-xg") else
  if is_prefix (bs "-xsg") a then Some (MPrefix, bs "-xsg") else
  if is_prefix (bs "-n") a then Some (MPrefix, bs "-n") else
  if is_prefix (bs "-sn") a then Some (MPrefix, bs "-sn") else
  if is_prefix (bs "-xn") a then Some (MPrefix, bs "-xn") else
  if is_prefix (bs "-xsn") a then Some (MPrefix, bs "-xsn") else
  if is_prefix (bs "-s") a then Some (MPrefix, bs "-s") else
  if is_prefix (bs "TEST(") a then Some (MPrefix, bs "TEST(") else
  if is_prefix (bs "IGNORE_TEST(") a then Some (MPrefix, bs "IGNORE_TEST(") else
  if is_prefix (bs "-o") a then Some (MPrefix, bs "-o") else
  if is_prefix (bs "-p") a then Some (MPrefix, bs "-p") else
  if is_prefix (bs "-k") a then Some (MPrefix, bs "-k") else
  None.

(* two independent extractions of the same source (clang AST -> the chain; regular expressions -> c12_dispatch) agree *)
Theorem dispatch_is_first_match : forall a, src_rule a = first_match c12_dispatch a.
Proof. intro a. reflexivity. Qed.

Lemma first_match_in tbl a : forall r, first_match tbl a = Some r -> In r tbl.
Proof.
  induction tbl as [|x t IH]; intros r H; cbn [first_match] in H; [discriminate H|].
  destruct (rule_matches x a); [inversion H; left; reflexivity|right; apply IH; exact H].
Qed.

(* ------------------------------------------------------------------ heap vocabulary *)
Definition store_cell (h : heap) (b : nat) (k : Z) (v : val) : heap := upd h b (upd (hblock h b) (Z.to_nat k) v).

Lemma h_padd0 h b k : 0 <= k <= Z.of_nat (length (hblock h b)) -> hpadd h (HPtr b 0) k = Some (HPtr b k).
Proof.
  intro H. cbn [hpadd]. replace (0 <=? 0 + k) with true by (symmetry; apply Z.leb_le; lia).
  replace (0 + k <=? Z.of_nat (length (hblock h b))) with true by (symmetry; apply Z.leb_le; lia). reflexivity.
Qed.
Lemma h_store h b k v : (b < length h)%nat -> 0 <= k < Z.of_nat (length (hblock h b)) ->
  hstore h (HPtr b k) v = Some (store_cell h b k v).
Proof.
  intros Hb Hk. cbn [hstore]. replace (0 <=? k) with true by (symmetry; apply Z.leb_le; lia).
  replace (k <? Z.of_nat (length (hblock h b))) with true by (symmetry; apply Z.ltb_lt; lia).
  replace (Nat.ltb b (length h)) with true by (symmetry; apply Nat.ltb_lt; exact Hb). reflexivity.
Qed.
Lemma h_load_int h b k z : 0 <= k -> cell h b (Z.to_nat k) = Some (VInt z) -> hload_int h (HPtr b k) = Some z.
Proof.
  intros Hk H. unfold hload_int. cbn [hload]. replace (0 <=? k) with true by (symmetry; apply Z.leb_le; lia).
  unfold cell in H. rewrite H. reflexivity.
Qed.
Lemma h_load_ptr h b k p : 0 <= k -> cell h b (Z.to_nat k) = Some (VPtr p) -> hload_ptr h (HPtr b k) = Some p.
Proof.
  intros Hk H. unfold hload_ptr. cbn [hload]. replace (0 <=? k) with true by (symmetry; apply Z.leb_le; lia).
  unfold cell in H. rewrite H. reflexivity.
Qed.

(* the object (block ob, 22 cells: ac_ at 0, av_ at 1 pointing to the block vb of the argument ids) *)
Definition args_at (h : heap) (ob vb : nat) (ids : list Z) : Prop :=
  (ob < length h)%nat /\ ob <> vb /\ (Z.to_nat cells_CommandLineArguments <= length (hblock h ob))%nat /\
  cell h ob 0 = Some (VInt (Z.of_nat (length ids))) /\ cell h ob 1 = Some (VPtr (HPtr vb 0)) /\
  hblock h vb = map VInt ids.

(* ------------------------------------------------------------------ 2. one trip of the loop *)
Definition lstate : Type := (heap * list aev12 * list (Z * Z) * Z * Z)%type.
Definition lret : Type := (Z * heap * list aev12 * list (Z * Z))%type.

(* what the chain does, given the rule it stops at: the state handed to `if (correctParameters == false) return false;` *)
Definition step_of (r : option rule) (ob : nat) (h : heap) (evs : list aev12) (hres : list (Z * Z)) (cp i : Z)
  : cres lret lstate :=
  match r with
  | None => Go (h, evs, hres, 0, i)
  | Some (MExact, lit) =>
      match lookup flag_table lit with
      | Some (k, v, rej) => Go (store_cell h ob k (VInt v), evs, hres, (if rej : bool then 0 else cp), i)
      | None => Oob
      end
  | Some (MPrefix, lit) =>
      match lookup handler_table lit with
      | Some (name, la, fl, asg, adv) =>
          match hres with
          | [] => Oob
          | (rv, ni) :: hres' =>
              Go (h, evs ++ [AHandler name i la fl], hres', (if asg : bool then rv else cp), (if adv : bool then ni else i))
          end
      | None => Oob
      end
  end.

Lemma step_flag s k v rej ob h evs hres cp i : lookup flag_table (bs s) = Some (k, v, rej) ->
  step_of (Some (MExact, bs s)) ob h evs hres cp i
  = Go (store_cell h ob k (VInt v), evs, hres, (if rej then 0 else cp), i).
Proof. intro H. cbn [step_of]. rewrite H. reflexivity. Qed.
Lemma step_handler s name la fl asg adv ob h evs hres cp i : lookup handler_table (bs s) = Some (name, la, fl, asg, adv) ->
  step_of (Some (MPrefix, bs s)) ob h evs hres cp i
  = match hres with
    | [] => Oob
    | (rv, ni) :: hres' => Go (h, evs ++ [AHandler name i la fl], hres', (if asg then rv else cp), (if adv then ni else i))
    end.
Proof. intro H. cbn [step_of]. rewrite H. reflexivity. Qed.

Lemma skipn_nth {A} (d : A) : forall (l : list A) k, (k < length l)%nat -> skipn k l = nth k l d :: skipn (S k) l.
Proof.
  induction l as [|x l IH]; intros [|k] H; cbn [length] in H; try lia; [reflexivity|].
  cbn [skipn nth]. rewrite IH by lia. reflexivity.
Qed.
Lemma nth_error_map_nth {A C} (f : A -> C) (d : A) : forall (l : list A) k, (k < length l)%nat ->
  nth_error (map f l) k = Some (f (nth k l d)).
Proof. induction l as [|x l IH]; intros [|k] H; cbn [length] in H; try lia; [reflexivity|]. cbn. apply IH. lia. Qed.

(* ------------------------------------------------------------------ what the model does for each rule of the table *)
(* the flag fields of the configuration, in the order of the member cells 3 .. 13 *)
Definition flag_vals (c : config) : list Z :=
  map b2z [c_verbose c; c_veryverbose c; c_color c; c_sep c; c_listg c; c_listn c; c_listl c; c_runign c; c_rev c; c_crash c;
           c_rethrow c].

Definition hres_fact (adv asg : bool) (next : option bytes) (c : config) (r : hres) : Prop :=
  match r with
  | HOk c' u => flag_vals c' = flag_vals c /\ (u = true -> adv = true /\ next <> None)
  | HReject hp => hp = false /\ asg = true
  | HUnknown => False
  end.

Lemma param_field_used n a next v u : param_field n a next = (v, u) -> u = true -> next <> None.
Proof.
  unfold param_field. destruct (Nat.ltb n (length a)); [intros H U; inversion H; congruence|].
  destruct next; intros H U; [discriminate|inversion H; congruence].
Qed.
Lemma repeat_fact c a next : hres_fact true false next c (set_repeat_count c a next).
Proof.
  unfold set_repeat_count. destruct (Nat.ltb 2 (length a)); [split; [reflexivity|discriminate]|].
  destruct next; (split; [reflexivity|]); intro U; [split; [reflexivity|discriminate]|discriminate U].
Qed.
Lemma filter_fact g st iv n c a next : hres_fact true false next c (add_filter g st iv n c a next).
Proof.
  unfold add_filter. destruct (param_field n a next) as [v u] eqn:E. split; [destruct g; reflexivity|].
  intro U. split; [reflexivity|exact (param_field_used _ _ _ _ _ E U)].
Qed.
Lemma gdn_fact st iv n c a next : hres_fact true true next c (add_group_dot_name st iv n c a next).
Proof.
  unfold add_group_dot_name. destruct (param_field n a next) as [v u] eqn:E.
  destruct (split_incl 46 v) as [|t0 [|t1 [|t2 ts]]]; try (split; reflexivity).
  split; [reflexivity|]. intro U. split; [reflexivity|exact (param_field_used _ _ _ _ _ E U)].
Qed.
Lemma shuffle_fact tm c a next : hres_fact true true next c (set_shuffle tm c a next).
Proof.
  unfold set_shuffle. destruct (Nat.ltb 2 (length a)).
  - destruct (atou (skipn 2 a) =? 0)%N; split; try reflexivity. discriminate.
  - destruct next as [n|].
    + destruct (atou n =? 0)%N eqn:E.
      * destruct ((if (tm mod 4294967296 =? 0)%N then 1%N else (tm mod 4294967296)%N) =? 0)%N; split; try reflexivity. discriminate.
      * split; [reflexivity|]. intros _. split; [reflexivity|discriminate].
    + destruct ((if (tm mod 4294967296 =? 0)%N then 1%N else (tm mod 4294967296)%N) =? 0)%N; split; try reflexivity. discriminate.
Qed.
Lemma verbose_fact n c a next : hres_fact true false next c (add_verbose_test n c a next).
Proof.
  unfold add_verbose_test. destruct (param_field n a next) as [v u] eqn:E. split; [reflexivity|].
  intro U. split; [reflexivity|exact (param_field_used _ _ _ _ _ E U)].
Qed.
Lemma output_fact n c a next : hres_fact true true next c (set_output_type n c a next).
Proof.
  unfold set_output_type. destruct (param_field n a next) as [v u] eqn:E. destruct v as [|x v]; [split; reflexivity|].
  destruct (lookup_output c12_outputs (x :: v)); [|split; reflexivity].
  split; [reflexivity|]. intro U. split; [reflexivity|exact (param_field_used _ _ _ _ _ E U)].
Qed.
Lemma plugin_fact c a next : hres_fact false true next c (if plugin_accepts a then HOk c false else HReject false).
Proof. destruct (plugin_accepts a); split; try reflexivity. discriminate. Qed.
Lemma package_fact n c a next : hres_fact true false next c (set_package_name n c a next).
Proof.
  unfold set_package_name. destruct (param_field n a next) as [v u] eqn:E. split; [destruct v; reflexivity|].
  intro U. split; [reflexivity|exact (param_field_used _ _ _ _ _ E U)].
Qed.

(* rule by rule: the model's action is the counterpart of the table row *)
Definition rule_fact (r : rule) : Prop :=
  match r with
  | (MExact, lit) =>
      exists k v rej, lookup flag_table lit = Some (k, v, rej) /\
        forall tm c a next,
          if rej : bool return Prop
          then k = off_CommandLineArguments_needHelp_ /\ v = 1 /\ action tm c MExact lit a next = HReject true
          else 3 <= k <= 13 /\ exists c', action tm c MExact lit a next = HOk c' false /\
                                        flag_vals c' = upd (flag_vals c) (Z.to_nat (k - 3)) v
  | (MPrefix, lit) =>
      exists name la fl asg adv, lookup handler_table lit = Some (name, la, fl, asg, adv) /\
        forall tm c a next, hres_fact adv asg next c (action tm c MPrefix lit a next)
  end.

Ltac exact_fact :=
  do 3 eexists; split; [reflexivity|]; intros tm c a next; cbv iota;
  first [ split; [reflexivity|split; reflexivity]
        | split; [split; apply Z.leb_le; reflexivity|eexists; split; reflexivity] ].
Ltac prefix_fact :=
  do 5 eexists; split; [reflexivity|]; intros tm c a next;
  first [ exact (repeat_fact c a next) | exact (filter_fact _ _ _ _ c a next) | exact (gdn_fact _ _ _ c a next)
        | exact (shuffle_fact tm c a next) | exact (verbose_fact _ c a next) | exact (output_fact _ c a next)
        | exact (plugin_fact c a next) | exact (package_fact _ c a next) ].

Lemma rules_facts : Forall rule_fact c12_dispatch.
Proof.
  unfold c12_dispatch.
  apply Forall_cons; [exact_fact|]. apply Forall_cons; [exact_fact|]. apply Forall_cons; [exact_fact|].
  apply Forall_cons; [exact_fact|]. apply Forall_cons; [exact_fact|]. apply Forall_cons; [exact_fact|].
  apply Forall_cons; [exact_fact|]. apply Forall_cons; [exact_fact|]. apply Forall_cons; [exact_fact|].
  apply Forall_cons; [exact_fact|]. apply Forall_cons; [exact_fact|]. apply Forall_cons; [exact_fact|].
  apply Forall_cons; [exact_fact|].
  apply Forall_cons; [prefix_fact|].
  apply Forall_cons; [prefix_fact|].
  apply Forall_cons; [prefix_fact|].
  apply Forall_cons; [prefix_fact|].
  apply Forall_cons; [prefix_fact|].
  apply Forall_cons; [prefix_fact|].
  apply Forall_cons; [prefix_fact|].
  apply Forall_cons; [prefix_fact|].
  apply Forall_cons; [prefix_fact|].
  apply Forall_cons; [prefix_fact|].
  apply Forall_cons; [prefix_fact|].
  apply Forall_cons; [prefix_fact|].
  apply Forall_cons; [prefix_fact|].
  apply Forall_cons; [prefix_fact|].
  apply Forall_cons; [prefix_fact|].
  apply Forall_cons; [prefix_fact|].
  apply Forall_cons; [prefix_fact|].
  apply Forall_cons; [prefix_fact|].
  apply Forall_cons; [prefix_fact|].
  apply Forall_nil.
Qed.
Lemma rule_fact_of a r : first_match c12_dispatch a = Some r -> rule_fact r.
Proof. intro H. exact (proj1 (Forall_forall _ _) rules_facts r (first_match_in _ _ _ H)). Qed.

(* the literal and the flags handed to addGroupDotNameFilter are the model's strictness / inversion and literal length *)
Lemma gdn_flags_are_the_models tm c a next :
  action tm c MPrefix (bs "-t") a next = add_group_dot_name (z2b 0) (z2b 0) (length (bs "-t")) c a next /\
  action tm c MPrefix (bs "-st") a next = add_group_dot_name (z2b 1) (z2b 0) (length (bs "-st")) c a next /\
  action tm c MPrefix (bs "-xt") a next = add_group_dot_name (z2b 0) (z2b 1) (length (bs "-xt")) c a next /\
  action tm c MPrefix (bs "-xst") a next = add_group_dot_name (z2b 1) (z2b 1) (length (bs "-xst")) c a next.
Proof. repeat split; reflexivity. Qed.

(* ------------------------------------------------------------------ heaps that differ only in the flag cells 2 .. 13 of the object *)
Definition same_but_flags (h h' : heap) (ob : nat) : Prop :=
  length h' = length h /\ (forall b, b <> ob -> hblock h' b = hblock h b) /\
  length (hblock h' ob) = length (hblock h ob) /\
  forall k, (k < 2 \/ 13 < k)%nat -> cell h' ob k = cell h ob k.
Lemma sbf_refl h ob : same_but_flags h h ob.
Proof. repeat split; intros; reflexivity. Qed.
Lemma sbf_trans h1 h2 h3 ob : same_but_flags h1 h2 ob -> same_but_flags h2 h3 ob -> same_but_flags h1 h3 ob.
Proof.
  intros (A1 & B1 & C1 & D1) (A2 & B2 & C2 & D2). split; [congruence|]. split; [|split; [congruence|]].
  - intros b Hb. rewrite B2 by exact Hb. apply B1. exact Hb.
  - intros k Hk. rewrite D2 by exact Hk. apply D1. exact Hk.
Qed.
Lemma cell_store_same h ob k v : (ob < length h)%nat -> 0 <= k < Z.of_nat (length (hblock h ob)) ->
  cell (store_cell h ob k v) ob (Z.to_nat k) = Some v.
Proof. intros Lo Hk. unfold cell, store_cell. rewrite hblock_upd_same by exact Lo. apply nth_error_upd_same. lia. Qed.
Lemma cell_store_other h ob k v j : (ob < length h)%nat -> j <> Z.to_nat k -> cell (store_cell h ob k v) ob j = cell h ob j.
Proof.
  intros Lo Hj. unfold cell, store_cell. rewrite hblock_upd_same by exact Lo. apply nth_error_upd_other.
  intro Q. apply Hj. symmetry. exact Q.
Qed.
Lemma store_cell_sbf h ob k v : (ob < length h)%nat -> 2 <= k <= 13 -> same_but_flags h (store_cell h ob k v) ob.
Proof.
  intros Lo Hk. split; [apply heap_upd_length|]. split; [|split].
  - intros b Hb. unfold store_cell. apply hblock_upd_other. intro Q. apply Hb. symmetry. exact Q.
  - unfold store_cell. rewrite hblock_upd_same by exact Lo. apply upd_length.
  - intros j Hj. apply cell_store_other; [exact Lo|lia].
Qed.
Lemma args_at_sbf h h' ob vb ids : same_but_flags h h' ob -> args_at h ob vb ids -> args_at h' ob vb ids.
Proof.
  intros (A & Bo & C & D) (Lo & Nv & L22 & C0 & C1 & Bv). split; [rewrite A; exact Lo|]. split; [exact Nv|].
  split; [rewrite C; exact L22|]. split; [rewrite D by lia; exact C0|]. split; [rewrite D by lia; exact C1|].
  rewrite Bo by (intro Q; apply Nv; symmetry; exact Q). exact Bv.
Qed.

(* cells 3 .. 13 of the object hold the flag fields of the configuration *)
Definition flags_rep (h : heap) (ob : nat) (c : config) : Prop :=
  forall j, (j < 11)%nat -> cell h ob (3 + j) = Some (VInt (nth j (flag_vals c) 0)).
Lemma flags_rep_ext h ob c c' : flags_rep h ob c -> flag_vals c' = flag_vals c -> flags_rep h ob c'.
Proof. intros H E j Hj. rewrite E. apply H. exact Hj. Qed.
Lemma flags_rep_store h ob c c' k v :
  (ob < length h)%nat -> (14 <= length (hblock h ob))%nat -> flags_rep h ob c -> 3 <= k <= 13 ->
  flag_vals c' = upd (flag_vals c) (Z.to_nat (k - 3)) v -> flags_rep (store_cell h ob k (VInt v)) ob c'.
Proof.
  intros Lo L14 FR Hk E j Hj. rewrite E. destruct (Nat.eq_dec (3 + j) (Z.to_nat k)) as [Q|Q].
  - rewrite Q. rewrite cell_store_same by (try exact Lo; lia).
    replace (Z.to_nat (k - 3)) with j by lia. rewrite nth_upd_same; [reflexivity|]. exact Hj.
  - rewrite cell_store_other by (try exact Lo; exact Q). rewrite nth_upd_other by lia. apply FR. exact Hj.
Qed.
Lemma flags_rep_help h ob c v : (ob < length h)%nat -> flags_rep h ob c -> flags_rep (store_cell h ob 2 v) ob c.
Proof. intros Lo FR j Hj. rewrite cell_store_other by (try exact Lo; lia). apply FR. exact Hj. Qed.

(* ------------------------------------------------------------------ the model's walk, instrumented *)
(* the rules parse_args passes through, each with the index of its argument (the rejecting one included) *)
Fixpoint model_walk (tm : N) (c : config) (i : Z) (args : list bytes) : list (rule * Z) :=
  match args with
  | [] => []
  | a :: rest =>
    match first_match c12_dispatch a with
    | None => []
    | Some (k, lit) =>
        ((k, lit), i) ::
        match action tm c k lit a (hd_error rest) with
        | HOk c' false => model_walk tm c' (i + 1) rest
        | HOk c' true => match rest with [] => [] | _ :: rest' => model_walk tm c' (i + 2) rest' end
        | _ => []
        end
    end
  end.
(* the configuration parse_args ends with: the accepted one, or the one reached when the rejecting argument is met *)
Fixpoint model_last (tm : N) (c : config) (args : list bytes) : config :=
  match args with
  | [] => c
  | a :: rest =>
    match handle tm c a (hd_error rest) with
    | HOk c' false => model_last tm c' rest
    | HOk c' true => match rest with [] => c' | _ :: rest' => model_last tm c' rest' end
    | _ => c
    end
  end.
Lemma model_last_accept tm : forall n args c c', (length args <= n)%nat -> parse_args tm c args = Accept c' -> model_last tm c args = c'.
Proof.
  induction n as [|n IH]; intros args c c' Hn H; destruct args as [|a rest]; cbn [length] in Hn; try lia.
  - cbn in H. inversion H. reflexivity.
  - cbn in H. inversion H. reflexivity.
  - cbn [parse_args model_last] in *. destruct (handle tm c a (hd_error rest)) as [hp|c1 u|]; try discriminate H.
    destruct u; [|apply IH; [lia|exact H]]. destruct rest as [|a2 rest2]; [inversion H; reflexivity|].
    apply IH; [cbn [length] in Hn; lia|exact H].
Qed.

(* the handler calls of a walk *)
Definition ev_of (e : rule * Z) : list aev12 :=
  match e with
  | ((MPrefix, lit), i) =>
      match lookup handler_table lit with Some (name, la, fl, _, _) => [AHandler name i la fl] | None => [] end
  | _ => []
  end.
Definition events_of (w : list (rule * Z)) : list aev12 := flat_map ev_of w.
Definition ret_code (r : result) : Z := match r with Reject _ => 0 | _ => 1 end.

(* an oracle stream that agrees with the model: one pair per handler call; a handler whose result is assigned to
   correctParameters answers zero exactly when the model rejects; a handler that gets the index by reference leaves it at i, or
   at i + 1 when the model says the value was the next argument *)
Fixpoint consistent (tm : N) (c : config) (i : Z) (args : list bytes) (hres : list (Z * Z)) {struct args} : Prop :=
  match args with
  | [] => True
  | a :: rest =>
    match first_match c12_dispatch a with
    | None => True
    | Some (MExact, lit) =>
        match action tm c MExact lit a (hd_error rest) with
        | HOk c' _ => consistent tm c' (i + 1) rest hres
        | _ => True
        end
    | Some (MPrefix, lit) =>
        match hres with
        | [] => False
        | (rv, ni) :: hres' =>
            match action tm c MPrefix lit a (hd_error rest) with
            | HOk c' u =>
                (h_assigns lit = true -> rv <> 0) /\ (h_advances lit = true -> ni = i + b2z u) /\
                (if u then match rest with [] => True | _ :: rest' => consistent tm c' (i + 2) rest' hres' end
                 else consistent tm c' (i + 1) rest hres')
            | HReject _ => h_assigns lit = true -> rv = 0
            | HUnknown => True
            end
        end
    end
  end.

(* such a stream exists for every argument vector *)
Fixpoint model_oracle (tm : N) (c : config) (i : Z) (args : list bytes) {struct args} : list (Z * Z) :=
  match args with
  | [] => []
  | a :: rest =>
    match first_match c12_dispatch a with
    | None => []
    | Some (MExact, lit) =>
        match action tm c MExact lit a (hd_error rest) with
        | HOk c' _ => model_oracle tm c' (i + 1) rest
        | _ => []
        end
    | Some (MPrefix, lit) =>
        match action tm c MPrefix lit a (hd_error rest) with
        | HOk c' u =>
            (1, i + b2z u) ::
            (if u then match rest with [] => [] | _ :: rest' => model_oracle tm c' (i + 2) rest' end
             else model_oracle tm c' (i + 1) rest)
        | _ => [(0, i)]
        end
    end
  end.
Lemma model_oracle_consistent tm : forall n args c i tail, (length args <= n)%nat ->
  consistent tm c i args (model_oracle tm c i args ++ tail).
Proof.
  induction n as [|n IH]; intros args c i tail Hn; destruct args as [|a rest]; cbn [length] in Hn; try lia; try exact I.
  cbn [consistent model_oracle]. destruct (first_match c12_dispatch a) as [[[|] lit]|]; [| |exact I].
  - destruct (action tm c MExact lit a (hd_error rest)); try exact I. apply IH. lia.
  - destruct (action tm c MPrefix lit a (hd_error rest)) as [hp|c1 u|]; cbn [app].
    + intros _. reflexivity.
    + split; [intros _; discriminate|]. split; [intros _; reflexivity|].
      destruct u; [|apply IH; lia]. destruct rest as [|a2 rest2]; [exact I|]. apply IH. cbn [length] in Hn. lia.
    + exact I.
Qed.

Definition close (x : cres lret lstate) : cres lret unit :=
  match x with Go (mem, evs, hres, _, _) => Done (1, mem, evs, hres) | Done r => Done r | Oob => Oob | NoFuel => NoFuel end.

(* what a run of the loop from index i on the arguments args must have done *)
Definition loop_post (tm : N) (c : config) (i : Z) (args : list bytes) (h : heap) (ob : nat) (evs : list aev12)
  (hres : list (Z * Z)) (out : cres lret unit) : Prop :=
  exists h' used hres',
    hres = used ++ hres' /\ length used = length (events_of (model_walk tm c i args)) /\
    out = Done (ret_code (parse_args tm c args), h', evs ++ events_of (model_walk tm c i args), hres') /\
    same_but_flags h h' ob /\ flags_rep h' ob (model_last tm c args) /\
    cell h' ob 2 = (match parse_args tm c args with Reject true => Some (VInt 1) | _ => cell h ob 2 end) /\
    parse_args tm c args <> Unknown.

Lemma post_shift tm c c' i i' args args' h h1 ob evs ev hr hres1 out :
  parse_args tm c args = parse_args tm c' args' ->
  model_last tm c args = model_last tm c' args' ->
  events_of (model_walk tm c i args) = ev ++ events_of (model_walk tm c' i' args') ->
  length hr = length ev ->
  same_but_flags h h1 ob -> cell h1 ob 2 = cell h ob 2 ->
  loop_post tm c' i' args' h1 ob (evs ++ ev) hres1 out ->
  loop_post tm c i args h ob evs (hr ++ hres1) out.
Proof.
  intros EP EL EE Lh SB C2 (h' & used & hres' & E1 & E2 & E3 & E4 & E5 & E6 & E7).
  exists h', (hr ++ used), hres'. rewrite EP, EL, EE.
  split; [rewrite E1; apply app_assoc|]. split; [rewrite !app_length; congruence|].
  split; [rewrite E3, app_assoc; reflexivity|]. split; [exact (sbf_trans _ _ _ _ SB E4)|]. split; [exact E5|].
  split; [rewrite E6, C2; reflexivity|exact E7].
Qed.

Lemma z2b_ne cp : cp <> 0 -> z2b (c_eq cp 0) = false.
Proof. intro H. unfold c_eq, z2b. destruct (Z.eqb_spec cp 0) as [Q|Q]; [contradiction|reflexivity]. Qed.

Section Tie.
Variable txt : Z -> bytes.
Variable arg_is : Z -> string -> Z.
Variable arg_starts : Z -> string -> Z.
Hypothesis Hai : forall id s, arg_is id s = b2z (bytes_eqb (txt id) (bs s)).
Hypothesis Has : forall id s, arg_starts id s = b2z (is_prefix (bs s) (txt id)).

Notation loop := (src_args_parse_loop1 arg_is arg_starts).

Ltac flag_branch h ob Lo :=
  cbv beta iota;
  match goal with |- context [hpadd h (HPtr ob 0) ?k] => rewrite (h_padd0 h ob k) by lia end;
  cbv beta iota;
  match goal with |- context [hstore h (HPtr ob ?k) ?v] => rewrite (h_store h ob k v Lo) by lia end;
  cbv beta iota;
  erewrite step_flag by reflexivity; reflexivity.
Ltac handler_branch hres :=
  cbv beta iota;
  erewrite step_handler by reflexivity; destruct hres as [|[? ?] ?]; reflexivity.

Lemma loop_exit fuel0 fuel plugin h ob vb ids evs hres cp i :
  args_at h ob vb ids -> Z.of_nat (length ids) <= i ->
  loop fuel0 (S fuel) (HPtr ob 0) plugin h evs hres cp i = Go (h, evs, hres, cp, i).
Proof.
  intros (Lo & Nv & L22 & C0 & C1 & Bv) Hi.
  assert (V0 : hload_int h (HPtr ob 0) = Some (Z.of_nat (length ids))) by (apply h_load_int; [lia|exact C0]).
  cbn [src_args_parse_loop1]. rewrite V0. cbv beta iota. unfold c_lt. rewrite b2z_z2b.
  replace (i <? Z.of_nat (length ids)) with false by (symmetry; apply Z.ltb_ge; lia). reflexivity.
Qed.

Lemma loop_step fuel0 fuel plugin h ob vb ids evs hres cp i :
  args_at h ob vb ids -> 0 <= i < Z.of_nat (length ids) ->
  loop fuel0 (S fuel) (HPtr ob 0) plugin h evs hres cp i =
  match step_of (src_rule (txt (nth (Z.to_nat i) ids 0))) ob h evs hres cp i with
  | Go (mem, evs, hres, cp, i) =>
      if z2b (c_eq cp 0) then Done (0, mem, evs, hres)
      else loop fuel0 fuel (HPtr ob 0) plugin mem evs hres cp (cw 32 true (i + 1))
  | Done r => Done r
  | Oob => Oob
  | NoFuel => NoFuel
  end.
Proof.
  intros (Lo & Nv & L22 & C0 & C1 & Bv) Hi.
  change (Z.to_nat cells_CommandLineArguments) with 22%nat in L22.
  set (id := nth (Z.to_nat i) ids 0).
  assert (V0 : hload_int h (HPtr ob 0) = Some (Z.of_nat (length ids))) by (apply h_load_int; [lia|exact C0]).
  assert (P1 : hpadd h (HPtr ob 0) 1 = Some (HPtr ob 1)) by (apply h_padd0; lia).
  assert (V1 : hload_ptr h (HPtr ob 1) = Some (HPtr vb 0)) by (apply h_load_ptr; [lia|exact C1]).
  assert (Lv : length (hblock h vb) = length ids) by (rewrite Bv; apply map_length).
  assert (Pi : hpadd h (HPtr vb 0) i = Some (HPtr vb i)) by (apply h_padd0; lia).
  assert (Vi : hload_int h (HPtr vb i) = Some id).
  { apply h_load_int; [lia|]. unfold cell. rewrite Bv. apply nth_error_map_nth. lia. }
  cbn [src_args_parse_loop1]. rewrite V0. cbv beta iota. unfold c_lt at 1. rewrite b2z_z2b.
  replace (i <? Z.of_nat (length ids)) with true by (symmetry; apply Z.ltb_lt; lia). cbv beta iota.
  rewrite P1. cbv beta iota. rewrite V1. cbv beta iota. rewrite Pi. cbv beta iota. rewrite Vi. cbv beta iota zeta.
  rewrite !Hai, !Has, !b2z_z2b. unfold src_rule.
  destruct (bytes_eqb (txt id) (bs "-h")); [flag_branch h ob Lo|cbv beta iota].
  destruct (bytes_eqb (txt id) (bs "-v")); [flag_branch h ob Lo|cbv beta iota].
  destruct (bytes_eqb (txt id) (bs "-vv")); [flag_branch h ob Lo|cbv beta iota].
  destruct (bytes_eqb (txt id) (bs "-c")); [flag_branch h ob Lo|cbv beta iota].
  destruct (bytes_eqb (txt id) (bs "-p")); [flag_branch h ob Lo|cbv beta iota].
  destruct (bytes_eqb (txt id) (bs "-b")); [flag_branch h ob Lo|cbv beta iota].
  destruct (bytes_eqb (txt id) (bs "-lg")); [flag_branch h ob Lo|cbv beta iota].
  destruct (bytes_eqb (txt id) (bs "-ln")); [flag_branch h ob Lo|cbv beta iota].
  destruct (bytes_eqb (txt id) (bs "-ll")); [flag_branch h ob Lo|cbv beta iota].
  destruct (bytes_eqb (txt id) (bs "-ri")); [flag_branch h ob Lo|cbv beta iota].
  destruct (bytes_eqb (txt id) (bs "-f")); [flag_branch h ob Lo|cbv beta iota].
  destruct (bytes_eqb (txt id) (bs "-e")); [flag_branch h ob Lo|cbv beta iota].
  destruct (bytes_eqb (txt id) (bs "-ci")); [flag_branch h ob Lo|cbv beta iota].
  destruct (is_prefix (bs "-r") (txt id)); [handler_branch hres|cbv beta iota].
  destruct (is_prefix (bs "-g") (txt id)); [handler_branch hres|cbv beta iota].
  destruct (is_prefix (bs "-t") (txt id)); [handler_branch hres|cbv beta iota].
  destruct (is_prefix (bs "-st") (txt id)); [handler_branch hres|cbv beta iota].
  destruct (is_prefix (bs "-xt") (txt id)); [handler_branch hres|cbv beta iota].
  destruct (is_prefix (bs "-xst") (txt id)); [handler_branch hres|cbv beta iota].
  destruct (is_prefix (bs "-sg") (txt id)); [handler_branch hres|cbv beta iota].
  destruct (is_prefix (bs "-xg") (txt id)); [handler_branch hres|cbv beta iota].
  destruct (is_prefix (bs "-xsg") (txt id)); [handler_branch hres|cbv beta iota].
  destruct (is_prefix (bs "-n") (txt id)); [handler_branch hres|cbv beta iota].
  destruct (is_prefix (bs "-sn") (txt id)); [handler_branch hres|cbv beta iota].
  destruct (is_prefix (bs "-xn") (txt id)); [handler_branch hres|cbv beta iota].
  destruct (is_prefix (bs "-xsn") (txt id)); [handler_branch hres|cbv beta iota].
  destruct (is_prefix (bs "-s") (txt id)); [handler_branch hres|cbv beta iota].
  destruct (is_prefix (bs "TEST(") (txt id)); [handler_branch hres|cbv beta iota].
  destruct (is_prefix (bs "IGNORE_TEST(") (txt id)); [handler_branch hres|cbv beta iota].
  destruct (is_prefix (bs "-o") (txt id)); [handler_branch hres|cbv beta iota].
  destruct (is_prefix (bs "-p") (txt id)); [handler_branch hres|cbv beta iota].
  destruct (is_prefix (bs "-k") (txt id)); [handler_branch hres|cbv beta iota].
  reflexivity.
Qed.

(* the statement asked for: one trip of the loop on argument i is the table row of first_match c12_dispatch (txt (av i)) *)
Theorem src_args_parse_loop_step fuel0 fuel plugin h ob vb ids evs hres cp i :
  args_at h ob vb ids -> 0 <= i < Z.of_nat (length ids) ->
  loop fuel0 (S fuel) (HPtr ob 0) plugin h evs hres cp i =
  match step_of (first_match c12_dispatch (txt (nth (Z.to_nat i) ids 0))) ob h evs hres cp i with
  | Go (mem, evs, hres, cp, i) =>
      if z2b (c_eq cp 0) then Done (0, mem, evs, hres)
      else loop fuel0 fuel (HPtr ob 0) plugin mem evs hres cp (cw 32 true (i + 1))
  | Done r => Done r
  | Oob => Oob
  | NoFuel => NoFuel
  end.
Proof. intros AA Hi. rewrite <- dispatch_is_first_match. exact (loop_step fuel0 fuel plugin h ob vb ids evs hres cp i AA Hi). Qed.

(* ... spelled out.  An exact flag rule: the member cell is stored, no event, no oracle value read, on to i + 1 *)
Corollary step_flag_rule fuel0 fuel plugin h ob vb ids evs hres cp i lit k v :
  args_at h ob vb ids -> 0 <= i < Z.of_nat (length ids) -> cp <> 0 ->
  first_match c12_dispatch (txt (nth (Z.to_nat i) ids 0)) = Some (MExact, lit) -> lookup flag_table lit = Some (k, v, false) ->
  loop fuel0 (S fuel) (HPtr ob 0) plugin h evs hres cp i
  = loop fuel0 fuel (HPtr ob 0) plugin (store_cell h ob k (VInt v)) evs hres cp (cw 32 true (i + 1)).
Proof.
  intros AA Hi Hcp FM HL. rewrite (src_args_parse_loop_step fuel0 fuel plugin h ob vb ids evs hres cp i AA Hi), FM.
  cbn [step_of]. rewrite HL. cbv beta iota. rewrite (z2b_ne cp Hcp). reflexivity.
Qed.
(* "-h": needHelp_ is stored and parse returns false *)
Corollary step_help_rule fuel0 fuel plugin h ob vb ids evs hres cp i lit k v :
  args_at h ob vb ids -> 0 <= i < Z.of_nat (length ids) ->
  first_match c12_dispatch (txt (nth (Z.to_nat i) ids 0)) = Some (MExact, lit) -> lookup flag_table lit = Some (k, v, true) ->
  loop fuel0 (S fuel) (HPtr ob 0) plugin h evs hres cp i = Done (0, store_cell h ob k (VInt v), evs, hres).
Proof.
  intros AA Hi FM HL. rewrite (src_args_parse_loop_step fuel0 fuel plugin h ob vb ids evs hres cp i AA Hi), FM.
  cbn [step_of]. rewrite HL. reflexivity.
Qed.
(* a prefix rule: exactly one handler event, one oracle pair read; a zero result of an assigning handler returns false *)
Corollary step_handler_rule fuel0 fuel plugin h ob vb ids evs hres cp i lit name la fl asg adv rv ni :
  args_at h ob vb ids -> 0 <= i < Z.of_nat (length ids) -> cp <> 0 ->
  first_match c12_dispatch (txt (nth (Z.to_nat i) ids 0)) = Some (MPrefix, lit) ->
  lookup handler_table lit = Some (name, la, fl, asg, adv) ->
  loop fuel0 (S fuel) (HPtr ob 0) plugin h evs ((rv, ni) :: hres) cp i
  = if asg && (rv =? 0) then Done (0, h, evs ++ [AHandler name i la fl], hres)
    else loop fuel0 fuel (HPtr ob 0) plugin h (evs ++ [AHandler name i la fl]) hres (if asg then rv else cp)
           (cw 32 true ((if adv then ni else i) + 1)).
Proof.
  intros AA Hi Hcp FM HL. rewrite (src_args_parse_loop_step fuel0 fuel plugin h ob vb ids evs _ cp i AA Hi), FM.
  cbn [step_of]. rewrite HL. cbv beta iota. destruct asg; cbn [andb].
  - unfold c_eq. rewrite b2z_z2b. reflexivity.
  - rewrite (z2b_ne cp Hcp). reflexivity.
Qed.
(* no rule: parse returns false *)
Corollary step_no_rule fuel0 fuel plugin h ob vb ids evs hres cp i :
  args_at h ob vb ids -> 0 <= i < Z.of_nat (length ids) ->
  first_match c12_dispatch (txt (nth (Z.to_nat i) ids 0)) = None ->
  loop fuel0 (S fuel) (HPtr ob 0) plugin h evs hres cp i = Done (0, h, evs, hres).
Proof.
  intros AA Hi FM. rewrite (src_args_parse_loop_step fuel0 fuel plugin h ob vb ids evs hres cp i AA Hi), FM. reflexivity.
Qed.

(* ------------------------------------------------------------------ 3. the whole loop, by induction on the arguments left *)
Lemma loop_spec tm fuel0 plugin ob vb ids : Z.of_nat (length ids) < 2 ^ 31 ->
  forall n i h fuel evs hres c cp,
  (length ids - i <= n)%nat -> (length ids - i < fuel)%nat ->
  args_at h ob vb ids -> flags_rep h ob c -> cp <> 0 ->
  consistent tm c (Z.of_nat i) (map txt (skipn i ids)) hres ->
  loop_post tm c (Z.of_nat i) (map txt (skipn i ids)) h ob evs hres
    (close (loop fuel0 fuel (HPtr ob 0) plugin h evs hres cp (Z.of_nat i))).
Proof.
  intro Hac.
  assert (EXIT : forall i h fuel evs hres c cp, (length ids <= i)%nat -> args_at h ob vb ids -> flags_rep h ob c ->
            loop_post tm c (Z.of_nat i) (map txt (skipn i ids)) h ob evs hres
              (close (loop fuel0 (S fuel) (HPtr ob 0) plugin h evs hres cp (Z.of_nat i)))).
  { intros i h fuel evs hres c cp Hge AA FR. rewrite skipn_all2 by exact Hge.
    rewrite (loop_exit fuel0 fuel plugin h ob vb ids evs hres cp (Z.of_nat i) AA) by lia.
    exists h, [], hres. cbn [map model_walk events_of flat_map parse_args ret_code model_last close app length].
    rewrite app_nil_r. repeat split; try reflexivity; try exact FR. discriminate. }
  induction n as [|n IH]; intros i h fuel evs hres c cp Hn Hf AA FR Hcp Co; (destruct fuel as [|fuel]; [lia|]);
    (destruct (le_lt_dec (length ids) i) as [Hge|Hlt]; [exact (EXIT i h fuel evs hres c cp Hge AA FR)|]); [lia|].
  pose proof AA as (Lo & Nv & L22 & _). change (Z.to_nat cells_CommandLineArguments) with 22%nat in L22.
  rewrite (skipn_nth 0 ids i Hlt) in Co |- *. cbn [map] in Co |- *.
  rewrite (src_args_parse_loop_step fuel0 fuel plugin h ob vb ids evs hres cp (Z.of_nat i) AA) by lia.
  rewrite Nat2Z.id. cbn [consistent] in Co.
  destruct (first_match c12_dispatch (txt (nth i ids 0))) as [[k lit]|] eqn:FM.
  2:{ (* no rule *)
      cbn [step_of]. change (z2b (c_eq 0 0)) with true. cbv iota. cbn [close].
      exists h, [], hres. cbn [parse_args model_walk model_last]. unfold handle. rewrite FM.
      cbn [events_of flat_map ret_code app length]. rewrite app_nil_r.
      repeat split; try reflexivity; try exact FR; try apply sbf_refl. discriminate. }
  pose proof (rule_fact_of _ _ FM) as RF. destruct k; cbn [rule_fact] in RF.
  - (* an exact rule *)
    destruct RF as (kk & v & rej & HL & RA). specialize (RA tm c (txt (nth i ids 0)) (hd_error (map txt (skipn (S i) ids)))).
    cbn [step_of]. rewrite HL. destruct rej; cbv iota in RA |- *.
    + destruct RA as (-> & -> & EA). change (z2b (c_eq 0 0)) with true. cbv iota. cbn [close].
      exists (store_cell h ob off_CommandLineArguments_needHelp_ (VInt 1)), [], hres.
      cbn [parse_args model_walk model_last]. unfold handle. rewrite FM, EA.
      cbn [events_of flat_map ev_of ret_code app length]. rewrite app_nil_r.
      split; [reflexivity|]. split; [reflexivity|]. split; [reflexivity|].
      split; [apply store_cell_sbf; [exact Lo|unfold off_CommandLineArguments_needHelp_; lia]|].
      split; [apply flags_rep_help; assumption|]. split; [|discriminate].
      apply (cell_store_same h ob 2 (VInt 1) Lo). lia.
    + destruct RA as (Hk & c' & EA & FV). rewrite EA in Co. rewrite (z2b_ne cp Hcp).
      rewrite cw_s_small by lia. replace (Z.of_nat i + 1) with (Z.of_nat (S i)) in Co |- * by lia.
      pose proof (store_cell_sbf h ob kk (VInt v) Lo ltac:(lia)) as SB.
      apply (post_shift tm c c' (Z.of_nat i) (Z.of_nat (S i)) _ (map txt (skipn (S i) ids)) h (store_cell h ob kk (VInt v)) ob evs
               [] [] hres).
      * cbn [parse_args]. unfold handle. rewrite FM, EA. reflexivity.
      * cbn [model_last]. unfold handle. rewrite FM, EA. reflexivity.
      * cbn [model_walk]. rewrite FM, EA. cbn [events_of flat_map ev_of app].
        replace (Z.of_nat i + 1) with (Z.of_nat (S i)) by lia. reflexivity.
      * reflexivity.
      * exact SB.
      * apply cell_store_other; [exact Lo|lia].
      * rewrite app_nil_r. apply IH; try lia.
        -- exact (args_at_sbf _ _ _ _ _ SB AA).
        -- apply (flags_rep_store h ob c c' kk v Lo); [lia|exact FR|exact Hk|exact FV].
        -- exact Co.
  - (* a prefix rule *)
    destruct RF as (name & la & fl & asg & adv & HL & RA).
    specialize (RA tm c (txt (nth i ids 0)) (hd_error (map txt (skipn (S i) ids)))).
    destruct hres as [|[rv ni] hres1]; [destruct Co|].
    cbn [step_of]. rewrite HL. unfold h_assigns, h_advances in Co. rewrite HL in Co.
    assert (EV : forall w, events_of (((MPrefix, lit), Z.of_nat i) :: w) = [AHandler name (Z.of_nat i) la fl] ++ events_of w).
    { intro w. cbn [events_of flat_map ev_of]. rewrite HL. reflexivity. }
    destruct (action tm c MPrefix lit (txt (nth i ids 0)) (hd_error (map txt (skipn (S i) ids)))) as [hp|c' u|] eqn:EA;
      cbn [hres_fact] in RA; [| |destruct RA].
    + (* the model rejects: the handler is one whose result is assigned, and the oracle says zero *)
      destruct RA as [-> ->]. rewrite (Co eq_refl). change (z2b (c_eq 0 0)) with true. cbv iota. cbn [close].
      exists h, [(0, ni)], hres1. cbn [parse_args model_walk model_last]. unfold handle. rewrite FM, EA.
      rewrite EV. cbn [events_of flat_map ret_code app length].
      repeat split; try reflexivity; try exact FR; try apply sbf_refl. discriminate.
    + destruct RA as [FV RU]. destruct Co as (Ca & Cn & Co).
      assert (Hcp' : (if asg then rv else cp) <> 0) by (destruct asg; [apply Ca; reflexivity|exact Hcp]).
      rewrite (z2b_ne _ Hcp').
      destruct u.
      * (* the value is the next argument: the handler stepped over it *)
        destruct (RU eq_refl) as [-> Hnext]. rewrite (Cn eq_refl). cbn [b2z].
        assert (Hlt2 : (S i < length ids)%nat).
        { destruct (le_lt_dec (length ids) (S i)) as [Q|Q]; [|exact Q]. exfalso. apply Hnext.
          rewrite skipn_all2 by exact Q. reflexivity. }
        rewrite (skipn_nth 0 ids (S i) Hlt2) in Co, EA |- *. cbn [map hd_error] in Co, EA |- *.
        rewrite cw_s_small by lia. replace (Z.of_nat i + 1 + 1) with (Z.of_nat (S (S i))) by lia.
        replace (Z.of_nat i + 2) with (Z.of_nat (S (S i))) in Co by lia.
        apply (post_shift tm c c' (Z.of_nat i) (Z.of_nat (S (S i))) _ (map txt (skipn (S (S i)) ids)) h h ob evs
                 [AHandler name (Z.of_nat i) la fl] [(rv, Z.of_nat i + 1)] hres1).
        -- cbn [parse_args hd_error]. unfold handle. rewrite FM, EA. reflexivity.
        -- cbn [model_last hd_error]. unfold handle. rewrite FM, EA. reflexivity.
        -- cbn [model_walk hd_error]. rewrite FM, EA, EV.
           replace (Z.of_nat i + 2) with (Z.of_nat (S (S i))) by lia. reflexivity.
        -- reflexivity.
        -- apply sbf_refl.
        -- reflexivity.
        -- apply IH; try lia; try assumption. exact (flags_rep_ext _ _ _ _ FR FV).
      * (* the value is attached (or absent): on to i + 1 *)
        assert (Ei : (if adv then ni else Z.of_nat i) = Z.of_nat i) by (destruct adv; [rewrite (Cn eq_refl); cbn [b2z]; lia|reflexivity]).
        rewrite Ei. rewrite cw_s_small by lia. replace (Z.of_nat i + 1) with (Z.of_nat (S i)) in Co |- * by lia.
        apply (post_shift tm c c' (Z.of_nat i) (Z.of_nat (S i)) _ (map txt (skipn (S i) ids)) h h ob evs
                 [AHandler name (Z.of_nat i) la fl] [(rv, ni)] hres1).
        -- cbn [parse_args]. unfold handle. rewrite FM, EA. reflexivity.
        -- cbn [model_last]. unfold handle. rewrite FM, EA. reflexivity.
        -- cbn [model_walk]. rewrite FM, EA, EV. replace (Z.of_nat i + 1) with (Z.of_nat (S i)) by lia. reflexivity.
        -- reflexivity.
        -- apply sbf_refl.
        -- reflexivity.
        -- apply IH; try lia; try assumption. exact (flags_rep_ext _ _ _ _ FR FV).
Qed.

(* ================================================================== CommandLineArguments::parse *)
Theorem src_args_parse_spec tm fuel plugin h ob vb ids evs hres c :
  args_at h ob vb ids -> Z.of_nat (length ids) < 2 ^ 31 -> flags_rep h ob c ->
  consistent tm c 1 (map txt (tl ids)) hres -> (length (tl ids) < fuel)%nat ->
  exists h' used hres',
    hres = used ++ hres' /\ length used = length (events_of (model_walk tm c 1 (map txt (tl ids)))) /\
    src_args_parse arg_is arg_starts fuel h evs hres (HPtr ob 0) plugin
    = FOk (ret_code (parse_args tm c (map txt (tl ids))), h', evs ++ events_of (model_walk tm c 1 (map txt (tl ids))), hres') /\
    same_but_flags h h' ob /\ flags_rep h' ob (model_last tm c (map txt (tl ids))) /\
    cell h' ob 2 = (match parse_args tm c (map txt (tl ids)) with Reject true => Some (VInt 1) | _ => cell h ob 2 end) /\
    parse_args tm c (map txt (tl ids)) <> Unknown.
Proof.
  intros AA Hac FR Co Hf.
  assert (Et : tl ids = skipn 1 ids) by (destruct ids; reflexivity). rewrite Et in *.
  assert (Hl : (length ids - 1 < fuel)%nat).
  { destruct ids as [|x l]; cbn [length skipn] in Hf |- *; lia. }
  destruct (loop_spec tm fuel plugin ob vb ids Hac (length ids) 1%nat h fuel evs hres c 1 ltac:(lia) Hl AA FR ltac:(lia) Co)
    as (h' & used & hres' & E1 & E2 & E3 & E4 & E5 & E6 & E7).
  exists h', used, hres'. split; [exact E1|]. split; [exact E2|]. split; [|split; [exact E4|]; split; [exact E5|]; split; [exact E6|exact E7]].
  change (src_args_parse arg_is arg_starts fuel h evs hres (HPtr ob 0) plugin)
    with (finish (close (loop fuel fuel (HPtr ob 0) plugin h evs hres 1 (Z.of_nat 1)))).
  rewrite E3. reflexivity.
Qed.

End Tie.

(* ------------------------------------------------------------------ the same, read as separate statements *)
Lemma ret_code_accepts r : r <> Unknown -> (ret_code r = 1 <-> exists c, r = Accept c).
Proof.
  intro H. destruct r as [hp|c|]; cbn [ret_code]; split; intro Q; try discriminate Q; try contradiction.
  - destruct Q as [c Q]. discriminate Q.
  - exists c. reflexivity.
  - reflexivity.
Qed.
Lemma ret_code_rejects r : ret_code r = 0 <-> exists hp, r = Reject hp.
Proof.
  destruct r as [hp|c|]; cbn [ret_code]; split.
  - intros _. exists hp. reflexivity.
  - reflexivity.
  - intro Q. discriminate Q.
  - intros [x Q]. discriminate Q.
  - intro Q. discriminate Q.
  - intros [x Q]. discriminate Q.
Qed.

(* the (handler, argument index) sequence of the events is the one the model's walk passes through *)
Definition walk_handlers (w : list (rule * Z)) : list (string * Z) :=
  flat_map (fun e => match e with
                     | ((MPrefix, lit), i) => match lookup handler_table lit with Some (name, _, _, _, _) => [(name, i)] | None => [] end
                     | _ => []
                     end) w.
Definition ev_key (e : aev12) : string * Z := match e with AHandler name i _ _ => (name, i) end.
Lemma events_of_handlers w : map ev_key (events_of w) = walk_handlers w.
Proof.
  induction w as [|[[k lit] i] w IH]; [reflexivity|]. cbn [events_of walk_handlers flat_map]. rewrite map_app.
  fold (events_of w). fold (walk_handlers w). rewrite IH. f_equal.
  destruct k; [reflexivity|]. cbn [ev_of]. destruct (lookup handler_table lit) as [[[[[name la] fl] asg] adv]|]; reflexivity.
Qed.

(* the hypotheses on the two text predicates can be met for every txt *)
Lemma arg_hyps_satisfiable (txt : Z -> bytes) : exists arg_is arg_starts : Z -> string -> Z,
  (forall id s, arg_is id s = b2z (bytes_eqb (txt id) (bs s))) /\ (forall id s, arg_starts id s = b2z (is_prefix (bs s) (txt id))).
Proof.
  exists (fun id s => b2z (bytes_eqb (txt id) (bs s))), (fun id s => b2z (is_prefix (bs s) (txt id))). split; intros; reflexivity.
Qed.

Lemma tl_map {A C} (f : A -> C) l : tl (map f l) = map f (tl l).
Proof. destruct l; reflexivity. Qed.

(* C12_Model.parse on the argument texts, from an object as the constructor leaves it (flag cells = default_config, needHelp_ = 0):
   the translated parse returns true exactly when the model accepts; then the flag cells are the accepted configuration's flags;
   after a rejection needHelp_ tells help from usage as the model's Reject does *)
Theorem src_parse_meets_model txt arg_is arg_starts
  (Hai : forall id s, arg_is id s = b2z (bytes_eqb (txt id) (bs s)))
  (Has : forall id s, arg_starts id s = b2z (is_prefix (bs s) (txt id)))
  tm fuel plugin h ob vb ids evs hres :
  args_at h ob vb ids -> Z.of_nat (length ids) < 2 ^ 31 -> flags_rep h ob default_config -> cell h ob 2 = Some (VInt 0) ->
  consistent tm default_config 1 (map txt (tl ids)) hres -> (length (tl ids) < fuel)%nat ->
  exists r h' evs' hres',
    src_args_parse arg_is arg_starts fuel h evs hres (HPtr ob 0) plugin = FOk (r, h', evs ++ evs', hres') /\
    same_but_flags h h' ob /\
    map ev_key evs' = walk_handlers (model_walk tm default_config 1 (map txt (tl ids))) /\
    length hres = (length evs' + length hres')%nat /\
    match parse tm (map txt ids) with
    | Accept c => r = 1 /\ flags_rep h' ob c /\ cell h' ob 2 = Some (VInt 0)
    | Reject hp => r = 0 /\ cell h' ob 2 = Some (VInt (b2z hp))
    | Unknown => False
    end.
Proof.
  intros AA Hac FR C2 Co Hf.
  destruct (src_args_parse_spec txt arg_is arg_starts Hai Has tm fuel plugin h ob vb ids evs hres default_config AA Hac FR Co Hf)
    as (h' & used & hres' & E1 & E2 & E3 & E4 & E5 & E6 & E7).
  exists (ret_code (parse_args tm default_config (map txt (tl ids)))), h',
         (events_of (model_walk tm default_config 1 (map txt (tl ids)))), hres'.
  split; [exact E3|]. split; [exact E4|]. split; [apply events_of_handlers|].
  split; [rewrite E1, app_length, E2; reflexivity|].
  unfold parse. rewrite tl_map. change (list N) with bytes in *.
  destruct (parse_args tm default_config (map txt (tl ids))) as [hp|c|] eqn:EP; [| |apply E7; reflexivity].
  - split; [reflexivity|]. destruct hp; [exact E6|rewrite E6; exact C2].
  - split; [reflexivity|]. split; [|rewrite E6; exact C2].
    rewrite <- (model_last_accept tm _ _ default_config c (le_n _) EP). exact E5.
Qed.

(* ================================================================== examples (vm_compute) *)
Definition ex_txt (id : Z) : bytes :=
  nth (Z.to_nat id) [bs "prog"; bs "-v"; bs "-sg"; bs "Grp"; bs "-b"; bs "-zz"; bs "-h"; bs "-t"; bs "nodot"] [].
Definition ex_is (id : Z) (s : string) : Z := b2z (bytes_eqb (ex_txt id) (bs s)).
Definition ex_starts (id : Z) (s : string) : Z := b2z (is_prefix (bs s) (ex_txt id)).
(* the object as the constructor leaves it: needHelp_ .. crashOnFail_ false, rethrowExceptions_ true, repeat_ 1 *)
Definition ex_obj (ac : Z) (needHelp verbose reversing : Z) : list val :=
  [VInt ac; VPtr (HPtr 1 0); VInt needHelp; VInt verbose; VInt 0; VInt 0; VInt 0; VInt 0; VInt 0; VInt 0; VInt 0; VInt reversing;
   VInt 0; VInt 1; VInt 0; VInt 0; VInt 1; VInt 0; VInt 0; VInt 0; VInt 0; VInt 0].
Definition ex_heap (ids : list Z) : heap := [ex_obj (Z.of_nat (length ids)) 0 0 0; map VInt ids].

(* argv = ["prog"; "-v"; "-sg"; "Grp"; "-b"]: -v and -b store their members, -sg is handed to addStrictGroupFilter with index 2,
   which takes "Grp" as its value and leaves the index at 3 (the oracle pair), so "Grp" is never dispatched *)
Example ex_accepted :
  src_args_parse ex_is ex_starts 5 (ex_heap [0; 1; 2; 3; 4]) [] [(1, 3)] (HPtr 0 0) 0
  = FOk (1, [ex_obj 5 0 1 1; map VInt [0; 1; 2; 3; 4]], [AHandler "addStrictGroupFilter" 2 "" []], []).
Proof. vm_compute. reflexivity. Qed.
(* ... without the skip "Grp" would be refused (no rule): the oracle pair (1, 2) is not consistent with the model *)
Example ex_no_skip :
  src_args_parse ex_is ex_starts 5 (ex_heap [0; 1; 2; 3; 4]) [] [(1, 2)] (HPtr 0 0) 0
  = FOk (0, [ex_obj 5 0 1 0; map VInt [0; 1; 2; 3; 4]], [AHandler "addStrictGroupFilter" 2 "" []], []).
Proof. vm_compute. reflexivity. Qed.
(* the model on the same vector: accepted, verbose and reversing set, one strict group filter "Grp"; its walk and oracle *)
Example ex_model_accepts :
  parse 0 (map ex_txt [0; 1; 2; 3; 4])
  = Accept (add_gf (set_rev (set_verbose default_config true) true) (mkf (bs "Grp") true false)).
Proof. vm_compute. reflexivity. Qed.
Example ex_model_walk :
  model_walk 0 default_config 1 (map ex_txt [1; 2; 3; 4]) = [((MExact, bs "-v"), 1); ((MPrefix, bs "-sg"), 2); ((MExact, bs "-b"), 4)] /\
  model_oracle 0 default_config 1 (map ex_txt [1; 2; 3; 4]) = [(1, 3)].
Proof. split; vm_compute; reflexivity. Qed.
(* fuel: one unit per argument after the program name, plus one for the exit test *)
Example ex_fuel_exact :
  src_args_parse ex_is ex_starts 2 (ex_heap [0; 1; 4]) [] [] (HPtr 0 0) 0 = FNoFuel /\
  src_args_parse ex_is ex_starts 3 (ex_heap [0; 1; 4]) [] [] (HPtr 0 0) 0 = FOk (1, [ex_obj 3 0 1 1; map VInt [0; 1; 4]], [], []).
Proof. split; vm_compute; reflexivity. Qed.
(* rejected vectors: an unknown option after -v; -h; -t whose handler answers false *)
Example ex_rejected_unknown :
  src_args_parse ex_is ex_starts 5 (ex_heap [0; 1; 5]) [] [] (HPtr 0 0) 0 = FOk (0, [ex_obj 3 0 1 0; map VInt [0; 1; 5]], [], []) /\
  parse 0 (map ex_txt [0; 1; 5]) = Reject false.
Proof. split; vm_compute; reflexivity. Qed.
Example ex_rejected_help :
  src_args_parse ex_is ex_starts 5 (ex_heap [0; 6; 1]) [] [] (HPtr 0 0) 0 = FOk (0, [ex_obj 3 1 0 0; map VInt [0; 6; 1]], [], []) /\
  parse 0 (map ex_txt [0; 6; 1]) = Reject true.
Proof. split; vm_compute; reflexivity. Qed.
Example ex_rejected_by_handler :
  src_args_parse ex_is ex_starts 5 (ex_heap [0; 7; 8]) [] [(0, 2)] (HPtr 0 0) 0
  = FOk (0, ex_heap [0; 7; 8], [AHandler "addGroupDotNameFilter" 1 "-t" [0; 0]], []) /\
  parse 0 (map ex_txt [0; 7; 8]) = Reject false /\ model_oracle 0 default_config 1 (map ex_txt [7; 8]) = [(0, 1)].
Proof. repeat split; vm_compute; reflexivity. Qed.
(* an exhausted oracle stream is an error, not a default *)
Example ex_oracle_dry : src_args_parse ex_is ex_starts 5 (ex_heap [0; 1; 2; 3; 4]) [] [] (HPtr 0 0) 0 = FOob.
Proof. vm_compute. reflexivity. Qed.

(* the premises of src_parse_meets_model hold together on the first example (the theorem is not vacuous) *)
Example ex_premises :
  args_at (ex_heap [0; 1; 2; 3; 4]) 0 1 [0; 1; 2; 3; 4] /\ flags_rep (ex_heap [0; 1; 2; 3; 4]) 0 default_config /\
  cell (ex_heap [0; 1; 2; 3; 4]) 0 2 = Some (VInt 0) /\
  consistent 0 default_config 1 (map ex_txt (tl [0; 1; 2; 3; 4])) [(1, 3)].
Proof.
  split; [|split; [|split]].
  - repeat split; try reflexivity; cbn; lia.
  - intros j Hj. do 11 (destruct j as [|j]; [reflexivity|]). lia.
  - reflexivity.
  - exact (model_oracle_consistent 0 4 (map ex_txt [1; 2; 3; 4]) default_config 1 [] (le_n _)).
Qed.
