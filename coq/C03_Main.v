(* C03 -- every check: failed iff the named predicate is false, counted once (CHECK_COMPARE: not when it passes) *)
From Coq Require Import ZArith NArith Bool List Lia ZifyBool Reals.
From Flocq Require Import Core.Core IEEE754.BinarySingleNaN.
From CppUVerif Require Import lib.CInt lib.Dbl lib.Str C03_Model C03_Proofs C03_DblProofs.
Import ListNotations.
Local Open Scope Z_scope.

Lemma run_check_holds c : valid c = true ->
  run_check c = (negb (holds c), if holds c && is_compare c then 0%N else 1%N).
Proof.
  intro V. destruct c; cbn [valid] in V; cbn [run_check is_compare]; rewrite ?andb_false_r, ?andb_true_r;
    repeat match goal with H : _ && _ = true |- _ => apply andb_true_iff in H; destruct H end.
  - apply run_k2_holds; assumption.
  - apply run_k1_holds; assumption.
  - apply run_equal_zero_holds; assumption.
  - apply run_compare_holds; assumption.
  - apply run_enums_holds.
  - apply run_ptr_holds.
  - unfold assertDoublesEqual. rewrite deq_holds. reflexivity.
  - apply run_str_holds.
  - apply run_mem_holds; assumption.
  - apply run_bits_holds.
  - apply run_throws_holds.
  - reflexivity.
Qed.

Lemma run_meets_spec c : valid c = true -> spec c (run c) = true.
Proof.
  intro V. unfold run, spec. rewrite (run_check_holds c V). cbn [o_failures o_checks o_after].
  destruct (holds c), (is_compare c); reflexivity.
Qed.

(* counting *)
Lemma counted_once c : valid c = true -> is_compare c = false -> snd (run_check c) = 1%N.
Proof. intros V H. rewrite run_check_holds by exact V. rewrite H, andb_false_r. reflexivity. Qed.
Lemma compare_count op ta za tb zb : valid (Compare op ta za tb zb) = true ->
  snd (run_check (Compare op ta za tb zb)) = if fst (run_check (Compare op ta za tb zb)) then 1%N else 0%N.
Proof. intro V. rewrite run_check_holds by exact V. cbn [fst snd is_compare]. destruct (holds _); reflexivity. Qed.
Lemma at_most_once c : valid c = true -> (snd (run_check c) <= 1)%N.
Proof. intro V. rewrite run_check_holds by exact V. cbn [snd]. destruct (holds c && is_compare c); lia. Qed.
Lemma fails_iff_not_holds c : valid c = true -> fst (run_check c) = negb (holds c).
Proof. intro V. rewrite run_check_holds by exact V. reflexivity. Qed.

(* integer checks on operands in range of the type the check names: plain mathematical equality *)
Lemma int_checks k t ta za tb zb :
  named k = Some t -> o_in_range ta za = true -> o_in_range tb zb = true ->
  o_in_range t za = true -> o_in_range t zb = true ->
  run_k2 k ta za tb zb = (negb (za =? zb), 1%N).
Proof.
  intros Hk Ha Hb Hna Hnb. rewrite run_k2_holds by assumption. unfold holds_int2. rewrite Hk.
  rewrite !owrap_id by assumption. reflexivity.
Qed.
(* CHECK_EQUAL / CHECK_COMPARE: the language's operator, which is the mathematical relation whenever the operands have the
   same signedness after promotion or are both non-negative *)
Lemma check_equal_math ta za tb zb :
  o_in_range ta za = true -> o_in_range tb zb = true -> math_compare_ok ta za tb zb = true ->
  run_k2 CHECK_EQUAL ta za tb zb = (negb (za =? zb), 1%N).
Proof.
  intros Ha Hb Hm. rewrite run_k2_holds by assumption. unfold holds_int2. cbn [named]. rewrite lang_rel_math by assumption. reflexivity.
Qed.
Lemma check_compare_math op ta za tb zb :
  o_in_range ta za = true -> o_in_range tb zb = true -> math_compare_ok ta za tb zb = true ->
  run_compare op ta za tb zb = (negb (rel op za zb), if rel op za zb then 0%N else 1%N).
Proof.
  intros Ha Hb Hm. rewrite run_compare_holds by assumption. rewrite lang_rel_math by assumption. reflexivity.
Qed.
(* a negative signed operand against an unsigned one: the language converts it, and the check follows the language *)
Lemma check_equal_mixed_sign_witness :
  run_k2 CHECK_EQUAL (OI TInt) (-1) (OI TUInt) 4294967295 = (false, 1%N).
Proof. reflexivity. Qed.

Lemma bytes_equal_mod ta za tb zb : o_in_range ta za = true -> o_in_range tb zb = true ->
  run_k2 BYTES_EQUAL ta za tb zb = (negb (za mod 256 =? zb mod 256), 1%N).
Proof. intros Ha Hb. rewrite run_k2_holds by assumption. reflexivity. Qed.

Lemma bool_checks k t z : o_in_range t z = true -> o_in_range (OI TInt) z = true ->
  run_k1 k t z = (match k with K_CHECK_FALSE => negb (z =? 0) | _ => z =? 0 end, 1%N).
Proof.
  intros H Hi. rewrite run_k1_holds by exact H. destruct k; cbn [holds_bool1]; try (rewrite owrap_id by exact Hi); rewrite ?negb_involutive; reflexivity.
Qed.

(* strings *)
Lemma str_null k n : run_str k None None n = (false, 1%N) /\
  (forall s, run_str k None (Some s) n = (true, 1%N)) /\ (forall s, run_str k (Some s) None n = (true, 1%N)).
Proof. rewrite !run_str_holds. repeat split; intros; rewrite ?run_str_holds; destruct k; reflexivity. Qed.

Lemma negb_eq_true_iff (b : bool) : negb b = true <-> b <> true.
Proof. destruct b; cbn; split; intro H; try reflexivity; try discriminate H; try congruence. Qed.

Lemma strcmp_fails_iff e a n : fst (run_str K_STRCMP (Some e) (Some a) n) = true <-> cut_nul e <> cut_nul a.
Proof. rewrite run_str_holds. cbn [fst holds_str]. rewrite negb_eq_true_iff, bytes_eqb_eq. tauto. Qed.
Lemma c_string_fails_iff e a n : fst (run_str K_C_STRING (Some e) (Some a) n) = true <-> cut_nul e <> cut_nul a.
Proof. rewrite run_str_holds. cbn [fst holds_str]. rewrite negb_eq_true_iff, bytes_eqb_eq. tauto. Qed.
Lemma strncmp_fails_iff e a n :
  fst (run_str K_STRNCMP (Some e) (Some a) n) = true <-> firstn (N.to_nat n) (cut_nul e) <> firstn (N.to_nat n) (cut_nul a).
Proof. rewrite run_str_holds. cbn [fst holds_str]. rewrite negb_eq_true_iff, bytes_eqb_eq, !take_firstn. tauto. Qed.
Lemma nocase_fails_iff e a n :
  fst (run_str K_NOCASE (Some e) (Some a) n) = true <-> lower (cut_nul e) <> lower (cut_nul a).
Proof. rewrite run_str_holds. cbn [fst holds_str]. rewrite negb_eq_true_iff, bytes_eqb_eq. tauto. Qed.
Lemma contains_fails_iff e a n :
  fst (run_str K_CONTAINS (Some e) (Some a) n) = true <-> ~ exists pre post, cut_nul a = pre ++ cut_nul e ++ post.
Proof. rewrite run_str_holds. cbn [fst holds_str]. rewrite negb_eq_true_iff, contains_spec. tauto. Qed.
Lemma nocase_contains_fails_iff e a n :
  fst (run_str K_NOCASE_CONTAINS (Some e) (Some a) n) = true <->
  ~ exists pre post, lower (cut_nul a) = pre ++ lower (cut_nul e) ++ post.
Proof. rewrite run_str_holds. cbn [fst holds_str]. rewrite negb_eq_true_iff, contains_spec. tauto. Qed.
(* ASCII folding: exactly the 26 letters *)
Lemma to_lower_spec (c : N) : to_lower c = if ((65 <=? c) && (c <=? 90))%N then (c + 32)%N else c.
Proof. reflexivity. Qed.

(* memory blocks *)
Lemma memcmp_fails_iff e a n : block_ok e n = true -> block_ok a n = true ->
  (fst (assertBinaryEqual e a n) = true <->
   n <> 0%N /\ match e, a with
               | None, None => False
               | Some e, Some a => firstn (N.to_nat n) e <> firstn (N.to_nat n) a
               | _, _ => True end).
Proof.
  intros He Ha. rewrite run_mem_holds by assumption. cbn [fst]. unfold holds_mem. rewrite negb_eq_true_iff.
  destruct (N.eqb_spec n 0) as [E|NE]; cbn [orb].
  - split; [intro H; exfalso; apply H; reflexivity | intros [H _]; contradiction].
  - destruct e as [e|], a as [a|].
    + rewrite bytes_eqb_eq, !take_firstn. tauto.
    + split; [intros _; split; [assumption|exact I] | intros _ H; discriminate H].
    + split; [intros _; split; [assumption|exact I] | intros _ H; discriminate H].
    + split; [intro H; exfalso; apply H; reflexivity | intros [_ []]].
Qed.

(* masked bits: independent of the byte count (the type of the actual operand) *)
Lemma bits_fails_iff te ze ta za zm :
  o_in_range OULong ze = true -> o_in_range OULong za = true -> o_in_range OULong zm = true ->
  (fst (run_bits false te ze ta za zm) = true <-> Z.land ze zm <> Z.land za zm).
Proof.
  intros He Ha Hm. rewrite run_bits_holds. cbn [fst]. unfold holds_bits. rewrite negb_eq_true_iff.
  apply o_in_range_iff in He. apply o_in_range_iff in Ha. apply o_in_range_iff in Hm.
  cbn [olo ohi OULong owidth osigned width signed] in *.
  rewrite !Z.mod_small by (change (2 ^ 64) with 18446744073709551616 in *; lia).
  rewrite Z.eqb_eq. tauto.
Qed.
Lemma bits_c_fails_iff te ze ta za zm :
  o_in_range (OI TUInt) ze = true -> o_in_range (OI TUInt) za = true -> o_in_range (OI TUInt) zm = true ->
  (fst (run_bits true te ze ta za zm) = true <-> Z.land ze zm <> Z.land za zm).
Proof.
  intros He Ha Hm. rewrite run_bits_holds. cbn [fst]. unfold holds_bits. rewrite negb_eq_true_iff.
  apply o_in_range_iff in He. apply o_in_range_iff in Ha. apply o_in_range_iff in Hm.
  cbn [olo ohi owidth osigned width signed] in *.
  rewrite !Z.mod_small by (change (2 ^ 32) with 4294967296 in *; lia).
  rewrite Z.eqb_eq. tauto.
Qed.
Lemma bits_bytecount_irrelevant c te ze ta ta' za zm : run_bits c te ze ta za zm = run_bits c te ze ta' za zm.
Proof. rewrite !run_bits_holds. reflexivity. Qed.

(* CHECK_THROWS, FAIL *)
Lemma throws_fails_iff w : run_throws w = (match w with ThrowsExpected => false | _ => true end, 1%N).
Proof. destruct w; reflexivity. Qed.

(* the double check as a whole *)
Lemma doubles_check c e a t : run_check (Dbl c e a t) = (negb (doubles_equal e a t), 1%N).
Proof. reflexivity. Qed.

(* ------------------------------------------------------------------ the families, grouped as Properties_C03.v states them *)
Lemma int_checks_all :
  (forall k t ta za tb zb,
     named k = Some t -> o_in_range ta za = true -> o_in_range tb zb = true ->
     o_in_range t za = true -> o_in_range t zb = true ->
     run_k2 k ta za tb zb = (negb (za =? zb), 1%N)) /\
  (forall ta za tb zb, o_in_range ta za = true -> o_in_range tb zb = true ->
     run_k2 BYTES_EQUAL ta za tb zb = (negb (za mod 256 =? zb mod 256), 1%N)) /\
  (forall ta za tb zb,
     o_in_range ta za = true -> o_in_range tb zb = true -> math_compare_ok ta za tb zb = true ->
     run_k2 CHECK_EQUAL ta za tb zb = (negb (za =? zb), 1%N)) /\
  (forall k t z, o_in_range t z = true -> o_in_range (OI TInt) z = true ->
     run_k1 k t z = (match k with K_CHECK_FALSE => negb (z =? 0) | _ => z =? 0 end, 1%N)).
Proof. exact (conj int_checks (conj bytes_equal_mod (conj check_equal_math bool_checks))). Qed.

Lemma compare_count_all :
  (forall op ta za tb zb,
     o_in_range ta za = true -> o_in_range tb zb = true -> math_compare_ok ta za tb zb = true ->
     run_compare op ta za tb zb = (negb (rel op za zb), if rel op za zb then 0%N else 1%N)) /\
  (forall c, valid c = true -> is_compare c = false -> snd (run_check c) = 1%N) /\
  (forall c, valid c = true -> (snd (run_check c) <= 1)%N).
Proof. exact (conj check_compare_math (conj counted_once at_most_once)). Qed.

Lemma str_checks_all :
  (forall k n, run_str k None None n = (false, 1%N) /\
     (forall s, run_str k None (Some s) n = (true, 1%N)) /\ (forall s, run_str k (Some s) None n = (true, 1%N))) /\
  (forall e a n, fst (run_str K_STRCMP (Some e) (Some a) n) = true <-> cut_nul e <> cut_nul a) /\
  (forall e a n, fst (run_str K_C_STRING (Some e) (Some a) n) = true <-> cut_nul e <> cut_nul a) /\
  (forall e a n, fst (run_str K_STRNCMP (Some e) (Some a) n) = true <->
     firstn (N.to_nat n) (cut_nul e) <> firstn (N.to_nat n) (cut_nul a)) /\
  (forall e a n, fst (run_str K_NOCASE (Some e) (Some a) n) = true <-> lower (cut_nul e) <> lower (cut_nul a)) /\
  (forall e a n, fst (run_str K_CONTAINS (Some e) (Some a) n) = true <->
     ~ exists pre post, cut_nul a = pre ++ cut_nul e ++ post) /\
  (forall e a n, fst (run_str K_NOCASE_CONTAINS (Some e) (Some a) n) = true <->
     ~ exists pre post, lower (cut_nul a) = pre ++ lower (cut_nul e) ++ post) /\
  (forall c : N, to_lower c = if ((65 <=? c) && (c <=? 90))%N then (c + 32)%N else c).
Proof.
  exact (conj str_null (conj strcmp_fails_iff (conj c_string_fails_iff (conj strncmp_fails_iff (conj nocase_fails_iff
        (conj contains_fails_iff (conj nocase_contains_fails_iff to_lower_spec))))))).
Qed.

Lemma bits_all :
  (forall te ze ta za zm,
     o_in_range OULong ze = true -> o_in_range OULong za = true -> o_in_range OULong zm = true ->
     (fst (run_bits false te ze ta za zm) = true <-> Z.land ze zm <> Z.land za zm)) /\
  (forall te ze ta za zm,
     o_in_range (OI TUInt) ze = true -> o_in_range (OI TUInt) za = true -> o_in_range (OI TUInt) zm = true ->
     (fst (run_bits true te ze ta za zm) = true <-> Z.land ze zm <> Z.land za zm)) /\
  (forall c te ze ta ta' za zm, run_bits c te ze ta za zm = run_bits c te ze ta' za zm).
Proof. exact (conj bits_fails_iff (conj bits_c_fails_iff bits_bytecount_irrelevant)). Qed.

Lemma double_nan_all :
  (forall c e a t, run_check (Dbl c e a t) = (negb (doubles_equal e a t), 1%N)) /\
  (forall d1 d2 t, d_is_nan d1 || d_is_nan d2 || d_is_nan t = true -> doubles_equal d1 d2 t = false).
Proof. exact (conj doubles_check deq_nan). Qed.

Lemma double_finite_all : forall d1 d2 t, d_finite d1 = true -> d_finite d2 = true -> d_finite t = true ->
  (doubles_equal d1 d2 t = true <-> (Rabs (rnd (dR d1 - dR d2)) <= dR t)%R) /\
  ((Rabs (dR d1 - dR d2) <= dR t)%R -> doubles_equal d1 d2 t = true) /\
  (dR d1 = dR d2 -> (0 <= dR t)%R -> doubles_equal d1 d2 t = true) /\
  doubles_equal d1 d2 t = doubles_equal d2 d1 t /\
  ((dR t < 0)%R -> doubles_equal d1 d2 t = false).
Proof.
  exact (fun d1 d2 t H1 H2 Ht => conj (deq_finite d1 d2 t H1 H2 Ht) (conj (deq_exact_diff d1 d2 t H1 H2 Ht)
        (conj (deq_same_value d1 d2 t H1 H2 Ht) (conj (deq_finite_sym d1 d2 t H1 H2 Ht) (deq_negative_tol d1 d2 t H1 H2 Ht))))).
Qed.

(* ------------------------------------------------------------------ the hypotheses of the theorems are satisfiable *)
Example ex_valid_int : valid (Int2 LONGS_EQUAL (OI TUInt) 4294967295 (OI TInt) (-1)) = true /\
  run_k2 LONGS_EQUAL (OI TUInt) 4294967295 (OI TInt) (-1) = (true, 1%N).
Proof. split; reflexivity. Qed.
Example ex_int_checks : run_k2 C_UBYTE OShort 200 (OI TLLong) 200 = (false, 1%N).
Proof. apply (int_checks C_UBYTE OUChar); reflexivity. Qed.
Example ex_signed_bytes_wrap : run_k2 SIGNED_BYTES_EQUAL (OI TInt) (-1) (OI TInt) 255 = (false, 1%N).
Proof. reflexivity. Qed.
Example ex_compare : run_compare RLt (OI TInt) (-1) (OI TLong) 0 = (false, 0%N) /\ run_compare RLt (OI TInt) (-1) (OI TUInt) 0 = (true, 1%N).
Proof. split; reflexivity. Qed.
Example ex_str : fst (run_str K_NOCASE (Some [72; 105]%N) (Some [104; 73; 0; 33]%N) 0) = false.
Proof. reflexivity. Qed.
Example ex_mem : block_ok (Some [1; 2; 3]%N) 2 = true /\ fst (assertBinaryEqual (Some [1; 2; 3]%N) (Some [1; 2; 4]%N) 2) = false.
Proof. split; reflexivity. Qed.
Example ex_dbl_finite :
  let one := dbl_of_bits 0x3ff0000000000000 in let half := dbl_of_bits 0x3fe0000000000000 in
  d_finite one = true /\ d_finite half = true /\ doubles_equal one half half = true /\ doubles_equal one half (dbl_of_bits 0x3fd0000000000000) = false.
Proof. vm_compute. repeat split; reflexivity. Qed.
