(* C04 -- the hash table: invariants, and every table operation expressed on the concatenation of the buckets *)
From Coq Require Import NArith List Bool Lia Permutation Arith.
From CppUVerif Require Import gen.Gen_Common C04_Model C04_Lists.
Import ListNotations.
Local Open Scope nat_scope.

Definition flat (t : table) : list node := concat t.

(* every node sits in the bucket its address hashes to *)
Fixpoint bucket_ok_from (k : nat) (t : table) : Prop :=
  match t with
  | [] => True
  | b :: r => Forall (fun n => hashN (n_addr n) = k) b /\ bucket_ok_from (S k) r
  end.
Definition Inv (t : table) : Prop :=
  length t = nbuckets /\ bucket_ok_from 0 t /\ NoDup (addrs (flat t)).

Lemma hp_nz : hash_prime <> 0%N.
Proof. unfold hash_prime. discriminate. Qed.
Lemma hash_lt a : hashN a < nbuckets.
Proof. unfold hashN, nbuckets. pose proof (N.mod_lt a hash_prime hp_nz). lia. Qed.

Lemma bok_app : forall T1 T2 k, bucket_ok_from k (T1 ++ T2) <-> bucket_ok_from k T1 /\ bucket_ok_from (k + length T1) T2.
Proof.
  induction T1 as [|b r IH]; cbn; intros T2 k.
  - rewrite Nat.add_0_r. tauto.
  - rewrite IH. replace (S k + length r) with (k + S (length r)) by lia. tauto.
Qed.
Lemma bok_range : forall T k n, bucket_ok_from k T -> In n (flat T) -> k <= hashN (n_addr n) < k + length T.
Proof.
  induction T as [|b r IH]; cbn; intros k n H Hin; [tauto|].
  destruct H as [Hb Hr]. apply in_app_iff in Hin. destruct Hin as [Hin|Hin].
  - rewrite Forall_forall in Hb. rewrite (Hb _ Hin). lia.
  - specialize (IH _ _ Hr Hin). lia.
Qed.
Lemma bok_notin T k a : bucket_ok_from k T -> (hashN a < k \/ k + length T <= hashN a) -> ~ In a (addrs (flat T)).
Proof.
  intros H Hr Hin. unfold addrs in Hin. apply in_map_iff in Hin. destruct Hin as (n & <- & Hn).
  pose proof (bok_range _ _ _ H Hn). lia.
Qed.

Lemma get_b_app T1 b T2 : get_b (length T1) (T1 ++ b :: T2) = b.
Proof. unfold get_b. apply nth_middle. Qed.
Lemma set_b_app b' : forall T1 b T2, set_b (length T1) b' (T1 ++ b :: T2) = T1 ++ b' :: T2.
Proof. induction T1 as [|x r IH]; cbn; intros; [reflexivity|]. rewrite IH. reflexivity. Qed.
Lemma skipn_app_S : forall (T1 : table) b T2, skipn (S (length T1)) (T1 ++ b :: T2) = T2.
Proof. induction T1 as [|x r IH]; cbn; intros; [reflexivity|]. apply IH. Qed.
Lemma split_at : forall i (t : table), i < length t -> exists T1 T2, t = T1 ++ get_b i t :: T2 /\ length T1 = i.
Proof.
  induction i as [|i IH]; intros [|b r] H; cbn in H; try lia.
  - exists [], r. auto.
  - destruct (IH r ltac:(lia)) as (T1 & T2 & E & L). exists (b :: T1), T2. cbn. unfold get_b in *. cbn. rewrite <- E. auto.
Qed.
Lemma set_b_length b' : forall t i, length (set_b i b' t) = length t.
Proof. induction t as [|x r IH]; intros [|i]; cbn; auto. Qed.

(* the one decomposition everything below uses: the table around the bucket of address a *)
Lemma at_hash a t : length t = nbuckets -> bucket_ok_from 0 t ->
  exists T1 b T2, t = T1 ++ b :: T2 /\ length T1 = hashN a /\
    ~ In a (addrs (flat T1)) /\ ~ In a (addrs (flat T2)) /\
    Forall (fun n => hashN (n_addr n) = hashN a) b /\
    (forall b', Forall (fun n => hashN (n_addr n) = hashN a) b' -> bucket_ok_from 0 (T1 ++ b' :: T2)).
Proof.
  intros L B. destruct (split_at (hashN a) t) as (T1 & T2 & E & L1); [rewrite L; apply hash_lt|].
  exists T1, (get_b (hashN a) t), T2. rewrite E in B. apply bok_app in B. cbn in B. destruct B as (B1 & Bb & B2).
  rewrite L1 in *. repeat split; auto.
  - eapply bok_notin; [exact B1|]. lia.
  - eapply bok_notin; [exact B2|]. lia.
  - intros b' Hb'. apply bok_app. cbn. rewrite L1. auto.
Qed.

Lemma flat_app T1 T2 : flat (T1 ++ T2) = flat T1 ++ flat T2.
Proof. apply concat_app. Qed.
Lemma flat_mid T1 b T2 : flat (T1 ++ b :: T2) = flat T1 ++ b ++ flat T2.
Proof. unfold flat. rewrite concat_app. reflexivity. Qed.

Lemma inv_empty : Inv empty_table.
Proof.
  unfold Inv, empty_table. split; [apply repeat_length|].
  assert (F : forall n, flat (repeat [] n) = []) by (induction n; cbn; auto).
  split; [|rewrite F; constructor].
  generalize 0. induction nbuckets; cbn; auto.
Qed.

Lemma t_count_flat : forall t, t_count t = length (flat t).
Proof. induction t as [|b r IH]; cbn; [reflexivity|]. unfold flat in *. rewrite app_length, IH. reflexivity. Qed.

(* ---------------- addNewNode *)
Lemma add_flat n t : Inv t -> ~ In (n_addr n) (addrs (flat t)) ->
  Inv (t_add n t) /\ exists A B, flat t = A ++ B /\ flat (t_add n t) = A ++ n :: B.
Proof.
  intros (L & B & ND) Hn. destruct (at_hash (n_addr n) t L B) as (T1 & b & T2 & E & L1 & N1 & N2 & Fb & Bok).
  unfold t_add; cbv zeta. rewrite <- L1. rewrite E. rewrite get_b_app, set_b_app. unfold l_add.
  assert (P : Permutation (n :: flat t) (flat (T1 ++ (n :: b) :: T2))).
  { rewrite E, !flat_mid. cbn. apply Permutation_middle. }
  split.
  - split; [|split].
    + rewrite E in L. rewrite !app_length in *. cbn in *. lia.
    + apply Bok. constructor; auto.
    + eapply Permutation_NoDup; [apply perm_addrs; exact P|]. cbn. constructor; assumption.
  - exists (flat T1), (b ++ flat T2). rewrite !flat_mid. auto.
Qed.

(* ---------------- removeNode *)
Lemma remove_flat a t : Inv t ->
  fst (t_remove a t) = l_retrieve a (flat t) /\ flat (snd (t_remove a t)) = rm a (flat t) /\ Inv (snd (t_remove a t)).
Proof.
  intros (L & B & ND). destruct (at_hash a t L B) as (T1 & b & T2 & E & L1 & N1 & N2 & Fb & Bok).
  unfold t_remove; cbv zeta. rewrite <- L1.
  replace (get_b (length T1) t) with b by (rewrite E; symmetry; apply get_b_app).
  rewrite l_remove_spec. cbn [fst snd].
  replace (set_b (length T1) (rm a b) t) with (T1 ++ rm a b :: T2) by (rewrite E; symmetry; apply set_b_app).
  rewrite E, !flat_mid. split; [|split].
  - rewrite retrieve_app, (retrieve_notin _ _ N1), retrieve_app, (retrieve_notin _ _ N2). destruct (l_retrieve a b); reflexivity.
  - rewrite rm_app_l by assumption. rewrite rm_app_r by assumption. reflexivity.
  - split; [|split].
    + rewrite E in L. rewrite !app_length in *. cbn in *. lia.
    + apply Bok. rewrite Forall_forall in *. intros x Hx. apply Fb. eapply rm_incl; eassumption.
    + rewrite flat_mid. rewrite E, flat_mid in ND.
      assert (R : flat T1 ++ rm a b ++ flat T2 = rm a (flat T1 ++ b ++ flat T2)).
      { rewrite rm_app_l by assumption. rewrite rm_app_r by assumption. reflexivity. }
      rewrite R, rm_drop by assumption. apply nodup_filter. assumption.
Qed.

(* ---------------- clearAllAccounting *)
Lemma clear_flat p : forall t, flat (t_clear p t) = filter (fun c => negb (is_in_period c p)) (flat t).
Proof.
  induction t as [|b r IH]; cbn; [reflexivity|]. unfold flat in *. rewrite filter_app, l_clear_spec, <- IH. reflexivity.
Qed.
Lemma clear_bok p : forall t k, bucket_ok_from k t -> bucket_ok_from k (t_clear p t).
Proof.
  induction t as [|b r IH]; cbn; intros k H; [exact I|]. destruct H as [Hb Hr]. split; [|auto].
  rewrite l_clear_spec. rewrite Forall_forall in *. intros x Hx. apply filter_In in Hx. apply Hb. tauto.
Qed.
Lemma clear_inv p t : Inv t -> Inv (t_clear p t).
Proof.
  intros (L & B & ND). split; [|split].
  - unfold t_clear. rewrite map_length. assumption.
  - apply clear_bok. assumption.
  - rewrite clear_flat. apply nodup_filter. assumption.
Qed.

(* ---------------- totals, first, next *)
Lemma total_flat p : forall t, t_total p t = N.of_nat (length (filter (fun c => is_in_period c p) (flat t))).
Proof.
  induction t as [|b r IH]; cbn; [reflexivity|]. unfold flat in *. rewrite filter_app, app_length, IH, l_total_spec. lia.
Qed.
Lemma first_flat f : forall t, t_first_from f t = l_leak_from f (flat t).
Proof.
  induction t as [|b r IH]; cbn; [reflexivity|]. unfold flat in *. rewrite leak_from_app, IH. reflexivity.
Qed.
Lemma next_flat f n t : Inv t -> In (n_addr n) (addrs (flat t)) ->
  t_next f n t = l_leak_from f (l_after (n_addr n) (flat t)).
Proof.
  intros (L & B & ND) Hin. destruct (at_hash (n_addr n) t L B) as (T1 & b & T2 & E & L1 & N1 & N2 & Fb & Bok).
  unfold t_next; cbv zeta. rewrite <- L1. rewrite E. rewrite get_b_app, skipn_app_S, flat_mid.
  rewrite E, flat_mid, !addrs_app, !in_app_iff in Hin.
  assert (Hb : In (n_addr n) (addrs b)) by tauto.
  rewrite after_app_l by assumption. rewrite after_app_r by assumption.
  rewrite leak_from_app, first_flat. reflexivity.
Qed.

(* ---------------- period_ written through the pointer *)
Lemma demote_flat a t : Inv t -> flat (t_demote a t) = dm a (flat t) /\ Inv (t_demote a t).
Proof.
  intros (L & B & ND). destruct (at_hash a t L B) as (T1 & b & T2 & E & L1 & N1 & N2 & Fb & Bok).
  unfold t_demote; cbv zeta. rewrite <- L1.
  replace (get_b (length T1) t) with b by (rewrite E; symmetry; apply get_b_app).
  replace (set_b (length T1) (l_demote a b) t) with (T1 ++ l_demote a b :: T2) by (rewrite E; symmetry; apply set_b_app).
  assert (F : flat (T1 ++ l_demote a b :: T2) = dm a (flat t)).
  { rewrite E, !flat_mid, !dm_app, (dm_notin _ _ N1), (dm_notin _ _ N2). reflexivity. }
  split; [exact F|]. split; [|split].
  - rewrite E in L. rewrite !app_length in *. cbn in *. lia.
  - apply Bok. unfold l_demote. rewrite Forall_forall in *. intros x Hx. apply in_map_iff in Hx. destruct Hx as (c & <- & Hc).
    destruct (N.eqb (n_addr c) a); [rewrite demote_addr|]; apply Fb; assumption.
  - rewrite F, dm_addrs. assumption.
Qed.
