(* C06 -- every theorem's hypotheses are met by a concrete, non-trivial instance *)
From Coq Require Import NArith List Bool Arith Lia.
From CppUVerif Require Import gen.Gen_Common gen.Gen_C06 lib.Str C04_Model C04_Lists C04_Table C06_Model C06_Proofs C06_Sim C06_Period.
Import ListNotations.
Local Open Scope N_scope.

(* objects: 0 "n", 1 "a", 2 accounting wrapper around 0, 3 MemoryLeakAllocator around 2 *)
Definition ex_ds : list adesc := [APlain [110]; APlain [97]; AWrap false 0%nat; AWrap true 2%nat].
Definition ex_node : node := mk_node 4608 5 2 SDisabled 0.
Definition ex_st : dstate := d_store d_init 4608 5 2.

Lemma ex_facts : Inv (s_tbl ex_st) /\ slots_ok (flat (s_tbl ex_st)) /\ In ex_node (flat (s_tbl ex_st)) /\
                 l_retrieve 4608 (flat (s_tbl ex_st)) = Some ex_node.
Proof.
  assert (F : flat (s_tbl d_init) = []) by reflexivity.
  assert (Ho : ~ outstanding d_init 4608) by (unfold outstanding; rewrite F; cbn; tauto).
  destruct (store_facts d_init 4608 5 2 inv_empty Ho) as (I1 & R1 & In1 & _).
  split; [exact I1|]. split; [|split].
  - unfold slots_ok. rewrite Forall_forall. intros x Hx. apply In1 in Hx. rewrite F in Hx. destruct Hx as [->|[]].
    split; [reflexivity|]. vm_compute. discriminate.
  - apply In1. left. reflexivity.
  - rewrite R1. reflexivity.
Qed.

(* category_exact: the four categories all occur on this one block *)
Example category_ex :
  dealloc_cat ex_ds false ex_st 0 (Some 4608) = CNone /\                                               (* released through the wrapped allocator itself *)
  dealloc_cat ex_ds false ex_st 1 (Some 4608) = CMismatch /\
  dealloc_cat ex_ds false (with_mem ex_st (mwrite (s_mem ex_st) 4615 [0])) 0 (Some 4608) = CCorrupt /\
  dealloc_cat ex_ds false (with_mem ex_st (mwrite (s_mem ex_st) 4615 [0])) 1 (Some 4608) = CMismatch /\  (* mismatch goes first *)
  dealloc_cat ex_ds false (with_tc (with_mem ex_st (mwrite (s_mem ex_st) 4615 [0])) false) 1 (Some 4608) = CCorrupt /\
  dealloc_cat ex_ds false ex_st 0 (Some 4609) = CNonAlloc /\
  category_is ex_ds ex_st 1 (Some 4608) CMismatch.
Proof.
  repeat (split; [vm_compute; reflexivity|]).
  destruct ex_facts as (I & _). pose proof (category_exact ex_ds false ex_st 1%nat (Some 4608) I) as (H & _).
  replace (dealloc_cat ex_ds false ex_st 1 (Some 4608)) with CMismatch in H by (vm_compute; reflexivity). exact H.
Qed.

Example user_writes_silent_ex :
  let ws := [(4608, [1;2;3;4;5]); (4612, [66])] in
  dealloc_cat ex_ds false (with_mem ex_st (apply_writes (s_mem ex_st) ws)) 0 (Some 4608) = CNone.
Proof.
  destruct ex_facts as (I & SO & Hin & _). intros ws.
  assert (UW : Forall (fun w => user_write (flat (s_tbl ex_st)) (fst w) (snd w)) ws).
  { repeat constructor; exists ex_node; (split; [exact Hin|]); cbn; lia. }
  destruct (user_writes_silent ex_ds false ex_st ws 0%nat (Some 4608) I SO UW) as (H & _).
  rewrite H. vm_compute. reflexivity.
Qed.

Example every_guard_byte_ex :
  all_paths ex_ds false (with_mem ex_st (mwrite (s_mem ex_st) (4608 + 5 + N.of_nat 2) [82])) 0 (Some 4608) CCorrupt.
Proof.
  destruct ex_facts as (I & SO & Hin & _).
  assert (Hv : 82 <> pat 2) by (vm_compute; discriminate).
  assert (Hi : (2 < G)%nat) by (vm_compute; lia).
  destruct (every_guard_byte ex_ds false ex_st ex_node 0%nat 2%nat 82 I SO Hin Hi Hv) as [H _].
  apply H. intros [_ Hd]. apply Hd. vm_compute. reflexivity.
Qed.

Example paired_silent_ex :
  let st1 := d_store ex_st 9216 3 1 in
  all_paths ex_ds true (with_mem st1 (apply_writes (s_mem st1) [(9217, [0; 0])])) 1 (Some 9216) CNone.
Proof.
  destruct ex_facts as (I & SO & _ & _).
  apply (paired_silent ex_ds true ex_st 9216 3 1%nat 1%nat [(9217, [0; 0])] I SO).
  - unfold outstanding. vm_compute. intros [H|[]]. discriminate H.
  - reflexivity.
  - vm_compute. discriminate.
  - repeat constructor; cbn; lia.
  - reflexivity.
Qed.

Example poison_before_free_ex :
  exists st' x, step ex_ds false ex_st (OpFree ENew 1 (Some 4608)) = (st', Some x) /\
                o_cat x = 2 /\ o_freed x = [(4608, Some (repeat poison 5))].
Proof.
  destruct ex_facts as (I & _ & _ & E).
  destruct (free_some ex_ds false ex_st ENew 1%nat (Some 4608)) as (st' & x & Hs). exists st', x. split; [exact Hs|].
  destruct (poison_before_free ex_ds false ex_st ENew 1%nat 4608 ex_node x st' I eq_refl E Hs) as [_ H].
  split; [|apply H; right; reflexivity].
  vm_compute in Hs. inversion Hs. reflexivity.
Qed.

Example block_removed_ex :
  forall st' c fr, d_dealloc ex_ds true ex_st 1 (Some 4608) = (st', c, fr) ->
    c = CMismatch /\ fr = [] /\ total_of ex_st = 1 /\ total_of st' = 0 /\ dealloc_cat ex_ds true st' 0 (Some 4608) = CNonAlloc.
Proof.
  intros st' c fr Hd. destruct ex_facts as (I & _ & Hin & _).
  assert (O : outstanding ex_st 4608) by (unfold outstanding; apply (in_map n_addr _ _ Hin)).
  destruct (block_removed_after_report ex_ds true ex_st 1%nat 4608 I O st' c fr Hd) as (_ & _ & T & _ & N2).
  assert (T1 : total_of ex_st = 1) by (vm_compute; reflexivity).
  split; [|split; [|split; [exact T1|split; [rewrite T1 in T; lia|apply N2]]]].
  - vm_compute in Hd. inversion Hd. reflexivity.
  - vm_compute in Hd. inversion Hd. reflexivity.
Qed.

(* a scenario with all four outcomes, a wrapper on either side, realloc, a stale and an interior address *)
Definition ex_scn : scenario :=
  mkS false ex_ds
    [OpAlloc ENew 2 4608 5; OpWrite 4608 [9;9;9;9;9]; OpFree ENew 0 (Some 4608);            (* silent: wrapper transparent *)
     OpFree ENew 0 (Some 4608);                                                           (* stale: non-allocated *)
     OpAlloc EString 3 9216 4; OpFree ENewArr 1 (Some 9216);                              (* mismatch *)
     OpAlloc EMalloc 1 13824 0; OpWrite 13824 [7]; OpRealloc 1 (Some 13824) 18432 8;      (* corruption seen by realloc *)
     OpPeriod PDisable; OpFree EMalloc 1 (Some 18505); OpTypeCheck false; OpStage true; OpFree ENew 0 (Some 18432); OpFree ENew 0 None].
Example run_meets_spec_ex :
  valid ex_scn = true /\ map o_cat (run ex_scn) = [0; 1; 2; 3; 1; 0; 0] /\ spec ex_scn (run ex_scn) = true.
Proof.
  assert (V : valid ex_scn = true) by (vm_compute; reflexivity).
  split; [exact V|]. split; [vm_compute; reflexivity|]. apply run_meets_spec. exact V.
Qed.

(* the same block, guard byte changed, allocated while the detector is disabled at stage 0 and released after startChecking at stage 1,
   against the same history with the detector left enabled throughout: same items; and a disabled-period release shows the poison *)
Definition ex_ops_a : list op :=
  [OpPeriod PDisable; OpAlloc ENewArr 1 4608 3; OpWrite 4608 [1;2;3]; OpPeriod PEnable; OpPeriod PStart; OpStage true; OpOverloads true;
   OpFree ENewArr 1 (Some 4608); OpPeriod PStop; OpAlloc (EDirect true) 0 9216 2; OpWrite 9219 [0]; OpPeriod PDisable; OpFree ENew 0 (Some 9216)].
Definition ex_ops_b : list op :=
  [OpPeriod PEnable; OpAlloc ENewArr 1 4608 3; OpWrite 4608 [1;2;3];
   OpFree ENewArr 1 (Some 4608); OpAlloc (EDirect true) 0 9216 2; OpWrite 9219 [0]; OpStage false; OpFree ENew 0 (Some 9216)].
Example period_independent_ex :
  erase_ops ex_ops_a = erase_ops ex_ops_b /\ ex_ops_a <> ex_ops_b /\
  run (mkS false ex_ds ex_ops_a) = run (mkS false ex_ds ex_ops_b) /\
  run (mkS false ex_ds ex_ops_a) = [mkO 0 0 [(4608, Some [poison; poison; poison])] 0 false; mkO 1 3 [(9216, Some [poison; poison])] 0 false].
Proof.
  assert (E : erase_ops ex_ops_a = erase_ops ex_ops_b) by reflexivity.
  split; [exact E|]. split; [discriminate|]. split; [|vm_compute; reflexivity].
  apply (proj1 (proj2 period_independent)); [reflexivity|reflexivity|exact E].
Qed.
Example release_in_any_period_ex :
  run_from ex_ds true d_init ([OpPeriod PStart; OpStage true; OpAlloc EMalloc 1 4608 1] ++ [OpWrite 4608 [7]] ++ [OpPeriod PDisable; OpStage false; OpFree ENew 0 (Some 4608)]) =
  [mkO 1 2 [] 0 false].
Proof.
  pose proof (release_in_any_period ex_ds true d_init EMalloc 1%nat 4608 1 [(4608, [7])] ENew 0%nat (Some 4608) PStart true PDisable false) as H.
  cbv zeta in H. cbn [map fst snd] in H. rewrite H.
  vm_compute. reflexivity.
Qed.
