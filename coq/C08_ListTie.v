(* C08: the TRANSLATED MockExpectedCallsList (gen/Gen_HeapC08L.v; theorems about it alone: C08_ListRep.v) composed with the
   hand-written model of property C08 (C08_Model.v).

   In the model the master list of a mock is `es : list expn` and the CANDIDATE list of the call in progress
   (MockCheckedActualCall::potentiallyMatchingExpectations_, a MockExpectedCallsList sharing the expectation objects with the
   master list) is the flag e_pot on the master list.  Here: a heap list REPRESENTS the candidates of es when it holds, in master
   order, the identities idof k of the positions k with e_pot (rep_of e_pot = cand_rep); the master list itself is rep_of
   (fun _ => true) = master_rep.  An oracle stream is "the one the model's expectations would give" for a question with model
   predicate pred when it starts with model_answers pred es = the values b2z (pred e) of the members, in list order.
   Then each list function of the heap does what the model's list operation says: onlyKeep...  ~ keep_if / only_keep_unmatching,
   isEmpty ~ pot_empty, getFirstMatchingExpectation ~ first_pot, removeFirst... ~ take_first, amountOfActualCallsFulfilledFor
   (master list) ~ fulfilled_for, addPotentiallyMatchingExpectations (master -> empty candidate list) ~ create, the tell-loops
   ~ for_pot, the has... questions ~ the existsb conditions of check_call / check_expectations.
   The model carries more than the heap (the expectation's own fields); what is related is membership and order of the list,
   the value returned, and WHICH expectations are asked / told / removed. *)
From Coq Require Import String.
From Coq Require Import ZArith NArith Bool List Lia.
From CppUVerif Require Import lib.CSem lib.CMem lib.CHeap gen.Gen_HeapC08L C08_Model C08_ListRep.
Import ListNotations.
Local Open Scope Z_scope.

(* ================================================================== 0. which heap list represents which model list *)
(* the positions (counted from k) of the expectations satisfying f, in order *)
Fixpoint pos_from (f : expn -> bool) (k : nat) (es : list expn) : list nat :=
  match es with [] => [] | e :: r => if f e then k :: pos_from f (S k) r else pos_from f (S k) r end.
(* the position of the first one *)
Fixpoint find_pos (f : expn -> bool) (k : nat) (es : list expn) : option nat :=
  match es with [] => None | e :: r => if f e then Some k else find_pos f (S k) r end.

(* the identity of the expectation object at position i of the master list: non-zero, injective *)
Definition idof_ok (idof : nat -> Z) (n : nat) : Prop :=
  (forall i, (i < n)%nat -> idof i <> 0) /\ (forall i j, (i < n)%nat -> (j < n)%nat -> idof i = idof j -> i = j).
(* the list object lb (nodes `nodes`) holds the members (by `mem`) of es, in master order *)
Definition rep_of (mem : expn -> bool) (h : heap) (lb : nat) (es : list expn) (idof : nat -> Z) (nodes : list nat) : Prop :=
  mlist_at h lb (map idof (pos_from mem 0 es)) nodes /\ idof_ok idof (length es).
Definition cand_rep := rep_of e_pot.                    (* potentiallyMatchingExpectations_ of the call in progress *)
Definition master_rep := rep_of (fun _ => true).        (* expectations_ of the mock *)
(* the answers the members give to a question whose model predicate is pred *)
Definition model_answers_of (mem pred : expn -> bool) (es : list expn) : list Z := map (fun e => b2z (pred e)) (filter mem es).
Notation model_answers := (model_answers_of e_pot).

Lemma pos_from_length f : forall es k, length (pos_from f k es) = length (filter f es).
Proof. induction es as [|e r IH]; intro k; cbn; [reflexivity|]. destruct (f e); cbn; rewrite IH; reflexivity. Qed.
Lemma pos_from_all : forall es k, pos_from (fun _ => true) k es = seq k (length es).
Proof. induction es as [|e r IH]; intro k; cbn; [reflexivity|]. rewrite IH. reflexivity. Qed.
Lemma pos_from_in f : forall es k j, In j (pos_from f k es) <-> exists e, (k <= j)%nat /\ nth_error es (j - k) = Some e /\ f e = true.
Proof.
  induction es as [|e r IH]; intros k j; cbn [pos_from].
  - split; [intros [] | intros [e [_ [H _]]]]. destruct (j - k)%nat; discriminate H.
  - assert (Hr : In j (pos_from f (S k) r) <-> exists e', (k <= j)%nat /\ nth_error (e :: r) (j - k) = Some e' /\ f e' = true /\ j <> k).
    { rewrite IH. split.
      - intros [e' [L [Hn Hf]]]. exists e'. split; [lia|]. split; [|split; [exact Hf | lia]].
        replace (j - k)%nat with (S (j - S k)) by lia. exact Hn.
      - intros [e' [L [Hn [Hf Hne]]]]. exists e'. split; [lia|]. split; [|exact Hf].
        replace (j - k)%nat with (S (j - S k)) in Hn by lia. exact Hn. }
    destruct (f e) eqn:E.
    + split.
      * intros [<-|Hin]; [exists e; split; [lia|]; rewrite Nat.sub_diag; split; [reflexivity | exact E]|].
        apply Hr in Hin. destruct Hin as [e' [L [Hn [Hf _]]]]. exists e'. repeat split; assumption.
      * intros [e' [L [Hn Hf]]]. destruct (Nat.eq_dec j k) as [->|Hne]; [left; reflexivity|]. right. apply Hr. exists e'. repeat split; assumption.
    + rewrite Hr. split.
      * intros [e' [L [Hn [Hf _]]]]. exists e'. repeat split; assumption.
      * intros [e' [L [Hn Hf]]]. exists e'. repeat split; try assumption. intro Ej. subst j. rewrite Nat.sub_diag in Hn. cbn in Hn.
        inversion Hn; subst e'. congruence.
Qed.
(* first_pot (the member removeFirst... / getFirst... finds) is the expectation at the first position with e_pot && pred *)
Lemma find_pos_find f : forall es k,
  match find_pos f k es with Some j => (k <= j)%nat /\ nth_error es (j - k) = find f es | None => find f es = None end.
Proof.
  induction es as [|e r IH]; intro k; cbn; [reflexivity|]. destruct (f e).
  - split; [lia|]. rewrite Nat.sub_diag. reflexivity.
  - specialize (IH (S k)). destruct (find_pos f (S k) r) as [j|]; [|exact IH]. destruct IH as [L Hn]. split; [lia|].
    replace (j - k)%nat with (S (j - S k)) by lia. exact Hn.
Qed.
Lemma first_pot_pos pred es : first_pot pred es =
  match find_pos (fun e => e_pot e && pred e) 0 es with Some j => nth_error es j | None => None end.
Proof.
  unfold first_pot. pose proof (find_pos_find (fun e => e_pot e && pred e) es 0) as H.
  destruct (find_pos _ 0 es) as [j|]; [|exact H]. destruct H as [_ H]. rewrite Nat.sub_0_r in H. symmetry. exact H.
Qed.

Lemma z2b_b2z_negb b : drops_zero (b2z b) = negb b. Proof. destruct b; reflexivity. Qed.
Lemma keep_by_app_flags {A} : forall (xs : list A) ds ds', (length xs <= length ds)%nat -> keep_by xs (ds ++ ds') = keep_by xs ds.
Proof.
  induction xs as [|x xs IH]; intros [|d ds] ds' L; cbn in *; try reflexivity; try lia. rewrite IH by lia. reflexivity.
Qed.
Lemma drop_by_app_flags {A} : forall (xs : list A) ds ds', (length xs <= length ds)%nat -> drop_by xs (ds ++ ds') = drop_by xs ds.
Proof.
  induction xs as [|x xs IH]; intros [|d ds] ds' L; cbn in *; try reflexivity; try lia. rewrite IH by lia. reflexivity.
Qed.
Lemma zipw_app_r {A B C} (f : A -> B -> C) : forall l m r, (length l <= length m)%nat -> zipw f l (m ++ r) = zipw f l m.
Proof. induction l as [|x l IH]; intros [|y m] r L; cbn in *; try reflexivity; try lia. rewrite IH by lia. reflexivity. Qed.
Lemma skipn_app_exact {A} (a r : list A) n : n = length a -> skipn n (a ++ r) = r.
Proof. intros ->. rewrite skipn_app, skipn_all, Nat.sub_diag. reflexivity. Qed.
Lemma model_answers_length mem pred es : length (model_answers_of mem pred es) = length (filter mem es).
Proof. unfold model_answers_of. apply map_length. Qed.

(* ================================================================== 1. onlyKeep... ~ keep_if / only_keep_unmatching *)
Lemma keep_if_cons pred e r : keep_if pred (e :: r) = (if e_pot e && negb (pred e) then drop e else e) :: keep_if pred r.
Proof. reflexivity. Qed.
Lemma keep_if_length pred es : length (keep_if pred es) = length es. Proof. apply map_length. Qed.
(* the candidates after keep_if: the candidates whose model answer is yes *)
Lemma pos_keep_if pred : forall es k,
  pos_from e_pot k (keep_if pred es) = keep_by (pos_from e_pot k es) (map drops_zero (model_answers pred es)).
Proof.
  induction es as [|e r IH]; intro k; [reflexivity|]. rewrite keep_if_cons. unfold model_answers_of in *.
  cbn [pos_from filter]. destruct (e_pot e) eqn:Ep.
  - cbn [andb map keep_by]. rewrite z2b_b2z_negb. destruct (pred e); cbn [negb].
    + rewrite Ep. rewrite IH. reflexivity.
    + change (e_pot (drop e)) with false. cbv iota. apply IH.
  - cbn [andb]. rewrite Ep. apply IH.
Qed.
Lemma only_keep_unmatching_cons e r :
  only_keep_unmatching (e :: r) = (if e_pot e && is_matching_fin e then drop (reset_e e) else e) :: only_keep_unmatching r.
Proof. reflexivity. Qed.
Lemma pos_only_keep_unmatching : forall es k,
  pos_from e_pot k (only_keep_unmatching es) = keep_by (pos_from e_pot k es) (map z2b (model_answers is_matching_fin es)).
Proof.
  induction es as [|e r IH]; intro k; [reflexivity|]. rewrite only_keep_unmatching_cons. unfold model_answers_of in *.
  cbn [pos_from filter]. destruct (e_pot e) eqn:Ep.
  - cbn [andb map keep_by]. rewrite b2z_z2b. destruct (is_matching_fin e).
    + change (e_pot (drop (reset_e e))) with false. cbv iota. apply IH.
    + rewrite Ep. rewrite IH. reflexivity.
  - cbn [andb]. rewrite Ep. apply IH.
Qed.
(* the candidates a pass drops: the candidates satisfying the drop condition *)
Lemma pos_dropped (q : expn -> bool) (dropf : Z -> bool) (pred : expn -> bool) : (forall e, dropf (b2z (pred e)) = q e) -> forall es k,
  drop_by (pos_from e_pot k es) (map dropf (model_answers pred es)) = pos_from (fun e => e_pot e && q e) k es.
Proof.
  intros Hq. induction es as [|e r IH]; intro k; [reflexivity|]. unfold model_answers_of in *.
  cbn [pos_from filter]. destruct (e_pot e) eqn:Ep; cbn [andb]; [|apply IH].
  cbn [map drop_by]. rewrite Hq. destruct (q e); rewrite IH; reflexivity.
Qed.

(* an onlyKeep... function (drop flags dropf) against a model pass `after` that leaves, of the candidates, those whose model
   answer does not raise the flag *)
Lemma only_keep_model : forall run ask dropf (pred : expn -> bool) (after : list expn -> list expn),
  only_keep_ok run ask dropf ->
  (forall es, length (after es) = length es) ->
  (forall es k, pos_from e_pot k (after es) = keep_by (pos_from e_pot k es) (map dropf (model_answers pred es))) ->
  forall fuel h lb es idof nodes evs rest, cand_rep h lb es idof nodes -> (length (filter e_pot es) < fuel)%nat ->
  exists h',
    run fuel h evs (model_answers pred es ++ rest) (HPtr lb 0) =
      FOk (tt, h',
           evs ++ ask (map idof (pos_from e_pot 0 es)) (model_answers pred es ++ rest) ++
             map (fun b => LDelete (HPtr b 0)) (drop_by nodes (map dropf (model_answers pred es))),
           rest) /\
    cand_rep h' lb (after es) idof (keep_by nodes (map dropf (model_answers pred es))) /\
    length h' = length h /\
    (forall b, b <> lb -> ~ In b nodes -> hblock h' b = hblock h b).
Proof.
  intros run ask dropf pred after Hok Hlen Hpos fuel h lb es idof nodes evs rest [Hrep Hid] Hf.
  pose proof (model_answers_length e_pot pred es) as Hla. fold (model_answers pred es) in Hla.
  assert (Hli : length (map idof (pos_from e_pot 0 es)) = length (model_answers pred es))
    by (rewrite map_length, pos_from_length, Hla; reflexivity).
  assert (Hln : length nodes = length (model_answers pred es)).
  { destruct Hrep as [[hd [_ [Hc _]]] _]. rewrite (mchain_length _ _ _ _ Hc). exact Hli. }
  assert (Hf' : (length (map idof (pos_from e_pot 0 es)) < fuel)%nat) by (rewrite Hli, Hla; exact Hf).
  destruct (Hok fuel h lb _ nodes evs (model_answers pred es ++ rest) Hrep Hf') as [H1 _].
  assert (Hle : (length (map idof (pos_from e_pot 0 es)) <= length (model_answers pred es ++ rest))%nat) by (rewrite app_length; lia).
  destruct (H1 Hle) as [h' [Hrun [Hrep' [Hlen' Hfr]]]].
  rewrite map_app in Hrun, Hrep'.
  rewrite (drop_by_app_flags nodes) in Hrun by (rewrite (map_length dropf); lia).
  rewrite (keep_by_app_flags nodes), (keep_by_app_flags (map idof _)) in Hrep' by (rewrite (map_length dropf); lia).
  rewrite (skipn_app_exact _ rest _ Hli) in Hrun.
  exists h'. split; [exact Hrun|]. split; [|split; [exact Hlen' | exact Hfr]].
  split; [|rewrite Hlen; exact Hid]. rewrite Hpos, <- keep_by_map. exact Hrep'.
Qed.

(* THEOREM 6a.  The seven onlyKeep... functions that keep the expectations answering yes, on a heap representing the candidates
   of es and an answer stream that starts with the model's answers for pred: the heap then represents the candidates of
   keep_if pred es, and exactly length (filter e_pot es) answers are consumed *)
Definition keeps_like (run : nat -> heap -> list lev -> list Z -> hptr -> fres (unit * heap * list lev * list Z))
                      (mk : Z -> Z -> lev) (pred : expn -> bool) : Prop :=
  forall fuel h lb es idof nodes evs rest, cand_rep h lb es idof nodes -> (length (filter e_pot es) < fuel)%nat ->
  exists h',
    run fuel h evs (model_answers pred es ++ rest) (HPtr lb 0) =
      FOk (tt, h',
           evs ++ zipw mk (map idof (pos_from e_pot 0 es)) (model_answers pred es) ++
             map (fun b => LDelete (HPtr b 0)) (drop_by nodes (map drops_zero (model_answers pred es))),
           rest) /\
    cand_rep h' lb (keep_if pred es) idof (keep_by nodes (map drops_zero (model_answers pred es))) /\
    length h' = length h /\
    (forall b, b <> lb -> ~ In b nodes -> hblock h' b = hblock h b).
Lemma keeps_like_intro run mk pred : only_keep_ok run (zipw mk) drops_zero -> keeps_like run mk pred.
Proof.
  intros Hok fuel h lb es idof nodes evs rest Hrep Hf.
  destruct (only_keep_model run (zipw mk) drops_zero pred (keep_if pred) Hok (keep_if_length pred) (pos_keep_if pred)
              fuel h lb es idof nodes evs rest Hrep Hf) as [h' [Hrun H]].
  exists h'. split; [|exact H]. rewrite Hrun. rewrite zipw_app_r; [reflexivity|].
  rewrite map_length, pos_from_length. pose proof (model_answers_length e_pot pred es) as E. fold (model_answers pred es) in E. lia.
Qed.
(* f : the function name of the model, nm : the opaque identity of that SimpleString in the heap world *)
Theorem onlyKeepExpectationsRelatedTo_model nm f :
  keeps_like (fun fuel h evs answers this_ => src_mlist_onlyKeepExpectationsRelatedTo fuel h evs answers this_ nm)
             (fun id a => LAskArg "relatesTo" id nm a) (relates f).
Proof. apply keeps_like_intro. apply onlyKeepExpectationsRelatedTo_spec. Qed.
Theorem onlyKeepExpectationsWithInputParameter_model pm n v :
  keeps_like (fun fuel h evs answers this_ => src_mlist_onlyKeepExpectationsWithInputParameter fuel h evs answers this_ pm)
             (fun id a => LAskArg "hasInputParameter" id pm a) (has_input n v).
Proof. apply keeps_like_intro. apply onlyKeepExpectationsWithInputParameter_spec. Qed.
Theorem onlyKeepExpectationsWithOutputParameter_model pm n :
  keeps_like (fun fuel h evs answers this_ => src_mlist_onlyKeepExpectationsWithOutputParameter fuel h evs answers this_ pm)
             (fun id a => LAskArg "hasOutputParameter" id pm a) (has_output n).
Proof. apply keeps_like_intro. apply onlyKeepExpectationsWithOutputParameter_spec. Qed.
Theorem onlyKeepExpectationsOnObject_model ob a :
  keeps_like (fun fuel h evs answers this_ => src_mlist_onlyKeepExpectationsOnObject fuel h evs answers this_ ob)
             (fun id x => LAskArg "relatesToObject" id ob x) (relates_obj a).
Proof. apply keeps_like_intro. apply onlyKeepExpectationsOnObject_spec. Qed.
Theorem onlyKeepExpectationsWithInputParameterName_model nm n :
  keeps_like (fun fuel h evs answers this_ => src_mlist_onlyKeepExpectationsWithInputParameterName fuel h evs answers this_ nm)
             (fun id a => LAskArg "hasInputParameterWithName" id nm a) (has_input_name n).
Proof. apply keeps_like_intro. apply onlyKeepExpectationsWithInputParameterName_spec. Qed.
Theorem onlyKeepExpectationsWithOutputParameterName_model nm n :
  keeps_like (fun fuel h evs answers this_ => src_mlist_onlyKeepExpectationsWithOutputParameterName fuel h evs answers this_ nm)
             (fun id a => LAskArg "hasOutputParameterWithName" id nm a) (has_output_name n).
Proof. apply keeps_like_intro. apply onlyKeepExpectationsWithOutputParameterName_spec. Qed.
Theorem onlyKeepOutOfOrderExpectations_model :
  keeps_like src_mlist_onlyKeepOutOfOrderExpectations (LAsk "isOutOfOrder") e_ooo.
Proof. apply keeps_like_intro. apply onlyKeepOutOfOrderExpectations_spec. Qed.

(* THEOREM 6b.  onlyKeepUnmatchingExpectations ~ only_keep_unmatching: the candidates answering yes to is_matching_fin leave
   the list; the expectations told resetActualCallMatchingState are exactly those (the ones the model applies reset_e to) *)
Theorem onlyKeepUnmatchingExpectations_model : forall fuel h lb es idof nodes evs rest,
  cand_rep h lb es idof nodes -> (length (filter e_pot es) < fuel)%nat ->
  exists h',
    src_mlist_onlyKeepUnmatchingExpectations fuel h evs (model_answers is_matching_fin es ++ rest) (HPtr lb 0) =
      FOk (tt, h',
           evs ++ unm_events (map idof (pos_from e_pot 0 es)) (model_answers is_matching_fin es ++ rest) ++
             map (fun b => LDelete (HPtr b 0)) (drop_by nodes (map z2b (model_answers is_matching_fin es))),
           rest) /\
    cand_rep h' lb (only_keep_unmatching es) idof (keep_by nodes (map z2b (model_answers is_matching_fin es))) /\
    length h' = length h /\
    (forall b, b <> lb -> ~ In b nodes -> hblock h' b = hblock h b) /\
    filter is_tell (unm_events (map idof (pos_from e_pot 0 es)) (model_answers is_matching_fin es ++ rest)) =
      map (fun k => LTell "resetActualCallMatchingState" (idof k)) (pos_from (fun e => e_pot e && is_matching_fin e) 0 es).
Proof.
  intros fuel h lb es idof nodes evs rest Hrep Hf.
  destruct (only_keep_model src_mlist_onlyKeepUnmatchingExpectations unm_events z2b is_matching_fin only_keep_unmatching
              onlyKeepUnmatchingExpectations_spec ltac:(intro; apply map_length) pos_only_keep_unmatching
              fuel h lb es idof nodes evs rest Hrep Hf) as [h' [Hrun [Hrep' [Hlen Hfr]]]].
  exists h'. split; [exact Hrun|]. split; [exact Hrep'|]. split; [exact Hlen|]. split; [exact Hfr|].
  rewrite unm_events_tells, map_app.
  rewrite drop_by_app_flags.
  - rewrite drop_by_map, (pos_dropped (fun e => is_matching_fin e) z2b is_matching_fin) by (intro e; apply b2z_z2b).
    rewrite map_map. reflexivity.
  - rewrite !map_length, pos_from_length. pose proof (model_answers_length e_pot is_matching_fin es) as E.
    fold (model_answers is_matching_fin es) in E. lia.
Qed.

(* ================================================================== 2. isEmpty ~ pot_empty *)
Lemma pos_from_nil_iff f : forall es k, match pos_from f k es with [] => true | _ => false end = negb (existsb f es).
Proof. induction es as [|e r IH]; intro k; cbn; [reflexivity|]. destruct (f e); [reflexivity | apply IH]. Qed.
Theorem isEmpty_model : forall fuel h lb es idof nodes evs answers, cand_rep h lb es idof nodes ->
  src_mlist_isEmpty fuel h evs answers (HPtr lb 0) = FOk (b2z (pot_empty es), h, evs, answers).
Proof.
  intros fuel h lb es idof nodes evs answers [[Hrep _] _]. rewrite (isEmpty_spec fuel h lb _ nodes evs answers Hrep).
  unfold pot_empty. rewrite <- (pos_from_nil_iff e_pot es 0). destruct (pos_from e_pot 0 es); reflexivity.
Qed.

(* ================================================================== 3. getFirstMatchingExpectation ~ first_pot; removeFirst... ~ take_first *)
(* the walk over the candidates with the model's answers: the first yes is at the first position with e_pot && pred *)
Lemma search_model (pred : expn -> bool) idof rest : forall es k,
  existsb yes (asked yes (map idof (pos_from e_pot k es)) (model_answers pred es ++ rest)) =
    (match find_pos (fun e => e_pot e && pred e) k es with Some _ => true | None => false end) /\
  first_id yes (map idof (pos_from e_pot k es)) (model_answers pred es ++ rest) =
    (match find_pos (fun e => e_pot e && pred e) k es with Some j => idof j | None => 0 end) /\
  asked yes (map idof (pos_from e_pot k es)) (model_answers pred es ++ rest) =
    asked yes (map idof (pos_from e_pot k es)) (model_answers pred es).
Proof.
  induction es as [|e r IH]; intro k.
  - cbn. split; [reflexivity|]. split; reflexivity.
  - unfold model_answers_of in *. cbn [pos_from filter find_pos]. destruct (e_pot e) eqn:Ep; cbn [andb]; [|apply IH].
    cbn [map app asked first_id]. unfold yes at 1 4 6 7. rewrite b2z_z2b. destruct (pred e) eqn:Epr.
    + cbn [existsb]. unfold yes at 1. cbn. split; [reflexivity|]. split; reflexivity.
    + destruct (IH (S k)) as [H1 [H2 H3]]. cbn [existsb]. unfold yes at 1. cbn [b2z z2b Z.eqb negb orb].
      split; [exact H1|]. split; [exact H2|]. f_equal. exact H3.
Qed.

(* THEOREM 6c.  getFirstMatchingExpectation on the candidates with the model's answers for is_matching returns the identity of the
   expectation first_pot is_matching finds (0 = NULL when it finds none); heap untouched; the candidates after the one found are
   not asked (their answers stay in the stream) *)
Theorem getFirstMatchingExpectation_model : forall fuel h lb es idof nodes evs rest,
  cand_rep h lb es idof nodes -> (length (filter e_pot es) < fuel)%nat ->
  let asks := asked yes (map idof (pos_from e_pot 0 es)) (model_answers is_matching es) in
  src_mlist_getFirstMatchingExpectation fuel h evs (model_answers is_matching es ++ rest) (HPtr lb 0) =
    FOk (match find_pos (fun e => e_pot e && is_matching e) 0 es with Some j => idof j | None => 0 end, h,
         evs ++ zipw (LAsk "isMatchingActualCall") (map idof (pos_from e_pot 0 es)) asks,
         skipn (length asks) (model_answers is_matching es ++ rest)) /\
  first_pot is_matching es = match find_pos (fun e => e_pot e && is_matching e) 0 es with Some j => nth_error es j | None => None end.
Proof.
  intros fuel h lb es idof nodes evs rest [[Hrep _] _] Hf asks. split; [|apply first_pot_pos].
  destruct (search_model is_matching idof rest es 0) as [_ [H2 H3]].
  assert (Hl : length (map idof (pos_from e_pot 0 es)) = length (model_answers is_matching es)).
  { rewrite map_length, pos_from_length. symmetry. apply (model_answers_length e_pot is_matching es). }
  destruct (getFirstMatchingExpectation_spec fuel h lb _ nodes evs (model_answers is_matching es ++ rest) Hrep) as [H _].
  { rewrite Hl. rewrite (model_answers_length e_pot is_matching es). exact Hf. }
  rewrite H by (right; rewrite app_length; lia). rewrite H2, H3. reflexivity.
Qed.

(* take_first on the model side *)
Lemma take_first_pos (pred : expn -> bool) (g : expn -> expn) rest : (forall e, e_pot (g e) = e_pot e) -> forall es k,
  match take_first pred g es with
  | Some es' =>
      length es' = length es /\
      pos_from e_pot k es' = keep_by (pos_from e_pot k es) (first_flag yes (model_answers pred es ++ rest)) /\
      exists j e, find_pos (fun e => e_pot e && pred e) k es = Some j /\ nth_error es (j - k) = Some e /\
                  nth_error es' (j - k) = Some (g (set_cur (drop e) true))
  | None => find_pos (fun e => e_pot e && pred e) k es = None
  end.
Proof.
  intros Hg. induction es as [|e r IH]; intro k; [reflexivity|]. unfold model_answers_of in *.
  cbn [take_first find_pos pos_from filter]. destruct (e_pot e) eqn:Ep; cbn [andb].
  - destruct (pred e) eqn:Epr.
    + split; [reflexivity|]. split.
      * cbn [pos_from map app first_flag]. rewrite Epr, Hg. change (e_pot (set_cur (drop e) true)) with false. cbv iota.
        change (yes (b2z true)) with true. cbv iota. cbn [keep_by]. rewrite keep_by_nil_r. reflexivity.
      * exists k, e. rewrite Nat.sub_diag. repeat split; reflexivity.
    + specialize (IH (S k)). destruct (take_first pred g r) as [r'|]; [|exact IH].
      destruct IH as [Hl [Hp [j [e' [Hf [Hn Hn']]]]]]. split; [cbn [length]; rewrite Hl; reflexivity|]. split.
      * cbn [pos_from map app first_flag]. rewrite Epr, Ep. change (yes (b2z false)) with false. cbv iota. cbn [keep_by]. rewrite Hp. reflexivity.
      * exists j, e'. split; [exact Hf|]. pose proof (find_pos_find (fun e => e_pot e && pred e) r (S k)) as Hj. rewrite Hf in Hj.
        destruct Hj as [Lj _]. replace (j - k)%nat with (S (j - S k)) by lia. split; assumption.
  - specialize (IH (S k)). destruct (take_first pred g r) as [r'|]; [|exact IH].
    destruct IH as [Hl [Hp [j [e' [Hf [Hn Hn']]]]]]. split; [cbn [length]; rewrite Hl; reflexivity|]. split.
    + cbn [pos_from]. rewrite Ep. exact Hp.
    + exists j, e'. split; [exact Hf|]. pose proof (find_pos_find (fun e => e_pot e && pred e) r (S k)) as Hj. rewrite Hf in Hj.
      destruct Hj as [Lj _]. replace (j - k)%nat with (S (j - S k)) by lia. split; assumption.
Qed.

(* THEOREM 6d.  A removeFirst... function on the candidates with the model's answers for pred, against take_first pred g (g: what
   the caller then does to the expectation found; it must not touch e_pot):
   - take_first finds one (Some es'): the identity returned is the one of the position j that take_first marks e_cur, the heap
     represents the candidates of es' (one node less), one LDelete;
   - take_first finds none: 0 (NULL) is returned, heap and list unchanged. *)
Definition removes_like (run : nat -> heap -> list lev -> list Z -> hptr -> fres (Z * heap * list lev * list Z)) (q : string)
                        (pred : expn -> bool) : Prop :=
  forall (g : expn -> expn) fuel h lb es idof nodes evs rest, (forall e, e_pot (g e) = e_pot e) ->
  cand_rep h lb es idof nodes -> (length (filter e_pot es) < fuel)%nat ->
  let ids := map idof (pos_from e_pot 0 es) in
  let asks := asked yes ids (model_answers pred es) in
  let flags := first_flag yes (model_answers pred es ++ rest) in
  match take_first pred g es with
  | Some es' =>
      exists h' j e,
        find_pos (fun e => e_pot e && pred e) 0 es = Some j /\ nth_error es j = Some e /\
        nth_error es' j = Some (g (set_cur (drop e) true)) /\
        run fuel h evs (model_answers pred es ++ rest) (HPtr lb 0) =
          FOk (idof j, h', evs ++ zipw (LAsk q) ids asks ++ map (fun b => LDelete (HPtr b 0)) (drop_by nodes flags),
               skipn (length asks) (model_answers pred es ++ rest)) /\
        cand_rep h' lb es' idof (keep_by nodes flags) /\ length (drop_by nodes flags) = 1%nat /\
        length h' = length h /\ (forall b, b <> lb -> ~ In b nodes -> hblock h' b = hblock h b)
  | None =>
      run fuel h evs (model_answers pred es ++ rest) (HPtr lb 0) = FOk (0, h, evs ++ zipw (LAsk q) ids asks, rest)
  end.
(* without a yes every candidate is asked *)
Lemma asked_all_model (pred : expn -> bool) idof : forall es k, find_pos (fun e => e_pot e && pred e) k es = None ->
  length (asked yes (map idof (pos_from e_pot k es)) (model_answers pred es)) = length (model_answers pred es).
Proof.
  induction es as [|e r IH]; intros k Ht; [reflexivity|]. unfold model_answers_of in *. cbn [find_pos pos_from filter] in *.
  destruct (e_pot e) eqn:Ep; cbn [andb] in *; [|exact (IH (S k) Ht)].
  destruct (pred e) eqn:Epr; [discriminate Ht|]. cbn [map asked]. rewrite Epr. change (yes (b2z false)) with false. cbv iota.
  cbn [length]. f_equal. exact (IH (S k) Ht).
Qed.
Lemma removes_like_intro run q pred : remove_first_ok run q -> removes_like run q pred.
Proof.
  intros Hok g fuel h lb es idof nodes evs rest Hg [Hrep Hid] Hf ids asks flags.
  pose proof (model_answers_length e_pot pred es) as Hla. fold (model_answers pred es) in Hla.
  assert (Hli : length ids = length (model_answers pred es)) by (unfold ids; rewrite map_length, pos_from_length, Hla; reflexivity).
  assert (Hf' : (length ids < fuel)%nat) by (rewrite Hli, Hla; exact Hf).
  destruct (search_model pred idof rest es 0) as [H1 [H2 H3]]. fold ids in H1, H2, H3. fold asks in H3.
  destruct (Hok fuel h lb ids nodes evs (model_answers pred es ++ rest) Hrep Hf') as [Kyes [Kno _]]. cbv zeta in Kyes, Kno.
  rewrite H1 in Kyes, Kno. rewrite H3 in Kyes, Kno. rewrite H2 in Kyes.
  pose proof (take_first_pos pred g rest Hg es 0) as Ht. destruct (take_first pred g es) as [es'|].
  - destruct Ht as [Hl [Hp [j [e [Hfj [Hn Hn']]]]]]. rewrite Nat.sub_0_r in Hn, Hn'. rewrite Hfj in Kyes.
    destruct (Kyes eq_refl) as [h' [Hrun [Hrep' [Hlen Hfr]]]].
    exists h', j, e. split; [exact Hfj|]. split; [exact Hn|]. split; [exact Hn'|]. split; [exact Hrun|].
    split; [split; [|rewrite Hl; exact Hid]; fold flags; rewrite Hp, <- keep_by_map; exact Hrep'|].
    split; [|split; [exact Hlen | exact Hfr]].
    destruct Hrep as [[hd [_ [Hc _]]] _].
    destruct (first_flag_one nat nodes ids (model_answers pred es ++ rest) (mchain_length _ _ _ _ Hc)) as [pre [x [post [_ [_ [_ Hd]]]]]].
    { rewrite H1, Hfj. reflexivity. }
    fold flags in Hd. rewrite Hd. reflexivity.
  - rewrite Ht in Kno. rewrite (Kno eq_refl) by (rewrite app_length; lia). f_equal. f_equal.
    (* without a yes every candidate was asked: the answers consumed are the model's *)
    assert (Hall : length asks = length (model_answers pred es)) by (apply asked_all_model; exact Ht).
    apply skipn_app_exact. exact Hall.
Qed.
(* completeCallWhenMatchIsFound: removeFirstFinalizedMatchingExpectation ~ take_first is_matching_fin (fun e => e);
   checkExpectations: removeFirstMatchingExpectation ~ take_first is_matching (fun e => call_was_made order (set_fin e true)) *)
Theorem removeFirstFinalizedMatchingExpectation_model :
  removes_like src_mlist_removeFirstFinalizedMatchingExpectation "isMatchingActualCallAndFinalized" is_matching_fin.
Proof. apply removes_like_intro. apply removeFirstFinalizedMatchingExpectation_spec. Qed.
Theorem removeFirstMatchingExpectation_model :
  removes_like src_mlist_removeFirstMatchingExpectation "isMatchingActualCall" is_matching.
Proof. apply removes_like_intro. apply removeFirstMatchingExpectation_spec. Qed.
(* the two g of the model leave e_pot alone *)
Lemma g_complete_pot : forall e : expn, e_pot ((fun e => e) e) = e_pot e. Proof. reflexivity. Qed.
Lemma g_check_pot order : forall e, e_pot (call_was_made order (set_fin e true)) = e_pot e. Proof. reflexivity. Qed.

(* ================================================================== 4. amountOfActualCallsFulfilledFor (master list) ~ fulfilled_for *)
(* the answers of the master list's expectations: relatesTo(f), and getActualCallsFulfilled of the ones that relate *)
Definition ful_answers (f : name) (es : list expn) : list Z :=
  flat_map (fun e => if relates f e then [1; Z.of_N (e_act e)] else [0]) es.
Fixpoint ful_events (nm : Z) (idof : nat -> Z) (f : name) (k : nat) (es : list expn) : list lev :=
  match es with
  | [] => []
  | e :: r => if relates f e
              then LAskArg "relatesTo" (idof k) nm 1 :: LAsk "getActualCallsFulfilled" (idof k) (Z.of_N (e_act e)) :: ful_events nm idof f (S k) r
              else LAskArg "relatesTo" (idof k) nm 0 :: ful_events nm idof f (S k) r
  end.
Lemma ful_run_model nm idof f rest : forall es k,
  ful_run nm (map idof (seq k (length es))) (ful_answers f es ++ rest) =
  Some (ful_events nm idof f k es, Z.of_N (fulfilled_for f es), rest).
Proof.
  induction es as [|e r IH]; intro k; [reflexivity|]. unfold ful_answers in *. cbn [length seq map flat_map ful_run ful_events fulfilled_for fold_right].
  fold (fulfilled_for f r). destruct (relates f e).
  - cbn [app]. change (z2b 1) with true. cbv iota. rewrite IH. rewrite N2Z.inj_add. reflexivity.
  - cbn [app]. change (z2b 0) with false. cbv iota. rewrite IH. reflexivity.
Qed.
(* THEOREM 6e.  amountOfActualCallsFulfilledFor(f) on the MASTER list (every expectation, not only the candidates), with the
   model's answers: fulfilled_for f es -- modulo 2^32 (the counter and actualCalls_ are unsigned int, the model's N is unbounded) *)
Theorem amountOfActualCallsFulfilledFor_model : forall fuel h lb es idof nodes evs rest nm f,
  master_rep h lb es idof nodes -> (length es < fuel)%nat ->
  src_mlist_amountOfActualCallsFulfilledFor fuel h evs (ful_answers f es ++ rest) (HPtr lb 0) nm =
    FOk (Z.of_N (fulfilled_for f es) mod 2 ^ 32, h, evs ++ ful_events nm idof f 0 es, rest).
Proof.
  intros fuel h lb es idof nodes evs rest nm f [[Hrep _] _] Hf. rewrite pos_from_all in Hrep.
  rewrite (amountOfActualCallsFulfilledFor_spec fuel h lb _ nodes evs _ nm Hrep) by (rewrite map_length, seq_length; exact Hf).
  rewrite ful_run_model. reflexivity.
Qed.
Corollary amountOfActualCallsFulfilledFor_model_small : forall fuel h lb es idof nodes evs rest nm f,
  master_rep h lb es idof nodes -> (length es < fuel)%nat -> (fulfilled_for f es < 2 ^ 32)%N ->
  src_mlist_amountOfActualCallsFulfilledFor fuel h evs (ful_answers f es ++ rest) (HPtr lb 0) nm =
    FOk (Z.of_N (fulfilled_for f es), h, evs ++ ful_events nm idof f 0 es, rest).
Proof.
  intros fuel h lb es idof nodes evs rest nm f Hrep Hf Hs.
  rewrite (amountOfActualCallsFulfilledFor_model fuel h lb es idof nodes evs rest nm f Hrep Hf).
  rewrite Z.mod_small; [reflexivity|]. split; [lia|]. change (2 ^ 32) with (Z.of_N (2 ^ 32)). lia.
Qed.

(* ================================================================== 5. addPotentiallyMatchingExpectations ~ create *)
Lemma create_cons fx e r : create fx (e :: r) =
  (let e := set_cur e false in if can_match e then set_pot (if fx then reset_e e else e) true else set_pot e false) :: create fx r.
Proof. reflexivity. Qed.
Lemma create_length fx es : length (create fx es) = length es. Proof. apply map_length. Qed.
(* the flag create sets: e_pot := canMatchActualCalls, for every expectation of the master list *)
Lemma pos_create fx : forall es k, pos_from e_pot k (create fx es) = pos_from can_match k es.
Proof.
  induction es as [|e r IH]; intro k; [reflexivity|]. rewrite create_cons. cbv zeta. cbn [pos_from].
  change (can_match (set_cur e false)) with (can_match e). destruct (can_match e).
  - destruct fx; cbn; rewrite IH; reflexivity.
  - cbn. apply IH.
Qed.
Lemma sel_create (idof : nat -> Z) rest : forall es k,
  sel (map idof (seq k (length es))) (model_answers_of (fun _ => true) can_match es ++ rest) = map idof (pos_from can_match k es).
Proof.
  induction es as [|e r IH]; intro k; [destruct rest; reflexivity|]. unfold model_answers_of in *. cbn [length seq map filter app sel pos_from].
  rewrite b2z_z2b. destruct (can_match e); cbn [map]; rewrite IH; reflexivity.
Qed.
Lemma add_events_app_r mk : forall ids n m r, (length ids <= length m)%nat -> add_events mk n ids (m ++ r) = add_events mk n ids m.
Proof.
  induction ids as [|x ids IH]; intros n [|a m] r L; cbn in *; try reflexivity; try lia. destruct (z2b a); rewrite IH by lia; reflexivity.
Qed.
(* THEOREM 6f.  The constructor of MockCheckedActualCall: addPotentiallyMatchingExpectations(master list) into the EMPTY candidate
   list, with the model's answers to canMatchActualCalls for the whole master list: the candidate list then represents the e_pot
   flags of `create fx es` (for either fx: create sets e_pot := can_match; what else create does is not the list's business:
   e_cur := false is `matchingExpectation_ = NULL` of the constructor, and for fx = true reset_e on the candidates is the
   resetActualCallMatchingState() call that follows -- see resetActualCallMatchingState_after_create); the master list is as it was *)
Theorem addPotentiallyMatchingExpectations_model : forall fx fuel h lb mlb es idof mnodes evs rest,
  two_lists h lb [] [] mlb (map idof (pos_from (fun _ => true) 0 es)) mnodes -> idof_ok idof (length es) -> (length es < fuel)%nat ->
  let ans := model_answers_of (fun _ => true) can_match es in
  exists h',
    src_mlist_addPotentiallyMatchingExpectations fuel h evs (ans ++ rest) (HPtr lb 0) (HPtr mlb 0) =
      FOk (tt, h', evs ++ add_events (LAsk "canMatchActualCalls") (length h) (map idof (seq 0 (length es))) ans, rest) /\
    cand_rep h' lb (create fx es) idof (seq (length h) (length (filter can_match es))) /\
    master_rep h' mlb (create fx es) idof mnodes /\
    length h' = (length h + length (filter can_match es))%nat /\
    (forall b, (b < length h)%nat -> b <> lb -> hblock h' b = hblock h b).
Proof.
  intros fx fuel h lb mlb es idof mnodes evs rest Htwo Hid Hf ans.
  assert (Hla : length ans = length es) by (unfold ans, model_answers_of; rewrite map_length; clear; induction es; cbn; congruence).
  assert (Hlm : length (map idof (pos_from (fun _ => true) 0 es)) = length es) by (rewrite pos_from_all, map_length, seq_length; reflexivity).
  destruct (addPotentiallyMatchingExpectations_spec fuel h lb [] [] mlb _ mnodes evs (ans ++ rest) Htwo) as [H1 _];
    [cbn [length]; rewrite Hlm; exact Hf|].
  destruct H1 as [h' [Hrun [Hrep [Hmrep [Hlen Hfr]]]]]; [rewrite Hlm, app_length; lia|].
  rewrite pos_from_all in Hrun, Hrep, Hmrep, Hlen. unfold ans in Hrun, Hrep, Hlen. rewrite sel_create in Hrep, Hlen.
  rewrite map_length, pos_from_length in Hrep, Hlen. cbn [app] in Hrep.
  exists h'. split.
  { unfold ans. rewrite Hrun. rewrite add_events_app_r by (rewrite map_length, seq_length; fold ans; lia).
    rewrite skipn_app_exact by (rewrite map_length, seq_length; fold ans; lia). reflexivity. }
  split; [split; [rewrite pos_create; exact Hrep | rewrite create_length; exact Hid]|].
  split; [split; [rewrite pos_from_all, create_length; exact Hmrep | rewrite create_length; exact Hid]|].
  split; [exact Hlen|]. intros b L Hne. apply Hfr; [exact L | exact Hne | intros []].
Qed.

(* ================================================================== 6. the tell-loops ~ for_pot *)
Lemma for_pot_pos (f : expn -> expn) : (forall e, e_pot (f e) = e_pot e) -> forall es k,
  pos_from e_pot k (for_pot f es) = pos_from e_pot k es.
Proof.
  intros Hf. induction es as [|e r IH]; intro k; [reflexivity|]. change (for_pot f (e :: r)) with ((if e_pot e then f e else e) :: for_pot f r).
  cbn [pos_from]. destruct (e_pot e) eqn:Ep; [rewrite Hf, Ep | rewrite Ep]; rewrite IH; reflexivity.
Qed.
(* for_pot f changes exactly the expectations at the positions pos_from e_pot 0 es *)
Lemma for_pot_nth (f : expn -> expn) es j :
  nth_error (for_pot f es) j = match nth_error es j with Some e => Some (if e_pot e then f e else e) | None => None end.
Proof. unfold for_pot. rewrite nth_error_map. destruct (nth_error es j); reflexivity. Qed.
Lemma cand_positions es j : In j (pos_from e_pot 0 es) <-> exists e, nth_error es j = Some e /\ e_pot e = true.
Proof.
  rewrite pos_from_in. rewrite Nat.sub_0_r. split; [intros [e [_ H]]; exists e; exact H | intros [e H]; exists e; split; [lia | exact H]].
Qed.
(* THEOREM 6g.  A tell-loop on the candidates tells exactly the expectations for_pot applies its function to, in master order;
   the heap still represents the candidates afterwards (for a function that leaves e_pot alone: reset_e, pass_obj, mark, mark_out) *)
Definition tells_like (run : nat -> heap -> list lev -> list Z -> hptr -> fres (unit * heap * list lev * list Z)) (mk : Z -> lev) : Prop :=
  forall (f : expn -> expn) fuel h lb es idof nodes evs answers, (forall e, e_pot (f e) = e_pot e) ->
  cand_rep h lb es idof nodes -> (length (filter e_pot es) < fuel)%nat ->
  run fuel h evs answers (HPtr lb 0) = FOk (tt, h, evs ++ map (fun k => mk (idof k)) (pos_from e_pot 0 es), answers) /\
  cand_rep h lb (for_pot f es) idof nodes.
Lemma tells_like_intro run mk : tell_ok run mk -> tells_like run mk.
Proof.
  intros Hok f fuel h lb es idof nodes evs answers Hf [Hrep Hid] Hl. split.
  - destruct Hrep as [Hrep0 _]. rewrite (Hok fuel h lb _ nodes evs answers Hrep0) by (rewrite map_length, pos_from_length; exact Hl).
    rewrite map_map. reflexivity.
  - split; [rewrite (for_pot_pos f Hf); exact Hrep|]. unfold for_pot. rewrite map_length. exact Hid.
Qed.
Theorem resetActualCallMatchingState_model : tells_like src_mlist_resetActualCallMatchingState (LTell "resetActualCallMatchingState").
Proof. apply tells_like_intro. apply resetActualCallMatchingState_spec. Qed.
Theorem wasPassedToObject_model : tells_like src_mlist_wasPassedToObject (LTell "wasPassedToObject").
Proof. apply tells_like_intro. apply wasPassedToObject_spec. Qed.
Theorem parameterWasPassed_model nm :
  tells_like (fun fuel h evs answers this_ => src_mlist_parameterWasPassed fuel h evs answers this_ nm)
             (fun id => LTellArg "inputParameterWasPassed" id nm).
Proof. apply tells_like_intro. apply parameterWasPassed_spec. Qed.
Theorem outputParameterWasPassed_model nm :
  tells_like (fun fuel h evs answers this_ => src_mlist_outputParameterWasPassed fuel h evs answers this_ nm)
             (fun id => LTellArg "outputParameterWasPassed" id nm).
Proof. apply tells_like_intro. apply outputParameterWasPassed_spec. Qed.
(* the four functions of the model these loops stand for leave e_pot alone *)
Lemma reset_e_pot e : e_pot (reset_e e) = e_pot e. Proof. reflexivity. Qed.
Lemma pass_obj_pot e : e_pot (pass_obj e) = e_pot e. Proof. reflexivity. Qed.
Lemma mark_pot n e : e_pot (mark n e) = e_pot e. Proof. reflexivity. Qed.
Lemma mark_out_pot n e : e_pot (mark_out n e) = e_pot e. Proof. reflexivity. Qed.
(* the second statement of the constructor (since the repair): potentiallyMatchingExpectations_.resetActualCallMatchingState()
   tells exactly the expectations `create true` applies reset_e to -- the ones with can_match *)
Corollary resetActualCallMatchingState_after_create : forall fx fuel h lb es idof nodes evs answers,
  cand_rep h lb (create fx es) idof nodes -> (length (filter can_match es) < fuel)%nat ->
  src_mlist_resetActualCallMatchingState fuel h evs answers (HPtr lb 0) =
    FOk (tt, h, evs ++ map (fun k => LTell "resetActualCallMatchingState" (idof k)) (pos_from can_match 0 es), answers).
Proof.
  intros fx fuel h lb es idof nodes evs answers Hrep Hf.
  destruct (resetActualCallMatchingState_model reset_e fuel h lb (create fx es) idof nodes evs answers reset_e_pot Hrep) as [H _].
  - rewrite <- pos_from_length with (k := 0%nat). rewrite pos_create, pos_from_length. exact Hf.
  - rewrite H, pos_create. reflexivity.
Qed.

(* ================================================================== 7. the has... questions ~ the existsb conditions of the model *)
Lemma has_search (t : Z -> bool) (mem q : expn -> bool) (ans : expn -> Z) (idof : nat -> Z) rest : (forall e, t (ans e) = q e) ->
  forall es k, existsb t (asked t (map idof (pos_from mem k es)) (map ans (filter mem es) ++ rest)) = existsb (fun e => mem e && q e) es.
Proof.
  intros Ht. induction es as [|e r IH]; intro k; [reflexivity|]. cbn [pos_from filter existsb]. destruct (mem e) eqn:Em; cbn [andb orb]; [|apply IH].
  cbn [map app asked]. rewrite Ht. destruct (q e) eqn:Eq; cbn [existsb]; rewrite Ht, Eq; [reflexivity|]. cbn [orb]. apply IH.
Qed.
(* a has... question (positive answers: t) on the list of the members (mem) of es, with the answers ans of the members: whether
   some member satisfies q, where q e = t (ans e) *)
Definition has_like (run : nat -> heap -> list lev -> list Z -> hptr -> fres (Z * heap * list lev * list Z)) (mk : Z -> Z -> lev)
                    (t : Z -> bool) (mem q : expn -> bool) (ans : expn -> Z) : Prop :=
  forall fuel h lb es idof nodes evs rest, rep_of mem h lb es idof nodes -> (length (filter mem es) < fuel)%nat ->
  let ids := map idof (pos_from mem 0 es) in
  let asks := asked t ids (map ans (filter mem es) ++ rest) in
  run fuel h evs (map ans (filter mem es) ++ rest) (HPtr lb 0) =
    FOk (b2z (existsb (fun e => mem e && q e) es), h, evs ++ zipw mk ids asks, skipn (length asks) (map ans (filter mem es) ++ rest)).
Lemma has_like_intro run mk t mem q ans : has_ok run mk t -> (forall e, t (ans e) = q e) -> has_like run mk t mem q ans.
Proof.
  intros Hok Ht fuel h lb es idof nodes evs rest [[Hrep _] _] Hf ids asks.
  assert (Hl : length ids = length (filter mem es)) by (unfold ids; rewrite map_length, pos_from_length; reflexivity).
  destruct (Hok fuel h lb ids nodes evs (map ans (filter mem es) ++ rest) Hrep) as [H _]; [rewrite Hl; exact Hf|].
  cbv zeta in H. fold asks in H. rewrite H by (right; rewrite app_length, map_length; lia).
  unfold asks, ids. rewrite (has_search t mem q ans idof rest Ht es 0). reflexivity.
Qed.
(* checkExpectations of the call: hasFinalizedMatchingExpectations / hasUnmatchingExpectationsBecauseOfMissingParameters on the
   candidates are the two existsb of check_call *)
Theorem hasFinalizedMatchingExpectations_model :
  has_like src_mlist_hasFinalizedMatchingExpectations (LAsk "isMatchingActualCallAndFinalized") yes e_pot is_matching_fin
           (fun e => b2z (is_matching_fin e)).
Proof. apply has_like_intro; [apply hasFinalizedMatchingExpectations_spec | intro e; apply b2z_z2b]. Qed.
Theorem hasUnmatchingExpectationsBecauseOfMissingParameters_model :
  has_like src_mlist_hasUnmatchingExpectationsBecauseOfMissingParameters (LAsk "areParametersMatchingActualCall") no e_pot
           (fun e => negb (params_matching e)) (fun e => b2z (params_matching e)).
Proof.
  apply has_like_intro; [apply hasUnmatchingExpectationsBecauseOfMissingParameters_spec|]. intro e. rewrite no_negb, b2z_z2b. reflexivity.
Qed.
(* MockSupport: hasUnfulfilledExpectations / hasCallsOutOfOrder / hasExpectationWithName on the master list are `unfulfilled`,
   `existsb e_ooo`, `existsb (relates f)` *)
Theorem hasUnfulfilledExpectations_model :
  has_like src_mlist_hasUnfulfilledExpectations (LAsk "isFulfilled") no (fun _ => true) (fun e => negb (is_fulfilled e))
           (fun e => b2z (is_fulfilled e)).
Proof. apply has_like_intro; [apply hasUnfulfilledExpectations_spec|]. intro e. rewrite no_negb, b2z_z2b. reflexivity. Qed.
Lemma unfulfilled_is es : existsb (fun e => true && negb (is_fulfilled e)) es = unfulfilled es. Proof. reflexivity. Qed.
Theorem hasCallsOutOfOrder_model :
  has_like src_mlist_hasCallsOutOfOrder (LAsk "isOutOfOrder") yes (fun _ => true) e_ooo (fun e => b2z (e_ooo e)).
Proof. apply has_like_intro; [apply hasCallsOutOfOrder_spec | intro e; apply b2z_z2b]. Qed.
Theorem hasExpectationWithName_model nm f :
  has_like (fun fuel h evs answers this_ => src_mlist_hasExpectationWithName fuel h evs answers this_ nm)
           (fun id a => LAskArg "relatesTo" id nm a) yes (fun _ => true) (relates f) (fun e => b2z (relates f e)).
Proof. apply has_like_intro; [apply hasExpectationWithName_spec | intro e; apply b2z_z2b]. Qed.

(* ================================================================== 8. examples (vm_compute): the statements are not vacuous *)
(* block 0: a list object whose nodes are the blocks 3 -> 1 -> 4 -> 2, holding the expectations 11 12 13 14;
   block 5: an empty list object; block 6: a list object with the nodes 7 -> 8 holding 21 22 *)
Definition ex_h : heap :=
  [[VPtr (HPtr 3 0)]; mnode 12 (HPtr 4 0); mnode 14 HNull; mnode 11 (HPtr 1 0); mnode 13 (HPtr 2 0); [VPtr HNull];
   [VPtr (HPtr 7 0)]; mnode 21 (HPtr 8 0); mnode 22 HNull].
Example ex_rep : mlist_at ex_h 0 [11; 12; 13; 14] [3; 1; 4; 2]%nat.
Proof.
  split; [|repeat constructor; discriminate]. exists (HPtr 3 0). split; [reflexivity|]. split.
  - cbn. split; [reflexivity|]. exists (HPtr 1 0). split; [reflexivity|]. split; [reflexivity|]. exists (HPtr 4 0).
    split; [reflexivity|]. split; [reflexivity|]. exists (HPtr 2 0). split; [reflexivity|]. split; [reflexivity|]. exists HNull.
    split; reflexivity.
  - split; [repeat constructor; cbn; intuition discriminate | cbn; intuition discriminate].
Qed.
Example ex_rep_other : mlist_at ex_h 6 [21; 22] [7; 8]%nat.
Proof.
  split; [|repeat constructor; discriminate]. exists (HPtr 7 0). split; [reflexivity|]. split.
  - cbn. split; [reflexivity|]. exists (HPtr 8 0). split; [reflexivity|]. split; [reflexivity|]. exists HNull. split; reflexivity.
  - split; [repeat constructor; cbn; intuition discriminate | cbn; intuition discriminate].
Qed.

(* onlyKeepExpectationsRelatedTo with the answers 1 0 1 0 (a fifth answer is left in the stream): every expectation is asked once,
   in order; 12 and 14 go, their nodes (blocks 1 and 2) are deleted in list order; node 3 is relinked to node 4 *)
Example ex_onlyKeepRelatedTo :
  src_mlist_onlyKeepExpectationsRelatedTo 10 ex_h [] [1; 0; 1; 0; 5] (HPtr 0 0) 77 =
  FOk (tt,
       [[VPtr (HPtr 3 0)]; mnode 0 (HPtr 4 0); mnode 0 HNull; mnode 11 (HPtr 4 0); mnode 13 HNull; [VPtr HNull];
        [VPtr (HPtr 7 0)]; mnode 21 (HPtr 8 0); mnode 22 HNull],
       [LAskArg "relatesTo" 11 77 1; LAskArg "relatesTo" 12 77 0; LAskArg "relatesTo" 13 77 1; LAskArg "relatesTo" 14 77 0;
        LDelete (HPtr 1 0); LDelete (HPtr 2 0)],
       [5]).
Proof. vm_compute. reflexivity. Qed.
(* the same through the theorem: kept identities and nodes, deleted nodes *)
Example ex_onlyKeepRelatedTo_lists :
  keep_by [11; 12; 13; 14] (map drops_zero [1; 0; 1; 0; 5]) = [11; 13] /\
  keep_by [3; 1; 4; 2]%nat (map drops_zero [1; 0; 1; 0; 5]) = [3; 4]%nat /\
  drop_by [3; 1; 4; 2]%nat (map drops_zero [1; 0; 1; 0; 5]) = [1; 2]%nat.
Proof. repeat split; reflexivity. Qed.
(* fewer answers than expectations: the oracle is exhausted; fuel = length of the list: not enough; one more: enough *)
Example ex_onlyKeepRelatedTo_oob : src_mlist_onlyKeepExpectationsRelatedTo 10 ex_h [] [1; 0; 1] (HPtr 0 0) 77 = FOob.
Proof. vm_compute. reflexivity. Qed.
Example ex_onlyKeepRelatedTo_fuel4 : src_mlist_onlyKeepExpectationsRelatedTo 4 ex_h [] [1; 0; 1; 0] (HPtr 0 0) 77 = FNoFuel.
Proof. vm_compute. reflexivity. Qed.
Example ex_onlyKeepRelatedTo_fuel5 : exists h', src_mlist_onlyKeepExpectationsRelatedTo 5 ex_h [] [1; 0; 1; 0] (HPtr 0 0) 77 =
  FOk (tt, h', [LAskArg "relatesTo" 11 77 1; LAskArg "relatesTo" 12 77 0; LAskArg "relatesTo" 13 77 1; LAskArg "relatesTo" 14 77 0;
                LDelete (HPtr 1 0); LDelete (HPtr 2 0)], []).
Proof. eexists. vm_compute. reflexivity. Qed.
(* onlyKeepUnmatchingExpectations: the negation, and the reset told right after each yes *)
Example ex_onlyKeepUnmatching :
  src_mlist_onlyKeepUnmatchingExpectations 10 ex_h [] [0; 1; 0; 1; 9] (HPtr 0 0) =
  FOk (tt,
       [[VPtr (HPtr 3 0)]; mnode 0 (HPtr 4 0); mnode 0 HNull; mnode 11 (HPtr 4 0); mnode 13 HNull; [VPtr HNull];
        [VPtr (HPtr 7 0)]; mnode 21 (HPtr 8 0); mnode 22 HNull],
       [LAsk "isMatchingActualCallAndFinalized" 11 0;
        LAsk "isMatchingActualCallAndFinalized" 12 1; LTell "resetActualCallMatchingState" 12;
        LAsk "isMatchingActualCallAndFinalized" 13 0;
        LAsk "isMatchingActualCallAndFinalized" 14 1; LTell "resetActualCallMatchingState" 14;
        LDelete (HPtr 1 0); LDelete (HPtr 2 0)],
       [9]).
Proof. vm_compute. reflexivity. Qed.

(* removeFirstMatchingExpectation with the answers 0 1 ...: 12 is returned, its node (block 1) -- only that one -- is pruned, 13 and
   14 are not asked (the answers 1 5 stay in the stream) *)
Example ex_removeFirst :
  src_mlist_removeFirstMatchingExpectation 10 ex_h [] [0; 1; 1; 5] (HPtr 0 0) =
  FOk (12,
       [[VPtr (HPtr 3 0)]; mnode 0 (HPtr 4 0); mnode 14 HNull; mnode 11 (HPtr 4 0); mnode 13 (HPtr 2 0); [VPtr HNull];
        [VPtr (HPtr 7 0)]; mnode 21 (HPtr 8 0); mnode 22 HNull],
       [LAsk "isMatchingActualCall" 11 0; LAsk "isMatchingActualCall" 12 1; LDelete (HPtr 1 0)],
       [1; 5]).
Proof. vm_compute. reflexivity. Qed.
Example ex_removeFirst_lists :
  first_id yes [11; 12; 13; 14] [0; 1; 1; 5] = 12 /\ asked yes [11; 12; 13; 14] [0; 1; 1; 5] = [0; 1] /\
  keep_by [11; 12; 13; 14] (first_flag yes [0; 1; 1; 5]) = [11; 13; 14] /\
  drop_by [3; 1; 4; 2]%nat (first_flag yes [0; 1; 1; 5]) = [1]%nat.
Proof. repeat split; reflexivity. Qed.
(* no yes: NULL, everyone asked, nothing changes *)
Example ex_removeFirst_none :
  src_mlist_removeFirstMatchingExpectation 10 ex_h [] [0; 0; 0; 0; 5] (HPtr 0 0) =
  FOk (0, ex_h, [LAsk "isMatchingActualCall" 11 0; LAsk "isMatchingActualCall" 12 0; LAsk "isMatchingActualCall" 13 0;
                 LAsk "isMatchingActualCall" 14 0], [5]).
Proof. vm_compute. reflexivity. Qed.
Example ex_getFirst :
  src_mlist_getFirstMatchingExpectation 10 ex_h [] [0; 0; 1; 1] (HPtr 0 0) =
  FOk (13, ex_h, [LAsk "isMatchingActualCall" 11 0; LAsk "isMatchingActualCall" 12 0; LAsk "isMatchingActualCall" 13 1], [1]).
Proof. vm_compute. reflexivity. Qed.

(* pruneEmptyNodeFromList on a list 3 -> 5 -> 4 -> 1 -> 2 whose head run (3 5 4) and tail (2) are empty: only 12 (block 1) is
   left; the deleted nodes in list order; the blocks of the deleted nodes are as they were *)
Definition ex_z : heap :=
  [[VPtr (HPtr 3 0)]; mnode 12 (HPtr 2 0); mnode 0 HNull; mnode 0 (HPtr 5 0); mnode 0 (HPtr 1 0); mnode 0 (HPtr 4 0)].
Example ex_prune :
  src_mlist_pruneEmptyNodeFromList 10 ex_z [] [9] (HPtr 0 0) =
  FOk (tt,
       [[VPtr (HPtr 1 0)]; mnode 12 HNull; mnode 0 HNull; mnode 0 (HPtr 5 0); mnode 0 (HPtr 1 0); mnode 0 (HPtr 4 0)],
       [LDelete (HPtr 3 0); LDelete (HPtr 5 0); LDelete (HPtr 4 0); LDelete (HPtr 2 0)], [9]).
Proof. vm_compute. reflexivity. Qed.
Example ex_prune_lists :
  live_ids [0; 0; 0; 12; 0] = [12] /\ live_nodes [0; 0; 0; 12; 0] [3; 5; 4; 1; 2]%nat = [1]%nat /\
  dead_nodes [0; 0; 0; 12; 0] [3; 5; 4; 1; 2]%nat = [3; 5; 4; 2]%nat.
Proof. repeat split; reflexivity. Qed.

(* addExpectations from the list at block 6 into the list at block 0: two nodes (the new blocks 9, 10) at the END, in order *)
Example ex_addExpectations :
  src_mlist_addExpectations 10 ex_h [] [9] (HPtr 0 0) (HPtr 6 0) =
  FOk (tt,
       [[VPtr (HPtr 3 0)]; mnode 12 (HPtr 4 0); mnode 14 (HPtr 9 0); mnode 11 (HPtr 1 0); mnode 13 (HPtr 2 0); [VPtr HNull];
        [VPtr (HPtr 7 0)]; mnode 21 (HPtr 8 0); mnode 22 HNull; mnode 21 (HPtr 10 0); mnode 22 HNull],
       [LNew (HPtr 9 0); LNew (HPtr 10 0)], [9]).
Proof. vm_compute. reflexivity. Qed.
(* addPotentiallyMatchingExpectations from the list at block 0 into the empty list at block 5, answers 0 1 0 1 *)
Example ex_addPotentially :
  src_mlist_addPotentiallyMatchingExpectations 10 ex_h [] [0; 1; 0; 1; 9] (HPtr 5 0) (HPtr 0 0) =
  FOk (tt,
       [[VPtr (HPtr 3 0)]; mnode 12 (HPtr 4 0); mnode 14 HNull; mnode 11 (HPtr 1 0); mnode 13 (HPtr 2 0); [VPtr (HPtr 9 0)];
        [VPtr (HPtr 7 0)]; mnode 21 (HPtr 8 0); mnode 22 HNull; mnode 12 (HPtr 10 0); mnode 14 HNull],
       [LAsk "canMatchActualCalls" 11 0; LAsk "canMatchActualCalls" 12 1; LNew (HPtr 9 0);
        LAsk "canMatchActualCalls" 13 0; LAsk "canMatchActualCalls" 14 1; LNew (HPtr 10 0)], [9]).
Proof. vm_compute. reflexivity. Qed.
(* list == this.  addExpectations: out of every fuel (theorem addExpectations_self); the filtering ones come to an end when the
   answers let them: with 1 0 0 the copy of 11 appended behind 14 is asked too *)
Example ex_add_self_5 : src_mlist_addExpectations 5 ex_h [] [] (HPtr 0 0) (HPtr 0 0) = FNoFuel.
Proof. vm_compute. reflexivity. Qed.
Example ex_add_self_60 : src_mlist_addExpectations 60 ex_h [] [] (HPtr 0 0) (HPtr 0 0) = FNoFuel.
Proof. vm_compute. reflexivity. Qed.
Example ex_add_self_all : forall fuel, src_mlist_addExpectations fuel ex_h [] [] (HPtr 0 0) (HPtr 0 0) = FNoFuel.
Proof. intro fuel. apply (addExpectations_self fuel ex_h 0 _ _ [] [] ex_rep). discriminate. Qed.
Example ex_addRelated_self_ends :
  src_mlist_addExpectationsRelatedTo 20 ex_h [] [1; 0; 0; 0; 0] (HPtr 0 0) 77 (HPtr 0 0) =
  FOk (tt,
       [[VPtr (HPtr 3 0)]; mnode 12 (HPtr 4 0); mnode 14 (HPtr 9 0); mnode 11 (HPtr 1 0); mnode 13 (HPtr 2 0); [VPtr HNull];
        [VPtr (HPtr 7 0)]; mnode 21 (HPtr 8 0); mnode 22 HNull; mnode 11 HNull],
       [LAskArg "relatesTo" 11 77 1; LNew (HPtr 9 0); LAskArg "relatesTo" 12 77 0; LAskArg "relatesTo" 13 77 0;
        LAskArg "relatesTo" 14 77 0; LAskArg "relatesTo" 11 77 0], []).
Proof. vm_compute. reflexivity. Qed.
Example ex_addRelated_self_yes : src_mlist_addExpectationsRelatedTo 20 ex_h [] [1; 1; 1; 1; 1; 1; 1] (HPtr 0 0) 77 (HPtr 0 0) = FOob.
Proof. vm_compute. reflexivity. Qed.

(* the rest, once each *)
Example ex_deleteAll :
  src_mlist_deleteAllExpectationsAndClearList 10 ex_h [] [9] (HPtr 6 0) =
  FOk (tt,
       [[VPtr (HPtr 3 0)]; mnode 12 (HPtr 4 0); mnode 14 HNull; mnode 11 (HPtr 1 0); mnode 13 (HPtr 2 0); [VPtr HNull];
        [VPtr HNull]; mnode 21 (HPtr 8 0); mnode 22 HNull],
       [LDeleteCall 21; LDelete (HPtr 7 0); LDeleteCall 22; LDelete (HPtr 8 0)], [9]).
Proof. vm_compute. reflexivity. Qed.
Example ex_fulfilledFor :
  src_mlist_amountOfActualCallsFulfilledFor 10 ex_h [] [1; 3; 0; 1; 4; 0; 9] (HPtr 0 0) 77 =
  FOk (7, ex_h,
       [LAskArg "relatesTo" 11 77 1; LAsk "getActualCallsFulfilled" 11 3; LAskArg "relatesTo" 12 77 0;
        LAskArg "relatesTo" 13 77 1; LAsk "getActualCallsFulfilled" 13 4; LAskArg "relatesTo" 14 77 0], [9]).
Proof. vm_compute. reflexivity. Qed.
Example ex_unfulfilled :
  src_mlist_amountOfUnfulfilledExpectations 10 ex_h [] [1; 0; 0; 1; 9] (HPtr 0 0) =
  FOk (2, ex_h, [LAsk "isFulfilled" 11 1; LAsk "isFulfilled" 12 0; LAsk "isFulfilled" 13 0; LAsk "isFulfilled" 14 1], [9]).
Proof. vm_compute. reflexivity. Qed.
(* early exit: 13 and 14 are not asked *)
Example ex_hasName :
  src_mlist_hasExpectationWithName 10 ex_h [] [0; 1; 1; 1; 9] (HPtr 0 0) 77 =
  FOk (1, ex_h, [LAskArg "relatesTo" 11 77 0; LAskArg "relatesTo" 12 77 1], [1; 1; 9]).
Proof. vm_compute. reflexivity. Qed.
Example ex_hasUnfulfilled :
  src_mlist_hasUnfulfilledExpectations 10 ex_h [] [1; 1; 1; 1; 9] (HPtr 0 0) =
  FOk (0, ex_h, [LAsk "isFulfilled" 11 1; LAsk "isFulfilled" 12 1; LAsk "isFulfilled" 13 1; LAsk "isFulfilled" 14 1], [9]).
Proof. vm_compute. reflexivity. Qed.
Example ex_size : src_mlist_size 10 ex_h [] [9] (HPtr 0 0) = FOk (4, ex_h, [], [9]).
Proof. vm_compute. reflexivity. Qed.
Example ex_isEmpty : src_mlist_isEmpty 10 ex_h [] [9] (HPtr 5 0) = FOk (1, ex_h, [], [9]) /\
                     src_mlist_isEmpty 10 ex_h [] [9] (HPtr 0 0) = FOk (0, ex_h, [], [9]).
Proof. split; vm_compute; reflexivity. Qed.
Example ex_tell :
  src_mlist_parameterWasPassed 10 ex_h [] [9] (HPtr 0 0) 55 =
  FOk (tt, ex_h, [LTellArg "inputParameterWasPassed" 11 55; LTellArg "inputParameterWasPassed" 12 55;
                  LTellArg "inputParameterWasPassed" 13 55; LTellArg "inputParameterWasPassed" 14 55], [9]).
Proof. vm_compute. reflexivity. Qed.
Example ex_addExpectedCall :
  src_mlist_addExpectedCall 10 ex_h [] [9] (HPtr 5 0) 31 =
  FOk (tt,
       [[VPtr (HPtr 3 0)]; mnode 12 (HPtr 4 0); mnode 14 HNull; mnode 11 (HPtr 1 0); mnode 13 (HPtr 2 0); [VPtr (HPtr 9 0)];
        [VPtr (HPtr 7 0)]; mnode 21 (HPtr 8 0); mnode 22 HNull; mnode 31 HNull],
       [LNew (HPtr 9 0)], [9]).
Proof. vm_compute. reflexivity. Qed.

(* with the model: a master list of four expectations of the functions 5 5 6 5, the candidates are the 1st, 3rd and 4th;
   identities idof k = 11 + k; the heap list at block 0 holds 11 13 14 *)
Definition ex_e (f : name) (pot : bool) : expn := set_pot (mk_exp 1%N f [] [] None None false 0%N 0%N) pot.
Definition ex_es : list expn := [ex_e 5%N true; ex_e 5%N false; ex_e 6%N true; ex_e 5%N true].
Definition ex_idof (k : nat) : Z := 11 + Z.of_nat k.
Definition ex_hm : heap := [[VPtr (HPtr 1 0)]; mnode 11 (HPtr 2 0); mnode 13 (HPtr 3 0); mnode 14 HNull].
Example ex_cand_rep : cand_rep ex_hm 0 ex_es ex_idof [1; 2; 3]%nat.
Proof.
  split.
  - split; [|repeat constructor; discriminate]. exists (HPtr 1 0). split; [reflexivity|]. split.
    + cbn. split; [reflexivity|]. exists (HPtr 2 0). split; [reflexivity|]. split; [reflexivity|]. exists (HPtr 3 0).
      split; [reflexivity|]. split; [reflexivity|]. exists HNull. split; reflexivity.
    + split; [repeat constructor; cbn; intuition discriminate | cbn; intuition discriminate].
  - split; [intros i _; unfold ex_idof; lia | intros i j _ _; unfold ex_idof; lia].
Qed.
Example ex_model_answers : model_answers (relates 5%N) ex_es = [1; 0; 1]. Proof. reflexivity. Qed.
(* onlyKeepExpectationsRelatedTo with the model's answers: the heap list afterwards holds the candidates of keep_if *)
Example ex_keep_if :
  map ex_idof (pos_from e_pot 0 (keep_if (relates 5%N) ex_es)) = [11; 14] /\
  src_mlist_onlyKeepExpectationsRelatedTo 10 ex_hm [] (model_answers (relates 5%N) ex_es) (HPtr 0 0) 77 =
  FOk (tt, [[VPtr (HPtr 1 0)]; mnode 11 (HPtr 3 0); mnode 0 (HPtr 3 0); mnode 14 HNull],
       [LAskArg "relatesTo" 11 77 1; LAskArg "relatesTo" 13 77 0; LAskArg "relatesTo" 14 77 1; LDelete (HPtr 2 0)], []).
Proof. split; vm_compute; reflexivity. Qed.
